import H4.Interlace
import Mathlib.Tactic.Ring
/-! Helper lemmas for C09 (`GRIil_convert`): mixed-radix addressing, byte-buffer `blit`/`slice` algebra,
    and the refinement of the pointer-increment loops to a fold over coordinates. -/
namespace H4.Interlace

/-! ### three-digit mixed radix -/

theorem mix_lt {A B C a b c : Nat} (ha : a < A) (hb : b < B) (hc : c < C) :
    (a * B + b) * C + c < A * B * C := by
  have h1 : a * B + b + 1 ≤ A * B := by
    calc a * B + b + 1 ≤ a * B + B := by omega
      _ = (a + 1) * B := by ring
      _ ≤ A * B := Nat.mul_le_mul_right B ha
  calc (a * B + b) * C + c < (a * B + b) * C + C := by omega
    _ = (a * B + b + 1) * C := by ring
    _ ≤ A * B * C := Nat.mul_le_mul_right C h1

theorem mix2_inj {C m c m' c' : Nat} (hc : c < C) (hc' : c' < C) (h : m * C + c = m' * C + c') :
    m = m' ∧ c = c' := by
  have hC : 0 < C := by omega
  have e1 : (m * C + c) / C = m := by
    rw [Nat.add_comm, Nat.add_mul_div_right _ _ hC, Nat.div_eq_of_lt hc]; simp
  have e2 : (m' * C + c') / C = m' := by
    rw [Nat.add_comm, Nat.add_mul_div_right _ _ hC, Nat.div_eq_of_lt hc']; simp
  have hm : m = m' := by rw [← e1, ← e2, h]
  subst hm
  exact ⟨rfl, by omega⟩

theorem mix_inj {B C a b c a' b' c' : Nat} (hb : b < B) (hb' : b' < B) (hc : c < C) (hc' : c' < C)
    (h : (a * B + b) * C + c = (a' * B + b') * C + c') : a = a' ∧ b = b' ∧ c = c' := by
  obtain ⟨h1, h2⟩ := mix2_inj hc hc' h
  obtain ⟨h3, h4⟩ := mix2_inj hb hb' h1
  exact ⟨h3, h4, h2⟩

theorem mix_dec (B C p : Nat) : (p / C / B * B + p / C % B) * C + p % C = p := by
  rw [Nat.div_add_mod' (p / C) B, Nat.div_add_mod' p C]

theorem mix_dec_lt {A B C p : Nat} (h : p < A * B * C) :
    p / C / B < A ∧ p / C % B < B ∧ p % C < C := by
  have hC : 0 < C := by
    rcases Nat.eq_zero_or_pos C with h0 | h0
    · subst h0; simp at h
    · exact h0
  have hB : 0 < B := by
    rcases Nat.eq_zero_or_pos B with h0 | h0
    · subst h0; simp at h
    · exact h0
  refine ⟨?_, Nat.mod_lt _ hB, Nat.mod_lt _ hC⟩
  rw [Nat.div_div_eq_div_mul, Nat.div_lt_iff_lt_mul (Nat.mul_pos hC hB)]
  calc p < A * B * C := h
    _ = A * (C * B) := by ring

/-! ### buffers -/

@[simp] theorem length_blit (d : List Byte) (off : Nat) (s : List Byte) : (blit d off s).length = d.length := by
  simp [blit]; omega

theorem length_slice {b : List Byte} {off n : Nat} (h : off + n ≤ b.length) : (slice b off n).length = n := by
  simp [slice]; omega

theorem getElem?_slice (b : List Byte) (off n i : Nat) :
    (slice b off n)[i]? = if i < n then b[off + i]? else none := by
  simp [slice, List.getElem?_take]

theorem getElem?_blit {d : List Byte} {off : Nat} {s : List Byte} (h : off + s.length ≤ d.length) (i : Nat) :
    (blit d off s)[i]? = if off ≤ i ∧ i < off + s.length then s[i - off]? else d[i]? := by
  unfold blit
  have h1 : s.take (d.length - off) = s := List.take_of_length_le (by omega)
  rw [h1]
  by_cases c1 : i < off
  · rw [List.append_assoc, List.getElem?_append_left (by simp; omega)]
    simp [c1]
  · by_cases c2 : i < off + s.length
    · rw [List.append_assoc, List.getElem?_append_right (by simp; omega)]
      have : (List.take off d).length = off := by simp; omega
      rw [this, List.getElem?_append_left (by omega)]
      simp [c2]; omega
    · rw [List.getElem?_append_right (by simp; omega)]
      simp
      have : min off d.length = off := by omega
      rw [this, if_neg (by omega)]
      congr 1; omega

theorem slice_blit_same {d : List Byte} {off : Nat} {s : List Byte} (h : off + s.length ≤ d.length) :
    slice (blit d off s) off s.length = s := by
  apply List.ext_getElem?
  intro i
  rw [getElem?_slice, getElem?_blit h]
  by_cases c : i < s.length
  · simp [c]
  · simp [c]

theorem slice_blit_disj {d : List Byte} {off : Nat} {s : List Byte} (h : off + s.length ≤ d.length)
    {q n : Nat} (hd : q + n ≤ off ∨ off + s.length ≤ q) : slice (blit d off s) q n = slice d q n := by
  apply List.ext_getElem?
  intro i
  rw [getElem?_slice, getElem?_slice, getElem?_blit h]
  by_cases c : i < n
  · simp only [c, if_true]; rw [if_neg (by omega)]
  · simp [c]

/-- a buffer of `N` elements of `csz` bytes is determined by its `N` element slices -/
theorem chunk_ext {csz N : Nat} {b b' : List Byte} (hb : b.length = csz * N) (hb' : b'.length = csz * N)
    (h : ∀ q < N, slice b (csz * q) csz = slice b' (csz * q) csz) : b = b' := by
  apply List.ext_getElem?
  intro i
  by_cases c : i < csz * N
  · have hc : 0 < csz := by
      rcases Nat.eq_zero_or_pos csz with h0 | h0
      · subst h0; simp at c
      · exact h0
    have hq : i / csz < N := by
      rw [Nat.div_lt_iff_lt_mul hc]; rw [Nat.mul_comm]; exact c
    have := congrArg (fun l => l[i % csz]?) (h (i / csz) hq)
    simp only [getElem?_slice, Nat.mod_lt _ hc, if_true, Nat.div_add_mod] at this
    exact this
  · rw [List.getElem?_eq_none (by omega), List.getElem?_eq_none (by omega)]


/-! ### element moves -/

/-- one element move: element `m.2` of `inb` to element position `m.1` of the output -/
def move (inb : List Byte) (csz : Nat) (dst src : Coord → Nat) (o : List Byte) (p : Coord) : List Byte :=
  blit o (csz * dst p) (slice inb (csz * src p) csz)

theorem length_foldl_move (inb : List Byte) (csz : Nat) (dst src : Coord → Nat) (cs : List Coord) (o : List Byte) :
    (cs.foldl (move inb csz dst src) o).length = o.length := by
  induction cs generalizing o with
  | nil => rfl
  | cons h t ih => simp [List.foldl_cons, ih, move]

section
variable {inb : List Byte} {csz N : Nat} {dst src : Coord → Nat}

theorem move_same {o : List Byte} {p : Coord} (ho : o.length = csz * N) (hi : inb.length = csz * N)
    (hd : dst p < N) (hs : src p < N) :
    slice (move inb csz dst src o p) (csz * dst p) csz = slice inb (csz * src p) csz := by
  have h1 : csz * src p + csz ≤ inb.length := by
    rw [hi]; calc csz * src p + csz = csz * (src p + 1) := by ring
      _ ≤ csz * N := Nat.mul_le_mul_left _ hs
  have h2 : csz * dst p + csz ≤ o.length := by
    rw [ho]; calc csz * dst p + csz = csz * (dst p + 1) := by ring
      _ ≤ csz * N := Nat.mul_le_mul_left _ hd
  have hl := length_slice h1
  unfold move
  have := slice_blit_same (d := o) (off := csz * dst p) (s := slice inb (csz * src p) csz) (by rw [hl]; exact h2)
  rw [hl] at this
  exact this

theorem move_other {o : List Byte} {p : Coord} {q : Nat} (ho : o.length = csz * N) (hi : inb.length = csz * N)
    (hd : dst p < N) (hs : src p < N) (hq : q ≠ dst p) :
    slice (move inb csz dst src o p) (csz * q) csz = slice o (csz * q) csz := by
  have h1 : csz * src p + csz ≤ inb.length := by
    rw [hi]; calc csz * src p + csz = csz * (src p + 1) := by ring
      _ ≤ csz * N := Nat.mul_le_mul_left _ hs
  have h2 : csz * dst p + csz ≤ o.length := by
    rw [ho]; calc csz * dst p + csz = csz * (dst p + 1) := by ring
      _ ≤ csz * N := Nat.mul_le_mul_left _ hd
  have hl := length_slice h1
  unfold move
  apply slice_blit_disj (by rw [hl]; exact h2)
  rw [hl]
  rcases Nat.lt_or_gt_of_ne hq with c | c
  · left
    calc csz * q + csz = csz * (q + 1) := by ring
      _ ≤ csz * dst p := Nat.mul_le_mul_left _ c
  · right
    calc csz * dst p + csz = csz * (dst p + 1) := by ring
      _ ≤ csz * q := Nat.mul_le_mul_left _ c

theorem foldl_move_other {cs : List Coord} {o : List Byte} {q : Nat} (ho : o.length = csz * N)
    (hi : inb.length = csz * N) (hr : ∀ p ∈ cs, dst p < N ∧ src p < N) (hq : ∀ p ∈ cs, q ≠ dst p) :
    slice (cs.foldl (move inb csz dst src) o) (csz * q) csz = slice o (csz * q) csz := by
  induction cs generalizing o with
  | nil => rfl
  | cons h t ih =>
    rw [List.foldl_cons, ih (by simp [move, ho]) (fun p hp => hr p (List.mem_cons_of_mem _ hp))
      (fun p hp => hq p (List.mem_cons_of_mem _ hp))]
    exact move_other ho hi (hr h List.mem_cons_self).1 (hr h List.mem_cons_self).2 (hq h List.mem_cons_self)

/-- after all moves of `cs`, the element at `dst p` is the source element `src p`, provided that moves with the
    same destination have the same source (no Nodup needed: the last writer wins and all writers agree) -/
theorem foldl_move_mem {cs : List Coord} {o : List Byte} {p : Coord} (ho : o.length = csz * N)
    (hi : inb.length = csz * N) (hr : ∀ p ∈ cs, dst p < N ∧ src p < N)
    (hinj : ∀ p ∈ cs, ∀ p' ∈ cs, dst p = dst p' → src p = src p') (hp : p ∈ cs) :
    slice (cs.foldl (move inb csz dst src) o) (csz * dst p) csz = slice inb (csz * src p) csz := by
  induction cs generalizing o p with
  | nil => cases hp
  | cons h t ih =>
    rw [List.foldl_cons]
    have hr' : ∀ p ∈ t, dst p < N ∧ src p < N := fun p hp => hr p (List.mem_cons_of_mem _ hp)
    have ho' : (move inb csz dst src o h).length = csz * N := by simp [move, ho]
    by_cases c : ∃ p' ∈ t, dst p' = dst p
    · obtain ⟨p', hp', e⟩ := c
      have := ih (o := move inb csz dst src o h) (p := p') ho' hr'
        (fun a ha b hb => hinj a (List.mem_cons_of_mem _ ha) b (List.mem_cons_of_mem _ hb)) hp'
      rw [e] at this
      rw [this, hinj p' (List.mem_cons_of_mem _ hp') p hp e]
    · have hne : ∀ p' ∈ t, dst p ≠ dst p' := fun p' hp' e => c ⟨p', hp', e.symm⟩
      rw [foldl_move_other ho' hi hr' hne]
      rcases List.mem_cons.mp hp with e | e
      · subst e
        exact move_same ho hi (hr p List.mem_cons_self).1 (hr p List.mem_cons_self).2
      · exact absurd rfl (hne p e)
end


/-! ### the loops of `GRIil_convert` -/

theorem getD_map_range {f : Nat → Nat} {n k : Nat} (h : k < n) : ((List.range n).map f).getD k 0 = f k := by
  simp [List.getD_eq_getElem?_getD, h]

theorem set_map_range (f : Nat → Nat) (n m v : Nat) :
    ((List.range n).map f).set m v = (List.range n).map (fun k => if k = m then v else f k) := by
  apply List.ext_getElem
  · simp
  · intro i h1 h2
    simp [List.getElem_set]
    split <;> rename_i c
    · simp [c]
    · have : ¬ i = m := fun e => c e.symm
      simp [this]

theorem foldl_congr_mem {α β : Type} {f g : β → α → β} {l : List α} (h : ∀ b, ∀ x ∈ l, f b x = g b x) (init : β) :
    l.foldl f init = l.foldl g init := by
  induction l generalizing init with
  | nil => rfl
  | cons a t ih =>
    rw [List.foldl_cons, List.foldl_cons, h init a List.mem_cons_self]
    exact ih (fun b x hx => h b x (List.mem_cons_of_mem _ hx)) _

/-- pointer arrays as functions of the component index -/
def mkSt (ncomp : Nat) (fin fout : Nat → Nat) (o : List Byte) : St :=
  { inp := (List.range ncomp).map fin, outp := (List.range ncomp).map fout, out := o }

section
variable (inb : List Byte) (ncomp csz ia oa : Nat)

theorem kLoop_aux (fin fout : Nat → Nat) (o : List Byte) (m : Nat) (hm : m ≤ ncomp) :
    (List.range m).foldl (kBody inb csz ((List.range ncomp).map fun _ => ia) ((List.range ncomp).map fun _ => oa))
        (mkSt ncomp fin fout o)
      = mkSt ncomp (fun k => if k < m then fin k + ia else fin k) (fun k => if k < m then fout k + oa else fout k)
          ((List.range m).foldl (fun o k => blit o (fout k) (slice inb (fin k) csz)) o) := by
  induction m with
  | zero => simp [mkSt]
  | succ m ih =>
    rw [List.range_succ, List.foldl_append, List.foldl_append, ih (by omega)]
    simp only [List.foldl_cons, List.foldl_nil, kBody, mkSt]
    have hm' : m < ncomp := by omega
    rw [getD_map_range hm', getD_map_range hm', getD_map_range hm', getD_map_range hm', set_map_range, set_map_range]
    simp only [Nat.lt_irrefl, if_false]
    congr 1
    · apply List.map_congr_left; intro k _; by_cases c : k = m
      · subst c; simp
      · by_cases c2 : k < m
        · simp [c, c2]; omega
        · simp [c, c2]; omega
    · apply List.map_congr_left; intro k _; by_cases c : k = m
      · subst c; simp
      · by_cases c2 : k < m
        · simp [c, c2]; omega
        · simp [c, c2]; omega

theorem kLoop_spec (fin fout : Nat → Nat) (o : List Byte) :
    (List.range ncomp).foldl (kBody inb csz ((List.range ncomp).map fun _ => ia) ((List.range ncomp).map fun _ => oa))
        (mkSt ncomp fin fout o)
      = mkSt ncomp (fun k => fin k + ia) (fun k => fout k + oa)
          ((List.range ncomp).foldl (fun o k => blit o (fout k) (slice inb (fin k) csz)) o) := by
  rw [kLoop_aux inb ncomp csz ia oa fin fout o ncomp (Nat.le_refl _)]
  simp only [mkSt]
  congr 1
  · apply List.map_congr_left; intro k hk; simp at hk; simp [hk]
  · apply List.map_congr_left; intro k hk; simp at hk; simp [hk]

theorem wrapLoop_aux (la ola : Nat) (fin fout : Nat → Nat) (o : List Byte) (m : Nat) (hm : m ≤ ncomp) :
    (List.range m).foldl (wrapBody ((List.range ncomp).map fun _ => la) ((List.range ncomp).map fun _ => ola))
        (mkSt ncomp fin fout o)
      = mkSt ncomp (fun k => if k < m then fin k + la else fin k) (fun k => if k < m then fout k + ola else fout k) o := by
  induction m with
  | zero => simp [mkSt]
  | succ m ih =>
    rw [List.range_succ, List.foldl_append, ih (by omega)]
    simp only [List.foldl_cons, List.foldl_nil, wrapBody, mkSt]
    have hm' : m < ncomp := by omega
    rw [getD_map_range hm', getD_map_range hm', getD_map_range hm', getD_map_range hm', set_map_range, set_map_range]
    simp only [Nat.lt_irrefl, if_false]
    congr 1
    · apply List.map_congr_left; intro k _; by_cases c : k = m
      · subst c; simp
      · by_cases c2 : k < m
        · simp [c, c2]; omega
        · simp [c, c2]; omega
    · apply List.map_congr_left; intro k _; by_cases c : k = m
      · subst c; simp
      · by_cases c2 : k < m
        · simp [c, c2]; omega
        · simp [c, c2]; omega

theorem wrapLoop_spec (la ola : Nat) (fin fout : Nat → Nat) (o : List Byte) :
    (List.range ncomp).foldl (wrapBody ((List.range ncomp).map fun _ => la) ((List.range ncomp).map fun _ => ola))
        (mkSt ncomp fin fout o)
      = mkSt ncomp (fun k => fin k + la) (fun k => fout k + ola) o := by
  rw [wrapLoop_aux ncomp la ola fin fout o ncomp (Nat.le_refl _)]
  simp only [mkSt]
  congr 1
  · apply List.map_congr_left; intro k hk; simp at hk; simp [hk]
  · apply List.map_congr_left; intro k hk; simp at hk; simp [hk]

/-- `for (j…) for (k…)`: after `n` pixels every pointer has advanced by `n` pixel increments -/
theorem jLoop_spec (fin fout : Nat → Nat) (o : List Byte) (n : Nat) :
    (List.range n).foldl (jBody inb ncomp csz ((List.range ncomp).map fun _ => ia) ((List.range ncomp).map fun _ => oa))
        (mkSt ncomp fin fout o)
      = mkSt ncomp (fun k => fin k + n * ia) (fun k => fout k + n * oa)
          ((List.range n).foldl (fun o j => (List.range ncomp).foldl
              (fun o k => blit o (fout k + j * oa) (slice inb (fin k + j * ia) csz)) o) o) := by
  induction n with
  | zero => simp [mkSt]
  | succ n ih =>
    rw [List.range_succ, List.foldl_append, List.foldl_append, ih]
    simp only [List.foldl_cons, List.foldl_nil, jBody]
    rw [kLoop_spec]
    simp only [mkSt]
    congr 1
    · apply List.map_congr_left; intro k _; ring
    · apply List.map_congr_left; intro k _; ring

/-- the whole `for (i…)` nest -/
theorem iLoop_spec (W la ola : Nat) (wrap : Bool) (fin fout : Nat → Nat) (o : List Byte) (n : Nat) :
    (List.range n).foldl (iBody inb W ncomp csz
          ⟨(List.range ncomp).map fin, (List.range ncomp).map fun _ => ia, (List.range ncomp).map fun _ => la⟩
          ⟨(List.range ncomp).map fout, (List.range ncomp).map fun _ => oa, (List.range ncomp).map fun _ => ola⟩ wrap)
        (mkSt ncomp fin fout o)
      = mkSt ncomp (fun k => fin k + n * (W * ia + if wrap then la else 0)) (fun k => fout k + n * (W * oa + if wrap then ola else 0))
          ((List.range n).foldl (fun o i => (List.range W).foldl (fun o j => (List.range ncomp).foldl
              (fun o k => blit o (fout k + i * (W * oa + if wrap then ola else 0) + j * oa)
                            (slice inb (fin k + i * (W * ia + if wrap then la else 0) + j * ia) csz)) o) o) o) := by
  induction n with
  | zero => simp [mkSt]
  | succ n ih =>
    rw [List.range_succ, List.foldl_append, List.foldl_append, ih]
    simp only [List.foldl_cons, List.foldl_nil, iBody]
    rw [jLoop_spec]
    cases wrap with
    | true =>
      simp only [if_true]
      rw [wrapLoop_spec]
      simp only [mkSt]
      congr 1
      · apply List.map_congr_left; intro k _; ring
      · apply List.map_congr_left; intro k _; ring
    | false =>
      simp only [mkSt, Bool.false_eq_true, if_false]
      congr 1
      · apply List.map_congr_left; intro k _; ring
      · apply List.map_congr_left; intro k _; ring
end


/-! ### refinement to element moves -/

/-- all coordinates in the order the C loops visit them (`i` = row, `j` = column, `k` = component) -/
def allCoords (W H ncomp : Nat) : List Coord :=
  (List.range H).flatMap fun i => (List.range W).flatMap fun j => (List.range ncomp).map fun k => ⟨j, i, k⟩

theorem mem_allCoords {W H ncomp : Nat} {p : Coord} : p ∈ allCoords W H ncomp ↔ p.InRange W H ncomp := by
  simp only [allCoords, List.mem_flatMap, List.mem_map, List.mem_range, Coord.InRange]
  constructor
  · rintro ⟨i, hi, j, hj, k, hk, rfl⟩; exact ⟨hj, hi, hk⟩
  · rintro ⟨hx, hy, hc⟩; exact ⟨p.y, hy, p.x, hx, p.c, hc, rfl⟩

def baseOf (il : Il) (W H csz : Nat) (k : Nat) : Nat :=
  match il with
  | .pixel => k * csz
  | .line => k * W * csz
  | .component => k * H * W * csz

def paOf (il : Il) (ncomp csz : Nat) : Nat :=
  match il with
  | .pixel => csz * ncomp
  | .line => csz
  | .component => csz

def laOf (il : Il) (W ncomp csz : Nat) : Nat :=
  match il with
  | .pixel => 0
  | .line => (ncomp - 1) * W * csz
  | .component => 0

theorem setup_eq (il : Il) (W H ncomp csz : Nat) :
    setup il W H ncomp csz = ⟨(List.range ncomp).map (baseOf il W H csz), (List.range ncomp).map fun _ => paOf il ncomp csz,
      (List.range ncomp).map fun _ => laOf il W ncomp csz⟩ := by
  cases il <;> rfl

/-- the incrementally maintained pointer equals the closed-form address -/
theorem ptr_closed (il : Il) (W H ncomp csz : Nat) (wrap : Bool) (hw : il = .line → wrap = true) {i j k : Nat} (hk : k < ncomp) :
    baseOf il W H csz k + i * (W * paOf il ncomp csz + if wrap then laOf il W ncomp csz else 0) + j * paOf il ncomp csz
      = csz * ilAddr il W H ncomp ⟨j, i, k⟩ := by
  cases il with
  | pixel => simp only [baseOf, paOf, laOf, ilAddr, ite_self]; ring
  | component => simp only [baseOf, paOf, laOf, ilAddr, ite_self]; ring
  | line =>
    rw [hw rfl]
    obtain ⟨n, rfl⟩ : ∃ n, ncomp = n + 1 := ⟨ncomp - 1, by omega⟩
    simp only [baseOf, paOf, laOf, ilAddr, if_true, Nat.add_sub_cancel]; ring

/-- **refinement**: for `inil ≠ outil` the pointer loops perform exactly the element moves
    `ilAddr a p ↦ ilAddr b p` for all coordinates in row/column/component order -/
theorem convert_eq_moves {a b : Il} (hab : a ≠ b) (W H ncomp csz : Nat) (inb outb : List Byte) :
    convert a b W H ncomp csz inb outb
      = (allCoords W H ncomp).foldl (move inb csz (ilAddr b W H ncomp) (ilAddr a W H ncomp)) outb := by
  unfold convert
  rw [if_neg hab]
  simp only [setup_eq]
  have := iLoop_spec inb ncomp csz (paOf a ncomp csz) (paOf b ncomp csz) W (laOf a W ncomp csz) (laOf b W ncomp csz)
    (decide (a = .line) || decide (b = .line)) (baseOf a W H csz) (baseOf b W H csz) outb H
  simp only [mkSt] at this
  rw [this]
  simp only [allCoords, List.foldl_flatMap, List.foldl_map]
  apply foldl_congr_mem; intro o i _
  apply foldl_congr_mem; intro o j _
  apply foldl_congr_mem; intro o k hk
  rw [List.mem_range] at hk
  rw [ptr_closed a W H ncomp csz _ (by intro h; simp [h]) hk, ptr_closed b W H ncomp csz _ (by intro h; simp [h]) hk]
  rfl


/-! ### the address maps are bijections; the conversion moves every element -/

section
variable {W H ncomp : Nat}

theorem ilAddr_lt (il : Il) {p : Coord} (h : p.InRange W H ncomp) : ilAddr il W H ncomp p < W * H * ncomp := by
  obtain ⟨hx, hy, hc⟩ := h
  cases il with
  | pixel => calc _ < H * W * ncomp := mix_lt hy hx hc
      _ = _ := by ring
  | line => calc _ < H * ncomp * W := mix_lt hy hc hx
      _ = _ := by ring
  | component => calc _ < ncomp * H * W := mix_lt hc hy hx
      _ = _ := by ring

theorem ilAddr_inj (il : Il) {p q : Coord} (hp : p.InRange W H ncomp) (hq : q.InRange W H ncomp)
    (h : ilAddr il W H ncomp p = ilAddr il W H ncomp q) : p = q := by
  obtain ⟨hx, hy, hc⟩ := hp
  obtain ⟨hx', hy', hc'⟩ := hq
  cases p; cases q
  cases il with
  | pixel => obtain ⟨e1, e2, e3⟩ := mix_inj hx hx' hc hc' h; simp_all
  | line => obtain ⟨e1, e2, e3⟩ := mix_inj hc hc' hx hx' h; simp_all
  | component => obtain ⟨e1, e2, e3⟩ := mix_inj hy hy' hx hx' h; simp_all

theorem ilAddr_coordOf (il : Il) (a : Nat) : ilAddr il W H ncomp (coordOf il W H ncomp a) = a := by
  cases il <;> exact mix_dec _ _ _

theorem coordOf_inRange (il : Il) {a : Nat} (h : a < W * H * ncomp) : (coordOf il W H ncomp a).InRange W H ncomp := by
  cases il with
  | pixel =>
    have : a < H * W * ncomp := by calc a < _ := h
      _ = _ := by ring
    obtain ⟨h1, h2, h3⟩ := mix_dec_lt this; exact ⟨h2, h1, h3⟩
  | line =>
    have : a < H * ncomp * W := by calc a < _ := h
      _ = _ := by ring
    obtain ⟨h1, h2, h3⟩ := mix_dec_lt this; exact ⟨h3, h1, h2⟩
  | component =>
    have : a < ncomp * H * W := by calc a < _ := h
      _ = _ := by ring
    obtain ⟨h1, h2, h3⟩ := mix_dec_lt this; exact ⟨h3, h2, h1⟩
end

theorem blit_zero_full {o s : List Byte} (h : s.length = o.length) : blit o 0 s = s := by
  simp [blit, h]
  exact List.take_of_length_le (by omega)

@[simp] theorem length_convert (a b : Il) (W H ncomp csz : Nat) (inb outb : List Byte) :
    (convert a b W H ncomp csz inb outb).length = outb.length := by
  by_cases hab : a = b
  · simp [convert, hab]
  · rw [convert_eq_moves hab, length_foldl_move]

/-- every in-range component value is moved from its `a`-address to its `b`-address (all 9 pairs) -/
theorem convert_slice (a b : Il) {W H ncomp csz : Nat} {inb outb : List Byte}
    (hi : inb.length = csz * (W * H * ncomp)) (ho : outb.length = csz * (W * H * ncomp))
    {p : Coord} (hp : p.InRange W H ncomp) :
    slice (convert a b W H ncomp csz inb outb) (csz * ilAddr b W H ncomp p) csz
      = slice inb (csz * ilAddr a W H ncomp p) csz := by
  by_cases hab : a = b
  · subst hab
    have : inb.take (W * H * (csz * ncomp)) = inb := List.take_of_length_le (by rw [hi]; apply Nat.le_of_eq; ring)
    simp only [convert, if_true, this]
    rw [blit_zero_full (by rw [hi, ho])]
  · rw [convert_eq_moves hab]
    apply foldl_move_mem ho hi
    · intro q hq; rw [mem_allCoords] at hq; exact ⟨ilAddr_lt b hq, ilAddr_lt a hq⟩
    · intro q hq q' hq' e; rw [mem_allCoords] at hq hq'; rw [ilAddr_inj b hq hq' e]
    · exact mem_allCoords.mpr hp


end H4.Interlace
