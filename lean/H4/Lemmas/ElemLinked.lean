import H4.Lemmas.ElemDisk
import H4.Lemmas.ElemWalk
/-! `HLPread` against the byte-array view (`File.lbyte`). -/
namespace H4.Elem
open H4.Gen.Hdf

theorem tiles_tbl_lt (first blk nb L : Nat) (q : Piece) (p len : Nat) (hidx : q.idx < nb)
    (hstart : blockStart first blk (q.tbl * nb + q.idx) + q.rel = p) (hp : p < len)
    (hcov : len ≤ blockStart first blk (L * nb)) : q.tbl < L := by
  by_cases h : q.tbl < L
  · exact h
  · exfalso
    have h1 : L * nb ≤ q.tbl * nb + q.idx := by
      have : L * nb ≤ q.tbl * nb := Nat.mul_le_mul_right nb (by omega)
      omega
    have := blockStart_mono first blk _ _ h1
    omega

/-- the bytes of one piece that lies in an existing block -/
theorem readBlock_spec (f : File) (li : LinkInfo) (hw : WFL f li) (q : Piece) (p : Nat)
    (ht : q.tbl < li.tables.length) (hidx : q.idx < li.numBlocks)
    (hcur : q.cur = blockLenOf li.firstLen li.blockLen (q.tbl * li.numBlocks + q.idx)) (hn : 1 ≤ q.n)
    (hfit : q.rel + q.n ≤ q.cur)
    (hstart : blockStart li.firstLen li.blockLen (q.tbl * li.numBlocks + q.idx) + q.rel = p)
    (href : li.blockRef q.tbl q.idx ≠ 0) (bs : Bytes)
    (hr : f.readBlock (li.blockRef q.tbl q.idx) q.rel q.n = some bs) :
    bs = (List.range q.n).map (fun j => f.lbyte li (p + j)) := by
  obtain ⟨o, ho⟩ := hw.block_ok q.tbl q.idx ht hidx href
  unfold File.readBlock at hr
  rw [ho] at hr
  simp only at hr
  rw [← hcur] at hr
  have h1 : ¬ (q.rel > q.cur) := by omega
  have h2 : ¬ (q.n = 0 ∨ q.n + q.rel > q.cur) := by omega
  simp only [h1, h2, if_false] at hr
  rw [hpRead_eq _ _ _ _ hr]
  apply List.map_congr_left
  intro j hj
  have hj : j < q.n := List.mem_range.mp hj
  unfold File.lbyte
  have hsb := startBlock_block li.firstLen li.blockLen (q.tbl * li.numBlocks + q.idx) (q.rel + j) hw.blk_pos
    (by rw [← hcur]; omega)
  have e : p + j = blockStart li.firstLen li.blockLen (q.tbl * li.numBlocks + q.idx) + (q.rel + j) := by omega
  rw [e, hsb]
  simp only
  obtain ⟨hd, hm⟩ := mul_add_div_mod q.tbl li.numBlocks q.idx hidx
  rw [hd, hm]
  unfold File.blockByte
  simp only [href, if_false, ho]
  congr 1
  omega

/-- a piece in a hole reads zeros in the byte-array view as well -/
theorem hole_spec (f : File) (li : LinkInfo) (hw : WFL f li) (q : Piece) (p : Nat)
    (hidx : q.idx < li.numBlocks)
    (hcur : q.cur = blockLenOf li.firstLen li.blockLen (q.tbl * li.numBlocks + q.idx))
    (hfit : q.rel + q.n ≤ q.cur)
    (hstart : blockStart li.firstLen li.blockLen (q.tbl * li.numBlocks + q.idx) + q.rel = p)
    (href : li.blockRef q.tbl q.idx = 0) :
    zeros q.n = (List.range q.n).map (fun j => f.lbyte li (p + j)) := by
  apply List.ext_getElem?
  intro j
  simp only [zeros, List.getElem?_replicate, List.getElem?_map, List.getElem?_range]
  by_cases hj : j < q.n
  · simp only [hj, if_true]
    rw [List.getElem?_range hj]
    simp only [Option.map_some]
    unfold File.lbyte
    have hsb := startBlock_block li.firstLen li.blockLen (q.tbl * li.numBlocks + q.idx) (q.rel + j) hw.blk_pos
      (by rw [← hcur]; omega)
    have e : p + j = blockStart li.firstLen li.blockLen (q.tbl * li.numBlocks + q.idx) + (q.rel + j) := by omega
    rw [e, hsb]
    simp only
    obtain ⟨hd, hm⟩ := mul_add_div_mod q.tbl li.numBlocks q.idx hidx
    rw [hd, hm]
    simp [File.blockByte, href]
  · simp [hj]

theorem range_map_append (g : Nat → UInt8) (a b : Nat) :
    (List.range a).map g ++ (List.range b).map (fun j => g (a + j)) = (List.range (a + b)).map g := by
  rw [List.range_add, List.map_append, List.map_map]
  rfl

/-- the read loop delivers, piece after piece, exactly the bytes of the range it walks — or fails as a whole -/
theorem readPieces_spec (f : File) (li : LinkInfo) (hw : WFL f li) :
    ∀ (ps : List Piece) (p e cnt : Nat) (acc : Bytes),
      Tiles li.firstLen li.blockLen li.numBlocks p ps e → e ≤ li.length →
      readPieces f li ps cnt acc = .fail ∨
      readPieces f li ps cnt acc = .data ((cnt + (e - p) : Nat) : Int) (acc ++ (List.range (e - p)).map (fun j => f.lbyte li (p + j))) := by
  intro ps
  induction ps with
  | nil =>
    intro p e cnt acc ht _
    simp only [Tiles] at ht
    subst ht
    right
    simp [readPieces]
  | cons q rest ih =>
    intro p e cnt acc ht he
    simp only [Tiles] at ht
    obtain ⟨hidx, hcur, hn, hfit, hstart, hrest⟩ := ht
    have hpe : p + q.n ≤ e := by
      clear ih
      -- the remaining pieces tile [p + q.n, e)
      have : ∀ (l : List Piece) (a b : Nat), Tiles li.firstLen li.blockLen li.numBlocks a l b → a ≤ b := by
        intro l
        induction l with
        | nil => intro a b h; simp only [Tiles] at h; omega
        | cons x xs ihx => intro a b h; simp only [Tiles] at h; have := ihx _ _ h.2.2.2.2.2; omega
      exact this _ _ _ hrest
    have ht : q.tbl < li.tables.length :=
      tiles_tbl_lt li.firstLen li.blockLen li.numBlocks li.tables.length q p li.length hidx hstart (by omega) hw.covers
    simp only [readPieces]
    have h1 : ¬ (q.tbl ≥ li.tables.length) := by omega
    simp only [h1, if_false]
    by_cases href : li.blockRef q.tbl q.idx = 0
    · simp only [href, bne_self_eq_false, Bool.false_eq_true, if_false]
      rcases ih (p + q.n) e (cnt + q.n) (acc ++ zeros q.n) hrest he with h | h
      · left; exact h
      · right
        rw [h, hole_spec f li hw q p hidx hcur hfit hstart href]
        have e1 : cnt + q.n + (e - (p + q.n)) = cnt + (e - p) := by omega
        rw [e1, List.append_assoc]
        congr 2
        have e2 : e - p = q.n + (e - (p + q.n)) := by omega
        rw [e2, ← range_map_append (fun j => f.lbyte li (p + j)) q.n (e - (p + q.n))]
        congr 2
        funext j
        congr 1
        omega
    · have hb : (li.blockRef q.tbl q.idx != 0) = true := by simp [href]
      simp only [hb, if_true]
      cases hr : f.readBlock (li.blockRef q.tbl q.idx) q.rel q.n with
      | none => left; rfl
      | some bs =>
        simp only
        have hbs := readBlock_spec f li hw q p ht hidx hcur hn hfit hstart href bs hr
        have hlen : bs.length = q.n := by rw [hbs]; simp
        rw [hlen, Nat.sub_self]
        rcases ih (p + q.n) e (cnt + q.n) (acc ++ bs ++ zeros 0) hrest he with h | h
        · left; exact h
        · right
          rw [h, hbs]
          have e1 : cnt + q.n + (e - (p + q.n)) = cnt + (e - p) := by omega
          rw [e1]
          simp only [zeros, List.replicate_zero, List.append_nil, List.append_assoc]
          congr 2
          have e2 : e - p = q.n + (e - (p + q.n)) := by omega
          rw [e2, ← range_map_append (fun j => f.lbyte li (p + j)) q.n (e - (p + q.n))]
          congr 2
          funext j
          congr 1
          omega

end H4.Elem

namespace H4.Elem
open H4.Gen.Hdf

theorem hlpRead_len (L p : Nat) (length : Int) (hl : 0 ≤ length) :
    let len0 : Int := if length = 0 then (L : Int) - p else length
    let len : Int := if (p : Int) + len0 > L then (L : Int) - p else len0
    (len ≤ 0 ∧ readCount L p length.toNat = 0) ∨ (0 < len ∧ len.toNat = readCount L p length.toNat ∧ p < L) := by
  simp only [readCount]
  by_cases hp : p ≥ L
  · left
    simp only [hp, if_true, and_true]
    split <;> split <;> omega
  · right
    simp only [hp, if_false]
    by_cases h0 : length = 0
    · subst h0
      simp only [if_true]
      split <;> simp <;> omega
    · have h0' : ¬ (length.toNat = 0) := by omega
      simp only [h0, if_false]
      by_cases h1 : (p : Int) + length > L
      · have : p + length.toNat > L := by omega
        simp only [h1, if_true, h0', false_or, this]
        omega
      · have : ¬ (p + length.toNat > L) := by omega
        simp only [h1, if_false, h0', false_or, this]
        exact ⟨by omega, trivial, by omega⟩

/-- `HLPread` (`hblocks.c`, as repaired by 9115bb2 and 4e6d0b8) against the byte-array view: whatever the block
    length, table size, holes and position, a read that does not fail returns exactly `readCount` bytes and they are
    the element's bytes at the position -/
theorem hlpRead_spec (f : File) (li : LinkInfo) (hw : WFL f li) (posn : Nat) (length : Int) (hl : 0 ≤ length) :
    hlpRead f li posn length = .fail ∨
    hlpRead f li posn length =
      .data (readCount li.length posn length.toNat : Nat)
        ((List.range (readCount li.length posn length.toNat)).map (fun j => f.lbyte li (posn + j))) := by
  unfold hlpRead
  have hl' : ¬ (length < 0) := by omega
  simp only [hl', if_false]
  rcases hlpRead_len li.length posn length hl with ⟨h1, h2⟩ | ⟨h1, h2, h3⟩
  · right
    simp only [h1, if_true, h2]
    rfl
  · have h1' : ¬ ((if (posn : Int) + (if length = 0 then (li.length : Int) - posn else length) > li.length then (li.length : Int) - posn
        else (if length = 0 then (li.length : Int) - posn else length)) ≤ 0) := by omega
    simp only [h1', if_false]
    have hb : ¬ (li.blockLen = 0 ∨ li.numBlocks = 0) := by have := hw.blk_pos; have := hw.nb_pos; omega
    simp only [hb, if_false]
    have hs := startBlock_spec li.firstLen li.blockLen posn hw.blk_pos
    generalize hsb : startBlock li.firstLen li.blockLen posn = s at hs
    obtain ⟨b, rel, cur⟩ := s
    simp only at hs ⊢
    have hbl : b < li.tables.length * li.numBlocks := by
      by_cases h : b < li.tables.length * li.numBlocks
      · exact h
      · have := blockStart_mono li.firstLen li.blockLen _ _ (Nat.le_of_not_lt h)
        have := hw.covers
        omega
    have ht : b / li.numBlocks < li.tables.length := by
      rw [Nat.div_lt_iff_lt_mul hw.nb_pos]; exact hbl
    have ht1 : ¬ (b / li.numBlocks > li.tables.length) := by omega
    have ht2 : ¬ (b / li.numBlocks = li.tables.length) := by omega
    simp only [ht1, ht2, if_false]
    have hrc : 1 ≤ readCount li.length posn length.toNat := by omega
    have htiles := walk_tiles li.firstLen li.blockLen li.numBlocks posn (readCount li.length posn length.toNat) hw.blk_pos hw.nb_pos hrc
    have hle : posn + readCount li.length posn length.toNat ≤ li.length := by
      simp only [readCount]
      have : ¬ (posn ≥ li.length) := by omega
      simp only [this, if_false]
      split <;> omega
    rw [h2]
    rcases readPieces_spec f li hw _ posn _ 0 [] htiles hle with h | h
    · left; exact h
    · right
      rw [h]
      simp only [List.nil_append, Nat.zero_add, Nat.add_sub_cancel_left]

end H4.Elem

namespace H4.Elem
open H4.Gen.Hdf

theorem tiles_le (first blk nb : Nat) : ∀ (l : List Piece) (a b : Nat), Tiles first blk nb a l b → a ≤ b := by
  intro l
  induction l with
  | nil => intro a b h; simp only [Tiles] at h; omega
  | cons x xs ihx => intro a b h; simp only [Tiles] at h; have := ihx _ _ h.2.2.2.2.2; omega

/-- with every existing block completely in the file the read loop cannot fail -/
theorem readPieces_ok (f : File) (li : LinkInfo) (hw : WFL f li) (hm : Materialised f li) :
    ∀ (ps : List Piece) (p e cnt : Nat) (acc : Bytes),
      Tiles li.firstLen li.blockLen li.numBlocks p ps e → e ≤ li.length → readPieces f li ps cnt acc ≠ .fail := by
  intro ps
  induction ps with
  | nil => intro p e cnt acc _ _; simp [readPieces]
  | cons q rest ih =>
    intro p e cnt acc ht he
    simp only [Tiles] at ht
    obtain ⟨hidx, hcur, hn, hfit, hstart, hrest⟩ := ht
    have hpe := tiles_le _ _ _ _ _ _ hrest
    have ht : q.tbl < li.tables.length :=
      tiles_tbl_lt li.firstLen li.blockLen li.numBlocks li.tables.length q p li.length hidx hstart (by omega) hw.covers
    simp only [readPieces]
    have h1 : ¬ (q.tbl ≥ li.tables.length) := by omega
    simp only [h1, if_false]
    by_cases href : li.blockRef q.tbl q.idx = 0
    · simp only [href, bne_self_eq_false, Bool.false_eq_true, if_false]
      exact ih _ _ _ _ hrest he
    · have hb : (li.blockRef q.tbl q.idx != 0) = true := by simp [href]
      simp only [hb, if_true]
      obtain ⟨o, ho⟩ := hw.block_ok q.tbl q.idx ht hidx href
      have hphys := hm q.tbl q.idx ht hidx href o _ ho
      have : f.readBlock (li.blockRef q.tbl q.idx) q.rel q.n =
          some ((List.range q.n).map (fun i => rd f.disk (o + q.rel + i))) := by
        unfold File.readBlock
        rw [ho]
        simp only
        rw [← hcur] at hphys ⊢
        have h1 : ¬ (q.rel > q.cur) := by omega
        have h2 : ¬ (q.n = 0 ∨ q.n + q.rel > q.cur) := by omega
        simp only [h1, h2, if_false]
        exact hpRead_some _ _ _ (by omega)
      rw [this]
      exact ih _ _ _ _ hrest he

/-- progress: on a well-formed, materialised linked-block element `HLPread` never fails (any position, any length ≥ 0) -/
theorem hlpRead_ok (f : File) (li : LinkInfo) (hw : WFL f li) (hm : Materialised f li) (posn : Nat) (length : Int)
    (hl : 0 ≤ length) : hlpRead f li posn length ≠ .fail := by
  unfold hlpRead
  have hl' : ¬ (length < 0) := by omega
  simp only [hl', if_false]
  rcases hlpRead_len li.length posn length hl with ⟨h1, _⟩ | ⟨h1, h2, h3⟩
  · simp only [h1, if_true]; simp
  · have h1' : ¬ ((if (posn : Int) + (if length = 0 then (li.length : Int) - posn else length) > li.length then (li.length : Int) - posn
        else (if length = 0 then (li.length : Int) - posn else length)) ≤ 0) := by omega
    simp only [h1', if_false]
    have hb : ¬ (li.blockLen = 0 ∨ li.numBlocks = 0) := by have := hw.blk_pos; have := hw.nb_pos; omega
    simp only [hb, if_false]
    have hs := startBlock_spec li.firstLen li.blockLen posn hw.blk_pos
    generalize hsb : startBlock li.firstLen li.blockLen posn = s at hs
    obtain ⟨b, rel, cur⟩ := s
    simp only at hs ⊢
    have hbl : b < li.tables.length * li.numBlocks := by
      by_cases h : b < li.tables.length * li.numBlocks
      · exact h
      · have := blockStart_mono li.firstLen li.blockLen _ _ (Nat.le_of_not_lt h)
        have := hw.covers
        omega
    have ht : b / li.numBlocks < li.tables.length := by
      rw [Nat.div_lt_iff_lt_mul hw.nb_pos]; exact hbl
    have ht1 : ¬ (b / li.numBlocks > li.tables.length) := by omega
    have ht2 : ¬ (b / li.numBlocks = li.tables.length) := by omega
    simp only [ht1, ht2, if_false]
    have hrc : 1 ≤ readCount li.length posn length.toNat := by omega
    have htiles := walk_tiles li.firstLen li.blockLen li.numBlocks posn (readCount li.length posn length.toNat) hw.blk_pos hw.nb_pos hrc
    have hle : posn + readCount li.length posn length.toNat ≤ li.length := by
      simp only [readCount]
      have : ¬ (posn ≥ li.length) := by omega
      simp only [this, if_false]
      split <;> omega
    rw [h2]
    exact readPieces_ok f li hw hm _ posn _ 0 [] htiles hle

end H4.Elem
