import H4.Lemmas.ElemOpsCreate
/-! The forward simulation: every call of a safe history is a byte-array step. -/
namespace H4.Elem
open H4.Gen.Hdf

theorem stepOK_all (w : World) (hw : WFW w) (op : Op) (hs : OpSafe w op) : StepOK w op := by
  cases op with
  | «open» fi mode ndds => exact stepOK_open w hw fi mode ndds hs
  | close fi => exact stepOK_close w hw fi hs
  | startaccess h fi tag ref wr app => exact stepOK_startaccess w hw h fi tag ref wr app hs
  | startwrite h fi tag ref len => exact stepOK_startwrite w hw h fi tag ref len hs
  | setlength h len => exact stepOK_setlength w hw h len
  | hlcreate h fi tag ref blen nblk => exact stepOK_hlcreate w hw h fi tag ref blen nblk hs
  | hlconvert h blen nblk => exact stepOK_hlconvert w hw h blen nblk hs
  | setblockinfo h blen nblk => exact stepOK_setblockinfo w hw h blen nblk
  | appendable h => exact stepOK_appendable w hw h
  | seek h off origin => exact stepOK_seek w hw h off origin hs
  | tell h => exact stepOK_tell w hw h
  | inquire h => exact stepOK_inquire w hw h
  | read h n => exact stepOK_read w hw h n
  | write h bs => exact stepOK_write w hw h bs hs
  | trunc h n => exact stepOK_trunc w hw h n
  | endaccess h => exact stepOK_endaccess w hw h
  | deldd fi tag ref => exact stepOK_deldd w hw fi tag ref hs

/-- a history on the model is a history of byte arrays: at every call, the result the implementation returns is one
    the byte-array specification allows from the view of the state before the call, and the view of the state after
    the call is the one the specification prescribes (on every user element, every file, every access id) -/
def Refines (w : World) : List Op → Prop
  | [] => True
  | op :: ops =>
    (∃ v', specStep (abs w) op (step w op).2 = some v' ∧ v'.Eqv (abs (step w op).1)) ∧ Refines (step w op).1 ops

theorem refines_of_safe (ops : List Op) : ∀ (w : World), WFW w → Safe w ops → Refines w ops ∧ WFW (run w ops).1 := by
  induction ops with
  | nil => intro w hw _; exact ⟨trivial, hw⟩
  | cons op ops ih =>
    intro w hw hs
    obtain ⟨h1, h2⟩ := stepOK_all w hw op hs.1
    obtain ⟨r1, r2⟩ := ih (step w op).1 h1 hs.2
    refine ⟨⟨h2, r1⟩, ?_⟩
    simp only [run]
    exact r2

/-- the empty world -/
theorem wfw_empty : WFW {} := by
  have hE : WFE ({} : File) := by
    have hdd : ∀ j, ({} : File).dd j = nilDD := by intro j; rfl
    have hnl : ∀ j, ¬ ({} : File).live j := by intro j hl; exact hl (by rw [hdd]; rfl)
    refine ⟨⟨by decide, fun j _ _ hl => absurd hl (hnl j), fun i _ _ _ _ _ _ hl => absurd hl (hnl i), ?_,
      fun i _ hl => absurd hl (hnl i)⟩, fun s hl => absurd hl (hnl s), fun s hl => absurd hl (hnl s),
      fun s1 _ _ _ _ hl => absurd hl (hnl s1)⟩
    intro k _; rfl
  have hC : Coh ({} : File) := ⟨rfl, by decide, rfl, rfl, fun i hi => absurd hi (by simp)⟩
  have hfile : ∀ j, ({} : World).file j = {} := by intro j; rfl
  refine ⟨fun j => by rw [hfile]; exact hE, fun j => by rw [hfile]; exact hC, ?_⟩
  intro h a ha
  cases ha

end H4.Elem
