import H4.Rle
/-! Helper lemmas for the RLE round trip (C05). The property statements live in `H4/Props/C05.lean`. -/
namespace H4.Rle
open H4.Gen.Crle

/-- the values of the generated constants the proofs below were written for (Tie A re-checks them) -/
theorem consts : RUN_MASK = 128 ∧ COUNT_MASK = 127 ∧ RLE_BUF_SIZE = 128 ∧ RLE_MIN_RUN = 3 ∧
    RLE_MAX_RUN = 130 ∧ RLE_MIN_MIX = 1 := by decide

theorem toNat_ofNat_lt (n : Nat) (h : n < 256) : (UInt8.ofNat n).toNat = n := by
  simp [UInt8.toNat_ofNat']
  omega

theorem or128 : ∀ k < 128, 128 ||| k = 128 + k := by decide
theorem and128_hi : ∀ k < 128, (128 + k) &&& 128 = 128 := by decide
theorem and127_hi : ∀ k < 128, (128 + k) &&& 127 = k := by decide
theorem and128_lo : ∀ k < 128, k &&& 128 = 0 := by decide
theorem and127_lo : ∀ k < 128, k &&& 127 = k := by decide

theorem decFuel_ser (ps : List Pkt) (hv : ∀ p ∈ ps, p.Valid) :
    ∀ fuel, (ser ps).length ≤ fuel → decFuel fuel (ser ps) = some (expand ps) := by
  obtain ⟨c1, c2, c3, c4, c5, c6⟩ := consts
  induction ps with
  | nil => intro fuel _; cases fuel <;> simp [ser, expand, decFuel]
  | cons p ps ih =>
    intro fuel hf
    have hvp : p.Valid := hv p (by simp)
    have hvps : ∀ q ∈ ps, q.Valid := fun q hq => hv q (by simp [hq])
    cases p with
    | run n v =>
      obtain ⟨h3, h130⟩ := hvp
      rw [c4] at h3; rw [c5] at h130
      have hk : n - 3 < 128 := by omega
      have hs : ser (Pkt.run n v :: ps) = UInt8.ofNat (128 + (n - 3)) :: v :: ser ps := by
        simp [ser, Pkt.ser, c1, c4, or128 _ hk]
      rw [hs] at hf ⊢
      cases fuel with
      | zero => simp at hf
      | succ fuel =>
        have hc : (UInt8.ofNat (128 + (n - 3))).toNat = 128 + (n - 3) := toNat_ofNat_lt _ (by omega)
        have hlen : (ser ps).length ≤ fuel := by simp at hf; omega
        simp only [decFuel, hc, c1, c2, c4, and128_hi _ hk, and127_hi _ hk]
        simp only [ne_eq, Nat.reduceEqDiff, not_false_eq_true, ↓reduceIte, ih hvps fuel hlen, Option.map_some]
        simp [expand, Pkt.expand]
        omega
    | mix l =>
      obtain ⟨h1, h128⟩ := hvp
      rw [c6] at h1; rw [c3] at h128
      have hk : l.length - 1 < 128 := by omega
      have hs : ser (Pkt.mix l :: ps) = UInt8.ofNat (l.length - 1) :: (l ++ ser ps) := by
        simp [ser, Pkt.ser, c6]
      rw [hs] at hf ⊢
      cases fuel with
      | zero => simp at hf
      | succ fuel =>
        have hc : (UInt8.ofNat (l.length - 1)).toNat = l.length - 1 := toNat_ofNat_lt _ (by omega)
        have hlen : (ser ps).length ≤ fuel := by simp at hf; omega
        simp only [decFuel, hc, c1, c2, c6, and128_lo _ hk, and127_lo _ hk]
        have h2 : l.length - 1 + 1 = l.length := by omega
        simp only [ne_eq, not_true_eq_false, ↓reduceIte, h2]
        have h3 : ¬ (l ++ ser ps).length < l.length := by simp
        simp only [h3, ↓reduceIte, List.drop_left, List.take_left, ih hvps fuel hlen, Option.map_some]
        simp [expand, Pkt.expand]

theorem dec_ser (ps : List Pkt) (hv : ∀ p ∈ ps, p.Valid) : dec (ser ps) = some (expand ps) :=
  decFuel_ser ps hv _ (Nat.le_refl _)

theorem split_last {α} (l : List α) (b : α) (h : l.getLast? = some b) : l = l.dropLast ++ [b] := by
  have hne : l ≠ [] := by intro h'; simp [h'] at h
  have := List.dropLast_concat_getLast hne
  rw [List.getLast?_eq_some_getLast hne] at h
  simp at h
  rw [h] at this
  exact this.symm

/-- bytes consumed by the encoder but not yet emitted -/
def pending (s : Enc) : List Byte :=
  match s.mode with
  | .init => []
  | .run => List.replicate s.len (s.last.getD 0)
  | .mix => s.buf

/-- encoder invariant; it records the two facts the C relies on silently: in RUN `second = last`,
    in a 1-byte MIX `second ≠ last` (so a stale `second_byte` is harmless) -/
def Inv (s : Enc) : Prop :=
  match s.mode with
  | .init => s.last = none ∧ s.second = none
  | .run => 3 ≤ s.len ∧ s.len < 130 ∧ (∃ v, s.last = some v) ∧ s.second = s.last
  | .mix => 1 ≤ s.len ∧ s.len < 128 ∧ s.buf.length = s.len ∧ s.last = s.buf.getLast? ∧
            (s.len = 1 → s.second ≠ s.last) ∧ (2 ≤ s.len → s.second = s.buf.dropLast.getLast?)

theorem step_ok (s : Enc) (b : Byte) (h : Inv s) :
    Inv (encStep s b).1 ∧ (∀ p ∈ (encStep s b).2, p.Valid) ∧
    expand (encStep s b).2 ++ pending (encStep s b).1 = pending s ++ [b] := by
  obtain ⟨c1, c2, c3, c4, c5, c6⟩ := consts
  obtain ⟨mode, buf, len, last, second⟩ := s
  cases mode with
  | init =>
    simp only [Inv] at h
    obtain ⟨h1, h2⟩ := h
    subst h1; subst h2
    simp [encStep, Inv, pending, expand]
  | run =>
    simp only [Inv] at h
    obtain ⟨h3, h130, ⟨v, hv⟩, hsec⟩ := h
    subst hv; subst hsec
    by_cases hb : b = v
    · subst hb
      by_cases hl : len + 1 ≥ 130
      · simp [encStep, c5, c4, hl, Inv, pending, expand, Pkt.expand, Pkt.Valid, List.replicate_succ']
        omega
      · simp [encStep, c5, c4, hl, Inv, pending, expand, List.replicate_succ']
        omega
    · have hb' : ¬ (some b = some v) := by simpa using hb
      simp [encStep, c5, c4, hb, Inv, pending, expand, Pkt.expand, Pkt.Valid]
      refine ⟨?_, by omega⟩
      intro h; exact hb h.symm
  | mix =>
    simp only [Inv] at h
    obtain ⟨h1, h128, hlen, hlast, hone, htwo⟩ := h
    by_cases hc : some b = last ∧ some b = second
    · obtain ⟨hl, hs⟩ := hc
      have h2 : 2 ≤ len := by
        rcases Nat.lt_or_ge len 2 with h | h
        · have : len = 1 := by omega
          exact absurd (hs.symm.trans hl) (hone this)
        · exact h
      have hs2 := htwo h2
      have hne : buf ≠ [] := by intro h; simp [h] at hlen; omega
      have hd : buf = buf.dropLast ++ [b] := split_last buf b (by rw [← hlast, ← hl])
      have hne2 : buf.dropLast ≠ [] := by
        intro h; have := congrArg List.length h; simp at this; omega
      have hd2 : buf.dropLast = buf.dropLast.dropLast ++ [b] :=
        split_last buf.dropLast b (by rw [← hs2, ← hs])
      have htake : buf.take (len - 2) = buf.dropLast.dropLast := by
        simp [List.dropLast_eq_take, hlen, List.take_take]
        congr 1; omega
      subst hl
      subst hs
      simp only [encStep, and_self, ↓reduceIte, Inv, pending, c4]
      refine ⟨by simp, ?_, ?_⟩
      · intro p hp
        by_cases hg : len > 2
        · simp [hg] at hp; subst hp
          simp [Pkt.Valid, hlen, c6, c3]; omega
        · simp [hg] at hp
      · by_cases hg : len > 2
        · simp only [Nat.add_one_sub_one, Nat.reduceSubDiff, hg, ↓reduceIte, expand, List.flatMap_cons, List.flatMap_nil, Pkt.expand,
            List.append_nil, Option.getD_some, htake]
          conv => rhs; rw [hd, hd2]
          simp [List.replicate]
        · have : len = 2 := by omega
          subst this
          have hz : buf.dropLast.dropLast = [] := by
            apply List.eq_nil_of_length_eq_zero; simp [hlen]
          simp only [Nat.add_one_sub_one, Nat.reduceSubDiff, hg, ↓reduceIte, expand, List.flatMap_nil, List.nil_append, Option.getD_some]
          conv => rhs; rw [hd, hd2, hz]
          simp [List.replicate]
    · by_cases hl : len + 1 ≥ 128
      · simp [encStep, c3, c6, hc, hl, Inv, pending, expand, Pkt.expand, Pkt.Valid, hlen]
        omega
      · simp only [encStep, c3, hc, ↓reduceIte, hl, Inv, pending, expand, List.flatMap_nil,
          List.nil_append, List.not_mem_nil, false_implies, implies_true, and_true, true_and]
        refine ⟨by omega, by omega, by simp [hlen], by simp, by omega, ?_⟩
        intro _
        simp [hlast]

theorem run_ok : ∀ (bs : List Byte) (s : Enc), Inv s →
    Inv (encRun s bs).1 ∧ (∀ p ∈ (encRun s bs).2, p.Valid) ∧
    expand (encRun s bs).2 ++ pending (encRun s bs).1 = pending s ++ bs := by
  intro bs
  induction bs with
  | nil => intro s h; simp [encRun, h, expand]
  | cons b bs ih =>
    intro s h
    obtain ⟨h1, h2, h3⟩ := step_ok s b h
    obtain ⟨g1, g2, g3⟩ := ih (encStep s b).1 h1
    simp only [encRun]
    refine ⟨g1, ?_, ?_⟩
    · intro p hp
      rcases List.mem_append.mp hp with hp | hp
      · exact h2 p hp
      · exact g2 p hp
    · simp only [expand, List.flatMap_append, List.append_assoc] at *
      rw [g3, ← List.append_assoc, h3]; simp

theorem term_ok (s : Enc) (h : Inv s) :
    (∀ p ∈ encTerm s, p.Valid) ∧ expand (encTerm s) = pending s := by
  obtain ⟨c1, c2, c3, c4, c5, c6⟩ := consts
  obtain ⟨mode, buf, len, last, second⟩ := s
  cases mode <;> simp [Inv] at h <;> simp [encTerm, pending, expand, Pkt.expand, Pkt.Valid, c3, c4, c5, c6]
  · omega
  · omega

theorem init_inv : Inv {} := by simp [Inv]

end H4.Rle
