import H4.Gen.Fn.Vgp
import H4.VGroup
import H4.Lemmas.C2L
import Lean.Elab.Tactic.Basic
/-! Lemmas for `H4.Props.C08Fn`: `vpackvg` of `hdf/src/vgp.c`, as TRANSLATED from the C text (`H4.Gen.Fn.Vgp`, regenerated on
    every run), writes the record of the hand-written model `H4.VGroup.vpackvgF true` (the code as it is since the fix "always
    write the flags word of a version-4 record").

    Method.  The generated definition is one long chain of `have s := …` steps.  It is first RESTATED as a composition of eight
    phases built from two byte-store combinators (`pshr`: `*bb++ = (uint8)((x >> k) & 0xff)`, `pand`: `*bb++ = (uint8)(x & m)`)
    whose bodies are the generated text with the operand abstracted; the restatement is checked by `rfl` against the generated
    definition (`vpackvg_phases`), so a change of the C text breaks it.  Every phase is then shown to extend the output written so
    far (`At`).  Core only. -/
set_option linter.unusedSimpArgs false
set_option linter.unusedVariables false
namespace H4.Lemmas.C08Fn
open H4 H4.VGroup H4.Gen.Hdf H4.Gen.Fn.Vgp H4.C2L

abbrev St := vpackvg.St

/-- closes `a = b` with `Eq.refl a` WITHOUT asking the elaborator's unifier (which unfolds the two 180-step `have` chains into
    trees and times out); the proof term is checked by the kernel when the theorem is added, like every other proof -/
elab "kernel_rfl" : tactic => do
  let g ← Lean.Elab.Tactic.getMainGoal
  let some (_, lhs, _) := (← g.getType).eq? | throwError "kernel_rfl: not an equation"
  g.assign (← Lean.Meta.mkEqRefl lhs)

/-! ## 1. the generated text, restated in phases -/

/-- `*bb++ = (uint8)(((uintn)(x) >> k) & 0xff)` as the translator writes it (three checks, store, increment) -/
def pshr (s : St) (X k : Int) : St :=
  have s : St := vpackvg.chk s ((0 : Int) ≤ X ∧ (0 : Int) ≤ k ∧ k < (32 : Int))
  have s : St := vpackvg.chk s ((0 : Int) ≤ (X / 2 ^ Int.toNat (k)) ∧ (0 : Int) ≤ ((255) % 4294967296))
  have s : St := vpackvg.chk s (0 ≤ s.bb ∧ s.bb < s.buf.length)
  have s : St := vpackvg.St.set_buf s (s.buf.set (Int.toNat (s.bb)) ((((Int.ofNat (Int.toNat ((X / 2 ^ Int.toNat (k))) &&& Int.toNat (((255) % 4294967296))))) % 256)))
  let e0 : Int := (s.bb + 1)
  have s : St := vpackvg.St.set_bb s (e0)
  s

/-- `*bb++ = (uint8)((x) & m)` as the translator writes it (two checks, store, increment) -/
def pand (s : St) (X M : Int) : St :=
  have s : St := vpackvg.chk s ((0 : Int) ≤ X ∧ (0 : Int) ≤ M)
  have s : St := vpackvg.chk s (0 ≤ s.bb ∧ s.bb < s.buf.length)
  have s : St := vpackvg.St.set_buf s (s.buf.set (Int.toNat (s.bb)) ((((Int.ofNat (Int.toNat (X) &&& Int.toNat (M)))) % 256)))
  let e0 : Int := (s.bb + 1)
  have s : St := vpackvg.St.set_bb s (e0)
  s

/-- `UINT16ENCODE(bb, x)`; `Xh` is the operand after the `(uintn)` cast -/
def enc16 (s : St) (Xh X : Int) : St := pand (pshr s Xh 8) X 255

/-- locals initialised; `bb = &buf[0]` -/
def ph0 (s : St) : St :=
  have s : St := vpackvg.St.set_slen s (((0) % 18446744073709551616))
  have s : St := vpackvg.St.set_temp_len s (((0) % 65536))
  have s : St := vpackvg.St.set_ret_value s (0)
  have s : St := vpackvg.St.set_bb s (0)
  s

/-- nvelt and the tags -/
def ph1 (fuel : Nat) (s : St) : St :=
  have s : St := enc16 s s.vg_nvelt s.vg_nvelt
  have s : St := vpackvg.St.set_i s (((0) % 4294967296))
  vpackvg.loop0 fuel s

/-- the refs -/
def ph2 (fuel : Nat) (s : St) : St :=
  have s : St := vpackvg.St.set_i s (((0) % 4294967296))
  vpackvg.loop1 fuel s

/-- `if (p != NULL) slen = strlen(p);` -/
def pstrA (s : St) (null : St → Bool) (str : St → List Int) : St :=
  if (null s = false) then
      have s : St := vpackvg.chk s (0 ≤ 0 ∧ (0 : Int) ∈ ((str s).drop (Int.toNat (0))))
      have s : St := vpackvg.St.set_slen s ((Int.ofNat (((str s).drop (Int.toNat (0))).takeWhile (· ≠ 0)).length))
      s
    else
      s

/-- `if (p != NULL) strcpy((char *)bb, p);` -/
def pstrB (s : St) (null : St → Bool) (str : St → List Int) : St :=
  if (null s = false) then
      have s : St := vpackvg.chk s (0 ≤ 0 ∧ (0 : Int) ∈ ((str s).drop (Int.toNat (0))))
      have s : St := vpackvg.chk s (0 ≤ s.bb ∧ s.bb + (Int.ofNat (((str s).drop (Int.toNat (0))).takeWhile (· ≠ 0)).length + 1) ≤ s.buf.length)
      have s : St := vpackvg.St.set_buf s ((s.buf.take (Int.toNat (s.bb))) ++ (((str s).drop (Int.toNat (0))).take (Int.toNat (Int.ofNat (((str s).drop (Int.toNat (0))).takeWhile (· ≠ 0)).length + 1))) ++ (s.buf.drop (Int.toNat (s.bb + (Int.ofNat (((str s).drop (Int.toNat (0))).takeWhile (· ≠ 0)).length + 1)))))
      s
    else
      s

/-- `if (p != NULL) slen = strlen(p); temp_len = (uint16)(slen > 0 ? slen : 0); UINT16ENCODE(bb, temp_len);
    if (p != NULL) strcpy((char *)bb, p); bb += temp_len;` -/
def pstr (s : St) (null : St → Bool) (str : St → List Int) : St :=
  have s : St := pstrA s null str
  have s : St := vpackvg.St.set_temp_len s ((((if (s.slen > ((0) % 18446744073709551616)) then s.slen else ((0) % 18446744073709551616))) % 65536))
  have s : St := enc16 s s.temp_len s.temp_len
  have s : St := pstrB s null str
  have s : St := vpackvg.St.set_bb s ((s.bb + s.temp_len))
  s

/-- the name -/
def ph3 (s : St) : St := pstr s (·.vg_vgname_null) (·.vg_vgname)

/-- `slen = 0;` and the class -/
def ph4 (s : St) : St :=
  have s : St := vpackvg.St.set_slen s (((0) % 18446744073709551616))
  pstr s (·.vg_vgclass_null) (·.vg_vgclass)

/-- extag, exref -/
def ph5 (s : St) : St :=
  have s : St := enc16 s s.vg_extag s.vg_extag
  enc16 s s.vg_exref s.vg_exref

/-- `UINT32ENCODE(bb, x)` / `INT32ENCODE(bb, x)` -/
def enc32 (s : St) (X : Int) : St :=
  pand (pshr (pshr (pshr s X 24) X 16) X 8) X ((255) % 4294967296)

/-- `if (vg->version < VSET_NEW_VERSION) vg->version = VSET_NEW_VERSION;` -/
def ph6a (s : St) : St :=
  if (s.vg_version < 4) then
      have s : St := vpackvg.St.set_vg_version s ((((4) + 32768) % 65536 - 32768))
      s
    else
      s

/-- `if (vg->flags & VG_ATTR_SET) { INT32ENCODE(bb, vg->nattrs); for (…) { … } }` -/
def ph6b (fuel : Nat) (s : St) : St :=
  if ((Int.ofNat (Int.toNat (s.vg_flags) &&& Int.toNat (((1) % 4294967296)))) ≠ 0) then
      have s : St := enc32 s ((s.vg_nattrs) % 4294967296)
      have s : St := vpackvg.St.set_i s (((0) % 4294967296))
      have s : St := vpackvg.loop2 fuel s
      s
    else
      s

/-- the flags word, the version bump and the attribute list -/
def ph6 (fuel : Nat) (s : St) : St :=
  if ((s.vg_flags ≠ 0) ∨ (s.vg_version = 4)) then
      have s : St := ph6a s
      have s : St := enc32 s s.vg_flags
      have s : St := vpackvg.chk s ((0 : Int) ≤ s.vg_flags ∧ (0 : Int) ≤ ((1) % 4294967296))
      have s : St := ph6b fuel s
      s
    else
      s

/-- `*size = (int32)(bb - buf) + 1; *bb = 0; return ret_value;` -/
def ph8 (s : St) : St :=
  have s : St := vpackvg.chk s (0 < s.size.length)
  have s : St := vpackvg.St.set_size s (s.size.set (Int.toNat (0)) (((s.bb - 0) + 1)))
  have s : St := vpackvg.chk s (0 ≤ s.bb ∧ s.bb < s.buf.length)
  have s : St := vpackvg.St.set_buf s (s.buf.set (Int.toNat (s.bb)) (((0) % 256)))
  have s : St := vpackvg.St.set_ret s (s.ret_value)
  s

/-- version, more -/
def ph7 (s : St) : St :=
  have s : St := enc16 s ((s.vg_version) % 4294967296) s.vg_version
  have s : St := enc16 s ((s.vg_more) % 4294967296) s.vg_more
  s

/-- the translated function, called with NAMED arguments: the translator orders the parameters of the generated definition by
    their first use in the C text, naming them keeps every statement below independent of that order -/
def vpackvgC (fuel : Nat) (nvelt : Int) (tag ref : List Int) (nnull : Bool) (nstr : List Int) (cnull : Bool) (cstr : List Int)
    (extag exref flags version nattrs : Int) (atag aref : List Int) (more : Int) (buf size : List Int) : St :=
  Gen.Fn.Vgp.vpackvg (fuel := fuel) (vg_nvelt := nvelt) (vg_tag := tag) (vg_ref := ref) (vg_vgname_null := nnull) (vg_vgname := nstr)
    (vg_vgclass_null := cnull) (vg_vgclass := cstr) (vg_extag := extag) (vg_exref := exref) (vg_flags := flags)
    (vg_version := version) (vg_nattrs := nattrs) (vg_alist_atag := atag) (vg_alist_aref := aref) (vg_more := more)
    (buf := buf) (size := size)

/-- **the restatement is the generated definition** (checked by unfolding both sides: any change of the translated C text that
    is not a change of these phases breaks this `rfl`) -/
theorem vpackvg_phases (fuel : Nat) (vg_nvelt : Int) (vg_tag vg_ref : List Int) (vg_vgname_null : Bool) (vg_vgname : List Int)
    (vg_vgclass_null : Bool) (vg_vgclass : List Int) (vg_extag vg_exref vg_flags vg_version vg_nattrs : Int)
    (vg_alist_atag vg_alist_aref : List Int) (vg_more : Int) (buf size : List Int) :
    vpackvgC fuel vg_nvelt vg_tag vg_ref vg_vgname_null vg_vgname vg_vgclass_null vg_vgclass vg_extag vg_exref vg_flags vg_version
      vg_nattrs vg_alist_atag vg_alist_aref vg_more buf size =
    ph8 (ph7 (ph6 fuel (ph5 (ph4 (ph3 (ph2 fuel (ph1 fuel (ph0
      { vg_nvelt := vg_nvelt, vg_tag := vg_tag, vg_ref := vg_ref, vg_vgname_null := vg_vgname_null, vg_vgname := vg_vgname,
        vg_vgclass_null := vg_vgclass_null, vg_vgclass := vg_vgclass, vg_extag := vg_extag, vg_exref := vg_exref,
        vg_flags := vg_flags, vg_version := vg_version, vg_nattrs := vg_nattrs, vg_alist_atag := vg_alist_atag,
        vg_alist_aref := vg_alist_aref, vg_more := vg_more, buf := buf, size := size })))))))) := by
  kernel_rfl

/-! ## 2. bytes, and the output written so far -/

/-- a C `uint8` array of the model, as the translated function sees it -/
def bytesI (l : Bytes) : List Int := l.map fun b => (b.toNat : Int)

@[simp] theorem bytesI_length (l : Bytes) : (bytesI l).length = l.length := by simp [bytesI]
@[simp] theorem bytesI_nil : bytesI [] = [] := rfl
@[simp] theorem bytesI_cons (a : Byte) (l : Bytes) : bytesI (a :: l) = (a.toNat : Int) :: bytesI l := rfl
theorem bytesI_append (a b : Bytes) : bytesI (a ++ b) = bytesI a ++ bytesI b := by simp [bytesI]

theorem chk_true (s : St) (c : Prop) [Decidable c] (h : c) : vpackvg.chk s c = s := by
  simp [vpackvg.chk, h]

/-- `*bb++ = v` -/
def put (s : St) (v : Int) : St := { s with buf := s.buf.set s.bb.toNat v, bb := s.bb + 1 }

theorem and255 (Y : Int) (h : 0 ≤ Y) : (Int.ofNat (Int.toNat Y &&& Int.toNat 255)) % 256 = Y % 256 := by
  obtain ⟨n, rfl⟩ := Int.eq_ofNat_of_zero_le h
  have e : n &&& 255 = n % 256 := Nat.and_two_pow_sub_one_eq_mod n 8
  simp only [Int.toNat_natCast, Int.ofNat_eq_natCast]
  have : Int.toNat 255 = 255 := rfl
  rw [this, e]
  omega

theorem pshr_eq (s : St) (X k : Int) (hX : 0 ≤ X) (hk : k = 8 ∨ k = 16 ∨ k = 24) (hb : 0 ≤ s.bb ∧ s.bb < s.buf.length) :
    pshr s X k = put s ((X / 2 ^ k.toNat) % 256) := by
  have h2 : (0 : Int) ≤ X / 2 ^ Int.toNat k := Int.ediv_nonneg hX (Int.le_of_lt (Int.pow_pos (by decide)))
  have c1 : (0 : Int) ≤ X ∧ (0 : Int) ≤ k ∧ k < (32 : Int) := by omega
  have c2 : (0 : Int) ≤ (X / 2 ^ Int.toNat (k)) ∧ (0 : Int) ≤ ((255) % 4294967296) := ⟨h2, by decide⟩
  simp only [pshr]
  simp only [chk_true s _ c1]
  simp only [chk_true s _ c2]
  simp only [chk_true s _ hb]
  have e : ((255 : Int) % 4294967296) = 255 := by decide
  rw [e, and255 _ h2]
  rfl

theorem pand_eq (s : St) (X M : Int) (hX : 0 ≤ X) (hM : M = 255) (hb : 0 ≤ s.bb ∧ s.bb < s.buf.length) :
    pand s X M = put s (X % 256) := by
  subst hM
  have c1 : (0 : Int) ≤ X ∧ (0 : Int) ≤ 255 := ⟨hX, by decide⟩
  simp only [pand]
  simp only [chk_true s _ c1]
  simp only [chk_true s _ hb]
  rw [and255 _ hX]
  rfl

/-- everything but the cursor, the buffer and the two flags -/
def frame (s : St) : St := { s with bb := 0, buf := [], ub := false, oof := false }

/-- the function has written `out` at the start of the buffer, `bb` points behind it, the cell under `bb` may have been
    clobbered (by the terminating NUL of a `strcpy`), everything behind that cell is what the caller passed in (`b0`);
    no check has failed, no loop ran out of fuel; all other fields are those of `F` -/
structure At (F : St) (b0 : List Int) (s : St) (out : List Int) : Prop where
  bb : s.bb = (out.length : Int)
  buf : ∃ z, s.buf = out ++ z :: b0.drop (out.length + 1)
  fr : frame s = frame F
  ub : s.ub = false
  oof : s.oof = false

theorem At.bounds {F b0 s out} (h : At F b0 s out) : 0 ≤ s.bb ∧ s.bb < s.buf.length := by
  obtain ⟨z, hz⟩ := h.buf
  rw [h.bb, hz]
  simp only [List.length_append, List.length_cons]
  omega

theorem At.put {F b0 s out} (h : At F b0 s out) (v : Int) (hr : out.length + 1 < b0.length) :
    At F b0 (put s v) (out ++ [v]) := by
  obtain ⟨z, hz⟩ := h.buf
  refine ⟨?_, ?_, ?_, h.ub, h.oof⟩
  · simp only [C08Fn.put, h.bb, List.length_append, List.length_cons, List.length_nil]; omega
  · refine ⟨b0[out.length + 1], ?_⟩
    simp only [C08Fn.put, h.bb, hz, Int.toNat_natCast, List.length_append, List.length_cons, List.length_nil]
    rw [List.set_append_right _ _ (Nat.le_refl _)]
    simp only [Nat.sub_self, List.set_cons_zero, List.append_assoc, List.cons_append, List.nil_append]
    rw [List.drop_eq_getElem_cons hr]
  · exact h.fr

theorem pshr_at {F b0 s out} (h : At F b0 s out) (X k : Int) (hX : 0 ≤ X) (hk : k = 8 ∨ k = 16 ∨ k = 24)
    (hr : out.length + 1 < b0.length) : At F b0 (pshr s X k) (out ++ [(X / 2 ^ k.toNat) % 256]) := by
  rw [pshr_eq s X k hX hk h.bounds]; exact h.put _ hr

theorem pand_at {F b0 s out} (h : At F b0 s out) (X M : Int) (hX : 0 ≤ X) (hM : M = 255)
    (hr : out.length + 1 < b0.length) : At F b0 (pand s X M) (out ++ [X % 256]) := by
  rw [pand_eq s X M hX hM h.bounds]; exact h.put _ hr

theorem byte_toInt (n : Nat) : ((UInt8.ofNat n).toNat : Int) = (n : Int) % 256 := by
  simp only [UInt8.toNat_ofNat']; omega

theorem u16_bytes (x : Nat) : bytesI (u16 x) = [((x : Int) / 2 ^ (8 : Int).toNat) % 256, (x : Int) % 256] := by
  have e : (2 : Int) ^ (8 : Int).toNat = 256 := by decide
  have a1 : ((x / 256 : Nat) : Int) = (x : Int) / 256 := by omega
  simp only [u16, bytesI_cons, bytesI_nil, byte_toInt, e, a1]

theorem u32_bytes (x : Nat) : bytesI (u32 x) =
    [((x : Int) / 2 ^ (24 : Int).toNat) % 256, ((x : Int) / 2 ^ (16 : Int).toNat) % 256, ((x : Int) / 2 ^ (8 : Int).toNat) % 256, (x : Int) % 256] := by
  have e1 : (2 : Int) ^ (8 : Int).toNat = 256 := by decide
  have e2 : (2 : Int) ^ (16 : Int).toNat = 65536 := by decide
  have e3 : (2 : Int) ^ (24 : Int).toNat = 16777216 := by decide
  have a1 : ((x / 256 : Nat) : Int) = (x : Int) / 256 := by omega
  have a2 : ((x / 65536 : Nat) : Int) = (x : Int) / 65536 := by omega
  have a3 : ((x / 16777216 : Nat) : Int) = (x : Int) / 16777216 := by omega
  simp only [u32, bytesI_cons, bytesI_nil, byte_toInt, e1, e2, e3, a1, a2, a3]

/-- `UINT16ENCODE(bb, x)` appends the two bytes the model writes (`u16 x`; `x` may exceed 16 bits: both truncate alike) -/
theorem enc16_at {F b0 s out} (h : At F b0 s out) (x : Nat) (Xh X : Int) (hh : Xh = x) (hl : X = x)
    (hr : out.length + 2 < b0.length) : At F b0 (enc16 s Xh X) (out ++ bytesI (u16 x)) := by
  subst hh hl
  have h1 := pshr_at h (x : Int) 8 (by omega) (Or.inl rfl) (by omega)
  have h2 := pand_at h1 (x : Int) 255 (by omega) rfl (by simp only [List.length_append, List.length_cons, List.length_nil]; omega)
  rw [u16_bytes]
  simpa only [enc16, List.append_assoc, List.cons_append, List.nil_append] using h2

/-- `UINT32ENCODE(bb, x)` / `INT32ENCODE(bb, x)` appends `u32 x` -/
theorem enc32_at {F b0 s out} (h : At F b0 s out) (x : Nat) (X : Int) (hx : X = x)
    (hr : out.length + 4 < b0.length) : At F b0 (enc32 s X) (out ++ bytesI (u32 x)) := by
  subst hx
  have h1 := pshr_at h (x : Int) 24 (by omega) (Or.inr (Or.inr rfl)) (by omega)
  have h2 := pshr_at h1 (x : Int) 16 (by omega) (Or.inr (Or.inl rfl)) (by simp only [List.length_append, List.length_cons, List.length_nil]; omega)
  have h3 := pshr_at h2 (x : Int) 8 (by omega) (Or.inl rfl) (by simp only [List.length_append, List.length_cons, List.length_nil]; omega)
  have h4 := pand_at h3 (x : Int) ((255) % 4294967296) (by omega) (by decide) (by simp only [List.length_append, List.length_cons, List.length_nil]; omega)
  rw [u32_bytes]
  simpa only [enc32, List.append_assoc, List.cons_append, List.nil_append] using h4

/-- a field other than `bb`, `buf`, `ub`, `oof` is read off `F` -/
theorem At.get {F b0 s out} (h : At F b0 s out) {α} (f : St → α) (hf : ∀ t, f t = f (frame t)) : f s = f F := by
  rw [hf s, hf F, h.fr]

/-- assignments to the other fields act on `F` -/
theorem At.upd {F b0 s out} (h : At F b0 s out) (g : St → St) (hb : ∀ t, (g t).bb = t.bb) (hbuf : ∀ t, (g t).buf = t.buf)
    (hub : ∀ t, (g t).ub = t.ub) (hoof : ∀ t, (g t).oof = t.oof) (hg : ∀ t, frame (g t) = frame (g (frame t))) :
    At (g F) b0 (g s) out :=
  ⟨by rw [hb]; exact h.bb, by rw [hbuf]; exact h.buf, by rw [hg s, hg F, h.fr], by rw [hub]; exact h.ub, by rw [hoof]; exact h.oof⟩

theorem At.set_i {F b0 s out} (h : At F b0 s out) (v : Int) : At (F.set_i v) b0 (s.set_i v) out :=
  h.upd (·.set_i v) (fun _ => rfl) (fun _ => rfl) (fun _ => rfl) (fun _ => rfl) (fun _ => rfl)

theorem At.set_slen {F b0 s out} (h : At F b0 s out) (v : Int) : At (F.set_slen v) b0 (s.set_slen v) out :=
  h.upd (·.set_slen v) (fun _ => rfl) (fun _ => rfl) (fun _ => rfl) (fun _ => rfl) (fun _ => rfl)

theorem At.set_temp_len {F b0 s out} (h : At F b0 s out) (v : Int) : At (F.set_temp_len v) b0 (s.set_temp_len v) out :=
  h.upd (·.set_temp_len v) (fun _ => rfl) (fun _ => rfl) (fun _ => rfl) (fun _ => rfl) (fun _ => rfl)

theorem At.set_vg_version {F b0 s out} (h : At F b0 s out) (v : Int) : At (F.set_vg_version v) b0 (s.set_vg_version v) out :=
  h.upd (·.set_vg_version v) (fun _ => rfl) (fun _ => rfl) (fun _ => rfl) (fun _ => rfl) (fun _ => rfl)

/-! ## 3. the loops -/

/-- `UINT16ENCODE(bb, reg[i])` as the translator writes it -/
def enc16r (s : St) (reg : St → List Int) : St :=
  have s : St := vpackvg.chk s (0 ≤ s.i ∧ s.i < (reg s).length)
  have s : St := pshr s ((reg s).getD (Int.toNat (s.i)) 0) 8
  have s : St := vpackvg.chk s (0 ≤ s.i ∧ s.i < (reg s).length)
  have s : St := pand s ((reg s).getD (Int.toNat (s.i)) 0) 255
  s

theorem loop0_body (fuel : Nat) (s : St) : vpackvg.loop0.body fuel s =
    (have s : St := enc16r s (·.vg_tag); vpackvg.St.set_i s ((((s.i + 1)) % 4294967296))) := by kernel_rfl

theorem loop1_body (fuel : Nat) (s : St) : vpackvg.loop1.body fuel s =
    (have s : St := enc16r s (·.vg_ref); vpackvg.St.set_i s ((((s.i + 1)) % 4294967296))) := by kernel_rfl

theorem loop2_body (fuel : Nat) (s : St) : vpackvg.loop2.body fuel s =
    (have s : St := enc16r s (·.vg_alist_atag); have s : St := enc16r s (·.vg_alist_aref);
     vpackvg.St.set_i s ((((s.i + 1)) % 4294967296))) := by kernel_rfl

theorem enc16r_at {F b0 s out} (h : At F b0 s out) (reg : St → List Int) (hreg : ∀ t, reg t = reg (frame t)) (k x : Nat)
    (hi : F.i = k) (hk : k < (reg F).length) (hx : (reg F).getD k 0 = (x : Int)) (hr : out.length + 2 < b0.length) :
    At F b0 (enc16r s reg) (out ++ bytesI (u16 x)) := by
  have hI : ∀ {t o}, At F b0 t o → t.i = k := fun ht => (ht.get (·.i) (fun _ => rfl)).trans hi
  have hR : ∀ {t o}, At F b0 t o → reg t = reg F := fun ht => ht.get reg hreg
  have c1 : 0 ≤ s.i ∧ s.i < (reg s).length := by rw [hI h, hR h]; omega
  have e1 : (reg s).getD (Int.toNat (s.i)) 0 = (x : Int) := by rw [hI h, hR h, Int.toNat_natCast, hx]
  have h1 := pshr_at h (x : Int) 8 (by omega) (Or.inl rfl) (by omega)
  have c2 : 0 ≤ (pshr s (x : Int) 8).i ∧ (pshr s (x : Int) 8).i < (reg (pshr s (x : Int) 8)).length := by rw [hI h1, hR h1]; omega
  have e2 : (reg (pshr s (x : Int) 8)).getD (Int.toNat ((pshr s (x : Int) 8).i)) 0 = (x : Int) := by
    rw [hI h1, hR h1, Int.toNat_natCast, hx]
  have h2 := pand_at h1 (x : Int) 255 (by omega) rfl (by simp only [List.length_append, List.length_cons, List.length_nil]; omega)
  simp only [enc16r]
  simp only [chk_true s _ c1]
  rw [e1]
  simp only [chk_true _ _ c2]
  rw [e2, u16_bytes]
  simpa only [List.append_assoc, List.cons_append, List.nil_append] using h2

/-- `for (i = k; i < n; i++) UINT16ENCODE(bb, vg_tag[i]);` appends the remaining cells -/
theorem loop0_at (t : List Nat) (pad b0 : List Int) : ∀ (m fuel k : Nat) (F s : St) (out : List Int), m ≤ fuel → k + m = t.length →
    t.length < 4294967296 → At F b0 s out → F.i = k → F.vg_tag = ints t ++ pad → F.vg_nvelt = t.length →
    out.length + 2 * m < b0.length →
    At (F.set_i t.length) b0 (vpackvg.loop0 fuel s) (out ++ bytesI ((t.drop k).flatMap u16)) := by
  intro m
  induction m with
  | zero =>
    intro fuel k F s out _ hk _ h hi _ hn _
    have hc : ¬ (s.i < s.vg_nvelt) := by
      rw [h.get (·.i) (fun _ => rfl), h.get (·.vg_nvelt) (fun _ => rfl), hi, hn]; omega
    have e : vpackvg.loop0 fuel s = s := by cases fuel <;> simp only [vpackvg.loop0, hc, if_false]
    have hd : t.drop k = [] := by simp; omega
    have hF : F.set_i t.length = F := by
      have : (t.length : Int) = F.i := by rw [hi]; congr 1; omega
      simp only [vpackvg.St.set_i, this]
    rw [e, hd, hF]
    simpa using h
  | succ m ih =>
    intro fuel k F s out hf hk hl h hi ht hn hr
    obtain ⟨fuel, rfl⟩ : ∃ f, fuel = f + 1 := ⟨fuel - 1, by omega⟩
    have hc : s.i < s.vg_nvelt := by
      rw [h.get (·.i) (fun _ => rfl), h.get (·.vg_nvelt) (fun _ => rfl), hi, hn]; omega
    have hkl : k < t.length := by omega
    have hx : F.vg_tag.getD k 0 = ((t[k] : Nat) : Int) := by
      rw [ht, List.getD_eq_getElem?_getD, List.getElem?_append_left (by simpa using hkl)]
      simp [ints, hkl]
    have h1 := enc16r_at h (·.vg_tag) (fun _ => rfl) k t[k] hi (by rw [ht]; simp; omega) hx (by omega)
    have h2 := h1.set_i ((((vpackvg.St.i (enc16r s (·.vg_tag)) + 1)) % 4294967296))
    have hi2 : (enc16r s (·.vg_tag)).i = k := (h1.get (·.i) (fun _ => rfl)).trans hi
    have e : vpackvg.loop0 (fuel + 1) s = vpackvg.loop0 fuel (vpackvg.loop0.body (fuel + 1) s) := by
      rw [vpackvg.loop0]; simp only [hc, if_true]
    rw [e, loop0_body]
    have h3 := ih fuel (k + 1) _ _ _ (by omega) (by omega) hl h2 (by simp only [vpackvg.St.set_i, hi2]; omega) ht hn
      (by simp only [List.length_append, bytesI_length, u16, List.length_cons, List.length_nil]; omega)
    rw [List.drop_eq_getElem_cons hkl, List.flatMap_cons, bytesI_append, ← List.append_assoc]
    exact h3

/-- `for (i = k; i < n; i++) UINT16ENCODE(bb, vg_ref[i]);` appends the remaining cells -/
theorem loop1_at (t : List Nat) (pad b0 : List Int) : ∀ (m fuel k : Nat) (F s : St) (out : List Int), m ≤ fuel → k + m = t.length →
    t.length < 4294967296 → At F b0 s out → F.i = k → F.vg_ref = ints t ++ pad → F.vg_nvelt = t.length →
    out.length + 2 * m < b0.length →
    At (F.set_i t.length) b0 (vpackvg.loop1 fuel s) (out ++ bytesI ((t.drop k).flatMap u16)) := by
  intro m
  induction m with
  | zero =>
    intro fuel k F s out _ hk _ h hi _ hn _
    have hc : ¬ (s.i < s.vg_nvelt) := by
      rw [h.get (·.i) (fun _ => rfl), h.get (·.vg_nvelt) (fun _ => rfl), hi, hn]; omega
    have e : vpackvg.loop1 fuel s = s := by cases fuel <;> simp only [vpackvg.loop1, hc, if_false]
    have hd : t.drop k = [] := by simp; omega
    have hF : F.set_i t.length = F := by
      have : (t.length : Int) = F.i := by rw [hi]; congr 1; omega
      simp only [vpackvg.St.set_i, this]
    rw [e, hd, hF]
    simpa using h
  | succ m ih =>
    intro fuel k F s out hf hk hl h hi ht hn hr
    obtain ⟨fuel, rfl⟩ : ∃ f, fuel = f + 1 := ⟨fuel - 1, by omega⟩
    have hc : s.i < s.vg_nvelt := by
      rw [h.get (·.i) (fun _ => rfl), h.get (·.vg_nvelt) (fun _ => rfl), hi, hn]; omega
    have hkl : k < t.length := by omega
    have hx : F.vg_ref.getD k 0 = ((t[k] : Nat) : Int) := by
      rw [ht, List.getD_eq_getElem?_getD, List.getElem?_append_left (by simpa using hkl)]
      simp [ints, hkl]
    have h1 := enc16r_at h (·.vg_ref) (fun _ => rfl) k t[k] hi (by rw [ht]; simp; omega) hx (by omega)
    have h2 := h1.set_i ((((vpackvg.St.i (enc16r s (·.vg_ref)) + 1)) % 4294967296))
    have hi2 : (enc16r s (·.vg_ref)).i = k := (h1.get (·.i) (fun _ => rfl)).trans hi
    have e : vpackvg.loop1 (fuel + 1) s = vpackvg.loop1 fuel (vpackvg.loop1.body (fuel + 1) s) := by
      rw [vpackvg.loop1]; simp only [hc, if_true]
    rw [e, loop1_body]
    have h3 := ih fuel (k + 1) _ _ _ (by omega) (by omega) hl h2 (by simp only [vpackvg.St.set_i, hi2]; omega) ht hn
      (by simp only [List.length_append, bytesI_length, u16, List.length_cons, List.length_nil]; omega)
    rw [List.drop_eq_getElem_cons hkl, List.flatMap_cons, bytesI_append, ← List.append_assoc]
    exact h3

/-- `for (i = k; i < (unsigned)vg->nattrs; i++) { UINT16ENCODE(bb, vg->alist[i].atag); UINT16ENCODE(bb, vg->alist[i].aref); }` -/
theorem loop2_at (al : List Pair) (pad1 pad2 b0 : List Int) : ∀ (m fuel k : Nat) (F s : St) (out : List Int), m ≤ fuel → k + m = al.length →
    al.length < 4294967296 → At F b0 s out → F.i = k → F.vg_alist_atag = ints (al.map (·.1)) ++ pad1 →
    F.vg_alist_aref = ints (al.map (·.2)) ++ pad2 → F.vg_nattrs = al.length →
    out.length + 4 * m < b0.length →
    At (F.set_i al.length) b0 (vpackvg.loop2 fuel s) (out ++ bytesI (packPairs (al.drop k))) := by
  intro m
  induction m with
  | zero =>
    intro fuel k F s out _ hk hl h hi _ _ hn _
    have hc : ¬ (s.i < ((s.vg_nattrs) % 4294967296)) := by
      rw [h.get (·.i) (fun _ => rfl), h.get (·.vg_nattrs) (fun _ => rfl), hi, hn]; omega
    have e : vpackvg.loop2 fuel s = s := by cases fuel <;> simp only [vpackvg.loop2, hc, if_false]
    have hd : al.drop k = [] := by simp; omega
    have hF : F.set_i al.length = F := by
      have : (al.length : Int) = F.i := by rw [hi]; congr 1; omega
      simp only [vpackvg.St.set_i, this]
    rw [e, hd, hF]
    simpa [packPairs] using h
  | succ m ih =>
    intro fuel k F s out hf hk hl h hi ht1 ht2 hn hr
    obtain ⟨fuel, rfl⟩ : ∃ f, fuel = f + 1 := ⟨fuel - 1, by omega⟩
    have hc : s.i < ((s.vg_nattrs) % 4294967296) := by
      rw [h.get (·.i) (fun _ => rfl), h.get (·.vg_nattrs) (fun _ => rfl), hi, hn]; omega
    have hkl : k < al.length := by omega
    have hx1 : F.vg_alist_atag.getD k 0 = ((al[k].1 : Nat) : Int) := by
      rw [ht1, List.getD_eq_getElem?_getD, List.getElem?_append_left (by simpa using hkl)]
      simp [ints, hkl]
    have hx2 : F.vg_alist_aref.getD k 0 = ((al[k].2 : Nat) : Int) := by
      rw [ht2, List.getD_eq_getElem?_getD, List.getElem?_append_left (by simpa using hkl)]
      simp [ints, hkl]
    have h1 := enc16r_at h (·.vg_alist_atag) (fun _ => rfl) k al[k].1 hi (by rw [ht1]; simp; omega) hx1 (by omega)
    have h1' := enc16r_at h1 (·.vg_alist_aref) (fun _ => rfl) k al[k].2 hi (by rw [ht2]; simp; omega) hx2
      (by simp only [List.length_append, bytesI_length, u16, List.length_cons, List.length_nil]; omega)
    have h2 := h1'.set_i ((((vpackvg.St.i (enc16r (enc16r s (·.vg_alist_atag)) (·.vg_alist_aref)) + 1)) % 4294967296))
    have hi2 : (enc16r (enc16r s (·.vg_alist_atag)) (·.vg_alist_aref)).i = k := (h1'.get (·.i) (fun _ => rfl)).trans hi
    have e : vpackvg.loop2 (fuel + 1) s = vpackvg.loop2 fuel (vpackvg.loop2.body (fuel + 1) s) := by
      rw [vpackvg.loop2]; simp only [hc, if_true]
    rw [e, loop2_body]
    have h3 := ih fuel (k + 1) _ _ _ (by omega) (by omega) hl h2 (by simp only [vpackvg.St.set_i, hi2]; omega) ht1 ht2 hn
      (by simp only [List.length_append, bytesI_length, u16, List.length_cons, List.length_nil]; omega)
    rw [List.drop_eq_getElem_cons hkl, packPairs, List.flatMap_cons, bytesI_append, bytesI_append, ← List.append_assoc, ← List.append_assoc]
    exact h3

/-! ## 4. name and class -/

/-- `strlen`: the cells before the first NUL of a C string that holds `b` -/
theorem cstr_takeWhile (b : Bytes) (h0 : (0 : Byte) ∉ b) (pad : List Int) :
    (bytesI b ++ 0 :: pad).takeWhile (· ≠ 0) = bytesI b := by
  induction b with
  | nil => simp
  | cons x xs ih =>
    have hx : x ≠ 0 := fun e => h0 (by simp [e])
    have hx' : ((x.toNat : Int) ≠ 0) := by
      intro e; apply hx; exact UInt8.toNat_inj.mp (by simpa using e)
    have := ih (fun e => h0 (List.mem_cons_of_mem _ e))
    simp only [bytesI_cons, List.cons_append, List.takeWhile_cons, ne_eq, hx', not_false_eq_true, decide_true, if_true, this]

/-- what the caller passes for a name: `NULL` (`null = true`, the region is not read) or a NUL-terminated string -/
def StrArg (nm : Option Bytes) (null : Bool) (str : List Int) : Prop :=
  match nm with
  | none => null = true
  | some b => null = false ∧ ∃ pad, str = bytesI b ++ 0 :: pad

theorem pstrA_at {F b0 s out} (h : At F b0 s out) (null : St → Bool) (str : St → List Int)
    (hn : ∀ t, null t = null (frame t)) (hs : ∀ t, str t = str (frame t))
    (nm : Option Bytes) (hnm : NameMemOK nm) (ha : StrArg nm (null F) (str F)) (hsl : F.slen = 0) :
    At (F.set_slen ((nm.getD []).length : Nat)) b0 (pstrA s null str) out := by
  cases nm with
  | none =>
    have e : null s = true := (h.get null hn).trans ha
    have hF : F.set_slen (((none : Option Bytes).getD []).length : Nat) = F := by
      simp only [Option.getD_none, List.length_nil, vpackvg.St.set_slen]
      have : ((0 : Nat) : Int) = F.slen := by rw [hsl]; rfl
      rw [this]
    rw [hF]
    simp only [pstrA, e, Bool.true_eq_false, if_false]
    exact h
  | some b =>
    obtain ⟨hnull, pad, hstr⟩ := ha
    have e : null s = false := (h.get null hn).trans hnull
    have es : str s = bytesI b ++ 0 :: pad := (h.get str hs).trans hstr
    have c1 : 0 ≤ 0 ∧ (0 : Int) ∈ ((str s).drop (Int.toNat (0))) := by
      rw [es]; simp
    simp only [pstrA, e, if_true]
    simp only [chk_true s _ c1]
    rw [es]
    have : Int.toNat 0 = 0 := rfl
    rw [this, List.drop_zero, cstr_takeWhile b hnm.2 pad]
    simpa using h.set_slen ((b.length : Nat) : Int)

theorem strcpy_lists (out : List Int) (z : Int) (R B pad : List Int) :
    (out ++ z :: R).take out.length ++ (B ++ 0 :: pad).take (B.length + 1) ++ (out ++ z :: R).drop (out.length + (B.length + 1))
      = out ++ (B ++ [0]) ++ R.drop B.length := by
  have a1 : (out ++ z :: R).take out.length = out := by simp
  have a2 : (B ++ 0 :: pad).take (B.length + 1) = B ++ [0] := by
    rw [List.take_append]; simp [List.take_of_length_le]
  have a3 : (out ++ z :: R).drop (out.length + (B.length + 1)) = R.drop B.length := by
    rw [List.drop_append]; simp
  rw [a1, a2, a3]

/-- `if (p != NULL) strcpy((char *)bb, p); bb += temp_len;` : the string is appended; its terminating NUL lands under `bb` -/
theorem pstrB_at {F b0 s out} (h : At F b0 s out) (null : St → Bool) (str : St → List Int)
    (hn : ∀ t, null t = null (frame t)) (hs : ∀ t, str t = str (frame t))
    (nm : Option Bytes) (hnm : NameMemOK nm) (ha : StrArg nm (null F) (str F)) (htl : F.temp_len = ((nm.getD []).length : Nat))
    (hr : out.length + (nm.getD []).length < b0.length) :
    At F b0 (vpackvg.St.set_bb (pstrB s null str) ((pstrB s null str).bb + (pstrB s null str).temp_len)) (out ++ bytesI (nm.getD [])) := by
  obtain ⟨z, hz⟩ := h.buf
  cases nm with
  | none =>
    have e : null s = true := (h.get null hn).trans ha
    have e2 : pstrB s null str = s := by simp only [pstrB, e, Bool.true_eq_false, if_false]
    have e3 : s.temp_len = 0 := by rw [h.get (·.temp_len) (fun _ => rfl), htl]; rfl
    rw [e2, e3]
    refine ⟨?_, ?_, h.fr, h.ub, h.oof⟩
    · simp [vpackvg.St.set_bb, h.bb]
    · exact ⟨z, by simpa [vpackvg.St.set_bb] using hz⟩
  | some b =>
    obtain ⟨hnull, pad, hstr⟩ := ha
    have e : null s = false := (h.get null hn).trans hnull
    have es : str s = bytesI b ++ 0 :: pad := (h.get str hs).trans hstr
    have c1 : 0 ≤ 0 ∧ (0 : Int) ∈ ((str s).drop (Int.toNat (0))) := by
      rw [es]; simp
    have t0 : Int.toNat 0 = 0 := rfl
    have tw : ((str s).drop (Int.toNat (0))).takeWhile (· ≠ 0) = bytesI b := by
      rw [es, t0, List.drop_zero, cstr_takeWhile b hnm.2 pad]
    simp only [Option.getD_some] at hr htl ⊢
    have c2 : 0 ≤ s.bb ∧ s.bb + (Int.ofNat (((str s).drop (Int.toNat (0))).takeWhile (· ≠ 0)).length + 1) ≤ s.buf.length := by
      rw [tw, h.bb, hz]
      simp only [List.length_append, List.length_cons, List.length_drop, bytesI_length, Int.ofNat_eq_natCast]
      omega
    have e3 : s.temp_len = (b.length : Int) := by rw [h.get (·.temp_len) (fun _ => rfl), htl]
    have eb : pstrB s null str = vpackvg.St.set_buf s (out ++ (bytesI b ++ [0]) ++ b0.drop (out.length + b.length + 1)) := by
      simp only [pstrB, e, if_true]
      simp only [chk_true s _ c1]
      simp only [chk_true s _ c2]
      rw [tw]
      congr 1
      rw [h.bb, hz, es, t0, List.drop_zero]
      have q1 : Int.toNat (out.length : Int) = out.length := Int.toNat_natCast _
      have q2 : Int.toNat (Int.ofNat (bytesI b).length + 1) = (bytesI b).length + 1 := by
        simp only [Int.ofNat_eq_natCast]; omega
      have q3 : Int.toNat ((out.length : Int) + (Int.ofNat (bytesI b).length + 1)) = out.length + ((bytesI b).length + 1) := by
        simp only [Int.ofNat_eq_natCast]; omega
      rw [q1, q2, q3, strcpy_lists, List.drop_drop, bytesI_length]
      congr 2
      omega
    rw [eb]
    refine ⟨?_, ⟨0, ?_⟩, h.fr, h.ub, h.oof⟩
    · simp only [vpackvg.St.set_bb, vpackvg.St.set_buf, h.bb, e3, List.length_append, bytesI_length]; omega
    · simp only [vpackvg.St.set_bb, vpackvg.St.set_buf, List.length_append, bytesI_length, List.append_assoc, List.cons_append,
        List.nil_append]

/-- name / class field: length prefix and bytes as the model's `packStr` -/
theorem pstr_at {F b0 s out} (h : At F b0 s out) (null : St → Bool) (str : St → List Int)
    (hn : ∀ t, null t = null (frame t)) (hs : ∀ t, str t = str (frame t))
    (hn1 : ∀ t v, null (vpackvg.St.set_slen t v) = null t) (hn2 : ∀ t v, null (vpackvg.St.set_temp_len t v) = null t)
    (hs1 : ∀ t v, str (vpackvg.St.set_slen t v) = str t) (hs2 : ∀ t v, str (vpackvg.St.set_temp_len t v) = str t)
    (nm : Option Bytes) (hnm : NameMemOK nm) (ha : StrArg nm (null F) (str F)) (hsl : F.slen = 0)
    (hr : out.length + 2 + (nm.getD []).length < b0.length) :
    At ((F.set_slen ((nm.getD []).length : Nat)).set_temp_len ((nm.getD []).length : Nat)) b0 (pstr s null str)
      (out ++ bytesI (packStr nm)) := by
  have hlen : (nm.getD []).length < 65536 := by
    cases nm with
    | none => simp
    | some b => exact hnm.1
  have h1 := pstrA_at h null str hn hs nm hnm ha hsl
  have tl : ((if ((pstrA s null str).slen > ((0) % 18446744073709551616)) then (pstrA s null str).slen else ((0) % 18446744073709551616)) % 65536)
      = (((nm.getD []).length : Nat) : Int) := by
    rw [h1.get (·.slen) (fun _ => rfl)]
    simp only [vpackvg.St.set_slen]
    split <;> omega
  have h2 := h1.set_temp_len ((if ((pstrA s null str).slen > ((0) % 18446744073709551616)) then (pstrA s null str).slen else ((0) % 18446744073709551616)) % 65536)
  rw [tl] at h2
  have etl : ∀ {t o}, At ((F.set_slen ((nm.getD []).length : Nat)).set_temp_len ((nm.getD []).length : Nat)) b0 t o →
      t.temp_len = (((nm.getD []).length : Nat) : Int) := fun ht => ht.get (·.temp_len) (fun _ => rfl)
  have h3 := enc16_at h2 (nm.getD []).length _ _ (etl h2) (etl h2) (by omega)
  have ha' : StrArg nm (null ((F.set_slen ((nm.getD []).length : Nat)).set_temp_len ((nm.getD []).length : Nat)))
      (str ((F.set_slen ((nm.getD []).length : Nat)).set_temp_len ((nm.getD []).length : Nat))) := by
    rw [hn2, hn1, hs2, hs1]; exact ha
  have h4 := pstrB_at h3 null str hn hs nm hnm ha' rfl
    (by simp only [List.length_append, bytesI_length, u16, List.length_cons, List.length_nil]; omega)
  have pk : packStr nm = u16 (nm.getD []).length ++ nm.getD [] := by
    simp only [packStr, Nat.mod_eq_of_lt hlen, List.take_length]
  rw [pk, bytesI_append, ← List.append_assoc]
  simp only [pstr]
  rw [tl]
  exact h4

/-! ## 5. flags, version bump, attributes -/

theorem consts : VSET_NEW_VERSION = 4 ∧ VG_ATTR_SET = 1 := by decide

/-- the part of the record between `exref` and `version` -/
def flagsPart (g : VG) : Bytes :=
  if hasFlagsWord true g then
    u32 g.flags ++ (if g.flags &&& VG_ATTR_SET ≠ 0 then u32 g.attrs.length ++ packPairs g.attrs else [])
  else []

theorem toI16_four : toI16 4 = 4 := by decide

theorem packPairs_length (l : List Pair) : (packPairs l).length = 4 * l.length := by
  induction l with
  | nil => rfl
  | cons a l ih =>
    simp only [packPairs, List.flatMap_cons, List.length_append, u16, List.length_cons, List.length_nil] at ih ⊢
    omega

theorem land_one (n : Nat) : (Int.ofNat (Int.toNat (n : Int) &&& Int.toNat (((1) % 4294967296))) ≠ 0) ↔ n &&& VG_ATTR_SET ≠ 0 := by
  have e : Int.toNat ((1 : Int) % 4294967296) = 1 := by decide
  rw [e, Int.toNat_natCast, consts.2]
  simp only [Int.ofNat_eq_natCast, ne_eq]
  omega

/-- the C arguments that describe the attribute list -/
structure AttrArg (g : VG) (F : St) : Prop where
  n : F.vg_nattrs = (g.attrs.length : Int)
  lt : g.attrs.length < 2147483648
  atag : ∃ pad, F.vg_alist_atag = ints (g.attrs.map (·.1)) ++ pad
  aref : ∃ pad, F.vg_alist_aref = ints (g.attrs.map (·.2)) ++ pad

theorem ph6b_at {F b0 s out} (h : At F b0 s out) (g : VG) (fuel : Nat) (hfl : F.vg_flags = (g.flags : Int))
    (ha : g.flags &&& VG_ATTR_SET ≠ 0 → AttrArg g F ∧ g.attrs.length ≤ fuel)
    (hr : out.length + (if g.flags &&& VG_ATTR_SET ≠ 0 then 4 + 4 * g.attrs.length else 0) < b0.length) :
    ∃ F', At F' b0 (ph6b fuel s) (out ++ bytesI (if g.flags &&& VG_ATTR_SET ≠ 0 then u32 g.attrs.length ++ packPairs g.attrs else [])) ∧
      F'.vg_version = F.vg_version ∧ F'.vg_more = F.vg_more ∧ F'.size = F.size ∧ F'.ret_value = F.ret_value := by
  have efl : s.vg_flags = (g.flags : Int) := (h.get (·.vg_flags) (fun _ => rfl)).trans hfl
  by_cases hc : g.flags &&& VG_ATTR_SET ≠ 0
  · obtain ⟨⟨hn, hlt, ⟨pad1, h1⟩, ⟨pad2, h2⟩⟩, hfu⟩ := ha hc
    have hc' := (land_one g.flags).mpr hc
    rw [if_pos hc] at hr
    rw [if_pos hc]
    have en : ((s.vg_nattrs) % 4294967296) = ((g.attrs.length : Nat) : Int) := by
      rw [h.get (·.vg_nattrs) (fun _ => rfl), hn]; omega
    have a1 := enc32_at h g.attrs.length _ en (by omega)
    have a2 := a1.set_i (((0) % 4294967296))
    have a3 := loop2_at g.attrs pad1 pad2 b0 g.attrs.length fuel 0 _ _ _ hfu (by omega) (by omega) a2 rfl h1 h2 hn
      (by simp only [List.length_append, bytesI_length, u32, List.length_cons, List.length_nil]; omega)
    refine ⟨(vpackvg.St.set_i F (0 % 4294967296)).set_i (g.attrs.length : Int), ?_, rfl, rfl, rfl, rfl⟩
    simp only [ph6b, efl]
    rw [if_pos hc', bytesI_append, ← List.append_assoc]
    simpa only [List.drop_zero] using a3
  · have hc' : ¬ (Int.ofNat (Int.toNat ((g.flags : Nat) : Int) &&& Int.toNat (((1) % 4294967296))) ≠ 0) :=
      fun x => hc ((land_one g.flags).mp x)
    rw [if_neg hc] at hr
    rw [if_neg hc]
    refine ⟨F, ?_, rfl, rfl, rfl, rfl⟩
    simp only [ph6b, efl]
    rw [if_neg hc']
    simpa using h

theorem toI16_lt {v : Nat} (h : v < 65536) : toI16 v = if v < 32768 then (v : Int) else (v : Int) - 65536 := by
  simp only [toI16, Nat.mod_eq_of_lt h]

theorem ph6_at {F b0 s out} (h : At F b0 s out) (g : VG) (fuel : Nat) (hfl : F.vg_flags = (g.flags : Int))
    (hfl32 : g.flags < 4294967296) (hv : F.vg_version = toI16 g.version) (hv16 : g.version < 65536)
    (ha : g.flags &&& VG_ATTR_SET ≠ 0 → AttrArg g F ∧ g.attrs.length ≤ fuel)
    (hr : out.length + (flagsPart g).length < b0.length) :
    ∃ F', At F' b0 (ph6 fuel s) (out ++ bytesI (flagsPart g)) ∧
      F'.vg_version = toI16 (packVersion g) ∧ F'.vg_more = F.vg_more ∧ F'.size = F.size ∧ F'.ret_value = F.ret_value := by
  have efl : s.vg_flags = (g.flags : Int) := (h.get (·.vg_flags) (fun _ => rfl)).trans hfl
  have ev : s.vg_version = toI16 g.version := (h.get (·.vg_version) (fun _ => rfl)).trans hv
  have hw : hasFlagsWord true g = true ↔ ((s.vg_flags ≠ 0) ∨ (s.vg_version = 4)) := by
    rw [efl, ev]
    simp only [hasFlagsWord, Bool.true_and, Bool.or_eq_true, bne_iff_ne, ne_eq, beq_iff_eq, consts.1]
    constructor
    · rintro (a | a)
      · left; omega
      · right; simpa using a
    · rintro (a | a)
      · left; omega
      · right; simpa using a
  by_cases hc : (s.vg_flags ≠ 0) ∨ (s.vg_version = 4)
  · have hw' := hw.mpr hc
    -- the version bump
    have hpv : toI16 (packVersion g) = if toI16 g.version < 4 then 4 else toI16 g.version := by
      have c4 : ((4 : Nat) : Int) = 4 := rfl
      simp only [packVersion, consts.1, c4]
      by_cases h4 : toI16 g.version < 4
      · have : g.flags ≠ 0 := by
          rcases hc with a | a
          · rw [efl] at a; omega
          · rw [ev] at a; omega
        simp only [h4, this, ne_eq, not_false_eq_true, and_self, if_true, toI16_four]
      · simp only [h4, and_false, if_false]
    have a1 : At (F.set_vg_version (toI16 (packVersion g))) b0 (ph6a s) out := by
      by_cases h4 : s.vg_version < 4
      · have e : toI16 (packVersion g) = ((((4) + 32768) % 65536 - 32768) : Int) := by
          rw [hpv, if_pos (by rw [← ev]; exact h4)]; decide
        rw [e]
        simp only [ph6a, h4, if_true]
        exact h.set_vg_version _
      · have e : F.set_vg_version (toI16 (packVersion g)) = F := by
          rw [hpv, if_neg (by rw [← ev]; exact h4), ← hv]
        rw [e]
        simp only [ph6a, h4, if_false]
        exact h
    simp only [flagsPart, hw', if_true, bytesI_append, List.length_append] at hr ⊢
    have e1 : (ph6a s).vg_flags = ((g.flags : Nat) : Int) := (a1.get (·.vg_flags) (fun _ => rfl)).trans hfl
    have a2 := enc32_at a1 g.flags _ e1 (by simp only [u32, List.length_cons, List.length_nil] at hr; omega)
    have e2 : (enc32 (ph6a s) (ph6a s).vg_flags).vg_flags = ((g.flags : Nat) : Int) := (a2.get (·.vg_flags) (fun _ => rfl)).trans hfl
    have c : (0 : Int) ≤ (enc32 (ph6a s) (ph6a s).vg_flags).vg_flags ∧ (0 : Int) ≤ ((1) % 4294967296) := by
      rw [e2]; exact ⟨by omega, by decide⟩
    have ha' : g.flags &&& VG_ATTR_SET ≠ 0 → AttrArg g (F.set_vg_version (toI16 (packVersion g))) ∧ g.attrs.length ≤ fuel := by
      intro x
      obtain ⟨⟨q1, q2, q3, q4⟩, q5⟩ := ha x
      exact ⟨⟨q1, q2, q3, q4⟩, q5⟩
    obtain ⟨F', a3, f1, f2, f3, f4⟩ := ph6b_at a2 g fuel hfl ha' (by
      simp only [List.length_append, bytesI_length, u32, List.length_cons, List.length_nil] at hr ⊢
      split at hr <;> simp_all [packPairs_length] <;> omega)
    refine ⟨F', ?_, f1, f2, f3, f4⟩
    simp only [ph6, hc, if_true]
    simp only [chk_true _ _ c]
    rw [← List.append_assoc]
    exact a3
  · have hw' : hasFlagsWord true g = false := by
      cases hx : hasFlagsWord true g with
      | false => rfl
      | true => exact absurd (hw.mp hx) hc
    have hf0 : g.flags = 0 := by
      have : ¬ (s.vg_flags ≠ 0) := fun x => hc (Or.inl x)
      rw [efl] at this; omega
    refine ⟨F, ?_, ?_, rfl, rfl, rfl⟩
    · simp only [ph6, hc, if_false, flagsPart, hw', Bool.false_eq_true, bytesI_nil, List.append_nil]
      exact h
    · simp only [packVersion, hf0, ne_eq, not_true_eq_false, false_and, if_false]
      exact hv

/-! ## 6. the last lines, and the whole function -/

theorem ph7_at {F b0 s out} (h : At F b0 s out) (pv more : Nat) (hv : F.vg_version = (pv : Int)) (hm : F.vg_more = (more : Int))
    (hpv : pv < 32768) (hmore : more < 32768) (hr : out.length + 4 < b0.length) :
    At F b0 (ph7 s) (out ++ bytesI (u16 pv) ++ bytesI (u16 more)) := by
  have ev : s.vg_version = (pv : Int) := (h.get (·.vg_version) (fun _ => rfl)).trans hv
  have a1 := enc16_at h pv ((s.vg_version) % 4294967296) s.vg_version (by rw [ev]; omega) ev (by omega)
  have em : (enc16 s ((s.vg_version) % 4294967296) s.vg_version).vg_more = (more : Int) := (a1.get (·.vg_more) (fun _ => rfl)).trans hm
  exact enc16_at a1 more (((enc16 s ((s.vg_version) % 4294967296) s.vg_version).vg_more) % 4294967296) _ (by rw [em]; omega) em
    (by simp only [List.length_append, bytesI_length, u16, List.length_cons, List.length_nil]; omega)

theorem ph8_at {F b0 s out} (h : At F b0 s out) (hs : 0 < F.size.length) :
    (ph8 s).ub = false ∧ (ph8 s).oof = false ∧
      (ph8 s).buf = out ++ 0 :: b0.drop (out.length + 1) ∧
      (ph8 s).size = F.size.set 0 ((out.length + 1 : Nat) : Int) ∧ (ph8 s).vg_version = F.vg_version ∧ (ph8 s).ret = F.ret_value := by
  obtain ⟨z, hz⟩ := h.buf
  have c1 : 0 < s.size.length := by rw [h.get (·.size) (fun _ => rfl)]; exact hs
  have c2 : 0 ≤ (vpackvg.St.set_size s (s.size.set (Int.toNat (0)) (((s.bb - 0) + 1)))).bb ∧
      (vpackvg.St.set_size s (s.size.set (Int.toNat (0)) (((s.bb - 0) + 1)))).bb <
        (vpackvg.St.set_size s (s.size.set (Int.toNat (0)) (((s.bb - 0) + 1)))).buf.length := h.bounds
  simp only [ph8]
  simp only [chk_true s _ c1]
  simp only [chk_true _ _ c2]
  refine ⟨h.ub, h.oof, ?_, ?_, h.get (·.vg_version) (fun _ => rfl), h.get (·.ret_value) (fun _ => rfl)⟩
  · simp only [vpackvg.St.set_ret, vpackvg.St.set_buf, vpackvg.St.set_size, h.bb, hz, Int.toNat_natCast]
    rw [List.set_append_right _ _ (Nat.le_refl _)]
    simp
  · simp only [vpackvg.St.set_ret, vpackvg.St.set_buf, vpackvg.St.set_size, h.bb, h.get (·.size) (fun _ => rfl)]
    congr 1

/-- `ph8_at` in terms of the complete record `rec = out ++ [0]` -/
theorem ph8_rec {F b0 s out} (h : At F b0 s out) (hs : 0 < F.size.length) (rec : List Int) (hrec : rec = out ++ [0]) :
    (ph8 s).ub = false ∧ (ph8 s).oof = false ∧ (ph8 s).buf = rec ++ b0.drop rec.length ∧
      (ph8 s).size = F.size.set 0 (rec.length : Int) ∧ (ph8 s).vg_version = F.vg_version ∧ (ph8 s).ret = F.ret_value := by
  obtain ⟨r1, r2, r3, r4, r5, r6⟩ := ph8_at h hs
  subst hrec
  refine ⟨r1, r2, ?_, ?_, r5, r6⟩
  · rw [r3]; simp only [List.append_assoc, List.length_append, List.length_cons, List.length_nil, List.cons_append, List.nil_append]
  · rw [r4]; simp only [List.length_append, List.length_cons, List.length_nil]

theorem flatMap_map_u16 (l : List Pair) (f : Pair → Nat) : (l.map f).flatMap u16 = l.flatMap (fun p => u16 (f p)) := by
  induction l with
  | nil => rfl
  | cons a l ih => simp only [List.map_cons, List.flatMap_cons, ih]

theorem u16_length (x : Nat) : (u16 x).length = 2 := rfl
theorem u32_length (x : Nat) : (u32 x).length = 4 := rfl

theorem flatMap_u16_length (l : List Pair) (f : Pair → Nat) : (l.flatMap (fun p => u16 (f p))).length = 2 * l.length := by
  induction l with
  | nil => rfl
  | cons a l ih => simp only [List.flatMap_cons, List.length_append, u16, List.length_cons, List.length_nil] at ih ⊢; omega

theorem packStr_length (nm : Option Bytes) (h : NameMemOK nm) : (packStr nm).length = 2 + (nm.getD []).length := by
  have hlen : (nm.getD []).length < 65536 := by
    cases nm with
    | none => simp
    | some b => exact h.1
  simp only [packStr, Nat.mod_eq_of_lt hlen, List.take_length, List.length_append, u16, List.length_cons, List.length_nil]

/-- the record of the model, split the way the phases write it -/
theorem vpackvgF_split (g : VG) : vpackvgF true g =
    ((((((([] ++ u16 g.members.length) ++ (g.members.map (·.1)).flatMap u16) ++ (g.members.map (·.2)).flatMap u16)
      ++ packStr g.name) ++ packStr g.cls) ++ u16 g.extag ++ u16 g.exref) ++ flagsPart g) ++ u16 (packVersion g) ++ u16 g.more ++ [0] := by
  simp only [vpackvgF, flagsPart, flatMap_map_u16, List.nil_append, List.append_assoc]

/-- the arguments the translated function is called with for the model Vgroup `g`: `nvelt`/`nattrs` are the list lengths, the
    member and attribute arrays may be longer than that (`msize`; `tpad` …), names are C strings (`StrArg`), `version` is
    the `int16` value of the model's 16-bit pattern -/
def init (g : VG) (tpad rpad atpad arpad : List Int) (nnull cnull : Bool) (nstr cstr buf size : List Int) : St :=
  { vg_nvelt := (g.members.length : Int), vg_tag := ints (g.members.map (·.1)) ++ tpad,
    vg_ref := ints (g.members.map (·.2)) ++ rpad, vg_vgname_null := nnull, vg_vgname := nstr,
    vg_vgclass_null := cnull, vg_vgclass := cstr, vg_extag := (g.extag : Int), vg_exref := (g.exref : Int),
    vg_flags := (g.flags : Int), vg_version := toI16 g.version, vg_nattrs := (g.attrs.length : Int),
    vg_alist_atag := ints (g.attrs.map (·.1)) ++ atpad,
    vg_alist_aref := ints (g.attrs.map (·.2)) ++ arpad, vg_more := (g.more : Int), buf := buf, size := size }

/-- **`vpackvg` as translated from vgp.c writes the model's record** (technical form; `H4.Props.C08Fn` states it for callers) -/
theorem vpackvg_run (g : VG) (fuel : Nat) (tpad rpad atpad arpad : List Int) (nnull cnull : Bool) (nstr cstr : List Int)
    (buf size : List Int)
    (hn : g.members.length < 65536) (hname : NameMemOK g.name) (hcls : NameMemOK g.cls)
    (hna : StrArg g.name nnull nstr) (hca : StrArg g.cls cnull cstr)
    (hfl : g.flags < 4294967296) (hver : g.version < 65536) (hpv : packVersion g < 32768) (hmore : g.more < 32768)
    (hattr : g.flags &&& VG_ATTR_SET ≠ 0 → g.attrs.length < 2147483648)
    (hfuel : g.members.length ≤ fuel) (hfuel2 : g.flags &&& VG_ATTR_SET ≠ 0 → g.attrs.length ≤ fuel)
    (hbuf : (vpackvgF true g).length ≤ buf.length) (hsize : 0 < size.length) :
    let s := vpackvgC fuel (g.members.length : Int) (ints (g.members.map (·.1)) ++ tpad) (ints (g.members.map (·.2)) ++ rpad)
      nnull nstr cnull cstr (g.extag : Int) (g.exref : Int) (g.flags : Int) (toI16 g.version) (g.attrs.length : Int)
      (ints (g.attrs.map (·.1)) ++ atpad) (ints (g.attrs.map (·.2)) ++ arpad) (g.more : Int) buf size
    s.ub = false ∧ s.oof = false ∧
      s.buf = bytesI (vpackvgF true g) ++ buf.drop (vpackvgF true g).length ∧
      s.size = size.set 0 ((vpackvgF true g).length : Int) ∧
      s.vg_version = toI16 (packVersion g) ∧ s.ret = 0 := by
  intro s
  have hs : s = ph8 (ph7 (ph6 fuel (ph5 (ph4 (ph3 (ph2 fuel (ph1 fuel (ph0
      (init g tpad rpad atpad arpad nnull cnull nstr cstr buf size))))))))) :=
    vpackvg_phases _ _ _ _ _ _ _ _ _ _ _ _ _ _ _ _ _ _
  have hL := congrArg List.length (vpackvgF_split g)
  simp only [List.length_append, List.length_nil, flatMap_map_u16, flatMap_u16_length,
    packStr_length _ hname, packStr_length _ hcls] at hL
  simp only [u16, List.length_cons, List.length_nil] at hL
  rw [hL] at hbuf
  generalize hS0 : init g tpad rpad atpad arpad nnull cnull nstr cstr buf size = S0 at hs
  have z0 : (0 : Int) % 4294967296 = ((0 : Nat) : Int) := by decide
  -- ph0
  have a0 : At (ph0 S0) buf (ph0 S0) [] := by
    subst hS0
    exact ⟨rfl, ⟨buf[0], by simp only [ph0, init, List.nil_append, List.length_nil, Nat.zero_add]; rw [← List.drop_eq_getElem_cons (by omega)]; rfl⟩, rfl, rfl, rfl⟩
  -- ph1: nvelt, tags
  have a1 : At _ buf (ph1 fuel (ph0 S0)) _ :=
    loop0_at (g.members.map (·.1)) tpad buf g.members.length fuel 0 _ _ _ hfuel (by simp) (by simp; omega)
      ((enc16_at a0 g.members.length _ _ (by subst hS0; rfl) (by subst hS0; rfl) (by simp only [List.length_nil]; omega)).set_i _)
      z0 (by subst hS0; rfl) (by subst hS0; simp [ph0, init])
      (by simp only [List.length_append, List.length_nil, bytesI_length, u16, List.length_cons]; omega)
  -- ph2: refs
  have a2 : At _ buf (ph2 fuel (ph1 fuel (ph0 S0))) _ :=
    loop1_at (g.members.map (·.2)) rpad buf g.members.length fuel 0 _ _ _ hfuel (by simp) (by simp; omega)
      (a1.set_i _) z0 (by subst hS0; rfl) (by subst hS0; simp [ph0, init])
      (by simp only [List.length_append, List.length_nil, bytesI_length, u16_length, List.drop_zero,
            flatMap_map_u16, flatMap_u16_length]; omega)
  simp only [List.drop_zero] at a2
  -- ph3: name
  have a3 : At _ buf (ph3 (ph2 fuel (ph1 fuel (ph0 S0)))) _ :=
    pstr_at a2 (·.vg_vgname_null) (·.vg_vgname) (fun _ => rfl) (fun _ => rfl) (fun _ _ => rfl) (fun _ _ => rfl) (fun _ _ => rfl)
      (fun _ _ => rfl) g.name hname (by subst hS0; exact hna) (by subst hS0; rfl)
      (by simp only [List.length_append, List.length_nil, bytesI_length, u16_length,
            flatMap_map_u16, flatMap_u16_length]; omega)
  -- ph4: class
  have a4 : At _ buf (ph4 (ph3 (ph2 fuel (ph1 fuel (ph0 S0))))) _ :=
    pstr_at (a3.set_slen _) (·.vg_vgclass_null) (·.vg_vgclass) (fun _ => rfl) (fun _ => rfl) (fun _ _ => rfl) (fun _ _ => rfl)
      (fun _ _ => rfl) (fun _ _ => rfl) g.cls hcls (by subst hS0; exact hca) (by show ((0 : Int) % 18446744073709551616) = 0; decide)
      (by simp only [List.length_append, List.length_nil, bytesI_length, u16_length,
            flatMap_map_u16, flatMap_u16_length, packStr_length _ hname]; omega)
  have lens : ∀ x : Nat, x + 0 = x := fun _ => rfl
  -- ph5: extag, exref
  have e5 := enc16_at a4 g.extag _ _ ((a4.get (·.vg_extag) (fun _ => rfl)).trans (by subst hS0; rfl))
      ((a4.get (·.vg_extag) (fun _ => rfl)).trans (by subst hS0; rfl))
      (by simp only [List.length_append, List.length_nil, bytesI_length, u16_length,
            flatMap_map_u16, flatMap_u16_length, packStr_length _ hname, packStr_length _ hcls]; omega)
  have a5 : At _ buf (ph5 (ph4 (ph3 (ph2 fuel (ph1 fuel (ph0 S0)))))) _ :=
    enc16_at e5 g.exref _ _ ((e5.get (·.vg_exref) (fun _ => rfl)).trans (by subst hS0; rfl))
      ((e5.get (·.vg_exref) (fun _ => rfl)).trans (by subst hS0; rfl))
      (by simp only [List.length_append, List.length_nil, bytesI_length, u16_length,
            flatMap_map_u16, flatMap_u16_length, packStr_length _ hname, packStr_length _ hcls]; omega)
  -- ph6: flags, version bump, attributes
  obtain ⟨F6, a6, v6, m6, s6, r6⟩ := ph6_at (s := ph5 (ph4 (ph3 (ph2 fuel (ph1 fuel (ph0 S0)))))) a5 g fuel (by subst hS0; rfl) hfl
    (by subst hS0; rfl) hver
    (fun x => ⟨⟨by subst hS0; rfl, hattr x, ⟨atpad, by subst hS0; rfl⟩, ⟨arpad, by subst hS0; rfl⟩⟩, hfuel2 x⟩)
    (by simp only [List.length_append, List.length_nil, bytesI_length, u16_length,
            flatMap_map_u16, flatMap_u16_length, packStr_length _ hname, packStr_length _ hcls]; omega)
  -- ph7: version, more
  have pvI : toI16 (packVersion g) = ((packVersion g : Nat) : Int) := by
    rw [toI16_lt (by omega), if_pos hpv]
  have a7 := ph7_at a6 (packVersion g) g.more (v6.trans pvI) (m6.trans (by subst hS0; rfl)) hpv hmore
    (by simp only [List.length_append, List.length_nil, bytesI_length, u16_length,
            flatMap_map_u16, flatMap_u16_length, packStr_length _ hname, packStr_length _ hcls]; omega)
  -- ph8: size, extra byte, return
  obtain ⟨r1, r2, r3, r4, r5, r6'⟩ := ph8_rec a7 (by rw [s6]; subst hS0; exact hsize) (bytesI (vpackvgF true g))
    (by rw [vpackvgF_split g]; simp only [bytesI_append]; rfl)
  rw [hs]
  refine ⟨r1, r2, ?_, ?_, ?_, ?_⟩
  · rw [r3, bytesI_length]
  · rw [r4, s6, bytesI_length]
    subst hS0
    rfl
  · rw [r5, v6]
  · rw [r6', r6]; subst hS0; rfl

end H4.Lemmas.C08Fn
