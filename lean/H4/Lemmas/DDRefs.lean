import H4.Lemmas.DDOps
/-! # `Hnewref` and `Htagnewref` -/
namespace H4.DD
open H4.Gen.Hdf H4.Bitvect

theorem pRef_iff (k : Nat) (d : DD) : pRef k d = true ↔ isLive d = true ∧ d.ref = k := by
  simp [pRef, isLive]

theorem scanRef_isNone (blocks : List Block) (k : Nat) :
    (scanFwd (pRef k) blocks 0 0).isNone = true ↔ ∀ d ∈ liveOf (slotsOf blocks), d.ref ≠ k := by
  constructor
  · intro h
    have hn : scanFwd (pRef k) blocks 0 0 = none := by
      cases hh : scanFwd (pRef k) blocks 0 0 <;> simp_all
    have := scanFwd_none hn
    rw [sufFrom_zero_zero, List.filter_eq_nil_iff] at this
    intro d hd hk
    obtain ⟨hm, hl⟩ := mem_liveOf.mp hd
    exact this d hm ((pRef_iff k d).mpr ⟨hl, hk⟩)
  · intro h
    cases hh : scanFwd (pRef k) blocks 0 0 with
    | none => rfl
    | some q =>
      obtain ⟨hv, hp, _⟩ := scanFwd_some hh
      obtain ⟨hl, hk⟩ := (pRef_iff k _).mp hp
      exact absurd hk (h _ (mem_liveOf.mpr ⟨getDD_mem_slots hv, hl⟩))

/-- the wrap-around loop of `Hnewref`: the first unused ref in `[i, i + fuel)`, or 0 when all are used -/
theorem refSearch_spec (blocks : List Block) : ∀ (fuel i : Nat), 1 ≤ i →
    (refSearch blocks fuel i ≠ 0 → i ≤ refSearch blocks fuel i ∧ refSearch blocks fuel i < i + fuel ∧
      (∀ d ∈ liveOf (slotsOf blocks), d.ref ≠ refSearch blocks fuel i)) ∧
    (refSearch blocks fuel i = 0 → ∀ k, i ≤ k → k < i + fuel → ∃ d ∈ liveOf (slotsOf blocks), d.ref = k) := by
  intro fuel
  induction fuel with
  | zero => intro i _; simp [refSearch]; intro k h1 h2; omega
  | succ fuel ih =>
    intro i hi
    unfold refSearch
    by_cases hn : (scanFwd (pRef i) blocks 0 0).isNone = true
    · rw [if_pos hn]
      refine ⟨fun _ => ⟨Nat.le_refl _, by omega, (scanRef_isNone blocks i).mp hn⟩, fun h0 => by omega⟩
    · rw [if_neg hn]
      obtain ⟨h1, h2⟩ := ih (i + 1) (by omega)
      constructor
      · intro hr
        obtain ⟨a, b, c⟩ := h1 hr
        exact ⟨by omega, by omega, c⟩
      · intro hr k hk1 hk2
        by_cases hki : k = i
        · subst hki
          have : ¬ ∀ d ∈ liveOf (slotsOf blocks), d.ref ≠ k := fun h => hn ((scanRef_isNone blocks k).mpr h)
          by_cases hex : ∃ d ∈ liveOf (slotsOf blocks), d.ref = k
          · exact hex
          · exfalso; apply this; intro d hd hk; exact hex ⟨d, hd, hk⟩
        · exact h2 hr k (by omega) (by omega)

/-- **`Hnewref`** on a state whose `maxref` bounds every live ref (or whose counter has wrapped) -/
theorem hnewref_spec {s : File} (hb : ∀ d ∈ s.live, 1 ≤ d.ref ∧ d.ref ≤ 65535)
    (hm : s.maxref < MAX_REF → ∀ d ∈ s.live, d.ref ≤ s.maxref) :
    ((hnewref s).1 ≠ 0 → ∀ d ∈ s.live, d.ref ≠ (hnewref s).1) ∧
    ((hnewref s).1 = 0 ↔ ∀ k, 1 ≤ k → k ≤ 65535 → ∃ d ∈ s.live, d.ref = k) ∧
    (hnewref s).1 ≤ 65535 := by
  unfold hnewref
  by_cases hlt : s.maxref < MAX_REF
  · rw [if_pos hlt]
    simp only
    have hM : MAX_REF = 65535 := rfl
    refine ⟨fun _ d hd => by have := hm hlt d hd; omega, ⟨fun h => by omega, fun h => ?_⟩, by omega⟩
    exfalso
    obtain ⟨d, hd, hk⟩ := h (s.maxref + 1) (by omega) (by omega)
    have := hm hlt d hd; omega
  · rw [if_neg hlt]
    simp only
    obtain ⟨h1, h2⟩ := refSearch_spec s.blocks MAX_REF 1 (Nat.le_refl _)
    have hM : MAX_REF = 65535 := rfl
    refine ⟨fun hr => (h1 hr).2.2, ⟨fun h0 k hk1 hk2 => h2 h0 k hk1 (by omega), fun hall => ?_⟩, ?_⟩
    · by_cases hr : refSearch s.blocks MAX_REF 1 = 0
      · exact hr
      · exfalso
        obtain ⟨a, b, c⟩ := h1 hr
        obtain ⟨d, hd, hk⟩ := hall _ a (by omega)
        exact c d hd hk
    · by_cases hr : refSearch s.blocks MAX_REF 1 = 0
      · omega
      · have := (h1 hr).2.1; omega

/-- replacing a tag's bit-vector by one with the same bits keeps the tag tree consistent -/
theorem TagsOK_tput_same {tags : Tags} {l : List DD} (h : TagsOK tags l) {base : Nat} {bv bv' : BV}
    (hg : tget tags base = some bv) (hinv : bv'.Inv) (hbits : ∀ k, bv'.bit k = bv.bit k) :
    TagsOK (tput tags base bv') l := by
  constructor
  · intro b v hv
    rw [tget_tput] at hv
    split at hv
    · rename_i hb
      cases hv
      obtain ⟨_, i2, i3⟩ := h.node _ _ hg
      subst hb
      exact ⟨hinv, by rw [hbits]; exact i2, fun r hr => by rw [hbits]; exact i3 r hr⟩
    · exact h.node _ _ hv
  · intro b hv
    rw [tget_tput] at hv
    split at hv
    · cases hv
    · exact h.nonode _ hv

theorem htagnewref_none {cfg : Cfg} {s : File} {t : Nat} (h : tget s.tags (baseTag t) = none) :
    htagnewref cfg s t = (1, s) := by
  unfold htagnewref; rw [h]
theorem htagnewref_some {cfg : Cfg} {s : File} {t : Nat} {bv : BV} (h : tget s.tags (baseTag t) = some bv) :
    htagnewref cfg s t =
      (tagnewrefValue cfg bv.findNextZero.1, { s with tags := tput s.tags (baseTag t) bv.findNextZero.2 }) := by
  unfold htagnewref; rw [h]

/-- **`Htagnewref`**: effect on the state (the bit-vector cache only) and the value returned, in terms of the
    lowest clear bit `z` of the tag's vector -/
theorem htagnewref_spec (cfg : Cfg) {s : File} (hw : WF s) (t : Nat) :
    WF (htagnewref cfg s t).2 ∧ (htagnewref cfg s t).2.blocks = s.blocks ∧
    (htagnewref cfg s t).2.disk = s.disk ∧ (htagnewref cfg s t).2.fEnd = s.fEnd ∧
    (htagnewref cfg s t).2.cache = s.cache ∧ (htagnewref cfg s t).2.fdirty = s.fdirty ∧
    (htagnewref cfg s t).2.maxref = s.maxref ∧
    ∃ z, 1 ≤ z ∧ z ≤ 65536 ∧ (∀ d ∈ s.live, keyOf d ≠ (baseTag t, z)) ∧
      (∀ k, 1 ≤ k → k < z → ∃ d ∈ s.live, keyOf d = (baseTag t, k)) ∧
      (htagnewref cfg s t).1 = tagnewrefValue cfg z := by
  cases hg : tget s.tags (baseTag t) with
  | none =>
    rw [htagnewref_none hg]
    refine ⟨hw, rfl, rfl, rfl, rfl, rfl, rfl, 1, Nat.le_refl _, by omega, ?_, fun k h1 h2 => by omega, ?_⟩
    · intro d hd hk
      exact hw.wfl.tags.nonode _ hg d hd (by simp [keyOf] at hk; exact hk.1)
    · have hM : MAX_REF = 65535 := rfl
      unfold tagnewrefValue
      cases cfg.fixF7 <;> simp [hM]
  | some bv =>
    rw [htagnewref_some hg]
    obtain ⟨binv, b0, bspec⟩ := hw.wfl.tags.node _ _ hg
    obtain ⟨z1, z2, z3, z4⟩ := findNextZero_spec binv
    have hz1 : 1 ≤ bv.findNextZero.1 := by
      rcases Nat.eq_zero_or_pos bv.findNextZero.1 with h0 | h0
      · rw [h0, b0] at z1; cases z1
      · exact h0
    have hfresh : ∀ d ∈ s.live, keyOf d ≠ (baseTag t, bv.findNextZero.1) := by
      intro d hd hk
      have := (bspec _ hz1).mpr ⟨d, hd, hk⟩
      rw [z1] at this; cases this
    have hz2 : bv.findNextZero.1 ≤ 65536 := by
      rcases Nat.lt_or_ge 65536 bv.findNextZero.1 with h | h
      · exfalso
        obtain ⟨d, hd, hk⟩ := (bspec 65536 (by omega)).mp (z2 65536 h)
        have := (hw.wfl.live_ok d hd).2.2
        simp [keyOf] at hk; omega
      · exact h
    have hwf' : WF { s with tags := tput s.tags (baseTag t) bv.findNextZero.2 } :=
      ⟨⟨hw.wfl.live_ok, hw.wfl.nodup, TagsOK_tput_same hw.wfl.tags hg z3 z4, hw.wfl.offlen⟩, hw.noub, hw.ne, hw.slotne⟩
    exact ⟨hwf', rfl, rfl, rfl, rfl, rfl, rfl, _, hz1, hz2, hfresh, fun k h1 h2 => (bspec k h1).mp (z2 k h2), rfl⟩

end H4.DD
