import H4.Conv
/-! Helper lemmas for C06. -/
namespace H4.Conv

/-- `[a, a+la)` and `[b, b+lb)` do not intersect -/
def Disj (a la b lb : Nat) : Prop := a + la ≤ b ∨ b + lb ≤ a

theorem writeN_length (mem : List Byte) (off : Nat) (bs : List Byte) (h : off + bs.length ≤ mem.length) :
    (writeN mem off bs).length = mem.length := by
  simp [writeN]; omega

theorem readN_length (mem : List Byte) (off n : Nat) (h : off + n ≤ mem.length) : (readN mem off n).length = n := by
  simp [readN]; omega

theorem tr_length (swap : Bool) (e : List Byte) : (tr swap e).length = e.length := by
  unfold tr; split <;> simp

theorem readN_writeN_same (mem : List Byte) (off : Nat) (bs : List Byte) (h : off + bs.length ≤ mem.length) :
    readN (writeN mem off bs) off bs.length = bs := by
  simp only [readN, writeN, List.append_assoc]
  have h1 : (mem.take off).length = off := by simp; omega
  rw [List.drop_append_of_le_length (by omega)]
  simp [h1]

theorem getElem?_writeN_out (mem : List Byte) (off : Nat) (bs : List Byte) (p : Nat)
    (h : off + bs.length ≤ mem.length) (hp : p < off ∨ off + bs.length ≤ p) :
    (writeN mem off bs)[p]? = mem[p]? := by
  simp only [writeN, List.append_assoc]
  have h1 : (mem.take off).length = off := by simp; omega
  rcases hp with hp | hp
  · rw [List.getElem?_append_left (by omega)]
    simp [List.getElem?_take, hp]
  · rw [List.getElem?_append_right (by omega), h1]
    rw [List.getElem?_append_right (by omega)]
    simp only [List.getElem?_drop]
    congr 1; omega

theorem readN_writeN_disj (mem : List Byte) (off : Nat) (bs : List Byte) (p n : Nat)
    (h : off + bs.length ≤ mem.length) (hd : Disj off bs.length p n) :
    readN (writeN mem off bs) p n = readN mem p n := by
  apply List.ext_getElem?
  intro k
  simp only [readN, List.getElem?_take, List.getElem?_drop]
  split
  · apply getElem?_writeN_out _ _ _ _ h
    rcases hd with hd | hd
    · right; omega
    · left; omega
  · rfl

/-- everything the loop touches lies inside the memory -/
def InBounds (esz n so ss dO ds len : Nat) : Prop :=
  ∀ i, i < n → so + i * ss + esz ≤ len ∧ dO + i * ds + esz ≤ len

/-- destination element `j` meets neither another destination element nor a later/earlier source element:
    holds for disjoint regions with `ds ≥ esz`, and for the in-place call (`so = dO`, equal strides ≥ `esz`) -/
def NoClash (esz n so ss dO ds : Nat) : Prop :=
  ∀ i j, i < n → j < n → i ≠ j →
    Disj (dO + j * ds) esz (so + i * ss) esz ∧ Disj (dO + j * ds) esz (dO + i * ds) esz

theorem conv_length (esz : Nat) (swap : Bool) : ∀ (n so ss dO ds : Nat) (mem : List Byte),
    InBounds esz n so ss dO ds mem.length → (conv esz swap n so ss dO ds mem).length = mem.length := by
  intro n
  induction n with
  | zero => intro so ss dO ds mem _; simp [conv]
  | succ n ih =>
    intro so ss dO ds mem hb
    simp only [conv]
    have h0 := hb 0 (by omega)
    simp only [Nat.zero_mul, Nat.add_zero] at h0
    have hl : (tr swap (readN mem so esz)).length = esz := by rw [tr_length, readN_length _ _ _ h0.1]
    have hw : (writeN mem dO (tr swap (readN mem so esz))).length = mem.length :=
      writeN_length _ _ _ (by rw [hl]; exact h0.2)
    rw [ih, hw]
    intro i hi
    rw [hw]
    have := hb (i + 1) (by omega)
    rw [Nat.succ_mul, Nat.succ_mul] at this
    constructor <;> omega

/-- frame: a range that meets no destination element is not changed by the loop -/
theorem conv_frame (esz : Nat) (swap : Bool) : ∀ (n so ss dO ds : Nat) (mem : List Byte) (p m : Nat),
    InBounds esz n so ss dO ds mem.length → (∀ j, j < n → Disj (dO + j * ds) esz p m) →
    readN (conv esz swap n so ss dO ds mem) p m = readN mem p m := by
  intro n
  induction n with
  | zero => intro so ss dO ds mem p m _ _; simp [conv]
  | succ n ih =>
    intro so ss dO ds mem p m hb hd
    simp only [conv]
    have h0 := hb 0 (by omega)
    simp only [Nat.zero_mul, Nat.add_zero] at h0
    have hl : (tr swap (readN mem so esz)).length = esz := by rw [tr_length, readN_length _ _ _ h0.1]
    have hw : (writeN mem dO (tr swap (readN mem so esz))).length = mem.length :=
      writeN_length _ _ _ (by rw [hl]; exact h0.2)
    rw [ih]
    · apply readN_writeN_disj _ _ _ _ _ (by rw [hl]; exact h0.2)
      rw [hl]
      have := hd 0 (by omega)
      simpa using this
    · intro i hi
      rw [hw]
      have := hb (i + 1) (by omega)
      rw [Nat.succ_mul, Nat.succ_mul] at this
      constructor <;> omega
    · intro j hj
      have := hd (j + 1) (by omega)
      rw [Nat.succ_mul] at this
      have e : dO + ds + j * ds = dO + (j * ds + ds) := by omega
      rw [e]; exact this

/-- every destination element receives the transformed ORIGINAL source element -/
theorem conv_elem (esz : Nat) (swap : Bool) : ∀ (n so ss dO ds : Nat) (mem : List Byte),
    InBounds esz n so ss dO ds mem.length → NoClash esz n so ss dO ds →
    ∀ i, i < n → readN (conv esz swap n so ss dO ds mem) (dO + i * ds) esz = tr swap (readN mem (so + i * ss) esz) := by
  intro n
  induction n with
  | zero => intro so ss dO ds mem _ _ i hi; omega
  | succ n ih =>
    intro so ss dO ds mem hb hc i hi
    simp only [conv]
    have h0 := hb 0 (by omega)
    simp only [Nat.zero_mul, Nat.add_zero] at h0
    have hl : (tr swap (readN mem so esz)).length = esz := by rw [tr_length, readN_length _ _ _ h0.1]
    have hwb : dO + (tr swap (readN mem so esz)).length ≤ mem.length := by rw [hl]; exact h0.2
    have hw : (writeN mem dO (tr swap (readN mem so esz))).length = mem.length := writeN_length _ _ _ hwb
    have hb' : InBounds esz n (so + ss) ss (dO + ds) ds (writeN mem dO (tr swap (readN mem so esz))).length := by
      intro k hk
      rw [hw]
      have := hb (k + 1) (by omega)
      rw [Nat.succ_mul, Nat.succ_mul] at this
      constructor <;> omega
    have hc' : NoClash esz n (so + ss) ss (dO + ds) ds := by
      intro a b ha hb2 hab
      have := hc (a + 1) (b + 1) (by omega) (by omega) (by omega)
      simp only [Nat.succ_mul] at this
      have e1 : dO + ds + b * ds = dO + (b * ds + ds) := by omega
      have e2 : so + ss + a * ss = so + (a * ss + ss) := by omega
      have e3 : dO + ds + a * ds = dO + (a * ds + ds) := by omega
      rw [e1, e2, e3]; exact this
    cases i with
    | zero =>
      simp only [Nat.zero_mul, Nat.add_zero]
      rw [conv_frame esz swap n _ _ _ _ _ dO esz hb']
      · have := readN_writeN_same mem dO (tr swap (readN mem so esz)) hwb
        rw [hl] at this; exact this
      · intro j hj
        have := (hc 0 (j + 1) (by omega) (by omega) (by omega)).2
        rw [Nat.succ_mul] at this
        simp only [Nat.zero_mul, Nat.add_zero] at this
        have e : dO + ds + j * ds = dO + (j * ds + ds) := by omega
        rw [e]; exact this
    | succ k =>
      have hk : k < n := by omega
      have := ih (so + ss) ss (dO + ds) ds _ hb' hc' k hk
      have e1 : dO + (k + 1) * ds = dO + ds + k * ds := by rw [Nat.succ_mul]; omega
      have e2 : so + (k + 1) * ss = so + ss + k * ss := by rw [Nat.succ_mul]; omega
      rw [e1, e2, this]
      congr 1
      apply readN_writeN_disj _ _ _ _ _ hwb
      rw [hl]
      have := (hc (k + 1) 0 (by omega) (by omega) (by omega)).1
      simp only [Nat.zero_mul, Nat.add_zero] at this
      rw [e2] at this; exact this

theorem beValue_append (a : List Byte) (b : Byte) : beValue (a ++ [b]) = beValue a * 256 + b.toNat := by
  simp [beValue, List.foldl_append]

theorem beValue_reverse : ∀ (e : List Byte), beValue e.reverse = leValue e := by
  intro e
  induction e with
  | nil => simp [beValue, leValue]
  | cons b bs ih =>
    rw [List.reverse_cons, beValue_append, ih]
    simp [leValue]; omega

end H4.Conv
