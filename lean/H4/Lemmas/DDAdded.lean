import H4.Lemmas.DDFlush
/-! # C17: a cached session that only adds keeps memory and disk in the relation `Added`, and only appends to the disk image -/
namespace H4.DD
open H4.Gen.Hdf H4.Bitvect

/-- the descriptor on disk at position `p` is not a live one -/
def DiskSlotDead (s : File) (p : Pos) : Prop :=
  ∀ (d : DBlock) (x : DD), s.disk[p.blk]? = some d → d.dds[p.idx]? = some x → isLive x = false

/-- after a flush (no dirty block) memory and disk are trivially in the relation -/
theorem added_of_clean {cfg : Cfg} {s : File} (h : Inv cfg s) (hcl : ∀ b ∈ s.blocks, b.dirty = false) : Added s := by
  refine ⟨h.disk.len, ?_⟩
  intro i b d hb hd
  have hm := h.disk.clean i b d hb hd (hcl b (List.mem_of_getElem? hb))
  subst hm
  have hi : i < s.blocks.length := by
    rcases Nat.lt_or_ge i s.blocks.length with h' | h'
    · exact h'
    · simp [List.getElem?_eq_none h'] at hb
  obtain ⟨blk, h1, h2⟩ := h.wf.slotne i hi
  rw [hb] at h1
  simp at h1; subst h1
  exact ⟨rfl, rfl, rfl, rfl, ⟨rfl, rfl, by intro e; rw [e] at h2; simp at h2⟩, Or.inl rfl, Or.inl rfl,
    fun j x hx _ => hx, Or.inl rfl⟩

/-- a memory slot that is not live has no live descriptor on disk -/
theorem diskSlotDead_of_mem {s : File} (ha : Added s) {p : Pos} (hv : Valid s.blocks p)
    (hd : isLive (getDD s.blocks p) = false) : DiskSlotDead s p := by
  intro d x hdk hx
  obtain ⟨blk, hb, hi⟩ := hv
  have hs := ha.2 p.blk blk d hb hdk
  cases hl : isLive x with
  | false => rfl
  | true =>
    have := hs.dds0 p.idx x hx hl
    have hg : getDD s.blocks p = x := by
      simp only [getDD, hb, List.getD_eq_getElem?_getD, this, Option.getD_some]
    rw [hg, hl] at hd; cases hd

/-- writing a memory slot whose disk slot is not live (caching on: the disk is not touched) -/
theorem added_fillSlot {s : File} (ha : Added s) (hc : s.cache = true) {p : Pos} (hv : Valid s.blocks p)
    (hdead : DiskSlotDead s p) (y : DD) : Added (fillSlot s p y) ∧ DiskSlotDead (fillSlot s p y) p := by
  have hbl := fillSlot_blocks s p y
  have hdk := fillSlot_disk s p y
  rw [if_pos hc] at hbl hdk
  refine ⟨⟨by rw [hbl, hdk]; simp [setDD, ha.1], ?_⟩, by intro d x h1 h2; rw [hdk] at h1; exact hdead d x h1 h2⟩
  intro i b' d hb hd
  rw [hbl] at hb; rw [hdk] at hd
  simp only [setDD, getElem?_modify'] at hb
  cases hbi : s.blocks[i]? with
  | none => simp [hbi] at hb
  | some b =>
    simp only [hbi, Option.map_some, Option.some.injEq] at hb
    have hs := ha.2 i b d hbi hd
    by_cases hpi : p.blk = i
    · rw [if_pos hpi, if_pos hpi] at hb
      subst hb
      refine ⟨hs.off0, hs.off, hs.hdr, by simp [hs.nd0], ⟨hs.nd.1, by simp [hs.nd.2.1], by simp [hs.nd.2.2]⟩,
        hs.next0, hs.nextd, ?_, Or.inl rfl⟩
      intro j x hx hl
      by_cases hj : p.idx = j
      · subst hj; subst hpi
        have := hdead d x hd hx
        rw [hl] at this; cases this
      · simp only [List.getElem?_set, hj, if_false]
        exact hs.dds0 j x hx hl
    · rw [if_neg hpi, if_neg hpi] at hb
      subst hb; exact hs

/-- a new DD block (caching on, with the fix of F3/F3′: a complete empty block is on disk at once) -/
theorem added_newBlock {cfg : Cfg} (hfix : cfg.fixF3 = true) {s : File} (h : Inv cfg s) (ha : Added s) (hc : s.cache = true) :
    Added (htiNewBlock cfg s) := by
  have hlen : 0 < s.blocks.length := h.wf.ne
  have hpos := headNdds_pos h.wf
  have hbl : (htiNewBlock cfg s).blocks = newBlockMem s := rfl
  have hdk : (htiNewBlock cfg s).disk = newBlockDisk cfg s := rfl
  have hlm : (s.blocks.modify (s.blocks.length - 1) fun b => { b with next := s.fEnd, dirty := if s.cache then true else b.dirty }).length = s.blocks.length := by simp
  refine ⟨by rw [hbl, hdk]; unfold newBlockMem newBlockDisk; rw [if_pos hc]; simp [ha.1], ?_⟩
  intro i b' d hb hd
  rw [hbl] at hb; rw [hdk] at hd
  unfold newBlockMem at hb; unfold newBlockDisk at hd
  rw [if_pos hc] at hd
  by_cases hi : i < s.blocks.length
  · rw [List.getElem?_append_left (by rw [hlm]; exact hi), getElem?_modify'] at hb
    rw [List.getElem?_append_left (by rw [ha.1]; exact hi)] at hd
    have hbi : s.blocks[i]? = some s.blocks[i] := List.getElem?_eq_getElem hi
    simp only [hbi, Option.map_some, Option.some.injEq] at hb
    have hs := ha.2 i _ d hbi hd
    by_cases hl : s.blocks.length - 1 = i
    · rw [if_pos hl] at hb; subst hb
      -- the last block: its `nextoffset` now points to the new block; on disk it is still 0
      have hlast : (s.blocks[i]).next = 0 := by
        have hch := h.disk.chain
        have : ∀ (bs : List Block) (off : Nat), chainFrom off bs → ∀ (hne : bs ≠ []), (bs.getLast hne).next = 0 := by
          intro bs
          induction bs with
          | nil => intro _ _ hne; exact absurd rfl hne
          | cons x xs ihx =>
            intro off hcf hne
            obtain ⟨_, _, _, h4⟩ := hcf
            cases xs with
            | nil => simpa [chainFrom] using h4
            | cons y ys => simpa using ihx _ h4 (by simp)
        have hne : s.blocks ≠ [] := by intro e; simp [e] at hlen
        have := this s.blocks MAGICLEN hch hne
        rw [List.getLast_eq_getElem] at this
        simpa [hl] using this
      have hn0 : d.next = 0 := by
        rcases hs.next0 with e | e
        · rw [e, hlast]
        · exact e
      exact ⟨hs.off0, hs.off, hs.hdr, hs.nd0, hs.nd, Or.inr hn0, Or.inl rfl, hs.dds0, hs.ddsd⟩
    · rw [if_neg hl] at hb; subst hb; exact hs
  · rw [List.getElem?_append_right (by rw [hlm]; omega), hlm] at hb
    have hi0 : i - s.blocks.length = 0 := by
      rcases Nat.eq_zero_or_pos (i - s.blocks.length) with h0 | h0
      · exact h0
      · rw [List.getElem?_eq_none (by simp; omega)] at hb; cases hb
    rw [hi0] at hb
    simp only [List.getElem?_cons_zero, Option.some.injEq] at hb
    subst hb
    rw [List.getElem?_append_right (by rw [ha.1]; omega), ha.1, hi0] at hd
    simp only [List.getElem?_cons_zero, Option.some.injEq] at hd
    subst hd
    refine ⟨rfl, rfl, hfix, by simp, ⟨by simp, by simp, by simp; omega⟩, Or.inl rfl, Or.inl rfl, ?_, Or.inl rfl⟩
    intro j x hx hl
    have := List.mem_of_getElem? hx
    simp at this
    rw [this.2] at hl
    simp [isLive, nilDD] at hl

theorem added_frame {s s' : File} (ha : Added s) (h1 : s'.blocks = s.blocks) (h2 : s'.disk = s.disk) : Added s' := by
  unfold Added; rw [h1, h2]; exact ha

theorem diskSlotDead_frame {s s' : File} {p : Pos} (hd : DiskSlotDead s p) (h2 : s'.disk = s.disk) : DiskSlotDead s' p := by
  unfold DiskSlotDead; rw [h2]; exact hd

theorem added_allocSlot {cfg : Cfg} (hfix : cfg.fixF3 = true) {s : File} (h : Inv cfg s) (ha : Added s) (hc : s.cache = true) :
    Added (allocSlot cfg s).2 := by
  unfold allocSlot
  rw [findNull_eq]
  cases scanFwd pNull s.blocks (s.nullBlk.getD 0) s.nullNext with
  | some p => exact added_frame ha rfl rfl
  | none => exact added_newBlock hfix h ha hc

/-- `HTPcreate` with caching on -/
theorem added_htpCreate {cfg : Cfg} (hfix : cfg.fixF3 = true) {s : File} (h : Inv cfg s) (ha : Added s) (hc : s.cache = true)
    {t r : Nat} {p : Pos} {s' : File} (hcr : htpCreate cfg s t r = (some p, s')) :
    Added s' ∧ DiskSlotDead s' p := by
  obtain ⟨av, adead, _⟩ := allocSlot_spec cfg h.wf
  have ha1 := added_allocSlot hfix h ha hc
  have hc1 : (allocSlot cfg s).2.cache = true := by rw [(allocSlot_mono cfg hc).1]; exact hc
  have hdd := diskSlotDead_of_mem ha1 av adead
  obtain ⟨ha2, hd2⟩ := added_fillSlot ha1 hc1 av hdd ⟨t, r, INVALID_OFFSET, INVALID_LENGTH⟩
  unfold htpCreate at hcr
  split at hcr
  · simp at hcr
  split at hcr
  · simp at hcr
  · simp only at hcr
    split at hcr
    · simp at hcr
    · simp only [Prod.mk.injEq, Option.some.injEq] at hcr
      obtain ⟨hp, hs'⟩ := hcr
      subst hp
      rw [← hs']
      unfold raiseMaxref
      split
      · exact ⟨added_frame ha2 rfl rfl, diskSlotDead_frame hd2 rfl⟩
      · exact ⟨added_frame ha2 rfl rfl, diskSlotDead_frame hd2 rfl⟩

theorem added_htpUpdate {s : File} (ha : Added s) (hc : s.cache = true) {p : Pos} (hv : Valid s.blocks p)
    (hdead : DiskSlotDead s p) (off len : Int) : Added (htpUpdate s p off len) := by
  unfold htpUpdate
  exact (added_fillSlot ha hc hv hdead _).1

theorem added_hsetlength {s : File} (ha : Added s) (hc : s.cache = true) {p : Pos} (hv : Valid s.blocks p)
    (hdead : DiskSlotDead s p) (n : Nat) : Added (hsetlength s p n) := by
  unfold hsetlength
  exact added_htpUpdate (s := { s with fEnd := s.fEnd + n, log := _ }) (added_frame ha rfl rfl) hc hv
    (diskSlotDead_frame hdead rfl) _ _

/-! ## the adding calls -/

/-- same blocks, same disk image, same write log -/
def SameBDL (s s' : File) : Prop := s'.blocks = s.blocks ∧ s'.disk = s.disk ∧ s'.log = s.log

theorem SameBDL.refl (s : File) : SameBDL s s := ⟨rfl, rfl, rfl⟩
theorem SameBDL.trans {a b c : File} (h1 : SameBDL a b) (h2 : SameBDL b c) : SameBDL a c :=
  ⟨h2.1.trans h1.1, h2.2.1.trans h1.2.1, h2.2.2.trans h1.2.2⟩

theorem htiFindDD_bd (s : File) (t r : Nat) (pdd : Option Pos) (dir : Dir) : SameBDL s (htiFindDD s t r pdd dir).2 := by
  by_cases hex : t ≠ 0 ∧ r ≠ 0
  · rw [htiFindDD_exact s hex.1 hex.2]; exact SameBDL.refl _
  · have hw : t = 0 ∨ r = 0 := by omega
    cases dir with
    | bwd => rw [htiFindDD_bwd s hw]; exact SameBDL.refl _
    | fwd =>
      by_cases h1 : t = 1
      · have hr : r = 0 := by omega
        subst h1 hr
        have := findNull_eq' s pdd
        simp only [DFTAG_NULL, DFTAG_WILDCARD] at this
        rw [this]
        cases scanFwd pNull s.blocks (s.nullBlk.getD 0) s.nullNext <;> exact ⟨rfl, rfl, rfl⟩
      · rw [htiFindDD_fwd s hw h1]; exact SameBDL.refl _

theorem hfind_bd (s : File) (st sr ft fr : Nat) (dir : Dir) : SameBDL s (hfind s st sr ft fr dir).2 := by
  unfold hfind
  split
  · have h1 := htiFindDD_bd s ft fr none dir
    generalize htiFindDD s ft fr none dir = x at *
    obtain ⟨o, s1⟩ := x
    cases o with
    | none => exact h1
    | some p =>
      simp only
      have h2 := htiFindDD_bd s1 st sr (some p) dir
      generalize htiFindDD s1 st sr (some p) dir = y at *
      obtain ⟨o2, s2⟩ := y
      cases o2 <;> exact h1.trans h2
  · have h1 := htiFindDD_bd s st sr none dir
    generalize htiFindDD s st sr none dir = x at *
    obtain ⟨o, s1⟩ := x
    cases o <;> exact h1

theorem access_tail_read_bd (cfg : Cfg) (s1 : File) (tag nt nr : Nat) (isNew : Bool) :
    SameBDL s1 (match htpSelect s1 nt nr with
      | none =>
        if !false then (Acc.fail, s1)
        else match htpCreate cfg s1 nt nr with
          | (none, s) => (Acc.fail, s)
          | (some p, s) => (Acc.ok p true, { s with maxref := if nr > s.maxref then nr else s.maxref })
      | some p =>
        if !isSpecial tag ∧ isSpecial (getDD s1.blocks p).tag then (Acc.special p, s1)
        else (Acc.ok p isNew, { s1 with maxref := if nr > s1.maxref then nr else s1.maxref })).2 := by
  cases htpSelect s1 nt nr with
  | none => exact SameBDL.refl _
  | some p =>
    by_cases hsp : !isSpecial tag ∧ isSpecial (getDD s1.blocks p).tag
    · simp only [hsp, and_self, if_true]; exact SameBDL.refl _
    · simp only [hsp, if_false]; exact ⟨rfl, rfl, rfl⟩

theorem hstartaccess_read_bd (cfg : Cfg) (s : File) (t r : Nat) : SameBDL s (hstartaccess cfg s t r false).2 := by
  unfold hstartaccess
  have h1 := hfind_bd s t r 0 0 .fwd
  generalize hfind s t r 0 0 .fwd = x at *
  obtain ⟨found, s1⟩ := x
  cases found with
  | none => exact h1.trans (access_tail_read_bd cfg s1 t t r true)
  | some d => exact h1.trans (access_tail_read_bd cfg s1 t d.tag d.ref (decide (d.off = INVALID_OFFSET ∧ d.len = INVALID_LENGTH)))

theorem hinquire_bd (cfg : Cfg) (s : File) (t r : Nat) : SameBDL s (hinquire cfg s t r).2.2 := by
  unfold hinquire
  have h1 := hstartaccess_read_bd cfg s (baseTag t) r
  generalize hstartaccess cfg s (baseTag t) r false = y at *
  obtain ⟨a, s1⟩ := y
  cases a <;> exact h1

/-- `Hputelement` / `Hstartwrite` of a new element keeps `Added` -/
theorem write_added_adding (cfg : Cfg) (hfix : cfg.fixF3 = true) (put : Bool) {s : File} (h : Inv cfg s) (ha : Added s)
    (hc : s.cache = true) {t r : Nat} {l : Int}
    (h1 : baseTag t ≠ 0) (h2 : r ≠ 0) (h3 : t < 65536) (h4 : r < 65536) (h5 : guardF3 cfg s = true)
    (hsel : (htpSelect s (baseTag t) r).isNone = true) (hl : 0 ≤ l) :
    Added (if put then hputelement cfg s t r l else hstartwriteEnd cfg s t r l).2 := by
  have hbs := baseTag_not_special t
  have hbl : baseTag t < 65536 := by unfold baseTag; split <;> omega
  have hbb := baseTag_idem t
  have hx : (if put then hputelement cfg s t r l else hstartwriteEnd cfg s t r l) =
      (match hstartaccess cfg s (baseTag t) r true with
       | (.fail, s) => (.fail, s)
       | (.special _, s) => (.unsupported, s)
       | (.ok p newElem, s) =>
         if put then
           (if newElem ∧ l < 0 then (.fail, s)
            else
              (if l ≤ 0 ∨ l > (getDD (if newElem then hsetlength s p l.toNat else s).blocks p).len
               then (.fail, (if newElem then hsetlength s p l.toNat else s))
               else (.num l, logW (.data (getDD (if newElem then hsetlength s p l.toNat else s).blocks p).off.toNat l.toNat)
                      (if newElem then hsetlength s p l.toNat else s))))
         else (if newElem then (if l < 0 then (.fail, s) else (.ok, hsetlength s p l.toNat)) else (.ok, s))) := by
    cases put
    · simp only [Bool.false_eq_true, if_false]; unfold hstartwriteEnd; rfl
    · simp only [if_true]; unfold hputelement; rfl
  rw [hx]
  rcases access_write_cases cfg h h1 hbs hbl h2 h4 h5 with
    ⟨d, hd, hk, hsp, q, hacc⟩ | ⟨d, hd, hk, hsp, _⟩ | ⟨hfree, hb1, hacc⟩ | ⟨hfree, hb1, p, s1, hacc, hinv1, hv1, hg1, _⟩
  · rw [hacc]; exact ha
  · exact absurd (existing_ordinary_absurd h h1 h2 hsel hd hk hsp) id
  · rw [hacc]; exact ha
  · -- created: identify the state with the one `HTPcreate` returned
    obtain ⟨p', s1', hcr, _⟩ := htpCreate_inv cfg h (tag := baseTag t) (ref := r) ⟨by omega, hbl⟩ ⟨by omega, h4⟩
      (by rw [hbb]; exact hfree) h5
    have hform := hstartaccess_absent cfg h.wf h1 h2 (by rw [hbb]; exact hfree) true
    rw [if_neg (by simp), hcr] at hform
    rw [hform] at hacc
    simp only [Prod.mk.injEq, Acc.ok.injEq, and_true] at hacc
    obtain ⟨hpp, hs1⟩ := hacc
    subst hpp
    obtain ⟨ha1', hd1'⟩ := added_htpCreate hfix h ha hc hcr
    have ha1 : Added s1 := by rw [← hs1]; exact added_frame ha1' rfl rfl
    have hd1 : DiskSlotDead s1 p' := by rw [← hs1]; exact diskSlotDead_frame hd1' rfl
    have hc1 : s1.cache = true := by
      rw [← hs1]; show s1'.cache = true
      have := htpCreate_mono cfg hc (baseTag t) r
      rw [hcr] at this; rw [this.1]; exact hc
    have hnl : ¬ l < 0 := by omega
    have ha2 := added_hsetlength ha1 hc1 hv1 hd1 l.toNat
    rw [hform]
    cases put
    · simp only [Bool.false_eq_true, if_false, if_true, hnl]
      rw [hs1]; exact ha2
    · simp only [if_true, hnl, and_false, if_false]
      rw [hs1]
      split
      · exact ha2
      · exact added_frame ha2 rfl rfl

theorem dup_added_adding (cfg : Cfg) (hfix : cfg.fixF3 = true) {s : File} (h : Inv cfg s) (ha : Added s) (hc : s.cache = true)
    (t r ot or' : Nat) (ht : t < 65536) (hr : r < 65536) (hg3 : guardF3 cfg s = true)
    (hsel : (htpSelect s t r).isNone = true) : Added (hdupdd cfg s t r ot or').2 := by
  rw [hdupdd_eq]
  cases hso : htpSelect s ot or' with
  | none => exact ha
  | some old =>
    simp only
    by_cases hwn : t = 0 ∨ t = 1 ∨ r = 0
    · rw [htpCreate_wild cfg s hwn]; exact ha
    · have hseln : htpSelect s t r = none := by cases hh : htpSelect s t r <;> simp_all
      have hfree := htpSelect_none h.wf (by omega) (by omega) (by omega) hseln
      obtain ⟨p, s1, hcr, hinv1, hv1, _⟩ := htpCreate_inv cfg h (tag := t) (ref := r) ⟨by omega, ht⟩ ⟨by omega, hr⟩ hfree hg3
      obtain ⟨ha1, hd1⟩ := added_htpCreate hfix h ha hc hcr
      have hc1 : s1.cache = true := by
        have := htpCreate_mono cfg hc t r
        rw [hcr] at this; rw [this.1]; exact hc
      rw [hcr]
      exact added_htpUpdate ha1 hc1 hv1 hd1 _ _

/-- one adding call keeps `Added` (caching on, F3/F3′ fixed) -/
theorem step_added (cfg : Cfg) (hfix : cfg.fixF3 = true) {s : File} (h : Inv cfg s) (ha : Added s) (hc : s.cache = true)
    (op : Op) (hg : guard cfg s op = true) (hadd : adds s op = true) :
    ∀ s', (step cfg s op).2 = some s' → Added s' := by
  intro s' hs'
  cases op with
  | put t r l =>
    simp only [guard, Bool.and_eq_true, bne_iff_ne, ne_eq, decide_eq_true_eq] at hg
    obtain ⟨⟨⟨⟨h1, h2⟩, h3⟩, h4⟩, h5⟩ := hg
    simp only [adds, Bool.and_eq_true, decide_eq_true_eq] at hadd
    simp only [step, Option.some.injEq] at hs'
    subst hs'
    have := write_added_adding cfg hfix true h ha hc (l := l) h1 h2 h3 h4 h5 hadd.1 (by omega)
    simpa using this
  | startwrite t r l =>
    simp only [guard, Bool.and_eq_true, bne_iff_ne, ne_eq, decide_eq_true_eq] at hg
    obtain ⟨⟨⟨⟨h1, h2⟩, h3⟩, h4⟩, h5⟩ := hg
    simp only [adds, Bool.and_eq_true, decide_eq_true_eq] at hadd
    simp only [step, Option.some.injEq] at hs'
    subst hs'
    have := write_added_adding cfg hfix false h ha hc (l := l) h1 h2 h3 h4 h5 hadd.1 hadd.2
    simpa using this
  | append t r n => simp [adds] at hadd
  | del t r => simp [adds] at hadd
  | dup t r ot or' =>
    simp only [guard, Bool.and_eq_true, decide_eq_true_eq, Bool.or_eq_true] at hg
    obtain ⟨⟨⟨h1, h2⟩, h3⟩, _⟩ := hg
    simp only [step, Option.some.injEq] at hs'
    subst hs'
    exact dup_added_adding cfg hfix h ha hc t r ot or' h1 h2 h3 (by simpa [adds] using hadd)
  | reuse t r => simp [adds] at hadd
  | inquire t r =>
    simp only [step, Option.some.injEq] at hs'
    subst hs'
    exact added_frame ha (hinquire_bd cfg s t r).1 (hinquire_bd cfg s t r).2.1
  | number t =>
    simp only [step, Option.some.injEq] at hs'
    subst hs'; exact ha
  | exist t r =>
    simp only [step, hexist, Option.some.injEq] at hs'
    subst hs'
    exact added_frame ha (hfind_bd s t r 0 0 .fwd).1 (hfind_bd s t r 0 0 .fwd).2.1
  | newref =>
    simp only [step, Option.some.injEq] at hs'
    subst hs'
    unfold hnewref
    split
    · exact added_frame ha rfl rfl
    · exact ha
  | tagnewref t =>
    simp only [step, Option.some.injEq] at hs'
    subst hs'
    unfold htagnewref
    cases tget s.tags (baseTag t) with
    | none => exact ha
    | some bv => exact added_frame ha rfl rfl
  | cache on => simp [adds] at hadd
  | sync => simp [adds] at hadd
  | reopen => simp [adds] at hadd

/-- an adding history (caching on, F3/F3′ fixed): the invariant, `Added`, and the log/end-of-file/disk-extension facts -/
theorem adding_history (cfg : Cfg) (hfix : cfg.fixF3 = true) : ∀ (ops : List Op) (s : File), Inv cfg s → Added s →
    s.cache = true → guarded cfg s ops = true → addingOnly cfg s ops = true →
    ∃ s', (run cfg s ops).2 = some s' ∧ Inv cfg s' ∧ Added s' ∧ Mono s s' := by
  intro ops
  induction ops with
  | nil => intro s h ha _ _ _; exact ⟨s, rfl, h, ha, Mono.refl _⟩
  | cons op ops ih =>
    intro s h ha hc hg hadd
    simp only [guarded, Bool.and_eq_true] at hg
    simp only [addingOnly, Bool.and_eq_true] at hadd
    obtain ⟨s1, hs1, hinv1, _, _⟩ := step_refines cfg h op hg.1
    have hm1 := step_mono_adding cfg h hc op hg.1 hadd.1 s1 hs1
    have ha1 := step_added cfg hfix h ha hc op hg.1 hadd.1 s1 hs1
    have hc1 : s1.cache = true := by rw [hm1.1]; exact hc
    have hg2 : guarded cfg s1 ops = true := by have := hg.2; rw [hs1] at this; exact this
    have hadd2 : addingOnly cfg s1 ops = true := by have := hadd.2; rw [hs1] at this; exact this
    obtain ⟨s', hs', hinv', ha', hm'⟩ := ih s1 hinv1 ha1 hc1 hg2 hadd2
    refine ⟨s', ?_, hinv', ha', hm1.trans hm'⟩
    show (match step cfg s op with
      | (o, none) => ([o], none)
      | (o, some s') => (o :: (run cfg s' ops).1, (run cfg s' ops).2)).2 = some s'
    have : step cfg s op = ((step cfg s op).1, some s1) := by rw [← hs1]
    rw [this]
    exact hs'

end H4.DD
