import H4.Lemmas.VGroupStep
import H4.Lemmas.VGraphInv
/-! Assembly: one step, then whole histories. -/
namespace H4.VGroup
open H4.Gen.Hdf

theorem sim_step (s : File) (op : Op) (hI : Inv s) (hG : GraphInv s.abs) (ha : admissible s.abs op = true) :
    SimGoal s op := by
  cases op with
  | new slot ref => exact sim_new s slot ref hI
  | attach slot ref w => exact sim_attach s slot ref w hI
  | detach slot => exact sim_detach s slot hI
  | setname slot n => exact sim_setname s slot n hI hG ha
  | setclass slot n => exact sim_setclass s slot n hI hG ha
  | addtagref slot t r => exact sim_addtagref s slot t r hI hG
  | insertvg slot slot2 => exact sim_insertvg s slot slot2 hI hG
  | insertvs slot vsref => exact sim_insertvs s slot vsref hI hG
  | deltagref slot t r => exact sim_deltagref s slot t r hI hG
  | setattr slot vsref => exact sim_setattr s slot vsref hI hG ha
  | vdelete ref => exact sim_vdelete s ref hI ha
  | vsdelete ref => exact sim_vsdelete s ref hI
  | vsnew ref => exact sim_vsnew s ref hI
  | reopen => exact sim_reopen s hI ha
  | ntagrefs slot => exact sim_ntagrefs s slot hI
  | inq slot t r => exact sim_inq s slot t r hI
  | gettagrefs slot n => exact sim_gettagrefs s slot n hI
  | gettagref slot i => exact sim_gettagref s slot i hI
  | nrefs slot t => exact sim_nrefs s slot t hI
  | getname slot => exact sim_getname s slot hI
  | getclass slot => exact sim_getclass s slot hI
  | getnamelen slot => exact sim_getnamelen s slot hI
  | getclasslen slot => exact sim_getclasslen s slot hI
  | getid id => exact sim_getid s id hI
  | getnext slot id => exact sim_getnext s slot id hI
  | vsgetid id => exact sim_vsgetid s id hI
  | vlone => exact sim_vlone s hI
  | vslone => exact sim_vslone s hI
  | find n => exact sim_find s n hI
  | findclass n => exact sim_findclass s n hI

theorem inv_empty : Inv {} := by
  refine ⟨?_, ?_, ?_, ?_⟩
  · intro r g h; simp [alook] at h
  · simp [KSorted, akeys]
  · simp [KSorted, akeys]
  · intro k h; simp [alook] at h

theorem sim_run (ops : List Op) (s : File) (hI : Inv s) (hG : GraphInv s.abs) (ha : admissibleHist s.abs ops = true) :
    (run s ops).1.abs = (grun s.abs ops).1 ∧ (run s ops).2 = (grun s.abs ops).2 ∧ Inv (run s ops).1 := by
  induction ops generalizing s with
  | nil => exact ⟨rfl, rfl, hI⟩
  | cons op rest ih =>
    simp only [admissibleHist, Bool.and_eq_true] at ha
    obtain ⟨a1, a2, a3⟩ := sim_step s op hI hG ha.1
    have hG' : GraphInv (step s op).1.abs := by rw [a1]; exact ginv_step _ _ hG ha.1
    have ha' : admissibleHist (step s op).1.abs rest = true := by rw [a1]; exact ha.2
    obtain ⟨b1, b2, b3⟩ := ih (step s op).1 a3 hG' ha'
    simp only [run, grun]
    rw [← a1]
    exact ⟨b1, by rw [a2, b2], b3⟩

end H4.VGroup
