import H4.Lemmas.DDOps
/-! # The disk image of the DD blocks: the invariant that ties it to the in-memory chain, `HTPsync`, and `HTPstart`. -/
namespace H4.DD
open H4.Gen.Hdf H4.Bitvect

/-- what `HTPsync` writes for a block -/
def mirror (b : Block) : DBlock := ⟨b.myoff, true, b.dds.length, b.next, b.dds⟩
/-- a block as `HTPstart` rebuilds it -/
def clean (b : Block) : Block := { b with dirty := false }

@[simp] theorem mirror_clean (b : Block) : mirror (clean b) = mirror b := rfl

/-- the chain of `nextoffset` pointers: starts at `off`, offsets strictly increase, ends with 0 -/
def chainFrom : Nat → List Block → Prop
  | off, [] => off = 0
  | off, b :: rest => b.myoff = off ∧ 0 < off ∧ (∀ c ∈ rest, off < c.myoff) ∧ chainFrom b.next rest

/-- disk ↔ memory -/
structure DiskOK (s : File) : Prop where
  len : s.disk.length = s.blocks.length
  clean : ∀ (i : Nat) (b : Block) (d : DBlock), s.blocks[i]? = some b → s.disk[i]? = some d → b.dirty = false → d = mirror b
  chain : chainFrom MAGICLEN s.blocks
  bound : ∀ b ∈ s.blocks, b.myoff < s.fEnd
  dirtyflag : ∀ b ∈ s.blocks, b.dirty = true → s.cache = true ∧ s.fdirty = true

/-! ## `HTPsync` -/

theorem syncBlocks_spec : ∀ (blocks : List Block) (disk : List DBlock), disk.length = blocks.length →
    (∀ (i : Nat) (b : Block) (d : DBlock), blocks[i]? = some b → disk[i]? = some d → b.dirty = false → d = mirror b) →
    syncBlocks blocks disk = (blocks.map clean, blocks.map mirror) := by
  intro blocks
  induction blocks with
  | nil => intro disk hl _; cases disk <;> simp_all [syncBlocks]
  | cons b bs ih =>
    intro disk hl hc
    cases disk with
    | nil => simp at hl
    | cons d ds =>
      have ih' := ih ds (by simpa using hl) (fun i b' d' h1 h2 h3 => hc (i + 1) b' d' (by simpa using h1) (by simpa using h2) h3)
      simp only [syncBlocks, ih']
      by_cases hd : b.dirty = true
      · simp [hd, clean, mirror]
      · have hd' : b.dirty = false := by cases h : b.dirty <;> simp_all
        have := hc 0 b d (by simp) (by simp) hd'
        simp [hd', this, clean]
        cases b; simp_all

theorem htpSync_spec {s : File} (h : DiskOK s) :
    (htpSync s).blocks = s.blocks.map clean ∧ (htpSync s).disk = s.blocks.map mirror := by
  unfold htpSync
  rw [syncBlocks_spec s.blocks s.disk h.len h.clean]
  exact ⟨rfl, rfl⟩

theorem chainFrom_map_clean : ∀ (blocks : List Block) (off : Nat), chainFrom off (blocks.map clean) ↔ chainFrom off blocks := by
  intro blocks
  induction blocks with
  | nil => intro off; rfl
  | cons b bs ih =>
    intro off
    simp only [List.map_cons, chainFrom, clean, ih]
    constructor
    · rintro ⟨h1, h2, h3, h4⟩
      exact ⟨h1, h2, fun c hc => h3 (H4.DD.clean c) (List.mem_map.mpr ⟨c, hc, rfl⟩), h4⟩
    · rintro ⟨h1, h2, h3, h4⟩
      refine ⟨h1, h2, ?_, h4⟩
      intro c hc
      obtain ⟨c', hc', rfl⟩ := List.mem_map.mp hc
      exact h3 c' hc'

theorem htpSync_DiskOK {s : File} (h : DiskOK s) : DiskOK (htpSync s) := by
  obtain ⟨hb, hd⟩ := htpSync_spec h
  have hfe : (htpSync s).fEnd = s.fEnd := rfl
  have hca : (htpSync s).cache = s.cache := rfl
  refine ⟨by rw [hb, hd]; simp, ?_, by rw [hb]; exact (chainFrom_map_clean _ _).mpr h.chain, ?_, ?_⟩
  · intro i b d h1 h2 _
    rw [hb] at h1; rw [hd] at h2
    simp only [List.getElem?_map] at h1 h2
    cases hbi : s.blocks[i]? with
    | none => simp [hbi] at h1
    | some b0 =>
      simp [hbi] at h1 h2
      subst h1 h2; rfl
  · intro b hbm
    rw [hb] at hbm
    obtain ⟨b0, hb0, rfl⟩ := List.mem_map.mp hbm
    rw [hfe]; exact h.bound b0 hb0
  · intro b hbm hdirty
    rw [hb] at hbm
    obtain ⟨b0, hb0, rfl⟩ := List.mem_map.mp hbm
    simp [clean] at hdirty

theorem hiSync_DiskOK {s : File} (h : DiskOK s) : DiskOK (hiSync s) := by
  unfold hiSync
  split
  · have := htpSync_DiskOK h
    exact ⟨this.len, this.clean, this.chain, this.bound, fun b hb hd => by
      have hbb := (htpSync_spec h).1
      have hb' : b ∈ (htpSync s).blocks := hb
      rw [hbb] at hb'
      obtain ⟨b0, _, rfl⟩ := List.mem_map.mp hb'
      simp [clean] at hd⟩
  · exact h

/-- after `Hclose` the disk holds exactly the in-memory chain -/
theorem hclose_disk {s : File} (h : DiskOK s) : (hclose s).disk = s.blocks.map mirror := by
  unfold hclose
  have h1 := hiSync_DiskOK h
  rw [(htpSync_spec h1).2]
  unfold hiSync
  split
  · show (htpSync s).blocks.map mirror = _
    rw [(htpSync_spec h).1]; simp
  · rfl

/-! ## `HTPstart` reads back what `HTPsync` wrote -/

theorem readChain_mirror (all : List Block) : ∀ (suf pre : List Block) (off fuel : Nat),
    all = pre ++ suf → suf ≠ [] → chainFrom off suf → (∀ c ∈ pre, c.myoff < off) →
    (∀ b ∈ suf, b.dds ≠ []) → suf.length ≤ fuel →
    readChain (all.map mirror) fuel off = some (suf.map clean) := by
  intro suf
  induction suf with
  | nil => intro pre off fuel _ h; exact absurd rfl h
  | cons b rest ih =>
    intro pre off fuel hall _ hch hpre hne hfuel
    obtain ⟨hoff, hpos, hlt, hrest⟩ := hch
    cases fuel with
    | zero => simp at hfuel
    | succ fuel =>
      have hfind : (all.map mirror).find? (fun db => db.myoff == off) = some (mirror b) := by
        rw [hall, List.map_append, List.find?_append]
        have : (pre.map mirror).find? (fun db => db.myoff == off) = none := by
          rw [List.find?_eq_none]
          intro d hd
          obtain ⟨c, hc, rfl⟩ := List.mem_map.mp hd
          have := hpre c hc
          simp [mirror]; omega
        rw [this]
        simp [mirror, hoff]
      have hb := hne b (by simp)
      have hlen : b.dds.length ≠ 0 := by
        intro h0; exact hb (List.eq_nil_of_length_eq_zero h0)
      unfold readChain
      simp only [hfind]
      have hcond : ¬ (!(mirror b).hdr ∨ (mirror b).ndds = 0 ∨ (mirror b).dds.length ≠ (mirror b).ndds) := by
        simp [mirror, hlen]
      rw [if_neg hcond]
      have hblk : ({ myoff := off, next := (mirror b).next, dirty := false, dds := (mirror b).dds } : Block) = clean b := by
        cases b; simp_all [mirror, clean]
      rw [hblk]
      by_cases hn : (mirror b).next ≠ 0
      · rw [if_pos hn]
        have hrne : rest ≠ [] := by
          intro e; subst e
          simp [chainFrom] at hrest
          exact hn hrest
        have := ih (pre ++ [b]) b.next fuel (by rw [hall]; simp) hrne hrest ?_ (fun c hc => hne c (by simp [hc])) (by simp at hfuel; omega)
        · show Option.map _ (readChain (all.map mirror) fuel b.next) = _
          rw [this]; simp
        · intro c hc
          cases rest with
          | nil => exact absurd rfl hrne
          | cons r rs =>
            obtain ⟨hr1, _, _, _⟩ := hrest
            have hbr : off < r.myoff := hlt r (by simp)
            simp at hc
            rcases hc with hc | hc
            · have := hpre c hc; omega
            · subst hc; omega
      · rw [if_neg hn]
        have hn0 : b.next = 0 := by simpa [mirror] using hn
        cases rest with
        | nil => simp
        | cons r rs =>
          obtain ⟨hr1, hr2, _, _⟩ := hrest
          omega

/-- **persist** (core form): what a reopen decodes from the flushed disk image is the in-memory chain -/
theorem decode_synced {s : File} (hw : WF s) (hd : DiskOK s) :
    decodeBlocks (syncedDisk s) = some (s.blocks.map clean) := by
  unfold decodeBlocks syncedDisk
  rw [hclose_disk hd]
  have hne : s.blocks ≠ [] := by
    intro e; have := hw.ne; simp [e] at this
  apply readChain_mirror s.blocks s.blocks [] MAGICLEN _ rfl hne hd.chain (by simp) ?_ (by simp)
  intro b hb
  obtain ⟨i, hi, rfl⟩ := List.getElem_of_mem hb
  obtain ⟨blk, h1, h2⟩ := hw.slotne i hi
  rw [List.getElem?_eq_getElem hi] at h1
  simp at h1; subst h1
  intro e; simp [e] at h2

/-! ## preservation of `DiskOK` -/

theorem mem_modify {α} {l : List α} {i : Nat} {f : α → α} {x : α} (h : x ∈ l.modify i f) :
    ∃ y ∈ l, x = y ∨ x = f y := by
  obtain ⟨j, hj, rfl⟩ := List.getElem_of_mem h
  have hj' : j < l.length := by simpa using hj
  rw [List.getElem_modify]
  refine ⟨l[j], List.getElem_mem _, ?_⟩
  split
  · exact Or.inr rfl
  · exact Or.inl rfl

theorem getElem?_modify' {α} (l : List α) (i j : Nat) (f : α → α) :
    (l.modify i f)[j]? = (l[j]?).map (fun a => if i = j then f a else a) := by
  simp [List.getElem?_modify]

/-- offsets and next pointers of a chain -/
def oview (blocks : List Block) : List (Nat × Nat) := blocks.map (fun b => (b.myoff, b.next))

theorem chainFrom_congr : ∀ (a b : List Block) (off : Nat), oview a = oview b → (chainFrom off a ↔ chainFrom off b) := by
  intro a
  induction a with
  | nil => intro b off h; cases b <;> simp_all [oview]
  | cons x xs ih =>
    intro b off h
    cases b with
    | nil => simp [oview] at h
    | cons y ys =>
      simp only [oview, List.map_cons, List.cons.injEq, Prod.mk.injEq] at h
      obtain ⟨⟨h1, h2⟩, h3⟩ := h
      have hmem : (∀ c ∈ xs, off < c.myoff) ↔ (∀ c ∈ ys, off < c.myoff) := by
        have e : xs.map (·.myoff) = ys.map (·.myoff) := by
          have := congrArg (List.map Prod.fst) h3
          simpa [List.map_map, Function.comp_def] using this
        constructor
        · intro hh c hc
          have : c.myoff ∈ ys.map (·.myoff) := List.mem_map.mpr ⟨c, hc, rfl⟩
          rw [← e] at this
          obtain ⟨c', hc', he⟩ := List.mem_map.mp this
          rw [← he]; exact hh c' hc'
        · intro hh c hc
          have : c.myoff ∈ xs.map (·.myoff) := List.mem_map.mpr ⟨c, hc, rfl⟩
          rw [e] at this
          obtain ⟨c', hc', he⟩ := List.mem_map.mp this
          rw [← he]; exact hh c' hc'
      simp only [chainFrom, h1, h2, hmem, ih ys y.next h3]

theorem oview_modify {blocks : List Block} {f : Block → Block} (hf : ∀ b, (f b).myoff = b.myoff ∧ (f b).next = b.next) (i : Nat) :
    oview (blocks.modify i f) = oview blocks := by
  apply List.ext_getElem?
  intro j
  simp only [oview, List.getElem?_map, List.getElem?_modify]
  cases blocks[j]? with
  | none => rfl
  | some b => by_cases h : i = j <;> simp [h, hf]

theorem bound_congr {a b : List Block} (h : oview a = oview b) (fe : Nat) :
    (∀ x ∈ a, x.myoff < fe) ↔ (∀ x ∈ b, x.myoff < fe) := by
  have e : a.map (·.myoff) = b.map (·.myoff) := by
    have := congrArg (List.map Prod.fst) h
    simpa [oview, List.map_map, Function.comp_def] using this
  constructor
  · intro hh c hc
    have : c.myoff ∈ b.map (·.myoff) := List.mem_map.mpr ⟨c, hc, rfl⟩
    rw [← e] at this
    obtain ⟨c', hc', he⟩ := List.mem_map.mp this
    rw [← he]; exact hh c' hc'
  · intro hh c hc
    have : c.myoff ∈ a.map (·.myoff) := List.mem_map.mpr ⟨c, hc, rfl⟩
    rw [e] at this
    obtain ⟨c', hc', he⟩ := List.mem_map.mp this
    rw [← he]; exact hh c' hc'

theorem fillSlot_blocks (s : File) (p : Pos) (d : DD) : (fillSlot s p d).blocks =
    if s.cache then (setDD s.blocks p d).modify p.blk (fun b => { b with dirty := true }) else setDD s.blocks p d := by
  unfold fillSlot htiUpdateDD
  rw [bumpEnd_blocks]
  unfold markOrWrite
  simp only
  split <;> rfl

theorem fillSlot_disk (s : File) (p : Pos) (d : DD) : (fillSlot s p d).disk =
    if s.cache then s.disk
    else s.disk.modify p.blk (fun db => { db with dds := db.dds.set p.idx (getDD (setDD s.blocks p d) p) }) := by
  unfold fillSlot htiUpdateDD
  rw [bumpEnd_disk]
  unfold markOrWrite
  simp only
  split <;> rfl

theorem fillSlot_fEnd_ge (s : File) (p : Pos) (d : DD) : s.fEnd ≤ (fillSlot s p d).fEnd := by
  unfold fillSlot htiUpdateDD
  exact Nat.le_trans (by rw [markOrWrite_fEnd]; exact Nat.le_refl _) (bumpEnd_fEnd_ge _ _)

theorem fillSlot_fdirty (s : File) (p : Pos) (d : DD) : (fillSlot s p d).fdirty = (s.cache || s.fdirty) := by
  unfold fillSlot htiUpdateDD
  rw [bumpEnd_fdirty]
  unfold markOrWrite
  simp only
  split
  · rename_i h; simp [h]
  · rename_i h; simp [h]

/-- storing a descriptor through `HTIupdate_dd` keeps disk and memory in step, caching or not -/
theorem fillSlot_DiskOK {s : File} (h : DiskOK s) {p : Pos} (hv : Valid s.blocks p) (d : DD) :
    DiskOK (fillSlot s p d) := by
  have hbl := fillSlot_blocks s p d
  have hdk := fillSlot_disk s p d
  have hov : oview (fillSlot s p d).blocks = oview s.blocks := by
    rw [hbl]
    split
    · rw [oview_modify (f := fun b => { b with dirty := true }) (fun _ => ⟨rfl, rfl⟩)]
      exact oview_modify (f := fun b => { b with dds := b.dds.set p.idx d }) (fun _ => ⟨rfl, rfl⟩) _
    · exact oview_modify (f := fun b => { b with dds := b.dds.set p.idx d }) (fun _ => ⟨rfl, rfl⟩) _
  refine ⟨?_, ?_, (chainFrom_congr _ _ _ hov).mpr h.chain, ?_, ?_⟩
  · rw [hbl, hdk]; split <;> simp [setDD, h.len]
  · intro i b' d' h1 h2 hd
    rw [hbl] at h1; rw [hdk] at h2
    by_cases hc : s.cache = true
    · simp only [hc, if_true] at h1 h2
      simp only [setDD, getElem?_modify'] at h1
      cases hbi : s.blocks[i]? with
      | none => simp [hbi] at h1
      | some b =>
        simp only [hbi, Option.map_some, Option.some.injEq] at h1
        by_cases hpi : p.blk = i
        · rw [if_pos hpi, if_pos hpi] at h1
          subst h1; simp at hd
        · rw [if_neg hpi, if_neg hpi] at h1
          subst h1
          exact h.clean i b d' hbi h2 hd
    · have hc' : s.cache = false := by cases hh : s.cache <;> simp_all
      simp only [hc', Bool.false_eq_true, if_false] at h1 h2
      simp only [setDD, getElem?_modify'] at h1 h2
      cases hbi : s.blocks[i]? with
      | none => simp [hbi] at h1
      | some b =>
        cases hdi : s.disk[i]? with
        | none => simp [hdi] at h2
        | some dk =>
          simp only [hbi, hdi, Option.map_some, Option.some.injEq] at h1 h2
          by_cases hpi : p.blk = i
          · rw [if_pos hpi] at h1 h2
            subst h1 h2
            have hdk0 := h.clean i b dk hbi hdi hd
            subst hdk0
            have hg : getDD (s.blocks.modify p.blk fun b => { b with dds := b.dds.set p.idx d }) p = d := getDD_setDD_same hv d
            simp [mirror, hg]
          · rw [if_neg hpi] at h1 h2
            subst h1 h2
            exact h.clean i b dk hbi hdi hd
  · rw [bound_congr hov]
    intro b hb
    exact Nat.lt_of_lt_of_le (h.bound b hb) (fillSlot_fEnd_ge s p d)
  · intro b hb hd
    rw [fillSlot_cache, fillSlot_fdirty]
    rw [hbl] at hb
    by_cases hc : s.cache = true
    · simp [hc]
    · have hc' : s.cache = false := by cases hh : s.cache <;> simp_all
      simp only [hc', Bool.false_eq_true, if_false] at hb
      obtain ⟨y, hy, hxy⟩ := mem_modify hb
      have hyd : y.dirty = true := by
        rcases hxy with rfl | rfl
        · exact hd
        · simpa using hd
      have := h.dirtyflag y hy hyd
      rw [hc'] at this; simp at this

/-- `DiskOK` only looks at blocks, disk, `f_end_off` and the two caching flags -/
theorem DiskOK_frame {s s' : File} (h : DiskOK s) (h1 : s'.blocks = s.blocks) (h2 : s'.disk = s.disk)
    (h3 : s'.fEnd = s.fEnd) (h4 : s'.cache = s.cache) (h5 : s'.fdirty = s.fdirty) : DiskOK s' := by
  refine ⟨by rw [h1, h2]; exact h.len, by rw [h1, h2]; exact h.clean, by rw [h1]; exact h.chain,
    by rw [h1, h3]; exact h.bound, by rw [h1, h4, h5]; exact h.dirtyflag⟩

theorem DiskOK_fEnd_ge {s s' : File} (h : DiskOK s) (h1 : s'.blocks = s.blocks) (h2 : s'.disk = s.disk)
    (h3 : s.fEnd ≤ s'.fEnd) (h4 : s'.cache = s.cache) (h5 : s'.fdirty = s.fdirty) : DiskOK s' := by
  refine ⟨by rw [h1, h2]; exact h.len, by rw [h1, h2]; exact h.clean, by rw [h1]; exact h.chain,
    ?_, by rw [h1, h4, h5]; exact h.dirtyflag⟩
  rw [h1]; intro b hb; exact Nat.lt_of_lt_of_le (h.bound b hb) h3

/-- linking a new block behind the last one keeps the chain well formed -/
theorem chainFrom_append : ∀ (blocks : List Block) (off x : Nat) (g : Block → Block) (nb : Block),
    blocks ≠ [] → chainFrom off blocks → (∀ b ∈ blocks, b.myoff < x) → 0 < x →
    (∀ b, (g b).myoff = b.myoff ∧ (g b).next = x) → nb.myoff = x → nb.next = 0 →
    chainFrom off (blocks.modify (blocks.length - 1) g ++ [nb]) := by
  intro blocks
  induction blocks with
  | nil => intro off x g nb h; exact absurd rfl h
  | cons b rest ih =>
    intro off x g nb _ hch hlt hx hg hnb1 hnb2
    obtain ⟨h1, h2, h3, h4⟩ := hch
    cases rest with
    | nil =>
      simp only [List.length_cons, List.length_nil, Nat.zero_add, Nat.sub_self, List.modify_zero_cons,
        List.cons_append, List.nil_append, chainFrom]
      refine ⟨by rw [(hg b).1]; exact h1, h2, ?_, ?_⟩
      · intro c hc; simp at hc; subst hc
        rw [hnb1, ← h1]; exact hlt b (by simp)
      · rw [(hg b).2]
        exact ⟨hnb1, hx, by simp, hnb2⟩
    | cons b2 rest2 =>
      have e : (b :: b2 :: rest2).length - 1 = (b2 :: rest2).length - 1 + 1 := by simp
      rw [e, List.modify_succ_cons]
      simp only [List.cons_append, chainFrom]
      refine ⟨h1, h2, ?_, ?_⟩
      · intro c hc
        rcases List.mem_append.mp hc with hc | hc
        · obtain ⟨y, hy, hxy⟩ := mem_modify hc
          rcases hxy with rfl | rfl
          · exact h3 _ hy
          · rw [(hg y).1]; exact h3 y hy
        · simp at hc; subst hc
          rw [hnb1, ← h1]; exact hlt b (by simp)
      · exact ih b.next x g nb (by simp) h4 (fun c hc => hlt c (by simp [hc])) hx hg hnb1 hnb2

theorem newBlock_DiskOK (cfg : Cfg) {s : File} (h : DiskOK s) (hw : WF s)
    (hg : s.cache = true ∨ cfg.fixF3 = true) : DiskOK (htiNewBlock cfg s) := by
  have hne : s.blocks ≠ [] := by intro e; have := hw.ne; simp [e] at this
  have hlen : 0 < s.blocks.length := hw.ne
  have hbl : (htiNewBlock cfg s).blocks = newBlockMem s := rfl
  have hdk : (htiNewBlock cfg s).disk = newBlockDisk cfg s := rfl
  have hsz : 0 < NDDS_SZ + OFFSET_SZ := by decide
  refine ⟨?_, ?_, ?_, ?_, ?_⟩
  · rw [hbl, hdk]; unfold newBlockMem newBlockDisk
    split <;> simp [h.len]
  · intro i b' d' h1 h2 hd
    rw [hbl] at h1; rw [hdk] at h2
    unfold newBlockMem at h1; unfold newBlockDisk at h2
    by_cases hi : i < s.blocks.length
    · -- an old block
      rw [List.getElem?_append_left (by simpa using hi), getElem?_modify'] at h1
      have hbi : s.blocks[i]? = some s.blocks[i] := List.getElem?_eq_getElem hi
      have hdi : s.disk[i]? = some (s.disk[i]'(by rw [h.len]; exact hi)) := List.getElem?_eq_getElem _
      simp only [hbi, Option.map_some, Option.some.injEq] at h1
      by_cases hc : s.cache = true
      · simp only [hc, if_true] at h1 h2
        rw [List.getElem?_append_left (by rw [h.len]; exact hi)] at h2
        by_cases hl : s.blocks.length - 1 = i
        · rw [if_pos hl] at h1; subst h1; simp at hd
        · rw [if_neg hl] at h1; subst h1
          exact h.clean i _ d' hbi h2 hd
      · have hc' : s.cache = false := by cases hh : s.cache <;> simp_all
        simp only [hc', Bool.false_eq_true, if_false] at h1 h2
        rw [List.getElem?_append_left (by simp [h.len]; exact hi), getElem?_modify'] at h2
        simp only [hdi, Option.map_some, Option.some.injEq] at h2
        by_cases hl : s.blocks.length - 1 = i
        · rw [if_pos hl] at h1 h2; subst h1 h2
          have := h.clean i _ _ hbi hdi (by simpa using hd)
          rw [this]; rfl
        · rw [if_neg hl] at h1 h2; subst h1 h2
          exact h.clean i _ _ hbi hdi hd
    · -- the new block
      have hlm : (s.blocks.modify (s.blocks.length - 1) fun b => { b with next := s.fEnd, dirty := if s.cache then true else b.dirty }).length = s.blocks.length := by simp
      rw [List.getElem?_append_right (by rw [hlm]; omega), hlm] at h1
      have hi0 : i - s.blocks.length = 0 := by
        rcases Nat.eq_zero_or_pos (i - s.blocks.length) with h0 | h0
        · exact h0
        · rw [List.getElem?_eq_none (by simp; omega)] at h1; cases h1
      rw [hi0] at h1
      simp only [List.getElem?_cons_zero, Option.some.injEq] at h1
      subst h1
      simp only at hd
      rcases hg with hc | hf
      · rw [hc] at hd; cases hd
      · have hc' : s.cache = false := hd
        simp only [hc', Bool.false_eq_true, if_false, hf, if_true] at h2
        have hlm2 : (s.disk.modify (s.blocks.length - 1) fun d => { d with next := s.fEnd }).length = s.blocks.length := by simp [h.len]
        rw [List.getElem?_append_right (by rw [hlm2]; omega), hlm2, hi0] at h2
        simp only [List.getElem?_cons_zero, Option.some.injEq] at h2
        subst h2
        simp [mirror]
  · rw [hbl]; unfold newBlockMem
    exact chainFrom_append s.blocks MAGICLEN s.fEnd _ _ hne h.chain h.bound
      (by obtain ⟨b, hb⟩ := List.exists_mem_of_ne_nil _ hne; have := h.bound b hb; omega) (fun _ => ⟨rfl, rfl⟩) rfl rfl
  · intro b hb
    rw [hbl] at hb; unfold newBlockMem at hb
    show b.myoff < s.fEnd + (NDDS_SZ + OFFSET_SZ) + headNdds s * DD_SZ
    rcases List.mem_append.mp hb with hb | hb
    · obtain ⟨y, hy, hxy⟩ := mem_modify hb
      have := h.bound y hy
      rcases hxy with rfl | rfl
      · omega
      · show y.myoff < _; omega
    · simp at hb; subst hb; show s.fEnd < _; omega
  · intro b hb hd
    rw [hbl] at hb; unfold newBlockMem at hb
    show s.cache = true ∧ (if s.cache then true else s.fdirty) = true
    rcases List.mem_append.mp hb with hb | hb
    · obtain ⟨y, hy, hxy⟩ := mem_modify hb
      rcases hxy with rfl | rfl
      · have := h.dirtyflag _ hy hd; simp [this.1]
      · by_cases hc : s.cache = true
        · simp [hc]
        · have hc' : s.cache = false := by cases hh : s.cache <;> simp_all
          simp only [hc', Bool.false_eq_true, if_false] at hd
          have := h.dirtyflag y hy hd
          rw [hc'] at this; simp at this
    · simp at hb; subst hb
      simp only at hd; simp [hd]

end H4.DD
