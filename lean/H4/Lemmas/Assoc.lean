import H4.VGroup
/-! Association lists keyed by ref (`alook`/`ains`/`aset`/`adel`): lookup, membership, key order, `map`. -/
namespace H4.VGroup

variable {α β : Type}

def KSorted (l : List (Nat × α)) : Prop := (akeys l).Pairwise (· < ·)

theorem alook_map (f : α → β) (k : Nat) (l : List (Nat × α)) :
    alook k (l.map (fun e => (e.1, f e.2))) = (alook k l).map f := by
  induction l with
  | nil => rfl
  | cons a t ih => simp only [List.map_cons, alook]; split <;> simp [ih]

theorem akeys_map (f : α → β) (l : List (Nat × α)) : akeys (l.map (fun e => (e.1, f e.2))) = akeys l := by
  simp [akeys, List.map_map, Function.comp_def]

theorem aset_map (f : α → β) (k : Nat) (v : α) (l : List (Nat × α)) :
    (aset k v l).map (fun e => (e.1, f e.2)) = aset k (f v) (l.map (fun e => (e.1, f e.2))) := by
  simp only [aset, List.map_map]
  apply List.map_congr_left
  intro a _
  simp only [Function.comp_def]
  split <;> rfl

theorem ains_map (f : α → β) (k : Nat) (v : α) (l : List (Nat × α)) :
    (ains k v l).map (fun e => (e.1, f e.2)) = ains k (f v) (l.map (fun e => (e.1, f e.2))) := by
  induction l with
  | nil => rfl
  | cons a t ih =>
    simp only [ains, List.map_cons]
    split
    · rfl
    · split
      · rfl
      · simp [ih]

theorem adel_map (f : α → β) (k : Nat) (l : List (Nat × α)) :
    (adel k l).map (fun e => (e.1, f e.2)) = adel k (l.map (fun e => (e.1, f e.2))) := by
  simp [adel, List.filter_map, Function.comp_def]

theorem akeys_aset (k : Nat) (v : α) (l : List (Nat × α)) : akeys (aset k v l) = akeys l := by
  simp only [akeys, aset, List.map_map]
  apply List.map_congr_left
  intro a _
  simp only [Function.comp_def]
  split
  · rename_i h; exact h.symm
  · rfl

theorem alook_ains (k k' : Nat) (v : α) (l : List (Nat × α)) :
    alook k' (ains k v l) = if k' = k then some v else alook k' l := by
  induction l with
  | nil => simp only [ains, alook]; split <;> simp_all <;> omega
  | cons a t ih =>
    obtain ⟨ka, va⟩ := a
    simp only [ains]
    split
    · simp only [alook]; split <;> simp_all <;> omega
    · split
      · rename_i h1 h2; subst h2
        simp only [alook]
        by_cases h3 : k = k'
        · simp [h3]
        · have : ¬ k' = k := fun e => h3 e.symm
          simp [h3, this]
      · rename_i h1 h2
        simp only [alook, ih]
        by_cases h3 : ka = k'
        · have : k' ≠ k := by omega
          simp [h3, this]
        · simp [h3]

theorem alook_adel (k k' : Nat) (l : List (Nat × α)) :
    alook k' (adel k l) = if k' = k then none else alook k' l := by
  induction l with
  | nil => simp [adel, alook]
  | cons a t ih =>
    obtain ⟨ka, va⟩ := a
    simp only [adel, List.filter_cons] at ih ⊢
    by_cases h : ka = k
    · subst h
      simp only [bne_self_eq_false, Bool.false_eq_true, if_false, ih, alook]
      by_cases h2 : k' = ka
      · simp [h2]
      · have : ¬ ka = k' := fun e => h2 e.symm
        simp [h2, this]
    · have hb : (ka != k) = true := by simp [h]
      simp only [hb, if_true, alook, ih]
      by_cases h2 : ka = k'
      · have : ¬ k' = k := by omega
        simp [h2, this]
      · simp [h2]

theorem alook_aset (k k' : Nat) (v : α) (l : List (Nat × α)) :
    alook k' (aset k v l) = if k' = k then (alook k l).map (fun _ => v) else alook k' l := by
  induction l with
  | nil => simp [aset, alook]
  | cons a t ih =>
    obtain ⟨ka, va⟩ := a
    simp only [aset, List.map_cons] at ih ⊢
    by_cases h : ka = k
    · subst h
      simp only [if_true, alook]
      by_cases h2 : ka = k'
      · simp [h2]
      · have : ¬ k' = ka := fun e => h2 e.symm
        simp [h2, this, ih]
    · simp only [h, if_false, alook, ih]
      by_cases h2 : ka = k'
      · have : ¬ k' = k := by omega
        simp [h2, this]
      · simp [h2]

theorem mem_of_alook {k : Nat} {v : α} {l : List (Nat × α)} (h : alook k l = some v) : (k, v) ∈ l := by
  induction l with
  | nil => simp [alook] at h
  | cons a t ih =>
    obtain ⟨ka, va⟩ := a
    simp only [alook] at h
    split at h
    · rename_i e; subst e; simp at h; simp [h]
    · simp [ih h]

theorem alook_isSome_iff {k : Nat} {l : List (Nat × α)} : (alook k l).isSome ↔ k ∈ akeys l := by
  induction l with
  | nil => simp [alook, akeys]
  | cons a t ih =>
    obtain ⟨ka, va⟩ := a
    simp only [alook, akeys, List.map_cons, List.mem_cons] at ih ⊢
    split
    · rename_i e; simp [e]
    · rename_i e; rw [ih]; constructor
      · intro h; right; exact h
      · intro h; rcases h with h | h
        · exact absurd h.symm e
        · exact h

theorem alook_of_mem_sorted {k : Nat} {v : α} {l : List (Nat × α)} (hs : KSorted l) (h : (k, v) ∈ l) :
    alook k l = some v := by
  induction l with
  | nil => simp at h
  | cons a t ih =>
    obtain ⟨ka, va⟩ := a
    simp only [KSorted, akeys, List.map_cons, List.pairwise_cons] at hs
    simp only [List.mem_cons, Prod.mk.injEq] at h
    simp only [alook]
    rcases h with ⟨h1, h2⟩ | h
    · simp [h1, h2]
    · have hk : ka < k := hs.1 k (by simp only [List.mem_map]; exact ⟨(k, v), h, rfl⟩)
      have : ¬ ka = k := by omega
      simp only [this, if_false]
      exact ih hs.2 h

theorem alook_none_of_not_mem {k : Nat} {l : List (Nat × α)} (h : k ∉ akeys l) : alook k l = none := by
  cases hh : alook k l with
  | none => rfl
  | some v => exact absurd (alook_isSome_iff.mp (by simp [hh])) h

theorem akeys_ains_mem {k x : Nat} {v : α} {l : List (Nat × α)} (h : x ∈ akeys (ains k v l)) : x = k ∨ x ∈ akeys l := by
  have := alook_isSome_iff.mpr h
  rw [alook_ains] at this
  by_cases e : x = k
  · left; exact e
  · right; simp only [e, if_false] at this; exact alook_isSome_iff.mp this

theorem ksorted_ains {k : Nat} {v : α} {l : List (Nat × α)} (h : KSorted l) : KSorted (ains k v l) := by
  induction l with
  | nil => simp [ains, KSorted, akeys]
  | cons a t ih =>
    obtain ⟨ka, va⟩ := a
    simp only [KSorted, akeys, List.map_cons, List.pairwise_cons] at h
    simp only [ains]
    split
    · rename_i hlt
      simp only [KSorted, akeys, List.map_cons, List.pairwise_cons, List.mem_cons]
      refine ⟨?_, h.1, h.2⟩
      intro x hx
      rcases hx with hx | hx
      · omega
      · have := h.1 x hx; omega
    · split
      · rename_i h1 h2; subst h2
        simp only [KSorted, akeys, List.map_cons, List.pairwise_cons]
        exact h
      · rename_i h1 h2
        simp only [KSorted, akeys, List.map_cons, List.pairwise_cons]
        refine ⟨?_, ih h.2⟩
        intro x hx
        rcases akeys_ains_mem hx with e | e
        · omega
        · exact h.1 x e

theorem ksorted_adel {k : Nat} {l : List (Nat × α)} (h : KSorted l) : KSorted (adel k l) := by
  have : akeys (adel k l) = (akeys l).filter (fun x => x != k) := by
    simp [akeys, adel, List.filter_map, Function.comp_def]
  unfold KSorted; rw [this]
  exact List.Pairwise.filter _ h

theorem ksorted_aset {k : Nat} {v : α} {l : List (Nat × α)} (h : KSorted l) : KSorted (aset k v l) := by
  unfold KSorted; rw [akeys_aset]; exact h

theorem ksorted_map (f : α → β) {l : List (Nat × α)} (h : KSorted l) : KSorted (l.map (fun e => (e.1, f e.2))) := by
  unfold KSorted; rw [akeys_map]; exact h

/-- two key-sorted association lists with the same lookups are the same list -/
theorem ksorted_ext {l1 l2 : List (Nat × α)} (h1 : KSorted l1) (h2 : KSorted l2)
    (h : ∀ k, alook k l1 = alook k l2) : l1 = l2 := by
  induction l1 generalizing l2 with
  | nil =>
    cases l2 with
    | nil => rfl
    | cons b t2 => have := h b.1; simp [alook] at this
  | cons a t1 ih =>
    obtain ⟨ka, va⟩ := a
    cases l2 with
    | nil => have := h ka; simp [alook] at this
    | cons b t2 =>
      obtain ⟨kb, vb⟩ := b
      simp only [KSorted, akeys, List.map_cons, List.pairwise_cons] at h1 h2
      have na : alook ka t1 = none := alook_none_of_not_mem (fun hm => by have := h1.1 ka hm; omega)
      have nb : alook kb t2 = none := alook_none_of_not_mem (fun hm => by have := h2.1 kb hm; omega)
      have hk : ka = kb := by
        rcases Nat.lt_trichotomy ka kb with hlt | heq | hgt
        · have := h ka
          have n2 : alook ka t2 = none := alook_none_of_not_mem (fun hm => by have := h2.1 ka hm; omega)
          have e : ¬ kb = ka := by omega
          simp [alook, e, n2] at this
        · exact heq
        · have := h kb
          have n1 : alook kb t1 = none := alook_none_of_not_mem (fun hm => by have := h1.1 kb hm; omega)
          have e : ¬ ka = kb := by omega
          simp [alook, e, n1] at this
      subst hk
      have hv : va = vb := by have := h ka; simpa [alook] using this
      subst hv
      congr 1
      apply ih h1.2 h2.2
      intro k
      by_cases e : ka = k
      · subst e; rw [na, nb]
      · have := h k; simpa [alook, e] using this

end H4.VGroup
