import H4.Gen.Fn.Cnbit
import H4.Lemmas.NBit
import H4.Lemmas.C2L
import H4.Lemmas.C05Rle
/-! Lemmas for `H4.Props.C05NBitFn`: `HCIcnbit_init`, `HCIcnbit_encode`, `HCIcnbit_decode` of `hdf/src/cnbit.c`, as TRANSLATED from the C text
    (`H4.Gen.Fn.Cnbit`, regenerated on every run), compute the hand-written model `H4.NBit` (`maskInfos`/`maskBuf`, `encode`, `decodeLoop`).
    Core only. -/
set_option linter.unusedSimpArgs false
set_option linter.unusedVariables false
namespace H4.Lemmas.C05NBitFn
open H4 H4.NBit H4.Bits H4.Gen.Cnbit H4.Gen.Fn.Cnbit
open H4.Lemmas.C05Rle (bytes bytes_length bytes_getD bytes_append bytes_take bytes_drop byte_lt)

theorem consts : NBIT_BUF_SIZE = 1024 ∧ NBIT_MASK_SIZE = 16 := ⟨rfl, rfl⟩

/-! ## the mask table -/

/-- what the C code relies on in a `mask_info` entry: the shift `(offset - length) + 1` is a valid shift count, the mask is a byte -/
def GoodEntry (mi : MaskInfo) : Prop := mi.length ≤ mi.offset + 1 ∧ mi.offset ≤ 7 ∧ mi.mask < 256

theorem arr8_lt (k : Nat) : arr8 k < 256 := by
  unfold arr8
  by_cases h : k < 9
  · have : ∀ k, k < 9 → mask_arr8.getD k 0 < 256 := by decide
    exact this k h
  · have : mask_arr8.getD k 0 = 0 := by
      simp only [List.getD_eq_getElem?_getD]
      rw [List.getElem?_eq_none (by simp [mask_arr8]; omega)]; rfl
    omega

theorem maskStep_good (a b n : Nat) (hab : b ≤ a) : GoodEntry (maskStep a b (8 * n + 7) (8 * n)).1 := by
  unfold maskStep GoodEntry
  split
  · split
    · exact ⟨by simp only; omega, by simp only; omega, arr8_lt 8⟩
    · refine ⟨by simp only; omega, by simp only; omega, ?_⟩
      exact Nat.mod_lt _ (by omega)
  · split
    · split
      · exact ⟨by simp only; omega, by simp only; omega, arr8_lt _⟩
      · refine ⟨by simp only; omega, by simp only; omega, ?_⟩
        exact Nat.mod_lt _ (by omega)
    · exact ⟨by simp, by simp, by simp⟩

theorem maskLoop_good (a b : Nat) (hab : b ≤ a) : ∀ (n : Nat) (done : Bool), ∀ mi ∈ maskLoop a b n (8 * n - 1) (8 * n - 8) done, GoodEntry mi := by
  intro n
  induction n with
  | zero => intro done mi h; simp [maskLoop] at h
  | succ n ih =>
    intro done mi h
    unfold maskLoop at h
    have e1 : 8 * (n + 1) - 1 - 8 = 8 * n - 1 := by omega
    have e2 : 8 * (n + 1) - 8 - 8 = 8 * n - 8 := by omega
    have e3 : 8 * (n + 1) - 1 = 8 * n + 7 := by omega
    have e4 : 8 * (n + 1) - 8 = 8 * n := by omega
    rw [e1, e2] at h
    split at h
    · rcases List.mem_cons.mp h with h | h
      · subst h; exact ⟨by simp, by simp, by simp⟩
      · exact ih _ mi h
    · rw [e3, e4] at h
      rcases List.mem_cons.mp h with h | h
      · subst h; exact maskStep_good a b n hab
      · exact ih _ mi h

/-- the parameter range the C code is written for: `1 ≤ mask_len ≤ mask_off + 1 ≤ 8·nt_size` (`nt_size` itself is bounded by the arrays:
    `NBIT_MASK_SIZE`) -/
def InRange (c : Cfg) : Prop := c.ntSize ≤ NBIT_MASK_SIZE ∧ c.maskOff < 8 * c.ntSize ∧ 1 ≤ c.maskLen ∧ c.maskLen ≤ c.maskOff + 1
instance (c : Cfg) : Decidable (InRange c) := by unfold InRange; infer_instance

theorem inRange_of_valid {c : Cfg} (h : c.Valid) : InRange c := by
  obtain ⟨h1, h2, h3, h4⟩ := h
  refine ⟨?_, h2, h3, h4⟩
  have : NBIT_MASK_SIZE = 16 := rfl
  rcases h1 with h | h | h | h <;> omega

theorem maskInfos_goodEntry (c : Cfg) (h1 : 1 ≤ c.maskLen) (h : c.maskLen ≤ c.maskOff + 1) : ∀ mi ∈ maskInfos c, GoodEntry mi := by
  unfold maskInfos
  rw [Nat.mul_comm c.ntSize 8]
  exact maskLoop_good _ _ (by omega) _ _

/-- entry `j` of the model's table -/
def mi (c : Cfg) (j : Nat) : MaskInfo := (maskInfos c).getD j {}

theorem mi_good (c : Cfg) (h1 : 1 ≤ c.maskLen) (h : c.maskLen ≤ c.maskOff + 1) (j : Nat) : GoodEntry (mi c j) := by
  unfold mi
  by_cases hj : j < (maskInfos c).length
  · have : (maskInfos c).getD j {} = (maskInfos c)[j] := by simp [List.getD, hj]
    rw [this]; exact maskInfos_goodEntry c h1 h _ (List.getElem_mem hj)
  · have : (maskInfos c).getD j {} = {} := by simp [List.getD, List.getElem?_eq_none (Nat.le_of_not_lt hj)]
    rw [this]; exact ⟨by simp, by simp, by simp⟩

/-- the C arrays `mask_info[].offset/.length/.mask` hold the model's table in their first `nt_size` cells -/
def TabRel (c : Cfg) (offs lens masks : List Int) : Prop :=
  offs.length = NBIT_MASK_SIZE ∧ lens.length = NBIT_MASK_SIZE ∧ masks.length = NBIT_MASK_SIZE ∧ c.ntSize ≤ NBIT_MASK_SIZE ∧
  ∀ j, j < c.ntSize → offs.getD j 0 = ((mi c j).offset : Int) ∧ lens.getD j 0 = ((mi c j).length : Int) ∧ masks.getD j 0 = ((mi c j).mask : Int)


/-! ## `HCIcnbit_encode` -/

/-- the `Hbitwrite(aid, count, data)` calls as the translated code records them: two cells per call -/
def pairs (fs : List (Nat × Nat)) : List Int := fs.flatMap fun f => [(f.1 : Int), (f.2 : Int)]

@[simp] theorem pairs_nil : pairs [] = [] := rfl
theorem pairs_append (a b : List (Nat × Nat)) : pairs (a ++ b) = pairs a ++ pairs b := by simp [pairs]

theorem and_shift_lt (x m k : Nat) (hx : x < 256) : ((x &&& m) >>> k : Nat) < 4294967296 := by
  have h1 : x &&& m ≤ x := Nat.and_le_left
  have h2 : (x &&& m) >>> k ≤ x &&& m := by rw [Nat.shiftRight_eq_div_pow]; exact Nat.div_le_self _ _
  omega

/-- one pass through the loop body of `HCIcnbit_encode`: the model's `encByte` on the byte under the cursor, with the entry `nt_pos` of the
    table, and the model's advance of `nt_pos` -/
theorem enc_body (c : Cfg) (x : UInt8) (pos : Nat) (fuel : Nat) (s : HCIcnbit_encode.St)
    (htab : TabRel c s.nbit_mask_info_offset s.nbit_mask_info_length s.nbit_mask_info_mask) (hgood : GoodEntry (mi c pos))
    (hn : s.nbit_nt_size = (c.ntSize : Int)) (hpos : pos < c.ntSize) (hp : s.nbit_nt_pos = (pos : Int)) (hm : s.mask_info = (pos : Int))
    (hi : 0 ≤ s.buf_i ∧ s.buf_i < s.buf.length) (hb : s.buf.getD s.buf_i.toNat 0 = (x.toNat : Int)) (hub : s.ub = false) :
    let s' := HCIcnbit_encode.loop0.body fuel s
    let pos' := if pos + 1 ≥ c.ntSize then 0 else pos + 1
    s'.ub = false ∧ s'.oof = s.oof ∧ s'.buf = s.buf ∧ s'.buf_i = s.buf_i + 1 ∧ s'.length = s.length - 1 ∧
      s'.io_out = s.io_out ++ pairs (encByte (mi c pos) x) ∧ s'.nbit_nt_pos = (pos' : Int) ∧ s'.mask_info = (pos' : Int) ∧
      s'.nbit_nt_size = s.nbit_nt_size ∧ s'.nbit_offset = s.nbit_offset ∧ s'.orig_length = s.orig_length ∧ s'.ret = s.ret ∧
      s'.nbit_mask_info_offset = s.nbit_mask_info_offset ∧ s'.nbit_mask_info_length = s.nbit_mask_info_length ∧
      s'.nbit_mask_info_mask = s.nbit_mask_info_mask := by
  obtain ⟨length, buf_i, mask_info, orig_length, output_bits, nt_pos, nt_size, offset, lens, buf, masks, offs, io_out, ub, oof, ret⟩ := s
  simp only at htab hn hp hm hi hb hub
  subst hn hp hm hub
  obtain ⟨ho, hl, hk, hle, hget⟩ := htab
  obtain ⟨g1, g2, g3⟩ := hget pos hpos
  obtain ⟨q1, q2, q3⟩ := hgood
  have c16 : NBIT_MASK_SIZE = 16 := rfl
  have hx := UInt8.toNat_lt x
  have hsh : (((mi c pos).offset : Int) - ((mi c pos).length : Int) + 1).toNat = (mi c pos).shift := by unfold MaskInfo.shift; omega
  have hand : (x.toNat &&& (mi c pos).mask) >>> (mi c pos).shift < 4294967296 := and_shift_lt _ _ _ hx
  have hdiv : ((x.toNat &&& (mi c pos).mask : Nat) : Int) / 2 ^ (mi c pos).shift = (((x.toNat &&& (mi c pos).mask) >>> (mi c pos).shift : Nat) : Int) := by
    rw [Nat.shiftRight_eq_div_pow]; norm_cast
  have hdiv2 : ((x.toNat &&& (mi c pos).mask : Nat) : Int) >>> (mi c pos).shift = (((x.toNat &&& (mi c pos).mask) >>> (mi c pos).shift : Nat) : Int) := by
    rw [Int.shiftRight_eq_div_pow, Nat.shiftRight_eq_div_pow]; norm_cast
  by_cases hlen : (mi c pos).length > 0
  · have hlen' : ((mi c pos).length : Int) > 0 := by omega
    by_cases hw : pos + 1 ≥ c.ntSize
    · have hw' : (pos : Int) + 1 ≥ (c.ntSize : Int) := by omega
      simp [-List.getD_eq_getElem?_getD, HCIcnbit_encode.loop0.body, HCIcnbit_encode.chk, hi.1, hi.2, hb, g1, g2, g3, ho, hl, hk, c16, hlen, hlen', hw, hw',
        encByte, pairs, hsh]
      refine ⟨by omega, ?_⟩
      rw [hdiv, hdiv2]
      generalize (x.toNat &&& (mi c pos).mask) >>> (mi c pos).shift = v at hand ⊢
      omega
    · have hw' : ¬ ((pos : Int) + 1 ≥ (c.ntSize : Int)) := by omega
      simp [-List.getD_eq_getElem?_getD, HCIcnbit_encode.loop0.body, HCIcnbit_encode.chk, hi.1, hi.2, hb, g1, g2, g3, ho, hl, hk, c16, hlen, hlen', hw, hw',
        encByte, pairs, hsh]
      refine ⟨by omega, ?_⟩
      rw [hdiv, hdiv2]
      generalize (x.toNat &&& (mi c pos).mask) >>> (mi c pos).shift = v at hand ⊢
      omega
  · have hlen' : ¬ (((mi c pos).length : Int) > 0) := by omega
    by_cases hw : pos + 1 ≥ c.ntSize
    · have hw' : (pos : Int) + 1 ≥ (c.ntSize : Int) := by omega
      simp [-List.getD_eq_getElem?_getD, HCIcnbit_encode.loop0.body, HCIcnbit_encode.chk, hi.1, hi.2, hb, g1, g2, g3, ho, hl, hk, c16, hlen, hlen', hw, hw',
        encByte, pairs]
      omega
    · have hw' : ¬ ((pos : Int) + 1 ≥ (c.ntSize : Int)) := by omega
      simp [-List.getD_eq_getElem?_getD, HCIcnbit_encode.loop0.body, HCIcnbit_encode.chk, hi.1, hi.2, hb, g1, g2, g3, ho, hl, hk, c16, hlen, hlen', hw, hw',
        encByte, pairs]
      omega


theorem enc_loop0_succ (fuel : Nat) (s : HCIcnbit_encode.St) (h : s.length > 0) :
    HCIcnbit_encode.loop0 (fuel + 1) s = HCIcnbit_encode.loop0 fuel (HCIcnbit_encode.loop0.body (fuel + 1) s) := by
  rw [HCIcnbit_encode.loop0]; simp [h]

theorem enc_loop0_stop (fuel : Nat) (s : HCIcnbit_encode.St) (h : ¬ s.length > 0) : HCIcnbit_encode.loop0 fuel s = s := by
  cases fuel <;> rw [HCIcnbit_encode.loop0] <;> simp [h]

/-- the loop of `HCIcnbit_encode` over the bytes `xs` still to come is the model's `encode` from `nt_pos = pos` -/
theorem enc_loop (c : Cfg) (hgood : ∀ j, GoodEntry (mi c j)) : ∀ (xs pre : List UInt8) (pos fuel : Nat) (s : HCIcnbit_encode.St),
    xs.length ≤ fuel → TabRel c s.nbit_mask_info_offset s.nbit_mask_info_length s.nbit_mask_info_mask →
    s.nbit_nt_size = (c.ntSize : Int) → pos < c.ntSize → s.nbit_nt_pos = (pos : Int) → s.mask_info = (pos : Int) →
    s.buf = bytes (pre ++ xs) → s.buf_i = (pre.length : Int) → s.length = (xs.length : Int) → s.ub = false → s.oof = false →
    let s' := HCIcnbit_encode.loop0 fuel s
    s'.ub = false ∧ s'.oof = false ∧ s'.io_out = s.io_out ++ pairs (encode c pos xs).1 ∧ s'.nbit_nt_pos = ((encode c pos xs).2 : Int) ∧
      s'.nbit_offset = s.nbit_offset ∧ s'.orig_length = s.orig_length ∧ s'.ret = s.ret ∧ s'.nbit_nt_size = s.nbit_nt_size ∧
      s'.nbit_mask_info_offset = s.nbit_mask_info_offset ∧ s'.nbit_mask_info_length = s.nbit_mask_info_length ∧
      s'.nbit_mask_info_mask = s.nbit_mask_info_mask := by
  intro xs
  induction xs with
  | nil =>
    intro pre pos fuel s _ _ _ _ hp _ _ _ hl hub hoof
    have : ¬ s.length > 0 := by rw [hl]; simp
    rw [enc_loop0_stop fuel s this]
    simp only [encode, pairs_nil, List.append_nil]
    exact ⟨hub, hoof, trivial, hp, trivial, trivial, trivial, trivial, trivial, trivial, trivial⟩
  | cons x xs ih =>
    intro pre pos fuel s hf htab hn hpos hp hm hbuf hi hl hub hoof
    cases fuel with
    | zero => simp at hf
    | succ fuel =>
      have hlen : s.length > 0 := by rw [hl]; simp only [List.length_cons]; omega
      rw [enc_loop0_succ fuel s hlen]
      have hidx : 0 ≤ s.buf_i ∧ s.buf_i < s.buf.length := by
        rw [hi, hbuf, bytes_length]; simp only [List.length_append, List.length_cons]; omega
      have hb : s.buf.getD s.buf_i.toNat 0 = (x.toNat : Int) := by
        rw [hi, hbuf, Int.toNat_natCast, bytes_getD _ _ (by simp)]; simp
      obtain ⟨b1, b2, b3, b4, b5, b6, b7, b8, b9, b10, b11, b12, b13, b14, b15⟩ := enc_body c x pos (fuel + 1) s htab (hgood pos) hn hpos hp hm hidx hb hub
      generalize HCIcnbit_encode.loop0.body (fuel + 1) s = s1 at *
      have hpos' : (if pos + 1 ≥ c.ntSize then 0 else pos + 1) < c.ntSize := by split <;> omega
      obtain ⟨r1, r2, r3, r4, r5, r6, r7, r8, r9, r10, r11⟩ := ih (pre ++ [x]) (if pos + 1 ≥ c.ntSize then 0 else pos + 1) fuel s1
        (by simpa using hf) (by rw [b13, b14, b15]; exact htab) (by rw [b9, hn]) hpos' b7 b8 (by rw [b3, hbuf]; simp)
        (by rw [b4, hi]; simp) (by rw [b5, hl]; simp) b1 (by rw [b2, hoof])
      refine ⟨r1, r2, ?_, ?_, by rw [r5, b10], by rw [r6, b11], by rw [r7, b12], by rw [r8, b9], by rw [r9, b13], by rw [r10, b14], by rw [r11, b15]⟩
      · rw [r3, b6, List.append_assoc, ← pairs_append]; simp only [encode, mi]
      · rw [r4]; simp only [encode]


/-! ## `HCIcnbit_init` -/

/-- the state of `HCIcnbit_init` when its first loop is entered (`Hbitseek` succeeded) -/
def initStart (fill n moff mlen : Int) (mbuf offs lens masks : List Int) (seek : Int) : HCIcnbit_init.St :=
  { nbit_buf_pos := 16 * 64, nbit_buf_len := 0, nbit_nt_pos := 0, nbit_offset := 0,
    nbit_mask_buf := List.replicate (n % 18446744073709551616).toNat ((if fill = 1 then 255 else 0) % 256) ++ mbuf.drop (n % 18446744073709551616).toNat,
    nbit_fill_one := fill, nbit_nt_size := n, nbit_mask_off := moff, nbit_mask_len := mlen,
    nbit_mask_info_offset := List.replicate offs.length 0, nbit_mask_info_length := List.replicate lens.length 0,
    nbit_mask_info_mask := List.replicate masks.length 0, bitseek_ret := seek,
    bits := n * 8, mask_top := moff, mask_bot := moff - (mlen - 1), top_bit := n * 8 - 1, bot_bit := n * 8 - 8, i := 0,
    ub := !decide (0 ≤ n % 18446744073709551616) || !decide (n % 18446744073709551616 ≤ mbuf.length) }

/-- what `HCIcnbit_init` does after its first loop -/
def initTail (fuel : Nat) (s : HCIcnbit_init.St) : HCIcnbit_init.St :=
  let s : HCIcnbit_init.St := { s with brk := false }
  let s : HCIcnbit_init.St := if s.done ∨ s.brk ∨ s.cnt then s else
    if s.nbit_fill_one = 1 then { HCIcnbit_init.loop1 fuel { s with i := 0 } with brk := false } else s
  if s.done ∨ s.brk ∨ s.cnt then s else { s with ret := 0, done := true }

theorem init_unfold (fuel : Nat) (bp bl np off : Int) (mbuf : List Int) (fill n moff mlen : Int) (offs lens masks : List Int) (seek : Int)
    (hseek : seek ≠ -1) :
    HCIcnbit_init fuel bp bl np off mbuf fill n moff mlen offs lens masks seek =
      initTail fuel (HCIcnbit_init.loop0 fuel (initStart fill n moff mlen mbuf offs lens masks seek)) := by
  unfold HCIcnbit_init initTail initStart
  simp [hseek, HCIcnbit_init.chk, HCIcnbit_init.St.set_ret, HCIcnbit_init.St.set_done, HCIcnbit_init.St.set_nbit_buf_pos, HCIcnbit_init.St.set_nbit_buf_len,
    HCIcnbit_init.St.set_nbit_nt_pos, HCIcnbit_init.St.set_nbit_offset, HCIcnbit_init.St.set_nbit_mask_buf, HCIcnbit_init.St.set_bits,
    HCIcnbit_init.St.set_mask_top, HCIcnbit_init.St.set_mask_bot, HCIcnbit_init.St.set_top_bit, HCIcnbit_init.St.set_bot_bit,
    HCIcnbit_init.St.set_nbit_mask_info_offset, HCIcnbit_init.St.set_nbit_mask_info_length, HCIcnbit_init.St.set_nbit_mask_info_mask,
    HCIcnbit_init.St.set_i, HCIcnbit_init.St.set_brk, HCIcnbit_init.St.set_cnt]

theorem set_zero_of_getD {l : List Int} {i : Nat} (hz : l.getD i 0 = 0) : l.set i 0 = l := by
  apply List.ext_getElem?
  intro j
  by_cases h : i = j
  · subst h
    by_cases hl : i < l.length
    · simp [hl] at hz ⊢; simp [hz]
    · rw [List.getElem?_eq_none (by simp; omega), List.getElem?_eq_none (by omega)]
  · simp [List.getElem?_set, h]

/-- one pass through the body of the first loop of `HCIcnbit_init` is the model's `maskStep` for byte `i` (whose bits are `8k+7 .. 8k`) -/
theorem init_body (a b k i0 fuel : Nat) (s : HCIcnbit_init.St) (hab : b ≤ a) (hbk : b ≤ 8 * k + 8) (hi0 : i0 < 16)
    (hi : s.i = (i0 : Int)) (htop : s.top_bit = 8 * (k : Int) + 7) (hbot : s.bot_bit = 8 * (k : Int))
    (hmt : s.mask_top = (a : Int)) (hmb : s.mask_bot = (b : Int))
    (hlo : s.nbit_mask_info_offset.length = 16) (hll : s.nbit_mask_info_length.length = 16) (hlm : s.nbit_mask_info_mask.length = 16)
    (hzo : s.nbit_mask_info_offset.getD i0 0 = 0) (hzl : s.nbit_mask_info_length.getD i0 0 = 0) (hzm : s.nbit_mask_info_mask.getD i0 0 = 0)
    (hub : s.ub = false) (hdone : s.done = false) (hbrk : s.brk = false) (hcnt : s.cnt = false) :
    let s' := HCIcnbit_init.loop0.body fuel s
    let m := (maskStep a b (8 * k + 7) (8 * k)).1
    let br := (maskStep a b (8 * k + 7) (8 * k)).2
    s' = { s with nbit_mask_info_offset := s.nbit_mask_info_offset.set i0 (m.offset : Int),
                  nbit_mask_info_length := s.nbit_mask_info_length.set i0 (m.length : Int),
                  nbit_mask_info_mask := s.nbit_mask_info_mask.set i0 (m.mask : Int),
                  brk := br, i := if br then s.i else s.i + 1, top_bit := if br then s.top_bit else s.top_bit - 8,
                  bot_bit := if br then s.bot_bit else s.bot_bit - 8 } := by
  obtain ⟨bits, top_bit, bot_bit, mask_top, mask_bot, i, seek, buf_pos, buf_len, nt_pos, offset, fill, nt_size, moff, mlen, mbuf, offs, lens, masks,
    ub, oof, ret, done, brk, cnt⟩ := s
  simp only at hi htop hbot hmt hmb hlo hll hlm hzo hzl hzm hub hdone hbrk hcnt
  subst hi htop hbot hmt hmb hub hdone hbrk hcnt
  have h9 : mask_arr8.length = 9 := rfl
  have hi0' : (i0 : Int) < 16 := by omega
  unfold maskStep
  by_cases h1 : a ≥ 8 * k + 7
  · have h1' : 8 * (k : Int) + 7 ≤ (a : Int) := by omega
    by_cases h2 : b ≤ 8 * k
    · have h2' : (b : Int) ≤ 8 * (k : Int) := by omega
      simp [-List.getD_eq_getElem?_getD, HCIcnbit_init.loop0.body, HCIcnbit_init.chk, h1, h1', h2, h2', hlo, hll, hlm, hi0, hi0', h9, arr8,
        HCIcnbit_init.St.set_nbit_mask_info_offset, HCIcnbit_init.St.set_nbit_mask_info_length, HCIcnbit_init.St.set_nbit_mask_info_mask,
        HCIcnbit_init.St.set_i, HCIcnbit_init.St.set_brk, HCIcnbit_init.St.set_cnt, HCIcnbit_init.St.set_top_bit, HCIcnbit_init.St.set_bot_bit]
    · have h2' : ¬ ((b : Int) ≤ 8 * (k : Int)) := by omega
      have e : (8 * (k : Int) + 7 - (b : Int) + 1) = ((8 * k + 7 + 1 - b : Nat) : Int) := by omega
      have e8 : (8 : Int) - ((8 * k + 7 + 1 - b : Nat) : Int) = ((8 - (8 * k + 7 + 1 - b) : Nat) : Int) := by omega
      simp [-List.getD_eq_getElem?_getD, HCIcnbit_init.loop0.body, HCIcnbit_init.chk, h1, h1', h2, h2', hlo, hll, hlm, hi0, hi0', h9, arr8, e, e8, Int.shiftLeft_eq,
        HCIcnbit_init.St.set_nbit_mask_info_offset, HCIcnbit_init.St.set_nbit_mask_info_length, HCIcnbit_init.St.set_nbit_mask_info_mask,
        HCIcnbit_init.St.set_i, HCIcnbit_init.St.set_brk, HCIcnbit_init.St.set_cnt, HCIcnbit_init.St.set_top_bit, HCIcnbit_init.St.set_bot_bit]
      omega
  · have h1' : ¬ (8 * (k : Int) + 7 ≤ (a : Int)) := by omega
    by_cases h3 : a ≥ 8 * k
    · have h3' : 8 * (k : Int) ≤ (a : Int) := by omega
      have ea : (a : Int) - 8 * (k : Int) = ((a - 8 * k : Nat) : Int) := by omega
      by_cases h4 : b < 8 * k
      · have h4' : (b : Int) < 8 * (k : Int) := by omega
        simp [-List.getD_eq_getElem?_getD, HCIcnbit_init.loop0.body, HCIcnbit_init.chk, h1, h1', h3, h3', h4, h4', hlo, hll, hlm, hi0, hi0', h9, arr8, ea,
        HCIcnbit_init.St.set_nbit_mask_info_offset, HCIcnbit_init.St.set_nbit_mask_info_length, HCIcnbit_init.St.set_nbit_mask_info_mask,
        HCIcnbit_init.St.set_i, HCIcnbit_init.St.set_brk, HCIcnbit_init.St.set_cnt, HCIcnbit_init.St.set_top_bit, HCIcnbit_init.St.set_bot_bit]
        omega
      · have h4' : ¬ ((b : Int) < 8 * (k : Int)) := by omega
        have eb : (a : Int) - (b : Int) + 1 = ((a - b + 1 : Nat) : Int) := by omega
        have ec : (b : Int) - 8 * (k : Int) = ((b - 8 * k : Nat) : Int) := by omega
        simp [-List.getD_eq_getElem?_getD, HCIcnbit_init.loop0.body, HCIcnbit_init.chk, h1, h1', h3, h3', h4, h4', hlo, hll, hlm, hi0, hi0', h9, arr8, ea, eb, ec,
          Int.shiftLeft_eq,
        HCIcnbit_init.St.set_nbit_mask_info_offset, HCIcnbit_init.St.set_nbit_mask_info_length, HCIcnbit_init.St.set_nbit_mask_info_mask,
        HCIcnbit_init.St.set_i, HCIcnbit_init.St.set_brk, HCIcnbit_init.St.set_cnt, HCIcnbit_init.St.set_top_bit, HCIcnbit_init.St.set_bot_bit]
        omega
    · have h3' : ¬ (8 * (k : Int) ≤ (a : Int)) := by omega
      simp [-List.getD_eq_getElem?_getD, HCIcnbit_init.loop0.body, HCIcnbit_init.chk, h1, h1', h3, h3', hlo, hll, hlm, hi0, hi0', h9, arr8,
        set_zero_of_getD hzo, set_zero_of_getD hzl, set_zero_of_getD hzm,
        HCIcnbit_init.St.set_nbit_mask_info_offset, HCIcnbit_init.St.set_nbit_mask_info_length, HCIcnbit_init.St.set_nbit_mask_info_mask,
        HCIcnbit_init.St.set_i, HCIcnbit_init.St.set_brk, HCIcnbit_init.St.set_cnt, HCIcnbit_init.St.set_top_bit, HCIcnbit_init.St.set_bot_bit]

theorem maskLoop_done (a b : Nat) : ∀ (k t o : Nat), maskLoop a b k t o true = List.replicate k {} := by
  intro k
  induction k with
  | zero => intros; rfl
  | succ k ih => intro t o; simp [maskLoop, ih, List.replicate_succ]

theorem maskStep_nobreak (a b k : Nat) (hab : b ≤ a) (h : (maskStep a b (8 * k + 7) (8 * k)).2 = false) : b ≤ 8 * k := by
  unfold maskStep at h
  split at h
  · split at h
    · omega
    · simp at h
  · split at h
    · split at h
      · omega
      · simp at h
    · omega

/-- fields the loops of `HCIcnbit_init` do not touch -/
def Keep (s s' : HCIcnbit_init.St) : Prop :=
  s'.ub = s.ub ∧ s'.oof = s.oof ∧ s'.done = s.done ∧ s'.cnt = s.cnt ∧ s'.ret = s.ret ∧ s'.nbit_buf_pos = s.nbit_buf_pos ∧
  s'.nbit_buf_len = s.nbit_buf_len ∧ s'.nbit_nt_pos = s.nbit_nt_pos ∧ s'.nbit_offset = s.nbit_offset ∧ s'.nbit_fill_one = s.nbit_fill_one ∧
  s'.nbit_nt_size = s.nbit_nt_size ∧ s'.mask_top = s.mask_top ∧ s'.mask_bot = s.mask_bot

theorem Keep.refl (s : HCIcnbit_init.St) : Keep s s := ⟨rfl, rfl, rfl, rfl, rfl, rfl, rfl, rfl, rfl, rfl, rfl, rfl, rfl⟩
theorem Keep.trans {a b c : HCIcnbit_init.St} (h1 : Keep a b) (h2 : Keep b c) : Keep a c := by
  obtain ⟨a1, a2, a3, a4, a5, a6, a7, a8, a9, a10, a11, a12, a13⟩ := h1
  obtain ⟨b1, b2, b3, b4, b5, b6, b7, b8, b9, b10, b11, b12, b13⟩ := h2
  exact ⟨b1.trans a1, b2.trans a2, b3.trans a3, b4.trans a4, b5.trans a5, b6.trans a6, b7.trans a7, b8.trans a8, b9.trans a9, b10.trans a10,
    b11.trans a11, b12.trans a12, b13.trans a13⟩

theorem init_loop0_stop (fuel : Nat) (s : HCIcnbit_init.St) (h : ¬ ((s.i < s.nbit_nt_size) ∧ ¬(s.done ∨ s.brk))) : HCIcnbit_init.loop0 fuel s = s := by
  cases fuel <;> rw [HCIcnbit_init.loop0] <;> simp only [h, if_false]

theorem init_loop0_succ (fuel : Nat) (s : HCIcnbit_init.St) (h : (s.i < s.nbit_nt_size) ∧ ¬(s.done ∨ s.brk)) :
    HCIcnbit_init.loop0 (fuel + 1) s = HCIcnbit_init.loop0 fuel (HCIcnbit_init.loop0.body (fuel + 1) s) := by
  rw [HCIcnbit_init.loop0]; simp [h]

theorem zeros_split {l : List Int} (i k : Nat) (hz : ∀ j, i ≤ j → l.getD j 0 = 0) (hl : i + k ≤ l.length) :
    l = l.take i ++ List.replicate k 0 ++ l.drop (i + k) := by
  apply List.ext_getElem?
  intro j
  by_cases h1 : j < i
  · rw [List.append_assoc, List.getElem?_append_left (by simp; omega), List.getElem?_take]; simp [h1]
  · by_cases h2 : j < i + k
    · rw [List.append_assoc, List.getElem?_append_right (by simp; omega), List.getElem?_append_left (by simp; omega)]
      have := hz j (by omega)
      have hj : j < l.length := by omega
      simp [hj] at this
      simp [List.getElem?_replicate, hj, this]; omega
    · rw [List.getElem?_append_right (by simp; omega), List.getElem?_drop]
      simp only [List.length_append, List.length_take, List.length_replicate]
      congr 1; omega

/-- the first loop of `HCIcnbit_init` from byte `i0` on (`k` bytes left, the current one holding bits `8k-1 .. 8k-8`) is the model's `maskLoop` -/
theorem init_loop0 (a b : Nat) (hab : b ≤ a) : ∀ (k i0 fuel : Nat) (s : HCIcnbit_init.St), k ≤ fuel → i0 + k ≤ 16 → b ≤ 8 * k →
    s.i = (i0 : Int) → s.nbit_nt_size = ((i0 + k : Nat) : Int) → s.top_bit = 8 * (k : Int) - 1 → s.bot_bit = 8 * (k : Int) - 8 →
    s.mask_top = (a : Int) → s.mask_bot = (b : Int) →
    s.nbit_mask_info_offset.length = 16 → s.nbit_mask_info_length.length = 16 → s.nbit_mask_info_mask.length = 16 →
    (∀ j, i0 ≤ j → s.nbit_mask_info_offset.getD j 0 = 0) → (∀ j, i0 ≤ j → s.nbit_mask_info_length.getD j 0 = 0) →
    (∀ j, i0 ≤ j → s.nbit_mask_info_mask.getD j 0 = 0) → s.ub = false → s.done = false → s.brk = false → s.cnt = false →
    let s' := HCIcnbit_init.loop0 fuel s
    let ml := maskLoop a b k (8 * k - 1) (8 * k - 8) false
    Keep s s' ∧ s'.nbit_mask_buf = s.nbit_mask_buf ∧
      s'.nbit_mask_info_offset = s.nbit_mask_info_offset.take i0 ++ ml.map (fun m => (m.offset : Int)) ++ s.nbit_mask_info_offset.drop (i0 + k) ∧
      s'.nbit_mask_info_length = s.nbit_mask_info_length.take i0 ++ ml.map (fun m => (m.length : Int)) ++ s.nbit_mask_info_length.drop (i0 + k) ∧
      s'.nbit_mask_info_mask = s.nbit_mask_info_mask.take i0 ++ ml.map (fun m => (m.mask : Int)) ++ s.nbit_mask_info_mask.drop (i0 + k) := by
  intro k
  induction k with
  | zero =>
    intro i0 fuel s _ _ _ hi hn _ _ _ _ _ _ _ _ _ _ _ _ _ _
    have : ¬ ((s.i < s.nbit_nt_size) ∧ ¬(s.done ∨ s.brk)) := by rw [hi, hn]; simp
    rw [init_loop0_stop fuel s this]
    simp [maskLoop, Keep.refl]
  | succ k ih =>
    intro i0 fuel s hf hik hbk hi hn htop hbot hmt hmb hlo hll hlm hzo hzl hzm hub hdone hbrk hcnt
    cases fuel with
    | zero => omega
    | succ fuel =>
      have hc : (s.i < s.nbit_nt_size) ∧ ¬(s.done ∨ s.brk) := by rw [hi, hn, hdone, hbrk]; simp; omega
      rw [init_loop0_succ fuel s hc]
      have hbody := init_body a b k i0 (fuel + 1) s hab (by omega) (by omega) hi (by rw [htop]; push_cast; omega) (by rw [hbot]; push_cast; omega)
        hmt hmb hlo hll hlm (hzo i0 (Nat.le_refl _)) (hzl i0 (Nat.le_refl _)) (hzm i0 (Nat.le_refl _)) hub hdone hbrk hcnt
      simp only at hbody
      generalize HCIcnbit_init.loop0.body (fuel + 1) s = s1 at hbody
      have e1 : 8 * (k + 1) - 1 = 8 * k + 7 := by omega
      have e2 : 8 * (k + 1) - 8 = 8 * k := by omega
      have e3 : 8 * k + 7 - 8 = 8 * k - 1 := by omega
      simp only [maskLoop, e1, e2, e3, Bool.false_eq_true, if_false]
      generalize hm : maskStep a b (8 * k + 7) (8 * k) = mb at hbody
      obtain ⟨m, br⟩ := mb
      simp only at hbody
      have hk1 : Keep s s1 := by subst hbody; exact Keep.refl s
      have hmbuf : s1.nbit_mask_buf = s.nbit_mask_buf := by subst hbody; rfl
      cases br with
      | true =>
        have hstop : ¬ ((s1.i < s1.nbit_nt_size) ∧ ¬(s1.done ∨ s1.brk)) := by subst hbody; simp
        rw [init_loop0_stop fuel s1 hstop, maskLoop_done]
        refine ⟨hk1, hmbuf, ?_, ?_, ?_⟩
        · subst hbody
          simp only [List.map_cons, List.map_replicate]
          conv => lhs; rw [zeros_split (l := s.nbit_mask_info_offset.set i0 ↑m.offset) (i0 + 1) k
            (fun j hj => by rw [List.getD_eq_getElem?_getD, List.getElem?_set_ne (by omega), ← List.getD_eq_getElem?_getD]; exact hzo j (by omega))
            (by simp; omega)]
          rw [H4.C2L.take_set_succ _ _ _ (by omega), List.drop_set_of_lt (by omega)]
          simp [Nat.add_assoc, Nat.add_comm 1 k]
        · subst hbody
          simp only [List.map_cons, List.map_replicate]
          conv => lhs; rw [zeros_split (l := s.nbit_mask_info_length.set i0 ↑m.length) (i0 + 1) k
            (fun j hj => by rw [List.getD_eq_getElem?_getD, List.getElem?_set_ne (by omega), ← List.getD_eq_getElem?_getD]; exact hzl j (by omega))
            (by simp; omega)]
          rw [H4.C2L.take_set_succ _ _ _ (by omega), List.drop_set_of_lt (by omega)]
          simp [Nat.add_assoc, Nat.add_comm 1 k]
        · subst hbody
          simp only [List.map_cons, List.map_replicate]
          conv => lhs; rw [zeros_split (l := s.nbit_mask_info_mask.set i0 ↑m.mask) (i0 + 1) k
            (fun j hj => by rw [List.getD_eq_getElem?_getD, List.getElem?_set_ne (by omega), ← List.getD_eq_getElem?_getD]; exact hzm j (by omega))
            (by simp; omega)]
          rw [H4.C2L.take_set_succ _ _ _ (by omega), List.drop_set_of_lt (by omega)]
          simp [Nat.add_assoc, Nat.add_comm 1 k]
      | false =>
        have hb8 : b ≤ 8 * k := maskStep_nobreak a b k hab (by rw [hm])
        have key := ih (i0 + 1) fuel s1 (by omega) (by omega) hb8 (by subst hbody; simp [hi]) (by subst hbody; simp [hn]; omega)
          (by subst hbody; simp [htop]; omega) (by subst hbody; simp [hbot]; omega) (by subst hbody; exact hmt) (by subst hbody; exact hmb)
          (by subst hbody; simpa using hlo) (by subst hbody; simpa using hll) (by subst hbody; simpa using hlm)
          (fun j hj => by subst hbody; simp only; rw [List.getD_eq_getElem?_getD, List.getElem?_set_ne (by omega), ← List.getD_eq_getElem?_getD]; exact hzo j (by omega))
          (fun j hj => by subst hbody; simp only; rw [List.getD_eq_getElem?_getD, List.getElem?_set_ne (by omega), ← List.getD_eq_getElem?_getD]; exact hzl j (by omega))
          (fun j hj => by subst hbody; simp only; rw [List.getD_eq_getElem?_getD, List.getElem?_set_ne (by omega), ← List.getD_eq_getElem?_getD]; exact hzm j (by omega))
          (by subst hbody; exact hub) (by subst hbody; exact hdone) (by subst hbody; rfl) (by subst hbody; exact hcnt)
        simp only at key
        obtain ⟨q1, q2, q3, q4, q5⟩ := key
        refine ⟨hk1.trans q1, by rw [q2, hmbuf], ?_, ?_, ?_⟩
        · rw [q3]; subst hbody
          simp only [List.map_cons]
          rw [H4.C2L.take_set_succ _ _ _ (by omega), List.drop_set_of_lt (by omega)]
          simp [Nat.add_assoc, Nat.add_comm 1 k]
        · rw [q4]; subst hbody
          simp only [List.map_cons]
          rw [H4.C2L.take_set_succ _ _ _ (by omega), List.drop_set_of_lt (by omega)]
          simp [Nat.add_assoc, Nat.add_comm 1 k]
        · rw [q5]; subst hbody
          simp only [List.map_cons]
          rw [H4.C2L.take_set_succ _ _ _ (by omega), List.drop_set_of_lt (by omega)]
          simp [Nat.add_assoc, Nat.add_comm 1 k]

/-- `mask_buf[i] &= ~mask` on `int` operands (two's complement), stored back into a `uint8`, for `mask_buf[i] = 0xff` -/
theorem andnot_byte : ∀ m : Nat, m < 256 →
    (if (Int.ofNat (Int.toNat (((255 : Int)) % 4294967296) &&& Int.toNat (((-((m : Int)) - 1)) % 4294967296))) ≥ 2147483648
      then (Int.ofNat (Int.toNat (((255 : Int)) % 4294967296) &&& Int.toNat (((-((m : Int)) - 1)) % 4294967296))) - 4294967296
      else (Int.ofNat (Int.toNat (((255 : Int)) % 4294967296) &&& Int.toNat (((-((m : Int)) - 1)) % 4294967296)))) % 256 =
    ((255 &&& (255 ^^^ (m % 256)) : Nat) : Int) := by decide +kernel

theorem init_loop1_stop (fuel : Nat) (s : HCIcnbit_init.St) (h : ¬ ((s.i < s.nbit_nt_size) ∧ ¬(s.done ∨ s.brk))) : HCIcnbit_init.loop1 fuel s = s := by
  cases fuel <;> rw [HCIcnbit_init.loop1] <;> simp only [h, if_false]

theorem init_loop1_succ (fuel : Nat) (s : HCIcnbit_init.St) (h : (s.i < s.nbit_nt_size) ∧ ¬(s.done ∨ s.brk)) :
    HCIcnbit_init.loop1 (fuel + 1) s = HCIcnbit_init.loop1 fuel (HCIcnbit_init.loop1.body (fuel + 1) s) := by
  rw [HCIcnbit_init.loop1]; simp [h]

theorem init_body1 (m i0 fuel : Nat) (s : HCIcnbit_init.St) (hm : m < 256) (hi0 : i0 < 16) (hi : s.i = (i0 : Int))
    (hlm : s.nbit_mask_info_mask.length = 16) (hlb : s.nbit_mask_buf.length = 16)
    (hmask : s.nbit_mask_info_mask.getD i0 0 = (m : Int)) (hbuf : s.nbit_mask_buf.getD i0 0 = 255) (hub : s.ub = false) :
    HCIcnbit_init.loop1.body fuel s =
      { s with nbit_mask_buf := s.nbit_mask_buf.set i0 ((255 &&& (255 ^^^ (m % 256)) : Nat) : Int), cnt := false, i := s.i + 1 } := by
  obtain ⟨bits, top_bit, bot_bit, mask_top, mask_bot, i, seek, buf_pos, buf_len, nt_pos, offset, fill, nt_size, moff, mlen, mbuf, offs, lens, masks,
    ub, oof, ret, done, brk, cnt⟩ := s
  simp only at hi hlm hlb hmask hbuf hub
  subst hi hub
  have hi0' : (i0 : Int) < 16 := by omega
  have := andnot_byte m hm
  simp only [HCIcnbit_init.loop1.body, HCIcnbit_init.chk, HCIcnbit_init.St.set_nbit_mask_buf, HCIcnbit_init.St.set_cnt, HCIcnbit_init.St.set_i,
    Int.toNat_natCast, hmask, hbuf, this, hlm, hlb]
  simp [hi0']

/-- the second loop of `HCIcnbit_init` (`fill_one`): `mask_buf[i] &= ~mask_info[i].mask` for the bytes `i0 .. i0+|ms|` whose masks are `ms` -/
theorem init_loop1 : ∀ (ms : List Nat) (i0 fuel : Nat) (s : HCIcnbit_init.St), ms.length ≤ fuel → i0 + ms.length ≤ 16 → (∀ m ∈ ms, m < 256) →
    s.i = (i0 : Int) → s.nbit_nt_size = ((i0 + ms.length : Nat) : Int) → s.nbit_mask_info_mask.length = 16 → s.nbit_mask_buf.length = 16 →
    (∀ j, j < ms.length → s.nbit_mask_info_mask.getD (i0 + j) 0 = ((ms.getD j 0 : Nat) : Int)) →
    (∀ j, j < ms.length → s.nbit_mask_buf.getD (i0 + j) 0 = 255) → s.ub = false → s.done = false → s.brk = false →
    let s' := HCIcnbit_init.loop1 fuel s
    s'.ub = false ∧ s'.oof = s.oof ∧ s'.done = false ∧ s'.brk = false ∧ s'.ret = s.ret ∧ s'.nbit_buf_pos = s.nbit_buf_pos ∧
      s'.nbit_buf_len = s.nbit_buf_len ∧ s'.nbit_nt_pos = s.nbit_nt_pos ∧ s'.nbit_offset = s.nbit_offset ∧
      s'.nbit_mask_info_offset = s.nbit_mask_info_offset ∧ s'.nbit_mask_info_length = s.nbit_mask_info_length ∧
      s'.nbit_mask_info_mask = s.nbit_mask_info_mask ∧ (ms ≠ [] → s'.cnt = false) ∧ (ms = [] → s'.cnt = s.cnt) ∧
      s'.nbit_mask_buf = s.nbit_mask_buf.take i0 ++ ms.map (fun m => ((255 &&& (255 ^^^ (m % 256)) : Nat) : Int)) ++ s.nbit_mask_buf.drop (i0 + ms.length) := by
  intro ms
  induction ms with
  | nil =>
    intro i0 fuel s _ _ _ hi hn _ _ _ _ hub hdone hbrk
    have : ¬ ((s.i < s.nbit_nt_size) ∧ ¬(s.done ∨ s.brk)) := by rw [hi, hn]; simp
    rw [init_loop1_stop fuel s this]
    simp [hub, hdone, hbrk]
  | cons m ms ih =>
    intro i0 fuel s hf hik hms hi hn hlm hlb hmask hbuf hub hdone hbrk
    simp only [List.length_cons] at hf hik hn hmask hbuf
    cases fuel with
    | zero => omega
    | succ fuel =>
      have hc : (s.i < s.nbit_nt_size) ∧ ¬(s.done ∨ s.brk) := by rw [hi, hn, hdone, hbrk]; simp; omega
      rw [init_loop1_succ fuel s hc]
      have hbody := init_body1 m i0 (fuel + 1) s (hms m (by simp)) (by omega) hi hlm hlb (by simpa using hmask 0 (by omega))
        (by simpa using hbuf 0 (by omega)) hub
      generalize HCIcnbit_init.loop1.body (fuel + 1) s = s1 at hbody
      have key := ih (i0 + 1) fuel s1 (by omega) (by omega) (fun x hx => hms x (by simp [hx])) (by subst hbody; simp [hi])
        (by subst hbody; simp [hn]; omega) (by subst hbody; exact hlm) (by subst hbody; simpa using hlb)
        (fun j hj => by subst hbody; simpa [Nat.add_assoc, Nat.add_comm 1 j] using hmask (j + 1) (by omega))
        (fun j hj => by
          subst hbody; simp only
          rw [List.getD_eq_getElem?_getD, List.getElem?_set_ne (by omega), ← List.getD_eq_getElem?_getD]
          simpa [Nat.add_assoc, Nat.add_comm 1 j] using hbuf (j + 1) (by omega))
        (by subst hbody; exact hub) (by subst hbody; exact hdone) (by subst hbody; exact hbrk)
      simp only at key
      obtain ⟨q1, q2, q3, q4, q5, q6, q7, q8, q9, q10, q11, q12, q13, q14, q15⟩ := key
      refine ⟨q1, by rw [q2]; subst hbody; rfl, q3, q4, by rw [q5]; subst hbody; rfl, by rw [q6]; subst hbody; rfl, by rw [q7]; subst hbody; rfl,
        by rw [q8]; subst hbody; rfl, by rw [q9]; subst hbody; rfl, by rw [q10]; subst hbody; rfl, by rw [q11]; subst hbody; rfl,
        by rw [q12]; subst hbody; rfl, ?_, by simp, ?_⟩
      · intro _
        by_cases hnil : ms = []
        · rw [q14 hnil]; subst hbody; rfl
        · exact q13 hnil
      · rw [q15]; subst hbody
        simp only [List.map_cons]
        rw [H4.C2L.take_set_succ _ _ _ (by omega), List.drop_set_of_lt (by omega)]
        simp [Nat.add_assoc, Nat.add_comm 1 ms.length]

/-- C truth value of a model flag -/
def b2i (b : Bool) : Int := if b then 1 else 0

def tailA (s : HCIcnbit_init.St) : HCIcnbit_init.St := { s with brk := false }
def tailB (fuel : Nat) (s : HCIcnbit_init.St) : HCIcnbit_init.St :=
  if s.done ∨ s.brk ∨ s.cnt then s else
    if s.nbit_fill_one = 1 then { HCIcnbit_init.loop1 fuel { s with i := 0 } with brk := false } else s
def tailC (s : HCIcnbit_init.St) : HCIcnbit_init.St := if s.done ∨ s.brk ∨ s.cnt then s else { s with ret := 0, done := true }
theorem initTail_eq (fuel : Nat) (s : HCIcnbit_init.St) : initTail fuel s = tailC (tailB fuel (tailA s)) := rfl

theorem length_maskInfos' (c : Cfg) : (maskInfos c).length = c.ntSize := length_maskInfos c

theorem init_main (c : Cfg) (hr : InRange c) (fuel : Nat) (hf : c.ntSize ≤ fuel) (bp bl np off : Int) (mbuf offs lens masks : List Int)
    (hmb : mbuf.length = 16) (ho : offs.length = 16) (hl : lens.length = 16) (hm : masks.length = 16) (seek : Int) (hseek : seek ≠ -1) :
    let s := HCIcnbit_init fuel bp bl np off mbuf (b2i c.fillOne) c.ntSize c.maskOff c.maskLen offs lens masks seek
    s.ub = false ∧ s.oof = false ∧ s.ret = 0 ∧ s.nbit_buf_pos = 1024 ∧ s.nbit_buf_len = 0 ∧ s.nbit_nt_pos = 0 ∧ s.nbit_offset = 0 ∧
      s.nbit_mask_info_offset = (maskInfos c).map (fun m => (m.offset : Int)) ++ List.replicate (16 - c.ntSize) 0 ∧
      s.nbit_mask_info_length = (maskInfos c).map (fun m => (m.length : Int)) ++ List.replicate (16 - c.ntSize) 0 ∧
      s.nbit_mask_info_mask = (maskInfos c).map (fun m => (m.mask : Int)) ++ List.replicate (16 - c.ntSize) 0 ∧
      s.nbit_mask_buf = (maskBuf c).map (fun (x : Nat) => (x : Int)) ++ mbuf.drop c.ntSize := by
  intro s
  obtain ⟨r1, r2, r3, r4⟩ := hr
  have c16 : NBIT_MASK_SIZE = 16 := rfl
  rw [c16] at r1
  have hs : s = initTail fuel (HCIcnbit_init.loop0 fuel (initStart (b2i c.fillOne) c.ntSize c.maskOff c.maskLen mbuf offs lens masks seek)) :=
    init_unfold fuel bp bl np off mbuf _ _ _ _ offs lens masks seek hseek
  generalize hs0 : initStart (b2i c.fillOne) c.ntSize c.maskOff c.maskLen mbuf offs lens masks seek = s0 at hs
  have hmod : (c.ntSize : Int) % 18446744073709551616 = (c.ntSize : Int) := by omega
  have f_i : s0.i = ((0 : Nat) : Int) := by subst hs0; rfl
  have f_n : s0.nbit_nt_size = ((0 + c.ntSize : Nat) : Int) := by subst hs0; simp [initStart]
  have f_top : s0.top_bit = 8 * (c.ntSize : Int) - 1 := by subst hs0; simp only [initStart]; omega
  have f_bot : s0.bot_bit = 8 * (c.ntSize : Int) - 8 := by subst hs0; simp only [initStart]; omega
  have f_mt : s0.mask_top = (c.maskOff : Int) := by subst hs0; rfl
  have f_mb : s0.mask_bot = ((c.maskOff + 1 - c.maskLen : Nat) : Int) := by subst hs0; simp only [initStart]; omega
  have f_lo : s0.nbit_mask_info_offset.length = 16 := by subst hs0; simp [initStart, ho]
  have f_ll : s0.nbit_mask_info_length.length = 16 := by subst hs0; simp [initStart, hl]
  have f_lm : s0.nbit_mask_info_mask.length = 16 := by subst hs0; simp [initStart, hm]
  have f_zo : ∀ j, 0 ≤ j → s0.nbit_mask_info_offset.getD j 0 = 0 := by
    intro j _; subst hs0; simp [initStart, List.getElem?_replicate]; split <;> simp
  have f_zl : ∀ j, 0 ≤ j → s0.nbit_mask_info_length.getD j 0 = 0 := by
    intro j _; subst hs0; simp [initStart, List.getElem?_replicate]; split <;> simp
  have f_zm : ∀ j, 0 ≤ j → s0.nbit_mask_info_mask.getD j 0 = 0 := by
    intro j _; subst hs0; simp [initStart, List.getElem?_replicate]; split <;> simp
  have f_ub : s0.ub = false := by subst hs0; simp [initStart, hmod, hmb]; omega
  have f_done : s0.done = false := by subst hs0; rfl
  have f_brk : s0.brk = false := by subst hs0; rfl
  have f_cnt : s0.cnt = false := by subst hs0; rfl
  have key := init_loop0 c.maskOff (c.maskOff + 1 - c.maskLen) (by omega) c.ntSize 0 fuel s0 hf (by omega) (by omega) f_i f_n f_top f_bot f_mt f_mb
    f_lo f_ll f_lm f_zo f_zl f_zm f_ub f_done f_brk f_cnt
  simp only at key
  have hml : maskLoop c.maskOff (c.maskOff + 1 - c.maskLen) c.ntSize (8 * c.ntSize - 1) (8 * c.ntSize - 8) false = maskInfos c := by
    unfold maskInfos; rw [Nat.mul_comm c.ntSize 8]
  rw [hml] at key
  generalize HCIcnbit_init.loop0 fuel s0 = s1 at key hs
  obtain ⟨⟨k1, k2, k3, k4, k5, k6, k7, k8, k9, k10, k11, k12, k13⟩, kb, ko, kl, km⟩ := key
  have g_bp : s0.nbit_buf_pos = 1024 := by subst hs0; rfl
  have g_bl : s0.nbit_buf_len = 0 := by subst hs0; rfl
  have g_np : s0.nbit_nt_pos = 0 := by subst hs0; rfl
  have g_off : s0.nbit_offset = 0 := by subst hs0; rfl
  have g_oof : s0.oof = false := by subst hs0; rfl
  have g_fill : s0.nbit_fill_one = b2i c.fillOne := by subst hs0; rfl
  have g_mbuf : s0.nbit_mask_buf = List.replicate c.ntSize (if c.fillOne then 255 else 0) ++ mbuf.drop c.ntSize := by
    subst hs0; simp only [initStart, hmod, Int.toNat_natCast, b2i]; cases c.fillOne <;> simp
  have g_o : s0.nbit_mask_info_offset.drop (0 + c.ntSize) = List.replicate (16 - c.ntSize) 0 := by
    subst hs0; simp only [initStart, ho, List.drop_replicate, Nat.zero_add]
  have g_l : s0.nbit_mask_info_length.drop (0 + c.ntSize) = List.replicate (16 - c.ntSize) 0 := by
    subst hs0; simp only [initStart, hl, List.drop_replicate, Nat.zero_add]
  have g_m : s0.nbit_mask_info_mask.drop (0 + c.ntSize) = List.replicate (16 - c.ntSize) 0 := by
    subst hs0; simp only [initStart, hm, List.drop_replicate, Nat.zero_add]
  rw [g_o, List.take_zero, List.nil_append] at ko
  rw [g_l, List.take_zero, List.nil_append] at kl
  rw [g_m, List.take_zero, List.nil_append] at km
  rw [f_ub] at k1; rw [g_oof] at k2; rw [f_done] at k3; rw [f_cnt] at k4; rw [g_bp] at k6; rw [g_bl] at k7; rw [g_np] at k8; rw [g_off] at k9
  rw [g_fill] at k10; rw [g_mbuf] at kb
  rw [initTail_eq] at hs
  have a_done : (tailA s1).done = false := k3
  have a_brk : (tailA s1).brk = false := rfl
  have a_cnt : (tailA s1).cnt = false := k4
  have hguard : ¬ ((tailA s1).done ∨ (tailA s1).brk ∨ (tailA s1).cnt) := by rw [a_done, a_brk, a_cnt]; simp
  cases hfill : c.fillOne with
  | false =>
    rw [hfill] at k10 kb
    have hne : ¬ ((tailA s1).nbit_fill_one = 1) := by show ¬ (s1.nbit_fill_one = 1); rw [k10]; decide
    have hB : tailB fuel (tailA s1) = tailA s1 := by unfold tailB; rw [if_neg hguard, if_neg hne]
    have hC : tailC (tailA s1) = { tailA s1 with ret := 0, done := true } := by unfold tailC; rw [if_neg hguard]
    rw [hB, hC] at hs
    rw [hs]
    refine ⟨k1, k2, rfl, k6, k7, k8, k9, ko, kl, km, ?_⟩
    show s1.nbit_mask_buf = _
    rw [kb]; unfold maskBuf
    simp only [hfill, Bool.false_eq_true, if_false, List.map_map]
    rw [← length_maskInfos c, ← List.map_const']; rfl
  | true =>
    rw [hfill] at k10 kb
    have he : (tailA s1).nbit_fill_one = 1 := by show s1.nbit_fill_one = 1; rw [k10]; rfl
    have hB : tailB fuel (tailA s1) = { HCIcnbit_init.loop1 fuel { tailA s1 with i := 0 } with brk := false } := by
      unfold tailB; rw [if_neg hguard, if_pos he]
    have hgood := maskInfos_goodEntry c r3 r4
    have key1 := init_loop1 ((maskInfos c).map (·.mask)) 0 fuel { tailA s1 with i := 0 } (by simpa [length_maskInfos] using hf)
      (by simp [length_maskInfos]; omega) (by intro m hm; obtain ⟨x, hx, rfl⟩ := List.mem_map.mp hm; exact (hgood x hx).2.2) rfl
      (by show s1.nbit_nt_size = _; simp [length_maskInfos, k11, f_n]) (by show s1.nbit_mask_info_mask.length = 16; simp [km, length_maskInfos]; omega)
      (by show s1.nbit_mask_buf.length = 16; simp [kb, hmb]; omega)
      (by
        intro j hj
        simp only [List.length_map, length_maskInfos] at hj
        show s1.nbit_mask_info_mask.getD (0 + j) 0 = _
        simp only [km, Nat.zero_add]
        rw [List.getD_eq_getElem?_getD, List.getElem?_append_left (by simp [length_maskInfos]; exact hj)]
        simp [List.getD_eq_getElem?_getD, List.getElem?_map]
        cases (maskInfos c)[j]? <;> simp)
      (by
        intro j hj
        simp only [List.length_map, length_maskInfos] at hj
        show s1.nbit_mask_buf.getD (0 + j) 0 = _
        simp only [kb, Nat.zero_add]
        rw [List.getD_eq_getElem?_getD, List.getElem?_append_left (by simp; exact hj)]
        simp [List.getElem?_replicate, hj])
      k1 k3 rfl
    simp only at key1
    generalize HCIcnbit_init.loop1 fuel { tailA s1 with i := 0 } = s2 at key1 hB
    obtain ⟨q1, q2, q3, q4, q5, q6, q7, q8, q9, q10, q11, q12, q13, q14, q15⟩ := key1
    have hcnt2 : s2.cnt = false := by
      by_cases hnil : (maskInfos c).map (·.mask) = []
      · rw [q14 hnil]; exact k4
      · exact q13 hnil
    have hguard2 : ¬ (({ s2 with brk := false } : HCIcnbit_init.St).done ∨ ({ s2 with brk := false } : HCIcnbit_init.St).brk ∨ ({ s2 with brk := false } : HCIcnbit_init.St).cnt) := by
      show ¬ (s2.done ∨ false = true ∨ s2.cnt); rw [q3, hcnt2]; simp
    have hC : tailC { s2 with brk := false } = { ({ s2 with brk := false } : HCIcnbit_init.St) with ret := 0, done := true } := by unfold tailC; rw [if_neg hguard2]
    rw [hB, hC] at hs
    rw [hs]
    refine ⟨q1, by show s2.oof = false; rw [q2]; exact k2, rfl, by show s2.nbit_buf_pos = 1024; rw [q6]; exact k6, by show s2.nbit_buf_len = 0; rw [q7]; exact k7,
      by show s2.nbit_nt_pos = 0; rw [q8]; exact k8, by show s2.nbit_offset = 0; rw [q9]; exact k9,
      by show s2.nbit_mask_info_offset = _; rw [q10]; exact ko, by show s2.nbit_mask_info_length = _; rw [q11]; exact kl,
      by show s2.nbit_mask_info_mask = _; rw [q12]; exact km, ?_⟩
    show s2.nbit_mask_buf = _
    rw [q15]
    show List.take 0 s1.nbit_mask_buf ++ _ ++ List.drop (0 + _) s1.nbit_mask_buf = _
    rw [kb]
    unfold maskBuf
    simp [hfill, length_maskInfos, List.map_map]

/-- the tables `HCIcnbit_init` leaves are related to the model's table -/
theorem tabRel_of_init (c : Cfg) (hn : c.ntSize ≤ 16) :
    TabRel c ((maskInfos c).map (fun m => (m.offset : Int)) ++ List.replicate (16 - c.ntSize) 0)
      ((maskInfos c).map (fun m => (m.length : Int)) ++ List.replicate (16 - c.ntSize) 0)
      ((maskInfos c).map (fun m => (m.mask : Int)) ++ List.replicate (16 - c.ntSize) 0) := by
  have c16 : NBIT_MASK_SIZE = 16 := rfl
  refine ⟨by simp [length_maskInfos, c16]; omega, by simp [length_maskInfos, c16]; omega, by simp [length_maskInfos, c16]; omega, by omega, ?_⟩
  intro j hj
  have hlt : j < (maskInfos c).length := by rw [length_maskInfos]; exact hj
  have hmi : mi c j = (maskInfos c)[j] := by simp [mi, List.getD, hlt]
  refine ⟨?_, ?_, ?_⟩ <;>
  · rw [List.getD_eq_getElem?_getD, List.getElem?_append_left (by simp; exact hlt), hmi]
    simp [hlt]

end H4.Lemmas.C05NBitFn
