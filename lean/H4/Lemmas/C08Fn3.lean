import H4.Gen.Fn.Vgp3
import H4.VGroup
import H4.Lemmas.C2L
import H4.Lemmas.C08Fn
/-! Lemmas for `H4.Props.C08Fn3`: `vunpackvg` of `hdf/src/vgp.c`, as TRANSLATED from the C text (`H4.Gen.Fn.Vgp3`, regenerated
    on every run), against the hand-written reader `H4.VGroup.vunpackvg`.

    Part 1 (this file): the generated definition restated as a composition of phases built from a few combinators (byte load
    with two's-complement `&`/`|`, `UINT16DECODE` into a scalar or an array cell, the name/class block with `malloc` and
    `HIstrncpy`, `UINT32DECODE`, `INT32DECODE`); the restatement is checked against the generated text by `kernel_rfl`
    (`vunpackvg_phases`), so a change of the C text breaks it.  Then the value lemmas of the bit operations.  Core only. -/
set_option linter.unusedSimpArgs false
set_option linter.unusedVariables false
namespace H4.Lemmas.C08Fn3
open H4 H4.VGroup H4.Gen.Hdf H4.Gen.Fn.Vgp3 H4.C2L
open H4.Lemmas.C08Fn (bytesI bytesI_length bytesI_nil bytesI_cons bytesI_append)

abbrev St := vunpackvg.St

/-! ## 1. the generated text, restated -/

/-- `a & b` on `int` operands as the translator writes it (two's complement at 32 bits, result mapped back to `int`) -/
def andS (a b : Int) : Int :=
  (if (Int.ofNat (Int.toNat ((a) % 4294967296) &&& Int.toNat ((b) % 4294967296))) ≥ 2147483648 then (Int.ofNat (Int.toNat ((a) % 4294967296) &&& Int.toNat ((b) % 4294967296))) - 4294967296 else (Int.ofNat (Int.toNat ((a) % 4294967296) &&& Int.toNat ((b) % 4294967296))))

/-- `a | b` on `int` operands -/
def orS (a b : Int) : Int :=
  (if (Int.ofNat (Int.toNat ((a) % 4294967296) ||| Int.toNat ((b) % 4294967296))) ≥ 2147483648 then (Int.ofNat (Int.toNat ((a) % 4294967296) ||| Int.toNat ((b) % 4294967296))) - 4294967296 else (Int.ofNat (Int.toNat ((a) % 4294967296) ||| Int.toNat ((b) % 4294967296))))

/-- `a & b` on `unsigned` operands -/
def andU (a b : Int) : Int := (Int.ofNat (Int.toNat ((a) % 4294967296) &&& Int.toNat ((b) % 4294967296)))

/-- `a | b` on `unsigned` operands -/
def orU (a b : Int) : Int := (Int.ofNat (Int.toNat ((a) % 4294967296) ||| Int.toNat ((b) % 4294967296)))

/-- `*bb` -/
def cur (s : St) : Int := (s.buf.getD (Int.toNat (s.bb)) 0)

/-- the bounds check of a load through `bb` -/
def rdchk (s : St) : St := vunpackvg.chk s (0 ≤ s.bb ∧ s.bb < s.buf.length)

/-- `bb++` -/
def inc (s : St) : St :=
  let e0 : Int := (s.bb + 1)
  vunpackvg.St.set_bb s (e0)

/-- `UINT16DECODE(bb, x)`: `x = (uint16)((*bb & 0xff) << 8); bb++; x |= (uint16)(*bb & 0xff); bb++;` where `x` is read with `get`
    and stored with `set`; `pre` is the bounds check of `x` when it is an array cell -/
def dec16g (s : St) (pre : St → St) (get : St → Int) (set : St → Int → St) : St :=
  have s : St := rdchk s
  have s : St := vunpackvg.chk s ((0 : Int) ≤ (andS (cur s) (255)) ∧ (0 : Int) ≤ 8 ∧ 8 < (32 : Int))
  have s : St := pre s
  have s : St := set s (((((andS (cur s) (255)) * 2 ^ Int.toNat (8))) % 65536))
  have s : St := inc s
  have s : St := rdchk s
  have s : St := pre s
  have s : St := set s ((((orS (get s) ((((andS (cur s) (255))) % 65536)))) % 65536))
  have s : St := inc s
  s

/-- `UINT16DECODE(bb, uint16var)` -/
def dec16v (s : St) : St := dec16g s (fun s => s) (·.uint16var) vunpackvg.St.set_uint16var

/-- `UINT16DECODE(bb, reg[idx])` -/
def dec16a (s : St) (idx : St → Int) (reg : St → List Int) (setreg : St → List Int → St) : St :=
  dec16g s (fun s => vunpackvg.chk s (0 ≤ idx s ∧ idx s < (reg s).length)) (fun s => ((reg s).getD (Int.toNat (idx s)) 0))
    (fun s v => setreg s ((reg s).set (Int.toNat (idx s)) v))

/-- `ret_value = SUCCEED; bb = &buf[len - 5];` -/
def phPre0 (s : St) : St :=
  have s : St := vunpackvg.St.set_ret_value s (0)
  have s : St := vunpackvg.St.set_bb s ((s.len - 5))
  s

/-- `UINT16DECODE(bb, uint16var); vg->version = (int16)uint16var;` -/
def phVer (s : St) : St :=
  have s : St := dec16v s
  have s : St := vunpackvg.St.set_vg_version s ((((s.uint16var) + 32768) % 65536 - 32768))
  s

/-- `UINT16DECODE(bb, uint16var); vg->more = (int16)uint16var; bb = &buf[0];` -/
def phMore (s : St) : St :=
  have s : St := dec16v s
  have s : St := vunpackvg.St.set_vg_more s ((((s.uint16var) + 32768) % 65536 - 32768))
  have s : St := vunpackvg.St.set_bb s (0)
  s

/-- version and more from the end of the record -/
def phPre (s : St) : St := phMore (phVer (phPre0 s))

/-- statements behind a possible `goto done` -/
def guard (s : St) (f : St → St) : St := if s.done ∨ s.gto then s else f s

/-- `UINT16DECODE(bb, vg->nvelt); vg->msize = …; vg->tag = malloc(…); vg->ref = malloc(…); if (tag == NULL || ref == NULL) HGOTO_ERROR` -/
def phA (s : St) : St :=
  have s : St := dec16g s (fun s => s) (·.vg_nvelt) vunpackvg.St.set_vg_nvelt
  have s : St := vunpackvg.St.set_vg_msize s ((if (s.vg_nvelt > ((64) % 4294967296)) then s.vg_nvelt else 64))
  have s : St := vunpackvg.St.set_vg_tag s (if ((((((s.vg_msize) % 18446744073709551616) * 2)) % 18446744073709551616) > 9223372036854775807) then [] else List.replicate (Int.toNat (Int.tdiv (((((s.vg_msize) % 18446744073709551616) * 2)) % 18446744073709551616) 2)) 170)
  have s : St := vunpackvg.St.set_vg_tag_null s (decide ((((((s.vg_msize) % 18446744073709551616) * 2)) % 18446744073709551616) > 9223372036854775807))
  have s : St := vunpackvg.St.set_vg_ref s (if ((((((s.vg_msize) % 18446744073709551616) * 2)) % 18446744073709551616) > 9223372036854775807) then [] else List.replicate (Int.toNat (Int.tdiv (((((s.vg_msize) % 18446744073709551616) * 2)) % 18446744073709551616) 2)) 170)
  have s : St := vunpackvg.St.set_vg_ref_null s (decide ((((((s.vg_msize) % 18446744073709551616) * 2)) % 18446744073709551616) > 9223372036854775807))
  have s : St := if ((s.vg_tag_null = true) ∨ (s.vg_ref_null = true)) then
      have s : St := vunpackvg.St.set_ret_value s ((- 1))
      have s : St := vunpackvg.St.set_gto s (true)
      s
    else
      s
  s

/-- the tags -/
def phTags (fuel : Nat) (s : St) : St :=
  guard s fun s =>
    have s : St := vunpackvg.St.set_u s (((0) % 4294967296))
    have s : St := vunpackvg.loop0 fuel s
    s

/-- the refs -/
def phRefs (fuel : Nat) (s : St) : St :=
  guard s fun s =>
    have s : St := vunpackvg.St.set_u s (((0) % 4294967296))
    have s : St := vunpackvg.loop1 fuel s
    s

/-- `if (uint16var == 0) p = NULL; else { p = malloc(uint16var + 1); HIstrncpy(p, (char *)bb, (int)uint16var + 1); bb += uint16var; }` -/
def pstr (s : St) (setnull : St → Bool → St) (reg : St → List Int) (setreg : St → List Int → St) : St :=
  if (s.uint16var = 0) then
      have s : St := setnull s (true)
      s
    else
      have s : St := setreg s (if ((((s.uint16var + 1)) % 18446744073709551616) > 9223372036854775807) then [] else List.replicate (Int.toNat (Int.tdiv (((s.uint16var + 1)) % 18446744073709551616) 1)) 170)
      have s : St := setnull s (decide ((((s.uint16var + 1)) % 18446744073709551616) > 9223372036854775807))
      have s : St := vunpackvg.chk s ((s.uint16var + 1) = 0 ∨ (0 ≤ s.bb ∧ ((((s.buf.drop (Int.toNat (s.bb))).take (Int.toNat ((s.uint16var + 1) - 1))).takeWhile (· ≠ 0)).length = (Int.toNat ((s.uint16var + 1) - 1)) ∨ (((s.buf.drop (Int.toNat (s.bb))).take (Int.toNat ((s.uint16var + 1) - 1))).takeWhile (· ≠ 0)).length < (s.buf.drop (Int.toNat (s.bb))).length)))
      have s : St := vunpackvg.chk s ((s.uint16var + 1) = 0 ∨ (0 ≤ 0 ∧ 0 + (Int.ofNat (((s.buf.drop (Int.toNat (s.bb))).take (Int.toNat ((s.uint16var + 1) - 1))).takeWhile (· ≠ 0)).length + 1) ≤ (reg s).length))
      have s : St := setreg s (if (s.uint16var + 1) = 0 then (reg s) else ((reg s).take (Int.toNat (0))) ++ ((s.buf.drop (Int.toNat (s.bb))).take (((s.buf.drop (Int.toNat (s.bb))).take (Int.toNat ((s.uint16var + 1) - 1))).takeWhile (· ≠ 0)).length) ++ [0] ++ ((reg s).drop (Int.toNat (0 + (Int.ofNat (((s.buf.drop (Int.toNat (s.bb))).take (Int.toNat ((s.uint16var + 1) - 1))).takeWhile (· ≠ 0)).length + 1)))))
      have s : St := vunpackvg.St.set_bb s ((s.bb + s.uint16var))
      s

/-- the length prefix of name / class -/
def phLen (s : St) : St := guard s dec16v

def phName (s : St) : St := guard s fun s => pstr s vunpackvg.St.set_vg_vgname_null (·.vg_vgname) vunpackvg.St.set_vg_vgname
def phClass (s : St) : St := guard s fun s => pstr s vunpackvg.St.set_vg_vgclass_null (·.vg_vgclass) vunpackvg.St.set_vg_vgclass

def phExtag (s : St) : St := guard s fun s => dec16g s (fun s => s) (·.vg_extag) vunpackvg.St.set_vg_extag
def phExref (s : St) : St := guard s fun s => dec16g s (fun s => s) (·.vg_exref) vunpackvg.St.set_vg_exref

/-- one byte of `UINT32DECODE(bb, vg->flags)` with a shift: `flags (|)= ((uint32)(*bb & 0xff) << k); bb++` -/
def f32sh (s : St) (k : Int) (comb : St → Int → Int) : St :=
  have s : St := rdchk s
  have s : St := vunpackvg.chk s ((0 : Int) ≤ (((andS (cur s) (255))) % 4294967296) ∧ (0 : Int) ≤ k ∧ k < (32 : Int))
  have s : St := vunpackvg.St.set_vg_flags s (comb s (((((((andS (cur s) (255))) % 4294967296) * 2 ^ Int.toNat (k))) % 4294967296)))
  have s : St := inc s
  s

/-- `UINT32DECODE(bb, vg->flags)` -/
def decFlags (s : St) : St :=
  have s : St := f32sh s 24 (fun _ v => v)
  have s : St := f32sh s 16 (fun s v => (orU (s.vg_flags) (v)))
  have s : St := f32sh s 8 (fun s v => (orU (s.vg_flags) (v)))
  have s : St := rdchk s
  have s : St := vunpackvg.St.set_vg_flags s ((orU (s.vg_flags) ((((andS (cur s) (255))) % 4294967296))))
  have s : St := inc s
  s

/-- one of the two middle bytes of `INT32DECODE(bb, vg->nattrs)`: `nattrs |= ((int32)(*bb & 0xff) << k); bb++` -/
def n32sh (s : St) (k : Int) : St :=
  have s : St := rdchk s
  have s : St := vunpackvg.chk s ((0 : Int) ≤ (andS (cur s) (255)) ∧ (0 : Int) ≤ k ∧ k < (32 : Int))
  have s : St := vunpackvg.St.set_vg_nattrs s ((orS (s.vg_nattrs) (((andS (cur s) (255)) * 2 ^ Int.toNat (k)))))
  have s : St := inc s
  s

/-- `INT32DECODE(bb, vg->nattrs)` -/
def decNattrs (s : St) : St :=
  have s : St := rdchk s
  have s : St := vunpackvg.chk s ((0 : Int) ≤ (andU (cur s) (((255) % 4294967296))) ∧ (0 : Int) ≤ 24 ∧ 24 < (32 : Int))
  have s : St := vunpackvg.St.set_vg_nattrs s (((((orU (((((((if ((andS (cur s) (128)) ≠ 0) then (((-(4294967295) - 1)) % 18446744073709551616) else 0)) + 2147483648) % 4294967296 - 2147483648)) % 4294967296)) (((((andU (cur s) (((255) % 4294967296))) * 2 ^ Int.toNat (24))) % 4294967296)))) + 2147483648) % 4294967296 - 2147483648))
  have s : St := inc s
  have s : St := n32sh s 16
  have s : St := n32sh s 8
  have s : St := rdchk s
  have s : St := vunpackvg.St.set_vg_nattrs s ((orS (s.vg_nattrs) ((andS (cur s) (255)))))
  have s : St := inc s
  s

/-- `if (NULL == (vg->alist = malloc((size_t)vg->nattrs * sizeof(vg_attr_t)))) HGOTO_ERROR(DFE_NOSPACE, FAIL);` -/
def allocAlist (s : St) : St :=
  have s : St := vunpackvg.St.set_vg_alist_atag s (if ((((((s.vg_nattrs) % 18446744073709551616) * 4)) % 18446744073709551616) > 9223372036854775807) then [] else List.replicate (Int.toNat (Int.tdiv (((((s.vg_nattrs) % 18446744073709551616) * 4)) % 18446744073709551616) 4)) 170)
  have s : St := vunpackvg.St.set_vg_alist_aref s (if ((((((s.vg_nattrs) % 18446744073709551616) * 4)) % 18446744073709551616) > 9223372036854775807) then [] else List.replicate (Int.toNat (Int.tdiv (((((s.vg_nattrs) % 18446744073709551616) * 4)) % 18446744073709551616) 4)) 170)
  have s : St := vunpackvg.St.set_vg_alist_null s (decide ((((((s.vg_nattrs) % 18446744073709551616) * 4)) % 18446744073709551616) > 9223372036854775807))
  have s : St := if (s.vg_alist_null = true) then
      have s : St := vunpackvg.St.set_ret_value s ((- 1))
      have s : St := vunpackvg.St.set_gto s (true)
      s
    else
      s
  s

/-- the attribute list of a version-4 record with `VG_ATTR_SET` -/
def phAttrs (fuel : Nat) (s : St) : St :=
  have s : St := decNattrs s
  have s : St := allocAlist s
  have s : St := guard s fun s =>
    have s : St := vunpackvg.St.set_i s (0)
    have s : St := vunpackvg.loop2 fuel s
    s
  s

/-- `if (vg->version == VSET_NEW_VERSION) { UINT32DECODE(bb, vg->flags); if (vg->flags & VG_ATTR_SET) { … } }` -/
def phV4 (fuel : Nat) (s : St) : St :=
  guard s fun s =>
    if (s.vg_version = 4) then
        have s : St := decFlags s
        have s : St := if ((andU (s.vg_flags) (((1) % 4294967296))) ≠ 0) then
            have s : St := phAttrs fuel s
            s
          else
            s
        s
      else
        s

/-- the body of `if (vg->version <= 4)` -/
def phBody (fuel : Nat) (s : St) : St :=
  phV4 fuel (phExref (phExtag (phClass (phLen (phName (phLen (phRefs fuel (phTags fuel (phA s)))))))))

/-- `done: return ret_value;` -/
def phEpi (s : St) : St :=
  if s.done then s else
    have s : St := vunpackvg.St.set_gto s (false)
    have s : St := vunpackvg.St.set_ret s (s.ret_value)
    have s : St := vunpackvg.St.set_done s (true)
    s

/-- the initial state: the members of `*vg` as the caller passes them, `buf`, `len` -/
def st0 (version more nvelt msize : Int) (tagnull : Bool) (tag : List Int) (refnull : Bool) (ref : List Int) (nnull : Bool)
    (nstr : List Int) (cnull : Bool) (cstr : List Int) (extag exref flags nattrs : Int) (anull : Bool) (atag aref : List Int)
    (buf : List Int) (len : Int) : St :=
  { vg_version := version, vg_more := more, vg_nvelt := nvelt, vg_msize := msize, vg_tag_null := tagnull, vg_tag := tag,
    vg_ref_null := refnull, vg_ref := ref, vg_vgname_null := nnull, vg_vgname := nstr, vg_vgclass_null := cnull,
    vg_vgclass := cstr, vg_extag := extag, vg_exref := exref, vg_flags := flags, vg_nattrs := nattrs, vg_alist_null := anull,
    vg_alist_atag := atag, vg_alist_aref := aref, buf := buf, len := len }

/-- the translated function, called with NAMED arguments (the translator orders the parameters by first use in the C text) -/
def vunpackvgC (fuel : Nat) (version more nvelt msize : Int) (tagnull : Bool) (tag : List Int) (refnull : Bool) (ref : List Int)
    (nnull : Bool) (nstr : List Int) (cnull : Bool) (cstr : List Int) (extag exref flags nattrs : Int) (anull : Bool)
    (atag aref : List Int) (buf : List Int) (len : Int) : St :=
  Gen.Fn.Vgp3.vunpackvg (fuel := fuel) (vg_version := version) (vg_more := more) (vg_nvelt := nvelt) (vg_msize := msize)
    (vg_tag_null := tagnull) (vg_tag := tag) (vg_ref_null := refnull) (vg_ref := ref) (vg_vgname_null := nnull) (vg_vgname := nstr)
    (vg_vgclass_null := cnull) (vg_vgclass := cstr) (vg_extag := extag) (vg_exref := exref) (vg_flags := flags)
    (vg_nattrs := nattrs) (vg_alist_null := anull) (vg_alist_atag := atag) (vg_alist_aref := aref) (buf := buf) (len := len)

/-- the function body on an arbitrary initial state -/
def run (fuel : Nat) (s : St) : St :=
  have s : St := phPre s
  have s : St := if (s.vg_version ≤ 4) then phBody fuel s else s
  phEpi s

open H4.Lemmas.C08Fn in
/-- **the restatement is the generated definition** (checked by unfolding both sides in the kernel: any change of the translated
    C text that is not a change of these phases breaks it) -/
theorem vunpackvg_phases (fuel : Nat) (version more nvelt msize : Int) (tagnull : Bool) (tag : List Int) (refnull : Bool)
    (ref : List Int) (nnull : Bool) (nstr : List Int) (cnull : Bool) (cstr : List Int) (extag exref flags nattrs : Int)
    (anull : Bool) (atag aref : List Int) (buf : List Int) (len : Int) :
    vunpackvgC fuel version more nvelt msize tagnull tag refnull ref nnull nstr cnull cstr extag exref flags nattrs anull atag aref
      buf len =
    run fuel (st0 version more nvelt msize tagnull tag refnull ref nnull nstr cnull cstr extag exref flags nattrs anull atag aref
      buf len) := by
  kernel_rfl

open H4.Lemmas.C08Fn in
theorem loop0_body (fuel : Nat) (s : St) : vunpackvg.loop0.body fuel s =
    (have s : St := dec16a s (·.u) (·.vg_tag) vunpackvg.St.set_vg_tag
     vunpackvg.St.set_u s ((((s.u + 1)) % 4294967296))) := by kernel_rfl

open H4.Lemmas.C08Fn in
theorem loop1_body (fuel : Nat) (s : St) : vunpackvg.loop1.body fuel s =
    (have s : St := dec16a s (·.u) (·.vg_ref) vunpackvg.St.set_vg_ref
     vunpackvg.St.set_u s ((((s.u + 1)) % 4294967296))) := by kernel_rfl

open H4.Lemmas.C08Fn in
theorem loop2_body (fuel : Nat) (s : St) : vunpackvg.loop2.body fuel s =
    (have s : St := dec16a s (·.i) (·.vg_alist_atag) vunpackvg.St.set_vg_alist_atag
     have s : St := dec16a s (·.i) (·.vg_alist_aref) vunpackvg.St.set_vg_alist_aref
     vunpackvg.St.set_i s ((s.i + 1))) := by kernel_rfl

/-! ## 2. values of the bit operations -/

theorem chk_true (s : St) (c : Prop) [Decidable c] (h : c) : vunpackvg.chk s c = s := by
  simp [vunpackvg.chk, h]

/-- `x & 0xff` on an `int` holding any value (two's complement) -/
theorem andS_255 (x : Int) : andS x 255 = x % 256 := by
  have e : Int.toNat ((255 : Int) % 4294967296) = 255 := by decide
  have h : Int.toNat (x % 4294967296) &&& 255 = Int.toNat (x % 4294967296) % 256 := Nat.and_two_pow_sub_one_eq_mod _ 8
  simp only [andS, e, h, Int.ofNat_eq_natCast]
  split <;> omega

/-- the byte under index `p` (a cell of a `uint8` array holds 0..255; any other content is reduced like `& 0xff` does) -/
def b8 (B : List Int) (p : Nat) : Int := (B.getD p 0) % 256
/-- big-endian 16-bit value at `p` -/
def be16 (B : List Int) (p : Nat) : Int := b8 B p * 256 + b8 B (p + 1)
/-- big-endian 32-bit value at `p` -/
def be32 (B : List Int) (p : Nat) : Int := ((b8 B p * 256 + b8 B (p + 1)) * 256 + b8 B (p + 2)) * 256 + b8 B (p + 3)

theorem b8_range (B : List Int) (p : Nat) : 0 ≤ b8 B p ∧ b8 B p < 256 := by
  simp only [b8]; omega

theorem or_add (i a b : Nat) (hb : b < 2 ^ i) : a * 2 ^ i ||| b = a * 2 ^ i + b := by
  have := Nat.shiftLeft_add_eq_or_of_lt hb a
  simp only [Nat.shiftLeft_eq] at this
  exact this.symm

theorem orS_nat (a b : Nat) (h : a ||| b < 2147483648) (ha : a < 4294967296) (hb : b < 4294967296) :
    orS (a : Int) (b : Int) = ((a ||| b : Nat) : Int) := by
  have e1 : Int.toNat ((a : Int) % 4294967296) = a := by omega
  have e2 : Int.toNat ((b : Int) % 4294967296) = b := by omega
  simp only [orS, e1, e2, Int.ofNat_eq_natCast]
  split <;> omega

theorem orU_nat (a b : Nat) (ha : a < 4294967296) (hb : b < 4294967296) : orU (a : Int) (b : Int) = ((a ||| b : Nat) : Int) := by
  have e1 : Int.toNat ((a : Int) % 4294967296) = a := by omega
  have e2 : Int.toNat ((b : Int) % 4294967296) = b := by omega
  simp only [orU, e1, e2, Int.ofNat_eq_natCast]

/-- the second half of `UINT16DECODE` -/
theorem v16 (x y : Int) (hx : 0 ≤ x ∧ x < 256) (hy : 0 ≤ y ∧ y < 256) :
    (orS (x * 256) (y % 65536)) % 65536 = x * 256 + y := by
  obtain ⟨a, rfl⟩ := Int.eq_ofNat_of_zero_le hx.1
  obtain ⟨b, rfl⟩ := Int.eq_ofNat_of_zero_le hy.1
  have hb : b < 2 ^ 8 := by omega
  have h1 := or_add 8 a b hb
  have e : ((b : Int) % 65536) = ((b : Nat) : Int) := by omega
  have e2 : ((a : Int) * 256) = ((a * 2 ^ 8 : Nat) : Int) := by simp
  rw [e, e2, orS_nat _ _ (by omega) (by omega) (by omega), h1]
  simp; omega

/-! ## 3. the decode combinators on a state without undefined behaviour -/

theorem dec16g_ok (s : St) (pre : St → St) (get : St → Int) (set : St → Int → St) (p : Nat)
    (hub : s.ub = false) (hbb : s.bb = p) (hlen : p + 1 < s.buf.length)
    (sbb : ∀ t v, (set t v).bb = t.bb) (sbuf : ∀ t v, (set t v).buf = t.buf) (sub : ∀ t v, (set t v).ub = t.ub)
    (gs : ∀ v, get (inc (set s v)) = v)
    (hp1 : pre s = s) (hp2 : ∀ v, pre (inc (set s v)) = inc (set s v)) :
    dec16g s pre get set = inc (set (inc (set s (b8 s.buf p * 256))) (be16 s.buf p)) := by
  have r1 : rdchk s = s := chk_true _ _ (by rw [hbb]; omega)
  have c0 : cur s = s.buf.getD p 0 := by simp only [cur, hbb, Int.toNat_natCast]
  have hr := b8_range s.buf p
  have a1 : andS (cur s) 255 = b8 s.buf p := by rw [c0, andS_255]; rfl
  have hi : (b8 s.buf p * 2 ^ Int.toNat 8) % 65536 = b8 s.buf p * 256 := by
    have : (2 : Int) ^ Int.toNat 8 = 256 := by decide
    rw [this]; omega
  simp only [dec16g]
  rw [r1]
  rw [chk_true s _ (by rw [a1]; omega)]
  rw [hp1]
  rw [a1]
  rw [hi]
  generalize hs1 : inc (set s (b8 s.buf p * 256)) = s1
  have b1 : s1.bb = (p : Int) + 1 := by rw [← hs1]; simp only [inc, vunpackvg.St.set_bb, sbb, hbb]
  have u1 : s1.buf = s.buf := by rw [← hs1]; simp only [inc, vunpackvg.St.set_bb, sbuf]
  have ub1 : s1.ub = false := by rw [← hs1]; simp only [inc, vunpackvg.St.set_bb, sub, hub]
  have r2 : rdchk s1 = s1 := chk_true _ _ (by rw [b1, u1]; omega)
  have c1 : cur s1 = s.buf.getD (p + 1) 0 := by
    simp only [cur, b1, u1]; congr 1
  have a2 : andS (cur s1) 255 = b8 s.buf (p + 1) := by rw [c1, andS_255]; rfl
  have g1 : get s1 = b8 s.buf p * 256 := by rw [← hs1, gs]
  have hr2 := b8_range s.buf (p + 1)
  rw [r2, ← hs1, hp2, hs1, a2, g1, v16 _ _ hr hr2]
  rfl

/-- the invariant of the run on a record that the reader accepts: `buf` is the caller's buffer, the cursor is at `p`, no check
    has failed, no loop ran out of fuel, no `goto done` / `return` is pending -/
structure Ok (B : List Int) (s : St) (p : Nat) : Prop where
  buf : s.buf = B
  bb : s.bb = p
  ub : s.ub = false
  oof : s.oof = false
  done : s.done = false
  gto : s.gto = false

/-- an assignment to a field other than the cursor, the buffer and the flags -/
structure Frame (f : St → St) : Prop where
  bb : ∀ t, (f t).bb = t.bb
  buf : ∀ t, (f t).buf = t.buf
  ub : ∀ t, (f t).ub = t.ub
  oof : ∀ t, (f t).oof = t.oof
  done : ∀ t, (f t).done = t.done
  gto : ∀ t, (f t).gto = t.gto

theorem Ok.frame {B s p} (h : Ok B s p) {f : St → St} (hf : Frame f) : Ok B (f s) p :=
  ⟨by rw [hf.buf]; exact h.buf, by rw [hf.bb]; exact h.bb, by rw [hf.ub]; exact h.ub, by rw [hf.oof]; exact h.oof,
   by rw [hf.done]; exact h.done, by rw [hf.gto]; exact h.gto⟩

theorem Ok.move {B s p} (h : Ok B s p) (q : Nat) : Ok B (vunpackvg.St.set_bb s (q : Int)) q :=
  ⟨h.buf, rfl, h.ub, h.oof, h.done, h.gto⟩

/-- `UINT16DECODE(bb, x)` for a scalar `x` (a local or a member of `*vg`) -/
theorem dec16s_ok (get : St → Int) (set : St → Int → St) (hf : ∀ v, Frame (set · v)) (gs : ∀ t v, get (inc (set t v)) = v)
    (ss : ∀ t a b, set (inc (set t a)) b = inc (set t b)) {B s p} (h : Ok B s p) (hl : p + 2 ≤ B.length) :
    dec16g s (fun s => s) get set = vunpackvg.St.set_bb (set s (be16 B p)) ((p + 2 : Nat) : Int) ∧
      Ok B (vunpackvg.St.set_bb (set s (be16 B p)) ((p + 2 : Nat) : Int)) (p + 2) := by
  refine ⟨?_, (h.frame (hf _)).move _⟩
  have hb := h.buf
  subst hb
  rw [dec16g_ok s (fun s => s) get set p h.ub h.bb (by omega) (fun t v => (hf v).bb t) (fun t v => (hf v).buf t)
    (fun t v => (hf v).ub t) (gs s) rfl (fun _ => rfl), ss]
  simp only [inc, vunpackvg.St.set_bb, (hf _).bb, h.bb]
  congr 1

theorem dec16v_ok {B s p} (h : Ok B s p) (hl : p + 2 ≤ B.length) :
    dec16v s = (s.set_uint16var (be16 B p)).set_bb ((p + 2 : Nat) : Int) ∧
      Ok B ((s.set_uint16var (be16 B p)).set_bb ((p + 2 : Nat) : Int)) (p + 2) :=
  dec16s_ok (·.uint16var) vunpackvg.St.set_uint16var (fun _ => ⟨fun _ => rfl, fun _ => rfl, fun _ => rfl, fun _ => rfl, fun _ => rfl, fun _ => rfl⟩)
    (fun _ _ => rfl) (fun _ _ _ => rfl) h hl

/-- `UINT16DECODE(bb, reg[idx])` for a cell of an array that `*vg` owns -/
theorem dec16a_ok (idx : St → Int) (reg : St → List Int) (setreg : St → List Int → St) (hf : ∀ l, Frame (setreg · l))
    (rs : ∀ t l, reg (inc (setreg t l)) = l) (is : ∀ t l, idx (inc (setreg t l)) = idx t)
    (ss : ∀ t a b, setreg (inc (setreg t a)) b = inc (setreg t b)) {B s p} (h : Ok B s p) (hl : p + 2 ≤ B.length)
    (k : Nat) (hi : idx s = k) (hk : k < (reg s).length) :
    dec16a s idx reg setreg = vunpackvg.St.set_bb (setreg s ((reg s).set k (be16 B p))) ((p + 2 : Nat) : Int) ∧
      Ok B (vunpackvg.St.set_bb (setreg s ((reg s).set k (be16 B p))) ((p + 2 : Nat) : Int)) (p + 2) := by
  refine ⟨?_, (h.frame (hf _)).move _⟩
  have hb := h.buf
  subst hb
  have hp1 : vunpackvg.chk s (0 ≤ idx s ∧ idx s < (reg s).length) = s := chk_true _ _ (by rw [hi]; omega)
  rw [dec16a, dec16g_ok s _ _ _ p h.ub h.bb (by omega) (fun t v => (hf _).bb t) (fun t v => (hf _).buf t)
    (fun t v => (hf _).ub t) ?_ hp1 ?_]
  · simp only [rs, is, ss, hi, Int.toNat_natCast, List.set_set]
    simp only [inc, vunpackvg.St.set_bb, (hf _).bb, h.bb]
    congr 1
  · intro v
    simp only [rs, is, hi, Int.toNat_natCast]
    simp [hk]
  · intro v
    exact chk_true _ _ (by simp only [rs, is, hi, List.length_set]; omega)


theorem b8_nat (B : List Int) (p : Nat) : ∃ n : Nat, b8 B p = (n : Int) ∧ n < 256 := by
  have h := b8_range B p
  exact ⟨(b8 B p).toNat, by omega, by omega⟩

theorem cur_b8 {B s p} (h : Ok B s p) : andS (cur s) 255 = b8 B p := by
  rw [andS_255, cur, h.bb, h.buf, Int.toNat_natCast]; rfl

theorem rdchk_ok {B s p} (h : Ok B s p) (hl : p < B.length) : rdchk s = s :=
  chk_true _ _ (by rw [h.bb, h.buf]; omega)

theorem Ok.inc {B s p} (h : Ok B s p) : Ok B (inc s) (p + 1) :=
  ⟨h.buf, by simp only [C08Fn3.inc, vunpackvg.St.set_bb, h.bb]; omega, h.ub, h.oof, h.done, h.gto⟩

theorem or_add' (i hi lo : Nat) (h : hi % 2 ^ i = 0) (hlo : lo < 2 ^ i) : hi ||| lo = hi + lo := by
  have := or_add i (hi / 2 ^ i) lo hlo
  have e : hi / 2 ^ i * 2 ^ i = hi := by
    have := Nat.div_add_mod hi (2 ^ i)
    rw [h, Nat.mul_comm] at this; omega
  rwa [e] at this

/-- one shifted byte of `UINT32DECODE(bb, vg->flags)` -/
theorem f32sh_ok {B s p} (h : Ok B s p) (hl : p < B.length) (k : Int) (hk : k = 8 ∨ k = 16 ∨ k = 24) (comb : St → Int → Int) :
    f32sh s k comb = inc (vunpackvg.St.set_vg_flags s (comb s (b8 B p * 2 ^ k.toNat))) ∧
      Ok B (inc (vunpackvg.St.set_vg_flags s (comb s (b8 B p * 2 ^ k.toNat)))) (p + 1) := by
  refine ⟨?_, Ok.inc ⟨h.buf, h.bb, h.ub, h.oof, h.done, h.gto⟩⟩
  have hr := b8_range B p
  simp only [f32sh]
  rw [rdchk_ok h hl]
  rw [chk_true s _ (by rw [cur_b8 h]; omega)]
  rw [cur_b8 h]
  have e : (b8 B p % 4294967296 * 2 ^ k.toNat) % 4294967296 = b8 B p * 2 ^ k.toNat := by
    rcases hk with rfl | rfl | rfl
    · have : (2 : Int) ^ (8 : Int).toNat = 256 := by decide
      rw [this]; omega
    · have : (2 : Int) ^ (16 : Int).toNat = 65536 := by decide
      rw [this]; omega
    · have : (2 : Int) ^ (24 : Int).toNat = 16777216 := by decide
      rw [this]; omega
  rw [e]

theorem flags_val (a0 a1 a2 a3 : Nat) (h0 : a0 < 256) (h1 : a1 < 256) (h2 : a2 < 256) (h3 : a3 < 256) :
    orU (orU (orU ((a0 : Int) * 16777216) ((a1 : Int) * 65536)) ((a2 : Int) * 256)) ((a3 : Int) % 4294967296) =
      (((a0 : Int) * 256 + a1) * 256 + a2) * 256 + a3 := by
  have w1 : orU ((a0 : Int) * 16777216) ((a1 : Int) * 65536) = ((a0 * 16777216 + a1 * 65536 : Nat) : Int) := by
    have := orU_nat (a0 * 16777216) (a1 * 65536) (by omega) (by omega)
    rw [or_add' 24 _ _ (by omega) (by omega)] at this
    simpa using this
  have w2 : orU ((a0 * 16777216 + a1 * 65536 : Nat) : Int) ((a2 : Int) * 256) = ((a0 * 16777216 + a1 * 65536 + a2 * 256 : Nat) : Int) := by
    have := orU_nat (a0 * 16777216 + a1 * 65536) (a2 * 256) (by omega) (by omega)
    rw [or_add' 16 _ _ (by omega) (by omega)] at this
    simpa using this
  have w3 : orU ((a0 * 16777216 + a1 * 65536 + a2 * 256 : Nat) : Int) ((a3 : Int) % 4294967296) = ((a0 * 16777216 + a1 * 65536 + a2 * 256 + a3 : Nat) : Int) := by
    have e : ((a3 : Int) % 4294967296) = ((a3 : Nat) : Int) := by omega
    have := orU_nat (a0 * 16777216 + a1 * 65536 + a2 * 256) a3 (by omega) (by omega)
    rw [or_add' 8 _ _ (by omega) (by omega)] at this
    rw [e]; simpa using this
  rw [w1, w2, w3]
  omega

/-- `UINT32DECODE(bb, vg->flags)` -/
theorem decFlags_ok {B s p} (h : Ok B s p) (hl : p + 4 ≤ B.length) :
    decFlags s = (s.set_vg_flags (be32 B p)).set_bb ((p + 4 : Nat) : Int) ∧
      Ok B ((s.set_vg_flags (be32 B p)).set_bb ((p + 4 : Nat) : Int)) (p + 4) := by
  refine ⟨?_, ⟨h.buf, rfl, h.ub, h.oof, h.done, h.gto⟩⟩
  obtain ⟨a0, e0, h0⟩ := b8_nat B p
  obtain ⟨a1, e1, h1⟩ := b8_nat B (p + 1)
  obtain ⟨a2, e2, h2⟩ := b8_nat B (p + 2)
  obtain ⟨a3, e3, h3⟩ := b8_nat B (p + 3)
  have p24 : (2 : Int) ^ (24 : Int).toNat = 16777216 := by decide
  have p16 : (2 : Int) ^ (16 : Int).toNat = 65536 := by decide
  have p8 : (2 : Int) ^ (8 : Int).toNat = 256 := by decide
  obtain ⟨q1, o1⟩ := f32sh_ok h (by omega) 24 (Or.inr (Or.inr rfl)) (fun _ v => v)
  obtain ⟨q2, o2⟩ := f32sh_ok o1 (by omega) 16 (Or.inr (Or.inl rfl)) (fun s v => (orU (s.vg_flags) (v)))
  obtain ⟨q3, o3⟩ := f32sh_ok o2 (by omega) 8 (Or.inl rfl) (fun s v => (orU (s.vg_flags) (v)))
  simp only [decFlags]
  rw [q1, q2, q3, rdchk_ok o3 (by omega), cur_b8 o3]
  simp only [inc, vunpackvg.St.set_bb, vunpackvg.St.set_vg_flags, h.bb, be32, e0, e1, e2, e3, p24, p16, p8]
  congr 1
  exact flags_val a0 a1 a2 a3 h0 h1 h2 h3


/-- the `int32` with the bit pattern `u` -/
def S32 (u : Int) : Int := if u ≥ 2147483648 then u - 4294967296 else u

theorem orS_S32 (u v : Nat) (hu : u < 4294967296) (hv : v < 4294967296) : orS (S32 u) (v : Int) = S32 ((u ||| v : Nat) : Int) := by
  have e1 : Int.toNat ((S32 (u : Int)) % 4294967296) = u := by
    simp only [S32]; split <;> omega
  have e2 : Int.toNat ((v : Int) % 4294967296) = v := by omega
  simp only [orS, e1, e2, Int.ofNat_eq_natCast]
  simp only [S32]

theorem andU_255 (x : Int) : andU x ((255 : Int) % 4294967296) = x % 256 := by
  have e : Int.toNat (((255 : Int) % 4294967296) % 4294967296) = 255 := by decide
  have h : Int.toNat (x % 4294967296) &&& 255 = Int.toNat (x % 4294967296) % 256 := Nat.and_two_pow_sub_one_eq_mod _ 8
  simp only [andU, e, h, Int.ofNat_eq_natCast]
  omega

theorem n32sh_ok {B s p} (h : Ok B s p) (hl : p < B.length) (k : Int) (hk : k = 8 ∨ k = 16) :
    n32sh s k = inc (vunpackvg.St.set_vg_nattrs s (orS s.vg_nattrs (b8 B p * 2 ^ k.toNat))) ∧
      Ok B (inc (vunpackvg.St.set_vg_nattrs s (orS s.vg_nattrs (b8 B p * 2 ^ k.toNat)))) (p + 1) := by
  refine ⟨?_, Ok.inc ⟨h.buf, h.bb, h.ub, h.oof, h.done, h.gto⟩⟩
  have hr := b8_range B p
  simp only [n32sh]
  rw [rdchk_ok h hl]
  rw [chk_true s _ (by rw [cur_b8 h]; omega)]
  rw [cur_b8 h]

theorem orS_S32i (u v w : Int) (n m : Nat) (hu : u = n) (hv : v = m) (hn : n < 4294967296) (hm : m < 4294967296)
    (i : Nat) (h1 : n % 2 ^ i = 0) (h2 : m < 2 ^ i) (hw : w = u + v) : orS (S32 u) v = S32 w := by
  subst hu hv hw
  rw [orS_S32 n m hn hm, or_add' i n m h1 h2]
  congr 1

theorem nattrs_val (a0 a1 a2 a3 : Nat) (h0 : a0 < 256) (h1 : a1 < 256) (h2 : a2 < 256) (h3 : a3 < 256) :
    orS (orS (orS (S32 ((a0 : Int) * 16777216)) ((a1 : Int) * 65536)) ((a2 : Int) * 256)) (a3 : Int) =
      S32 ((((a0 : Int) * 256 + a1) * 256 + a2) * 256 + a3) := by
  have w1 := orS_S32i ((a0 : Int) * 16777216) ((a1 : Int) * 65536) ((a0 : Int) * 16777216 + (a1 : Int) * 65536)
    (a0 * 16777216) (a1 * 65536) (by omega) (by omega) (by omega) (by omega) 24 (by omega) (by omega) rfl
  have w2 := orS_S32i ((a0 : Int) * 16777216 + (a1 : Int) * 65536) ((a2 : Int) * 256) ((a0 : Int) * 16777216 + (a1 : Int) * 65536 + (a2 : Int) * 256)
    (a0 * 16777216 + a1 * 65536) (a2 * 256) (by omega) (by omega) (by omega) (by omega) 16 (by omega) (by omega) rfl
  have w3 := orS_S32i ((a0 : Int) * 16777216 + (a1 : Int) * 65536 + (a2 : Int) * 256) (a3 : Int) ((((a0 : Int) * 256 + a1) * 256 + a2) * 256 + a3)
    (a0 * 16777216 + a1 * 65536 + a2 * 256) a3 (by omega) (by omega) (by omega) (by omega) 8 (by omega) (by omega) (by omega)
  rw [w1, w2, w3]

theorem ok_inc_nattrs {B s p} (h : Ok B s p) (v : Int) : Ok B (inc (vunpackvg.St.set_vg_nattrs s v)) (p + 1) :=
  Ok.inc ⟨h.buf, h.bb, h.ub, h.oof, h.done, h.gto⟩

theorem nattrs_chain (s : St) (p : Nat) (hbb : s.bb = p) (v0 v1 v2 v3 : Int) :
    inc (vunpackvg.St.set_vg_nattrs (inc (vunpackvg.St.set_vg_nattrs (inc (vunpackvg.St.set_vg_nattrs (inc (vunpackvg.St.set_vg_nattrs s v0)) v1)) v2)) v3) =
      (s.set_vg_nattrs v3).set_bb ((p + 4 : Nat) : Int) := by
  simp only [inc, vunpackvg.St.set_bb, vunpackvg.St.set_vg_nattrs, hbb]
  congr 1

theorem get_n (s : St) (v : Int) : (inc (vunpackvg.St.set_vg_nattrs s v)).vg_nattrs = v := rfl

/-- `INT32DECODE(bb, vg->nattrs)` -/
theorem decNattrs_ok {B s p} (h : Ok B s p) (hl : p + 4 ≤ B.length) :
    decNattrs s = (s.set_vg_nattrs (S32 (be32 B p))).set_bb ((p + 4 : Nat) : Int) ∧
      Ok B ((s.set_vg_nattrs (S32 (be32 B p))).set_bb ((p + 4 : Nat) : Int)) (p + 4) := by
  refine ⟨?_, ⟨h.buf, rfl, h.ub, h.oof, h.done, h.gto⟩⟩
  obtain ⟨a0, e0, h0⟩ := b8_nat B p
  obtain ⟨a1, e1, h1⟩ := b8_nat B (p + 1)
  obtain ⟨a2, e2, h2⟩ := b8_nat B (p + 2)
  obtain ⟨a3, e3, h3⟩ := b8_nat B (p + 3)
  have p24 : (2 : Int) ^ (24 : Int).toNat = 16777216 := by decide
  have p16 : (2 : Int) ^ (16 : Int).toNat = 65536 := by decide
  have p8 : (2 : Int) ^ (8 : Int).toNat = 256 := by decide
  have cu : andU (cur s) ((255 : Int) % 4294967296) = b8 B p := by
    rw [andU_255, cur, h.bb, h.buf, Int.toNat_natCast]; rfl
  -- the sign-extension term `(int32)(… ? ~0xffffffffULL : 0ULL)` is 0 either way
  have z : ∀ c : Prop, [Decidable c] → ((((if c then (((-(4294967295 : Int) - 1)) % 18446744073709551616) else 0)) + 2147483648) % 4294967296 - 2147483648) % 4294967296 = 0 := by
    intro c _; split <;> omega
  have v0 : orU 0 (((a0 : Int) * 16777216) % 4294967296) = (a0 : Int) * 16777216 := by
    have e : ((a0 : Int) * 16777216) % 4294967296 = ((a0 * 16777216 : Nat) : Int) := by omega
    have := orU_nat 0 (a0 * 16777216) (by omega) (by omega)
    rw [e]; simpa using this
  have s0 : ((a0 : Int) * 16777216 + 2147483648) % 4294967296 - 2147483648 = S32 ((a0 : Int) * 16777216) := by
    simp only [S32]; split <;> omega
  simp only [decNattrs]
  rw [rdchk_ok h (by omega)]
  rw [chk_true s _ (by rw [cu]; have := b8_range B p; omega)]
  rw [cu, z, e0, p24, v0, s0]
  have o1 := ok_inc_nattrs h (S32 ((a0 : Int) * 16777216))
  obtain ⟨q2, o2⟩ := n32sh_ok o1 (by omega) 16 (Or.inr rfl)
  obtain ⟨q3, o3⟩ := n32sh_ok o2 (by omega) 8 (Or.inl rfl)
  rw [q2, q3, rdchk_ok o3 (by omega), cur_b8 o3]
  rw [get_n, get_n, get_n, nattrs_chain s p h.bb, be32, e0, e1, e2, e3, p16, p8, nattrs_val a0 a1 a2 a3 h0 h1 h2 h3]


end H4.Lemmas.C08Fn3
