/-! Helper lemmas for the equivalence proofs between the function bodies translated from C by `gen/c2lean.py`
    (`H4.Gen.Fn.*`) and the hand-written models.  Core only. -/
namespace H4.C2L

/-- a C array of non-negative `int32` values, as the translated functions see it -/
def ints (l : List Nat) : List Int := l.map Int.ofNat

@[simp] theorem ints_length (l : List Nat) : (ints l).length = l.length := by simp [ints]

@[simp] theorem ints_getD (l : List Nat) (i : Nat) : (ints l)[i]?.getD 0 = ((l[i]?.getD 0 : Nat) : Int) := by
  simp [ints, List.getElem?_map]
  cases l[i]? <;> simp

@[simp] theorem ints_nil : ints [] = [] := rfl
@[simp] theorem ints_cons (a : Nat) (l : List Nat) : ints (a :: l) = (a : Int) :: ints l := rfl

theorem ints_set (l : List Nat) (i v : Nat) : (ints l).set i (v : Int) = ints (l.set i v) := by
  simp [ints, List.map_set]

theorem ints_inj {a b : List Nat} (h : ints a = ints b) : a = b := by
  induction a generalizing b with
  | nil => cases b <;> simp_all [ints]
  | cons x xs ih => cases b with
    | nil => simp [ints] at h
    | cons y ys => simp [ints] at h; obtain ⟨h1, h2⟩ := h; rw [ih (by simpa [ints] using h2)]; simp; omega

theorem drop_cons_getD (l : List Nat) (k : Nat) (h : k < l.length) : l.drop k = l[k]?.getD 0 :: l.drop (k + 1) := by
  rw [List.drop_eq_getElem_cons h]; simp [h]

/-- C's truncating division and remainder agree with `Nat`'s on non-negative operands -/
theorem tdiv_nat (a b : Nat) : Int.tdiv (a : Int) (b : Int) = ((a / b : Nat) : Int) := by
  simp

theorem tmod_nat (a b : Nat) : Int.tmod (a : Int) (b : Int) = ((a % b : Nat) : Int) := by
  rw [Int.tmod_eq_emod_of_nonneg (by omega)]; simp

end H4.C2L
