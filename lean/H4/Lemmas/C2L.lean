/-! Helper lemmas for the equivalence proofs between the function bodies translated from C by `gen/c2lean.py`
    (`H4.Gen.Fn.*`) and the hand-written models.  Core only. -/
namespace H4.C2L

/-- a C array of non-negative `int32` values, as the translated functions see it -/
def ints (l : List Nat) : List Int := l.map Int.ofNat

@[simp] theorem ints_length (l : List Nat) : (ints l).length = l.length := by simp [ints]

@[simp] theorem ints_getD (l : List Nat) (i : Nat) : (ints l)[i]?.getD 0 = ((l[i]?.getD 0 : Nat) : Int) := by
  simp [ints, List.getElem?_map]
  cases l[i]? <;> simp

@[simp] theorem ints_nil : ints [] = [] := rfl
@[simp] theorem ints_cons (a : Nat) (l : List Nat) : ints (a :: l) = (a : Int) :: ints l := rfl

theorem ints_set (l : List Nat) (i v : Nat) : (ints l).set i (v : Int) = ints (l.set i v) := by
  simp [ints, List.map_set]

theorem ints_inj {a b : List Nat} (h : ints a = ints b) : a = b := by
  induction a generalizing b with
  | nil => cases b <;> simp_all [ints]
  | cons x xs ih => cases b with
    | nil => simp [ints] at h
    | cons y ys => simp [ints] at h; obtain ⟨h1, h2⟩ := h; rw [ih (by simpa [ints] using h2)]; simp; omega

theorem drop_cons_getD (l : List Nat) (k : Nat) (h : k < l.length) : l.drop k = l[k]?.getD 0 :: l.drop (k + 1) := by
  rw [List.drop_eq_getElem_cons h]; simp [h]

/-- C's truncating division and remainder agree with `Nat`'s on non-negative operands -/
theorem tdiv_nat (a b : Nat) : Int.tdiv (a : Int) (b : Int) = ((a / b : Nat) : Int) := by
  simp

theorem tmod_nat (a b : Nat) : Int.tmod (a : Int) (b : Int) = ((a % b : Nat) : Int) := by
  rw [Int.tmod_eq_emod_of_nonneg (by omega)]; simp

theorem ints_append (a b : List Nat) : ints (a ++ b) = ints a ++ ints b := by simp [ints]

/-- `a[k] = v` seen from index `k` on: the written cell followed by the untouched rest (loops running DOWN from the last index) -/
theorem drop_set_self {α} (l : List α) (k : Nat) (v : α) (h : k < l.length) : (l.set k v).drop k = v :: l.drop (k + 1) := by
  rw [List.drop_eq_getElem_cons (by simpa using h)]; simp [List.drop_set_of_lt]

/-- `a[k] = v` seen up to index `k`: the untouched prefix followed by the written cell (loops running UP from index 0) -/
theorem take_set_succ {α} (l : List α) (k : Nat) (v : α) (h : k < l.length) : (l.set k v).take (k + 1) = l.take k ++ [v] := by
  rw [List.take_succ_eq_append_getElem (by simpa using h)]; simp [List.take_set_of_le]

theorem take_succ_getD (l : List Nat) (k : Nat) (h : k < l.length) : l.take (k + 1) = l.take k ++ [l[k]?.getD 0] := by
  rw [List.take_succ_eq_append_getElem h]; simp [h]

/-- `x[n-1]` of a non-empty array is the model's `getLastD` -/
theorem getLastD_eq_getD {α} (l : List α) (d : α) (h : l ≠ []) : l.getLastD d = l[l.length - 1]?.getD d := by
  cases l with
  | nil => exact absurd rfl h
  | cons a t => simp [List.getLast?_eq_getElem?]

/-- element `k` of an array of structure fields (`ddims[k].field`) -/
theorem ints_map_getD {α} (f : α → Nat) (l : List α) (k : Nat) (hk : k < l.length) :
    (ints (l.map f)).getD k 0 = ((f l[k] : Nat) : Int) := by
  simp [ints, hk]

theorem getD_set_self {α} (l : List α) (k : Nat) (v d : α) (h : k < l.length) : (l.set k v).getD k d = v := by
  simp [h]

end H4.C2L
