import H4.SkpHuff
/-! Helper lemmas for the skipping-Huffman round trip (C05). Statements live in `H4/Props/C05Skp.lean`. -/
namespace H4.SkpHuff
open H4.Gen.Cskphuff H4.Bits

/-- the values of the generated constants the proofs below were written for (Tie A re-checks them) -/
theorem consts : SKPHUFF_MAX_CHAR = 255 ∧ SUCCMAX = 256 ∧ TWICEMAX = 513 ∧ ROOT = 0 := by decide

@[simp] theorem size_wr (a : Array Nat) (i v : Nat) : (wr a i v).size = a.size := by simp [wr]

theorem rd_wr (a : Array Nat) (i v j : Nat) :
    rd (wr a i v) j = if i = j ∧ i < a.size then v else rd a j := by
  unfold rd wr
  by_cases h : i = j
  · subst h
    by_cases h2 : i < a.size <;> simp [Array.getD, h2]
  · simp [Array.getD, h]
    grind

/-- well-formedness of the three node maps `L = left[.]`, `R = right[.]`, `U = up[.]` over the nodes
    `0..511` (internal nodes `0..255`): `U` is the inverse of the child-slot map, and `ROOT = 0` is reached
    from everywhere (ghost `rank`, strictly decreasing along `U` away from node 0; node 0 itself is the
    child of some node, so the `U`-graph has a cycle through 0, which is harmless: the coder stops the
    first time it reaches ROOT) -/
structure WFf (L R U : Nat → Nat) : Prop where
  upLt : ∀ x, x < 512 → U x < 256
  upChild : ∀ x, x < 512 → L (U x) = x ∨ R (U x) = x
  leftLt : ∀ j, j < 256 → L j < 512
  rightLt : ∀ j, j < 256 → R j < 512
  upLeft : ∀ j, j < 256 → U (L j) = j
  upRight : ∀ j, j < 256 → U (R j) = j
  ne : ∀ j, j < 256 → L j ≠ R j
  rank : ∃ rank : Nat → Nat, ∀ x, x < 512 → x ≠ 0 → rank (U x) < rank x

/-- well-formed tree: C array sizes and `WFf` of its three arrays -/
structure WF (t : Tree) : Prop where
  szl : t.left.size = 256
  szr : t.right.size = 256
  szu : t.up.size = 513
  f : WFf (rd t.left) (rd t.right) (rd t.up)

/-! ### one semi-rotation preserves well-formedness (rank: the doubling trick) -/

/-- the semi-rotation around `a` (parent `c`, grand-parent `d`, uncle `b`): `a` and `b` swap slots -/
theorem rot_WFf {L R U L' R' U' : Nat → Nat} (h : WFf L R U) (a c d b : Nat)
    (ha : a < 512) (ha0 : a ≠ 0) (hc : c = U a) (hc0 : c ≠ 0) (hd : d = U c)
    (hb : b = if c = L d then R d else L d)
    (hL : ∀ j, L' j = if j = c ∧ a = L c then b else if j = d ∧ c ≠ L d then a else L j)
    (hR : ∀ j, R' j = if j = c ∧ a ≠ L c then b else if j = d ∧ c = L d then a else R j)
    (hU : ∀ x, U' x = if x = b then c else if x = a then d else U x) :
    WFf L' R' U' := by
  obtain ⟨rank, hr⟩ := h.rank
  have c_lt : c < 256 := hc ▸ h.upLt a ha
  have d_lt : d < 256 := hd ▸ h.upLt c (by omega)
  have r1 : rank c < rank a := hc ▸ hr a ha ha0
  have r2 : rank d < rank c := hd ▸ hr c (by omega) hc0
  have cd : c ≠ d := by intro e; rw [e] at r2; omega
  have ac : a ≠ c := by intro e; rw [e] at r1; omega
  have ad : a ≠ d := by intro e; rw [e] at r1; omega
  have chc : L d = c ∨ R d = c := hd ▸ h.upChild c (by omega)
  have cha : L c = a ∨ R c = a := hc ▸ h.upChild a ha
  have ned := h.ne d d_lt
  have nec := h.ne c c_lt
  have b_lt : b < 512 := by
    have := h.leftLt d d_lt; have := h.rightLt d d_lt; grind
  have ub : U b = d := by
    have := h.upLeft d d_lt; have := h.upRight d d_lt; grind
  have bc : b ≠ c := by grind
  have ba : b ≠ a := by intro e; rw [e] at ub; omega
  have hbd : (L d = c ∧ R d = b) ∨ (L d = b ∧ R d = c) := by grind
  have rb : b ≠ 0 → rank d < rank b := fun h0 => ub ▸ hr b b_lt h0
  have ulc := h.upLeft c c_lt
  have urc := h.upRight c c_lt
  have uld := h.upLeft d d_lt
  have urd := h.upRight d d_lt
  constructor
  · intro x hx
    have := h.upLt x hx
    grind
  · intro x hx
    have := h.upChild x hx
    have := h.upLt x hx
    grind
  · intro j hj
    have := h.leftLt j hj
    grind
  · intro j hj
    have := h.rightLt j hj
    grind
  · intro j hj
    have := h.upLeft j hj
    grind
  · intro j hj
    have := h.upRight j hj
    grind
  · intro j hj
    have := h.ne j hj
    clear hr rb r1 r2
    grind
  · refine ⟨fun x => if x = c then 2 * rank d + 1 else 2 * rank x, ?_⟩
    intro x hx hx0
    have := hr x hx hx0
    grind
theorem splayStep_root (t : Tree) (a : Nat) (hc : rd t.up a = 0) :
    splayStep t a = (t, 0) := by
  simp [splayStep, hc, consts]

theorem splayStep_rot (t : Tree) (a c d b : Nat) (h : WF t) (ha : a < 512)
    (hc : c = rd t.up a) (hc0 : c ≠ 0) (hd : d = rd t.up c)
    (hb : b = if c = rd t.left d then rd t.right d else rd t.left d) :
    (splayStep t a).2 = d ∧ (splayStep t a).1.left.size = 256 ∧ (splayStep t a).1.right.size = 256 ∧
    (splayStep t a).1.up.size = 513 ∧
    (∀ j, rd (splayStep t a).1.left j =
      if j = c ∧ a = rd t.left c then b else if j = d ∧ c ≠ rd t.left d then a else rd t.left j) ∧
    (∀ j, rd (splayStep t a).1.right j =
      if j = c ∧ a ≠ rd t.left c then b else if j = d ∧ c = rd t.left d then a else rd t.right j) ∧
    (∀ x, rd (splayStep t a).1.up x = if x = b then c else if x = a then d else rd t.up x) := by
  have c_lt : c < 256 := hc ▸ h.f.upLt a ha
  have d_lt : d < 256 := hd ▸ h.f.upLt c (by omega)
  have hcm : rd t.up a % 256 = c := by rw [← hc]; exact Nat.mod_eq_of_lt c_lt
  have hdm : rd t.up c % 256 = d := by rw [← hd]; exact Nat.mod_eq_of_lt d_lt
  have b_lt : b < 512 := by
    have := h.f.leftLt d d_lt; have := h.f.rightLt d d_lt; grind
  have cd : c ≠ d := by
    obtain ⟨rank, hr⟩ := h.f.rank
    have := hr c (by omega) hc0
    intro e
    rw [← hd, ← e] at this
    omega
  have szl := h.szl
  have szr := h.szr
  have szu := h.szu
  refine ⟨?_, ?_, ?_, ?_, ?_, ?_, ?_⟩
  · simp [splayStep, hcm, hdm, consts, hc0]
  · simp only [splayStep, hcm, hdm, consts]; simp [hc0]; split <;> split <;> simp [szl]
  · simp only [splayStep, hcm, hdm, consts]; simp [hc0]; split <;> split <;> simp [szr]
  · simp only [splayStep, hcm, hdm, consts]; simp [hc0, szu]
  · intro j
    simp only [splayStep, hcm, hdm, consts]; simp [hc0]
    split <;> split <;> simp [rd_wr, szl, szr] at * <;> grind
  · intro j
    simp only [splayStep, hcm, hdm, consts]; simp [hc0]
    split <;> split <;> simp [rd_wr, szl, szr] at * <;> grind
  · intro x
    simp only [splayStep, hcm, hdm, consts]; simp [hc0, rd_wr, szu]
    grind

/-! ### the freshly initialised tree is well formed -/

theorem rd_ofFn (n : Nat) (f : Nat → Nat) (i : Nat) :
    rd ((List.range n).map f).toArray i = if i < n then f i else 0 := by
  unfold rd
  by_cases h : i < n <;> simp [Array.getD, h]

theorem rd_init_left (j : Nat) (h : j < 256) : rd Tree.init.left j = 2 * j := by
  simp [Tree.init, rd_ofFn, consts, h, Nat.shiftLeft_eq]; omega
theorem rd_init_right (j : Nat) (h : j < 256) : rd Tree.init.right j = 2 * j + 1 := by
  simp [Tree.init, rd_ofFn, consts, h, Nat.shiftLeft_eq]; omega
theorem rd_init_up (i : Nat) (h : i < 513) : rd Tree.init.up i = (i / 2) % 256 := by
  simp [Tree.init, rd_ofFn, consts, h, Nat.shiftRight_eq_div_pow]

theorem WF_init : WF Tree.init := by
  refine ⟨by simp [Tree.init, consts], by simp [Tree.init, consts], by simp [Tree.init, consts], ?_⟩
  constructor
  · intro x hx; rw [rd_init_up x (by omega)]; omega
  · intro x hx
    rw [rd_init_up x (by omega), rd_init_left _ (by omega), rd_init_right _ (by omega)]; omega
  · intro j hj; rw [rd_init_left j hj]; omega
  · intro j hj; rw [rd_init_right j hj]; omega
  · intro j hj; rw [rd_init_left j hj, rd_init_up _ (by omega)]; omega
  · intro j hj; rw [rd_init_right j hj, rd_init_up _ (by omega)]; omega
  · intro j hj; rw [rd_init_left j hj, rd_init_right j hj]; omega
  · refine ⟨id, ?_⟩
    intro x hx hx0; rw [rd_init_up x (by omega)]; simp only [id]; omega

/-! ### splaying preserves well-formedness -/

theorem splayStep_WF (t : Tree) (a : Nat) (h : WF t) (ha : a < 512) (ha0 : a ≠ 0) :
    WF (splayStep t a).1 ∧ (splayStep t a).2 < 256 := by
  by_cases hc : rd t.up a = 0
  · rw [splayStep_root t a hc]; exact ⟨h, by omega⟩
  · obtain ⟨h2, hl, hr, hu, hL, hR, hU⟩ := splayStep_rot t a _ _ _ h ha rfl hc rfl rfl
    have c_lt := h.f.upLt a ha
    refine ⟨⟨hl, hr, hu, rot_WFf h.f a _ _ _ ha ha0 rfl hc rfl rfl hL hR hU⟩, ?_⟩
    rw [h2]
    exact h.f.upLt _ (by omega)

theorem splayLoop_WF : ∀ (fuel : Nat) (t : Tree) (a : Nat), WF t → a < 512 → a ≠ 0 →
    WF (splayLoop fuel t a) := by
  intro fuel
  induction fuel with
  | zero => intro t a h _ _; exact h
  | succ n ih =>
    intro t a h ha ha0
    obtain ⟨h1, h2⟩ := splayStep_WF t a h ha ha0
    simp only [splayLoop]
    split
    · rename_i hne
      exact ih _ _ h1 (by omega) (by simpa [consts] using hne)
    · exact h1

theorem splay_WF (t : Tree) (s : Nat) (h : WF t) (hs : s < 256) : WF (splay t s) := by
  unfold splay
  apply splayLoop_WF _ _ _ h <;> simp [consts] <;> omega

/-! ### a bounded rank function, so that `TWICEMAX` steps of fuel suffice for the encoder's climb -/

theorem countP_lt_of_imp {α : Type} (P Q : α → Bool) :
    ∀ (l : List α) (y : α), y ∈ l → (∀ x ∈ l, P x = true → Q x = true) → P y = false → Q y = true →
      l.countP P < l.countP Q := by
  intro l
  induction l with
  | nil => intro y hy; simp at hy
  | cons z l ih =>
    intro y hy himp hP hQ
    have hmono : l.countP P ≤ l.countP Q :=
      List.countP_mono_left (fun x hx => himp x (List.mem_cons_of_mem _ hx))
    rcases List.mem_cons.mp hy with e | hyl
    · subst e
      simp [hP, hQ]; omega
    · have := ih y hyl (fun x hx => himp x (List.mem_cons_of_mem _ hx)) hP hQ
      have hz := himp z (List.mem_cons_self)
      simp only [List.countP_cons]
      by_cases hpz : P z = true
      · simp [hpz, hz hpz]; omega
      · simp [hpz]; split <;> omega

theorem bounded_rank {L R U : Nat → Nat} (h : WFf L R U) :
    ∃ m : Nat → Nat, (∀ x, m x ≤ 512) ∧ ∀ x, x < 512 → x ≠ 0 → m (U x) < m x := by
  obtain ⟨rank, hr⟩ := h.rank
  refine ⟨fun x => (List.range 512).countP (fun y => decide (rank y < rank x)), ?_, ?_⟩
  · intro x
    have := List.countP_le_length (p := fun y => decide (rank y < rank x)) (l := List.range 512)
    simpa using this
  · intro x hx hx0
    have h1 := hr x hx hx0
    have h2 := h.upLt x hx
    apply countP_lt_of_imp _ _ _ (U x)
    · simp; omega
    · intro y _ hy; simp at hy ⊢; omega
    · simp
    · simpa using h1

theorem descend_climb (t : Tree) (h : WF t) (m : Nat → Nat)
    (hm : ∀ x, x < 512 → x ≠ 0 → m (rd t.up x) < m x) :
    ∀ (fuel a : Nat) (acc rest : List Bool), a < 512 → a ≠ 0 → m a ≤ fuel →
      descend t 0 (climb fuel t a acc ++ rest) =
        if a > 255 then some (a - 256, acc ++ rest) else descend t a (acc ++ rest) := by
  intro fuel
  induction fuel with
  | zero =>
    intro a acc rest ha ha0 hf
    have := hm a ha ha0
    omega
  | succ n ih =>
    intro a acc rest ha ha0 hf
    have hp := h.f.upLt a ha
    have hmp := hm a ha ha0
    have hch := h.f.upChild a ha
    have step : descend t (rd t.up a) ((rd t.right (rd t.up a) == a) :: acc ++ rest) =
        if a > 255 then some (a - 256, acc ++ rest) else descend t a (acc ++ rest) := by
      by_cases hb : rd t.right (rd t.up a) = a
      · simp [descend, hb, consts]
      · have hl : rd t.left (rd t.up a) = a := by grind
        simp [descend, hb, hl, consts]
    simp only [climb]
    split
    · rename_i hne
      have hne' : rd t.up a ≠ 0 := by simpa [consts] using hne
      rw [ih _ _ rest (by omega) hne' (by omega)]
      have : ¬ rd t.up a > 255 := by omega
      simp only [this, if_false]
      exact step
    · rename_i hne
      have he : rd t.up a = 0 := by simpa [consts] using hne
      rw [he] at step ⊢
      exact step

theorem decSym_encSym (t : Tree) (h : WF t) (s : Nat) (hs : s < 256) (rest : List Bool) :
    decSym t (encSym t s ++ rest) = some (s, rest) := by
  obtain ⟨m, hm1, hm2⟩ := bounded_rank h.f
  unfold decSym encSym
  have := descend_climb t h m hm2 TWICEMAX (s + SUCCMAX) [] rest
  simp only [consts] at this ⊢
  rw [this (by omega) (by omega) (by have := hm1 (s + 256); omega)]
  simp

theorem getTree_WF (ts : List Tree) (pos : Nat) (h : ∀ t ∈ ts, WF t) : WF (getTree ts pos) := by
  unfold getTree
  by_cases hp : pos < ts.length
  · have e : ts.getD pos Tree.init = ts[pos] := by simp [List.getD, hp]
    rw [e]; exact h _ (List.getElem_mem hp)
  · have e : ts.getD pos Tree.init = Tree.init := by simp [List.getD, Nat.le_of_not_lt hp]
    rw [e]; exact WF_init

theorem decRun_encRun (skip : Nat) : ∀ (bs : List UInt8) (ts : List Tree) (pos : Nat) (pad : List Bool),
    (∀ t ∈ ts, WF t) → decRun skip ts pos (encRun skip ts pos bs ++ pad) bs.length = some bs := by
  intro bs
  induction bs with
  | nil => intro ts pos pad _; simp [decRun]
  | cons b bs ih =>
    intro ts pos pad h
    have hw := getTree_WF ts pos h
    have hb : b.toNat < 256 := UInt8.toNat_lt b
    simp only [encRun, List.length_cons, decRun, List.append_assoc]
    rw [decSym_encSym _ hw _ hb]
    simp only [UInt8.ofNat_toNat]
    rw [ih]
    · simp
    · intro t ht
      rcases List.mem_or_eq_of_mem_set ht with h1 | h1
      · exact h t h1
      · rw [h1]; exact splay_WF _ _ hw hb

/-! ### the 32-bit word stack of the encoder writes exactly the climbed bits -/

theorem msbBits_congr : ∀ (k n m : Nat), (∀ i, i < k → n.testBit i = m.testBit i) →
    msbBits k n = msbBits k m := by
  intro k
  induction k with
  | zero => intro n m _; rfl
  | succ k ih =>
    intro n m h
    simp only [msbBits]
    rw [h k (by omega), ih n m (fun i hi => h i (by omega))]

theorem fieldsBits_cons (f : Nat × Nat) (fs : List (Nat × Nat)) :
    fieldsBits (f :: fs) = msbBits f.1 f.2 ++ fieldsBits fs := by
  simp [fieldsBits]

theorem fieldsBits_append (l1 l2 : List (Nat × Nat)) :
    fieldsBits (l1 ++ l2) = fieldsBits l1 ++ fieldsBits l2 := by
  simp [fieldsBits]

theorem fieldsBits_filter (l : List (Nat × Nat)) :
    fieldsBits (l.filter fun e => e.1 > 0) = fieldsBits l := by
  induction l with
  | nil => rfl
  | cons f fs ih =>
    by_cases h : f.1 > 0
    · simp [h, fieldsBits_cons, ih]
    · have h0 : f.1 = 0 := by omega
      simp [fieldsBits_cons, ih, h0, msbBits]

/-- the bits the stack will be written out as -/
def Stack.bits (s : Stack) : List Bool := fieldsBits (s.top :: s.below)

/-- `bit_count[stack_ptr] < 32`, `output_bits[stack_ptr] < 2^bit_count[stack_ptr]`,
    `bit_mask = 1 << bit_count[stack_ptr]` -/
def Stack.Ok (s : Stack) : Prop := s.top.1 < 32 ∧ s.top.2 < 2 ^ s.top.1 ∧ s.mask = 2 ^ s.top.1

theorem msbBits_push (k v : Nat) (bit : Bool) (hv : v < 2 ^ k) :
    msbBits (k + 1) (if bit then v ||| 2 ^ k else v) = bit :: msbBits k v := by
  simp only [msbBits]
  cases bit
  · simp [Nat.testBit_lt_two_pow hv]
  · simp only [if_true]
    congr 1
    · simp [Nat.testBit_or, Nat.testBit_two_pow_self]
    · apply msbBits_congr
      intro i hi
      simp [Nat.testBit_or, Nat.testBit_two_pow]
      omega

theorem push_ok (s : Stack) (bit : Bool) (h : s.Ok) : (s.push bit).Ok := by
  obtain ⟨h1, h2, h3⟩ := h
  unfold Stack.push
  simp only []
  split
  · simp [Stack.Ok]
  · rename_i hlt
    refine ⟨by simp only []; omega, ?_, ?_⟩
    · simp only [h3]
      have : 2 ^ s.top.1 < 2 ^ (s.top.1 + 1) := Nat.pow_lt_pow_right (by omega) (by omega)
      cases bit
      · simp; omega
      · simp only [if_true]; exact Nat.or_lt_two_pow (by omega) this
    · simp only [h3, Nat.shiftLeft_eq, ← Nat.pow_succ]
      apply Nat.mod_eq_of_lt
      exact Nat.pow_lt_pow_right (by omega) (by omega)

theorem push_bits (s : Stack) (bit : Bool) (h : s.Ok) : (s.push bit).bits = bit :: s.bits := by
  obtain ⟨h1, h2, h3⟩ := h
  unfold Stack.push Stack.bits
  simp only [h3]
  split <;> simp only [fieldsBits_cons, msbBits_push _ _ _ h2] <;> simp [msbBits]

theorem climbF_bits : ∀ (fuel : Nat) (t : Tree) (a : Nat) (s : Stack), s.Ok →
    (climbF fuel t a s).bits = climb fuel t a s.bits := by
  intro fuel
  induction fuel with
  | zero => intro t a s _; rfl
  | succ n ih =>
    intro t a s h
    simp only [climbF, climb]
    split
    · rw [ih _ _ _ (push_ok _ _ h), push_bits _ _ h]
    · rw [push_bits _ _ h]

theorem fieldsBits_encFields (t : Tree) (s : Nat) : fieldsBits (encFields t s) = encSym t s := by
  unfold encFields encSym
  simp only [fieldsBits_filter]
  have := climbF_bits TWICEMAX t (s + SUCCMAX) { top := (0, 0), below := [], mask := 1 } (by simp [Stack.Ok])
  simpa [Stack.bits, fieldsBits, msbBits] using this

theorem fieldsBits_encRunF (skip : Nat) : ∀ (bs : List UInt8) (ts : List Tree) (pos : Nat),
    fieldsBits (encRunF skip ts pos bs) = encRun skip ts pos bs := by
  intro bs
  induction bs with
  | nil => intro ts pos; rfl
  | cons b bs ih =>
    intro ts pos
    simp only [encRunF, encRun, fieldsBits_append, fieldsBits_encFields, ih]

/-! ### every `Hbitwrite` call of the encoder has a bit count in 1..32 -/

/-- stack invariant: the open word holds fewer than 32 bits, every closed word exactly 32 -/
def Stack.Full (s : Stack) : Prop := s.top.1 < 32 ∧ ∀ e ∈ s.below, e.1 = 32

theorem push_full (s : Stack) (bit : Bool) (h : s.Full) : (s.push bit).Full := by
  obtain ⟨h1, h2⟩ := h
  unfold Stack.push
  simp only
  split
  · refine ⟨by simp, ?_⟩
    intro e he
    rcases List.mem_cons.mp he with rfl | he
    · simp only; omega
    · exact h2 e he
  · exact ⟨by simp only; omega, h2⟩

theorem climbF_full : ∀ (fuel : Nat) (t : Tree) (a : Nat) (s : Stack), s.Full → (climbF fuel t a s).Full := by
  intro fuel
  induction fuel with
  | zero => intro t a s h; exact h
  | succ n ih =>
    intro t a s h
    simp only [climbF]
    split
    · exact ih _ _ _ (push_full _ _ h)
    · exact push_full _ _ h

theorem encFields_valid (t : Tree) (s : Nat) : ∀ f ∈ encFields t s, 1 ≤ f.1 ∧ f.1 ≤ 32 := by
  intro f hf
  unfold encFields at hf
  have hfull := climbF_full TWICEMAX t (s + SUCCMAX) { top := (0, 0), below := [], mask := 1 } ⟨by simp, by simp⟩
  simp only [List.mem_filter, decide_eq_true_eq] at hf
  obtain ⟨hm, hpos⟩ := hf
  rcases List.mem_cons.mp hm with rfl | hm
  · have := hfull.1; omega
  · have := hfull.2 f hm; omega

theorem encRunF_valid (skip : Nat) : ∀ (bs : List UInt8) (ts : List Tree) (pos : Nat),
    ∀ f ∈ encRunF skip ts pos bs, 1 ≤ f.1 ∧ f.1 ≤ 32 := by
  intro bs
  induction bs with
  | nil => intro ts pos f hf; simp [encRunF] at hf
  | cons b bs ih =>
    intro ts pos f hf
    simp only [encRunF, List.mem_append] at hf
    rcases hf with hf | hf
    · exact encFields_valid _ _ f hf
    · exact ih _ _ f hf

/-! ### codes of ANY length (1, 2, 3, ... words of the bit stack): the partly filled top word first, then only full 32-bit words -/

theorem length_msbBits : ∀ (k n : Nat), (msbBits k n).length = k := by
  intro k
  induction k with
  | zero => intro n; rfl
  | succ k ih => intro n; simp [msbBits, ih]

theorem length_fieldsBits (fs : List (Nat × Nat)) : (fieldsBits fs).length = (fs.map (·.1)).sum := by
  induction fs with
  | nil => rfl
  | cons f fs ih => simp [fieldsBits_cons, length_msbBits, ih]

theorem filter_pos_full (l : List (Nat × Nat)) (h : ∀ e ∈ l, e.1 = 32) : (l.filter fun e => e.1 > 0) = l := by
  apply List.filter_eq_self.mpr
  intro e he
  have := h e he
  simp [this]

theorem sum_full (l : List (Nat × Nat)) (h : ∀ e ∈ l, e.1 = 32) : (l.map (·.1)).sum = 32 * l.length := by
  induction l with
  | nil => rfl
  | cons f fs ih =>
    have hf := h f (by simp)
    have := ih (fun e he => h e (by simp [he]))
    simp only [List.map_cons, List.sum_cons, List.length_cons, this, hf]
    omega

/-- shape of the `Hbitwrite(count, data)` list of one code, for every tree (well-formed or not) and every code length: at most one
    partly filled word (1..31 bits: the top of the stack, the bits nearest the ROOT), followed by full 32-bit words only -/
theorem encFields_shape (t : Tree) (s : Nat) :
    ∃ top full : List (Nat × Nat), encFields t s = top ++ full ∧ top.length ≤ 1 ∧
      (∀ f ∈ top, 1 ≤ f.1 ∧ f.1 < 32) ∧ (∀ f ∈ full, f.1 = 32) := by
  have hfull := climbF_full TWICEMAX t (s + SUCCMAX) { top := (0, 0), below := [], mask := 1 } ⟨by simp, by simp⟩
  unfold encFields
  generalize climbF TWICEMAX t (s + SUCCMAX) { top := (0, 0), below := [], mask := 1 } = st at hfull
  obtain ⟨h1, h2⟩ := hfull
  by_cases h0 : st.top.1 > 0
  · refine ⟨[st.top], st.below, ?_, by simp, ?_, h2⟩
    · simp [h0, filter_pos_full _ h2]
    · intro f hf
      rw [List.mem_singleton.mp hf]
      omega
  · refine ⟨[], st.below, ?_, by simp, by simp, h2⟩
    simp [h0, filter_pos_full _ h2]

/-- the `count`s of the `Hbitwrite` calls of one code add up to the length of the ROOT-to-leaf path -/
theorem codeBits_eq (t : Tree) (s : Nat) : codeBits t s = (encSym t s).length := by
  unfold codeBits
  rw [← length_fieldsBits, fieldsBits_encFields]

/-- a code of `n` bits takes `⌈n / 32⌉` `Hbitwrite` calls, whatever `n` is -/
theorem codeWords_eq (t : Tree) (s : Nat) : codeWords t s = (codeBits t s + 31) / 32 := by
  obtain ⟨top, full, he, hl, ht, hf⟩ := encFields_shape t s
  unfold codeWords codeBits
  rw [he]
  simp only [List.map_append, List.sum_append, List.length_append, sum_full full hf]
  match top, hl, ht with
  | [], _, _ => simp; omega
  | [f], _, ht =>
    have := ht f (by simp)
    simp only [List.map_cons, List.map_nil, List.sum_cons, List.sum_nil, List.length_cons, List.length_nil]
    omega

end H4.SkpHuff
