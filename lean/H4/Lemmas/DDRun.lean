import H4.Lemmas.DDRefine2
/-! # Histories: the step guard, one step refines the specification, and the specification respects permutation -/
namespace H4.DD
open H4.Gen.Hdf H4.Bitvect

/-- what must hold of the state for one call to behave as the specification says.
    Three kinds of conjuncts: API preconditions (tags/refs are 16-bit and not wildcards where the call creates or looks up
    a single element); and, per defect, the configurations in which the code AS IT IS goes wrong
    (F3: new DD block while caching is off; F4: delete while caching is off; F17: `Hdupdd` onto a tag/ref in use).
    For `Cfg.fixed` only the API preconditions remain (`guard_fixed`). -/
def guard (cfg : Cfg) (s : File) : Op → Bool
  | .put t r _ => baseTag t != 0 && r != 0 && decide (t < 65536) && decide (r < 65536) && guardF3 cfg s
  | .startwrite t r _ => baseTag t != 0 && r != 0 && decide (t < 65536) && decide (r < 65536) && guardF3 cfg s
  | .append _ _ _ => false
  | .del _ _ => guardF4 cfg s
  | .dup t r _ _ => decide (t < 65536) && decide (r < 65536) && guardF3 cfg s && (cfg.fixF17 || (htpSelect s t r).isNone)
  | .inquire t r => baseTag t != 0 && r != 0
  | .number t => t != 1
  | .exist t r => !(t == 1 && r == 0)
  | _ => true

/-- the API preconditions alone -/
def dom : Op → Bool
  | .put t r _ => baseTag t != 0 && r != 0 && decide (t < 65536) && decide (r < 65536)
  | .startwrite t r _ => baseTag t != 0 && r != 0 && decide (t < 65536) && decide (r < 65536)
  | .append _ _ _ => false
  | .dup t r _ _ => decide (t < 65536) && decide (r < 65536)
  | .inquire t r => baseTag t != 0 && r != 0
  | .number t => t != 1
  | .exist t r => !(t == 1 && r == 0)
  | _ => true

theorem guard_fixed (s : File) (op : Op) : guard Cfg.fixed s op = dom op := by
  cases op <;> simp [guard, dom, guardF3, guardF4, Cfg.fixed]

/-- every step of the history is guarded (in the state it is executed in) -/
def guarded (cfg : Cfg) : File → List Op → Bool
  | _, [] => true
  | s, op :: ops => guard cfg s op && (match (step cfg s op).2 with
    | none => true
    | some s' => guarded cfg s' ops)

/-- **one call refines the specification** -/
theorem step_refines (cfg : Cfg) {s : File} (h : Inv cfg s) (op : Op) (hg : guard cfg s op = true) :
    ∃ s', (step cfg s op).2 = some s' ∧ Inv cfg s' ∧
      eraseOut op (step cfg s op).1 = (specStep cfg s.abs op).1 ∧
      s'.abs.Perm (specStep cfg s.abs op).2 := by
  cases op with
  | put t r l =>
    simp only [guard, Bool.and_eq_true, bne_iff_ne, ne_eq, decide_eq_true_eq] at hg
    obtain ⟨⟨⟨⟨h1, h2⟩, h3⟩, h4⟩, h5⟩ := hg
    have := write_refines cfg true h (l := l) h1 h2 h3 h4 h5
    simp only [if_true] at this
    exact ⟨_, rfl, this.1, by simpa [step, specStep, eraseOut] using this.2.1, by simpa [step, specStep] using this.2.2⟩
  | startwrite t r l =>
    simp only [guard, Bool.and_eq_true, bne_iff_ne, ne_eq, decide_eq_true_eq] at hg
    obtain ⟨⟨⟨⟨h1, h2⟩, h3⟩, h4⟩, h5⟩ := hg
    have := write_refines cfg false h (l := l) h1 h2 h3 h4 h5
    simp only [Bool.false_eq_true, if_false] at this
    exact ⟨_, rfl, this.1, by simpa [step, specStep, eraseOut] using this.2.1, by simpa [step, specStep] using this.2.2⟩
  | append t r n => simp [guard] at hg
  | del t r =>
    have := del_refines cfg h t r (by simpa [guard] using hg)
    exact ⟨_, rfl, this.1, by simpa [step, eraseOut] using this.2.1, by simpa [step] using this.2.2⟩
  | dup t r ot or' =>
    simp only [guard, Bool.and_eq_true, decide_eq_true_eq, Bool.or_eq_true] at hg
    obtain ⟨⟨⟨h1, h2⟩, h3⟩, h4⟩ := hg
    have := dup_refines cfg h t r ot or' h1 h2 h3 h4
    exact ⟨_, rfl, this.1, by simpa [step, eraseOut] using this.2.1, by simpa [step] using this.2.2⟩
  | reuse t r =>
    have := reuse_refines cfg h t r
    exact ⟨_, rfl, this.1, by simpa [step, eraseOut] using this.2.1, by simpa [step] using this.2.2⟩
  | inquire t r =>
    simp only [guard, Bool.and_eq_true, bne_iff_ne, ne_eq] at hg
    exact inquire_refines cfg h t r hg.1 hg.2
  | number t =>
    simp only [guard, bne_iff_ne, ne_eq] at hg
    exact ⟨s, rfl, h, number_refines cfg s hg, by simp [specStep]⟩
  | exist t r =>
    simp only [guard, Bool.not_eq_true', Bool.and_eq_false_imp, beq_iff_eq, beq_eq_false_iff_ne] at hg
    exact exist_refines cfg h t r (fun hh => hg hh.1 hh.2)
  | newref =>
    obtain ⟨hi, hsl⟩ := newref_inv cfg h
    exact ⟨_, rfl, hi, rfl, by simp only [specStep]; rw [abs_of_slots hsl]⟩
  | tagnewref t =>
    obtain ⟨hi, hsl⟩ := tagnewref_inv cfg h t
    exact ⟨_, rfl, hi, rfl, by simp only [specStep]; rw [abs_of_slots hsl]⟩
  | cache on =>
    obtain ⟨hi, hsl⟩ := hcache_inv cfg h on
    exact ⟨_, rfl, hi, rfl, by simp only [specStep]; rw [abs_of_slots hsl]⟩
  | sync =>
    obtain ⟨hi, hsl⟩ := hiSync_inv cfg h
    exact ⟨_, rfl, hi, rfl, by simp only [specStep]; show (hsync s).abs.Perm _; unfold hsync; rw [abs_of_slots hsl]⟩
  | reopen =>
    obtain ⟨s', hs', hi, hp⟩ := hreopen_inv cfg h
    refine ⟨s', by simp [step, hs'], hi, by simp [step, hs', specStep, eraseOut], by simpa [specStep] using hp⟩

/-! ## the specification does not depend on the order of the association list -/

theorem nodup_map_inj {α β} {f : α → β} : ∀ {l : List α}, (l.map f).Nodup → ∀ {a b : α}, a ∈ l → b ∈ l → f a = f b → a = b := by
  intro l
  induction l with
  | nil => intro _ a b ha; cases ha
  | cons x xs ih =>
    intro hn a b ha hb hf
    simp only [List.map_cons, List.nodup_cons] at hn
    rcases List.mem_cons.mp ha with hax | hax
    · rcases List.mem_cons.mp hb with hbx | hbx
      · rw [hax, hbx]
      · exact absurd (List.mem_map.mpr ⟨b, hbx, by rw [← hf, hax]⟩) hn.1
    · rcases List.mem_cons.mp hb with hbx | hbx
      · exact absurd (List.mem_map.mpr ⟨a, hax, by rw [hf, hbx]⟩) hn.1
      · exact ih hn.2 hax hbx hf

theorem specGet_mem {sp : List Ent} {k : Nat × Nat} {e : Ent} (h : specGet sp k = some e) : e ∈ sp ∧ entKey e = k := by
  unfold specGet at h
  exact ⟨List.mem_of_find?_eq_some h, by simpa using List.find?_some h⟩

theorem specGet_perm {sp sp' : List Ent} (hp : sp.Perm sp') (hn : (sp.map entKey).Nodup) (k : Nat × Nat) :
    specGet sp k = specGet sp' k := by
  cases h1 : specGet sp k with
  | none =>
    have : ∀ e ∈ sp, ¬ (entKey e == k) = true := by
      unfold specGet at h1; rw [List.find?_eq_none] at h1; exact h1
    symm; unfold specGet; rw [List.find?_eq_none]
    intro e he; exact this e (hp.mem_iff.mpr he)
  | some e =>
    obtain ⟨he, hk⟩ := specGet_mem h1
    cases h2 : specGet sp' k with
    | none =>
      unfold specGet at h2; rw [List.find?_eq_none] at h2
      exact absurd (by simpa using hk) (h2 e (hp.mem_iff.mp he))
    | some e' =>
      obtain ⟨he', hk'⟩ := specGet_mem h2
      rw [nodup_map_inj hn he (hp.mem_iff.mpr he') (by rw [hk, hk'])]

theorem any_perm {α} {l l' : List α} (hp : l.Perm l') (p : α → Bool) : l.any p = l'.any p := by
  cases h : l.any p with
  | true =>
    rw [List.any_eq_true] at h
    obtain ⟨x, hx, hpx⟩ := h
    symm; rw [List.any_eq_true]; exact ⟨x, hp.mem_iff.mp hx, hpx⟩
  | false =>
    symm; rw [Bool.eq_false_iff]
    intro h'
    rw [List.any_eq_true] at h'
    obtain ⟨x, hx, hpx⟩ := h'
    have : l.any p = true := List.any_eq_true.mpr ⟨x, hp.mem_iff.mpr hx, hpx⟩
    rw [h] at this; cases this

theorem specWrite_perm {sp sp' : List Ent} (hp : sp.Perm sp') (hn : (sp.map entKey).Nodup) (base r : Nat) (l : Int) (put : Bool) :
    (specWrite sp base r l put).1 = (specWrite sp' base r l put).1 ∧
    (specWrite sp base r l put).2.Perm (specWrite sp' base r l put).2 := by
  unfold specWrite
  rw [← specGet_perm hp hn]
  cases specGet sp (base, r) with
  | none =>
    simp only
    split
    · exact ⟨rfl, hp⟩
    · split
      · exact ⟨rfl, hp.append_right _⟩
      · exact ⟨rfl, hp.append_right _⟩
  | some e =>
    simp only
    split
    · exact ⟨rfl, hp⟩
    · split
      · split
        · exact ⟨rfl, hp⟩
        · exact ⟨rfl, hp.map _⟩
      · exact ⟨rfl, hp⟩

theorem specStep_perm (cfg : Cfg) {sp sp' : List Ent} (hp : sp.Perm sp') (hn : (sp.map entKey).Nodup) (op : Op) :
    (specStep cfg sp op).1 = (specStep cfg sp' op).1 ∧ (specStep cfg sp op).2.Perm (specStep cfg sp' op).2 := by
  cases op with
  | put t r l => exact specWrite_perm hp hn _ _ _ _
  | startwrite t r l => exact specWrite_perm hp hn _ _ _ _
  | append t r n => exact ⟨rfl, hp⟩
  | del t r =>
    simp only [specStep]
    split
    · exact ⟨rfl, hp⟩
    · rw [← specGet_perm hp hn]
      cases specGet sp (baseTag t, r) with
      | none => exact ⟨rfl, hp⟩
      | some e => exact ⟨rfl, hp.filter _⟩
  | dup t r ot or' =>
    simp only [specStep]
    split
    · exact ⟨rfl, hp⟩
    · rw [← specGet_perm hp hn]
      cases specGet sp (baseTag ot, or') with
      | none => exact ⟨rfl, hp⟩
      | some eo =>
        simp only
        split
        · exact ⟨rfl, hp⟩
        · rw [← specGet_perm hp hn]
          cases specGet sp (baseTag t, r) with
          | none => exact ⟨rfl, hp.append_right _⟩
          | some e => exact ⟨rfl, hp⟩
  | reuse t r =>
    simp only [specStep]
    split
    · exact ⟨rfl, hp⟩
    · rw [← specGet_perm hp hn]
      cases specGet sp (baseTag t, r) with
      | none => exact ⟨rfl, hp⟩
      | some e => exact ⟨rfl, hp.map _⟩
  | inquire t r =>
    simp only [specStep]
    rw [← specGet_perm hp hn]
    cases specGet sp (baseTag t, r) with
    | none => exact ⟨rfl, hp⟩
    | some e => exact ⟨rfl, hp⟩
  | number t =>
    simp only [specStep]
    refine ⟨?_, hp⟩
    congr 1
    split
    · exact (hp.filter _).length_eq
    · exact (hp.filter _).length_eq
  | exist t r =>
    simp only [specStep]
    refine ⟨?_, hp⟩
    rw [← specGet_perm hp hn, any_perm hp]
  | newref => exact ⟨rfl, hp⟩
  | tagnewref t => exact ⟨rfl, hp⟩
  | cache on => exact ⟨rfl, hp⟩
  | sync => exact ⟨rfl, hp⟩
  | reopen => exact ⟨rfl, hp⟩

theorem abs_keys_nodup {s : File} (h : WF s) : (s.abs.map entKey).Nodup := by
  have := h.wfl.nodup
  unfold KeysNodup at this
  unfold File.abs absl
  rw [List.map_map]
  exact this

/-- erase the results of a whole history -/
def eraseOuts : List Op → List Out → List Out
  | op :: ops, o :: os => eraseOut op o :: eraseOuts ops os
  | _, _ => []

/-- **every guarded history refines the map specification**: the file never fails to reopen, every result equals the
    specification's (up to offsets / fresh ref values), and the live entries are those of the specification -/
theorem run_refines (cfg : Cfg) : ∀ (ops : List Op) (s : File) (sp : List Ent), Inv cfg s → s.abs.Perm sp →
    guarded cfg s ops = true →
    ∃ s', (run cfg s ops).2 = some s' ∧ Inv cfg s' ∧
      eraseOuts ops (run cfg s ops).1 = (runMap cfg sp ops).1 ∧ s'.abs.Perm (runMap cfg sp ops).2 := by
  intro ops
  induction ops with
  | nil => intro s sp h hp _; exact ⟨s, rfl, h, rfl, hp⟩
  | cons op ops ih =>
    intro s sp h hp hg
    simp only [guarded, Bool.and_eq_true] at hg
    obtain ⟨s1, hs1, hinv1, hout, hperm⟩ := step_refines cfg h op hg.1
    obtain ⟨c1, c2⟩ := specStep_perm cfg hp (abs_keys_nodup h.wf) op
    have hg2 : guarded cfg s1 ops = true := by have := hg.2; rw [hs1] at this; exact this
    obtain ⟨s', hs', hinv', houts, hperm'⟩ := ih s1 (specStep cfg sp op).2 hinv1 (hperm.trans c2) hg2
    have hrun : run cfg s (op :: ops) = ((step cfg s op).1 :: (run cfg s1 ops).1, (run cfg s1 ops).2) := by
      show (match step cfg s op with
        | (o, none) => ([o], none)
        | (o, some s') => (o :: (run cfg s' ops).1, (run cfg s' ops).2)) = _
      have : step cfg s op = ((step cfg s op).1, some s1) := by rw [← hs1]
      rw [this]
    rw [hrun]
    refine ⟨s', hs', hinv', ?_, hperm'⟩
    show eraseOut op (step cfg s op).1 :: eraseOuts ops (run cfg s1 ops).1 = _
    rw [hout, c1, houts]
    rfl

end H4.DD
