import H4.Tools
import H4.Gen.Fn.Repack
import H4.Gen.Fn.Repack2
import H4.Lemmas.C18FnAttr
import H4.Lemmas.C2L
/-! Helper lemmas for `H4.Props.C18Fn`: the functions of hrepack's option code as TRANSLATED from the C text
    (`H4.Gen.Fn.Repack.parse_comp / parse_chunk`, `H4.Gen.Fn.Repack2.is_reserved`) compute the hand-written model
    `H4.Tools.parseComp / parseChunk / isReserved`.

    C strings are regions of `char` cells (`Int`s in -128..127, the way the translator reads a plain `char`); the model works on
    `List Char`.  `toChar` / `toStr` is the correspondence: the cell seen as an `unsigned char` is the character code.  Core only. -/
attribute [c18logic] true_and and_true false_and and_false true_or or_true false_or or_false not_true_eq_false not_false_eq_true
  if_true if_false ite_true ite_false decide_true decide_false Bool.not_true Bool.not_false Bool.or_false Bool.or_true Bool.false_or Bool.true_or
  and_self or_self Bool.false_eq_true Bool.true_eq_false eq_self Bool.and_false Bool.and_true Bool.true_and Bool.false_and

set_option maxRecDepth 8000   -- omega on `n * 256` needs more than the default depth

namespace H4.C18Fn
open H4.Tools H4.Gen.Tools

/-! ### cells and characters -/

/-- a cell of a `char` array -/
def IsChar (c : Int) : Prop := -128 ≤ c ∧ c ≤ 127

/-- the cells of a C string before its NUL: plain `char`s, none of them 0 -/
def CStr (l : List Int) : Prop := ∀ c ∈ l, IsChar c ∧ c ≠ 0

instance (l : List Int) : Decidable (CStr l) := by unfold CStr IsChar; infer_instance

/-- the character a cell stands for: its value as an `unsigned char` -/
def toChar (c : Int) : Char := Char.ofNat (c % 256).toNat

def toStr (l : List Int) : Str := l.map toChar

@[simp] theorem toStr_nil : toStr [] = [] := rfl
@[simp] theorem toStr_cons (c : Int) (l : List Int) : toStr (c :: l) = toChar c :: toStr l := rfl
@[simp] theorem toStr_append (a b : List Int) : toStr (a ++ b) = toStr a ++ toStr b := by simp [toStr]
@[simp] theorem toStr_length (a : List Int) : (toStr a).length = a.length := by simp [toStr]
theorem toStr_take (a : List Int) (n : Nat) : toStr (a.take n) = (toStr a).take n := by simp [toStr, List.map_take]
theorem toStr_drop (a : List Int) (n : Nat) : toStr (a.drop n) = (toStr a).drop n := by simp [toStr, List.map_drop]

theorem CStr.cons {c : Int} {l : List Int} (h : CStr (c :: l)) : (IsChar c ∧ c ≠ 0) ∧ CStr l :=
  ⟨h c (by simp), fun x hx => h x (by simp [hx])⟩

theorem CStr.append {a b : List Int} (ha : CStr a) (hb : CStr b) : CStr (a ++ b) := by
  intro c hc; rcases List.mem_append.mp hc with h | h
  · exact ha c h
  · exact hb c h

theorem CStr.left {a b : List Int} (h : CStr (a ++ b)) : CStr a := fun c hc => h c (by simp [hc])
theorem CStr.right {a b : List Int} (h : CStr (a ++ b)) : CStr b := fun c hc => h c (by simp [hc])
theorem CStr.take {a : List Int} (h : CStr a) (n : Nat) : CStr (a.take n) := fun c hc => h c (List.mem_of_mem_take hc)
theorem CStr.drop {a : List Int} (h : CStr a) (n : Nat) : CStr (a.drop n) := fun c hc => h c (List.mem_of_mem_drop hc)
theorem CStr.nil : CStr [] := by intro c hc; simp at hc
theorem CStr.single {c : Int} (h : IsChar c) (h0 : c ≠ 0) : CStr [c] := by intro x hx; simp at hx; subst hx; exact ⟨h, h0⟩

theorem ofNat_toNat_small : ∀ n : Fin 256, (Char.ofNat n.val).toNat = n.val := by decide +kernel

theorem isDigit_iff (ch : Char) : ch.isDigit = true ↔ 48 ≤ ch.toNat ∧ ch.toNat ≤ 57 := by
  simp only [Char.isDigit, Bool.and_eq_true, decide_eq_true_eq, ge_iff_le, UInt32.le_iff_toNat_le, Char.toNat]
  constructor <;> intro h <;> exact h

theorem toChar_toNat (c : Int) : (toChar c).toNat = (c % 256).toNat := by
  have h : (c % 256).toNat < 256 := by omega
  exact ofNat_toNat_small ⟨_, h⟩

theorem toChar_eq_iff (c : Int) (ch : Char) : toChar c = ch ↔ (c % 256).toNat = ch.toNat := by
  rw [← Char.toNat_inj, toChar_toNat]

/-- a 7-bit character constant `v`: the cell equals `v` exactly when it stands for that character -/
theorem toChar_eq_ascii {c : Int} (hc : IsChar c) (ch : Char) (v : Nat) (hv : ch.toNat = v) (h7 : v < 128) : toChar c = ch ↔ c = (v : Int) := by
  rw [toChar_eq_iff, hv]; unfold IsChar at hc; omega

theorem toChar_isDigit (c : Int) : (toChar c).isDigit = true ↔ 48 ≤ c % 256 ∧ c % 256 ≤ 57 := by
  rw [isDigit_iff, toChar_toNat]; omega

theorem toChar_isDigit' {c : Int} (hc : IsChar c) : (toChar c).isDigit = true ↔ 48 ≤ c ∧ c ≤ 57 := by
  rw [toChar_isDigit]; unfold IsChar at hc; omega

theorem toChar_inj {a b : Int} : toChar a = toChar b ↔ a % 256 = b % 256 := by
  rw [toChar_eq_iff, toChar_toNat]; omega

theorem toStr_inj : ∀ {a b : List Int}, toStr a = toStr b ↔ a.map (· % 256) = b.map (· % 256) := by
  intro a
  induction a with
  | nil => intro b; cases b <;> simp
  | cons x xs ih =>
    intro b
    cases b with
    | nil => simp
    | cons y ys => simp [toChar_inj, ih]

/-- on `char` cells the correspondence is one to one -/
theorem toStr_inj_char : ∀ {a b : List Int}, (∀ c ∈ a, IsChar c) → (∀ c ∈ b, IsChar c) → (toStr a = toStr b ↔ a = b) := by
  intro a
  induction a with
  | nil => intro b _ _; cases b <;> simp
  | cons x xs ih =>
    intro b ha hb
    cases b with
    | nil => simp
    | cons y ys =>
      have hx := ha x (by simp); have hy := hb y (by simp)
      simp only [toStr_cons, List.cons.injEq, toChar_inj]
      rw [ih (fun c hc => ha c (by simp [hc])) (fun c hc => hb c (by simp [hc]))]
      unfold IsChar at hx hy
      constructor <;> rintro ⟨h1, h2⟩ <;> exact ⟨by omega, h2⟩

/-- a generated character table (`H4.Gen.Tools.IS_RESERVED_CLASS_k`: codes below 256) as cells -/
def lit (l : List Nat) : List Int := l.map Int.ofNat

theorem toStr_lit (l : List Nat) (h : ∀ v ∈ l, v < 256) : toStr (lit l) = cstr l := by
  induction l with
  | nil => rfl
  | cons v vs ih =>
    have hv := h v (by simp)
    simp only [lit, List.map_cons, toStr_cons, cstr] at ih ⊢
    rw [ih (fun x hx => h x (by simp [hx]))]
    congr 1
    unfold toChar
    congr 1
    simp only [Int.ofNat_eq_natCast]
    omega

/-! ### the string builtins of the translator on such regions -/

open H4.Gen.Fn.Repack2 in
/-- `strcmp` of two NUL-terminated strings (cells of either signedness): never leaves the regions, 0 exactly when the strings are equal -/
theorem strcmpC2_spec : ∀ (a b pa pb : List Int), (∀ c ∈ a, c % 256 ≠ 0) → (∀ c ∈ b, c % 256 ≠ 0) →
    ∃ r, strcmpC (a ++ 0 :: pa) (b ++ 0 :: pb) = some r ∧ (r = 0 ↔ toStr a = toStr b) := by
  intro a
  induction a with
  | nil =>
    intro b pa pb _ hb
    cases b with
    | nil => exact ⟨0, by simp [strcmpC], by simp⟩
    | cons y ys =>
      have := hb y (by simp)
      refine ⟨-1, ?_, by simp⟩
      simp only [List.nil_append, List.cons_append, strcmpC]
      rw [if_pos (by omega), if_pos (by omega)]
  | cons x xs ih =>
    intro b pa pb ha hb
    have hx := ha x (by simp)
    cases b with
    | nil =>
      refine ⟨1, ?_, by simp⟩
      simp only [List.nil_append, List.cons_append, strcmpC]
      rw [if_pos (by omega), if_neg (by omega)]
    | cons y ys =>
      have hy := hb y (by simp)
      simp only [List.cons_append, strcmpC]
      by_cases e : x % 256 = y % 256
      · rw [if_neg (by omega), if_neg (by omega)]
        obtain ⟨r, hr, hr2⟩ := ih ys pa pb (fun c hc => ha c (by simp [hc])) (fun c hc => hb c (by simp [hc]))
        exact ⟨r, hr, by simp [hr2, toChar_inj, e]⟩
      · rw [if_pos e]
        refine ⟨_, rfl, ?_⟩
        constructor
        · intro h; split at h <;> omega
        · intro h; simp [toChar_inj] at h; exact absurd h.1 e

open H4.Gen.Fn.Repack2 in
/-- `strncmp`: 0 exactly when the first `n` characters (fewer when a string ends earlier) are equal -/
theorem strncmpC2_spec : ∀ (n : Nat) (a b pa pb : List Int), (∀ c ∈ a, c % 256 ≠ 0) → (∀ c ∈ b, c % 256 ≠ 0) →
    ∃ r, strncmpC n (a ++ 0 :: pa) (b ++ 0 :: pb) = some r ∧ (r = 0 ↔ (toStr a).take n = (toStr b).take n) := by
  intro n
  induction n with
  | zero => intro a b pa pb _ _; exact ⟨0, by simp [strncmpC], by simp⟩
  | succ n ih =>
    intro a b pa pb ha hb
    cases a with
    | nil =>
      cases b with
      | nil => exact ⟨0, by simp [strncmpC], by simp⟩
      | cons y ys =>
        have := hb y (by simp)
        refine ⟨-1, ?_, by simp⟩
        simp only [List.nil_append, List.cons_append, strncmpC]
        rw [if_pos (by omega), if_pos (by omega)]
    | cons x xs =>
      have hx := ha x (by simp)
      cases b with
      | nil =>
        refine ⟨1, ?_, by simp⟩
        simp only [List.nil_append, List.cons_append, strncmpC]
        rw [if_pos (by omega), if_neg (by omega)]
      | cons y ys =>
        have hy := hb y (by simp)
        simp only [List.cons_append, strncmpC]
        by_cases e : x % 256 = y % 256
        · rw [if_neg (by omega), if_neg (by omega)]
          obtain ⟨r, hr, hr2⟩ := ih xs ys pa pb (fun c hc => ha c (by simp [hc])) (fun c hc => hb c (by simp [hc]))
          exact ⟨r, hr, by simp [hr2, toChar_inj, e]⟩
        · rw [if_pos e]
          refine ⟨_, rfl, ?_⟩
          constructor
          · intro h; split at h <;> omega
          · intro h; simp [toChar_inj] at h; exact absurd h.1 e

theorem CStr.mod_ne {l : List Int} (h : CStr l) : ∀ c ∈ l, c % 256 ≠ 0 := by
  intro c hc; have := h c hc; unfold IsChar at this; omega

theorem lit_mod_ne (l : List Nat) (h : ∀ v ∈ l, 0 < v ∧ v < 256) : ∀ c ∈ lit l, c % 256 ≠ 0 := by
  intro c hc
  simp only [lit, List.mem_map] at hc
  obtain ⟨v, hv, rfl⟩ := hc
  have := h v hv
  simp only [Int.ofNat_eq_natCast]; omega

open H4.Gen.Fn.Repack2 in
theorem strcmp_lit (cls rest : List Int) (hc : CStr cls) (l : List Nat) (hl : ∀ v ∈ l, 0 < v ∧ v < 256) :
    ∃ r, strcmpC (cls ++ 0 :: rest) (lit l ++ [0]) = some r ∧ (r = 0 ↔ toStr cls = cstr l) := by
  obtain ⟨r, h1, h2⟩ := strcmpC2_spec cls (lit l) rest [] hc.mod_ne (lit_mod_ne l hl)
  exact ⟨r, h1, by rw [h2, toStr_lit l fun v hv => (hl v hv).2]⟩

open H4.Gen.Fn.Repack2 in
theorem strncmp_lit (n : Nat) (cls rest : List Int) (hc : CStr cls) (l : List Nat) (hl : ∀ v ∈ l, 0 < v ∧ v < 256) :
    ∃ r, strncmpC n (cls ++ 0 :: rest) (lit l ++ [0]) = some r ∧ (r = 0 ↔ (toStr cls).take n = (cstr l).take n) := by
  obtain ⟨r, h1, h2⟩ := strncmpC2_spec n cls (lit l) rest [] hc.mod_ne (lit_mod_ne l hl)
  exact ⟨r, h1, by rw [h2, toStr_lit l fun v hv => (hl v hv).2]⟩


section helpers
open H4.Gen.Fn.Repack
theorem strcmpC_units : ∀ (a b : List Int), H4.Gen.Fn.Repack.strcmpC a b = H4.Gen.Fn.Repack2.strcmpC a b := by
  intro a
  induction a with
  | nil => intro b; simp [H4.Gen.Fn.Repack.strcmpC, H4.Gen.Fn.Repack2.strcmpC]
  | cons x xs ih =>
    intro b
    cases b with
    | nil => simp [H4.Gen.Fn.Repack.strcmpC, H4.Gen.Fn.Repack2.strcmpC]
    | cons y ys => simp only [H4.Gen.Fn.Repack.strcmpC, H4.Gen.Fn.Repack2.strcmpC, ih]

/-- `strcmp(buf, "<literal>")` on a buffer that holds the string `a` and its NUL -/
theorem strcmp_buf (a junk : List Int) (ha : CStr a) (l : List Int) (hl : ∀ c ∈ l, c % 256 ≠ 0) :
    ∃ r, strcmpC (a ++ 0 :: junk) (l ++ [0]) = some r ∧ (r = 0 ↔ toStr a = toStr l) := by
  rw [strcmpC_units]
  exact strcmpC2_spec a l junk [] ha.mod_ne hl

/-! ### atoi -/

/-- the digit fold of the model's `atoi` -/
def atoiStep (a : Nat) (c : Char) : Nat := 10 * a + (c.toNat - '0'.toNat)

theorem atoi_eq (s : Str) : atoi s = (s.takeWhile Char.isDigit).foldl atoiStep 0 := rfl

theorem atoiDigits_spec : ∀ (sd junk : List Int) (acc : Nat), (∀ c ∈ sd, IsChar c) →
    atoiDigits (sd ++ 0 :: junk) (acc : Int) = some ((((toStr sd).takeWhile Char.isDigit).foldl atoiStep acc : Nat) : Int) := by
  intro sd
  induction sd with
  | nil => intro junk acc _; simp [atoiDigits]
  | cons c cs ih =>
    intro junk acc h
    have hc := h c (by simp)
    by_cases hd : 48 ≤ c ∧ c ≤ 57
    · have hdig : (toChar c).isDigit = true := (toChar_isDigit' hc).mpr hd
      simp only [List.cons_append, atoiDigits, hd, and_self, if_true, toStr_cons, List.takeWhile_cons, hdig, List.foldl_cons]
      have hv : (acc : Int) * 10 + (c - 48) = ((atoiStep acc (toChar c) : Nat) : Int) := by
        have := toChar_toNat c
        simp only [atoiStep, this, show '0'.toNat = 48 from rfl]
        omega
      rw [hv, ih junk _ (fun x hx => h x (by simp [hx]))]
    · have hdig : ¬ (toChar c).isDigit = true := fun h' => hd ((toChar_isDigit' hc).mp h')
      simp [atoiDigits, hd, hdig]

theorem foldl_atoiStep_bound : ∀ (l : Str) (a : Nat), (∀ c ∈ l, c.isDigit = true) → l.foldl atoiStep a + 1 ≤ (a + 1) * 10 ^ l.length := by
  intro l
  induction l with
  | nil => intro a _; simp
  | cons c cs ih =>
    intro a h
    have hc := (isDigit_iff c).mp (h c (by simp))
    have := ih (atoiStep a c) (fun x hx => h x (by simp [hx]))
    simp only [List.foldl_cons, List.length_cons]
    have h2 : atoiStep a c + 1 ≤ (a + 1) * 10 := by simp only [atoiStep, show '0'.toNat = 48 from rfl]; omega
    calc List.foldl atoiStep (atoiStep a c) cs + 1 ≤ (atoiStep a c + 1) * 10 ^ cs.length := this
      _ ≤ ((a + 1) * 10) * 10 ^ cs.length := Nat.mul_le_mul_right _ h2
      _ = (a + 1) * 10 ^ (cs.length + 1) := by rw [Nat.pow_succ, Nat.mul_assoc, Nat.mul_comm 10]

theorem mem_takeWhile {α} (p : α → Bool) : ∀ (l : List α) (c : α), c ∈ l.takeWhile p → p c = true := by
  intro l
  induction l with
  | nil => intro c h; simp at h
  | cons x xs ih =>
    intro c h
    by_cases hx : p x = true
    · rw [List.takeWhile_cons_of_pos hx] at h
      rcases List.mem_cons.mp h with rfl | h
      · exact hx
      · exact ih c h
    · rw [List.takeWhile_cons_of_neg hx] at h; simp at h

theorem length_takeWhile_le {α} (p : α → Bool) : ∀ (l : List α), (l.takeWhile p).length ≤ l.length := by
  intro l
  induction l with
  | nil => simp
  | cons x xs ih =>
    by_cases hx : p x = true
    · rw [List.takeWhile_cons_of_pos hx]; simp; omega
    · rw [List.takeWhile_cons_of_neg hx]; simp

theorem atoi_lt (s : Str) : atoi s < 10 ^ s.length := by
  have h := foldl_atoiStep_bound (s.takeWhile Char.isDigit) 0 (fun c hc => mem_takeWhile _ _ c hc)
  rw [atoi_eq]
  have hl : (s.takeWhile Char.isDigit).length ≤ s.length := length_takeWhile_le _ _
  have : 10 ^ (s.takeWhile Char.isDigit).length ≤ 10 ^ s.length := Nat.pow_le_pow_right (by omega) hl
  omega

/-- the cells a token buffer of `parse_chunk` / `parse_comp` can hold when `atoi` reads it: digits and the letters of `NONE` -/
def TokOK (sd : List Int) : Prop := ∀ c ∈ sd, IsChar c ∧ c ≠ 0 ∧ ¬ (c = 32 ∨ (9 ≤ c ∧ c ≤ 13)) ∧ c ≠ 45 ∧ c ≠ 43

/-- `atoi(buf)` on a token of at most 9 characters followed by its NUL: the model's `atoi`, no overflow, no read past the NUL -/
theorem atoiC_spec (sd junk : List Int) (h : TokOK sd) (hl : sd.length ≤ 9) :
    atoiC (sd ++ 0 :: junk) = some ((atoi (toStr sd) : Nat) : Int) := by
  have hch : ∀ c ∈ sd, IsChar c := fun c hc => (h c hc).1
  have hlt := atoi_lt (toStr sd)
  have hpow : 10 ^ (toStr sd).length ≤ 10 ^ 9 := Nat.pow_le_pow_right (by omega) (by simpa using hl)
  have hrange : -2147483648 ≤ ((atoi (toStr sd) : Nat) : Int) ∧ ((atoi (toStr sd) : Nat) : Int) ≤ 2147483647 := by omega
  cases sd with
  | nil => simp [atoiC, atoiSkip, atoiDigits, atoi]
  | cons c cs =>
    obtain ⟨_, _, hws, h45, h43⟩ := h c (by simp)
    have hd := atoiDigits_spec (c :: cs) junk 0 hch
    have h0 : ((0 : Nat) : Int) = 0 := rfl
    rw [h0, List.cons_append, ← atoi_eq] at hd
    simp only [atoiC, List.cons_append, atoiSkip, hws, if_false, h45, h43, hd, hrange, and_self, if_true]


theorem getD_set_self {l : List Int} {n : Nat} (v : Int) (h : n < l.length) : (l.set n v).getD n 0 = v := by
  simp [List.getD_eq_getElem?_getD, h]

theorem chunkValue_cons (c : Char) (rest sd : Str) (lens : List Nat) : chunkValue (c :: rest) sd lens =
    (if sd.length ≥ SDIM_SZ - 1 || (c = 'x' && rest.isEmpty) then none
    else if !chunkChar c then none
    else if c = 'x' then
      if lens.length ≥ H4_MAX_VAR_DIMS then none
      else
        if atoi sd = 0 then none else chunkValue rest [] (lens ++ [atoi sd])
    else match rest with
      | [] =>
        if lens.length ≥ H4_MAX_VAR_DIMS then none
        else
          if sd ++ [c] = "NONE".toList then some ⟨-2, []⟩
          else
            if atoi (sd ++ [c]) = 0 then none else some ⟨(lens.length + 1 : Nat), lens ++ [atoi (sd ++ [c])]⟩
      | _ :: _ => chunkValue rest (sd ++ [c]) lens) := by
  conv => lhs; unfold chunkValue
  rfl

theorem chunk_loop2_stop (fuel : Nat) (s : parse_chunk.St) (h : ¬ ((s.i < s.len) ∧ ¬(s.done ∨ s.gto))) : parse_chunk.loop2 fuel s = s := by
  cases fuel <;> simp only [parse_chunk.loop2, h, if_false]

/-- what `isdigit((unsigned char)c) || c == 'x' || ...` of the C text says about the character -/
theorem chunkChar_iff {c : Int} (hc : IsChar c) :
    chunkChar (toChar c) = true ↔ ((48 ≤ c % 256 ∧ c % 256 ≤ 57) ∨ c = 120 ∨ c = 78 ∨ c = 79 ∨ c = 69) := by
  simp only [chunkChar, Bool.or_eq_true, decide_eq_true_eq, toChar_isDigit,
    toChar_eq_ascii hc 'x' 120 rfl (by omega), toChar_eq_ascii hc 'N' 78 rfl (by omega), toChar_eq_ascii hc 'O' 79 rfl (by omega),
    toChar_eq_ascii hc 'E' 69 rfl (by omega)]
  simp only [Int.cast_ofNat_Int, or_assoc]

theorem tokOK_snoc {sd : List Int} {c : Int} (h : TokOK sd) (hc : IsChar c)
    (hcc : (48 ≤ c % 256 ∧ c % 256 ≤ 57) ∨ c = 78 ∨ c = 79 ∨ c = 69) : TokOK (sd ++ [c]) := by
  intro x hx
  rcases List.mem_append.mp hx with h' | h'
  · exact h x h'
  · simp at h'; subst h'; unfold IsChar at hc; refine ⟨hc, ?_, ?_, ?_, ?_⟩ <;> omega

theorem TokOK.cstr {sd : List Int} (h : TokOK sd) : CStr sd := fun c hc => ⟨(h c hc).1, (h c hc).2.1⟩

theorem lit_snoc (l : List Nat) (v : Nat) : lit (l ++ [v]) = lit l ++ [(v : Int)] := by simp [lit]


end helpers

/-! ### parse_chunk: the loops -/

section chunk
open H4.Gen.Fn.Repack

/-- `end_obj` after scanning cells from index `i` on: index of the last 58 (`':'`) seen, else the incoming value -/
def lastColonC : List Int → Nat → Int → Int
  | [], _, acc => acc
  | c :: cs, i, acc => lastColonC cs (i + 1) (if c = 58 then (i : Int) else acc)

theorem chunk_loop0 (bs rest : List Int) (hlen : bs.length < 2 ^ 31) :
    ∀ (rem pre : List Int) (s : parse_chunk.St) (fuel : Nat), bs = pre ++ rem →
    s.str = bs ++ 0 :: rest → s.len = bs.length → s.i = pre.length → rem.length ≤ fuel → s.done = false → s.gto = false →
    ∃ c', parse_chunk.loop0 fuel s = { s with
      i := bs.length, c_ := c', end_obj := lastColonC rem pre.length s.end_obj, n := s.n + rem.count 44 } := by
  intro rem
  induction rem with
  | nil =>
    intro pre s fuel hbs hstr hl hi _ hd hg
    have : ¬ (s.i < s.len) := by rw [hi, hl, hbs]; simp
    refine ⟨s.c_, ?_⟩
    cases fuel <;> (simp [parse_chunk.loop0, this, lastColonC, ← hi, hl, hbs]; cases s; simp_all)
  | cons c cs ih =>
    intro pre s fuel hbs hstr hl hi hf hd hg
    obtain ⟨fuel, rfl⟩ : ∃ f, fuel = f + 1 := ⟨fuel - 1, by simp at hf; omega⟩
    have hlt : s.i < s.len := by rw [hi, hl, hbs]; simp; omega
    have hb : (pre.length : Int) < s.str.length := by rw [hstr, hbs]; simp; omega
    have hget : s.str.getD pre.length 0 = c := by rw [hstr, hbs]; simp [List.getD_eq_getElem?_getD]
    rw [parse_chunk.loop0, if_pos ⟨hlt, by simp [hd, hg]⟩]
    have hbody : parse_chunk.loop0.body (fuel + 1) s = { s with
        i := ((pre.length + 1 : Nat) : Int), c_ := c,
        end_obj := if c = 58 then (pre.length : Int) else s.end_obj, n := if c = 44 then s.n + 1 else s.n } := by
      cases s
      simp only at hstr hl hi hd hg hget hb
      subst hi hl hd hg
      have h1 : (0 : Int) ≤ (pre.length : Int) ∧ (pre.length : Int) < _ := ⟨by omega, hb⟩
      simp only [parse_chunk.loop0.body, parse_chunk.chk, h1, Int.toNat_natCast, hget, and_self, decide_true, Bool.not_true, Bool.or_false]
      have hw : ((pre.length : Int) + 1) % 4294967296 = ((pre.length + 1 : Nat) : Int) := by
        have : pre.length < 2 ^ 31 := by rw [hbs] at hlen; simp at hlen; omega
        omega
      by_cases h58 : c = 58 <;> by_cases h44 : c = 44 <;> simp [h58, h44, hw]
    rw [hbody]
    obtain ⟨c', hc'⟩ := ih (pre ++ [c]) { s with
        i := ((pre.length + 1 : Nat) : Int), c_ := c,
        end_obj := if c = 58 then (pre.length : Int) else s.end_obj, n := if c = 44 then s.n + 1 else s.n }
      fuel (by simp [hbs]) hstr hl (by simp) (by simpa using hf) hd hg
    refine ⟨c', ?_⟩
    rw [hc']
    simp only [lastColonC, List.length_append, List.length_singleton, List.count_cons]
    by_cases h44 : c = 44 <;> simp [h44, Int.add_assoc] <;> omega

/-- the name loop on cells: a name is emitted at every 44 (`','`) and at the last cell -/
def namesLoopC : List Int → List Int → Option (List (List Int))
  | [], _ => some []
  | c :: cs, cur =>
    if cur.length ≥ H4_MAX_NC_NAME - 1 then none
    else if c = 44 ∨ cs = [] then (namesLoopC cs []).map ((if c = 44 then cur else cur ++ [c]) :: ·)
    else namesLoopC cs (cur ++ [c])

/-- `strcpy(obj_list[n].obj, name)`: the name and its NUL at cell `n * 256` -/
def putName (blk : List Int) (n : Nat) (nm : List Int) : List Int :=
  blk.take (n * 256) ++ (nm ++ [0]) ++ blk.drop (n * 256 + (nm.length + 1))

def putNames (blk : List Int) : Nat → List (List Int) → List Int
  | _, [] => blk
  | n, nm :: r => putNames (putName blk n nm) (n + 1) r

theorem putName_length (blk : List Int) (n : Nat) (nm : List Int) (h : n * 256 + nm.length + 1 ≤ blk.length) :
    (putName blk n nm).length = blk.length := by
  simp only [putName, List.length_append, List.length_take, List.length_drop, List.length_cons, List.length_nil]; omega

theorem take_name (nm junk : List Int) : (nm ++ 0 :: junk).take (nm.length + 1) = nm ++ [0] := by
  rw [List.take_append, List.take_of_length_le (by omega), Nat.add_sub_cancel_left]; rfl

theorem takeWhile_cstr (nm junk : List Int) (h : CStr nm) : (nm ++ 0 :: junk).takeWhile (· ≠ 0) = nm := by
  induction nm with
  | nil => simp
  | cons c cs ih =>
    have := h.cons
    rw [List.cons_append, List.takeWhile_cons_of_pos (by simpa using this.1.2), ih this.2]

theorem chunk_loop1 (lst tail : List Int) (N : Nat) (hlen : lst.length < 2 ^ 31) :
    ∀ (rem pre cur junk : List Int) (s : parse_chunk.St) (fuel nd : Nat), lst = pre ++ rem →
    s.str = lst ++ tail → s.end_obj = lst.length → s.j = pre.length → s.k = cur.length → s.obj = cur ++ junk → cur.length + junk.length = 256 →
    CStr cur → CStr rem → s.n = nd → s.obj_list = 0 → s.obj_list_blk.length = N * 256 → (rem ≠ [] → nd + rem.count 44 + 1 ≤ N) →
    rem.length ≤ fuel → s.done = false → s.gto = false →
    ∃ j k c n obj blk g, parse_chunk.loop1 fuel s = { s with j := j, k := k, c_ := c, n := n, obj := obj, obj_list_blk := blk, gto := g } ∧
      (match namesLoopC rem cur with
       | none => g = true
       | some names => g = false ∧ n = ((nd + names.length : Nat) : Int) ∧ blk = putNames s.obj_list_blk nd names) := by
  intro rem
  induction rem with
  | nil =>
    intro pre cur junk s fuel nd hl hstr he hj _ _ _ _ _ hn _ _ _ _ hd hg
    have : ¬ (s.j < s.end_obj) := by rw [hj, he, hl]; simp
    refine ⟨s.j, s.k, s.c_, s.n, s.obj, s.obj_list_blk, s.gto, ?_, ?_⟩
    · cases fuel <;> simp [parse_chunk.loop1, this]
    · simp [namesLoopC, putNames, hg, hn]
  | cons c cs ih =>
    intro pre cur junk s fuel nd hl hstr he hj hk hobj hjl hcur hrem hn hol hbl hroom hf hd hg
    obtain ⟨fuel, rfl⟩ : ∃ f, fuel = f + 1 := ⟨fuel - 1, by simp at hf; omega⟩
    have hlt : s.j < s.end_obj := by rw [hj, he, hl]; simp; omega
    have hb : (pre.length : Int) < s.str.length := by rw [hstr, hl]; simp; omega
    have hget : s.str.getD pre.length 0 = c := by rw [hstr, hl]; simp [List.getD_eq_getElem?_getD]
    have hc := hrem.cons
    rw [parse_chunk.loop1, if_pos ⟨hlt, by simp [hd, hg]⟩]
    by_cases hlong : cur.length ≥ H4_MAX_NC_NAME - 1
    · -- the name does not fit: `goto out`
      have hbody : parse_chunk.loop1.body (fuel + 1) s = { s with c_ := c, gto := true } := by
        cases s
        simp only at hstr he hj hk hobj hn hol hbl hd hg hget hb
        subst hj hk hd hg
        have h1 : (0 : Int) ≤ (pre.length : Int) ∧ (pre.length : Int) < _ := ⟨by omega, hb⟩
        have h2 : (cur.length : Int) ≥ 256 - 1 := by simp [H4_MAX_NC_NAME] at hlong; omega
        simp only [parse_chunk.loop1.body, parse_chunk.chk, h1, hget, h2, Int.toNat_natCast, and_self, decide_true, Bool.not_true, Bool.or_false,
          if_true, or_true, Bool.false_eq_true, false_or, ite_true]
      rw [hbody]
      refine ⟨s.j, s.k, c, s.n, s.obj, s.obj_list_blk, true, ?_, ?_⟩
      · cases fuel <;> simp [parse_chunk.loop1]
      · simp [namesLoopC, hlong]
    · have hk254 : cur.length ≤ 254 := by simp [H4_MAX_NC_NAME] at hlong; omega
      obtain ⟨a, b, jr, rfl⟩ : ∃ a b jr, junk = a :: b :: jr := by
        match junk, hjl with
        | [], h => simp at h; omega
        | [_], h => simp at h; omega
        | a :: b :: jr, _ => exact ⟨a, b, jr, rfl⟩
      by_cases hem : c = 44 ∨ cs = []
      · -- a name ends here: `name` and the cells behind it in `obj`
        have hroom' := hroom (by simp)
        obtain ⟨blk, hblk⟩ : ∃ blk, blk = s.obj_list_blk := ⟨_, rfl⟩
        have hbody : parse_chunk.loop1.body (fuel + 1) s = { s with
            c_ := c, obj := List.replicate 256 0, obj_list_blk := putName blk nd (if c = 44 then cur else cur ++ [c]),
            n := ((nd + 1 : Nat) : Int), j := ((pre.length + 1 : Nat) : Int), k := 0 } := by
          cases s
          simp only at hstr he hj hk hobj hn hol hbl hd hg hget hb hblk
          subst hj hk hd hg hobj hn hol he hblk
          have h1 : (0 : Int) ≤ (pre.length : Int) ∧ (pre.length : Int) < _ := ⟨by omega, hb⟩
          have h2 : ¬ ((cur.length : Int) ≥ 256 - 1) := by omega
          have h3 : (0 : Int) ≤ (cur.length : Int) ∧ (cur.length : Int) < ((cur ++ a :: b :: jr).length : Int) := by simp; omega
          have h3' : (0 : Int) ≤ (cur.length : Int) + 1 ∧ (cur.length : Int) + 1 < ((cur ++ a :: b :: jr).length : Int) := by simp; omega
          have hem' : c = 44 ∨ (pre.length : Int) = (lst.length : Int) - 1 := by
            rcases hem with h | h
            · exact Or.inl h
            · right; rw [hl, h]; simp
          have hnd : (0 + (nd : Int) * 256).toNat = nd * 256 := by omega
          have hnN : nd + 1 ≤ N := by simp only [List.count_cons] at hroom'; omega
          have hz : ((0 : Int) + 128) % 256 - 128 = 0 := by decide
          by_cases h44 : c = 44
          · subst h44
            have hset : ((cur ++ a :: b :: jr).set cur.length 44).set cur.length 0 = cur ++ 0 :: b :: jr := by simp
            have htw := takeWhile_cstr cur (b :: jr) hcur
            have htk := take_name cur (b :: jr)
            have hnd2 : (0 + (nd : Int) * 256 + ((cur.length : Int) + 1)).toNat = nd * 256 + (cur.length + 1) := by omega
            have h4 : (0 : Int) ≤ 0 + (nd : Int) * 256 ∧ 0 + (nd : Int) * 256 + ((cur.length : Int) + 1) ≤ (blk.length : Int) := by
              rw [hbl]; omega
            have h5 : (cur ++ 0 :: b :: jr).length = 256 := by simp at hjl ⊢; omega
            have hdrop : (cur ++ 0 :: b :: jr).drop 256 = [] := List.drop_eq_nil_of_le (by omega)
            have hmem : (0 : Int) ∈ cur ++ 0 :: b :: jr := by simp
            simp only [parse_chunk.loop1.body, parse_chunk.chk, h1, hget, h2, h3, Int.toNat_natCast, and_self, decide_true, Bool.not_true, Bool.or_false,
              if_true, or_true, Bool.false_eq_true, false_or, ite_true, if_false, true_or, or_self, ite_false]
            simp only [Int.reduceSub, hset, Int.toNat_zero, List.drop_zero, htw, Int.ofNat_eq_natCast,
              Int.toNat_natCast_add_one, htk, hnd, hnd2, h4, h5, hdrop, hmem, List.length_set, h3.2, Int.reduceToNat, List.take_zero,
              List.nil_append, List.append_nil, Int.reduceLE, Int.reduceAdd, Int.reduceMod, true_and, Std.le_refl, and_self, decide_true, Bool.not_true, Bool.or_false,
              parse_chunk.St.set_obj, parse_chunk.St.set_n, parse_chunk.St.set_k, parse_chunk.St.set_j, putName, Int.natCast_add, Int.cast_ofNat_Int,
              if_true]
          · have hcs : cs = [] := by rcases hem with h | h; exact absurd h h44; exact h
            have hset : ((cur ++ a :: b :: jr).set cur.length c).set (cur.length + 1) 0 = (cur ++ [c]) ++ 0 :: jr := by simp
            have hcn : CStr (cur ++ [c]) := hcur.append (CStr.single hc.1.1 hc.1.2)
            have htw := takeWhile_cstr (cur ++ [c]) jr hcn
            have htk := take_name (cur ++ [c]) jr
            have hnd2 : (0 + (nd : Int) * 256 + (((cur ++ [c]).length : Int) + 1)).toNat = nd * 256 + ((cur ++ [c]).length + 1) := by omega
            have h4 : (0 : Int) ≤ 0 + (nd : Int) * 256 ∧ 0 + (nd : Int) * 256 + (((cur ++ [c]).length : Int) + 1) ≤ (blk.length : Int) := by
              rw [hbl]; simp; omega
            have h5 : ((cur ++ [c]) ++ 0 :: jr).length = 256 := by simp at hjl ⊢; omega
            have hdrop : ((cur ++ [c]) ++ 0 :: jr).drop 256 = [] := List.drop_eq_nil_of_le (by omega)
            have hmem : (0 : Int) ∈ (cur ++ [c]) ++ 0 :: jr := by simp
            have hlast : (lst.length : Int) - 1 = (pre.length : Int) := by rw [hl, hcs]; simp
            simp only [parse_chunk.loop1.body, parse_chunk.chk, h1, hget, h2, h3, h3', h44, hlast, Int.toNat_natCast, and_self, decide_true, Bool.not_true, Bool.or_false,
              if_true, or_true, Bool.false_eq_true, false_or, ite_true, if_false, true_or, or_self, ite_false]
            simp only [Int.reduceSub, hset, Int.toNat_zero, List.drop_zero, htw, Int.ofNat_eq_natCast,
              Int.toNat_natCast_add_one, htk, hnd, hnd2, h4, h5, hdrop, hmem, List.length_set, h3.2, h3'.2, Int.reduceToNat, List.take_zero,
              List.nil_append, List.append_nil, Int.reduceLE, Int.reduceAdd, Int.reduceMod, true_and, Std.le_refl, and_self, decide_true, Bool.not_true, Bool.or_false,
              parse_chunk.St.set_obj, parse_chunk.St.set_n, parse_chunk.St.set_k, parse_chunk.St.set_j, putName, Int.natCast_add, Int.cast_ofNat_Int,
              if_false]
        rw [hbody]
        -- the rest of the list
        have hnames : namesLoopC (c :: cs) cur = (namesLoopC cs []).map ((if c = 44 then cur else cur ++ [c]) :: ·) := by
          rw [namesLoopC, if_neg hlong, if_pos hem]
        obtain ⟨j', k', c', n', obj', blk', g', hrun, hres⟩ := ih (pre ++ [c]) [] (List.replicate 256 0) { s with
            c_ := c, obj := List.replicate 256 0, obj_list_blk := putName blk nd (if c = 44 then cur else cur ++ [c]),
            n := ((nd + 1 : Nat) : Int), j := ((pre.length + 1 : Nat) : Int), k := 0 }
          fuel (nd + 1) (by simp [hl]) hstr he (by simp) rfl rfl (by simp only [List.length_nil, List.length_replicate]) CStr.nil hc.2 rfl hol
          (by
            have hnN : nd + 1 ≤ N := by simp only [List.count_cons] at hroom'; omega
            have hbl' : blk.length = N * 256 := by rw [hblk]; exact hbl
            show (putName blk nd _).length = N * 256
            rw [putName_length _ _ _ (by split <;> (try simp only [List.length_append, List.length_cons, List.length_nil]) <;> omega), hbl'])
          (by
            intro hne
            have h44 : c = 44 := hem.resolve_right hne
            rw [h44, List.count_cons_self] at hroom'
            omega)
          (by simpa using hf) hd hg
        refine ⟨j', k', c', n', obj', blk', g', ?_, ?_⟩
        · rw [hrun]
        · rw [hnames]
          cases hnl : namesLoopC cs [] with
          | none => simpa [hnl] using hres
          | some names =>
            rw [hnl] at hres
            simp only [Option.map_some] at hres ⊢
            obtain ⟨h1, h2, h3⟩ := hres
            refine ⟨h1, by rw [h2]; simp; omega, ?_⟩
            rw [h3, putNames, hblk]
      · -- an ordinary character of a name
        have h44 : ¬ c = 44 := fun h => hem (Or.inl h)
        have hcs : cs ≠ [] := fun h => hem (Or.inr h)
        have hbody : parse_chunk.loop1.body (fuel + 1) s = { s with
            c_ := c, obj := (cur ++ [c]) ++ b :: jr, j := ((pre.length + 1 : Nat) : Int), k := (((cur ++ [c]).length : Nat) : Int) } := by
          cases s
          simp only at hstr he hj hk hobj hn hol hbl hd hg hget hb
          subst hj hk hd hg hobj hn hol he
          have h1 : (0 : Int) ≤ (pre.length : Int) ∧ (pre.length : Int) < _ := ⟨by omega, hb⟩
          have h2 : ¬ ((cur.length : Int) ≥ 256 - 1) := by omega
          have h3 : (0 : Int) ≤ (cur.length : Int) ∧ (cur.length : Int) < ((cur ++ a :: b :: jr).length : Int) := by simp; omega
          have hnl : ¬ ((pre.length : Int) = (lst.length : Int) - 1) := by
            rw [hl]; obtain ⟨y, ys, rfl⟩ := List.exists_cons_of_ne_nil hcs; simp; omega
          have hset : (cur ++ a :: b :: jr).set cur.length c = (cur ++ [c]) ++ b :: jr := by simp
          simp only [parse_chunk.loop1.body, parse_chunk.chk, h1, hget, h2, h3, h44, hnl, Int.toNat_natCast, and_self, decide_true, Bool.not_true, Bool.or_false,
            if_true, or_true, Bool.false_eq_true, false_or, ite_true, if_false, true_or, or_self, ite_false, hset,
            parse_chunk.St.set_obj, parse_chunk.St.set_n, parse_chunk.St.set_k, parse_chunk.St.set_j, Int.natCast_add, Int.cast_ofNat_Int,
            List.length_append, List.length_singleton]
          have h3b : (cur.length : Int) < (cur.length : Int) + ((a :: b :: jr).length : Int) := by simp; omega
          simp only [h3b, and_self, decide_true, Bool.not_true, Bool.or_false]
        rw [hbody]
        have hnames : namesLoopC (c :: cs) cur = namesLoopC cs (cur ++ [c]) := by
          rw [namesLoopC, if_neg hlong, if_neg hem]
        obtain ⟨j', k', c', n', obj', blk', g', hrun, hres⟩ := ih (pre ++ [c]) (cur ++ [c]) (b :: jr) { s with
            c_ := c, obj := (cur ++ [c]) ++ b :: jr, j := ((pre.length + 1 : Nat) : Int), k := (((cur ++ [c]).length : Nat) : Int) }
          fuel nd (by simp [hl]) hstr he (by simp) rfl rfl (by simp at hjl ⊢; omega) (hcur.append (CStr.single hc.1.1 hc.1.2)) hc.2 hn hol hbl
          (by intro _; have := hroom (by simp); rw [List.count_cons_of_ne (fun h => h44 h)] at this; exact this)
          (by simpa using hf) hd hg
        refine ⟨j', k', c', n', obj', blk', g', ?_, ?_⟩
        · rw [hrun]
        · rw [hnames]; exact hres

theorem none_lit : toStr ([78, 79, 78, 69] : List Int) = "NONE".toList := by decide

theorem chunk_loop2 (bs rest : List Int) (hlen : bs.length < 2 ^ 31) :
    ∀ (rem pre sd sj : List Int) (lens : List Nat) (s : parse_chunk.St) (fuel : Nat), bs = pre ++ rem → rem ≠ [] →
    s.str = bs ++ 0 :: rest → s.len = bs.length → s.i = pre.length →
    s.k = sd.length → s.sdim = sd ++ sj → sd.length + sj.length = 10 → TokOK sd →
    s.c_index = lens.length → s.chunk_lengths.take lens.length = lit lens → 32 ≤ s.chunk_lengths.length → lens.length ≤ 32 →
    0 < s.chunk_rank.length → (∀ c ∈ rem, IsChar c ∧ c ≠ 0) → rem.length ≤ fuel → s.done = false → s.gto = false →
    ∃ i k c ci sdim cl cr g, parse_chunk.loop2 fuel s = { s with
        i := i, k := k, c_ := c, c_index := ci, sdim := sdim, chunk_lengths := cl, chunk_rank := cr, gto := g } ∧
      (match chunkValue (toStr rem) (toStr sd) lens with
       | none => g = true
       | some ck => g = false ∧ cr = s.chunk_rank.set 0 ck.rank ∧ (ck.rank = -2 ∨ cl.take ck.lens.length = lit ck.lens)) := by
  intro rem
  induction rem with
  | nil => intro pre sd sj lens s fuel _ h; exact absurd rfl h
  | cons c cs ih =>
    intro pre sd sj lens s fuel hbs _ hstr hl hi hk hsd hsdl htok hci hcl hcll hlens hcr hrem hf hd hg
    obtain ⟨fuel, rfl⟩ : ∃ f, fuel = f + 1 := ⟨fuel - 1, by simp at hf; omega⟩
    have hlt : s.i < s.len := by rw [hi, hl, hbs]; simp; omega
    have hb : (pre.length : Int) < s.str.length := by rw [hstr, hbs]; simp; omega
    have hget : s.str.getD pre.length 0 = c := by rw [hstr, hbs]; simp [List.getD_eq_getElem?_getD]
    have hc := hrem c (by simp)
    have hcs : ∀ x ∈ cs, IsChar x ∧ x ≠ 0 := fun x hx => hrem x (by simp [hx])
    have hlm : ((bs.length : Int) - 1 % 18446744073709551616) % 18446744073709551616 = (bs.length : Int) - 1 := by
      have : 1 ≤ bs.length := by rw [hbs]; simp; omega
      omega
    have hlast : (pre.length : Int) = (bs.length : Int) - 1 ↔ cs = [] := by
      rw [hbs]; cases cs <;> simp <;> omega
    have hx := toChar_eq_ascii hc.1 'x' 120 rfl (by omega)
    have hemp : (toStr cs).isEmpty = true ↔ cs = [] := by cases cs <;> simp
    have hmod : -1 ≤ c % 256 ∧ c % 256 ≤ 255 := by omega
    have hw : ((pre.length : Int) + 1) % 4294967296 = ((pre.length + 1 : Nat) : Int) := by
      have : pre.length < 2 ^ 31 := by rw [hbs] at hlen; simp at hlen; omega
      omega
    rw [parse_chunk.loop2, if_pos ⟨hlt, by simp [hd, hg]⟩]
    -- a rejected string: the body ends with `gto`, the loop stops, the model says `none`
    have reject : ∀ (k' : Int) (sdim' cl' : List Int), parse_chunk.loop2.body (fuel + 1) s = { s with
          c_ := c, k := k', sdim := sdim', chunk_lengths := cl', gto := true } →
        chunkValue (toStr (c :: cs)) (toStr sd) lens = none →
        ∃ i k c' ci sdim cl cr g, parse_chunk.loop2 fuel (parse_chunk.loop2.body (fuel + 1) s) = { s with
            i := i, k := k, c_ := c', c_index := ci, sdim := sdim, chunk_lengths := cl, chunk_rank := cr, gto := g } ∧
          (match chunkValue (toStr (c :: cs)) (toStr sd) lens with
           | none => g = true
           | some ck => g = false ∧ cr = s.chunk_rank.set 0 ck.rank ∧ (ck.rank = -2 ∨ cl.take ck.lens.length = lit ck.lens)) := by
      intro k' sdim' cl' hbody hm
      rw [hbody, hm]
      exact ⟨s.i, k', c, s.c_index, sdim', cl', s.chunk_rank, true, by rw [chunk_loop2_stop]; simp, rfl⟩
    by_cases hL1 : sd.length ≥ SDIM_SZ - 1 ∨ (c = 120 ∧ cs = [])
    · -- the token does not fit in sdim[] / nothing follows the last 'x'
      refine reject s.k s.sdim s.chunk_lengths ?_ ?_
      · cases s
        simp only at hstr hl hi hk hsd hci hcl hcll hcr hd hg hget hb
        subst hi hk hd hg hsd hci hl
        have h1 : (0 : Int) ≤ (pre.length : Int) ∧ (pre.length : Int) < _ := ⟨by omega, hb⟩
        have hA1 : ((sd.length : Int) ≥ 10 - 1 ∨ c = 120 ∧ (pre.length : Int) = (bs.length : Int) - 1) := by
          rcases hL1 with h | ⟨h, h'⟩
          · left; simp [SDIM_SZ] at h; omega
          · right; exact ⟨h, hlast.mpr h'⟩
        simp only [parse_chunk.loop2.body, parse_chunk.chk, h1, hget, hlm, hA1, Int.toNat_natCast, c18logic]
      · have : (toStr sd).length ≥ SDIM_SZ - 1 ∨ (toChar c = 'x' ∧ (toStr cs).isEmpty = true) := by
          rcases hL1 with h | ⟨h, h'⟩
          · left; simpa using h
          · right; exact ⟨hx.mpr (by simpa using h), hemp.mpr h'⟩
        simp only [toStr_cons]
        rw [chunkValue_cons]
        simp only [Bool.or_eq_true, decide_eq_true_eq, Bool.and_eq_true, this, if_true]
    · have hsd9 : sd.length ≤ 8 := by simp [SDIM_SZ] at hL1; omega
      have hP1 : ¬ ((toStr sd).length ≥ SDIM_SZ - 1) := by simp [SDIM_SZ]; omega
      obtain ⟨a, b, jr, rfl⟩ : ∃ a b jr, sj = a :: b :: jr := by
        match sj, hsdl with
        | [], h => simp at h; omega
        | [_], h => simp at h; omega
        | a :: b :: jr, _ => exact ⟨a, b, jr, rfl⟩
      have ha1 : ¬ ((sd.length : Int) ≥ 10 - 1) := by omega
      have hA2 : (0 : Int) ≤ (sd.length : Int) ∧ (sd.length : Int) < ((sd ++ a :: b :: jr).length : Int) := by simp; omega
      have hset1 : (sd ++ a :: b :: jr).set sd.length c = (sd ++ [c]) ++ b :: jr := by simp
      by_cases hcc : chunkChar (toChar c) = true
      · have hcc' := (chunkChar_iff hc.1).mp hcc
        have hA4 : ¬ ((((((¬((if 48 ≤ c % 256 ∧ c % 256 ≤ 57 then 1 else 0) ≠ 0)) ∧ (c ≠ 120)) ∧ (c ≠ 78)) ∧ (c ≠ 79)) ∧ (c ≠ 78)) ∧ (c ≠ 69)) := by
          rintro ⟨⟨⟨⟨⟨h1, h2⟩, h3⟩, h4⟩, _⟩, h6⟩
          rcases hcc' with h | h | h | h | h
          · apply h1; simp [h]
          · exact h2 h
          · exact h3 h
          · exact h4 h
          · exact h6 h
        by_cases h120 : c = 120
        · -- 'x': a length ends here
          have hcsne : cs ≠ [] := fun h => hL1 (Or.inr ⟨h120, h⟩)
          have ha3 : ¬ ((pre.length : Int) = (bs.length : Int) - 1) := fun h => hcsne (hlast.mp h)
          have hmx : toChar c = 'x' := hx.mpr (by simpa using h120)
          have hP3 : (toStr cs).isEmpty = false := by cases cs <;> simp_all
          have hset : ((sd ++ a :: b :: jr).set sd.length c).set sd.length 0 = sd ++ 0 :: b :: jr := by simp
          have hatoi := atoiC_spec sd (b :: jr) htok (by omega)
          by_cases hroom : lens.length ≥ H4_MAX_VAR_DIMS
          · -- too many chunk dimensions
            refine reject (sd.length + 1) ((sd ++ [c]) ++ b :: jr) s.chunk_lengths ?_ ?_
            · cases s
              simp only at hstr hl hi hk hsd hci hcl hcll hcr hd hg hget hb
              subst hi hk hd hg hsd hci hl
              have h1 : (0 : Int) ≤ (pre.length : Int) ∧ (pre.length : Int) < _ := ⟨by omega, hb⟩
              have ha6 : ((lens.length : Int) ≥ 32) := by simp [H4_MAX_VAR_DIMS] at hroom; omega
              simp only [parse_chunk.loop2.body, parse_chunk.chk, h1, hget, hlm, eq_false ha1, eq_false ha3, hA2, hmod, eq_false hA4, eq_true ha6, eq_true h120,
                Int.toNat_natCast, c18logic, hset1]
            · simp only [toStr_cons]
              rw [chunkValue_cons]
              simp only [eq_false hP1, eq_true hmx, hP3, hcc, eq_true hroom, c18logic]
          · have ha6 : ¬ ((lens.length : Int) ≥ 32) := by simp [H4_MAX_VAR_DIMS] at hroom; omega
            have hl32 : lens.length < 32 := by simp [H4_MAX_VAR_DIMS] at hroom; omega
            by_cases hv : atoi (toStr sd) = 0
            · -- a zero length
              refine reject 0 (sd ++ 0 :: b :: jr) (s.chunk_lengths.set lens.length 0) ?_ ?_
              · obtain ⟨cl, hcl0⟩ : ∃ cl, cl = s.chunk_lengths := ⟨_, rfl⟩
                rw [← hcl0]
                cases s
                simp only at hstr hl hi hk hsd hci hcl hcll hcr hd hg hget hb hcl0
                subst hi hk hd hg hsd hci hl hcl0
                have h1 : (0 : Int) ≤ (pre.length : Int) ∧ (pre.length : Int) < _ := ⟨by omega, hb⟩
                simp only [parse_chunk.loop2.body, parse_chunk.chk, h1, hget, hlm, eq_false ha1, eq_false ha3, hA2, hmod, eq_false hA4, eq_false ha6, eq_true h120,
                  Int.toNat_natCast, c18logic]
                have hcll' : (lens.length : Int) < (cl.length : Int) := by omega
                have hgs : (cl.set lens.length 0).getD lens.length 0 = 0 := getD_set_self _ (by omega)
                rw [hv] at hatoi
                simp only [Int.add_sub_cancel, Int.reduceAdd, Int.reduceMod, Int.reduceSub, Int.toNat_natCast, hset, hatoi, Option.getD_some, Option.isSome_some,
                  hgs, List.length_set, hA2, hcll', Int.cast_ofNat_Int, c18logic, Int.natCast_nonneg, parse_chunk.St.set_gto]
              · simp only [toStr_cons]
                rw [chunkValue_cons]
                simp only [eq_false hP1, eq_true hmx, hP3, hcc, eq_false hroom, hv, c18logic]
            · have hbody : parse_chunk.loop2.body (fuel + 1) s = { s with
                  c_ := c, sdim := sd ++ 0 :: b :: jr, k := 0, chunk_lengths := s.chunk_lengths.set lens.length ((atoi (toStr sd) : Nat) : Int),
                  c_index := ((lens.length + 1 : Nat) : Int), i := ((pre.length + 1 : Nat) : Int) } := by
                obtain ⟨cl, hcl0⟩ : ∃ cl, cl = s.chunk_lengths := ⟨_, rfl⟩
                rw [← hcl0]
                cases s
                simp only at hstr hl hi hk hsd hci hcl hcll hcr hd hg hget hb hcl0
                subst hi hk hd hg hsd hci hl hcl0
                have h1 : (0 : Int) ≤ (pre.length : Int) ∧ (pre.length : Int) < _ := ⟨by omega, hb⟩
                simp only [parse_chunk.loop2.body, parse_chunk.chk, h1, hget, hlm, eq_false ha1, eq_false ha3, hA2, hmod, eq_false hA4, eq_false ha6, eq_true h120,
                  Int.toNat_natCast, c18logic]
                have hcll' : (lens.length : Int) < (cl.length : Int) := by omega
                have hgs : (cl.set lens.length ((atoi (toStr sd) : Nat) : Int)).getD lens.length 0 = ((atoi (toStr sd) : Nat) : Int) :=
                  getD_set_self _ (by omega)
                have hvz : ¬ (((atoi (toStr sd) : Nat) : Int) = 0) := by omega
                simp only [Int.add_sub_cancel, Int.reduceAdd, Int.reduceMod, Int.reduceSub, Int.toNat_natCast, hset, hatoi, Option.getD_some, Option.isSome_some,
                  hgs, eq_false hvz, List.length_set, hA2, hcll', hw, Int.natCast_add, Int.cast_ofNat_Int, c18logic, Int.natCast_nonneg,
                  parse_chunk.St.set_gto, parse_chunk.St.set_c_index, parse_chunk.St.set_i]
              rw [hbody]
              obtain ⟨i', k', c', ci', sdim', cl', cr', g', hrun, hres⟩ := ih (pre ++ [c]) [] (sd ++ 0 :: b :: jr) (lens ++ [atoi (toStr sd)]) { s with
                  c_ := c, sdim := sd ++ 0 :: b :: jr, k := 0, chunk_lengths := s.chunk_lengths.set lens.length ((atoi (toStr sd) : Nat) : Int),
                  c_index := ((lens.length + 1 : Nat) : Int), i := ((pre.length + 1 : Nat) : Int) }
                fuel (by simp [hbs]) hcsne hstr hl (by simp) rfl rfl (by simp at hsdl ⊢; omega) (by intro x hx; simp at hx) (by simp)
                (by
                  show (s.chunk_lengths.set lens.length _).take (lens ++ [atoi (toStr sd)]).length = _
                  rw [List.length_append, List.length_singleton, H4.C2L.take_set_succ _ _ _ (by omega), hcl, lit_snoc])
                (by show 32 ≤ (s.chunk_lengths.set _ _).length; rw [List.length_set]; exact hcll)
                (by simp; omega) hcr hcs (by simpa using hf) hd hg
              refine ⟨i', k', c', ci', sdim', cl', cr', g', by rw [hrun], ?_⟩
              simp only [toStr_cons]
              rw [chunkValue_cons]
              simp only [eq_false hP1, eq_true hmx, hP3, hcc, eq_false hroom, eq_false hv, c18logic]
              exact hres
        · -- a digit or a letter of NONE
          have hmx : ¬ toChar c = 'x' := fun h => h120 (by simpa using hx.mp h)
          have hcc2 : (48 ≤ c % 256 ∧ c % 256 ≤ 57) ∨ c = 78 ∨ c = 79 ∨ c = 69 := by
            rcases hcc' with h | h | h | h | h
            · exact Or.inl h
            · exact absurd h h120
            · exact Or.inr (Or.inl h)
            · exact Or.inr (Or.inr (Or.inl h))
            · exact Or.inr (Or.inr (Or.inr h))
          have htok' := tokOK_snoc htok hc.1 hcc2
          by_cases hcse : cs = []
          · -- the last character of the string
            subst hcse
            have ha3 : (pre.length : Int) = (bs.length : Int) - 1 := hlast.mpr rfl
            have hset : ((sd ++ a :: b :: jr).set sd.length c).set (sd.length + 1) 0 = (sd ++ [c]) ++ 0 :: jr := by simp
            have hatoi := atoiC_spec (sd ++ [c]) jr htok' (by simp; omega)
            obtain ⟨r, hr, hr0⟩ := strcmp_buf (sd ++ [c]) jr htok'.cstr [78, 79, 78, 69] (by decide)
            rw [none_lit] at hr0
            simp only [List.cons_append, List.nil_append] at hr
            have hA2' : (0 : Int) ≤ (sd.length : Int) + 1 ∧ (sd.length : Int) + 1 < ((sd ++ a :: b :: jr).length : Int) := by simp; omega
            have stop : ∀ (st : parse_chunk.St), st.i = ((pre.length + 1 : Nat) : Int) → st.len = s.len → parse_chunk.loop2 fuel st = st := by
              intro st h1 h2
              apply chunk_loop2_stop
              rw [h1, h2, hl, hbs]; simp
            by_cases hroom : lens.length ≥ H4_MAX_VAR_DIMS
            · refine reject (sd.length + 1) ((sd ++ [c]) ++ b :: jr) s.chunk_lengths ?_ ?_
              · cases s
                simp only at hstr hl hi hk hsd hci hcl hcll hcr hd hg hget hb
                subst hi hk hd hg hsd hci hl
                have h1 : (0 : Int) ≤ (pre.length : Int) ∧ (pre.length : Int) < _ := ⟨by omega, hb⟩
                have ha6 : ((lens.length : Int) ≥ 32) := by simp [H4_MAX_VAR_DIMS] at hroom; omega
                simp only [parse_chunk.loop2.body, parse_chunk.chk, h1, hget, hlm, eq_false ha1, eq_true ha3, hA2, hmod, eq_false hA4, eq_true ha6, eq_false h120,
                  Int.toNat_natCast, c18logic, hset1]
              · simp only [toStr_cons, toStr_nil]
                rw [chunkValue_cons]
                simp only [eq_false hP1, eq_false hmx, hcc, eq_true hroom, c18logic]
            · have ha6 : ¬ ((lens.length : Int) ≥ 32) := by simp [H4_MAX_VAR_DIMS] at hroom; omega
              have hl32 : lens.length < 32 := by simp [H4_MAX_VAR_DIMS] at hroom; omega
              by_cases hnone : toStr (sd ++ [c]) = "NONE".toList
              · -- NONE
                have hr' : r = 0 := hr0.mpr hnone
                subst hr'
                have hbody : parse_chunk.loop2.body (fuel + 1) s = { s with
                    c_ := c, sdim := (sd ++ [c]) ++ 0 :: jr, k := 0, chunk_rank := s.chunk_rank.set 0 (-2), i := ((pre.length + 1 : Nat) : Int) } := by
                  obtain ⟨cr, hcr0⟩ : ∃ cr, cr = s.chunk_rank := ⟨_, rfl⟩
                  rw [← hcr0]
                  cases s
                  simp only at hstr hl hi hk hsd hci hcl hcll hcr hd hg hget hb hcr0
                  subst hi hk hd hg hsd hci hl hcr0
                  have h1 : (0 : Int) ≤ (pre.length : Int) ∧ (pre.length : Int) < _ := ⟨by omega, hb⟩
                  simp only [parse_chunk.loop2.body, parse_chunk.chk, h1, hget, hlm, eq_false ha1, eq_true ha3, hA2, hmod, eq_false hA4, eq_false ha6, eq_false h120,
                    Int.toNat_natCast, c18logic]
                  have hcr' : (0 : Int) < (cr.length : Int) := by omega
                  simp only [Int.reduceAdd, Int.reduceMod, Int.reduceSub, Int.reduceNeg, Int.toNat_natCast_add_one, Int.toNat_zero, hset, hr, Option.getD_some, Option.isSome_some,
                    List.length_set, hA2', hcr, hw, Int.cast_ofNat_Int, c18logic,
                    parse_chunk.St.set_chunk_rank, parse_chunk.St.set_i]
                rw [hbody]
                refine ⟨((pre.length + 1 : Nat) : Int), 0, c, s.c_index, (sd ++ [c]) ++ 0 :: jr, s.chunk_lengths, s.chunk_rank.set 0 (-2), false, ?_, ?_⟩
                · rw [hg]; exact stop _ rfl rfl
                · simp only [toStr_cons, toStr_nil]
                  rw [chunkValue_cons]
                  have hnone' : toStr sd ++ [toChar c] = "NONE".toList := by simpa using hnone
                  simp only [eq_false hP1, eq_false hmx, hcc, eq_false hroom, hnone', c18logic]
              · have hrne : ¬ r = 0 := fun h => hnone (hr0.mp h)
                have hnone' : ¬ (toStr sd ++ [toChar c] = "NONE".toList) := by simpa using hnone
                by_cases hv : atoi (toStr (sd ++ [c])) = 0
                · refine reject 0 ((sd ++ [c]) ++ 0 :: jr) (s.chunk_lengths.set lens.length 0) ?_ ?_
                  · obtain ⟨cl, hcl0⟩ : ∃ cl, cl = s.chunk_lengths := ⟨_, rfl⟩
                    rw [← hcl0]
                    cases s
                    simp only at hstr hl hi hk hsd hci hcl hcll hcr hd hg hget hb hcl0
                    subst hi hk hd hg hsd hci hl hcl0
                    have h1 : (0 : Int) ≤ (pre.length : Int) ∧ (pre.length : Int) < _ := ⟨by omega, hb⟩
                    simp only [parse_chunk.loop2.body, parse_chunk.chk, h1, hget, hlm, eq_false ha1, eq_true ha3, hA2, hmod, eq_false hA4, eq_false ha6, eq_false h120,
                      Int.toNat_natCast, c18logic]
                    have hcll' : (lens.length : Int) < (cl.length : Int) := by omega
                    have hgs : (cl.set lens.length 0).getD lens.length 0 = 0 := getD_set_self _ (by omega)
                    rw [hv] at hatoi
                    simp only [Int.reduceAdd, Int.reduceMod, Int.reduceSub, Int.toNat_natCast_add_one, hset, hr, eq_false hrne, hatoi, Option.getD_some, Option.isSome_some,
                      hgs, List.length_set, hA2', hcll', Int.cast_ofNat_Int, c18logic, Int.natCast_nonneg, parse_chunk.St.set_gto]
                  · simp only [toStr_cons, toStr_nil]
                    rw [chunkValue_cons]
                    have hv' : atoi (toStr sd ++ [toChar c]) = 0 := by simpa using hv
                    simp only [eq_false hP1, eq_false hmx, hcc, eq_false hroom, eq_false hnone', hv', c18logic]
                · -- the last length
                  have hbody : parse_chunk.loop2.body (fuel + 1) s = { s with
                      c_ := c, sdim := (sd ++ [c]) ++ 0 :: jr, k := 0,
                      chunk_lengths := s.chunk_lengths.set lens.length ((atoi (toStr (sd ++ [c])) : Nat) : Int),
                      chunk_rank := s.chunk_rank.set 0 ((lens.length + 1 : Nat) : Int), i := ((pre.length + 1 : Nat) : Int) } := by
                    obtain ⟨cl, hcl0⟩ : ∃ cl, cl = s.chunk_lengths := ⟨_, rfl⟩
                    obtain ⟨cr, hcr0⟩ : ∃ cr, cr = s.chunk_rank := ⟨_, rfl⟩
                    rw [← hcl0, ← hcr0]
                    cases s
                    simp only at hstr hl hi hk hsd hci hcl hcll hcr hd hg hget hb hcl0 hcr0
                    subst hi hk hd hg hsd hci hl hcl0 hcr0
                    have h1 : (0 : Int) ≤ (pre.length : Int) ∧ (pre.length : Int) < _ := ⟨by omega, hb⟩
                    simp only [parse_chunk.loop2.body, parse_chunk.chk, h1, hget, hlm, eq_false ha1, eq_true ha3, hA2, hmod, eq_false hA4, eq_false ha6, eq_false h120,
                      Int.toNat_natCast, c18logic]
                    have hcll' : (lens.length : Int) < (cl.length : Int) := by omega
                    have hcr' : (0 : Int) < (cr.length : Int) := by omega
                    have hgs : (cl.set lens.length ((atoi (toStr (sd ++ [c])) : Nat) : Int)).getD lens.length 0 = ((atoi (toStr (sd ++ [c])) : Nat) : Int) :=
                      getD_set_self _ (by omega)
                    have hvz : ¬ (((atoi (toStr (sd ++ [c])) : Nat) : Int) = 0) := by omega
                    simp only [Int.reduceAdd, Int.reduceMod, Int.reduceSub, Int.toNat_natCast_add_one, Int.toNat_zero, hset, hr, eq_false hrne, hatoi, Option.getD_some, Option.isSome_some,
                      hgs, eq_false hvz, List.length_set, hA2', hcll', hcr, hw, Int.natCast_add, Int.cast_ofNat_Int, c18logic, Int.natCast_nonneg,
                      parse_chunk.St.set_gto, parse_chunk.St.set_chunk_rank, parse_chunk.St.set_i]
                  rw [hbody]
                  refine ⟨((pre.length + 1 : Nat) : Int), 0, c, s.c_index, (sd ++ [c]) ++ 0 :: jr,
                    s.chunk_lengths.set lens.length ((atoi (toStr (sd ++ [c])) : Nat) : Int), s.chunk_rank.set 0 ((lens.length + 1 : Nat) : Int), false, ?_, ?_⟩
                  · rw [hg]; exact stop _ rfl rfl
                  · simp only [toStr_cons, toStr_nil]
                    rw [chunkValue_cons]
                    have hv' : ¬ atoi (toStr sd ++ [toChar c]) = 0 := by simpa using hv
                    simp only [eq_false hP1, eq_false hmx, hcc, eq_false hroom, eq_false hnone', eq_false hv', c18logic]
                    right
                    have hv'' : atoi (toStr sd ++ [toChar c]) = atoi (toStr (sd ++ [c])) := by simp
                    rw [hv'', List.length_append, List.length_singleton, H4.C2L.take_set_succ _ _ _ (by omega), hcl, lit_snoc]
          · -- more characters follow: the character goes into sdim[]
            have ha3 : ¬ ((pre.length : Int) = (bs.length : Int) - 1) := fun h => hcse (hlast.mp h)
            have hbody : parse_chunk.loop2.body (fuel + 1) s = { s with
                c_ := c, sdim := (sd ++ [c]) ++ b :: jr, k := (((sd ++ [c]).length : Nat) : Int), i := ((pre.length + 1 : Nat) : Int) } := by
              cases s
              simp only at hstr hl hi hk hsd hci hcl hcll hcr hd hg hget hb
              subst hi hk hd hg hsd hci hl
              have h1 : (0 : Int) ≤ (pre.length : Int) ∧ (pre.length : Int) < _ := ⟨by omega, hb⟩
              simp only [parse_chunk.loop2.body, parse_chunk.chk, h1, hget, hlm, eq_false ha1, eq_false ha3, hA2, hmod, eq_false hA4, eq_false h120,
                Int.toNat_natCast, c18logic, hset1, hw, List.length_append, List.length_singleton, Int.natCast_add, Int.cast_ofNat_Int,
                parse_chunk.St.set_i]
              have h3b : (sd.length : Int) < (sd.length : Int) + ((a :: b :: jr).length : Int) := by simp; omega
              simp only [h3b, c18logic]
            rw [hbody]
            obtain ⟨i', k', c', ci', sdim', cl', cr', g', hrun, hres⟩ := ih (pre ++ [c]) (sd ++ [c]) (b :: jr) lens { s with
                c_ := c, sdim := (sd ++ [c]) ++ b :: jr, k := (((sd ++ [c]).length : Nat) : Int), i := ((pre.length + 1 : Nat) : Int) }
              fuel (by simp [hbs]) hcse hstr hl (by simp) rfl rfl (by simp at hsdl ⊢; omega) htok' hci hcl hcll hlens hcr hcs (by simpa using hf) hd hg
            refine ⟨i', k', c', ci', sdim', cl', cr', g', by rw [hrun], ?_⟩
            obtain ⟨y, ys, rfl⟩ := List.exists_cons_of_ne_nil hcse
            simp only [toStr_cons]
            rw [chunkValue_cons]
            simp only [eq_false hP1, eq_false hmx, hcc, List.isEmpty_cons, c18logic]
            simpa using hres
      · -- a character that cannot stand in a chunk shape
        have hccf : chunkChar (toChar c) = false := by simpa using hcc
        have hA4 : ((((((¬((if 48 ≤ c % 256 ∧ c % 256 ≤ 57 then 1 else 0) ≠ 0)) ∧ (c ≠ 120)) ∧ (c ≠ 78)) ∧ (c ≠ 79)) ∧ (c ≠ 78)) ∧ (c ≠ 69)) := by
          have := mt (chunkChar_iff hc.1).mpr hcc
          simp only [not_or] at this
          obtain ⟨h1, h2, h3, h4, h5⟩ := this
          refine ⟨⟨⟨⟨⟨?_, h2⟩, h3⟩, h4⟩, h3⟩, h5⟩
          simp [h1]
        have h120 : ¬ c = 120 := hA4.1.1.1.1.2
        have hmx : ¬ toChar c = 'x' := fun h => h120 (by simpa using hx.mp h)
        refine reject (sd.length + 1) ((sd ++ [c]) ++ b :: jr) s.chunk_lengths ?_ ?_
        · cases s
          simp only at hstr hl hi hk hsd hci hcl hcll hcr hd hg hget hb
          subst hi hk hd hg hsd hci hl
          have h1 : (0 : Int) ≤ (pre.length : Int) ∧ (pre.length : Int) < _ := ⟨by omega, hb⟩
          simp only [parse_chunk.loop2.body, parse_chunk.chk, h1, hget, hlm, eq_false ha1, hA2, hmod, eq_true hA4, eq_false h120,
            Int.toNat_natCast, c18logic, hset1]
        · simp only [toStr_cons]
          rw [chunkValue_cons]
          simp only [eq_false hP1, eq_false hmx, hccf, c18logic]

/-! ### the cell-level scanners and the model -/

def encPos : Option Nat → Int
  | none => -1
  | some k => (k : Int)

theorem lastColonC_model : ∀ (l : List Int) (i : Nat) (acc : Option Nat), (∀ c ∈ l, IsChar c) →
    lastColonC l i (encPos acc) = encPos (lastColonAux (toStr l) i acc) := by
  intro l
  induction l with
  | nil => intro i acc _; rfl
  | cons c cs ih =>
    intro i acc h
    have hc := h c (by simp)
    have h58 := toChar_eq_ascii hc ':' 58 rfl (by omega)
    simp only [lastColonC, toStr_cons, lastColonAux]
    by_cases e : c = 58
    · have : toChar c = ':' := h58.mpr (by simpa using e)
      rw [if_pos e, if_pos this]
      exact ih (i + 1) (some i) (fun x hx => h x (by simp [hx]))
    · have : ¬ toChar c = ':' := fun h' => e (by simpa using h58.mp h')
      rw [if_neg e, if_neg this]
      exact ih (i + 1) acc (fun x hx => h x (by simp [hx]))

theorem lastColonC_eq (l : List Int) (h : ∀ c ∈ l, IsChar c) : lastColonC l 0 (-1) = encPos (lastColon (toStr l)) :=
  lastColonC_model l 0 none h

theorem lastColonAux_bound : ∀ (l : Str) (i : Nat) (acc : Option Nat) (e : Nat), lastColonAux l i acc = some e →
    (acc = some e) ∨ (i ≤ e ∧ e < i + l.length ∧ l.getD (e - i) ' ' = ':') := by
  intro l
  induction l with
  | nil => intro i acc e h; left; simpa [lastColonAux] using h
  | cons c cs ih =>
    intro i acc e h
    simp only [lastColonAux] at h
    rcases ih (i + 1) _ e h with h' | ⟨h1, h2, h3⟩
    · split at h'
      · next hc =>
        right
        have : i = e := by simpa using h'
        subst this
        simp [hc]
      · left; exact h'
    · right
      refine ⟨by omega, by simp; omega, ?_⟩
      have : e - i = (e - (i + 1)) + 1 := by omega
      rw [this]; simpa using h3

theorem lastColon_bound (l : Str) (e : Nat) (h : lastColon l = some e) : e < l.length ∧ l.getD e ' ' = ':' := by
  rcases lastColonAux_bound l 0 none e h with h' | ⟨_, h2, h3⟩
  · simp at h'
  · exact ⟨by omega, by simpa using h3⟩

theorem count_model : ∀ (l : List Int), (∀ c ∈ l, IsChar c) → (toStr l).count ',' = l.count 44 := by
  intro l
  induction l with
  | nil => intro _; rfl
  | cons c cs ih =>
    intro h
    have hc := h c (by simp)
    have h44 := toChar_eq_ascii hc ',' 44 rfl (by omega)
    simp only [toStr_cons, List.count_cons, ih (fun x hx => h x (by simp [hx]))]
    congr 1
    by_cases e : c = 44
    · subst e
      have : toChar 44 = ',' := by decide
      simp [this]
    · have : ¬ toChar c = ',' := fun h' => e (by simpa using h44.mp h')
      simp [e, this]

theorem namesLoopC_model : ∀ (l cur : List Int), (∀ c ∈ l, IsChar c) →
    (namesLoopC l cur).map (fun ns => ns.map toStr) = namesLoop (toStr l) (toStr cur) := by
  intro l
  induction l with
  | nil => intro cur _; simp [namesLoopC, namesLoop]
  | cons c cs ih =>
    intro cur h
    have hc := h c (by simp)
    have h44 := toChar_eq_ascii hc ',' 44 rfl (by omega)
    have hcs : ∀ x ∈ cs, IsChar x := fun x hx => h x (by simp [hx])
    by_cases hlong : cur.length ≥ H4_MAX_NC_NAME - 1
    · have : (toStr cur).length ≥ H4_MAX_NC_NAME - 1 := by simpa using hlong
      cases cs <;> simp [namesLoopC, namesLoop, hlong, this]
    · have hl' : ¬ (toStr cur).length ≥ H4_MAX_NC_NAME - 1 := by simpa using hlong
      by_cases e : c = 44
      · subst e
        have he : toChar 44 = ',' := by decide
        cases cs with
        | nil => simp [namesLoopC, namesLoop, hlong, hl', he]
        | cons y ys =>
          have := ih [] hcs
          simp only [toStr_cons, toStr_nil] at this
          simp only [namesLoopC, hlong, if_false, true_or, if_true, toStr_cons, namesLoop, hl', he, ← this, Option.map_map]
          congr 1
      · have he : ¬ toChar c = ',' := fun h' => e (by simpa using h44.mp h')
        cases cs with
        | nil => simp [namesLoopC, namesLoop, hlong, hl', e, he]
        | cons y ys =>
          have := ih (cur ++ [c]) hcs
          simp only [toStr_cons, toStr_append, toStr_nil] at this
          simp only [namesLoopC, hlong, if_false, e, false_or, reduceCtorEq, toStr_cons, namesLoop, hl', he, ← this]

/-! ### the names stored in the object list -/

/-- number of names the loop stores: one per comma, and one more for the characters after the last comma -/
theorem namesLoopC_length : ∀ (l cur : List Int) (names : List (List Int)), namesLoopC l cur = some names →
    names.length = l.count 44 + (if l = [] ∨ l.getLast? = some 44 then 0 else 1) := by
  intro l
  induction l with
  | nil => intro cur names h; simp [namesLoopC] at h; subst h; simp
  | cons c cs ih =>
    intro cur names h
    rw [namesLoopC] at h
    split at h
    · simp at h
    · split at h
      · next hem =>
        cases hr : namesLoopC cs [] with
        | none => simp [hr] at h
        | some r =>
          rw [hr] at h
          simp only [Option.map_some, Option.some.injEq] at h
          subst h
          have := ih [] r hr
          simp only [List.length_cons, this, List.count_cons]
          rcases hem with h44 | hnil
          · subst h44
            cases cs with
            | nil => simp
            | cons y ys => simp [List.getLast?_cons_cons]; omega
          · subst hnil
            by_cases h44 : c = 44 <;> simp [h44]
      · next hem =>
        have hc : ¬ c = 44 := fun h' => hem (Or.inl h')
        have hcs : cs ≠ [] := fun h' => hem (Or.inr h')
        have := ih (cur ++ [c]) names h
        obtain ⟨y, ys, rfl⟩ := List.exists_cons_of_ne_nil hcs
        simp only [List.count_cons, this, List.getLast?_cons_cons]
        simp [hc]

theorem namesLoopC_names : ∀ (l cur : List Int) (names : List (List Int)), namesLoopC l cur = some names → CStr l → CStr cur →
    ∀ nm ∈ names, nm.length ≤ 255 ∧ CStr nm := by
  intro l
  induction l with
  | nil => intro cur names h _ _ nm hnm; simp [namesLoopC] at h; subst h; simp at hnm
  | cons c cs ih =>
    intro cur names h hl hcur nm hnm
    have hc := hl.cons
    rw [namesLoopC] at h
    split at h
    · simp at h
    · next hlong =>
      have hk : cur.length ≤ 254 := by simp [H4_MAX_NC_NAME] at hlong; omega
      split at h
      · cases hr : namesLoopC cs [] with
        | none => simp [hr] at h
        | some r =>
          rw [hr] at h
          simp only [Option.map_some, Option.some.injEq] at h
          subst h
          rcases List.mem_cons.mp hnm with rfl | hin
          · split
            · exact ⟨by omega, hcur⟩
            · exact ⟨by simp; omega, hcur.append (CStr.single hc.1.1 hc.1.2)⟩
          · exact ih [] r hr hc.2 CStr.nil nm hin
      · exact ih (cur ++ [c]) names h hc.2 (hcur.append (CStr.single hc.1.1 hc.1.2)) nm hnm

/-- the cells of the string that starts at cell `p` of a region -/
def cstrAt (blk : List Int) (p : Nat) : List Int := (blk.drop p).takeWhile (· ≠ 0)

theorem putName_prefix (blk : List Int) (n : Nat) (nm : List Int) (m : Nat) (hm : m ≤ n * 256) (hb : n * 256 ≤ blk.length) :
    (putName blk n nm).take m = blk.take m := by
  unfold putName
  rw [List.append_assoc, List.take_append_of_le_length (by simp; omega), List.take_take, Nat.min_eq_left hm]

theorem putName_row (blk : List Int) (n : Nat) (nm : List Int) (hnm : CStr nm) (hb : n * 256 ≤ blk.length) :
    cstrAt (putName blk n nm) (n * 256) = nm := by
  unfold putName cstrAt
  have h1 : (blk.take (n * 256)).length = n * 256 := by simp; omega
  rw [List.append_assoc, List.drop_append_of_le_length (by omega), List.drop_of_length_le (by omega), List.nil_append,
    List.append_assoc]
  exact takeWhile_cstr nm _ hnm

theorem drop_take_congr (a b : List Int) (m p q : Nat) (h : a.take m = b.take m) (hpq : p + q ≤ m) :
    (a.drop p).take q = (b.drop p).take q := by
  have ha : (a.drop p).take q = ((a.take m).drop p).take q := by
    rw [List.drop_take, List.take_take, Nat.min_eq_left (by omega)]
  have hb : (b.drop p).take q = ((b.take m).drop p).take q := by
    rw [List.drop_take, List.take_take, Nat.min_eq_left (by omega)]
  rw [ha, hb, h]

theorem putNames_length : ∀ (names : List (List Int)) (blk : List Int) (n N : Nat), blk.length = N * 256 → n + names.length ≤ N →
    (∀ nm ∈ names, nm.length ≤ 255) → (putNames blk n names).length = N * 256 := by
  intro names
  induction names with
  | nil => intro blk n N h _ _; exact h
  | cons nm r ih =>
    intro blk n N h hn hl
    have h255 := hl nm (by simp)
    simp only [List.length_cons] at hn
    have hlen1 : (putName blk n nm).length = N * 256 := by rw [putName_length _ _ _ (by omega), h]
    rw [putNames]
    exact ih (putName blk n nm) (n + 1) N hlen1 (by omega) (fun x hx => hl x (by simp [hx]))

theorem putNames_prefix : ∀ (names : List (List Int)) (blk : List Int) (n N m : Nat), blk.length = N * 256 → n + names.length ≤ N →
    (∀ nm ∈ names, nm.length ≤ 255) → m ≤ n * 256 → (putNames blk n names).take m = blk.take m := by
  intro names
  induction names with
  | nil => intro blk n N m _ _ _ _; rfl
  | cons nm r ih =>
    intro blk n N m h hn hl hm
    have h255 := hl nm (by simp)
    simp only [List.length_cons] at hn
    have hlen1 : (putName blk n nm).length = N * 256 := by rw [putName_length _ _ _ (by omega), h]
    have hm' : m ≤ (n + 1) * 256 := by omega
    rw [putNames, ih (putName blk n nm) (n + 1) N m hlen1 (by omega) (fun x hx => hl x (by simp [hx])) hm']
    exact putName_prefix blk n nm m hm (by omega)

/-- row `nd + i` of the object list starts with the i-th name and its NUL -/
theorem putNames_rows : ∀ (names : List (List Int)) (blk : List Int) (n N : Nat), blk.length = N * 256 → n + names.length ≤ N →
    (∀ nm ∈ names, nm.length ≤ 255) →
    ∀ i (h : i < names.length), ((putNames blk n names).drop ((n + i) * 256)).take (names[i].length + 1) = names[i] ++ [0] := by
  intro names
  induction names with
  | nil => intro blk n N _ _ _ i h; simp at h
  | cons nm r ih =>
    intro blk n N hb hn hl i hi
    have h255 := hl nm (by simp)
    simp only [List.length_cons] at hn
    have hlen1 : (putName blk n nm).length = N * 256 := by rw [putName_length _ _ _ (by omega), hb]
    cases i with
    | zero =>
      simp only [Nat.add_zero, List.getElem_cons_zero]
      rw [putNames]
      have hpre := putNames_prefix r (putName blk n nm) (n + 1) N ((n + 1) * 256) hlen1 (by omega) (fun x hx => hl x (by simp [hx])) (Nat.le_refl _)
      rw [drop_take_congr _ _ ((n + 1) * 256) (n * 256) (nm.length + 1) hpre (by omega)]
      unfold putName
      have h1 : (blk.take (n * 256)).length = n * 256 := by simp; omega
      rw [List.append_assoc, List.drop_append_of_le_length (by omega), List.drop_of_length_le (by omega), List.nil_append,
        List.take_append_of_le_length (by simp), List.take_of_length_le (by simp)]
    | succ i =>
      rw [putNames]
      have := ih (putName blk n nm) (n + 1) N hlen1 (by omega) (fun x hx => hl x (by simp [hx])) i (by simpa using hi)
      simp only [List.getElem_cons_succ]
      rw [show n + (i + 1) = n + 1 + i by omega]
      exact this

theorem cstrAt_of_row (blk : List Int) (p : Nat) (nm : List Int) (hnm : CStr nm) (h : (blk.drop p).take (nm.length + 1) = nm ++ [0]) :
    cstrAt blk p = nm := by
  unfold cstrAt
  have : blk.drop p = (nm ++ [0]) ++ (blk.drop p).drop (nm.length + 1) := by
    rw [← h, List.take_append_drop]
  rw [this, List.append_assoc]
  exact takeWhile_cstr nm _ hnm


/-! ### parse_chunk: the straight-line code around the loops, cut into pieces (copies of the generated text, glued by `rfl`) -/

/-- up to the first loop -/
def pkA (str n_objs chunk_lengths chunk_rank : List Int) : parse_chunk.St :=
  let s : parse_chunk.St := { str := str, n_objs := n_objs, chunk_lengths := chunk_lengths, chunk_rank := chunk_rank, obj := List.replicate 256 170, sdim := List.replicate 10 170, obj_list_blk := [] }
  have s : parse_chunk.St := parse_chunk.chk s (0 ≤ 0 ∧ (0 : Int) ∈ (s.str.drop (Int.toNat (0))))
  have s : parse_chunk.St := parse_chunk.St.set_len s ((Int.ofNat ((s.str.drop (Int.toNat (0))).takeWhile (· ≠ 0)).length))
  have s : parse_chunk.St := parse_chunk.St.set_end_obj s ((- 1))
  have s : parse_chunk.St := parse_chunk.St.set_i s (((0) % 4294967296))
  have s : parse_chunk.St := parse_chunk.St.set_n s (0)
  s

/-- from the first loop to the name loop -/
def pkB (fuel : Nat) (s : parse_chunk.St) : parse_chunk.St :=
  have s : parse_chunk.St := if (s.end_obj = (- 1)) then
      have s : parse_chunk.St := parse_chunk.St.set_retnull s (true)
      have s : parse_chunk.St := parse_chunk.St.set_done s (true)
      s
    else
      s
  have s : parse_chunk.St := if s.done ∨ s.gto then s else
    have s : parse_chunk.St := parse_chunk.chk s ((s.end_obj = 0) ∨ (0 ≤ (s.end_obj - 1) ∧ (s.end_obj - 1) < s.str.length))
    have s : parse_chunk.St := if ((s.end_obj = 0) ∨ ((s.str.getD (Int.toNat ((s.end_obj - 1))) 0) = 44)) then
        have s : parse_chunk.St := parse_chunk.St.set_retnull s (true)
        have s : parse_chunk.St := parse_chunk.St.set_done s (true)
        s
      else
        s
    s
  have s : parse_chunk.St := if s.done ∨ s.gto then s else
    have s : parse_chunk.St := parse_chunk.St.set_n s ((s.n + 1))
    s
  have s : parse_chunk.St := if s.done ∨ s.gto then s else
    have s : parse_chunk.St := parse_chunk.chk s ((0 : Int) ≤ (Int.tdiv (((((s.n) % 18446744073709551616) * 256)) % 18446744073709551616) 1))
    have s : parse_chunk.St := parse_chunk.St.set_obj_list_blk s (List.replicate (Int.toNat (Int.tdiv (((((s.n) % 18446744073709551616) * 256)) % 18446744073709551616) 1)) 170)
    have s : parse_chunk.St := parse_chunk.St.set_obj_list s (0)
    s
  have s : parse_chunk.St := if s.done ∨ s.gto then s else
    have s : parse_chunk.St := parse_chunk.chk s (0 < s.n_objs.length)
    have s : parse_chunk.St := parse_chunk.St.set_n_objs s (s.n_objs.set (Int.toNat (0)) (s.n))
    s
  have s : parse_chunk.St := if s.done ∨ s.gto then s else
    have s : parse_chunk.St := parse_chunk.St.set_j s (0)
    have s : parse_chunk.St := parse_chunk.St.set_k s (0)
    have s : parse_chunk.St := parse_chunk.St.set_n s (0)
    have s : parse_chunk.St := parse_chunk.loop1 fuel s
    s
  s

/-- from the name loop to the end -/
def pkC (fuel : Nat) (s : parse_chunk.St) : parse_chunk.St :=
  have s : parse_chunk.St := if s.done ∨ s.gto then s else
    have s : parse_chunk.St := if ((s.end_obj + 1) = s.len) then
        have s : parse_chunk.St := parse_chunk.St.set_gto s (true)
        s
      else
        s
    s
  have s : parse_chunk.St := if s.done ∨ s.gto then s else
    have s : parse_chunk.St := parse_chunk.St.set_k s (0)
    s
  have s : parse_chunk.St := if s.done ∨ s.gto then s else
    have s : parse_chunk.St := parse_chunk.St.set_i s ((((s.end_obj + 1)) % 4294967296))
    have s : parse_chunk.St := parse_chunk.St.set_c_index s (0)
    have s : parse_chunk.St := parse_chunk.loop2 fuel s
    s
  s

/-- after the last loop: `return obj_list` / `out: … return NULL` -/
def pkD (s : parse_chunk.St) : parse_chunk.St :=
  have s : parse_chunk.St := if s.done ∨ s.gto then s else
    have s : parse_chunk.St := parse_chunk.St.set_ret s (s.obj_list)
    have s : parse_chunk.St := parse_chunk.St.set_done s (true)
    s
  have s : parse_chunk.St := if s.done then s else
    have s : parse_chunk.St := parse_chunk.St.set_gto s (false)
    s
  have s : parse_chunk.St := if s.done ∨ s.gto then s else
    have s : parse_chunk.St := parse_chunk.St.set_retnull s (true)
    have s : parse_chunk.St := parse_chunk.St.set_done s (true)
    s
  s

theorem parse_chunk_split (fuel : Nat) (str n_objs cl cr : List Int) :
    parse_chunk fuel str n_objs cl cr = pkD (pkC fuel (pkB fuel (parse_chunk.loop0 fuel (pkA str n_objs cl cr)))) := rfl


theorem pkA_eq (bs rest n_objs cl cr : List Int) (hbs : CStr bs) :
    pkA (bs ++ 0 :: rest) n_objs cl cr = {
      str := bs ++ 0 :: rest, n_objs := n_objs, chunk_lengths := cl, chunk_rank := cr,
      obj := List.replicate 256 170, sdim := List.replicate 10 170, obj_list_blk := [], len := bs.length, end_obj := -1, i := 0, n := 0 } := by
  have htw := takeWhile_cstr bs rest hbs
  have hmem : (0 : Int) ∈ bs ++ 0 :: rest := by simp
  simp only [pkA, parse_chunk.chk, Int.toNat_zero, List.drop_zero, htw, hmem, Int.ofNat_eq_natCast, Int.reduceMod, Int.reduceNeg, c18logic, Std.le_refl,
    parse_chunk.St.set_len, parse_chunk.St.set_end_obj, parse_chunk.St.set_i, parse_chunk.St.set_n]

/-- no `':'` in the string -/
theorem pkB_nocolon (fuel : Nat) (s : parse_chunk.St) (he : s.end_obj = -1) (hd : s.done = false) (hg : s.gto = false) :
    pkB fuel s = { s with retnull := true, done := true } := by
  cases s
  simp only at he hd hg
  subst he hd hg
  simp only [pkB, parse_chunk.St.set_retnull, parse_chunk.St.set_done, Int.reduceNeg, c18logic]

/-- an empty object list or one that ends with a comma -/
theorem pkB_badlist (fuel : Nat) (s : parse_chunk.St) (bs rest : List Int) (e : Nat) (hstr : s.str = bs ++ 0 :: rest) (he : s.end_obj = e) (hel : e < bs.length)
    (hbad : e = 0 ∨ bs.getD (e - 1) 0 = 44) (hd : s.done = false) (hg : s.gto = false) :
    pkB fuel s = { s with retnull := true, done := true } := by
  cases s
  simp only at he hd hg hstr
  subst he hd hg hstr
  have h1 : ¬ ((e : Int) = -1) := by omega
  have h2 : ((e : Int) = 0 ∨ 0 ≤ (e : Int) - 1 ∧ (e : Int) - 1 < ((bs ++ 0 :: rest).length : Int)) := by
    by_cases h0 : e = 0
    · left; omega
    · right; simp; omega
  have h3 : ((e : Int) = 0 ∨ (bs ++ 0 :: rest).getD ((e : Int) - 1).toNat 0 = 44) := by
    rcases hbad with h | h
    · left; omega
    · by_cases h0 : e = 0
      · left; omega
      · right
        have : ((e : Int) - 1).toNat = e - 1 := by omega
        rw [this, ← h]
        simp [List.getD_eq_getElem?_getD, List.getElem?_append_left (by omega : e - 1 < bs.length)]
  simp only [pkB, parse_chunk.chk, parse_chunk.St.set_retnull, parse_chunk.St.set_done, Int.reduceNeg, eq_false h1, h2, h3, c18logic]


/-- the object list is allocated, `*n_objs` set, and the names are stored -/
theorem pkB_names (fuel : Nat) (s : parse_chunk.St) (bs rest : List Int) (e cnt : Nat) (hstr : s.str = bs ++ 0 :: rest) (he : s.end_obj = e)
    (hel : e < bs.length) (hgood : ¬ (e = 0 ∨ bs.getD (e - 1) 0 = 44)) (hn : s.n = cnt) (hcnt : cnt = bs.count 44)
    (hobj : s.obj = List.replicate 256 170) (hno : 0 < s.n_objs.length) (hbs : CStr bs) (hlen : bs.length < 2 ^ 31) (hf : bs.length ≤ fuel)
    (hd : s.done = false) (hg : s.gto = false) :
    ∃ j k c n obj blk g, pkB fuel s = { s with
        n_objs := s.n_objs.set 0 ((cnt + 1 : Nat) : Int), obj_list := 0, j := j, k := k, c_ := c, n := n, obj := obj, obj_list_blk := blk, gto := g } ∧
      (match namesLoopC (bs.take e) [] with
       | none => g = true
       | some names => g = false ∧ n = ((names.length : Nat) : Int) ∧ blk = putNames (List.replicate ((cnt + 1) * 256) 170) 0 names) := by
  have hcl : cnt ≤ bs.length := by rw [hcnt]; exact List.count_le_length
  have hstep : pkB fuel s = parse_chunk.loop1 fuel { s with
      n := 0, obj_list_blk := List.replicate ((cnt + 1) * 256) 170, obj_list := 0, n_objs := s.n_objs.set 0 ((cnt + 1 : Nat) : Int), j := 0, k := 0 } := by
    cases s
    simp only at he hd hg hstr hn hno
    subst he hd hg hstr hn
    have h1 : ¬ ((e : Int) = -1) := by omega
    have h2 : ((e : Int) = 0 ∨ 0 ≤ (e : Int) - 1 ∧ (e : Int) - 1 < ((bs ++ 0 :: rest).length : Int)) := by right; simp; omega
    have h3 : ¬ ((e : Int) = 0 ∨ (bs ++ 0 :: rest).getD ((e : Int) - 1).toNat 0 = 44) := by
      intro h; apply hgood
      rcases h with h | h
      · left; omega
      · by_cases h0 : e = 0
        · left; exact h0
        · right
          have : ((e : Int) - 1).toNat = e - 1 := by omega
          rw [this] at h
          rw [← h]
          simp [List.getD_eq_getElem?_getD, List.getElem?_append_left (by omega : e - 1 < bs.length)]
    have hN : Int.tdiv (((((cnt : Int) + 1) % 18446744073709551616) * 256) % 18446744073709551616) 1 = (((cnt + 1) * 256 : Nat) : Int) := by
      rw [Int.tdiv_one]; omega
    have hN0 : (0 : Int) ≤ (((cnt + 1) * 256 : Nat) : Int) := by omega
    simp only [pkB, parse_chunk.chk, Int.reduceNeg, eq_false h1, h2, eq_false h3, hN, hN0, hno, Int.toNat_natCast, Int.toNat_zero, Int.natCast_add, Int.cast_ofNat_Int, c18logic,
      parse_chunk.St.set_n, parse_chunk.St.set_obj_list_blk, parse_chunk.St.set_obj_list, parse_chunk.St.set_n_objs, parse_chunk.St.set_j, parse_chunk.St.set_k]
  rw [hstep]
  have hcount : (bs.take e).count 44 ≤ bs.count 44 := (List.take_sublist e bs).count_le 44
  obtain ⟨j, k, c, n, obj, blk, g, hrun, hres⟩ := chunk_loop1 (bs.take e) (bs.drop e ++ 0 :: rest) (cnt + 1) (by simp; omega)
    (bs.take e) [] [] (List.replicate 256 170) { s with
      n := 0, obj_list_blk := List.replicate ((cnt + 1) * 256) 170, obj_list := 0, n_objs := s.n_objs.set 0 ((cnt + 1 : Nat) : Int), j := 0, k := 0 }
    fuel 0 (by simp) (by show s.str = _; rw [hstr, ← List.append_assoc, List.take_append_drop]) (by show s.end_obj = _; rw [he]; simp; omega)
    rfl rfl (by show s.obj = _; rw [hobj]; rfl) (by simp only [List.length_nil, List.length_replicate]) CStr.nil (hbs.take e) rfl rfl
    (by simp only [List.length_replicate]) (by intro _; rw [hcnt]; omega) (by simp; omega) hd hg
  refine ⟨j, k, c, n, obj, blk, g, ?_, ?_⟩
  · rw [hrun]
  · cases hnl : namesLoopC (bs.take e) [] with
    | none => rw [hnl] at hres; exact hres
    | some names => rw [hnl] at hres; simpa using hres


theorem pkC_skip (fuel : Nat) (s : parse_chunk.St) (h : s.done = true ∨ s.gto = true) : pkC fuel s = s := by
  simp only [pkC, h, if_true]

/-- nothing after the `':'` -/
theorem pkC_empty (fuel : Nat) (s : parse_chunk.St) (h : s.end_obj + 1 = s.len) (hd : s.done = false) (hg : s.gto = false) :
    pkC fuel s = { s with gto := true } := by
  cases s
  simp only at h hd hg
  subst hd hg
  simp only [pkC, h, parse_chunk.St.set_gto, c18logic]

/-- the value after the `':'` -/
theorem pkC_value (fuel : Nat) (s : parse_chunk.St) (bs rest : List Int) (e : Nat) (hstr : s.str = bs ++ 0 :: rest) (hl : s.len = bs.length)
    (he : s.end_obj = e) (hel : e + 1 < bs.length) (hsd : s.sdim.length = 10) (hcl : 32 ≤ s.chunk_lengths.length) (hcr : 0 < s.chunk_rank.length)
    (hbs : CStr bs) (hlen : bs.length < 2 ^ 31) (hf : bs.length ≤ fuel) (hd : s.done = false) (hg : s.gto = false) :
    ∃ i k c ci sdim cl cr g, pkC fuel s = { s with
        i := i, k := k, c_ := c, c_index := ci, sdim := sdim, chunk_lengths := cl, chunk_rank := cr, gto := g } ∧
      (match chunkValue (toStr (bs.drop (e + 1))) [] [] with
       | none => g = true
       | some ck => g = false ∧ cr = s.chunk_rank.set 0 ck.rank ∧ (ck.rank = -2 ∨ cl.take ck.lens.length = lit ck.lens)) := by
  have hstep : pkC fuel s = parse_chunk.loop2 fuel { s with k := 0, i := ((e + 1 : Nat) : Int), c_index := 0 } := by
    cases s
    simp only at hstr hl he hd hg
    subst hstr hl he hd hg
    have h1 : ¬ ((e : Int) + 1 = (bs.length : Int)) := by omega
    have hw : ((e : Int) + 1) % 4294967296 = ((e + 1 : Nat) : Int) := by omega
    simp only [pkC, eq_false h1, hw, c18logic, parse_chunk.St.set_k, parse_chunk.St.set_i, parse_chunk.St.set_c_index]
  rw [hstep]
  have hne : bs.drop (e + 1) ≠ [] := by
    intro h; have := congrArg List.length h; simp at this; omega
  obtain ⟨i, k, c, ci, sdim, cl, cr, g, hrun, hres⟩ := chunk_loop2 bs rest hlen (bs.drop (e + 1)) (bs.take (e + 1)) [] s.sdim []
    { s with k := 0, i := ((e + 1 : Nat) : Int), c_index := 0 } fuel (List.take_append_drop _ _).symm hne hstr hl
    (by simp; omega) rfl rfl (by simpa using hsd) (by intro x hx; simp at hx) rfl rfl hcl (by simp) hcr (fun c hc => (hbs.drop _) c hc)
    (by simp; omega) hd hg
  refine ⟨i, k, c, ci, sdim, cl, cr, g, by rw [hrun], ?_⟩
  simp only [toStr_nil] at hres
  cases hcv : chunkValue (toStr (bs.drop (e + 1))) [] [] with
  | none => rw [hcv] at hres; exact hres
  | some ck => rw [hcv] at hres; exact hres

theorem pkD_done (s : parse_chunk.St) (h : s.done = true) : pkD s = s := by
  simp only [pkD, h, true_or, if_true]

theorem pkD_ok (s : parse_chunk.St) (hd : s.done = false) (hg : s.gto = false) : pkD s = { s with ret := s.obj_list, done := true } := by
  cases s
  simp only at hd hg
  subst hd hg
  simp only [pkD, parse_chunk.St.set_ret, parse_chunk.St.set_done, c18logic]

theorem pkD_out (s : parse_chunk.St) (hd : s.done = false) (hg : s.gto = true) :
    pkD s = { s with gto := false, retnull := true, done := true } := by
  cases s
  simp only at hd hg
  subst hd hg
  simp only [pkD, parse_chunk.St.set_gto, parse_chunk.St.set_retnull, parse_chunk.St.set_done, c18logic]


theorem chunkValue_chars : ∀ (v sd : Str) (lens : List Nat) (ck : Chunk), chunkValue v sd lens = some ck → ∀ c ∈ v, chunkChar c = true := by
  intro v
  induction v with
  | nil => intro sd lens ck h; simp [chunkValue] at h
  | cons c cs ih =>
    intro sd lens ck h x hx
    rw [chunkValue_cons] at h
    split at h
    · simp at h
    · split at h
      · simp at h
      · next hcc =>
        have hcc' : chunkChar c = true := by simpa using hcc
        rcases List.mem_cons.mp hx with rfl | hin
        · exact hcc'
        · split at h
          · split at h
            · simp at h
            · split at h
              · simp at h
              · exact ih _ _ _ h x hin
          · cases cs with
            | nil => simp at hin
            | cons y ys => exact ih _ _ _ h x hin

theorem chunkValue_no_comma (v sd : Str) (lens : List Nat) (ck : Chunk) (h : chunkValue v sd lens = some ck) : v.count ',' = 0 := by
  apply List.count_eq_zero.mpr
  intro hm
  have := chunkValue_chars v sd lens ck h ',' hm
  simp [chunkChar] at this

theorem badObjList_iff (bs : List Int) (hbs : CStr bs) (e : Nat) (he : e < bs.length) :
    badObjList (toStr bs) e = true ↔ (e = 0 ∨ bs.getD (e - 1) 0 = 44) := by
  unfold badObjList
  simp only [Bool.or_eq_true, decide_eq_true_eq]
  by_cases h0 : e = 0
  · simp [h0]
  · have hlt : e - 1 < bs.length := by omega
    have hg1 : (toStr bs).getD (e - 1) ' ' = toChar (bs.getD (e - 1) 0) := by
      simp [toStr, List.getD_eq_getElem?_getD, List.getElem?_map, List.getElem?_eq_getElem hlt]
    have hc : IsChar (bs.getD (e - 1) 0) := by
      have : bs.getD (e - 1) 0 ∈ bs := by
        simp [List.getD_eq_getElem?_getD, List.getElem?_eq_getElem hlt]
      exact (hbs _ this).1
    rw [hg1, toChar_eq_ascii hc ',' 44 rfl (by omega)]
    simp [h0]


/-- what `parse_chunk` hands back for an accepted string: the list (not NULL, at the start of its block), `*n_objs`, the names row by row,
    `*chunk_rank` and the chunk lengths -/
structure ChunkOut (s : parse_chunk.St) (n_objs0 cr0 : List Int) (n : Nat) (names : List Str) (ck : Chunk) : Prop where
  notnull : s.retnull = false
  ret : s.ret = 0
  nobjs : s.n_objs = n_objs0.set 0 (n : Int)
  count : names.length = n
  blk : s.obj_list_blk.length = n * 256
  rows : ∀ i (h : i < names.length), toStr (cstrAt s.obj_list_blk (i * 256)) = names[i]
  rank : s.chunk_rank = cr0.set 0 ck.rank
  lens : ck.rank = -2 ∨ s.chunk_lengths.take ck.lens.length = lit ck.lens

/-- everything after the first loop, for a state `S` that the first loop can leave -/
theorem parse_chunk_tail (fuel : Nat) (bs rest n_objs cr : List Int) (hbs : CStr bs) (hlen : bs.length < 2 ^ 31) (hf : bs.length ≤ fuel)
    (S : parse_chunk.St) (hstr : S.str = bs ++ 0 :: rest) (hl : S.len = bs.length) (hE : S.end_obj = lastColonC bs 0 (-1))
    (hn : S.n = ((bs.count 44 : Nat) : Int)) (hobj : S.obj = List.replicate 256 170) (hsd : S.sdim.length = 10)
    (hno : S.n_objs = n_objs) (hnol : 0 < n_objs.length) (hcl : 32 ≤ S.chunk_lengths.length) (hcr : S.chunk_rank = cr) (hcrl : 0 < cr.length)
    (hub : S.ub = false) (hoof : S.oof = false) (hd : S.done = false) (hg : S.gto = false) (hrn : S.retnull = false)
    (s : parse_chunk.St) (hs : s = pkD (pkC fuel (pkB fuel S))) :
    s.ub = false ∧ s.oof = false ∧ s.done = true ∧
    (match parseChunk (toStr bs) with
     | none => s.retnull = true
     | some (n, names, ck) => ChunkOut s n_objs cr n names ck) := by
  have hch : ∀ c ∈ bs, IsChar c := fun c hc => (hbs c hc).1
  have hE' := lastColonC_eq bs hch
  have hcount := count_model bs hch
  unfold parseChunk
  cases hlc : lastColon (toStr bs) with
  | none =>
    rw [hlc] at hE'
    rw [pkB_nocolon _ _ (hE.trans hE') hd hg, pkC_skip _ _ (Or.inl rfl), pkD_done _ rfl] at hs
    subst hs
    exact ⟨hub, hoof, rfl, rfl⟩
  | some e =>
    rw [hlc] at hE'
    obtain ⟨hel, hcolon⟩ := lastColon_bound _ _ hlc
    rw [toStr_length] at hel
    simp only [encPos] at hE'
    have hE2 : S.end_obj = (e : Int) := hE.trans hE'
    by_cases hbad : badObjList (toStr bs) e = true
    · rw [pkB_badlist _ _ bs rest e hstr hE2 hel ((badObjList_iff bs hbs e hel).mp hbad) hd hg, pkC_skip _ _ (Or.inl rfl), pkD_done _ rfl] at hs
      subst hs
      refine ⟨hub, hoof, rfl, ?_⟩
      simp only [hbad, if_true]
    · have hgood := mt (badObjList_iff bs hbs e hel).mpr hbad
      simp only [hbad, Bool.false_eq_true, if_false]
      obtain ⟨j, k, c, n, obj, blk, g, hB, hres⟩ := pkB_names fuel S bs rest e (bs.count 44) hstr hE2 hel hgood hn rfl hobj (by rw [hno]; exact hnol) hbs hlen hf hd hg
      rw [hB] at hs
      have hnm := namesLoopC_model (bs.take e) [] (fun c hc => hch c (List.mem_of_mem_take hc))
      rw [toStr_take, toStr_nil] at hnm
      cases hnl : namesLoopC (bs.take e) [] with
      | none =>
        rw [hnl] at hres hnm
        subst hres
        simp only [Option.map_none] at hnm
        rw [pkC_skip _ _ (Or.inr (by rfl)), pkD_out _ (by exact hd) (by rfl)] at hs
        subst hs
        rw [← hnm]
        exact ⟨hub, hoof, rfl, rfl⟩
      | some names =>
        rw [hnl] at hres hnm
        obtain ⟨rfl, rfl, rfl⟩ := hres
        simp only [Option.map_some] at hnm
        rw [← hnm]
        simp only []
        rw [← toStr_drop]
        by_cases hemp : e + 1 = bs.length
        · -- nothing after the ':'
          have hm : (toStr (bs.drop (e + 1))).isEmpty = true := by
            rw [List.isEmpty_iff, ← List.length_eq_zero_iff]; simp; omega
          rw [pkC_empty _ _ (by show S.end_obj + 1 = S.len; rw [hE2, hl]; omega) (by exact hd) (by rfl), pkD_out _ (by exact hd) (by rfl)] at hs
          subst hs
          refine ⟨hub, hoof, rfl, ?_⟩
          simp only [hm, if_true]
        · have hm : ¬ (toStr (bs.drop (e + 1))).isEmpty = true := by
            rw [List.isEmpty_iff, ← List.length_eq_zero_iff]; simp; omega
          simp only [hm, if_false]
          obtain ⟨i', k', c', ci', sdim', cl', cr', g', hC, hres⟩ := pkC_value fuel { S with
              n_objs := S.n_objs.set 0 ((bs.count 44 + 1 : Nat) : Int), obj_list := 0, j := j, k := k, c_ := c, n := ((names.length : Nat) : Int), obj := obj,
              obj_list_blk := putNames (List.replicate ((bs.count 44 + 1) * 256) 170) 0 names, gto := false }
            bs rest e hstr hl hE2 (by omega) hsd hcl (by show 0 < S.chunk_rank.length; rw [hcr]; exact hcrl) hbs hlen hf hd rfl
          rw [hC] at hs
          cases hcv : chunkValue (toStr (bs.drop (e + 1))) [] [] with
          | none =>
            rw [hcv] at hres
            subst hres
            rw [pkD_out _ (by exact hd) (by rfl)] at hs
            subst hs
            exact ⟨hub, hoof, rfl, rfl⟩
          | some ck =>
            rw [hcv] at hres
            obtain ⟨rfl, rfl, hlens⟩ := hres
            rw [pkD_ok _ (by exact hd) (by rfl)] at hs
            subst hs
            refine ⟨hub, hoof, rfl, ?_⟩
            -- the outputs
            have hnames := namesLoopC_names _ _ _ hnl (hbs.take e) CStr.nil
            have hN : names.length = bs.count 44 + 1 := by
              have h1 := namesLoopC_length _ _ _ hnl
              have he0 : e ≠ 0 := fun h => hgood (Or.inl h)
              have hne : bs.take e ≠ [] := by
                intro h
                have : (bs.take e).length = 0 := by rw [h]; rfl
                rw [List.length_take] at this
                omega
              have hlast : ¬ (bs.take e).getLast? = some 44 := by
                intro h; apply hgood; right
                rw [List.getLast?_eq_getElem?, List.length_take, Nat.min_eq_left (by omega), List.getElem?_take_of_lt (by omega)] at h
                simp [List.getD_eq_getElem?_getD, h]
              rw [if_neg (by simp [hne, hlast])] at h1
              have h2 : bs.count 44 = (bs.take e).count 44 + (bs.drop e).count 44 := by
                rw [← List.count_append, List.take_append_drop]
              have h3 : (bs.drop e).count 44 = 0 := by
                rw [List.drop_eq_getElem_cons hel, List.count_cons]
                have hv := chunkValue_no_comma _ _ _ _ hcv
                rw [count_model _ (fun c hc => hch c (List.mem_of_mem_drop hc))] at hv
                have hce : ¬ bs[e] = 44 := by
                  intro h
                  have : (toStr bs).getD e ' ' = toChar bs[e] := by
                    simp [toStr, List.getD_eq_getElem?_getD, List.getElem?_map, List.getElem?_eq_getElem hel]
                  rw [this, h] at hcolon
                  exact absurd hcolon (by decide)
                simp [hv, hce]
              omega
            have hroom : 0 + names.length ≤ bs.count 44 + 1 := by omega
            have hl255 : ∀ nm ∈ names, nm.length ≤ 255 := fun nm h => (hnames nm h).1
            refine ⟨hrn, rfl, ?_, ?_, ?_, ?_, ?_, hlens⟩
            · show S.n_objs.set 0 _ = _
              rw [hno]; unfold countCommas; rw [hcount]
            · rw [List.length_map, hN]; unfold countCommas; rw [hcount]
            · show (putNames _ 0 names).length = _
              rw [putNames_length names _ 0 (bs.count 44 + 1) (by simp only [List.length_replicate]) hroom hl255]
              unfold countCommas; rw [hcount]
            · intro i hi
              have hi' : i < names.length := by simpa using hi
              have hrow := putNames_rows names (List.replicate ((bs.count 44 + 1) * 256) 170) 0 (bs.count 44 + 1) (by simp only [List.length_replicate]) hroom hl255 i hi'
              rw [Nat.zero_add] at hrow
              show toStr (cstrAt (putNames _ 0 names) (i * 256)) = _
              rw [cstrAt_of_row _ _ _ (hnames _ (List.getElem_mem hi')).2 hrow]
              simp
            · show S.chunk_rank.set 0 ck.rank = _
              rw [hcr]

theorem parse_chunk_main (fuel : Nat) (bs rest n_objs cl cr : List Int) (hbs : CStr bs) (hlen : bs.length < 2 ^ 31) (hf : bs.length ≤ fuel)
    (hno : 0 < n_objs.length) (hcl : 32 ≤ cl.length) (hcr : 0 < cr.length) (s : parse_chunk.St)
    (hs : s = parse_chunk fuel (bs ++ 0 :: rest) n_objs cl cr) :
    s.ub = false ∧ s.oof = false ∧ s.done = true ∧
    (match parseChunk (toStr bs) with
     | none => s.retnull = true
     | some (n, names, ck) => ChunkOut s n_objs cr n names ck) := by
  rw [parse_chunk_split, pkA_eq _ _ _ _ _ hbs] at hs
  obtain ⟨c0, h0⟩ := chunk_loop0 bs rest hlen bs [] {
      str := bs ++ 0 :: rest, n_objs := n_objs, chunk_lengths := cl, chunk_rank := cr,
      obj := List.replicate 256 170, sdim := List.replicate 10 170, obj_list_blk := [], len := bs.length, end_obj := -1, i := 0, n := 0 }
    fuel (by simp) rfl rfl rfl hf rfl rfl
  rw [h0] at hs
  exact parse_chunk_tail fuel bs rest n_objs cr hbs hlen hf _ rfl rfl rfl (by simp) rfl (by simp only [List.length_replicate]) rfl hno hcl rfl hcr
    rfl rfl rfl rfl rfl s hs


end chunk

end H4.C18Fn
