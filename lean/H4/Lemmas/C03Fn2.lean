import H4.VarShape
import H4.Lemmas.C2L
import H4.Lemmas.Slab
import H4.Gen.Fn.Putget2
import H4.Gen.Fn.Var
/-! C03 (and the overflow side of C20), function-level Tie A: loop lemmas for `NC_varoffset`, `NCcoordck` (mfhdf/src/putget.c) and
    `NC_var_shape` (mfhdf/src/var.c) as translated by gen/c2lean.py (`H4.Gen.Fn.Putget2`, `H4.Gen.Fn.Var`), and the pure lemmas that tie
    their `unsigned long` arithmetic to the unbounded model `H4.VarShape` / `H4.Slab.offset`.  Core only. -/
set_option linter.unusedSimpArgs false
set_option linter.unusedVariables false
namespace H4.Lemmas.C03Fn2
open H4 H4.Slab H4.VarShape H4.C2L H4.Gen.Fn.Putget2 H4.Gen.Fn.Var

/-! ## arithmetic helpers -/

/-- cell `i` of a C array of non-negative values -/
theorem ints_getD' (l : List Nat) (i : Int) (j : Nat) (h : i = j) : (ints l).getD (Int.toNat i) 0 = ((l.getD j 0 : Nat) : Int) := by
  subst h; simp [List.getD_eq_getElem?_getD]

/-- one step of `offset += *up * *ip` in `unsigned long` -/
theorem acc_mod (a d c : Int) :
    (a + (d * (c % 18446744073709551616)) % 18446744073709551616) % 18446744073709551616 = (a + d * c) % 18446744073709551616 := by
  rw [Int.add_emod_emod, Int.add_emod, Int.mul_emod, Int.emod_emod, ← Int.mul_emod, ← Int.add_emod]

theorem mod_mod_add (a b : Int) :
    (a % 18446744073709551616 + b) % 18446744073709551616 = (a + b) % 18446744073709551616 := Int.emod_add_emod _ _ _

/-- `Σ_{b ≤ i < m} D[i] * C[i]`: what the loop of `NC_varoffset` has added when its cursor has come down from `m-1` to `b` -/
def sumR (D C : List Nat) (b : Nat) : Nat → Nat
  | 0 => 0
  | m + 1 => if m < b then 0 else D.getD m 0 * C.getD m 0 + sumR D C b m

theorem sumR_lt (D C : List Nat) (b m : Nat) (h : m ≤ b) : sumR D C b m = 0 := by
  cases m with
  | zero => rfl
  | succ k => simp [sumR, show k < b by omega]

theorem dot_nil_right (D : List Nat) : dot D [] = 0 := by cases D <;> rfl

/-- the sum over the indices `b ≤ i < n` is the model's `dot` of the two lists from index `b` on -/
theorem sumR_eq_dot (D C : List Nat) (b : Nat) (hl : C.length = D.length) (hb : b ≤ D.length) :
    sumR D C b D.length = dot (D.drop b) (C.drop b) := by
  suffices h : ∀ k, b + k = D.length → ∀ m, m ≤ k →
      sumR D C b (b + m) + dot (D.drop (b + m)) (C.drop (b + m)) = dot (D.drop b) (C.drop b) by
    have := h (D.length - b) (by omega) (D.length - b) (Nat.le_refl _)
    rw [show b + (D.length - b) = D.length by omega] at this
    rw [← this]
    simp [List.drop_of_length_le (Nat.le_refl D.length), dot]
  intro k hk m
  induction m with
  | zero => intro _; simp [sumR_lt D C b b (Nat.le_refl _)]
  | succ j ih =>
    intro hj
    have hjD : b + j < D.length := by omega
    have hjC : b + j < C.length := by omega
    rw [← ih (by omega)]
    rw [List.drop_eq_getElem_cons hjD, List.drop_eq_getElem_cons hjC]
    have : sumR D C b (b + (j + 1)) = D.getD (b + j) 0 * C.getD (b + j) 0 + sumR D C b (b + j) := by
      show sumR D C b ((b + j) + 1) = _
      simp only [sumR, show ¬ (b + j < b) by omega, if_false]
    rw [this]
    simp only [dot, List.getD_eq_getElem?_getD, List.getElem?_eq_getElem hjD, List.getElem?_eq_getElem hjC, Option.getD_some]
    rw [show b + j + 1 = b + (j + 1) by omega]
    omega

/-- the byte strides of `NC_var_shape` turn the row-major element offset of the model into a byte offset -/
theorem dot_dsizes (xszof : Nat) : ∀ (shape coords : List Nat), dot (dsizes xszof shape) coords = offset shape coords * xszof := by
  intro shape
  induction shape with
  | nil => intro coords; simp [dsizes, strides, dot, offset]
  | cons x xs ih =>
    intro coords
    cases coords with
    | nil => simp [dsizes, strides, dot, offset]
    | cons c cs =>
      have := ih cs
      simp only [dsizes] at this
      simp only [dsizes, strides, List.map_cons, dot, offset, this]
      rw [Nat.add_mul, Nat.mul_comm (prod xs * xszof) c, Nat.mul_assoc]

theorem dsizes_length (xszof : Nat) (shape : List Nat) : (dsizes xszof shape).length = shape.length := by
  induction shape with
  | nil => rfl
  | cons x xs ih => simp [dsizes, strides] at ih ⊢; exact ih

theorem dsizes_tail (xszof : Nat) (shape : List Nat) : (dsizes xszof shape).drop 1 = dsizes xszof (shape.drop 1) := by
  cases shape <;> simp [dsizes, strides]

/-- `dot` only sees its first list modulo `2^64` (the stored `dsizes` may have wrapped) -/
theorem dot_mod (D C : List Nat) : dot (D.map (· % W)) C % W = dot D C % W := by
  induction D generalizing C with
  | nil => rfl
  | cons d ds ih =>
    cases C with
    | nil => rfl
    | cons c cs =>
      simp only [List.map_cons, dot]
      rw [Nat.add_mod, Nat.mul_mod, Nat.mod_mod, ← Nat.mul_mod, ih cs, ← Nat.add_mod]

/-! ## `NC_varoffset` -/

theorem vo_chk_true (s : NC_varoffset.St) (c : Prop) [Decidable c] (h : c) : NC_varoffset.chk s c = s := by
  cases s; simp [NC_varoffset.chk, h]

/-- one pass through the loop body at index `j` -/
theorem vo_body (fuel : Nat) (s : NC_varoffset.St) (D C : List Nat) (j : Nat)
    (hD : s.vp_dsizes = ints D) (hC : s.coords = ints C) (hj1 : j < D.length) (hj2 : j < C.length)
    (hip : s.ip = j) (hup : s.up = j) :
    NC_varoffset.loop0.body fuel s =
      { s with offset := (s.offset + ((D.getD j 0 * C.getD j 0 : Nat) : Int)) % 18446744073709551616, ip := (j : Int) - 1, up := (j : Int) - 1 } := by
  have c1 : 0 ≤ s.up ∧ s.up < s.vp_dsizes.length := by rw [hup, hD]; simp; omega
  have c2 : 0 ≤ s.ip ∧ s.ip < s.coords.length := by rw [hip, hC]; simp; omega
  have gD : s.vp_dsizes.getD (Int.toNat s.up) 0 = ((D.getD j 0 : Nat) : Int) := by rw [hD]; exact ints_getD' D _ j hup
  have gC : s.coords.getD (Int.toNat s.ip) 0 = ((C.getD j 0 : Nat) : Int) := by rw [hC]; exact ints_getD' C _ j hip
  unfold NC_varoffset.loop0.body
  simp only [vo_chk_true s _ c1, vo_chk_true s _ c2, gD, gC, acc_mod, NC_varoffset.St.set_offset, NC_varoffset.St.set_ip,
    NC_varoffset.St.set_up, Int.natCast_mul]
  rw [hip, hup]

theorem vo_loop_stop (fuel : Nat) (s : NC_varoffset.St) (h : s.done = true ∨ s.ip < s.boundary) : NC_varoffset.loop0 fuel s = s := by
  have : ¬ ((s.ip ≥ s.boundary) ∧ ¬(s.done = true)) := by
    rcases h with h | h
    · simp [h]
    · intro ⟨h1, _⟩; omega
  cases fuel <;> simp only [NC_varoffset.loop0, this, if_false]

/-- the translated loop adds `Σ_{b ≤ i < m} dsizes[i] * coords[i]` to `offset`, in `unsigned long` -/
theorem vo_loop (D C : List Nat) (b : Nat) :
    ∀ (m fuel : Nat) (s : NC_varoffset.St), m ≤ D.length → m ≤ C.length → m ≤ fuel → b ≤ m →
      s.vp_dsizes = ints D → s.coords = ints C → s.ip = (m : Int) - 1 → s.up = (m : Int) - 1 → s.boundary = b → s.done = false →
      (0 ≤ s.offset ∧ s.offset < 18446744073709551616) →
      NC_varoffset.loop0 fuel s =
        { s with offset := (s.offset + ((sumR D C b m : Nat) : Int)) % 18446744073709551616, ip := (b : Int) - 1, up := (b : Int) - 1 } := by
  intro m
  induction m with
  | zero =>
    intro fuel s _ _ _ hb hD hC hip hup hbd hdone hoff
    have hb0 : b = 0 := by omega
    rw [vo_loop_stop fuel s (by right; rw [hip, hbd]; omega)]
    subst hb0
    have : (s.offset + ((sumR D C 0 0 : Nat) : Int)) % 18446744073709551616 = s.offset := by simp [sumR]; omega
    rw [this]
    cases s; simp_all
  | succ j ih =>
    intro fuel s h1 h2 hf hb hD hC hip hup hbd hdone hoff
    have hip' : s.ip = (j : Int) := by rw [hip]; omega
    have hup' : s.up = (j : Int) := by rw [hup]; omega
    by_cases hjb : j < b
    · have hbj : b = j + 1 := by omega
      rw [vo_loop_stop fuel s (by right; rw [hip', hbd]; omega)]
      have : (s.offset + ((sumR D C b (j + 1) : Nat) : Int)) % 18446744073709551616 = s.offset := by
        simp [sumR, hjb]; omega
      rw [this]
      subst hbj
      cases s; simp_all
    · cases fuel with
      | zero => omega
      | succ fuel =>
        have hgo : (s.ip ≥ s.boundary) ∧ ¬(s.done = true) := ⟨by rw [hip', hbd]; omega, by simp [hdone]⟩
        have hstep : NC_varoffset.loop0 (fuel + 1) s = NC_varoffset.loop0 fuel (NC_varoffset.loop0.body (fuel + 1) s) := by
          rw [NC_varoffset.loop0, if_pos hgo]
        rw [hstep, vo_body (fuel + 1) s D C j hD hC (by omega) (by omega) hip' hup']
        rw [ih fuel { s with offset := (s.offset + ((D.getD j 0 * C.getD j 0 : Nat) : Int)) % 18446744073709551616, ip := (j : Int) - 1, up := (j : Int) - 1 }
          (by omega) (by omega) (by omega) (by omega) hD hC rfl rfl hbd hdone
          ⟨Int.emod_nonneg _ (by decide), Int.emod_lt_of_pos _ (by decide)⟩]
        simp only [sumR, hjb, if_false]
        have : ((s.offset + ((D.getD j 0 * C.getD j 0 : Nat) : Int)) % 18446744073709551616 + ((sumR D C b j : Nat) : Int)) % 18446744073709551616
            = (s.offset + ((D.getD j 0 * C.getD j 0 + sumR D C b j : Nat) : Int)) % 18446744073709551616 := by
          rw [mod_mod_add]; congr 1; push_cast; omega
        rw [this]

/-- what `NC_varoffset` returns, unbounded, in terms of the stored `dsizes` (`D`): see `VarShape.varOffset` for the model in terms of the shape -/
def voRaw (ft begin recsize : Nat) (isRec : Bool) (D C : List Nat) : Nat :=
  if ft = 1 then dot D C
  else if isRec then begin + recsize * C.getD 0 0 + dot (D.drop 1) (C.drop 1) else begin + dot D C

theorem dot_cons_drop (D C : List Nat) (hD : 0 < D.length) (hC : 0 < C.length) :
    dot D C = D.getD 0 0 * C.getD 0 0 + dot (D.drop 1) (C.drop 1) := by
  cases D with
  | nil => simp at hD
  | cons d ds => cases C with
    | nil => simp at hC
    | cons c cs => simp [dot]

theorem W_cast : ((W : Nat) : Int) = 18446744073709551616 := by simp [W]

theorem ret_rec_nc (b r c x : Int) :
    (b + r * (c % 18446744073709551616) + x) % 18446744073709551616 = (b + r * c + x) % 18446744073709551616 := by
  rw [Int.add_emod, Int.add_emod b, Int.mul_emod r, Int.emod_emod c, ← Int.mul_emod, ← Int.add_emod b, ← Int.add_emod]

theorem ret_rec_hdf (d c x : Int) :
    (d * (c % 18446744073709551616) + x) % 18446744073709551616 = (d * c + x) % 18446744073709551616 := by
  rw [Int.add_emod, Int.mul_emod d, Int.emod_emod c, ← Int.mul_emod, ← Int.add_emod]

/-- the translated `NC_varoffset` on a variable of rank ≥ 1 in an HDF (`ft = 1`) or netCDF (`ft = 0`) file, for ANY stored `dsizes` -/
theorem vo_entry (S D C : List Nat) (ft begin recsize fuel : Nat) (hpos : 0 < S.length) (hD : D.length = S.length) (hC : C.length = S.length)
    (hf : S.length ≤ fuel) (hft : ft = 0 ∨ ft = 1) :
    (NC_varoffset fuel ft recsize S.length begin false (ints S) (ints D) (ints C)).ub = false ∧
    (NC_varoffset fuel ft recsize S.length begin false (ints S) (ints D) (ints C)).oof = false ∧
    (NC_varoffset fuel ft recsize S.length begin false (ints S) (ints D) (ints C)).done = true ∧
    (NC_varoffset fuel ft recsize S.length begin false (ints S) (ints D) (ints C)).ret =
      ((voRaw ft begin recsize (S.getD 0 0 == 0) D C % W : Nat) : Int) := by
  have g0 : (ints S).getD 0 0 = ((S.getD 0 0 : Nat) : Int) := by simp [List.getD_eq_getElem?_getD]
  have gD0 : (ints D).getD 0 0 = ((D.getD 0 0 : Nat) : Int) := by simp [List.getD_eq_getElem?_getD]
  have gC0 : (ints C).getD 0 0 = ((C.getD 0 0 : Nat) : Int) := by simp [List.getD_eq_getElem?_getD]
  have hne : S ≠ [] := by intro h; simp [h] at hpos
  have hDne : D ≠ [] := by intro h; simp [h] at hD; omega
  have hCne : C ≠ [] := by intro h; simp [h] at hC; omega
  have e0 := sumR_eq_dot D C 0 (by omega) (by omega)
  have e1 := sumR_eq_dot D C 1 (by omega) (by omega)
  rw [hD] at e0 e1
  have hDpos : 0 < D.length := by omega
  have hCpos : 0 < C.length := by omega
  by_cases h0 : S.getD 0 0 = 0
  · rcases hft with rfl | rfl
    · simp [NC_varoffset, NC_varoffset.chk, -List.getD_eq_getElem?_getD, g0, h0, hne, hpos]
      rw [vo_loop D C 1 S.length fuel]
      · simp [g0, gD0, gC0, h0, hne, hDne, hCne, hpos, hDpos, hCpos, -List.getD_eq_getElem?_getD, voRaw, e1, ret_rec_nc, W_cast]
      all_goals first | rfl | omega | simp
    · simp [NC_varoffset, NC_varoffset.chk, -List.getD_eq_getElem?_getD, g0, h0, hne, hpos]
      rw [vo_loop D C 1 S.length fuel]
      · simp [g0, gD0, gC0, h0, hne, hDne, hCne, hpos, hDpos, hCpos, -List.getD_eq_getElem?_getD, voRaw, e1, ret_rec_hdf, W_cast,
          dot_cons_drop D C hDpos hCpos]
      all_goals first | rfl | omega | simp
  · rcases hft with rfl | rfl
    · simp [NC_varoffset, NC_varoffset.chk, -List.getD_eq_getElem?_getD, g0, h0, hne, hpos]
      rw [vo_loop D C 0 S.length fuel]
      · simp [g0, h0, hpos, -List.getD_eq_getElem?_getD, voRaw, e0, W_cast]
      all_goals first | rfl | omega | simp
    · simp [NC_varoffset, NC_varoffset.chk, -List.getD_eq_getElem?_getD, g0, h0, hne, hpos]
      rw [vo_loop D C 0 S.length fuel]
      · simp [g0, h0, hpos, -List.getD_eq_getElem?_getD, voRaw, e0, W_cast]
      all_goals first | rfl | omega | simp

/-- a scalar variable (`assoc->count = 0`): `vp->begin` -/
theorem vo_scalar (S D C : List Int) (ft recsize : Int) (begin fuel : Nat) (sn : Bool) :
    (NC_varoffset fuel ft recsize 0 begin sn S D C).ub = false ∧ (NC_varoffset fuel ft recsize 0 begin sn S D C).oof = false ∧
    (NC_varoffset fuel ft recsize 0 begin sn S D C).ret = ((begin % W : Nat) : Int) := by
  simp [NC_varoffset, W, Int.natCast_emod]

/-! ## `NC_var_shape`: the first loop (dimension ids -> shape) -/

theorem vs_chk_true (s : NC_var_shape.St) (c : Prop) [Decidable c] (h : c) : NC_var_shape.chk s c = s := by
  cases s; simp [NC_var_shape.chk, h]

/-- dimension sizes are non-negative `int32` values -/
def Dims31 (l : List Nat) : Prop := ∀ x ∈ l, x < 2147483648
instance (l : List Nat) : Decidable (Dims31 l) := by unfold Dims31; exact inferInstance

theorem Dims31.getD {l : List Nat} (h : Dims31 l) (i : Nat) : l.getD i 0 < 2147483648 := by
  by_cases hi : i < l.length
  · simp only [List.getD_eq_getElem?_getD, List.getElem?_eq_getElem hi, Option.getD_some]
    exact h _ (List.getElem_mem hi)
  · simp only [List.getD_eq_getElem?_getD, List.getElem?_eq_none (by omega : l.length ≤ i), Option.getD_none]
    omega

/-- dimension ids are `int` values -/
def Ids32 (l : List Int) : Prop := ∀ x ∈ l, -2147483648 ≤ x ∧ x < 2147483648
instance (l : List Int) : Decidable (Ids32 l) := by unfold Ids32; exact inferInstance

theorem Ids32.getD {l : List Int} (h : Ids32 l) (i : Nat) : -2147483648 ≤ l.getD i 0 ∧ l.getD i 0 < 2147483648 := by
  by_cases hi : i < l.length
  · simp only [List.getD_eq_getElem?_getD, List.getElem?_eq_getElem hi, Option.getD_some]
    exact h _ (List.getElem_mem hi)
  · simp only [List.getD_eq_getElem?_getD, List.getElem?_eq_none (by omega : l.length ≤ i), Option.getD_none]
    omega

/-- the invariant part of the state of `NC_var_shape` that the first loop reads and never changes -/
structure VsFix (s : NC_var_shape.St) (ids : List Int) (dimsizes : List Nat) : Prop where
  hids : s.var_assoc_values = ids
  hcnt : s.var_assoc_count = ids.length
  hdn : s.dims_null = false
  hdc : s.dims_count = dimsizes.length
  hdv : s.dims_values.length = dimsizes.length
  hds : s.dims_values_size = ints dimsizes
  hsh : s.shape = 0
  hdone : s.done = false
  hgto : s.gto = false

/-- one pass through the first loop at index `k`, dimension id in range and no misplaced unlimited size: `shape[k] = dims[id]->size` -/
theorem vs_body0_ok (fuel : Nat) (s : NC_var_shape.St) (ids : List Int) (dimsizes : List Nat) (k : Nat) (fx : VsFix s ids dimsizes)
    (hI : Ids32 ids) (hS : Dims31 dimsizes) (hn : ids.length < 2147483648) (hk : k < ids.length) (hip : s.ip = k) (hop : s.op = k) (hii : s.ii = (ids.length : Int) - k)
    (hlen : s.shape_blk.length = ids.length)
    (h1 : 0 ≤ ids.getD k 0) (h2 : ids.getD k 0 < dimsizes.length)
    (h3 : ¬ (dimsizes.getD (ids.getD k 0).toNat 0 = 0 ∧ k ≠ 0)) :
    NC_var_shape.loop0.body fuel s =
      { s with dp := ids.getD k 0, shape_blk := s.shape_blk.set k ((dimsizes.getD (ids.getD k 0).toNat 0 : Nat) : Int),
               op := (k : Int) + 1, ip := (k : Int) + 1, ii := (ids.length : Int) - k - 1 } := by
  obtain ⟨hids, hcnt, hdn, hdc, hdv, hds, hsh, hdone, hgto⟩ := fx
  have hr := hI.getD k
  have hsz := hS.getD (ids.getD k 0).toNat
  have cI : 0 ≤ s.ip ∧ s.ip < s.var_assoc_values.length := by rw [hip, hids]; omega
  have gI : s.var_assoc_values.getD (Int.toNat s.ip) 0 = ids.getD k 0 := by rw [hip, hids]; simp
  have gS : s.dims_values_size.getD (Int.toNat (ids.getD k 0)) 0 = ((dimsizes.getD (ids.getD k 0).toNat 0 : Nat) : Int) := by
    rw [hds]; simp [List.getD_eq_getElem?_getD]
  have m1 : (ids.getD k 0) % 4294967296 = ids.getD k 0 := by omega
  have m2 : ((dimsizes.getD (ids.getD k 0).toNat 0 : Nat) : Int) % 18446744073709551616 = ((dimsizes.getD (ids.getD k 0).toNat 0 : Nat) : Int) := by omega
  have n1 : ¬ (ids.getD k 0 < 0) := by omega
  have n2 : ¬ (ids.getD k 0 ≥ (dimsizes.length : Int)) := by omega
  have cO : 0 ≤ s.op ∧ s.op < s.shape_blk.length := by rw [hop, hlen]; omega
  have cD : 0 ≤ ids.getD k 0 ∧ ids.getD k 0 < s.dims_values.length := by rw [hdv]; omega
  have cD2 : 0 ≤ ids.getD k 0 ∧ ids.getD k 0 < s.dims_values_size.length := by rw [hds, ints_length]; omega
  have hopn : Int.toNat s.op = k := by rw [hop]; simp
  have gset : (s.shape_blk.set k ((dimsizes.getD (ids.getD k 0).toNat 0 : Nat) : Int)).getD k 0 = ((dimsizes.getD (ids.getD k 0).toNat 0 : Nat) : Int) := by
    rw [getD_set_self _ _ _ _ (by omega)]
  have m3 : s.ii % 4294967296 = s.ii := by rw [hii]; omega
  unfold NC_var_shape.loop0.body
  simp only [vs_chk_true s _ cI, vs_chk_true s _ (Or.inr cI : _ ∨ _), gI, hdn, hdc, m1, n1, n2, if_true, if_false, false_or, or_self,
    hdone, hgto, Bool.false_eq_true, NC_var_shape.St.set_dp, Int.zero_add]
  have hcond : ¬ (dimsizes.getD (ids.getD k 0).toNat 0 = 0 ∧ ¬ s.ii = s.var_assoc_count) := by
    rw [hii, hcnt]; intro ⟨a, b⟩; exact h3 ⟨a, by omega⟩
  simp [NC_var_shape.chk, cD, cD2, cO, gS, m2, hopn, gset, m3, hcond, hdone, hgto, -List.getD_eq_getElem?_getD]
  rw [hop, hip, hii]
  exact ⟨rfl, rfl, rfl⟩

/-- one pass through the first loop at index `k`, "Bad dimension id": `return -1` -/
theorem vs_body0_badid (fuel : Nat) (s : NC_var_shape.St) (ids : List Int) (dimsizes : List Nat) (k : Nat) (fx : VsFix s ids dimsizes)
    (hI : Ids32 ids) (hdl : dimsizes.length < 4294967296) (hk : k < ids.length) (hip : s.ip = k)
    (hbad : ids.getD k 0 < 0 ∨ (dimsizes.length : Int) ≤ ids.getD k 0) :
    NC_var_shape.loop0.body fuel s = { s with ret := -1, done := true } := by
  obtain ⟨hids, hcnt, hdn, hdc, hdv, hds, hsh, hdone, hgto⟩ := fx
  have hr := hI.getD k
  have cI : 0 ≤ s.ip ∧ s.ip < s.var_assoc_values.length := by rw [hip, hids]; omega
  have gI : s.var_assoc_values.getD (Int.toNat s.ip) 0 = ids.getD k 0 := by rw [hip, hids]; simp
  have hc : (ids.getD k 0 < 0) ∨ ((ids.getD k 0) % 4294967296 ≥ (dimsizes.length : Int)) := by
    rcases hbad with h | h
    · exact Or.inl h
    · right; omega
  unfold NC_var_shape.loop0.body
  simp only [vs_chk_true s _ cI, vs_chk_true s _ (Or.inr cI : _ ∨ _), gI, hdn, hdc, hc, if_true,
    NC_var_shape.St.set_ret, NC_var_shape.St.set_done, true_or]

/-- one pass through the first loop at index `k ≠ 0`, the size of the dimension is NC_UNLIMITED: `return -1` (after `shape[k]` was stored) -/
theorem vs_body0_unlim (fuel : Nat) (s : NC_var_shape.St) (ids : List Int) (dimsizes : List Nat) (k : Nat) (fx : VsFix s ids dimsizes)
    (hI : Ids32 ids) (hS : Dims31 dimsizes) (hn : ids.length < 2147483648) (hk : k < ids.length) (hip : s.ip = k) (hop : s.op = k)
    (hii : s.ii = (ids.length : Int) - k) (hlen : s.shape_blk.length = ids.length)
    (h1 : 0 ≤ ids.getD k 0) (h2 : ids.getD k 0 < dimsizes.length)
    (h3 : dimsizes.getD (ids.getD k 0).toNat 0 = 0 ∧ k ≠ 0) :
    NC_var_shape.loop0.body fuel s =
      { s with dp := ids.getD k 0, shape_blk := s.shape_blk.set k 0, ret := -1, done := true } := by
  obtain ⟨hids, hcnt, hdn, hdc, hdv, hds, hsh, hdone, hgto⟩ := fx
  have hr := hI.getD k
  have cI : 0 ≤ s.ip ∧ s.ip < s.var_assoc_values.length := by rw [hip, hids]; omega
  have gI : s.var_assoc_values.getD (Int.toNat s.ip) 0 = ids.getD k 0 := by rw [hip, hids]; simp
  have gS : s.dims_values_size.getD (Int.toNat (ids.getD k 0)) 0 = 0 := by
    rw [hds]; simp [List.getD_eq_getElem?_getD]; simpa [List.getD_eq_getElem?_getD] using h3.1
  have m1 : (ids.getD k 0) % 4294967296 = ids.getD k 0 := by omega
  have n1 : ¬ (ids.getD k 0 < 0) := by omega
  have n2 : ¬ (ids.getD k 0 ≥ (dimsizes.length : Int)) := by omega
  have cO : 0 ≤ s.op ∧ s.op < s.shape_blk.length := by rw [hop, hlen]; omega
  have cD : 0 ≤ ids.getD k 0 ∧ ids.getD k 0 < s.dims_values.length := by rw [hdv]; omega
  have cD2 : 0 ≤ ids.getD k 0 ∧ ids.getD k 0 < s.dims_values_size.length := by rw [hds, ints_length]; omega
  have hopn : Int.toNat s.op = k := by rw [hop]; simp
  have gset : (s.shape_blk.set k (0 : Int)).getD k 0 = 0 := by rw [getD_set_self _ _ _ _ (by omega)]
  have m3 : s.ii % 4294967296 = s.ii := by rw [hii]; omega
  have hne : ¬ s.ii = s.var_assoc_count := by rw [hii, hcnt]; omega
  unfold NC_var_shape.loop0.body
  simp only [vs_chk_true s _ cI, vs_chk_true s _ (Or.inr cI : _ ∨ _), gI, hdn, hdc, m1, n1, n2, if_true, if_false, false_or, or_self,
    hdone, hgto, Bool.false_eq_true, NC_var_shape.St.set_dp, Int.zero_add]
  simp [NC_var_shape.chk, cD, cD2, cO, gS, hopn, gset, m3, hne, hdone, hgto, -List.getD_eq_getElem?_getD]

theorem vs_loop0_stop (fuel : Nat) (s : NC_var_shape.St) (h : s.ii ≤ 0 ∨ s.done = true ∨ s.gto = true) : NC_var_shape.loop0 fuel s = s := by
  have : ¬ ((s.ii > 0) ∧ ¬(s.done = true ∨ s.gto = true)) := by
    rcases h with h | h | h
    · intro ⟨h1, _⟩; omega
    · simp [h]
    · simp [h]
  cases fuel <;> simp only [NC_var_shape.loop0, this, if_false]

theorem set_append_replicate (acc : List Nat) (m : Nat) (v : Nat) :
    (ints acc ++ List.replicate (m + 1) (170 : Int)).set acc.length (v : Int) = ints (acc ++ [v]) ++ List.replicate m 170 := by
  rw [List.set_append_right _ _ (by simp)]
  simp [ints_append, List.replicate_succ]

/-- what the first loop leaves when a dimension id is refused -/
def Vs0Fail (s r : NC_var_shape.St) : Prop :=
  r.done = true ∧ r.ret = -1 ∧ r.ub = s.ub ∧ r.oof = s.oof ∧ r.var_len = s.var_len ∧ r.var_shape_seat = s.var_shape_seat ∧
    r.var_dsizes_seat = s.var_dsizes_seat

/-- the first loop of the translated `NC_var_shape` computes `VarShape.shapeOf` -/
theorem vs_loop0 (ids : List Int) (dimsizes : List Nat) (hI : Ids32 ids) (hS : Dims31 dimsizes) (hn : ids.length < 2147483648)
    (hdl : dimsizes.length < 4294967296) :
    ∀ (m fuel : Nat) (s : NC_var_shape.St) (acc : List Nat), m ≤ fuel → acc.length + m = ids.length → VsFix s ids dimsizes →
      s.ip = acc.length → s.op = acc.length → s.ii = m → s.shape_blk = ints acc ++ List.replicate m 170 →
      match shapeOf dimsizes (decide (acc.length = 0)) (ids.drop acc.length) with
      | some rest => NC_var_shape.loop0 fuel s =
          { s with dp := (ids.drop acc.length).getLastD s.dp, shape_blk := ints (acc ++ rest), op := ids.length, ip := ids.length, ii := 0 }
      | none => Vs0Fail s (NC_var_shape.loop0 fuel s) := by
  intro m
  induction m with
  | zero =>
    intro fuel s acc _ hacc fx hip hop hii hblk
    have hd : ids.drop acc.length = [] := List.drop_of_length_le (by omega)
    rw [hd]
    simp only [shapeOf]
    rw [vs_loop0_stop fuel s (Or.inl (by omega))]
    have : acc.length = ids.length := by omega
    cases s; simp_all
  | succ j ih =>
    intro fuel s acc hf hacc fx hip hop hii hblk
    have hk : acc.length < ids.length := by omega
    have hd : ids.drop acc.length = ids.getD acc.length 0 :: ids.drop (acc.length + 1) := by
      rw [List.drop_eq_getElem_cons hk]; simp [hk]
    have hlen : s.shape_blk.length = ids.length := by rw [hblk]; simp; omega
    have hii' : s.ii = (ids.length : Int) - acc.length := by rw [hii]; omega
    cases fuel with
    | zero => omega
    | succ fuel =>
      have hgo : (s.ii > 0) ∧ ¬(s.done = true ∨ s.gto = true) := ⟨by rw [hii]; omega, by simp [fx.hdone, fx.hgto]⟩
      have hstep : NC_var_shape.loop0 (fuel + 1) s = NC_var_shape.loop0 fuel (NC_var_shape.loop0.body (fuel + 1) s) := by
        rw [NC_var_shape.loop0, if_pos hgo]
      rw [hd, hstep]
      simp only [shapeOf]
      by_cases hbad : ids.getD acc.length 0 < 0 ∨ (dimsizes.length : Int) ≤ ids.getD acc.length 0
      · rw [if_pos hbad, vs_body0_badid (fuel + 1) s ids dimsizes acc.length fx hI hdl hk hip hbad, vs_loop0_stop _ _ (Or.inr (Or.inl rfl))]
        exact ⟨rfl, rfl, rfl, rfl, rfl, rfl, rfl⟩
      · rw [if_neg hbad]
        have h1 : 0 ≤ ids.getD acc.length 0 := by omega
        have h2 : ids.getD acc.length 0 < dimsizes.length := by omega
        by_cases hun : dimsizes.getD (ids.getD acc.length 0).toNat 0 = H4.Gen.Ncvar.NC_UNLIMITED ∧ decide (acc.length = 0) = false
        · rw [if_pos hun, vs_body0_unlim (fuel + 1) s ids dimsizes acc.length fx hI hS hn hk hip hop hii' hlen h1 h2
            ⟨hun.1, by simpa using hun.2⟩, vs_loop0_stop _ _ (Or.inr (Or.inl rfl))]
          exact ⟨rfl, rfl, rfl, rfl, rfl, rfl, rfl⟩
        · rw [if_neg hun, vs_body0_ok (fuel + 1) s ids dimsizes acc.length fx hI hS hn hk hip hop hii' hlen h1 h2
            (by intro ⟨a, b⟩; exact hun ⟨a, by simpa using b⟩)]
          have key := ih fuel
            { s with dp := ids.getD acc.length 0,
                     shape_blk := s.shape_blk.set acc.length ((dimsizes.getD (ids.getD acc.length 0).toNat 0 : Nat) : Int),
                     op := (acc.length : Int) + 1, ip := (acc.length : Int) + 1, ii := (ids.length : Int) - acc.length - 1 }
            (acc ++ [dimsizes.getD (ids.getD acc.length 0).toNat 0]) (by omega) (by simp; omega)
            ⟨fx.hids, fx.hcnt, fx.hdn, fx.hdc, fx.hdv, fx.hds, fx.hsh, fx.hdone, fx.hgto⟩
            (by simp) (by simp) (by show (ids.length : Int) - acc.length - 1 = j; omega)
            (by show s.shape_blk.set acc.length _ = _; rw [hblk]; exact set_append_replicate acc j _)
          have hl1 : (acc ++ [dimsizes.getD (ids.getD acc.length 0).toNat 0]).length = acc.length + 1 := by simp
          rw [hl1] at key
          have hf0 : decide (acc.length + 1 = 0) = false := by simp
          rw [hf0] at key
          cases hsh : shapeOf dimsizes false (ids.drop (acc.length + 1)) with
          | none =>
            rw [hsh] at key
            simp only [Option.map_none]
            exact key
          | some rest =>
            rw [hsh] at key
            simp only [Option.map_some]
            rw [key]
            have hg : (ids.getD acc.length 0 :: ids.drop (acc.length + 1)).getLastD s.dp = (ids.drop (acc.length + 1)).getLastD (ids.getD acc.length 0) := by
              cases ids.drop (acc.length + 1) <;> simp [List.getLastD]
            simp only [hg, List.append_assoc, List.singleton_append]

/-! ## `NC_var_shape`: the second loop (`dsizes[]` and `len`, running products in `unsigned long`) -/

/-- `xszof * shape[k] * … * shape[n-1]`, unbounded -/
def P (x : Nat) (S : List Nat) (k : Nat) : Nat := prod (S.drop k) * x

theorem prod_drop (S : List Nat) (k : Nat) (h : k < S.length) : prod (S.drop k) = S.getD k 0 * prod (S.drop (k + 1)) := by
  rw [drop_cons_getD S k h]; simp [prod]

theorem P_step (x : Nat) (S : List Nat) (k : Nat) (h : k < S.length) : P x S k = P x S (k + 1) * S.getD k 0 := by
  unfold P; rw [prod_drop S k h, Nat.mul_assoc, Nat.mul_comm (S.getD k 0), Nat.mul_assoc, Nat.mul_comm x]

theorem strides_getD : ∀ (S : List Nat) (k : Nat), k < S.length → (strides S).getD k 0 = prod (S.drop (k + 1)) := by
  intro S
  induction S with
  | nil => intro k h; simp at h
  | cons a t ih =>
    intro k h
    cases k with
    | zero => simp [strides]
    | succ j =>
      have := ih j (by simpa using h)
      simpa [strides] using this

theorem strides_length (S : List Nat) : (strides S).length = S.length := by
  induction S with
  | nil => rfl
  | cons a t ih => simp [strides, ih]

/-- `dsizes[k] = xszof * shape[k+1] * … * shape[n-1]` -/
theorem dsizes_getD (x : Nat) (S : List Nat) (k : Nat) (h : k < S.length) : (dsizes x S).getD k 0 = P x S (k + 1) := by
  have hl : k < (strides S).length := by rw [strides_length]; exact h
  have := strides_getD S k h
  simp only [List.getD_eq_getElem?_getD, List.getElem?_eq_getElem hl, Option.getD_some] at this
  simp [dsizes, P, List.getD_eq_getElem?_getD, List.getElem?_map, List.getElem?_eq_getElem hl, this]

theorem varLen_cases (x : Nat) (S : List Nat) (h : 0 < S.length) :
    varLen x S = if S.getD 0 0 = 0 then P x S 1 else P x S 0 := by
  cases S with
  | nil => simp at h
  | cons a t =>
    simp only [varLen, recProd, P, H4.Gen.Ncvar.NC_UNLIMITED]
    by_cases ha : a = 0
    · simp [ha, prod]
    · simp [ha, prod]

/-- the stored `dsizes` (every product reduced modulo 2^64) -/
def dsC (x : Nat) (S : List Nat) : List Nat := (dsizes x S).map (· % W)

theorem dsC_length (x : Nat) (S : List Nat) : (dsC x S).length = S.length := by simp [dsC, dsizes_length]

theorem dsC_getD (x : Nat) (S : List Nat) (k : Nat) (h : k < S.length) : (dsC x S).getD k 0 = P x S (k + 1) % W := by
  have hl : k < (dsizes x S).length := by rw [dsizes_length]; exact h
  have := dsizes_getD x S k h
  simp only [List.getD_eq_getElem?_getD, List.getElem?_eq_getElem hl, Option.getD_some] at this
  simp [dsC, List.getD_eq_getElem?_getD, List.getElem?_map, List.getElem?_eq_getElem hl, this]

/-- `var->len` when the cursor of the second loop stands at index `m - 1` (`m = 0`: after the loop) -/
def lenAt (x : Nat) (S : List Nat) (m : Nat) : Nat := if m = 0 then varLen x S % W else P x S m % W

theorem vs_body1 (fuel : Nat) (s : NC_var_shape.St) (S : List Nat) (j : Nat) (L : Nat)
    (hsh : s.shape = 0) (hS : s.shape_blk = ints S) (hj : j < S.length) (hjd : j < s.dsizes_blk.length)
    (hshp : s.shp = j) (hdsp : s.dsp = j) (hL : s.var_len = (L : Int)) :
    NC_var_shape.loop1.body fuel s =
      { s with dsizes_blk := s.dsizes_blk.set j (L : Int),
               var_len := if j ≠ 0 ∨ S.getD j 0 ≠ 0 then (((L * S.getD j 0) % W : Nat) : Int) else (L : Int),
               shp := (j : Int) - 1, dsp := (j : Int) - 1 } := by
  have c1 : 0 ≤ s.dsp ∧ s.dsp < s.dsizes_blk.length := by rw [hdsp]; omega
  have hdn : Int.toNat s.dsp = j := by rw [hdsp]; simp
  have c2 : 0 ≤ s.shp ∧ s.shp < s.shape_blk.length := by rw [hshp, hS, ints_length]; omega
  have gS : s.shape_blk.getD (Int.toNat s.shp) 0 = ((S.getD j 0 : Nat) : Int) := by rw [hS]; exact ints_getD' S _ j hshp
  have hne : (s.shp ≠ s.shape) ↔ j ≠ 0 := by rw [hshp, hsh]; omega
  unfold NC_var_shape.loop1.body
  by_cases hc : j ≠ 0 ∨ S.getD j 0 ≠ 0
  · have hc' : ¬ s.shp = s.shape ∨ ¬ S.getD j 0 = 0 := by
      rcases hc with h | h
      · exact Or.inl (hne.mpr h)
      · exact Or.inr h
    simp [NC_var_shape.chk, c1, c2, hdn, gS, hc', hc, hL, -List.getD_eq_getElem?_getD]
    refine ⟨?_, ?_, ?_⟩ <;> first | exact hshp | exact hdsp | simp [W]
  · have hc' : ¬ (¬ s.shp = s.shape ∨ ¬ S.getD j 0 = 0) := by
      intro h; apply hc
      rcases h with h | h
      · exact Or.inl (hne.mp h)
      · exact Or.inr h
    simp [NC_var_shape.chk, c1, c2, hdn, gS, hc', hc, hL, -List.getD_eq_getElem?_getD]
    refine ⟨?_, ?_⟩ <;> first | exact hshp | exact hdsp

theorem vs_loop1_stop (fuel : Nat) (s : NC_var_shape.St) (h : s.shp < s.shape ∨ s.done = true ∨ s.gto = true) : NC_var_shape.loop1 fuel s = s := by
  have : ¬ ((s.shp ≥ s.shape) ∧ ¬(s.done = true ∨ s.gto = true)) := by
    rcases h with h | h | h
    · intro ⟨h1, _⟩; omega
    · simp [h]
    · simp [h]
  cases fuel <;> simp only [NC_var_shape.loop1, this, if_false]

theorem lenAt_step (x : Nat) (S : List Nat) (m : Nat) (hm : m < S.length) :
    (if m ≠ 0 ∨ S.getD m 0 ≠ 0 then (P x S (m + 1) % W * S.getD m 0) % W else P x S (m + 1) % W) = lenAt x S m := by
  unfold lenAt
  have hmm : (P x S (m + 1) % W * S.getD m 0) % W = P x S m % W := by
    rw [P_step x S m hm, Nat.mul_mod (P x S (m + 1) % W), Nat.mod_mod, ← Nat.mul_mod]
  by_cases h0 : m = 0
  · subst h0
    rw [varLen_cases x S hm]
    by_cases hz : S.getD 0 0 = 0
    · simp only [hz, ne_eq, not_true_eq_false, or_self, if_false, if_true]
    · simp only [hz, ne_eq, not_true_eq_false, not_false_eq_true, or_true, if_true, if_false, hmm]
  · simp only [h0, ne_eq, not_false_eq_true, true_or, if_true, if_false, hmm]

theorem set_replicate_drop (m : Nat) (D : List Nat) (hm : m < D.length) :
    (List.replicate (m + 1) (170 : Int) ++ ints (D.drop (m + 1))).set m ((D.getD m 0 : Nat) : Int) = List.replicate m 170 ++ ints (D.drop m) := by
  rw [List.set_append_left _ _ (by simp)]
  rw [drop_cons_getD D m hm]
  have : (List.replicate (m + 1) (170 : Int)).set m ((D.getD m 0 : Nat) : Int) = List.replicate m 170 ++ [((D.getD m 0 : Nat) : Int)] := by
    rw [List.replicate_succ']
    rw [List.set_append_right _ _ (by simp)]
    simp
  rw [this]
  simp [List.getD_eq_getElem?_getD]

/-- the second loop of the translated `NC_var_shape`: `dsizes[k] = P (k+1) mod 2^64`, `len` ends as `varLen mod 2^64` -/
theorem vs_loop1 (x : Nat) (S : List Nat) :
    ∀ (m fuel : Nat) (s : NC_var_shape.St), m ≤ fuel → m + 1 ≤ S.length → s.shp = (m : Int) - 1 → s.dsp = (m : Int) - 1 → s.shape = 0 →
      s.shape_blk = ints S → s.dsizes_blk = List.replicate m 170 ++ ints ((dsC x S).drop m) → s.var_len = ((lenAt x S m : Nat) : Int) →
      s.done = false → s.gto = false →
      NC_var_shape.loop1 fuel s =
        { s with dsizes_blk := ints (dsC x S), var_len := ((varLen x S % W : Nat) : Int), shp := -1, dsp := -1 } := by
  intro m
  induction m with
  | zero =>
    intro fuel s _ _ hshp hdsp hsh hS hD hL hdone hgto
    rw [vs_loop1_stop fuel s (Or.inl (by rw [hshp, hsh]; omega))]
    simp [lenAt] at hL
    cases s; simp_all
  | succ j ih =>
    intro fuel s hf hm hshp hdsp hsh hS hD hL hdone hgto
    have hshp' : s.shp = (j : Int) := by rw [hshp]; omega
    have hdsp' : s.dsp = (j : Int) := by rw [hdsp]; omega
    cases fuel with
    | zero => omega
    | succ fuel =>
      have hgo : (s.shp ≥ s.shape) ∧ ¬(s.done = true ∨ s.gto = true) := ⟨by rw [hshp', hsh]; omega, by simp [hdone, hgto]⟩
      have hstep : NC_var_shape.loop1 (fuel + 1) s = NC_var_shape.loop1 fuel (NC_var_shape.loop1.body (fuel + 1) s) := by
        rw [NC_var_shape.loop1, if_pos hgo]
      have hLj : lenAt x S (j + 1) = P x S (j + 1) % W := by simp [lenAt]
      have hjd : j < s.dsizes_blk.length := by rw [hD]; simp; omega
      have hb := vs_body1 (fuel + 1) s S j (lenAt x S (j + 1)) hsh hS (by omega) hjd hshp' hdsp' hL
      rw [hstep]
      rw [ih fuel (NC_var_shape.loop1.body (fuel + 1) s) (by omega) (by omega) (by rw [hb]) (by rw [hb]) (by rw [hb]; exact hsh)
        (by rw [hb]; exact hS)
        (by
          rw [hb]
          show s.dsizes_blk.set j _ = _
          rw [hD, hLj, ← dsC_getD x S j (by omega)]
          exact set_replicate_drop j (dsC x S) (by rw [dsC_length]; omega))
        (by
          rw [hb]
          show (if j ≠ 0 ∨ S.getD j 0 ≠ 0 then _ else _) = _
          rw [hLj, ← lenAt_step x S j (by omega)]
          split <;> rfl)
        (by rw [hb]; exact hdone) (by rw [hb]; exact hgto)]
      rw [hb]

/-! ## `NC_var_shape`: the loops as rewrite rules for the entry function, and the entry function -/

theorem malloc_cells (n : Nat) (h : n < 2147483648) :
    Int.tdiv ((((n : Int) % 18446744073709551616) * 8) % 18446744073709551616) 8 = n := by
  have : (((n : Int) % 18446744073709551616) * 8) % 18446744073709551616 = (n : Int) * 8 := by omega
  rw [this, Int.mul_tdiv_cancel _ (by decide)]

/-- the first loop on the state in which `NC_var_shape` enters it, all dimension ids accepted (a conditional rewrite rule: `simp` discharges
    the hypotheses on the concrete state) -/
theorem vs_loop0_some (ids : List Int) (dimsizes S : List Nat) (hI : Ids32 ids) (hS : Dims31 dimsizes) (hn : ids.length < 2147483648)
    (hdl : dimsizes.length < 4294967296) (hsh : shapeOf dimsizes true ids = some S) (fuel : Nat) (hf : ids.length ≤ fuel) (s : NC_var_shape.St)
    (h1 : s.var_assoc_values = ids) (h2 : s.var_assoc_count = ids.length) (h3 : s.dims_null = false) (h4 : s.dims_count = dimsizes.length)
    (h5 : s.dims_values.length = dimsizes.length) (h6 : s.dims_values_size = ints dimsizes) (h7 : s.shape = 0) (h8 : s.done = false)
    (h9 : s.gto = false) (h10 : s.ip = 0) (h11 : s.op = 0) (h12 : s.ii = ids.length) (h13 : s.shape_blk = List.replicate ids.length 170) :
    NC_var_shape.loop0 fuel s = { s with dp := ids.getLastD s.dp, shape_blk := ints S, op := ids.length, ip := ids.length, ii := 0 } := by
  have key := vs_loop0 ids dimsizes hI hS hn hdl ids.length fuel s [] hf (by simp) ⟨h1, h2, h3, h4, h5, h6, h7, h8, h9⟩ (by simpa using h10)
    (by simpa using h11) h12 (by simpa using h13)
  simp only [List.length_nil, decide_true, List.drop_zero, hsh, List.nil_append] at key
  exact key

/-- the first loop on the state in which `NC_var_shape` enters it, a dimension id refused -/
theorem vs_loop0_none (ids : List Int) (dimsizes : List Nat) (hI : Ids32 ids) (hS : Dims31 dimsizes) (hn : ids.length < 2147483648)
    (hdl : dimsizes.length < 4294967296) (hsh : shapeOf dimsizes true ids = none) (fuel : Nat) (hf : ids.length ≤ fuel) (s : NC_var_shape.St)
    (h1 : s.var_assoc_values = ids) (h2 : s.var_assoc_count = ids.length) (h3 : s.dims_null = false) (h4 : s.dims_count = dimsizes.length)
    (h5 : s.dims_values.length = dimsizes.length) (h6 : s.dims_values_size = ints dimsizes) (h7 : s.shape = 0) (h8 : s.done = false)
    (h9 : s.gto = false) (h10 : s.ip = 0) (h11 : s.op = 0) (h12 : s.ii = ids.length) (h13 : s.shape_blk = List.replicate ids.length 170) :
    Vs0Fail s (NC_var_shape.loop0 fuel s) := by
  have key := vs_loop0 ids dimsizes hI hS hn hdl ids.length fuel s [] hf (by simp) ⟨h1, h2, h3, h4, h5, h6, h7, h8, h9⟩ (by simpa using h10)
    (by simpa using h11) h12 (by simpa using h13)
  simp only [List.length_nil, decide_true, List.drop_zero, hsh] at key
  exact key

theorem shapeOf_length (dimsizes : List Nat) : ∀ (ids : List Int) (f : Bool) (S : List Nat), shapeOf dimsizes f ids = some S → S.length = ids.length := by
  intro ids
  induction ids with
  | nil => intro f S h; simp [shapeOf] at h; subst h; rfl
  | cons a t ih =>
    intro f S h
    simp only [shapeOf] at h
    split at h
    · exact absurd h (by simp)
    · split at h
      · exact absurd h (by simp)
      · cases hr : shapeOf dimsizes false t with
        | none => rw [hr] at h; simp at h
        | some r => rw [hr] at h; simp at h; subst h; simp [ih false r hr]

/-- a shape that `NC_var_shape` accepts has no 0 (NC_UNLIMITED) after index 0 -/
theorem shapeOf_pos (dimsizes : List Nat) : ∀ (ids : List Int) (f : Bool) (S : List Nat), shapeOf dimsizes f ids = some S →
    ∀ k, k < S.length → (f = false ∨ 1 ≤ k) → S.getD k 0 ≠ 0 := by
  intro ids
  induction ids with
  | nil => intro f S h k hk; simp [shapeOf] at h; subst h; simp at hk
  | cons a t ih =>
    intro f S h k hk hf
    simp only [shapeOf] at h
    split at h
    · exact absurd h (by simp)
    · split at h
      · exact absurd h (by simp)
      · rename_i hnb hnu
        cases hr : shapeOf dimsizes false t with
        | none => rw [hr] at h; simp at h
        | some r =>
          rw [hr] at h; simp at h; subst h
          cases k with
          | zero =>
            rcases hf with hf | hf
            · simp only [H4.Gen.Ncvar.NC_UNLIMITED] at hnu
              simp only [List.getD_cons_zero]
              intro hz; exact hnu ⟨hz, hf⟩
            · omega
          | succ j =>
            simp only [List.getD_cons_succ]
            exact ih false r hr j (by simpa using hk) (Or.inl rfl)

/-- the second loop on the state in which `NC_var_shape` enters it (a conditional rewrite rule) -/
theorem vs_loop1_entry (x : Nat) (S : List Nat) (n : Nat) (hx : x < W) (hS : S.length = n) (hn1 : 1 ≤ n) (hlast : 2 ≤ n → S.getD (n - 1) 0 ≠ 0)
    (fuel : Nat) (hf : n ≤ fuel) (s : NC_var_shape.St)
    (h1 : s.shp = (n : Int) - 1 - 1) (h2 : s.dsp = (n : Int) - 1 - 1) (h3 : s.shape = 0) (h4 : s.shape_blk = ints S)
    (h5 : s.dsizes_blk = (List.replicate n (170 : Int)).set (n - 1) (x : Int))
    (h6 : s.var_len = (if (ints S).getD (n - 1) 0 = 0 then 1 else (ints S).getD (n - 1) 0) * (x : Int) % 18446744073709551616)
    (h7 : s.done = false) (h8 : s.gto = false) :
    NC_var_shape.loop1 fuel s =
      { s with dsizes_blk := ints (dsC x S), var_len := ((varLen x S % W : Nat) : Int), shp := -1, dsp := -1 } := by
  have hPn : P x S n = x := by simp [P, ← hS, prod]
  have hdl : (dsC x S).length = n := by rw [dsC_length, hS]
  apply vs_loop1 x S (n - 1) fuel s (by omega) (by omega) (by rw [h1]; omega) (by rw [h2]; omega) h3 h4 _ _ h7 h8
  · rw [h5]
    have hdrop : (dsC x S).drop (n - 1) = [x] := by
      rw [drop_cons_getD (dsC x S) (n - 1) (by omega), ← List.getD_eq_getElem?_getD, dsC_getD x S (n - 1) (by omega), show n - 1 + 1 = n by omega, hPn,
        List.drop_of_length_le (by omega), Nat.mod_eq_of_lt hx]
    rw [hdrop]
    have : List.replicate n (170 : Int) = List.replicate (n - 1) 170 ++ [170] := by
      conv => lhs; rw [show n = (n - 1) + 1 by omega]
      exact List.replicate_succ'
    rw [this, List.set_append_right _ _ (by simp)]
    simp
  · rw [h6]
    have g : (ints S).getD (n - 1) 0 = ((S.getD (n - 1) 0 : Nat) : Int) := by simp [List.getD_eq_getElem?_getD]
    rw [g]
    unfold lenAt
    by_cases h1n : n = 1
    · subst h1n
      have hP1 : P x S 1 = x := hPn
      have hP0 : P x S 0 = x * S.getD 0 0 := by rw [P_step x S 0 (by omega), hP1]
      have e11 : (1 : Nat) - 1 = 0 := rfl
      simp only [e11, if_true]
      rw [varLen_cases x S (by omega)]
      by_cases hz : S.getD 0 0 = 0
      · have hz' : ((S.getD 0 0 : Nat) : Int) = 0 := by omega
        simp only [hz, hz', if_true, hP1, Int.one_mul]
        simp [W, Int.natCast_emod]
      · have hz' : ¬ ((S.getD 0 0 : Nat) : Int) = 0 := by omega
        simp only [hz, hz', if_false, hP0]
        rw [Nat.mul_comm]; simp [W, Int.natCast_emod]
    · have hz := hlast (by omega)
      have hz' : ¬ ((S.getD (n - 1) 0 : Nat) : Int) = 0 := by omega
      have hP : P x S (n - 1) = x * S.getD (n - 1) 0 := by
        rw [P_step x S (n - 1) (by omega), show n - 1 + 1 = n by omega, hPn]
      simp only [hz', if_false, show ¬ (n - 1 = 0) by omega, hP]
      rw [Nat.mul_comm]; simp [W, Int.natCast_emod]

theorem round_int (ft ty L : Nat) (hL : L < W) :
    (if ((ft : Nat) : Int) ≠ 1 then
      (if ((ty : Nat) : Int) = 1 ∨ ((ty : Nat) : Int) = 2 ∨ ((ty : Nat) : Int) = 3 then
        (if Int.tmod (L : Int) 4 ≠ 0 then ((L : Int) + (4 - Int.tmod (L : Int) 4) % 18446744073709551616) % 18446744073709551616 else (L : Int))
       else (L : Int))
     else (L : Int)) = ((roundLen ft ty L % W : Nat) : Int) := by
  have ht : Int.tmod (L : Int) 4 = ((L % 4 : Nat) : Int) := by have := tmod_nat L 4; simpa using this
  unfold roundLen
  simp only [H4.Gen.Ncvar.HDF_FILE, H4.Gen.Ncvar.NC_BYTE, H4.Gen.Ncvar.NC_CHAR, H4.Gen.Ncvar.NC_SHORT, W] at hL ⊢
  rw [ht]
  by_cases h1 : ft = 1
  · simp [h1]; omega
  · have h1' : ¬ ((ft : Nat) : Int) = 1 := by omega
    by_cases h2 : ty = 1 ∨ ty = 2 ∨ ty = 3
    · have h2' : ((ty : Nat) : Int) = 1 ∨ ((ty : Nat) : Int) = 2 ∨ ((ty : Nat) : Int) = 3 := by omega
      by_cases h3 : L % 4 = 0
      · have h3' : ((L % 4 : Nat) : Int) = 0 := by omega
        simp only [h1, h1', h2, h2', h3, h3', ne_eq, not_false_eq_true, not_true_eq_false, if_true, if_false, and_false, and_true, true_and]
        omega
      · have h3' : ¬ ((L % 4 : Nat) : Int) = 0 := by omega
        simp only [h1, h1', h2, h2', h3, h3', ne_eq, not_false_eq_true, not_true_eq_false, if_true, if_false, and_false, and_true, true_and, and_self]
        omega
    · have h2' : ¬ (((ty : Nat) : Int) = 1 ∨ ((ty : Nat) : Int) = 2 ∨ ((ty : Nat) : Int) = 3) := by omega
      simp only [h1, h1', h2, h2', ne_eq, not_false_eq_true, if_true, if_false, and_false, false_and]
      omega

/-- the translated `NC_var_shape` on a variable of rank ≥ 1 all of whose dimension ids are accepted: `shape[]`, `dsizes[]` (modulo 2^64), `len` (modulo 2^64,
    rounded), both arrays seated into the variable, result = rank; no undefined behaviour, loops terminate -/
theorem vs_entry_ok (ids : List Int) (dimsizes S : List Nat) (x ft ty : Nat) (len0 : Int) (dv : List Int) (fuel : Nat) (sn : Bool)
  (hI : Ids32 ids) (hS31 : Dims31 dimsizes) (hn : ids.length < 2147483648) (hdl : dimsizes.length < 4294967296) (hdv : dv.length = dimsizes.length)
  (hx : x < 2147483648) (hf : ids.length ≤ fuel) (hsh : shapeOf dimsizes true ids = some S) (hpos : 0 < ids.length) :
  (NC_var_shape fuel x ids.length len0 ids sn ft ty false dimsizes.length dv (ints dimsizes)).ub = false ∧
  (NC_var_shape fuel x ids.length len0 ids sn ft ty false dimsizes.length dv (ints dimsizes)).oof = false ∧
  (NC_var_shape fuel x ids.length len0 ids sn ft ty false dimsizes.length dv (ints dimsizes)).ret = ids.length ∧
  (NC_var_shape fuel x ids.length len0 ids sn ft ty false dimsizes.length dv (ints dimsizes)).var_shape_seat = true ∧
  (NC_var_shape fuel x ids.length len0 ids sn ft ty false dimsizes.length dv (ints dimsizes)).var_dsizes_seat = true ∧
  (NC_var_shape fuel x ids.length len0 ids sn ft ty false dimsizes.length dv (ints dimsizes)).shape_blk = ints S ∧
  (NC_var_shape fuel x ids.length len0 ids sn ft ty false dimsizes.length dv (ints dimsizes)).dsizes_blk = ints (dsC x S) ∧
  (NC_var_shape fuel x ids.length len0 ids sn ft ty false dimsizes.length dv (ints dimsizes)).var_len = ((roundLen ft ty (varLen x S % W) % W : Nat) : Int) := by
  have hne : ids ≠ [] := by intro h; simp [h] at hpos
  have hxm : (x : Int) % 18446744073709551616 = x := by omega
  have hSl := shapeOf_length dimsizes ids true S hsh
  have hlast : 2 ≤ ids.length → S.getD (ids.length - 1) 0 ≠ 0 := fun h => shapeOf_pos dimsizes ids true S hsh _ (by omega) (Or.inr (by omega))
  have k0 := vs_loop0_some ids dimsizes S hI hS31 hn hdl hsh fuel hf
  have k1 := vs_loop1_entry x S ids.length (by simp [W]; omega) hSl (by omega) hlast fuel hf
  have c1 : (1 : Int) ≤ ids.length := by omega
  have c2 : (ids.length : Int) - 1 < S.length := by omega
  have c3 : (ids.length : Int) - 1 < ids.length := by omega
  have hLW : varLen x S % W < W := Nat.mod_lt _ (by simp [W])
  have hr := round_int ft ty (varLen x S % W) hLW
  generalize varLen x S % W = L at k1 hr hLW ⊢
  rw [← hr]
  by_cases h1 : ((ft : Nat) : Int) = 1
  · simp [NC_var_shape, NC_var_shape.chk, hne, hxm, malloc_cells _ hn, k0, k1, hdv, c1, c2, c3, h1, -List.getD_eq_getElem?_getD]
  · by_cases h2 : ((ty : Nat) : Int) = 1 ∨ ((ty : Nat) : Int) = 2 ∨ ((ty : Nat) : Int) = 3
    · by_cases h3 : Int.tmod (L : Int) 4 = 0
      · simp [NC_var_shape, NC_var_shape.chk, hne, hxm, malloc_cells _ hn, k0, k1, hdv, c1, c2, c3, h1, h2, h3, -List.getD_eq_getElem?_getD]
      · simp [NC_var_shape, NC_var_shape.chk, hne, hxm, malloc_cells _ hn, k0, k1, hdv, c1, c2, c3, h1, h2, h3, -List.getD_eq_getElem?_getD]
    · simp [NC_var_shape, NC_var_shape.chk, hne, hxm, malloc_cells _ hn, k0, k1, hdv, c1, c2, c3, h1, h2, -List.getD_eq_getElem?_getD]

/-- the translated `NC_var_shape` when a dimension id is refused ("Bad dimension id", or NC_UNLIMITED at an index other than 0): `-1`, the
    variable keeps its `len` and is not re-seated -/
theorem vs_entry_fail (ids : List Int) (dimsizes : List Nat) (x ft ty : Nat) (len0 : Int) (dv : List Int) (fuel : Nat) (sn : Bool)
  (hI : Ids32 ids) (hS31 : Dims31 dimsizes) (hn : ids.length < 2147483648) (hdl : dimsizes.length < 4294967296) (hdv : dv.length = dimsizes.length)
  (hx : x < 2147483648) (hf : ids.length ≤ fuel) (hsh : shapeOf dimsizes true ids = none) :
  (NC_var_shape fuel x ids.length len0 ids sn ft ty false dimsizes.length dv (ints dimsizes)).ub = false ∧
  (NC_var_shape fuel x ids.length len0 ids sn ft ty false dimsizes.length dv (ints dimsizes)).oof = false ∧
  (NC_var_shape fuel x ids.length len0 ids sn ft ty false dimsizes.length dv (ints dimsizes)).ret = -1 ∧
  (NC_var_shape fuel x ids.length len0 ids sn ft ty false dimsizes.length dv (ints dimsizes)).var_shape_seat = false ∧
  (NC_var_shape fuel x ids.length len0 ids sn ft ty false dimsizes.length dv (ints dimsizes)).var_dsizes_seat = false ∧
  (NC_var_shape fuel x ids.length len0 ids sn ft ty false dimsizes.length dv (ints dimsizes)).var_len = len0 := by
  have hne : ids ≠ [] := by intro h; subst h; simp [shapeOf] at hsh
  have hxm : (x : Int) % 18446744073709551616 = x := by omega
  have kk := vs_loop0_none ids dimsizes hI hS31 hn hdl hsh fuel hf
  have kd := fun s a b c d e f g h i j k l m => (kk s a b c d e f g h i j k l m).1
  have kr := fun s a b c d e f g h i j k l m => (kk s a b c d e f g h i j k l m).2.1
  have ku := fun s a b c d e f g h i j k l m => (kk s a b c d e f g h i j k l m).2.2.1
  have ko := fun s a b c d e f g h i j k l m => (kk s a b c d e f g h i j k l m).2.2.2.1
  have kl := fun s a b c d e f g h i j k l m => (kk s a b c d e f g h i j k l m).2.2.2.2.1
  have k1 := fun s a b c d e f g h i j k l m => (kk s a b c d e f g h i j k l m).2.2.2.2.2.1
  have k2 := fun s a b c d e f g h i j k l m => (kk s a b c d e f g h i j k l m).2.2.2.2.2.2
  simp [NC_var_shape, NC_var_shape.chk, hne, hxm, malloc_cells _ hn, kd, kr, ku, ko, kl, k1, k2, hdv, -List.getD_eq_getElem?_getD]

/-- a scalar variable (`assoc->count = 0`): `len = xszof` (rounded in a non-HDF file), nothing allocated, result 0 -/
theorem vs_entry_scalar (x ft ty : Nat) (len0 : Int) (av dv ds : List Int) (dc : Int) (fuel : Nat) (sn dn : Bool) (hx : x < 2147483648) :
  (NC_var_shape fuel x 0 len0 av sn ft ty dn dc dv ds).ub = false ∧
  (NC_var_shape fuel x 0 len0 av sn ft ty dn dc dv ds).oof = false ∧
  (NC_var_shape fuel x 0 len0 av sn ft ty dn dc dv ds).ret = 0 ∧
  (NC_var_shape fuel x 0 len0 av sn ft ty dn dc dv ds).var_shape_seat = false ∧
  (NC_var_shape fuel x 0 len0 av sn ft ty dn dc dv ds).var_dsizes_seat = false ∧
  (NC_var_shape fuel x 0 len0 av sn ft ty dn dc dv ds).shape_blk = [] ∧
  (NC_var_shape fuel x 0 len0 av sn ft ty dn dc dv ds).dsizes_blk = [] ∧
  (NC_var_shape fuel x 0 len0 av sn ft ty dn dc dv ds).var_len = ((roundLen ft ty (varLen x [] % W) % W : Nat) : Int) := by
  have hxm : (x : Int) % 18446744073709551616 = x := by omega
  have hv : varLen x [] % W = x := by simp [varLen, recProd, W]; omega
  have hr := round_int ft ty x (by simp [W]; omega)
  rw [hv, ← hr]
  by_cases h1 : ((ft : Nat) : Int) = 1
  · simp [NC_var_shape, NC_var_shape.chk, hxm, h1]
  · by_cases h2 : ((ty : Nat) : Int) = 1 ∨ ((ty : Nat) : Int) = 2 ∨ ((ty : Nat) : Int) = 3
    · by_cases h3 : Int.tmod (x : Int) 4 = 0
      · simp [NC_var_shape, NC_var_shape.chk, hxm, h1, h2, h3]
      · simp [NC_var_shape, NC_var_shape.chk, hxm, h1, h2, h3]
    · simp [NC_var_shape, NC_var_shape.chk, hxm, h1, h2]

/-! ## `NCcoordck`: the three loops -/

theorem ck_chk_true (s : NCcoordck.St) (c : Prop) [Decidable c] (h : c) : NCcoordck.chk s c = s := by
  cases s; simp [NCcoordck.chk, h]

/-- `∀ i, b ≤ i < m → 0 ≤ coords[i] < shape[i]` (what the bounds loop has established when its cursor has come down from `m-1` to `b`) -/
def okR (S : List Nat) (C : List Int) (b : Nat) : Nat → Bool
  | 0 => true
  | m + 1 => if m < b then true else (decide (0 ≤ C.getD m 0) && decide (C.getD m 0 < (S.getD m 0 : Int))) && okR S C b m

theorem okR_lt (S : List Nat) (C : List Int) (b m : Nat) (h : m ≤ b) : okR S C b m = true := by
  cases m with
  | zero => rfl
  | succ k => simp [okR, show k < b by omega]

theorem inExtents_nil_right (S : List Nat) : inExtents S [] = true := by cases S <;> rfl

/-- the index-wise check is the model's `inExtents` of the two lists from `b` on -/
theorem okR_eq_inExtents (S : List Nat) (C : List Int) (b : Nat) (hl : C.length = S.length) (hb : b ≤ S.length) :
    okR S C b S.length = inExtents (S.drop b) (C.drop b) := by
  suffices h : ∀ k, b + k = S.length → ∀ m, m ≤ k →
      (okR S C b (b + m) && inExtents (S.drop (b + m)) (C.drop (b + m))) = inExtents (S.drop b) (C.drop b) by
    have := h (S.length - b) (by omega) (S.length - b) (Nat.le_refl _)
    rw [show b + (S.length - b) = S.length by omega] at this
    rw [← this]
    simp [List.drop_of_length_le (Nat.le_refl S.length), inExtents]
  intro k hk m
  induction m with
  | zero => intro _; simp [okR_lt S C b b (Nat.le_refl _)]
  | succ j ih =>
    intro hj
    have hjS : b + j < S.length := by omega
    have hjC : b + j < C.length := by omega
    rw [← ih (by omega)]
    rw [List.drop_eq_getElem_cons hjS, List.drop_eq_getElem_cons hjC]
    have : okR S C b (b + (j + 1)) = ((decide (0 ≤ C.getD (b + j) 0) && decide (C.getD (b + j) 0 < (S.getD (b + j) 0 : Int))) && okR S C b (b + j)) := by
      show okR S C b ((b + j) + 1) = _
      simp only [okR, show ¬ (b + j < b) by omega, if_false]
    rw [this]
    simp only [inExtents, List.getD_eq_getElem?_getD, List.getElem?_eq_getElem hjS, List.getElem?_eq_getElem hjC, Option.getD_some]
    rw [show b + j + 1 = b + (j + 1) by omega]
    cases decide (0 ≤ C[b + j]) <;> cases decide (C[b + j] < (S[b + j] : Int)) <;> cases okR S C b (b + j) <;> simp

/-- one pass through the bounds loop at index `j`, coordinate inside the extent -/
theorem ck_body0_ok (fuel : Nat) (s : NCcoordck.St) (S : List Nat) (C : List Int) (j : Nat)
    (hS : s.vp_shape = ints S) (hC : s.coords = C) (hj1 : j < S.length) (hj2 : j < C.length) (hip : s.ip = j) (hup : s.up = j)
    (hdone : s.done = false) (hgto : s.gto = false) (h1 : 0 ≤ C.getD j 0) (h2 : C.getD j 0 < (S.getD j 0 : Int)) :
    NCcoordck.loop0.body fuel s = { s with ip := (j : Int) - 1, up := (j : Int) - 1 } := by
  have c1 : 0 ≤ s.ip ∧ s.ip < s.coords.length := by rw [hip, hC]; omega
  have c2 : 0 ≤ s.up ∧ s.up < s.vp_shape.length := by rw [hup, hS, ints_length]; omega
  have gC : s.coords.getD (Int.toNat s.ip) 0 = C.getD j 0 := by rw [hip, hC]; simp
  have gS : s.vp_shape.getD (Int.toNat s.up) 0 = ((S.getD j 0 : Nat) : Int) := by rw [hS]; exact ints_getD' S _ j hup
  have n1 : ¬ (C.getD j 0 < 0 ∨ C.getD j 0 ≥ ((S.getD j 0 : Nat) : Int)) := by omega
  unfold NCcoordck.loop0.body
  simp only [ck_chk_true s _ c1, ck_chk_true s _ (Or.inr c1 : _ ∨ _), ck_chk_true s _ (Or.inr c2 : _ ∨ _), gC, gS, n1, if_false, hdone, hgto,
    Bool.false_eq_true, or_self, NCcoordck.St.set_ip, NCcoordck.St.set_up]
  rw [hip, hup]

/-- one pass through the bounds loop at index `j`, coordinate outside the extent: `goto bad` -/
theorem ck_body0_bad (fuel : Nat) (s : NCcoordck.St) (S : List Nat) (C : List Int) (j : Nat)
    (hS : s.vp_shape = ints S) (hC : s.coords = C) (hj1 : j < S.length) (hj2 : j < C.length) (hip : s.ip = j) (hup : s.up = j)
    (hdone : s.done = false) (hgto : s.gto = false) (h : C.getD j 0 < 0 ∨ C.getD j 0 ≥ (S.getD j 0 : Int)) :
    NCcoordck.loop0.body fuel s = { s with gto := true } := by
  have c1 : 0 ≤ s.ip ∧ s.ip < s.coords.length := by rw [hip, hC]; omega
  have c2 : 0 ≤ s.up ∧ s.up < s.vp_shape.length := by rw [hup, hS, ints_length]; omega
  have gC : s.coords.getD (Int.toNat s.ip) 0 = C.getD j 0 := by rw [hip, hC]; simp
  have gS : s.vp_shape.getD (Int.toNat s.up) 0 = ((S.getD j 0 : Nat) : Int) := by rw [hS]; exact ints_getD' S _ j hup
  unfold NCcoordck.loop0.body
  simp only [ck_chk_true s _ c1, ck_chk_true s _ (Or.inr c1 : _ ∨ _), ck_chk_true s _ (Or.inr c2 : _ ∨ _), gC, gS, h, if_true, hdone,
    Bool.false_eq_true, false_or, NCcoordck.St.set_gto]

theorem ck_loop0_stop (fuel : Nat) (s : NCcoordck.St) (hbn : s.boundary_null = false) (h : s.ip < s.boundary ∨ s.done = true ∨ s.gto = true) :
    NCcoordck.loop0 fuel s = s := by
  have hc : NCcoordck.chk s (s.boundary_null = false) = s := ck_chk_true s _ hbn
  have : ¬ ((s.ip ≥ s.boundary) ∧ ¬(s.done = true ∨ s.gto = true)) := by
    rcases h with h | h | h
    · intro ⟨h1, _⟩; omega
    · simp [h]
    · simp [h]
  cases fuel <;> simp only [NCcoordck.loop0, hc, this, if_false]

/-- what the bounds loop leaves when a coordinate is refused: `goto bad` pending, nothing else that matters changed -/
def Ck0Fail (s r : NCcoordck.St) : Prop :=
  r.gto = true ∧ r.done = false ∧ r.ub = s.ub ∧ r.oof = s.oof ∧ r.vp_numrecs = s.vp_numrecs ∧ r.handle_numrecs = s.handle_numrecs ∧
    r.handle_flags = s.handle_flags

/-- the bounds loop of the translated `NCcoordck` computes the index-wise check -/
theorem ck_loop0 (S : List Nat) (C : List Int) (b : Nat) :
    ∀ (m fuel : Nat) (s : NCcoordck.St), m ≤ S.length → m ≤ C.length → m ≤ fuel → b ≤ m →
      s.vp_shape = ints S → s.coords = C → s.ip = (m : Int) - 1 → s.up = (m : Int) - 1 → s.boundary = b → s.boundary_null = false →
      s.done = false → s.gto = false →
      if okR S C b m = true then NCcoordck.loop0 fuel s = { s with ip := (b : Int) - 1, up := (b : Int) - 1 }
      else Ck0Fail s (NCcoordck.loop0 fuel s) := by
  intro m
  induction m with
  | zero =>
    intro fuel s _ _ _ hb hS hC hip hup hbd hbn hdone hgto
    have hb0 : b = 0 := by omega
    subst hb0
    rw [ck_loop0_stop fuel s hbn (Or.inl (by rw [hip, hbd]; omega))]
    simp only [okR, if_true]
    cases s; simp_all
  | succ j ih =>
    intro fuel s h1 h2 hf hb hS hC hip hup hbd hbn hdone hgto
    have hip' : s.ip = (j : Int) := by rw [hip]; omega
    have hup' : s.up = (j : Int) := by rw [hup]; omega
    by_cases hjb : j < b
    · have hbj : b = j + 1 := by omega
      rw [ck_loop0_stop fuel s hbn (Or.inl (by rw [hip', hbd]; omega))]
      simp only [okR, hjb, if_true]
      subst hbj
      cases s; simp_all
    · cases fuel with
      | zero => omega
      | succ fuel =>
        have hc : NCcoordck.chk s (s.boundary_null = false) = s := ck_chk_true s _ hbn
        have hgo : (s.ip ≥ s.boundary) ∧ ¬(s.done = true ∨ s.gto = true) := ⟨by rw [hip', hbd]; omega, by simp [hdone, hgto]⟩
        have hstep : NCcoordck.loop0 (fuel + 1) s = NCcoordck.loop0 fuel (NCcoordck.loop0.body (fuel + 1) s) := by
          rw [NCcoordck.loop0]; simp only [hc]; rw [if_pos hgo]
        rw [hstep]
        simp only [okR, hjb, if_false]
        by_cases hin : 0 ≤ C.getD j 0 ∧ C.getD j 0 < (S.getD j 0 : Int)
        · have hb' := ck_body0_ok (fuel + 1) s S C j hS hC (by omega) (by omega) hip' hup' hdone hgto hin.1 hin.2
          have key := ih fuel (NCcoordck.loop0.body (fuel + 1) s) (by omega) (by omega) (by omega) (by omega) (by rw [hb']; exact hS)
            (by rw [hb']; exact hC) (by rw [hb']) (by rw [hb']) (by rw [hb']; exact hbd) (by rw [hb']; exact hbn) (by rw [hb']; exact hdone)
            (by rw [hb']; exact hgto)
          simp only [hin.1, hin.2, decide_true, Bool.true_and]
          by_cases hok : okR S C b j = true
          · rw [if_pos hok] at key ⊢
            rw [key, hb']
          · rw [if_neg hok] at key ⊢
            obtain ⟨a1, a2, a3, a4, a5, a6, a7⟩ := key
            exact ⟨a1, a2, a3.trans (by rw [hb']), a4.trans (by rw [hb']), a5.trans (by rw [hb']), a6.trans (by rw [hb']), a7.trans (by rw [hb'])⟩
        · have hbad : C.getD j 0 < 0 ∨ C.getD j 0 ≥ (S.getD j 0 : Int) := by omega
          have hb' := ck_body0_bad (fuel + 1) s S C j hS hC (by omega) (by omega) hip' hup' hdone hgto hbad
          have hdec : (decide (0 ≤ C.getD j 0) && decide (C.getD j 0 < (S.getD j 0 : Int))) = false := by
            rcases hbad with h | h
            · have : ¬ (0 ≤ C.getD j 0) := by omega
              rw [decide_eq_false this, Bool.false_and]
            · have : ¬ (C.getD j 0 < (S.getD j 0 : Int)) := by omega
              rw [decide_eq_false this, Bool.and_false]
          rw [hdec, Bool.false_and, if_neg (by simp), hb', ck_loop0_stop fuel { s with gto := true } hbn (Or.inr (Or.inr rfl))]
          exact ⟨rfl, hdone, rfl, rfl, rfl, rfl, rfl⟩

/-- the fill loop of the HDF branch, every `Hwrite` succeeding: `unfilled + 1` records are written, `vp->numrecs` grows by as many -/
theorem ck_loop1 : ∀ (k fuel : Nat) (s : NCcoordck.St), k ≤ fuel → s.unfilled = (k : Int) - 1 → s.write_ret ≠ -1 → s.done = false → s.gto = false →
    NCcoordck.loop1 fuel s = { s with unfilled := -1, vp_numrecs := s.vp_numrecs + k } := by
  intro k
  induction k with
  | zero =>
    intro fuel s _ hu _ hdone hgto
    have : ¬ ((s.unfilled ≥ 0) ∧ ¬(s.done = true ∨ s.gto = true)) := by intro ⟨h, _⟩; omega
    have hst : NCcoordck.loop1 fuel s = s := by cases fuel <;> simp only [NCcoordck.loop1, this, if_false]
    rw [hst]
    cases s; simp_all
  | succ j ih =>
    intro fuel s hf hu hw hdone hgto
    cases fuel with
    | zero => omega
    | succ fuel =>
      have hgo : (s.unfilled ≥ 0) ∧ ¬(s.done = true ∨ s.gto = true) := ⟨by omega, by simp [hdone, hgto]⟩
      have hw' : ¬ ((-1 : Int) = s.write_ret) := fun h => hw h.symm
      have hbody : NCcoordck.loop1.body (fuel + 1) s = { s with unfilled := s.unfilled - 1, vp_numrecs := s.vp_numrecs + 1 } := by
        unfold NCcoordck.loop1.body
        simp only [hw', if_false, hdone, hgto, Bool.false_eq_true, or_self, NCcoordck.St.set_unfilled, NCcoordck.St.set_vp_numrecs]
      rw [NCcoordck.loop1, if_pos hgo, hbody]
      rw [ih fuel { s with unfilled := s.unfilled - 1, vp_numrecs := s.vp_numrecs + 1 } (by omega) (by show s.unfilled - 1 = _; omega) hw hdone hgto]
      have : s.vp_numrecs + 1 + (j : Int) = s.vp_numrecs + ((j + 1 : Nat) : Int) := by omega
      simp only [this]

/-- the fill loop of the netCDF branch, every `NCfillrecord` succeeding: `handle->numrecs` grows by `unfilled + 1` (in `unsigned`) -/
theorem ck_loop2 : ∀ (k fuel : Nat) (s : NCcoordck.St), k ≤ fuel → s.unfilled = (k : Int) - 1 → s.fillrec_ret ≠ 0 → s.done = false → s.gto = false →
    (0 ≤ s.handle_numrecs ∧ s.handle_numrecs < 4294967296) →
    NCcoordck.loop2 fuel s = { s with unfilled := -1, handle_numrecs := (s.handle_numrecs + k) % 4294967296 } := by
  intro k
  induction k with
  | zero =>
    intro fuel s _ hu _ hdone hgto hr
    have : ¬ ((s.unfilled ≥ 0) ∧ ¬(s.done = true ∨ s.gto = true)) := by intro ⟨h, _⟩; omega
    have hst : NCcoordck.loop2 fuel s = s := by cases fuel <;> simp only [NCcoordck.loop2, this, if_false]
    rw [hst]
    have : (s.handle_numrecs + ((0 : Nat) : Int)) % 4294967296 = s.handle_numrecs := by omega
    rw [this]
    cases s; simp_all
  | succ j ih =>
    intro fuel s hf hu hw hdone hgto hr
    cases fuel with
    | zero => omega
    | succ fuel =>
      have hgo : (s.unfilled ≥ 0) ∧ ¬(s.done = true ∨ s.gto = true) := ⟨by omega, by simp [hdone, hgto]⟩
      have hw' : ¬ (¬ (s.fillrec_ret ≠ 0)) := by simp [hw]
      have hbody : NCcoordck.loop2.body (fuel + 1) s =
          { s with unfilled := s.unfilled - 1, handle_numrecs := (s.handle_numrecs + 1) % 4294967296 } := by
        unfold NCcoordck.loop2.body
        simp only [hw', if_false, hdone, hgto, Bool.false_eq_true, or_self, NCcoordck.St.set_unfilled, NCcoordck.St.set_handle_numrecs]
      rw [NCcoordck.loop2, if_pos hgo, hbody]
      rw [ih fuel { s with unfilled := s.unfilled - 1, handle_numrecs := (s.handle_numrecs + 1) % 4294967296 } (by omega)
        (by show s.unfilled - 1 = _; omega) hw hdone hgto ⟨Int.emod_nonneg _ (by decide), Int.emod_lt_of_pos _ (by decide)⟩]
      have : ((s.handle_numrecs + 1) % 4294967296 + (j : Int)) % 4294967296 = (s.handle_numrecs + ((j + 1 : Nat) : Int)) % 4294967296 := by omega
      simp only [this]

/-! ## `NCcoordck`: the entry function -/

/-- `VarShape.coordck` phrased with the index-wise check (the form the translated code is compared with) -/
def ckSpec (ft : Nat) (enc api : Bool) (F : Nat) (vnum : Int) (hnum : Nat) (S : List Nat) (C : List Int) : CkOut :=
  let keep : CkOut := ⟨true, vnum, hnum, F⟩
  let bad : CkOut := ⟨false, vnum, hnum, F⟩
  let c0 := C.getD 0 0
  if S.getD 0 0 ≠ 0 then
    if okR S C 0 S.length = true then keep else bad
  else
    if c0 < 0 ∨ okR S C 1 S.length = false then bad
    else if ft = 1 then
      if c0 < vnum then keep
      else if enc = false ∧ (api = false ∨ (hnum : Int) ≤ c0) then bad
      else if (hnum : Int) < c0 + 1 then ⟨true, c0 + 1, (c0 + 1).toNat % 4294967296, F ||| 64⟩
      else ⟨true, c0 + 1, hnum, F⟩
    else
      if (hnum : Int) ≤ c0 then
        if enc = false then bad
        else ⟨true, vnum, (c0 + 1).toNat % 4294967296, if F &&& 16 ≠ 0 then (F ||| 64) &&& 4294967231 else F ||| 64⟩
      else keep

macro "ck_simp" "[" fs:Lean.Parser.Tactic.simpLemma,* "]" : tactic =>
  `(tactic| simp [NCcoordck, NCcoordck.chk, ckSpec, $fs,*, -List.getD_eq_getElem?_getD])

/-- a fact kept out of sight of `omega` (which would case-split on its `%`) -/
structure Hide (p : Prop) : Prop where
  h : p

/-- the I/O the fill-on-extend paths of `NCcoordck` call succeeds (the assumed calls) -/
structure IoOk (aid getaid seek conv wr setpos fillrec xdrn : Int) : Prop where
  haid : aid ≠ -1 ∨ getaid ≠ -1
  hseek : seek ≠ -1
  hconv : conv ≠ -1
  hwr : wr ≠ -1
  hsetpos : setpos ≠ 0
  hfillrec : fillrec ≠ 0
  hxdrn : xdrn ≠ 0

theorem ck_entry (S : List Nat) (C : List Int) (ft xop hnum F : Nat) (vnum aid len hdfsize szof ncapi getaid seek conv wr setpos fillrec xdrn : Int)
    (fan : Bool) (fuel : Nat)
    (hpos : 0 < S.length) (hC : C.length = S.length) (hh : hnum < 4294967296) (hF : F < 4294967296) (hv : 0 ≤ vnum)
    (io : IoOk aid getaid seek conv wr setpos fillrec xdrn) (hsz : 0 < hdfsize) (hsz2 : hdfsize < 2147483648)
    (hf1 : S.length ≤ fuel) (hf2 : (C.getD 0 0 + 1).toNat ≤ fuel) :
    (NCcoordck fuel ft xop hnum F false (ints S) S.length vnum aid len hdfsize szof C ncapi getaid fan seek conv wr setpos fillrec xdrn).ub = false ∧
    (NCcoordck fuel ft xop hnum F false (ints S) S.length vnum aid len hdfsize szof C ncapi getaid fan seek conv wr setpos fillrec xdrn).oof = false ∧
    (NCcoordck fuel ft xop hnum F false (ints S) S.length vnum aid len hdfsize szof C ncapi getaid fan seek conv wr setpos fillrec xdrn).ret =
      (if (ckSpec ft (decide (xop = 0)) (decide (ncapi ≠ 0)) F vnum hnum S C).ok then 1 else 0) ∧
    (NCcoordck fuel ft xop hnum F false (ints S) S.length vnum aid len hdfsize szof C ncapi getaid fan seek conv wr setpos fillrec xdrn).vp_numrecs =
      (ckSpec ft (decide (xop = 0)) (decide (ncapi ≠ 0)) F vnum hnum S C).vpNumrecs ∧
    (NCcoordck fuel ft xop hnum F false (ints S) S.length vnum aid len hdfsize szof C ncapi getaid fan seek conv wr setpos fillrec xdrn).handle_numrecs =
      ((ckSpec ft (decide (xop = 0)) (decide (ncapi ≠ 0)) F vnum hnum S C).hNumrecs : Int) ∧
    (NCcoordck fuel ft xop hnum F false (ints S) S.length vnum aid len hdfsize szof C ncapi getaid fan seek conv wr setpos fillrec xdrn).handle_flags =
      ((ckSpec ft (decide (xop = 0)) (decide (ncapi ≠ 0)) F vnum hnum S C).flags : Int) := by
  have g0 : (ints S).getD 0 0 = ((S.getD 0 0 : Nat) : Int) := by simp [List.getD_eq_getElem?_getD]
  have hne : S ≠ [] := by intro h; simp [h] at hpos
  have hCpos : 0 < C.length := by omega
  have kk0 := ck_loop0 S C 0 S.length fuel
  have kk1 := ck_loop0 S C 1 S.length fuel
  by_cases h0 : S.getD 0 0 = 0
  · -- record variable
    have hFm : Hide ((F : Int) % 4294967296 = F) := ⟨by omega⟩
    have hh0 : (0 : Int) ≤ hnum := by omega
    have hhI : (hnum : Int) < 4294967296 := by omega
    have hlen0 : Hide (0 ≤ ((Int.tdiv len (hdfsize % 18446744073709551616)) * szof) % 18446744073709551616) := ⟨Int.emod_nonneg _ (by decide)⟩
    have hszm : Hide (¬ (hdfsize % 18446744073709551616 = 0)) := ⟨by omega⟩
    have hsz0 : Hide (¬ (hdfsize = 0)) := ⟨by omega⟩
    have haid' : Hide (¬ (aid = -1 ∧ getaid = -1)) := ⟨by have := io.haid; omega⟩
    have s1 : ¬ ((-1 : Int) = seek) := fun h => io.hseek h.symm
    have s2 : ¬ ((-1 : Int) = conv) := fun h => io.hconv h.symm
    by_cases hc0 : C.getD 0 0 < 0
    · ck_simp [g0, h0, hpos, hCpos, hc0]
    · by_cases hok1 : okR S C 1 S.length = true
      · have k1 : ∀ s : NCcoordck.St, s.vp_shape = ints S → s.coords = C → s.ip = (S.length : Int) - 1 → s.up = (S.length : Int) - 1 → s.boundary = 1 →
            s.boundary_null = false → s.done = false → s.gto = false → NCcoordck.loop0 fuel s = { s with ip := 0, up := 0 } := by
          intro s a b c d e f g h
          have := kk1 s (Nat.le_refl _) (by omega) hf1 (by omega) a b c d (by simpa using e) f g h
          rw [if_pos hok1] at this
          simpa using this
        have hmax : Hide (max (C.getD 0 0 + 1) 0 = C.getD 0 0 + 1) := ⟨by omega⟩
        by_cases hft : ft = 1
        · subst hft
          by_cases hlt : C.getD 0 0 < vnum
          · have hlt' : C.getD 0 0 - vnum < 0 := by omega
            by_cases hn : (S.length : Int) > 1 <;> ck_simp [g0, h0, hpos, hCpos, hc0, k1, hok1, hn, hlt, hlt']
          · have hlt' : ¬ (C.getD 0 0 - vnum < 0) := by omega
            have kl1 : ∀ s : NCcoordck.St, s.unfilled = C.getD 0 0 - vnum → s.write_ret ≠ -1 → s.done = false → s.gto = false →
                NCcoordck.loop1 fuel s = { s with unfilled := -1, vp_numrecs := s.vp_numrecs + ((C.getD 0 0 - vnum + 1).toNat : Int) } := by
              intro s a b c d
              exact ck_loop1 (C.getD 0 0 - vnum + 1).toNat fuel s (by omega) (by rw [a]; omega) b c d
            have hmx : ¬ (C.getD 0 0 + 1 < vnum) := by omega
            by_cases hx : xop = 0
            · by_cases hnf : F &&& 256 = 0 <;> by_cases hgr : (hnum : Int) < C.getD 0 0 + 1 <;> by_cases hn : (S.length : Int) > 1 <;>
                (ck_simp [g0, h0, hpos, hCpos, hc0, k1, hok1, hn, hlt, hlt', hx, hnf, hgr, hmx, hFm.h, hmax.h, hlen0.h, hszm.h, hsz0.h, haid'.h,
                  io.hseek, io.hconv, io.hwr, s1, s2, kl1]) <;> omega
            · have hx' : ¬ ((xop : Int) = 0) := by omega
              by_cases ha : ncapi = 0
              · by_cases hn : (S.length : Int) > 1 <;> ck_simp [g0, h0, hpos, hCpos, hc0, k1, hok1, hn, hlt, hlt', hx, hx', ha]
              · by_cases hge : (hnum : Int) ≤ C.getD 0 0
                · by_cases hn : (S.length : Int) > 1 <;> ck_simp [g0, h0, hpos, hCpos, hc0, k1, hok1, hn, hlt, hlt', hx, hx', ha, hge]
                · have hge' : ¬ (C.getD 0 0 ≥ (hnum : Int)) := by omega
                  have hgr : ¬ ((hnum : Int) < C.getD 0 0 + 1) := by omega
                  by_cases hnf : F &&& 256 = 0 <;> by_cases hn : (S.length : Int) > 1 <;>
                    (ck_simp [g0, h0, hpos, hCpos, hc0, k1, hok1, hn, hlt, hlt', hx, hx', ha, hge, hge', hnf, hgr, hmx, hFm.h, hmax.h, hlen0.h, hszm.h, hsz0.h,
                      haid'.h, io.hseek, io.hconv, io.hwr, s1, s2, kl1]) <;> omega
        · have hft' : ¬ ((ft : Int) = 1) := by omega
          by_cases hge : (hnum : Int) ≤ C.getD 0 0
          · have hge' : C.getD 0 0 - (hnum : Int) ≥ 0 := by omega
            by_cases hx : xop = 0
            · have kl2 : ∀ s : NCcoordck.St, s.unfilled = C.getD 0 0 - (hnum : Int) → s.fillrec_ret ≠ 0 → s.done = false → s.gto = false →
                  s.handle_numrecs = (hnum : Int) →
                  NCcoordck.loop2 fuel s = { s with unfilled := -1, handle_numrecs := (C.getD 0 0 + 1) % 4294967296 } := by
                intro s a b c d e
                rw [ck_loop2 (C.getD 0 0 - hnum + 1).toNat fuel s (by omega) (by rw [a]; omega) b c d (by rw [e]; omega)]
                have : (s.handle_numrecs + ((C.getD 0 0 - hnum + 1).toNat : Int)) = C.getD 0 0 + 1 := by rw [e]; omega
                rw [this]
              have hF64 : F ||| 64 < 4294967296 := Nat.or_lt_two_pow (n := 32) hF (by decide)
              have hFm2 : Hide (((F ||| 64 : Nat) : Int) % 4294967296 = ((F ||| 64 : Nat) : Int)) := ⟨by omega⟩
              have hb1 : (F ||| 64) &&& 256 = F &&& 256 := by rw [Nat.and_or_distrib_right]; simp
              have hb2 : (F ||| 64) &&& 16 = F &&& 16 := by rw [Nat.and_or_distrib_right]; simp
              by_cases hnf : F &&& 256 = 0 <;> by_cases hns : F &&& 16 = 0 <;> by_cases hn : (S.length : Int) > 1 <;>
                (ck_simp [g0, h0, hpos, hCpos, hc0, k1, hok1, hn, hft, hft', hge, hge', hx, hnf, hns, hFm.h, hFm2.h, hb1, hb2, hmax.h, io.hsetpos, io.hfillrec, io.hxdrn, kl2]) <;>
                omega
            · have hx' : ¬ ((xop : Int) = 0) := by omega
              by_cases hn : (S.length : Int) > 1 <;> ck_simp [g0, h0, hpos, hCpos, hc0, k1, hok1, hn, hft, hft', hge, hge', hx, hx']
          · have hge' : ¬ (C.getD 0 0 - (hnum : Int) ≥ 0) := by omega
            by_cases hn : (S.length : Int) > 1 <;> ck_simp [g0, h0, hpos, hCpos, hc0, k1, hok1, hn, hft, hft', hge, hge']
      · -- a coordinate after the record dimension is outside its extent (the rank is > 1 then)
        have hn : (S.length : Int) > 1 := by
          by_cases h : S.length = 1
          · exfalso; apply hok1; rw [h]; exact okR_lt S C 1 1 (Nat.le_refl _)
          · omega
        have kf : ∀ s : NCcoordck.St, s.vp_shape = ints S → s.coords = C → s.ip = (S.length : Int) - 1 → s.up = (S.length : Int) - 1 → s.boundary = 1 →
            s.boundary_null = false → s.done = false → s.gto = false → Ck0Fail s (NCcoordck.loop0 fuel s) := by
          intro s a b c d e f g h
          have := kk1 s (Nat.le_refl _) (by omega) hf1 (by omega) a b c d (by simpa using e) f g h
          rw [if_neg hok1] at this
          exact this
        have f1 := fun s a b c d e f g h => (kf s a b c d e f g h).1
        have f2 := fun s a b c d e f g h => (kf s a b c d e f g h).2.1
        have f3 := fun s a b c d e f g h => (kf s a b c d e f g h).2.2.1
        have f4 := fun s a b c d e f g h => (kf s a b c d e f g h).2.2.2.1
        have f5 := fun s a b c d e f g h => (kf s a b c d e f g h).2.2.2.2.1
        have f6 := fun s a b c d e f g h => (kf s a b c d e f g h).2.2.2.2.2.1
        have f7 := fun s a b c d e f g h => (kf s a b c d e f g h).2.2.2.2.2.2
        ck_simp [g0, h0, hpos, hCpos, hc0, hn, f1, f2, f3, f4, f5, f6, f7, hok1]
  · -- fixed-size variable
    by_cases hok : okR S C 0 S.length = true
    · have k0 : ∀ s : NCcoordck.St, s.vp_shape = ints S → s.coords = C → s.ip = (S.length : Int) - 1 → s.up = (S.length : Int) - 1 → s.boundary = 0 →
          s.boundary_null = false → s.done = false → s.gto = false → NCcoordck.loop0 fuel s = { s with ip := -1, up := -1 } := by
        intro s a b c d e f g h
        have := kk0 s (Nat.le_refl _) (by omega) hf1 (Nat.zero_le _) a b c d (by simpa using e) f g h
        rw [if_pos hok] at this
        simpa using this
      ck_simp [g0, h0, hpos, k0, hok]
    · have kf : ∀ s : NCcoordck.St, s.vp_shape = ints S → s.coords = C → s.ip = (S.length : Int) - 1 → s.up = (S.length : Int) - 1 → s.boundary = 0 →
          s.boundary_null = false → s.done = false → s.gto = false → Ck0Fail s (NCcoordck.loop0 fuel s) := by
        intro s a b c d e f g h
        have := kk0 s (Nat.le_refl _) (by omega) hf1 (Nat.zero_le _) a b c d (by simpa using e) f g h
        rw [if_neg hok] at this
        exact this
      have f1 := fun s a b c d e f g h => (kf s a b c d e f g h).1
      have f2 := fun s a b c d e f g h => (kf s a b c d e f g h).2.1
      have f3 := fun s a b c d e f g h => (kf s a b c d e f g h).2.2.1
      have f4 := fun s a b c d e f g h => (kf s a b c d e f g h).2.2.2.1
      have f5 := fun s a b c d e f g h => (kf s a b c d e f g h).2.2.2.2.1
      have f6 := fun s a b c d e f g h => (kf s a b c d e f g h).2.2.2.2.2.1
      have f7 := fun s a b c d e f g h => (kf s a b c d e f g h).2.2.2.2.2.2
      ck_simp [g0, h0, hpos, f1, f2, f3, f4, f5, f6, f7, hok]


theorem headD_eq_getD {α} (l : List α) (d : α) : l.headD d = l.getD 0 d := by cases l <;> rfl

/-- the index-wise form of the specification is the model `VarShape.coordck` -/
theorem ckSpec_eq (ft : Nat) (enc api : Bool) (F : Nat) (vnum : Int) (hnum : Nat) (S : List Nat) (C : List Int) (hpos : 0 < S.length)
    (hC : C.length = S.length) : ckSpec ft enc api F vnum hnum S C = coordck ft enc api F vnum hnum S C := by
  have e0 := okR_eq_inExtents S C 0 hC (by omega)
  have e1 := okR_eq_inExtents S C 1 hC (by omega)
  have hS1 : S.headD 1 = S.getD 0 0 := by cases S with
    | nil => simp at hpos
    | cons a t => rfl
  simp only [List.drop_zero] at e0
  unfold ckSpec coordck
  simp only [e0, e1, hS1, headD_eq_getD, List.drop_one, H4.Gen.Ncvar.NC_UNLIMITED, H4.Gen.Ncvar.HDF_FILE, H4.Gen.Ncvar.NC_NDIRTY,
    H4.Gen.Ncvar.NC_NSYNC, W32, ne_eq, Bool.not_eq_true]
  rfl

/-! ## when nothing wraps: the stored values are the unbounded model's -/

/-- the extents after index 0 of an accepted shape are ≥ 1, so the partial products grow towards the front -/
theorem P_le_P1 (x : Nat) (S : List Nat) (hp : ∀ k, 1 ≤ k → k < S.length → S.getD k 0 ≠ 0) :
    ∀ j, 1 + j ≤ S.length → P x S (1 + j) ≤ P x S 1 := by
  intro j
  induction j with
  | zero => intro _; exact Nat.le_refl _
  | succ i ih =>
    intro h
    have h1 := ih (by omega)
    have hs := P_step x S (1 + i) (by omega)
    have hz := hp (1 + i) (by omega) (by omega)
    have : P x S (1 + i + 1) ≤ P x S (1 + i + 1) * S.getD (1 + i) 0 := Nat.le_mul_of_pos_right _ (by omega)
    rw [show 1 + (i + 1) = 1 + i + 1 by omega]
    omega

theorem P1_le_varLen (x : Nat) (S : List Nat) (h : 0 < S.length) : P x S 1 ≤ varLen x S := by
  rw [varLen_cases x S h]
  by_cases hz : S.getD 0 0 = 0
  · simp only [hz, if_true]; exact Nat.le_refl _
  · simp only [hz, if_false]
    rw [P_step x S 0 h]
    exact Nat.le_mul_of_pos_right _ (by omega)

/-- every `dsizes[k]` of an accepted shape is at most `varLen` -/
theorem dsizes_le_varLen (x : Nat) (S : List Nat) (hp : ∀ k, 1 ≤ k → k < S.length → S.getD k 0 ≠ 0) (k : Nat) (hk : k < S.length) :
    (dsizes x S).getD k 0 ≤ varLen x S := by
  rw [dsizes_getD x S k hk]
  have := P_le_P1 x S hp k (by omega)
  rw [show 1 + k = k + 1 by omega] at this
  exact Nat.le_trans this (P1_le_varLen x S (by omega))

theorem map_mod_eq (l : List Nat) (h : ∀ d ∈ l, d < W) : l.map (· % W) = l := by
  induction l with
  | nil => rfl
  | cons a t ih =>
    simp only [List.map_cons]
    rw [Nat.mod_eq_of_lt (h a (by simp)), ih (fun d hd => h d (by simp [hd]))]

theorem le_roundLen (ft ty L : Nat) : L ≤ roundLen ft ty L := by
  unfold roundLen; split <;> omega

/-- **nothing wraps iff the (rounded) length fits in `unsigned long`.**  For an accepted shape the values `NC_var_shape` stores (`dsC`, and
    `len` reduced modulo 2^64 before and after the rounding) are the unbounded model's exactly when `roundLen (varLen) < 2^64`. -/
theorem stored_eq_iff (x ft ty : Nat) (S : List Nat) (hp : ∀ k, 1 ≤ k → k < S.length → S.getD k 0 ≠ 0) :
    (dsC x S = dsizes x S ∧ roundLen ft ty (varLen x S % W) % W = roundLen ft ty (varLen x S)) ↔ roundLen ft ty (varLen x S) < W := by
  constructor
  · intro ⟨_, h⟩
    rw [← h]; exact Nat.mod_lt _ (by simp [W])
  · intro h
    have hv : varLen x S < W := Nat.lt_of_le_of_lt (le_roundLen ft ty _) h
    refine ⟨?_, ?_⟩
    · apply map_mod_eq
      intro d hd
      obtain ⟨i, hi, rfl⟩ := List.getElem_of_mem hd
      have hi' : i < S.length := by rw [dsizes_length] at hi; exact hi
      have := dsizes_le_varLen x S hp i hi'
      simp only [List.getD_eq_getElem?_getD, List.getElem?_eq_getElem hi, Option.getD_some] at this
      omega
    · rw [Nat.mod_eq_of_lt hv, Nat.mod_eq_of_lt h]

/-! ## `NCcoordck` accepts exactly the coordinates inside the shape (`Slab.inB`) -/

theorem inExtents_iff_inB : ∀ (S C : List Nat), C.length = S.length → (inExtents S (C.map Int.ofNat) = true ↔ inB S C) := by
  intro S
  induction S with
  | nil => intro C h; cases C with
    | nil => simp [inExtents, inB]
    | cons c cs => simp at h
  | cons a t ih =>
    intro C h
    cases C with
    | nil => simp at h
    | cons c cs =>
      have := ih cs (by simpa using h)
      simp only [List.map_cons, inExtents, inB, Bool.and_eq_true, decide_eq_true_eq, this, Int.ofNat_eq_natCast]
      constructor
      · intro ⟨⟨_, h2⟩, h3⟩; exact ⟨by omega, h3⟩
      · intro ⟨h2, h3⟩; exact ⟨⟨by omega, by omega⟩, h3⟩

/-- the byte offset `NC_varoffset` computes from the stored `dsizes`, in terms of the model: `(varOffset …) mod 2^64` -/
theorem voRaw_model (ft begin recsize x : Nat) (S C : List Nat) (hpos : 0 < S.length) (hC : C.length = S.length) (hft : ft = 0 ∨ ft = 1) :
    voRaw ft begin recsize (S.getD 0 0 == 0) (dsC x S) C % W = varOffset ft begin recsize x S C % W := by
  cases S with
  | nil => simp at hpos
  | cons a t =>
    cases C with
    | nil => simp at hC
    | cons c cs =>
      have hd : dot (dsC x (a :: t)) (c :: cs) % W = offset (a :: t) (c :: cs) * x % W := by
        rw [dsC, dot_mod, dot_dsizes]
      have hd1 : dot ((dsC x (a :: t)).drop 1) ((c :: cs).drop 1) % W = offset t cs * x % W := by
        have : (dsC x (a :: t)).drop 1 = dsC x t := by simp [dsC, dsizes, strides]
        rw [this, dsC, dot_mod, dot_dsizes]; simp
      simp only [voRaw, varOffset, H4.Gen.Ncvar.HDF_FILE, H4.Gen.Ncvar.netCDF_FILE, H4.Gen.Ncvar.NC_UNLIMITED, List.getD_cons_zero, beq_iff_eq,
        List.headD_cons, List.tail_cons]
      rcases hft with rfl | rfl
      · simp only [show ¬ (0 = 1) by decide, if_false, if_true]
        by_cases ha : a = 0
        · subst ha
          simp only [if_true]
          rw [Nat.add_mod, hd1, ← Nat.add_mod]
        · simp only [ha, if_false]
          rw [Nat.add_mod, hd, ← Nat.add_mod]
      · simp only [if_true]
        exact hd

instance instDecidableInB : (sh c : List Nat) → Decidable (inB sh c)
  | _ :: shs, _ :: cs => by
      unfold inB
      have := instDecidableInB shs cs
      exact inferInstance
  | [], [] => isTrue trivial
  | [], _ :: _ => isFalse (by simp [inB])
  | _ :: _, [] => isFalse (by simp [inB])

instance (aid getaid seek conv wr setpos fillrec xdrn : Int) : Decidable (IoOk aid getaid seek conv wr setpos fillrec xdrn) :=
  decidable_of_iff ((aid ≠ -1 ∨ getaid ≠ -1) ∧ seek ≠ -1 ∧ conv ≠ -1 ∧ wr ≠ -1 ∧ setpos ≠ 0 ∧ fillrec ≠ 0 ∧ xdrn ≠ 0)
    ⟨fun ⟨a, b, c, d, e, f, g⟩ => ⟨a, b, c, d, e, f, g⟩, fun ⟨a, b, c, d, e, f, g⟩ => ⟨a, b, c, d, e, f, g⟩⟩

end H4.Lemmas.C03Fn2
