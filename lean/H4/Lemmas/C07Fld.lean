import H4.Gen.Fn.Dfconv
import H4.Gen.Fn.Vsfld
import H4.VData
import H4.VsfldEnc
import H4.Lemmas.VData
import H4.Lemmas.C2L
/-! Lemmas for the function-level Tie A of the Vdata schema functions (`H4.Props.C07Fld`): `DFKNTsize` (dfconv.c), `VSfdefine` and
    `VSsetfields` (vsfld.c) as translated statement by statement from the current C text (`H4.Gen.Fn.Dfconv`, `H4.Gen.Fn.Vsfld`)
    against the hand-written models `H4.VData.ntInfo`, `vsfdefineTok`, `VS.setFieldsTok`. -/
namespace H4.Lemmas.C07Fld
open H4.Gen.Fn.Dfconv H4.Gen.Fn.Vsfld H4.VData H4.Gen.Hdf H4.Gen.Vs H4.C2L H4.VsfldEnc

/-! ### `DFKNTsize` -/

/-- `x & ~DFNT_LITEND` on 32 bits: bit 14 is cleared -/
theorem and_mask (x : Nat) (hx : x < 4294967296) : x &&& 4294950911 = 32768 * (x / 32768) + x % 16384 := by
  have h1 : (x &&& 4294950911) / 2^15 = x / 2^15 &&& 4294950911 / 2^15 := Nat.and_div_two_pow ..
  have h2 : (x &&& 4294950911) % 2^15 = x % 2^15 &&& 4294950911 % 2^15 := Nat.and_mod_two_pow ..
  have h3 : x / 2^15 &&& (2^17 - 1) = x / 2^15 % 2^17 := Nat.and_two_pow_sub_one_eq_mod ..
  have h4 : x % 2^15 &&& (2^14 - 1) = x % 2^15 % 2^14 := Nat.and_two_pow_sub_one_eq_mod ..
  simp only [Nat.reducePow, Nat.reduceDiv, Nat.reduceMod, Nat.reduceSub] at h1 h2 h3 h4
  omega

/-- `DFKNTsize(t)` as the model has it: `ntInfo t` is built from the table the generator obtained by CALLING the compiled
    `DFKNTsize`; `-1` = FAIL -/
def ntsize (t : Int) : Int :=
  if t < 0 then -1 else match ntInfo t.toNat with
    | some nt => (nt.tsz : Int)
    | none => -1

theorem tables : NT_CODES = [3, 4, 5, 6, 20, 21, 22, 23, 24, 25] ∧ NT_SIZES = [1, 1, 4, 8, 1, 1, 2, 2, 4, 4] ∧ NT_NSIZES = [1, 1, 4, 8, 1, 1, 2, 2, 4, 4]
    ∧ DFNT_NATIVE = 4096 ∧ DFNT_CUSTOM = 8192 ∧ DFNT_LITEND = 16384 := by decide

theorem findIdx_codes (b : Nat) : findIdx NT_CODES b =
    if b = 3 then some 0 else if b = 4 then some 1 else if b = 5 then some 2 else if b = 6 then some 3 else if b = 20 then some 4
    else if b = 21 then some 5 else if b = 22 then some 6 else if b = 23 then some 7 else if b = 24 then some 8 else if b = 25 then some 9 else none := by
  by_cases h0 : b = 3; · subst h0; decide
  by_cases h1 : b = 4; · subst h1; decide
  by_cases h2 : b = 5; · subst h2; decide
  by_cases h3 : b = 6; · subst h3; decide
  by_cases h4 : b = 20; · subst h4; decide
  by_cases h5 : b = 21; · subst h5; decide
  by_cases h6 : b = 22; · subst h6; decide
  by_cases h7 : b = 23; · subst h7; decide
  by_cases h8 : b = 24; · subst h8; decide
  by_cases h9 : b = 25; · subst h9; decide
  have e : ∀ c : Nat, b ≠ c → (c == b) = false := by intro c hc; simp; omega
  simp [findIdx, tables.1, List.idxOf_cons, e, h0, h1, h2, h3, h4, h5, h6, h7, h8, h9]

theorem ntInfo_none (x : Nat) (h : ∀ c ∈ [3, 4, 5, 6, 20, 21, 22, 23, 24, 25], x % 16384 ≠ c ∧ x % 16384 ≠ 4096 + c) : ntInfo x = none := by
  unfold ntInfo
  simp only [findIdx_codes, tables.2.2.2.1, tables.2.2.2.2.1, tables.2.2.2.2.2]
  simp only [List.mem_cons, List.mem_nil_iff, or_false, forall_eq_or_imp, forall_eq] at h
  split
  · rfl
  · rename_i hc
    simp only [beq_iff_eq, not_or, Nat.not_le] at hc
    have e0 : ¬ x % 4096 = 3 := by omega
    have e1 : ¬ x % 4096 = 4 := by omega
    have e2 : ¬ x % 4096 = 5 := by omega
    have e3 : ¬ x % 4096 = 6 := by omega
    have e4 : ¬ x % 4096 = 20 := by omega
    have e5 : ¬ x % 4096 = 21 := by omega
    have e6 : ¬ x % 4096 = 22 := by omega
    have e7 : ¬ x % 4096 = 23 := by omega
    have e8 : ¬ x % 4096 = 24 := by omega
    have e9 : ¬ x % 4096 = 25 := by omega
    simp only [e0, e1, e2, e3, e4, e5, e6, e7, e8, e9, if_false]

theorem ntsize_neg (t : Int) (h : t < 0 ∨ 32768 ≤ t) : ntsize t = -1 := by
  unfold ntsize
  split
  · rfl
  · have : ntInfo t.toNat = none := by
      unfold ntInfo
      simp only [tables.2.2.2.1, tables.2.2.2.2.1, tables.2.2.2.2.2]
      rw [if_pos (by right; omega)]
    rw [this]

set_option maxRecDepth 4000 in
theorem DFKNTsize_spec (fuel : Nat) (t : Int) (h1 : -2147483648 ≤ t) (h2 : t < 2147483648) :
    DFKNTsize fuel t = ⟨t, false, false, ntsize t, true⟩ := by
  unfold DFKNTsize
  simp only [Int.reduceMod, Int.reduceToNat, Nat.reduceOr, Int.reduceNeg, Int.reduceSub, Int.ofNat_eq_natCast, Int.cast_ofNat_Int, Int.reduceGE, if_false, Int.reduceLT]
  have hx : (t % 4294967296).toNat < 4294967296 := by omega
  rw [and_mask _ hx]
  generalize hsw : (if ((32768 * ((t % 4294967296).toNat / 32768) + (t % 4294967296).toNat % 16384 : Nat) : Int) ≥ 2147483648 then
          ((32768 * ((t % 4294967296).toNat / 32768) + (t % 4294967296).toNat % 16384 : Nat) : Int) - 4294967296
          else ((32768 * ((t % 4294967296).toNat / 32768) + (t % 4294967296).toNat % 16384 : Nat) : Int)) = sw
  by_cases hr : t < 0 ∨ 32768 ≤ t
  · rw [ntsize_neg t hr]
    have hsw' : ∀ c : Int, 0 ≤ c → c < 8192 → ¬ (sw = c) := by
      intro c c0 c1
      rw [← hsw]
      split <;> omega
    simp only [hsw', Int.reduceLT, Int.reduceLE, if_false, not_false_eq_true]
    rfl
  · have hsw' : sw = t % 16384 := by
      rw [← hsw]
      split <;> omega
    have ht : t = ((t.toNat : Nat) : Int) := by omega
    have key : ∀ c : Nat, c < 8192 → sw = (c : Int) → t.toNat = c ∨ t.toNat = c + 16384 := by
      intro c hc e; omega
    by_cases c0 : sw = 4099
    · have : t = 4099 ∨ t = 20483 := by omega
      subst sw
      rcases this with rfl | rfl <;> decide
    by_cases c1 : sw = 4100
    · have : t = 4100 ∨ t = 20484 := by omega
      subst sw
      rcases this with rfl | rfl <;> decide
    by_cases c2 : sw = 4116
    · have : t = 4116 ∨ t = 20500 := by omega
      subst sw
      rcases this with rfl | rfl <;> decide
    by_cases c3 : sw = 4117
    · have : t = 4117 ∨ t = 20501 := by omega
      subst sw
      rcases this with rfl | rfl <;> decide
    by_cases c4 : sw = 4118
    · have : t = 4118 ∨ t = 20502 := by omega
      subst sw
      rcases this with rfl | rfl <;> decide
    by_cases c5 : sw = 4119
    · have : t = 4119 ∨ t = 20503 := by omega
      subst sw
      rcases this with rfl | rfl <;> decide
    by_cases c6 : sw = 4120
    · have : t = 4120 ∨ t = 20504 := by omega
      subst sw
      rcases this with rfl | rfl <;> decide
    by_cases c7 : sw = 4121
    · have : t = 4121 ∨ t = 20505 := by omega
      subst sw
      rcases this with rfl | rfl <;> decide
    by_cases c8 : sw = 4101
    · have : t = 4101 ∨ t = 20485 := by omega
      subst sw
      rcases this with rfl | rfl <;> decide
    by_cases c9 : sw = 4102
    · have : t = 4102 ∨ t = 20486 := by omega
      subst sw
      rcases this with rfl | rfl <;> decide
    by_cases c10 : sw = 3
    · have : t = 3 ∨ t = 16387 := by omega
      subst sw
      rcases this with rfl | rfl <;> decide
    by_cases c11 : sw = 4
    · have : t = 4 ∨ t = 16388 := by omega
      subst sw
      rcases this with rfl | rfl <;> decide
    by_cases c12 : sw = 20
    · have : t = 20 ∨ t = 16404 := by omega
      subst sw
      rcases this with rfl | rfl <;> decide
    by_cases c13 : sw = 21
    · have : t = 21 ∨ t = 16405 := by omega
      subst sw
      rcases this with rfl | rfl <;> decide
    by_cases c14 : sw = 22
    · have : t = 22 ∨ t = 16406 := by omega
      subst sw
      rcases this with rfl | rfl <;> decide
    by_cases c15 : sw = 23
    · have : t = 23 ∨ t = 16407 := by omega
      subst sw
      rcases this with rfl | rfl <;> decide
    by_cases c16 : sw = 24
    · have : t = 24 ∨ t = 16408 := by omega
      subst sw
      rcases this with rfl | rfl <;> decide
    by_cases c17 : sw = 25
    · have : t = 25 ∨ t = 16409 := by omega
      subst sw
      rcases this with rfl | rfl <;> decide
    by_cases c18 : sw = 5
    · have : t = 5 ∨ t = 16389 := by omega
      subst sw
      rcases this with rfl | rfl <;> decide
    by_cases c19 : sw = 6
    · have : t = 6 ∨ t = 16390 := by omega
      subst sw
      rcases this with rfl | rfl <;> decide
    have hn : ntsize t = -1 := by
      unfold ntsize
      rw [if_neg (by omega), ntInfo_none t.toNat (by
        simp only [List.mem_cons, List.mem_nil_iff, or_false, forall_eq_or_imp, forall_eq]
        omega)]
    rw [hn]
    simp only [c0, c1, c2, c3, c4, c5, c6, c7, c8, c9, c10, c11, c12, c13, c14, c15, c16, c17, c18, c19, if_false]
    rfl


theorem nt_sizes_le : ∀ i < 10, NT_SIZES.getD i 0 ≤ 8 ∧ NT_NSIZES.getD i 0 ≤ 8 := by decide

theorem ntInfo_tsz_le {t : Nat} {nt : NT} (h : ntInfo t = some nt) : nt.tsz ≤ 8 ∧ t < 32768 := by
  unfold ntInfo at h
  simp only at h
  split at h
  · cases h
  · rename_i hc
    split at h
    · cases h
    · rename_i i hi
      have hlt : i < 10 := by
        unfold findIdx at hi
        simp only at hi
        split at hi
        · cases hi; rename_i hl; simpa [NT_CODES] using hl
        · cases hi
      obtain ⟨e1, e2⟩ := nt_sizes_le i hlt
      cases h
      simp only
      refine ⟨by split <;> assumption, ?_⟩
      simp only [tables.2.2.2.2.2, not_or, Nat.not_le] at hc
      omega

theorem ntsize_some {t : Int} (h0 : 0 ≤ t) {nt : NT} (h : ntInfo t.toNat = some nt) : ntsize t = nt.tsz := by
  unfold ntsize; rw [if_neg (by omega), h]

theorem ntsize_none {t : Int} (h : t < 0 ∨ ntInfo t.toNat = none) : ntsize t = -1 := by
  unfold ntsize
  rcases h with h | h
  · rw [if_pos h]
  · split
    · rfl
    · rw [h]

theorem ntsize_range (t : Int) : ntsize t = -1 ∨ (1 ≤ ntsize t ∧ ntsize t ≤ 8 ∧ 0 ≤ t ∧ t < 32768) := by
  by_cases h0 : t < 0
  · left; exact ntsize_none (Or.inl h0)
  · cases h : ntInfo t.toNat with
    | none => left; exact ntsize_none (Or.inr h)
    | some nt =>
      right
      rw [ntsize_some (by omega) h]
      have := (ntInfo_valid h).1
      have := ntInfo_tsz_le h
      omega


/-! ### C strings -/

/-- character codes of a C string's characters: every cell is a non-zero `unsigned char` -/
def CharsOK (l : List Int) : Prop := ∀ c ∈ l, 0 < c ∧ c < 256

theorem strcmpC_spec (la lb pa pb : List Int) (ha : CharsOK la) (hb : CharsOK lb) :
    ∃ r, strcmpC (la ++ 0 :: pa) (lb ++ 0 :: pb) = some r ∧ (r = 0 ↔ la = lb) := by
  induction la generalizing lb with
  | nil =>
    cases lb with
    | nil => exact ⟨0, by simp [strcmpC], by simp⟩
    | cons b lb =>
      have := hb b List.mem_cons_self
      refine ⟨-1, ?_, by simp⟩
      simp only [List.nil_append, List.cons_append, strcmpC]
      rw [if_pos (by omega), if_pos (by omega)]
  | cons a la ih =>
    have h0 := ha a List.mem_cons_self
    cases lb with
    | nil =>
      refine ⟨1, ?_, by simp⟩
      simp only [List.nil_append, List.cons_append, strcmpC]
      rw [if_pos (by omega), if_neg (by omega)]
    | cons b lb =>
      have h1 := hb b List.mem_cons_self
      simp only [List.cons_append, strcmpC]
      by_cases e : a = b
      · subst e
        rw [if_neg (by omega), if_neg (by omega)]
        obtain ⟨r, hr, hr2⟩ := ih lb (fun c hc => ha c (List.mem_cons_of_mem _ hc)) (fun c hc => hb c (List.mem_cons_of_mem _ hc))
        exact ⟨r, hr, by simp [hr2]⟩
      · rw [if_pos (by omega)]
        refine ⟨_, rfl, ?_⟩
        constructor
        · intro h; split at h <;> omega
        · intro h; simp at h; exact absurd h.1 e


/-- a name that is a C string of single-byte characters: no NUL inside, every code below 256 -/
def NameOK (s : String) : Prop := ∀ c ∈ s.toList, 0 < c.toNat ∧ c.toNat < 256

instance (s : String) : Decidable (NameOK s) := by unfold NameOK; infer_instance

theorem chars_inj {a b : String} (h : chars a = chars b) : a = b := by
  apply String.toList_inj.mp
  unfold chars at h
  exact (List.map_inj_right (fun x y hxy => Char.toNat_inj.mp (by exact_mod_cast hxy))).mp h

theorem chars_ok {s : String} (h : NameOK s) : CharsOK (chars s) := by
  intro c hc
  simp only [chars, List.mem_map] at hc
  obtain ⟨x, hx, rfl⟩ := hc
  have := h x hx
  omega

/-- `strcmp` of two names (the first followed by anything behind its NUL): defined, and 0 exactly for equal names -/
theorem strcmp_names (a b : String) (ha : NameOK a) (hb : NameOK b) (pa pb : List Int) :
    ∃ r, strcmpC (chars a ++ 0 :: pa) (chars b ++ 0 :: pb) = some r ∧ (r = 0 ↔ a = b) := by
  obtain ⟨r, h1, h2⟩ := strcmpC_spec (chars a) (chars b) pa pb (chars_ok ha) (chars_ok hb)
  exact ⟨r, h1, h2.trans ⟨chars_inj, fun e => by rw [e]⟩⟩

theorem zero_mem (l p : List Int) : (0 : Int) ∈ l ++ 0 :: p := by simp

/-- `strdup`: the characters up to and including the first NUL -/
theorem take_string (l p : List Int) (h : CharsOK l) :
    (l ++ 0 :: p).take (((l ++ 0 :: p).takeWhile (· ≠ 0)).length + 1) = l ++ [0] := by
  have htw : (l ++ 0 :: p).takeWhile (· ≠ 0) = l := by
    induction l with
    | nil => simp
    | cons a t ih =>
      have := h a List.mem_cons_self
      simp only [List.cons_append, List.takeWhile_cons]
      rw [if_pos (by simp; omega), ih (fun c hc => h c (List.mem_cons_of_mem _ hc))]
  rw [htw]
  have : l ++ 0 :: p = (l ++ [0]) ++ p := by simp
  rw [this, List.take_left' (by simp)]


/-- the same for any way of writing the test `· ≠ 0` -/
theorem take_string' (l p : List Int) (h : CharsOK l) (pr : Int → Bool) (hp : ∀ x, pr x = true ↔ x ≠ 0) :
    (l ++ 0 :: p).take (((l ++ 0 :: p).takeWhile pr).length + 1) = l ++ [0] := by
  have : pr = (fun x => decide (x ≠ 0)) := by
    funext x
    by_cases hx : x ≠ 0
    · rw [(hp x).mpr hx]; simp [hx]
    · have : pr x ≠ true := fun h => hx ((hp x).mp h)
      simp only [ne_eq, Bool.not_eq_true] at this
      rw [this]; simp at hx; simp [hx]
  rw [this]
  exact take_string l p h
end H4.Lemmas.C07Fld
