import H4.Lemmas.C07FldSet3
/-! `VSsetfields`: the model one name at a time (`goStep`), the invariant of the field loop (`BInv`) and how one more field extends it. -/
namespace H4.Lemmas.C07Fld
open H4.Gen.Fn.Dfconv H4.Gen.Fn.Vsfld H4.VData H4.Gen.Hdf H4.Gen.Vs H4.C2L H4.VsfldEnc
set_option linter.unusedVariables false
set_option linter.unusedSimpArgs false

/-! ### the model, one name at a time -/

/-- one step of `buildWList.go`: the field for the name `nm` and the record size behind it -/
def goStep (usym : List SymDef) (nm : String) (iv : Nat) : Option (Field × Nat) :=
  match usym.find? (·.name == nm) with
  | some sd =>
    match ntInfo sd.type with
    | none => none
    | some nt =>
      if sd.order * sd.isize > MAX_FIELD_SIZE then none else
      if iv + sd.order * sd.isize > MAX_FIELD_SIZE then none else
      some ({ name := sd.name, type := sd.type, tsz := nt.tsz, swap := nt.swap, order := sd.order,
              isize := sd.order * sd.isize, esize := sd.order * nt.nsz % 65536, off := 0 }, iv + sd.order * sd.isize)
  | none =>
    match rstab.find? (·.name == nm) with
    | none => none
    | some sd =>
      match ntInfo sd.type with
      | none => none
      | some nt =>
        if iv + sd.order * sd.isize % 65536 > MAX_FIELD_SIZE then none else
        some ({ name := sd.name, type := sd.type, tsz := nt.tsz, swap := nt.swap, order := sd.order,
                isize := sd.order * sd.isize % 65536, esize := sd.order * nt.nsz % 65536, off := 0 }, iv + sd.order * sd.isize % 65536)

theorem go_cons (usym : List SymDef) (nm : String) (rest : List String) (acc : List Field) (iv : Nat) :
    buildWList.go usym (nm :: rest) acc iv =
      match goStep usym nm iv with
      | none => none
      | some (f, iv') => buildWList.go usym rest (f :: acc) iv' := by
  simp only [buildWList.go, goStep]
  cases h1 : usym.find? (·.name == nm) with
  | some sd =>
    simp only
    cases h2 : ntInfo sd.type with
    | none => rfl
    | some nt =>
      simp only
      by_cases c1 : sd.order * sd.isize > MAX_FIELD_SIZE
      · simp only [if_pos c1]
      · simp only [if_neg c1]
        by_cases c2 : iv + sd.order * sd.isize > MAX_FIELD_SIZE
        · simp only [if_pos c2]
        · simp only [if_neg c2]
  | none =>
    simp only
    cases h3 : rstab.find? (·.name == nm) with
    | none => rfl
    | some sd =>
      simp only
      cases h2 : ntInfo sd.type with
      | none => rfl
      | some nt =>
        simp only
        by_cases c2 : iv + sd.order * sd.isize % 65536 > MAX_FIELD_SIZE
        · simp only [if_pos c2]
        · simp only [if_neg c2]

theorem find_findIdx {α} [Inhabited α] (l : List α) (p : α → Bool) :
    l.find? p = (l.findIdx? p).map (fun j => l.getD j default) := by
  induction l with
  | nil => rfl
  | cons a t ih =>
    rw [List.find?_cons, List.findIdx?_cons]
    cases h : p a with
    | true => simp
    | false =>
      simp only [Bool.false_eq_true, if_false, ih, Option.map_map]
      congr 1

theorem findIdx_map_name (usym : List SymDef) (nm : String) :
    (usym.map (·.name)).findIdx? (· == nm) = usym.findIdx? (·.name == nm) := by
  induction usym with
  | nil => rfl
  | cons a t ih => simp [List.findIdx?_cons, ih]


/-! ### the field loop (loop 1): invariant -/

/-- `av[]` as `scanattrs` leaves it: every token followed by its NUL and by whatever the static buffer holds behind it -/
def avRows (names : List String) (pads : List (List Int)) : List (List Int) :=
  List.zipWith (fun n p => chars n ++ 0 :: p) names pads

theorem avRows_getD (names : List String) (pads : List (List Int)) (h : pads.length = names.length) (i : Nat) (hi : i < names.length) :
    (avRows names pads).getD i [] = chars (names.getD i "") ++ 0 :: pads.getD i [] := by
  unfold avRows
  simp [List.getD_eq_getElem?_getD, List.getElem?_zipWith, hi, h ▸ hi]

/-- the inputs of the field loop, fixed while it runs (`s0` = the state at its start) -/
structure BEnv (usym : List SymDef) (names : List String) (pads : List (List Int)) (s0 : VSsetfields.St) : Prop where
  hpl : pads.length = names.length
  hnames : ∀ nm ∈ names, NameOK nm
  hus : ∀ sd ∈ usym, sd.Valid ∧ NameOK sd.name
  hav : s0.av = avRows names pads
  hac : s0.ac = names.length
  u1 : s0.vs_usym_name = nameRows usym
  u2 : s0.vs_usym_type = typeCol usym
  u3 : s0.vs_usym_isize = isizeCol usym
  u4 : s0.vs_usym_order = orderCol usym
  hnu : s0.vs_nusym = usym.length
  c1 : s0.vs_wlist_type_i = 0
  c2 : s0.vs_wlist_off_i = names.length
  c3 : s0.vs_wlist_isize_i = 2 * names.length
  c4 : s0.vs_wlist_order_i = 3 * names.length
  c5 : s0.vs_wlist_esize_i = 4 * names.length

/-- invariant of the field loop: the fields `fs` (in order) are in the write list, the record size so far is `iv` -/
structure BInv (names : List String) (s0 : VSsetfields.St) (fs : List Field) (iv : Nat) (s : VSsetfields.St) : Prop where
  fr : sfFrame s = sfFrame s0
  cl : SfClean s
  hub : s.ub = false
  hoof : s.oof = false
  rv : s.ret_value = -1
  hi : s.i = fs.length
  hn : s.vs_wlist_n = fs.length
  hiv : s.vs_wlist_ivsize = iv
  hivle : iv ≤ 65535
  hbl : s.vs_wlist_bptr.length = 5 * names.length
  hnl : s.vs_wlist_name.length = names.length
  cells : ∀ j, j < fs.length → s.vs_wlist_bptr.getD j 0 = ((fs.getD j default).type : Int) ∧
    s.vs_wlist_bptr.getD (2 * names.length + j) 0 = ((fs.getD j default).isize : Int) ∧
    s.vs_wlist_bptr.getD (3 * names.length + j) 0 = ((fs.getD j default).order : Int) ∧
    s.vs_wlist_bptr.getD (4 * names.length + j) 0 = ((fs.getD j default).esize : Int)
  rows : ∀ j, j < fs.length → s.vs_wlist_name.getD j [] = cstr (fs.getD j default).name

/-- the field loop was left by `goto done` with `ret_value = FAIL`: nothing of the frame has changed -/
def BFail (s0 r : VSsetfields.St) : Prop :=
  r.gto = true ∧ r.brk = false ∧ r.cnt = false ∧ r.ret_value = -1 ∧ sfFrame r = sfFrame s0 ∧ r.ub = false ∧ r.oof = false

theorem getD_set_ne' {α} (l : List α) (i j : Nat) (v d : α) (h : i ≠ j) : (l.set i v).getD j d = l.getD j d := by
  simp [List.getD_eq_getElem?_getD, List.getElem?_set_ne h]

theorem binv_extend {names : List String} {s0 s : VSsetfields.St} {fs : List Field} {iv : Nat}
    (I : BInv names s0 fs iv s) (hk : fs.length < names.length) (f : Field) (iv' : Nat) (hle : iv' ≤ 65535) (r : VSsetfields.St)
    (hfr : sfFrame r = sfFrame s) (hcl : SfClean r) (hub : r.ub = s.ub) (hoof : r.oof = s.oof) (hrv : r.ret_value = s.ret_value)
    (hi : r.i = s.i + 1) (hn : r.vs_wlist_n = s.vs_wlist_n + 1) (hiv : r.vs_wlist_ivsize = iv')
    (hb : r.vs_wlist_bptr = (((s.vs_wlist_bptr.set fs.length (f.type : Int)).set (3 * names.length + fs.length) (f.order : Int)).set
      (4 * names.length + fs.length) (f.esize : Int)).set (2 * names.length + fs.length) (f.isize : Int))
    (hnm : r.vs_wlist_name = s.vs_wlist_name.set fs.length (cstr f.name)) :
    BInv names s0 (fs ++ [f]) iv' r := by
  have hbl := I.hbl
  refine ⟨hfr.trans I.fr, hcl, hub.trans I.hub, hoof.trans I.hoof, hrv.trans I.rv, ?_, ?_, hiv, hle, ?_, ?_, ?_, ?_⟩
  · rw [hi, I.hi]; simp
  · rw [hn, I.hn]; simp
  · rw [hb]; simp [hbl]
  · rw [hnm]; simp [I.hnl]
  · intro j hj
    rw [hb]
    simp only [List.length_append, List.length_singleton] at hj
    by_cases e : j = fs.length
    · subst e
      have g : (fs ++ [f]).getD fs.length default = f := by simp
      rw [g]
      refine ⟨?_, ?_, ?_, ?_⟩
      · rw [getD_set_ne' _ _ _ _ _ (by omega), getD_set_ne' _ _ _ _ _ (by omega), getD_set_ne' _ _ _ _ _ (by omega), getD_set_self _ _ _ _ (by omega)]
      · rw [getD_set_self _ _ _ _ (by simp [hbl]; omega)]
      · rw [getD_set_ne' _ _ _ _ _ (by omega), getD_set_ne' _ _ _ _ _ (by omega), getD_set_self _ _ _ _ (by simp [hbl]; omega)]
      · rw [getD_set_ne' _ _ _ _ _ (by omega), getD_set_self _ _ _ _ (by simp [hbl]; omega)]
    · have hj' : j < fs.length := by omega
      have g : (fs ++ [f]).getD j default = fs.getD j default := by simp [List.getD_eq_getElem?_getD, List.getElem?_append_left hj']
      rw [g]
      obtain ⟨a1, a2, a3, a4⟩ := I.cells j hj'
      refine ⟨?_, ?_, ?_, ?_⟩
      · rw [getD_set_ne' _ _ _ _ _ (by omega), getD_set_ne' _ _ _ _ _ (by omega), getD_set_ne' _ _ _ _ _ (by omega), getD_set_ne' _ _ _ _ _ (by omega), a1]
      · rw [getD_set_ne' _ _ _ _ _ (by omega), getD_set_ne' _ _ _ _ _ (by omega), getD_set_ne' _ _ _ _ _ (by omega), getD_set_ne' _ _ _ _ _ (by omega), a2]
      · rw [getD_set_ne' _ _ _ _ _ (by omega), getD_set_ne' _ _ _ _ _ (by omega), getD_set_ne' _ _ _ _ _ (by omega), getD_set_ne' _ _ _ _ _ (by omega), a3]
      · rw [getD_set_ne' _ _ _ _ _ (by omega), getD_set_ne' _ _ _ _ _ (by omega), getD_set_ne' _ _ _ _ _ (by omega), getD_set_ne' _ _ _ _ _ (by omega), a4]
  · intro j hj
    rw [hnm]
    simp only [List.length_append, List.length_singleton] at hj
    by_cases e : j = fs.length
    · subst e
      have g : (fs ++ [f]).getD fs.length default = f := by simp
      rw [g, getD_set_self _ _ _ _ (by rw [I.hnl]; exact hk)]
    · have hj' : j < fs.length := by omega
      have g : (fs ++ [f]).getD j default = fs.getD j default := by simp [List.getD_eq_getElem?_getD, List.getElem?_append_left hj']
      rw [g, getD_set_ne' _ _ _ _ _ (by omega), I.rows j hj']

/-! ### the pieces of the body of the field loop -/

theorem l1C_gto (fuel : Nat) (s : VSsetfields.St) (h : s.gto = true) : l1C fuel s = { s with cnt := false } := by
  simp [l1C, h]

theorem l1C_found (fuel : Nat) (s : VSsetfields.St) (hcl : SfClean s) (hf : s.found = 1) : l1C fuel s = { s with i := s.i + 1 } := by
  obtain ⟨h1, h2, h3⟩ := hcl
  simp [l1C, h1, h2, h3, hf]

theorem l1C_notfound (fuel : Nat) (s : VSsetfields.St) (hcl : SfClean s) (hf : s.found = 0) :
    l1C fuel s = { s with ret_value := -1, gto := true } := by
  obtain ⟨h1, h2, h3⟩ := hcl
  simp [l1C, h1, h2, h3, hf]

theorem l1B_gto (fuel : Nat) (s : VSsetfields.St) (h : s.gto = true) : l1B fuel s = l1C fuel s := by
  simp [l1B, h]

theorem l1B_found (fuel : Nat) (s : VSsetfields.St) (hf : s.found = 1) : l1B fuel s = l1C fuel s := by
  simp only [l1B]
  by_cases h : s.gto ∨ s.brk ∨ s.cnt
  · rw [if_pos h]
  · rw [if_neg h, if_neg (by rw [hf]; simp)]

theorem l1B_scan (fuel : Nat) (s : VSsetfields.St) (hcl : SfClean s) (hf : s.found = 0) :
    l1B fuel s = l1C fuel (VSsetfields.St.set_brk (VSsetfields.loop3 fuel { s with j := 0 }) false) := by
  obtain ⟨h1, h2, h3⟩ := hcl
  simp only [l1B]
  rw [if_neg (by simp [h1, h2, h3]), if_pos (by rw [hf]; simp)]

/-- the rest of one pass of the field loop behind a scan that found the name and stored the field (`R` = state after the branch) -/
theorem l1_tail_ok (fuel : Nat) (R : VSsetfields.St) (hg : R.gto = false) (hf : R.found = 1) :
    l1B fuel (VSsetfields.St.set_brk (VSsetfields.St.set_cnt R false) false) = { R with cnt := false, brk := false, i := R.i + 1 } := by
  rw [l1B_found _ (VSsetfields.St.set_brk (VSsetfields.St.set_cnt R false) false) hf,
    l1C_found _ (VSsetfields.St.set_brk (VSsetfields.St.set_cnt R false) false) ⟨hg, rfl, rfl⟩ hf]

/-- … behind a scan whose branch refused the field (`goto done`) -/
theorem l1_tail_fail (fuel : Nat) (R : VSsetfields.St) (hg : R.gto = true) :
    l1B fuel (VSsetfields.St.set_brk (VSsetfields.St.set_cnt R false) false) = { R with cnt := false, brk := false } := by
  rw [l1B_gto _ (VSsetfields.St.set_brk (VSsetfields.St.set_cnt R false) false) hg,
    l1C_gto _ (VSsetfields.St.set_brk (VSsetfields.St.set_cnt R false) false) hg]
end H4.Lemmas.C07Fld
