import H4.Lemmas.C07Fn8
import H4.Lemmas.C08Fn6
/-! Lemmas for `H4.Props.C07Fn3`, part 7: inversion of the primitives of the independent reader `H4.Format` (`get16`, `getS16`, `get32`,
    `getS32`, `get16s`, `getS16s`, `getStr16`, `getStrs16`, `decodeVAttrs`) by POSITIONS in the record.  Core only. -/
set_option linter.unusedSimpArgs false
set_option linter.unusedVariables false
namespace H4.Lemmas.C07Fn3
open H4 H4.Format H4.Gen.Hdf H4.C2L
open H4.Lemmas.C08Fn (bytesI bytesI_length bytesI_nil bytesI_cons bytesI_append)
open H4.Lemmas.C08Fn3 (b8 be16 be32 b8_range S32 be16N be16_eq be16N_lt be32N be32_eq be32N_lt w16 valsN valsN_length valsN_cons getU16_at getU16_none getU32_at
  getU32_none getU16s_at getU16s_none be16N_rec be32N_rec vals vals_eq)

/-! ## the independent reader `H4.Format.vunpackvs` by positions -/

theorem toS16_w16 (B : List Int) (p : Nat) : toS16 (be16N B p) = w16 (be16 B p) := by
  have := be16N_lt B p
  rw [be16_eq]; simp only [toS16, w16]; split <;> omega

theorem toS32_S32 (B : List Int) (p : Nat) : toS32 (be32N B p) = S32 (be32 B p) := by
  have := be32N_lt B p
  rw [be32_eq]; simp only [toS32, S32]; split <;> split <;> omega

theorem get16_eq (l : Bytes) : get16 l = VGroup.getU16 l := by
  match l with
  | [] => rfl
  | [_] => rfl
  | _ :: _ :: _ => rfl

theorem get32_eq (l : Bytes) : get32 l = VGroup.getU32 l := by
  match l with
  | [] => rfl
  | [_] => rfl
  | [_, _] => rfl
  | [_, _, _] => rfl
  | _ :: _ :: _ :: _ :: _ => rfl

theorem get16_inv (rec : Bytes) (tail : List Int) (p x : Nat) (r : Bytes) (h : get16 (rec.drop p) = some (x, r)) :
    p + 2 ≤ rec.length ∧ x = be16N (bytesI rec ++ tail) p ∧ r = rec.drop (p + 2) := by
  rw [get16_eq] at h
  by_cases hl : p + 2 ≤ rec.length
  · rw [getU16_at rec tail p hl] at h
    injection h with h; injection h with h1 h2
    exact ⟨hl, h1.symm, h2.symm⟩
  · rw [getU16_none rec p (by omega)] at h; exact absurd h (by simp)

theorem getS16_inv (rec : Bytes) (tail : List Int) (p : Nat) (x : Int) (r : Bytes) (h : getS16 (rec.drop p) = some (x, r)) :
    p + 2 ≤ rec.length ∧ x = w16 (be16 (bytesI rec ++ tail) p) ∧ r = rec.drop (p + 2) := by
  simp only [getS16, Option.map_eq_some_iff] at h
  obtain ⟨⟨y, r'⟩, h1, h2⟩ := h
  obtain ⟨a, b, c⟩ := get16_inv rec tail p y r' h1
  injection h2 with h3 h4
  subst b c
  exact ⟨a, by rw [← h3, toS16_w16], h4.symm⟩

theorem get32_inv (rec : Bytes) (tail : List Int) (p x : Nat) (r : Bytes) (h : get32 (rec.drop p) = some (x, r)) :
    p + 4 ≤ rec.length ∧ x = be32N (bytesI rec ++ tail) p ∧ r = rec.drop (p + 4) := by
  rw [get32_eq] at h
  by_cases hl : p + 4 ≤ rec.length
  · rw [getU32_at rec tail p hl] at h
    injection h with h; injection h with h1 h2
    exact ⟨hl, h1.symm, h2.symm⟩
  · rw [getU32_none rec p (by omega)] at h; exact absurd h (by simp)

theorem getS32_inv (rec : Bytes) (tail : List Int) (p : Nat) (x : Int) (r : Bytes) (h : getS32 (rec.drop p) = some (x, r)) :
    p + 4 ≤ rec.length ∧ x = S32 (be32 (bytesI rec ++ tail) p) ∧ r = rec.drop (p + 4) := by
  simp only [getS32, Option.map_eq_some_iff] at h
  obtain ⟨⟨y, r'⟩, h1, h2⟩ := h
  obtain ⟨a, b, c⟩ := get32_inv rec tail p y r' h1
  injection h2 with h3 h4
  subst b c
  exact ⟨a, by rw [← h3, toS32_S32], h4.symm⟩

theorem get16s_inv (rec : Bytes) (tail : List Int) : ∀ (n p : Nat) (xs : List Nat) (r : Bytes), p ≤ rec.length → get16s n (rec.drop p) = some (xs, r) →
    p + 2 * n ≤ rec.length ∧ xs = valsN (bytesI rec ++ tail) p 2 n ∧ r = rec.drop (p + 2 * n) := by
  intro n
  induction n with
  | zero =>
    intro p xs r hp h
    simp only [get16s] at h
    injection h with h; injection h with h1 h2
    exact ⟨by omega, by rw [← h1]; simp [valsN], by rw [← h2]; rfl⟩
  | succ n ih =>
    intro p xs r hp h
    simp only [get16s, bind, Option.bind_eq_some_iff] at h
    obtain ⟨⟨x, r1⟩, h1, ⟨ys, r2⟩, h2, h3⟩ := h
    obtain ⟨a1, a2, a3⟩ := get16_inv rec tail p x r1 h1
    subst a3
    obtain ⟨b1, b2, b3⟩ := ih (p + 2) ys r2 a1 h2
    injection h3 with h3; injection h3 with h4 h5
    refine ⟨by omega, ?_, ?_⟩
    · rw [← h4, valsN_cons, a2, b2]
    · have e : p + 2 + 2 * n = p + 2 * (n + 1) := by omega
      rw [← h5, b3, e]

theorem getS16s_inv (rec : Bytes) (tail : List Int) : ∀ (n p : Nat) (xs : List Int) (r : Bytes), p ≤ rec.length → getS16s n (rec.drop p) = some (xs, r) →
    p + 2 * n ≤ rec.length ∧ xs = (vals (bytesI rec ++ tail) p 2 n).map w16 ∧ r = rec.drop (p + 2 * n) := by
  intro n
  induction n with
  | zero =>
    intro p xs r hp h
    simp only [getS16s] at h
    injection h with h; injection h with h1 h2
    exact ⟨by omega, by rw [← h1]; simp [vals], by rw [← h2]; rfl⟩
  | succ n ih =>
    intro p xs r hp h
    simp only [getS16s, bind, Option.bind_eq_some_iff] at h
    obtain ⟨⟨x, r1⟩, h1, ⟨ys, r2⟩, h2, h3⟩ := h
    obtain ⟨a1, a2, a3⟩ := getS16_inv rec tail p x r1 h1
    subst a3
    obtain ⟨b1, b2, b3⟩ := ih (p + 2) ys r2 a1 h2
    injection h3 with h3; injection h3 with h4 h5
    refine ⟨by omega, ?_, ?_⟩
    · rw [← h4, a2, b2]
      simp only [vals, List.range_succ_eq_map, List.map_cons, List.map_map, Nat.mul_zero, Nat.add_zero]
      congr 1
      apply List.map_congr_left
      intro j _
      simp only [Function.comp]
      congr 2
      rw [Nat.mul_succ]; omega
    · have e : p + 2 + 2 * n = p + 2 * (n + 1) := by omega
      rw [← h5, b3, e]

theorem getStr16_inv (rec : Bytes) (tail : List Int) (p : Nat) (nm r : Bytes) (h : getStr16 (rec.drop p) = some (nm, r)) :
    p + 2 + be16N (bytesI rec ++ tail) p ≤ rec.length ∧ nm = (rec.drop (p + 2)).take (be16N (bytesI rec ++ tail) p) ∧
      r = rec.drop (p + 2 + be16N (bytesI rec ++ tail) p) := by
  simp only [getStr16, bind, Option.bind_eq_some_iff] at h
  obtain ⟨⟨x, r1⟩, h1, h2⟩ := h
  obtain ⟨a1, a2, a3⟩ := get16_inv rec tail p x r1 h1
  subst a2 a3
  simp only [getN] at h2
  split at h2
  · rename_i hle
    injection h2 with h2; injection h2 with h3 h4
    simp only [List.length_drop] at hle
    exact ⟨by omega, h3.symm, by rw [← h4, List.drop_drop]⟩
  · exact absurd h2 (by simp)

/-- the field names of the record: name `t` is the `nameLen` bytes behind its length prefix -/
def namesAt (rec : Bytes) (B : List Int) (p0 n : Nat) : List Bytes :=
  (List.range n).map fun t => (rec.drop (namePos B p0 t + 2)).take (nameLen B p0 t)

theorem namePos_shift (B : List Int) (p0 : Nat) : ∀ t, namePos B (p0 + 2 + be16N B p0) t = namePos B p0 (t + 1) := by
  intro t
  induction t with
  | zero => rfl
  | succ t ih => simp only [namePos, ih]

theorem getStrs16_inv (rec : Bytes) (tail : List Int) : ∀ (n p : Nat) (ns : List Bytes) (r : Bytes), p ≤ rec.length →
    getStrs16 n (rec.drop p) = some (ns, r) →
    namePos (bytesI rec ++ tail) p n ≤ rec.length ∧ ns = namesAt rec (bytesI rec ++ tail) p n ∧ r = rec.drop (namePos (bytesI rec ++ tail) p n) := by
  intro n
  induction n with
  | zero =>
    intro p ns r hp h
    simp only [getStrs16] at h
    injection h with h; injection h with h1 h2
    exact ⟨hp, by rw [← h1]; simp [namesAt], by rw [← h2]; rfl⟩
  | succ n ih =>
    intro p ns r hp h
    simp only [getStrs16, bind, Option.bind_eq_some_iff] at h
    obtain ⟨⟨x, r1⟩, h1, ⟨ys, r2⟩, h2, h3⟩ := h
    obtain ⟨a1, a2, a3⟩ := getStr16_inv rec tail p x r1 h1
    subst a3
    obtain ⟨b1, b2, b3⟩ := ih _ ys r2 a1 h2
    injection h3 with h3; injection h3 with h4 h5
    rw [namePos_shift] at b1 b3
    refine ⟨b1, ?_, by rw [← h5, b3]⟩
    rw [← h4, a2, b2]
    simp only [namesAt, List.range_succ_eq_map, List.map_cons, List.map_map]
    congr 1
    apply List.map_congr_left
    intro j _
    simp only [Function.comp, nameLen, namePos_shift]

theorem decodeVAttrs_inv (rec : Bytes) (tail : List Int) : ∀ (n p : Nat) (as : List VAttr) (r : Bytes), p ≤ rec.length →
    decodeVAttrs n (rec.drop p) = some (as, r) →
    p + 8 * n ≤ rec.length ∧ r = rec.drop (p + 8 * n) ∧
      as = (List.range n).map (fun t => ⟨S32 (be32 (bytesI rec ++ tail) (p + 8 * t)), be16N (bytesI rec ++ tail) (p + 8 * t + 4),
        be16N (bytesI rec ++ tail) (p + 8 * t + 6)⟩) := by
  intro n
  induction n with
  | zero =>
    intro p as r hp h
    simp only [decodeVAttrs] at h
    injection h with h; injection h with h1 h2
    exact ⟨by omega, by rw [← h2]; rfl, by rw [← h1]; simp⟩
  | succ n ih =>
    intro p as r hp h
    simp only [decodeVAttrs, bind, Option.bind_eq_some_iff] at h
    obtain ⟨⟨fi, r1⟩, h1, ⟨t, r2⟩, h2, ⟨rf, r3⟩, h3, ⟨as', r4⟩, h4, h5⟩ := h
    obtain ⟨a1, a2, a3⟩ := getS32_inv rec tail p fi r1 h1
    subst a3
    obtain ⟨b1, b2, b3⟩ := get16_inv rec tail (p + 4) t r2 h2
    subst b3
    obtain ⟨c1, c2, c3⟩ := get16_inv rec tail (p + 4 + 2) rf r3 h3
    subst c3
    obtain ⟨d1, d2, d3⟩ := ih (p + 4 + 2 + 2) as' r4 c1 h4
    injection h5 with h5; injection h5 with h6 h7
    have e8 : p + 4 + 2 + 2 + 8 * n = p + 8 * (n + 1) := by omega
    refine ⟨by omega, by rw [← h7, d2, e8], ?_⟩
    rw [← h6, a2, b2, c2, d3]
    simp only [List.range_succ_eq_map, List.map_cons, List.map_map, Nat.mul_zero, Nat.add_zero]
    congr 1
    apply List.map_congr_left
    intro j _
    simp only [Function.comp]
    have e : p + 4 + 2 + 2 + 8 * j = p + 8 * (j + 1) := by omega
    rw [e]

/-- the attribute triples at `p, p+8, …` -/
def attrsAt (B : List Int) (p n : Nat) : List VAttr :=
  (List.range n).map fun t => ⟨S32 (be32 B (p + 8 * t)), be16N B (p + 8 * t + 4), be16N B (p + 8 * t + 6)⟩

/-- what the independent reader's acceptance of `rec` as the header `v` means, by positions (`B` = `rec` followed by anything) -/
structure Accepted (rec : Bytes) (B : List Int) (v : VH) : Prop where
  len5 : 5 ≤ rec.length
  version : v.version = w16 (be16 B (rec.length - 5))
  more : v.more = w16 (be16 B (rec.length - 3))
  il : v.interlace = w16 (be16 B 0)
  nv : v.nvert = S32 (be32 B 2)
  ivs : v.ivsize = be16N B 6
  nf : nfN B < 32768
  inside : pEx B + 8 ≤ rec.length
  fields : v.fields = zipFields ((vals B 10 2 (nfN B)).map w16) (valsN B (10 + 2 * nfN B) 2 (nfN B)) (valsN B (10 + 2 * nfN B + 2 * nfN B) 2 (nfN B))
    (valsN B (10 + 2 * nfN B + 2 * nfN B + 2 * nfN B) 2 (nfN B)) (namesAt rec B (pNm B) (nfN B))
  name : v.name = (rec.drop (pVn B + 2)).take (lVn B)
  cls : v.cls = (rec.drop (pVc B + 2)).take (lVc B)
  extag : v.extag = be16N B (pEx B)
  exref : v.exref = be16N B (pEx B + 2)
  midv : w16 (be16 B (pEx B + 4)) = v.version
  midm : w16 (be16 B (pEx B + 6)) = v.more
  v4 : v.version = 4 → pEx B + 12 ≤ rec.length ∧ v.flags = be32N B (pEx B + 8) ∧
    (v.flags % 2 = 1 → pEx B + 16 ≤ rec.length ∧ pEx B + 16 + 8 * be32N B (pEx B + 12) + 5 = rec.length ∧
      v.attrs = attrsAt B (pEx B + 16) (be32N B (pEx B + 12))) ∧
    (¬ v.flags % 2 = 1 → v.attrs = [] ∧ pEx B + 12 + 5 = rec.length)
  v3 : v.version ≠ 4 → v.flags = 0 ∧ v.attrs = [] ∧ pEx B + 8 + 5 = rec.length

theorem consts : (VSET_NEW_VERSION : Nat) = 4 := by decide

theorem vunpackvs_inv (rec : Bytes) (tail : List Int) (v : VH) (h : Format.vunpackvs rec = some v) : Accepted rec (bytesI rec ++ tail) v := by
  generalize hB : bytesI rec ++ tail = B
  unfold Format.vunpackvs at h
  simp only [bind] at h
  split at h
  · exact absurd h (by simp)
  rename_i hL
  rw [Option.bind_eq_some_iff] at h; obtain ⟨⟨vb, r1⟩, h1, h⟩ := h
  rw [Option.bind_eq_some_iff] at h; obtain ⟨⟨mb, r2⟩, h2, h⟩ := h
  rw [Option.bind_eq_some_iff] at h; obtain ⟨⟨il, r3⟩, h3, h⟩ := h
  rw [Option.bind_eq_some_iff] at h; obtain ⟨⟨nv, r4⟩, h4, h⟩ := h
  rw [Option.bind_eq_some_iff] at h; obtain ⟨⟨ivs, r5⟩, h5, h⟩ := h
  rw [Option.bind_eq_some_iff] at h; obtain ⟨⟨nf, r6⟩, h6, h⟩ := h
  simp only at h h2 h4 h5 h6
  split at h
  · exact absurd h (by simp)
  rename_i hnf
  rw [Option.bind_eq_some_iff] at h; obtain ⟨⟨tys, r7⟩, h7, h⟩ := h
  rw [Option.bind_eq_some_iff] at h; obtain ⟨⟨iss, r8⟩, h8, h⟩ := h
  rw [Option.bind_eq_some_iff] at h; obtain ⟨⟨ofs, r9⟩, h9, h⟩ := h
  rw [Option.bind_eq_some_iff] at h; obtain ⟨⟨ods, r10⟩, h10, h⟩ := h
  rw [Option.bind_eq_some_iff] at h; obtain ⟨⟨nms, r11⟩, h11, h⟩ := h
  rw [Option.bind_eq_some_iff] at h; obtain ⟨⟨nm, r12⟩, h12, h⟩ := h
  rw [Option.bind_eq_some_iff] at h; obtain ⟨⟨cl, r13⟩, h13, h⟩ := h
  rw [Option.bind_eq_some_iff] at h; obtain ⟨⟨et, r14⟩, h14, h⟩ := h
  rw [Option.bind_eq_some_iff] at h; obtain ⟨⟨er, r15⟩, h15, h⟩ := h
  rw [Option.bind_eq_some_iff] at h; obtain ⟨⟨vm, r16⟩, h16, h⟩ := h
  rw [Option.bind_eq_some_iff] at h; obtain ⟨⟨mm, r17⟩, h17, h⟩ := h
  simp only at h h8 h9 h10 h11 h12 h13 h14 h15 h16 h17
  split at h
  · exact absurd h (by simp)
  rename_i hmid
  -- positions
  obtain ⟨a1, a2, a3⟩ := getS16_inv rec tail _ vb r1 h1
  subst a3
  obtain ⟨b1, b2, b3⟩ := getS16_inv rec tail _ mb r2 h2
  have hd0 : rec = rec.drop 0 := rfl
  rw [hd0] at h3
  obtain ⟨c1, c2, c3⟩ := getS16_inv rec tail 0 il r3 h3
  subst c3
  obtain ⟨d1, d2, d3⟩ := getS32_inv rec tail _ nv r4 h4
  subst d3
  obtain ⟨e1, e2, e3⟩ := get16_inv rec tail _ ivs r5 h5
  subst e3
  obtain ⟨f1, f2, f3⟩ := get16_inv rec tail _ nf r6 h6
  subst f3
  rw [hB] at a2 b2 c2 d2 e2 f2
  have hnfN : nf = nfN B := f2
  obtain ⟨g1, g2, g3⟩ := getS16s_inv rec tail nf _ tys r7 f1 h7
  subst g3
  obtain ⟨i1, i2, i3⟩ := get16s_inv rec tail nf _ iss r8 g1 h8
  subst i3
  obtain ⟨j1, j2, j3⟩ := get16s_inv rec tail nf _ ofs r9 i1 h9
  subst j3
  obtain ⟨k1, k2, k3⟩ := get16s_inv rec tail nf _ ods r10 j1 h10
  subst k3
  obtain ⟨l1, l2, l3⟩ := getStrs16_inv rec tail nf _ nms r11 k1 h11
  subst l3
  obtain ⟨m1, m2, m3⟩ := getStr16_inv rec tail _ nm r12 h12
  subst m3
  obtain ⟨n1, n2, n3⟩ := getStr16_inv rec tail _ cl r13 h13
  subst n3
  obtain ⟨o1, o2, o3⟩ := get16_inv rec tail _ et r14 h14
  subst o3
  obtain ⟨p1, p2, p3⟩ := get16_inv rec tail _ er r15 h15
  subst p3
  obtain ⟨q1, q2, q3⟩ := getS16_inv rec tail _ vm r16 h16
  subst q3
  obtain ⟨s1, s2, s3⟩ := getS16_inv rec tail _ mm r17 h17
  subst s3
  rw [hB] at g2 i2 j2 k2 l1 l2 m1 m2 n1 n2 o1 o2 p1 p2 q1 q2 s1 s2 h
  have hp : 0 + 2 + 4 + 2 + 2 + 2 * nf + 2 * nf + 2 * nf + 2 * nf = pNm B := by
    show _ = 10 + 8 * nfN B
    rw [← hnfN]; omega
  have h10' : 0 + 2 + 4 + 2 + 2 = 10 := rfl
  rw [hp] at l1 l2 m1 m2 n1 n2 o1 o2 p1 p2 q1 q2 s1 s2 h
  rw [h10'] at g2 i2 j2 k2
  subst hnfN
  -- now every position is (definitionally) one of pVn, pVc, pEx
  have e4 : pEx B + 2 + 2 = pEx B + 4 := by omega
  have e6 : pEx B + 2 + 2 + 2 = pEx B + 6 := by omega
  have e8 : pEx B + 2 + 2 + 2 + 2 = pEx B + 8 := by omega
  have q2' : vm = w16 (be16 B (pEx B + 4)) := by rw [← e4]; exact q2
  have s2' : mm = w16 (be16 B (pEx B + 6)) := by rw [← e6]; exact s2
  have s1' : pEx B + 8 ≤ rec.length := by rw [← e8]; exact s1
  have hmv : vm = vb ∧ mm = mb := by
    constructor
    · exact Decidable.byContradiction fun hc => hmid (Or.inl hc)
    · exact Decidable.byContradiction fun hc => hmid (Or.inr hc)
  have hr17 : (List.drop (pEx B + 2 + 2 + 2 + 2) rec) = List.drop (pEx B + 8) rec := by rw [e8]
  have e3 : rec.length - 5 + 2 = rec.length - 3 := by omega
  rw [e3] at b2
  have base : ∀ (fl : Nat) (at_ : List VAttr), (⟨il, nv, ivs, zipFields tys iss ofs ods nms, nm, cl, et, er, vb, mb, fl, at_⟩ : VH) = v →
      (v.version = vb ∧ v.more = mb ∧ v.interlace = il ∧ v.nvert = nv ∧ v.ivsize = ivs ∧ v.fields = zipFields tys iss ofs ods nms ∧ v.name = nm ∧ v.cls = cl ∧
        v.extag = et ∧ v.exref = er ∧ v.flags = fl ∧ v.attrs = at_) := by
    intro fl at_ hv; subst hv; exact ⟨rfl, rfl, rfl, rfl, rfl, rfl, rfl, rfl, rfl, rfl, rfl, rfl⟩
  have fin : ∀ (fl : Nat) (at_ : List VAttr), (⟨il, nv, ivs, zipFields tys iss ofs ods nms, nm, cl, et, er, vb, mb, fl, at_⟩ : VH) = v →
      (v.version = 4 → pEx B + 12 ≤ rec.length ∧ v.flags = be32N B (pEx B + 8) ∧
        (v.flags % 2 = 1 → pEx B + 16 ≤ rec.length ∧ pEx B + 16 + 8 * be32N B (pEx B + 12) + 5 = rec.length ∧
          v.attrs = attrsAt B (pEx B + 16) (be32N B (pEx B + 12))) ∧
        (¬ v.flags % 2 = 1 → v.attrs = [] ∧ pEx B + 12 + 5 = rec.length)) →
      (v.version ≠ 4 → v.flags = 0 ∧ v.attrs = [] ∧ pEx B + 8 + 5 = rec.length) → Accepted rec B v := by
    intro fl at_ hv t4 t3
    obtain ⟨x1, x2, x3, x4, x5, x6, x7, x8, x9, x10, x11, x12⟩ := base fl at_ hv
    exact ⟨by omega, by rw [x1, a2], by rw [x2, b2], by rw [x3, c2], by rw [x4, d2], by rw [x5, e2], by omega, s1',
      by rw [x6, g2, i2, j2, k2, l2], by rw [x7, m2]; rfl, by rw [x8, n2]; rfl, by rw [x9, o2]; rfl, by rw [x10, p2]; rfl,
      by rw [x1, ← hmv.1, q2'], by rw [x2, ← hmv.2, s2'], t4, t3⟩
  erw [hr17] at h
  split at h
  · rename_i hv4
    rw [Option.bind_eq_some_iff] at h; obtain ⟨⟨fl, r18⟩, h18, h⟩ := h
    obtain ⟨t1, t2, t3⟩ := get32_inv rec tail _ fl r18 h18
    subst t3
    rw [hB] at t2
    simp only at h
    split at h
    · rename_i hodd
      rw [Option.bind_eq_some_iff] at h; obtain ⟨⟨na, r19⟩, h19, h⟩ := h
      obtain ⟨u1, u2, u3⟩ := get32_inv rec tail _ na r19 h19
      subst u3
      rw [hB] at u2
      rw [Option.bind_eq_some_iff] at h; obtain ⟨⟨ats, r20⟩, h20, h⟩ := h
      simp only at h h20
      obtain ⟨w1, w2, w3⟩ := decodeVAttrs_inv rec tail na _ ats r20 u1 h20
      rw [hB] at w3
      split at h
      · rename_i hlen
        injection h with h
        have e12 : pEx B + 8 + 4 = pEx B + 12 := by omega
        have e16 : pEx B + 8 + 4 + 4 = pEx B + 16 := by omega
        rw [e12] at u2
        rw [e16] at w1 w2 w3
        rw [w2, List.length_drop] at hlen
        refine fin fl ats h (fun _ => ⟨by omega, ?_, ?_, ?_⟩) (fun hne => ?_)
        · rw [(base fl ats h).2.2.2.2.2.2.2.2.2.2.1, t2]
        · intro _
          refine ⟨by omega, by rw [← u2]; omega, ?_⟩
          rw [(base fl ats h).2.2.2.2.2.2.2.2.2.2.2, w3, u2]; rfl
        · intro hno
          rw [(base fl ats h).2.2.2.2.2.2.2.2.2.2.1] at hno
          exact absurd hodd hno
        · rw [(base fl ats h).1] at hne
          rw [consts] at hv4
          exact absurd hv4 hne
      · exact absurd h (by simp)
    · rename_i hodd
      split at h
      · rename_i hlen
        injection h with h
        rw [List.length_drop] at hlen
        refine fin fl [] h (fun _ => ⟨by omega, ?_, ?_, ?_⟩) (fun hne => ?_)
        · rw [(base fl [] h).2.2.2.2.2.2.2.2.2.2.1, t2]
        · intro hy
          rw [(base fl [] h).2.2.2.2.2.2.2.2.2.2.1] at hy
          exact absurd hy hodd
        · intro _
          exact ⟨(base fl [] h).2.2.2.2.2.2.2.2.2.2.2, by omega⟩
        · rw [(base fl [] h).1] at hne
          rw [consts] at hv4
          exact absurd hv4 hne
      · exact absurd h (by simp)
  · rename_i hv4
    split at h
    · rename_i hlen
      injection h with h
      rw [List.length_drop] at hlen
      refine fin 0 [] h (fun h4 => ?_) (fun _ => ⟨(base 0 [] h).2.2.2.2.2.2.2.2.2.2.1, (base 0 [] h).2.2.2.2.2.2.2.2.2.2.2, by omega⟩)
      rw [(base 0 [] h).1] at h4
      rw [consts] at hv4
      exact absurd h4 hv4
    · exact absurd h (by simp)


end H4.Lemmas.C07Fn3
