import H4.Format
set_option linter.unusedSimpArgs false
/-! Lemmas for the record codecs of the independent format reader (C02). Core-only. -/
namespace H4.Format
open H4.Gen.Hdf H4.Gen.Fmt

/-! ### integers -/

theorem get8_enc8 (n : Nat) (h : n < 256) (r : Bytes) : get8 (enc8 n ++ r) = some (n, r) := by
  simp only [enc8, List.cons_append, List.nil_append, get8, UInt8.toNat_ofNat']
  congr 2; omega

theorem get16_enc16 (n : Nat) (h : n < 65536) (r : Bytes) : get16 (enc16 n ++ r) = some (n, r) := by
  simp only [enc16, List.cons_append, List.nil_append, get16, be16, UInt8.toNat_ofNat']
  congr 2; omega

theorem get32_enc32 (n : Nat) (h : n < 4294967296) (r : Bytes) : get32 (enc32 n ++ r) = some (n, r) := by
  simp only [enc32, List.cons_append, List.nil_append, get32, be32, UInt8.toNat_ofNat']
  congr 2; omega

theorem ofS32_lt (i : Int) : ofS32 i < 4294967296 := by
  unfold ofS32; omega

theorem ofS16_lt (i : Int) : ofS16 i < 65536 := by
  unfold ofS16; omega

theorem toS32_ofS32 (i : Int) (h1 : -2147483648 ≤ i) (h2 : i < 2147483648) : toS32 (ofS32 i) = i := by
  unfold toS32 ofS32; split <;> omega

theorem toS16_ofS16 (i : Int) (h1 : -32768 ≤ i) (h2 : i < 32768) : toS16 (ofS16 i) = i := by
  unfold toS16 ofS16; split <;> omega

theorem ofS32_toS32 (n : Nat) (h : n < 4294967296) : ofS32 (toS32 n) = n := by
  unfold toS32 ofS32; split <;> omega

theorem ofS16_toS16 (n : Nat) (h : n < 65536) : ofS16 (toS16 n) = n := by
  unfold toS16 ofS16; split <;> omega

def S32 (i : Int) : Prop := -2147483648 ≤ i ∧ i < 2147483648
def S16 (i : Int) : Prop := -32768 ≤ i ∧ i < 32768
instance (i : Int) : Decidable (S32 i) := by unfold S32; infer_instance
instance (i : Int) : Decidable (S16 i) := by unfold S16; infer_instance

theorem getS32_encS32 (i : Int) (h : S32 i) (r : Bytes) : getS32 (encS32 i ++ r) = some (i, r) := by
  simp only [getS32, encS32, get32_enc32 _ (ofS32_lt i), Option.map_some, toS32_ofS32 i h.1 h.2]

theorem getS16_encS16 (i : Int) (h : S16 i) (r : Bytes) : getS16 (encS16 i ++ r) = some (i, r) := by
  simp only [getS16, encS16, get16_enc16 _ (ofS16_lt i), Option.map_some, toS16_ofS16 i h.1 h.2]

theorem getN_append (s r : Bytes) : getN s.length (s ++ r) = some (s, r) := by
  simp [getN]

theorem get16s_flatMap (l : List Nat) (h : ∀ x ∈ l, x < 65536) (r : Bytes) :
    get16s l.length (l.flatMap enc16 ++ r) = some (l, r) := by
  induction l with
  | nil => simp [get16s]
  | cons a t ih =>
    have ha := h a (by simp)
    have ht := ih (fun x hx => h x (by simp [hx]))
    simp only [List.length_cons, List.flatMap_cons, List.append_assoc, get16s, get16_enc16 a ha, ht, Option.bind_eq_bind,
      Option.bind_some]

theorem getS16s_flatMap (l : List Int) (h : ∀ x ∈ l, S16 x) (r : Bytes) :
    getS16s l.length (l.flatMap encS16 ++ r) = some (l, r) := by
  induction l with
  | nil => simp [getS16s]
  | cons a t ih =>
    have ha := h a (by simp)
    have ht := ih (fun x hx => h x (by simp [hx]))
    simp only [List.length_cons, List.flatMap_cons, List.append_assoc, getS16s, getS16_encS16 a ha, ht, Option.bind_eq_bind,
      Option.bind_some]

theorem getStr16_enc (s : Bytes) (h : s.length < 65536) (r : Bytes) : getStr16 (encStr16 s ++ r) = some (s, r) := by
  simp only [getStr16, encStr16, List.append_assoc, get16_enc16 _ h, Option.bind_eq_bind, Option.bind_some, getN_append]

theorem getStrs16_flatMap (l : List Bytes) (h : ∀ s ∈ l, s.length < 65536) (r : Bytes) :
    getStrs16 l.length (l.flatMap encStr16 ++ r) = some (l, r) := by
  induction l with
  | nil => simp [getStrs16]
  | cons a t ih =>
    have ha := h a (by simp)
    have ht := ih (fun x hx => h x (by simp [hx]))
    simp only [List.length_cons, List.flatMap_cons, List.append_assoc, getStrs16, getStr16_enc a ha, ht, Option.bind_eq_bind,
      Option.bind_some]

/-! ### lengths -/
@[simp] theorem enc8_length (n : Nat) : (enc8 n).length = 1 := rfl
@[simp] theorem enc16_length (n : Nat) : (enc16 n).length = 2 := rfl
@[simp] theorem enc32_length (n : Nat) : (enc32 n).length = 4 := rfl
@[simp] theorem encS32_length (i : Int) : (encS32 i).length = 4 := rfl
@[simp] theorem encS16_length (i : Int) : (encS16 i).length = 2 := rfl

end H4.Format

namespace H4.Format
open H4.Gen.Hdf H4.Gen.Fmt

/-! ### fixed-size records -/

theorem decodeDD_encodeDD (d : DD) (h : d.InRange) : decodeDD (encodeDD d) = some d := by
  obtain ⟨h1, h2, h3, h4, h5, h6⟩ := h
  have e := getS32_encS32 d.len ⟨h5, h6⟩ []
  rw [List.append_nil] at e
  simp only [decodeDD, encodeDD, List.append_assoc, get16_enc16 _ h1, get16_enc16 _ h2, getS32_encS32 _ ⟨h3, h4⟩, e,
    Option.bind_eq_bind, Option.bind_some, List.isEmpty_nil, if_true]

theorem encodeDD_length (d : DD) : (encodeDD d).length = DD_SZ := rfl

def BlockHdr.InRange (h : BlockHdr) : Prop := h.ndds < 65536 ∧ h.next < 4294967296

theorem decodeBlockHdr_encode (h : BlockHdr) (w : h.InRange) : decodeBlockHdr (encodeBlockHdr h) = some h := by
  have e := get32_enc32 h.next w.2 []
  rw [List.append_nil] at e
  simp only [decodeBlockHdr, encodeBlockHdr, get16_enc16 _ w.1, e, Option.bind_eq_bind, Option.bind_some, List.isEmpty_nil,
    if_true]

theorem decodeDDs_encodeDDs (l : List DD) (h : ∀ d ∈ l, d.InRange) : decodeDDs l.length (encodeDDs l) = some l := by
  induction l with
  | nil => simp [decodeDDs, encodeDDs]
  | cons a t ih =>
    have ha := h a (by simp)
    have ht := ih (fun x hx => h x (by simp [hx]))
    have hl : DD_SZ = (encodeDD a).length := rfl
    simp only [encodeDDs] at ht ⊢
    simp only [List.length_cons, List.flatMap_cons, decodeDDs, hl, getN_append, decodeDD_encodeDD a ha, ht,
      Option.bind_eq_bind, Option.bind_some]

def LBDR.InRange (h : LBDR) : Prop := S32 h.length ∧ S32 h.blockLen ∧ S32 h.numBlocks ∧ h.linkRef < 65536

theorem decodeLBDR_encode (h : LBDR) (w : h.InRange) : decodeLBDR (encodeLBDR h) = some h := by
  obtain ⟨w1, w2, w3, w4⟩ := w
  have e := get16_enc16 h.linkRef w4 []
  rw [List.append_nil] at e
  have c : SPECIAL_LINKED < 65536 := by decide
  simp only [decodeLBDR, encodeLBDR, List.append_assoc, get16_enc16 _ c, getS32_encS32 _ w1, getS32_encS32 _ w2,
    getS32_encS32 _ w3, e, Option.bind_eq_bind, Option.bind_some, List.isEmpty_nil, if_true, ne_eq, not_true_eq_false,
    if_false]

theorem encodeLBDR_length (h : LBDR) : (encodeLBDR h).length = 16 := rfl

def LinkTable.InRange (t : LinkTable) : Prop := t.next < 65536 ∧ ∀ r ∈ t.refs, r < 65536

theorem decodeLinkTable_encode (t : LinkTable) (w : t.InRange) : decodeLinkTable t.refs.length (encodeLinkTable t) = some t := by
  have e := get16s_flatMap t.refs w.2 []
  rw [List.append_nil] at e
  simp only [decodeLinkTable, encodeLinkTable, get16_enc16 _ w.1, e, Option.bind_eq_bind, Option.bind_some, List.isEmpty_nil,
    if_true]

def ExtHdr.InRange (h : ExtHdr) : Prop := S32 h.length ∧ S32 h.offset ∧ h.name.length < 4294967296

theorem decodeExtHdr_encode (h : ExtHdr) (w : h.InRange) : decodeExtHdr (encodeExtHdr h) = some h := by
  obtain ⟨w1, w2, w3⟩ := w
  have e := getN_append h.name []
  rw [List.append_nil] at e
  have c : SPECIAL_EXT < 65536 := by decide
  simp only [decodeExtHdr, encodeExtHdr, List.append_assoc, get16_enc16 _ c, getS32_encS32 _ w1, getS32_encS32 _ w2,
    get32_enc32 _ w3, e, Option.bind_eq_bind, Option.bind_some, List.isEmpty_nil, if_true, ne_eq, not_true_eq_false,
    if_false]

end H4.Format

namespace H4.Format
open H4.Gen.Hdf H4.Gen.Fmt

/-! ### compression headers -/

def Coder.InRange : Coder → Prop
  | .none => True
  | .rle => True
  | .nbit nt se fo sb bl => S32 nt ∧ se < 65536 ∧ fo < 65536 ∧ S32 sb ∧ S32 bl
  | .skphuff s c => s < 4294967296 ∧ c < 4294967296
  | .deflate l => l < 65536
  | .szip p ps m b pb => p < 4294967296 ∧ ps < 4294967296 ∧ m < 4294967296 ∧ b < 256 ∧ pb < 256
  | .other c => c < 65536 ∧ c ≠ COMP_CODE_NONE ∧ c ≠ COMP_CODE_RLE ∧ c ≠ COMP_CODE_NBIT ∧ c ≠ COMP_CODE_SKPHUFF ∧
      c ≠ COMP_CODE_DEFLATE ∧ c ≠ COMP_CODE_SZIP

theorem Coder.code_lt (c : Coder) (h : c.InRange) : c.code < 65536 := by
  cases c <;> simp only [Coder.code] <;> first | decide | exact h.1

theorem decodeCoderParams_encode (c : Coder) (h : c.InRange) (r : Bytes) :
    decodeCoderParams c.code (encodeCoderParams c ++ r) = some (c, r) := by
  cases c with
  | none => simp [decodeCoderParams, encodeCoderParams, Coder.code]
  | rle => simp [decodeCoderParams, encodeCoderParams, Coder.code, COMP_CODE_RLE, COMP_CODE_NONE]
  | nbit nt se fo sb bl =>
    obtain ⟨h1, h2, h3, h4, h5⟩ := h
    simp [decodeCoderParams, encodeCoderParams, Coder.code, COMP_CODE_RLE, COMP_CODE_NONE, COMP_CODE_NBIT,
      getS32_encS32 _ h1, get16_enc16 _ h2, get16_enc16 _ h3, getS32_encS32 _ h4, getS32_encS32 _ h5]
  | skphuff s c =>
    simp [decodeCoderParams, encodeCoderParams, Coder.code, COMP_CODE_RLE, COMP_CODE_NONE, COMP_CODE_NBIT, COMP_CODE_SKPHUFF,
      get32_enc32 _ h.1, get32_enc32 _ h.2]
  | deflate l =>
    simp [decodeCoderParams, encodeCoderParams, Coder.code, COMP_CODE_RLE, COMP_CODE_NONE, COMP_CODE_NBIT, COMP_CODE_SKPHUFF,
      COMP_CODE_DEFLATE, get16_enc16 _ h]
  | szip p ps m b pb =>
    obtain ⟨h1, h2, h3, h4, h5⟩ := h
    simp [decodeCoderParams, encodeCoderParams, Coder.code, COMP_CODE_RLE, COMP_CODE_NONE, COMP_CODE_NBIT, COMP_CODE_SKPHUFF,
      COMP_CODE_DEFLATE, COMP_CODE_SZIP, get32_enc32 _ h1, get32_enc32 _ h2, get32_enc32 _ h3, get8_enc8 _ h4, get8_enc8 _ h5]
  | other c =>
    obtain ⟨_, h1, h2, h3, h4, h5, h6⟩ := h
    simp [decodeCoderParams, encodeCoderParams, Coder.code, h1, h2, h3, h4, h5, h6]

def CoderInfo.InRange (c : CoderInfo) : Prop := c.model < 65536 ∧ c.coder.InRange

theorem decodeCoderInfo_encode (c : CoderInfo) (h : c.InRange) (r : Bytes) :
    decodeCoderInfo (encodeCoderInfo c ++ r) = some (c, r) := by
  simp only [decodeCoderInfo, encodeCoderInfo, List.append_assoc, get16_enc16 _ h.1, get16_enc16 _ (Coder.code_lt _ h.2),
    decodeCoderParams_encode _ h.2, Option.bind_eq_bind, Option.bind_some]

def CompHdr.InRange (h : CompHdr) : Prop := h.version < 65536 ∧ S32 h.length ∧ h.compRef < 65536 ∧ h.info.InRange

theorem decodeCompHdr_encode (h : CompHdr) (w : h.InRange) : decodeCompHdr (encodeCompHdr h) = some h := by
  obtain ⟨w1, w2, w3, w4⟩ := w
  have e := decodeCoderInfo_encode h.info w4 []
  rw [List.append_nil] at e
  have c : SPECIAL_COMP < 65536 := by decide
  simp only [decodeCompHdr, encodeCompHdr, List.append_assoc, get16_enc16 _ c, get16_enc16 _ w1, getS32_encS32 _ w2,
    get16_enc16 _ w3, e, Option.bind_eq_bind, Option.bind_some, List.isEmpty_nil, if_true, ne_eq, not_true_eq_false,
    if_false]

/-- per coder, as the property text asks -/
theorem decodeCompHdr_encode_none (v : Nat) (len : Int) (cr m : Nat) (hv : v < 65536) (hl : S32 len) (hc : cr < 65536) (hm : m < 65536) :
    decodeCompHdr (encodeCompHdr ⟨v, len, cr, ⟨m, .none⟩⟩) = some ⟨v, len, cr, ⟨m, .none⟩⟩ :=
  decodeCompHdr_encode _ ⟨hv, hl, hc, hm, trivial⟩
theorem decodeCompHdr_encode_rle (v : Nat) (len : Int) (cr m : Nat) (hv : v < 65536) (hl : S32 len) (hc : cr < 65536) (hm : m < 65536) :
    decodeCompHdr (encodeCompHdr ⟨v, len, cr, ⟨m, .rle⟩⟩) = some ⟨v, len, cr, ⟨m, .rle⟩⟩ :=
  decodeCompHdr_encode _ ⟨hv, hl, hc, hm, trivial⟩
theorem decodeCompHdr_encode_deflate (v : Nat) (len : Int) (cr m l : Nat) (hv : v < 65536) (hl : S32 len) (hc : cr < 65536) (hm : m < 65536)
    (h : l < 65536) : decodeCompHdr (encodeCompHdr ⟨v, len, cr, ⟨m, .deflate l⟩⟩) = some ⟨v, len, cr, ⟨m, .deflate l⟩⟩ :=
  decodeCompHdr_encode _ ⟨hv, hl, hc, hm, h⟩
theorem decodeCompHdr_encode_skphuff (v : Nat) (len : Int) (cr m s c : Nat) (hv : v < 65536) (hl : S32 len) (hc : cr < 65536) (hm : m < 65536)
    (h1 : s < 4294967296) (h2 : c < 4294967296) :
    decodeCompHdr (encodeCompHdr ⟨v, len, cr, ⟨m, .skphuff s c⟩⟩) = some ⟨v, len, cr, ⟨m, .skphuff s c⟩⟩ :=
  decodeCompHdr_encode _ ⟨hv, hl, hc, hm, h1, h2⟩
theorem decodeCompHdr_encode_nbit (v : Nat) (len : Int) (cr m : Nat) (nt : Int) (se fo : Nat) (sb bl : Int) (hv : v < 65536) (hl : S32 len)
    (hc : cr < 65536) (hm : m < 65536) (h : (Coder.nbit nt se fo sb bl).InRange) :
    decodeCompHdr (encodeCompHdr ⟨v, len, cr, ⟨m, .nbit nt se fo sb bl⟩⟩) = some ⟨v, len, cr, ⟨m, .nbit nt se fo sb bl⟩⟩ :=
  decodeCompHdr_encode _ ⟨hv, hl, hc, hm, h⟩
theorem decodeCompHdr_encode_szip (v : Nat) (len : Int) (cr m p ps mk b pb : Nat) (hv : v < 65536) (hl : S32 len)
    (hc : cr < 65536) (hm : m < 65536) (h : (Coder.szip p ps mk b pb).InRange) :
    decodeCompHdr (encodeCompHdr ⟨v, len, cr, ⟨m, .szip p ps mk b pb⟩⟩) = some ⟨v, len, cr, ⟨m, .szip p ps mk b pb⟩⟩ :=
  decodeCompHdr_encode _ ⟨hv, hl, hc, hm, h⟩

/-! ### chunked description record -/

def ChunkDim.InRange (d : ChunkDim) : Prop := d.flag < 4294967296 ∧ S32 d.dimLen ∧ S32 d.chunkLen

theorem decodeChunkDims_encode (l : List ChunkDim) (h : ∀ d ∈ l, d.InRange) (r : Bytes) :
    decodeChunkDims l.length (l.flatMap encodeChunkDim ++ r) = some (l, r) := by
  induction l with
  | nil => simp [decodeChunkDims]
  | cons a t ih =>
    obtain ⟨h1, h2, h3⟩ := h a (by simp)
    have ht := ih (fun x hx => h x (by simp [hx]))
    simp only [List.length_cons, List.flatMap_cons, List.append_assoc, decodeChunkDims, encodeChunkDim, get32_enc32 _ h1,
      getS32_encS32 _ h2, getS32_encS32 _ h3, ht, Option.bind_eq_bind, Option.bind_some]

def ChunkHdr.InRange (h : ChunkHdr) : Prop :=
  S32 h.headLen ∧ h.version < 256 ∧ h.flag < 4294967296 ∧ S32 h.length ∧ S32 h.chunkSize ∧ S32 h.ntSize ∧
  h.tblTag < 65536 ∧ h.tblRef < 65536 ∧ h.spTag < 65536 ∧ h.spRef < 65536 ∧ h.dims.length < 4294967296 ∧
  (∀ d ∈ h.dims, d.InRange) ∧ h.fill.length < 4294967296 ∧
  -- the compression header is present exactly when the flag says so
  (h.flag % 256 = SPECIAL_COMP ↔ h.comp.isSome) ∧
  (∀ ci, h.comp = some ci → ci.InRange ∧ (encodeCoderInfo ci).length < 4294967296)

theorem decodeChunkHdr_encode (h : ChunkHdr) (w : h.InRange) : decodeChunkHdr (encodeChunkHdr h) = some h := by
  obtain ⟨w1, w2, w3, w4, w5, w6, w7, w8, w9, w10, w11, w12, w13, w14, w15⟩ := w
  have c : SPECIAL_CHUNKED < 65536 := by decide
  have c2 : SPECIAL_COMP < 65536 := by decide
  obtain ⟨hl, v, fl, len, cs, nt, tt, tr, st, sr, dims, fill, comp⟩ := h
  simp only at w1 w2 w3 w4 w5 w6 w7 w8 w9 w10 w11 w12 w13 w14 w15
  cases comp with
  | none =>
    have hf : ¬ fl % 256 = SPECIAL_COMP := by
      intro e; have := w14.mp e; simp at this
    have e1 := getN_append fill []
    rw [List.append_nil] at e1
    simp only [decodeChunkHdr, encodeChunkHdr, List.append_assoc, List.append_nil, get16_enc16 _ c, getS32_encS32 _ w1, get8_enc8 _ w2,
      get32_enc32 _ w3, getS32_encS32 _ w4, getS32_encS32 _ w5, getS32_encS32 _ w6, get16_enc16 _ w7, get16_enc16 _ w8,
      get16_enc16 _ w9, get16_enc16 _ w10, get32_enc32 _ w11, decodeChunkDims_encode _ w12, get32_enc32 _ w13, e1,
      Option.bind_eq_bind, Option.bind_some, hf, List.isEmpty_nil, if_true, if_false, ne_eq, not_true_eq_false]
  | some ci =>
    have hf : fl % 256 = SPECIAL_COMP := w14.mpr rfl
    obtain ⟨k1, k2⟩ := w15 ci rfl
    have e1 := getN_append (encodeCoderInfo ci) []
    rw [List.append_nil] at e1
    have e2 := decodeCoderInfo_encode ci k1 []
    rw [List.append_nil] at e2
    simp only [decodeChunkHdr, encodeChunkHdr, List.append_assoc, get16_enc16 _ c, getS32_encS32 _ w1, get8_enc8 _ w2,
      get32_enc32 _ w3, getS32_encS32 _ w4, getS32_encS32 _ w5, getS32_encS32 _ w6, get16_enc16 _ w7, get16_enc16 _ w8,
      get16_enc16 _ w9, get16_enc16 _ w10, get32_enc32 _ w11, decodeChunkDims_encode _ w12, get32_enc32 _ w13, getN_append,
      Option.bind_eq_bind, Option.bind_some, hf, get16_enc16 _ c2, get32_enc32 _ k2, e1, e2, List.isEmpty_nil, if_true,
      Bool.and_self, ne_eq, not_true_eq_false, if_false]

end H4.Format

namespace H4.Format
open H4.Gen.Hdf H4.Gen.Fmt

/-! ### Vdata header -/

def VField.InRange (f : VField) : Prop := S16 f.type ∧ f.isize < 65536 ∧ f.off < 65536 ∧ f.order < 65536 ∧ f.name.length < 65536
def VAttr.InRange (a : VAttr) : Prop := S32 a.findex ∧ a.atag < 65536 ∧ a.aref < 65536

/-- what `vpackvs` can represent faithfully.  The clause `version = 4 ↔ flags ≠ 0` is the writer's convention
    (vattr.c: version becomes VSET_NEW_VERSION exactly when a new feature flag is set); `vpackvs` writes the flags word
    iff `flags ≠ 0`, `vunpackvs` reads it iff `version = 4`. -/
def VH.WF (v : VH) : Prop :=
  S16 v.interlace ∧ S32 v.nvert ∧ v.ivsize < 65536 ∧ v.fields.length < 32768 ∧ (∀ f ∈ v.fields, f.InRange) ∧
  v.name.length < 65536 ∧ v.cls.length < 65536 ∧ v.extag < 65536 ∧ v.exref < 65536 ∧ S16 v.version ∧ S16 v.more ∧
  v.flags < 4294967296 ∧ (v.version = (VSET_NEW_VERSION : Nat) ↔ v.flags ≠ 0) ∧
  (v.flags % 2 = 1 → v.attrs.length < 4294967296 ∧ ∀ a ∈ v.attrs, a.InRange) ∧ (v.flags % 2 ≠ 1 → v.attrs = [])

theorem decodeVAttrs_encode (l : List VAttr) (h : ∀ a ∈ l, a.InRange) (r : Bytes) :
    decodeVAttrs l.length (l.flatMap encodeVAttr ++ r) = some (l, r) := by
  induction l with
  | nil => simp [decodeVAttrs]
  | cons a t ih =>
    obtain ⟨h1, h2, h3⟩ := h a (by simp)
    have ht := ih (fun x hx => h x (by simp [hx]))
    simp only [List.length_cons, List.flatMap_cons, List.append_assoc, decodeVAttrs, encodeVAttr, getS32_encS32 _ h1,
      get16_enc16 _ h2, get16_enc16 _ h3, ht, Option.bind_eq_bind, Option.bind_some]

theorem zipFields_maps (l : List VField) :
    zipFields (l.map (·.type)) (l.map (·.isize)) (l.map (·.off)) (l.map (·.order)) (l.map (·.name)) = l := by
  induction l with
  | nil => rfl
  | cons a t ih => simp only [List.map_cons, zipFields, ih]

theorem flatMap_map {α β} (l : List α) (f : α → β) (g : β → Bytes) : l.flatMap (fun x => g (f x)) = (l.map f).flatMap g := by
  induction l with
  | nil => rfl
  | cons a t ih => simp only [List.flatMap_cons, List.map_cons, ih]

theorem drop_tail5 (x t : Bytes) (h : t.length = 5) : (x ++ t).drop ((x ++ t).length - 5) = t := by
  have : (x ++ t).length - 5 = x.length := by simp [h]
  rw [this, List.drop_left']
  rfl

/-- everything before the bottom copy of version/more -/
def vsFront (v : VH) : Bytes :=
  encS16 v.interlace ++ encS32 v.nvert ++ enc16 v.ivsize ++ enc16 v.fields.length ++
  v.fields.flatMap (fun f => encS16 f.type) ++ v.fields.flatMap (fun f => enc16 f.isize) ++
  v.fields.flatMap (fun f => enc16 f.off) ++ v.fields.flatMap (fun f => enc16 f.order) ++
  v.fields.flatMap (fun f => encStr16 f.name) ++
  encStr16 v.name ++ encStr16 v.cls ++ enc16 v.extag ++ enc16 v.exref ++ encS16 v.version ++ encS16 v.more ++
  (if v.flags ≠ 0 then
     enc32 v.flags ++ (if v.flags % 2 = 1 then enc32 v.attrs.length ++ v.attrs.flatMap encodeVAttr else [])
   else [])
def vsTail (v : VH) : Bytes := encS16 v.version ++ encS16 v.more ++ [0]

theorem vpackvs_split (v : VH) : vpackvs v = vsFront v ++ vsTail v := by
  simp only [vpackvs, vsFront, vsTail, List.append_assoc]

theorem vsTail_length (v : VH) : (vsTail v).length = 5 := rfl

theorem vunpackvs_vpackvs (v : VH) (h : v.WF) : vunpackvs (vpackvs v) = some v := by
  obtain ⟨h1, h2, h3, h4, h5, h6, h7, h8, h9, h10, h11, h12, h13, h14, h15⟩ := h
  have hlen : ¬ (vpackvs v).length < 5 := by
    rw [vpackvs_split, List.length_append, vsTail_length]; omega
  have hdrop : (vpackvs v).drop ((vpackvs v).length - 5) = vsTail v := by
    rw [vpackvs_split]; exact drop_tail5 _ _ (vsTail_length v)
  have hnf : v.fields.length < 65536 := by omega
  have hnf' : ¬ v.fields.length ≥ 32768 := by omega
  have hty : ∀ x ∈ v.fields.map (·.type), S16 x := by
    intro x hx; obtain ⟨f, hf, rfl⟩ := List.mem_map.mp hx; exact (h5 f hf).1
  have his : ∀ x ∈ v.fields.map (·.isize), x < 65536 := by
    intro x hx; obtain ⟨f, hf, rfl⟩ := List.mem_map.mp hx; exact (h5 f hf).2.1
  have hof : ∀ x ∈ v.fields.map (·.off), x < 65536 := by
    intro x hx; obtain ⟨f, hf, rfl⟩ := List.mem_map.mp hx; exact (h5 f hf).2.2.1
  have hor : ∀ x ∈ v.fields.map (·.order), x < 65536 := by
    intro x hx; obtain ⟨f, hf, rfl⟩ := List.mem_map.mp hx; exact (h5 f hf).2.2.2.1
  have hna : ∀ x ∈ v.fields.map (·.name), x.length < 65536 := by
    intro x hx; obtain ⟨f, hf, rfl⟩ := List.mem_map.mp hx; exact (h5 f hf).2.2.2.2
  have t1 := getS16s_flatMap (v.fields.map (·.type)) hty
  have t2 := get16s_flatMap (v.fields.map (·.isize)) his
  have t3 := get16s_flatMap (v.fields.map (·.off)) hof
  have t4 := get16s_flatMap (v.fields.map (·.order)) hor
  have t5 := getStrs16_flatMap (v.fields.map (·.name)) hna
  simp only [List.length_map] at t1 t2 t3 t4 t5
  have tl1 : getS16 (vsTail v) = some (v.version, encS16 v.more ++ [0]) := by
    simp only [vsTail, List.append_assoc, getS16_encS16 _ h10]
  have tl2 : getS16 (encS16 v.more ++ [0]) = some (v.more, [0]) := getS16_encS16 _ h11 _
  have l5 : ∀ a b : Int, (encS16 a ++ (encS16 b ++ [0])).length = 5 := fun _ _ => rfl
  unfold vunpackvs
  simp only [hlen, if_false, hdrop, tl1, tl2, Option.bind_eq_bind, Option.bind_some]
  simp only [vpackvs, List.append_assoc, flatMap_map v.fields (·.type) encS16, flatMap_map v.fields (·.isize) enc16,
    flatMap_map v.fields (·.off) enc16, flatMap_map v.fields (·.order) enc16, flatMap_map v.fields (·.name) encStr16,
    getS16_encS16 _ h1, getS32_encS32 _ h2, get16_enc16 _ h3, get16_enc16 _ hnf, hnf', t1, t2, t3, t4, t5,
    getStr16_enc _ h6, getStr16_enc _ h7, get16_enc16 _ h8, get16_enc16 _ h9, getS16_encS16 _ h10, getS16_encS16 _ h11,
    Option.bind_eq_bind, Option.bind_some, if_false, ne_eq, not_true_eq_false, or_self, zipFields_maps]
  obtain ⟨il, nv, ivs, fields, name, cls, et, er, ver, more, flags, attrs⟩ := v
  simp only at h13 h14 h15 h12 ⊢
  by_cases hv : ver = (VSET_NEW_VERSION : Nat)
  · have hfl : flags ≠ 0 := h13.mp hv
    simp only [hv, hfl, ne_eq, not_false_eq_true, if_true, List.append_assoc, get32_enc32 _ h12, Option.bind_some]
    by_cases ha : flags % 2 = 1
    · obtain ⟨a1, a2⟩ := h14 ha
      simp only [ha, if_true, List.append_assoc, get32_enc32 _ a1, decodeVAttrs_encode _ a2, Option.bind_some, l5]
    · have a0 := h15 ha
      simp only [ha, if_false, List.nil_append, l5, if_true, a0]
  · have hfl : flags = 0 := Decidable.of_not_not (fun hc => hv (h13.mpr hc))
    have a0 : attrs = [] := h15 (by omega)
    simp only [hv, hfl, ne_eq, not_true_eq_false, if_false, List.nil_append, l5, if_true, a0]

end H4.Format

namespace H4.Format
open H4.Gen.Hdf H4.Gen.Fmt

/-! ### Vgroup record -/

def VG.WF (g : VG) : Prop :=
  g.members.length < 65536 ∧ (∀ m ∈ g.members, m.1 < 65536 ∧ m.2 < 65536) ∧ g.name.length < 65536 ∧ g.cls.length < 65536 ∧
  g.extag < 65536 ∧ g.exref < 65536 ∧ S16 g.version ∧ S16 g.more ∧ g.flags < 4294967296 ∧
  (g.flags ≠ 0 → g.version = (VSET_NEW_VERSION : Nat)) ∧
  (g.flags % 2 = 1 → g.attrs.length < 4294967296 ∧ ∀ a ∈ g.attrs, a.1 < 65536 ∧ a.2 < 65536) ∧ (g.flags % 2 ≠ 1 → g.attrs = [])

theorem getPairs16_encode (l : List (Nat × Nat)) (h : ∀ a ∈ l, a.1 < 65536 ∧ a.2 < 65536) (r : Bytes) :
    getPairs16 l.length (l.flatMap (fun a => enc16 a.1 ++ enc16 a.2) ++ r) = some (l, r) := by
  induction l with
  | nil => simp [getPairs16]
  | cons a t ih =>
    obtain ⟨h1, h2⟩ := h a (by simp)
    have ht := ih (fun x hx => h x (by simp [hx]))
    simp only [List.length_cons, List.flatMap_cons, List.append_assoc, getPairs16, get16_enc16 _ h1, get16_enc16 _ h2, ht,
      Option.bind_eq_bind, Option.bind_some]

theorem zip_maps {α β} (l : List (α × β)) : (l.map (·.1)).zip (l.map (·.2)) = l := by
  induction l with
  | nil => rfl
  | cons a t ih => simp only [List.map_cons, List.zip_cons_cons, ih]

def vgFront (g : VG) : Bytes :=
  enc16 g.members.length ++ g.members.flatMap (fun m => enc16 m.1) ++ g.members.flatMap (fun m => enc16 m.2) ++
  encStr16 g.name ++ encStr16 g.cls ++ enc16 g.extag ++ enc16 g.exref ++
  (if g.flags ≠ 0 ∨ g.version = (VSET_NEW_VERSION : Nat) then
     enc32 g.flags ++ (if g.flags % 2 = 1 then enc32 g.attrs.length ++ g.attrs.flatMap (fun a => enc16 a.1 ++ enc16 a.2) else [])
   else [])
def vgTail (g : VG) : Bytes :=
  encS16 (if g.flags ≠ 0 ∨ g.version = (VSET_NEW_VERSION : Nat) then (VSET_NEW_VERSION : Nat) else g.version) ++ encS16 g.more ++ [0]

theorem vpackvg_split (g : VG) : vpackvg g = vgFront g ++ vgTail g := by
  simp only [vpackvg, vgFront, vgTail, List.append_assoc]
theorem vgTail_length (g : VG) : (vgTail g).length = 5 := rfl

/-- the version actually written equals the version of a well-formed record -/
theorem VG.WF.version_written {g : VG} (h : g.WF) :
    (if g.flags ≠ 0 ∨ g.version = (VSET_NEW_VERSION : Nat) then ((VSET_NEW_VERSION : Nat) : Int) else g.version) = g.version := by
  obtain ⟨_, _, _, _, _, _, _, _, _, h10, _, _⟩ := h
  split
  · rename_i c; rcases c with c | c
    · exact (h10 c).symm
    · exact c.symm
  · rfl

theorem vunpackvg_vpackvg (g : VG) (h : g.WF) : vunpackvg (vpackvg g) = some g := by
  have hver := h.version_written
  obtain ⟨h1, h2, h3, h4, h5, h6, h7, h8, h9, h10, h11, h12⟩ := h
  have hlen : ¬ (vpackvg g).length < 5 := by
    rw [vpackvg_split, List.length_append, vgTail_length]; omega
  have hdrop : (vpackvg g).drop ((vpackvg g).length - 5) = vgTail g := by
    rw [vpackvg_split]; exact drop_tail5 _ _ (vgTail_length g)
  have ht1 : ∀ x ∈ g.members.map (·.1), x < 65536 := by
    intro x hx; obtain ⟨f, hf, rfl⟩ := List.mem_map.mp hx; exact (h2 f hf).1
  have ht2 : ∀ x ∈ g.members.map (·.2), x < 65536 := by
    intro x hx; obtain ⟨f, hf, rfl⟩ := List.mem_map.mp hx; exact (h2 f hf).2
  have t1 := get16s_flatMap (g.members.map (·.1)) ht1
  have t2 := get16s_flatMap (g.members.map (·.2)) ht2
  simp only [List.length_map] at t1 t2
  have tl1 : getS16 (vgTail g) = some (g.version, encS16 g.more ++ [0]) := by
    simp only [vgTail, List.append_assoc, hver, getS16_encS16 _ h7]
  have tl2 : getS16 (encS16 g.more ++ [0]) = some (g.more, [0]) := getS16_encS16 _ h8 _
  have l5 : ∀ a b : Int, (encS16 a ++ (encS16 b ++ [0])).length = 5 := fun _ _ => rfl
  unfold vunpackvg
  simp only [hlen, if_false, hdrop, tl1, tl2, Option.bind_eq_bind, Option.bind_some]
  simp only [vpackvg, hver, List.append_assoc, flatMap_map g.members (·.1) enc16, flatMap_map g.members (·.2) enc16,
    get16_enc16 _ h1, t1, t2, getStr16_enc _ h3, getStr16_enc _ h4, get16_enc16 _ h5, get16_enc16 _ h6,
    Option.bind_eq_bind, Option.bind_some, zip_maps]
  obtain ⟨members, name, cls, et, er, ver, more, flags, attrs⟩ := g
  simp only at h9 h10 h11 h12 ⊢
  by_cases hv : ver = (VSET_NEW_VERSION : Nat)
  · simp only [hv, or_true, if_true, List.append_assoc, get32_enc32 _ h9, Option.bind_some]
    by_cases ha : flags % 2 = 1
    · obtain ⟨a1, a2⟩ := h11 ha
      simp only [ha, if_true, List.append_assoc, get32_enc32 _ a1, getPairs16_encode _ a2, Option.bind_some, l5]
    · have a0 := h12 ha
      simp only [ha, if_false, List.nil_append, l5, if_true, a0]
  · have hfl : flags = 0 := Decidable.of_not_not (fun hc => hv (h10 hc))
    have a0 : attrs = [] := h12 (by omega)
    simp only [hv, hfl, ne_eq, not_true_eq_false, or_self, if_false, List.nil_append, l5, if_true, a0]

/-! ### version record -/
def Version.WF (v : Version) : Prop := v.major < 4294967296 ∧ v.minor < 4294967296 ∧ v.release < 4294967296 ∧ v.str.length = LIBVSTR_LEN

theorem decodeVersion_encode (v : Version) (h : v.WF) : decodeVersion (encodeVersion v) = some v := by
  obtain ⟨h1, h2, h3, h4⟩ := h
  simp only [decodeVersion, encodeVersion, List.append_assoc, get32_enc32 _ h1, get32_enc32 _ h2, get32_enc32 _ h3,
    Option.bind_eq_bind, Option.bind_some, h4, if_true]

end H4.Format
