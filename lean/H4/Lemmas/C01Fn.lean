import H4.ElemFn
import H4.Gen.Fn.Hfile2
import H4.Lemmas.ElemWorld
import H4.Lemmas.ElemDD
/-! Helpers for the function-level Tie A of `hdf/src/hfile.c` (unit `H4.Gen.Fn.Hfile2`): the encoding of a model access record /
    descriptor / file record as the entry fields of the translated functions, result codes, the codes of the call log. -/
namespace H4.Lemmas.C01Fn
open H4 H4.Elem H4.Gen.Hdf H4.ElemFn
export H4.ElemFn (b2i resCode readLen seekOff fits32 hseekI htruncI hsetlengthI hwriteNeg)

/-! codes of the rows of the call log `calls` (`call_specs` of unit Hfile in gen/gen.py) -/
def cINQ : Int := 1      -- HTPinquire(ddid, …)
def cUPD : Int := 2      -- HTPupdate(ddid, offset, length)
def cSEEK : Int := 3     -- HPseek(file_rec, offset)
def cREAD : Int := 4     -- HP_read(file_rec, buf, bytes)
def cWRITE : Int := 5    -- HP_write(file_rec, buf, bytes)
def cCONV : Int := 6     -- HLconvert(aid, block_size, num_blocks)
def cBLOCK : Int := 7    -- HPgetdiskblock(file_rec, size, moveto)
def cRESEEK : Int := 8   -- Hseek(aid, offset, origin) on the converted element
def cREWRITE : Int := 9  -- Hwrite(aid, length, data) on the converted element

theorem consts : DF_START = 0 ∧ DF_CURRENT = 1 ∧ DF_END = 2 ∧ DFACC_WRITE = 2 ∧ INVALID_OFFSET = -1 ∧ INVALID_LENGTH = -1 := by decide

theorem ddLen_cases (d : DD) : (d.ext = none ∧ ddLen d = -1 ∧ ddOff d = -1) ∨ (∃ o l : Nat, d.ext = some (o, l) ∧ ddLen d = l ∧ ddOff d = o) := by
  unfold ddLen ddOff
  cases h : d.ext with
  | none => left; simp [INVALID_LENGTH, INVALID_OFFSET]
  | some p => right; exact ⟨p.1, p.2, rfl, rfl, rfl⟩

/-- `hseek` / `Hseek` take the promotion branch (`HLconvert`, then the seek on the linked-block element) -/
def seekPromotes (a : Acc) (f : File) (offset : Int) (origin : Nat) : Prop :=
  origin ≤ 2 ∧ fits32 (seekOff a (f.dd a.slot) offset origin) ∧ seekOff a (f.dd a.slot) offset origin ≠ a.posn ∧ 0 ≤ seekOff a (f.dd a.slot) offset origin ∧ a.appendable = true ∧
  seekOff a (f.dd a.slot) offset origin ≥ ddLen (f.dd a.slot) ∧ ddLen (f.dd a.slot) + ddOff (f.dd a.slot) ≠ f.endOff

instance (a : Acc) (f : File) (offset : Int) (origin : Nat) : Decidable (seekPromotes a f offset origin) := by
  unfold seekPromotes; infer_instance

/-- `DFACC_WRITE` is set in the access word of the C access record exactly when the model record may write -/
def WriteBit (acc : Nat) (a : Acc) : Prop := (acc &&& 2 ≠ 0) ↔ a.canWrite = true

instance (acc : Nat) (a : Acc) : Decidable (WriteBit acc a) := by unfold WriteBit; infer_instance

/-- the DD of the access record and the end of file in the model's file `f'`, as C integers -/
def ddView (f' : File) (slot : Nat) : Int × Int × Int := (ddOff (f'.dd slot), ddLen (f'.dd slot), f'.endOff)

theorem refresh_acc (w : World) (h : Nat) (a : Acc) (hw : w.acc h = some a) :
    (w.refresh h).acc h = some (a.refresh (w.file a.file)) := by
  unfold World.refresh
  rw [hw]
  by_cases e : a.refresh (w.file a.file) = a
  · simp [e, hw]
  · simp [e, acc_setAcc]

theorem refresh_file (w : World) (h i : Nat) : (w.refresh h).file i = w.file i := by
  unfold World.refresh
  cases hw : w.acc h with
  | none => rfl
  | some a =>
    by_cases e : a.refresh (w.file a.file) = a
    · simp [e]
    · simp [e, file_setAcc]

theorem refresh_files (w : World) (h : Nat) : (w.refresh h).files = w.files := by
  unfold World.refresh
  cases hw : w.acc h with
  | none => rfl
  | some a =>
    by_cases e : a.refresh (w.file a.file) = a
    · simp [e]
    · simp [e, files_setAcc]

/-- the file the model's `File.setLength` produces, seen through `ddView` -/
theorem setLength_view (w : World) (i slot n : Nat) (f : File) (hi : i < w.files.length) (hs : slot < f.mem.length) :
    ddView ((w.setFile i (f.setLength slot n).1).file i) slot = ((f.endOff : Int), (n : Int), ((f.endOff : Int) + n)) := by
  rw [file_setFile_same _ _ _ hi]
  unfold File.setLength ddView
  simp only []
  rw [ddSetExt_dd _ _ _ _ (by rw [getDiskBlock_mem]; exact hs), ddSetExt_endOff _ _ _ (by rw [getDiskBlock_mem]; exact hs), getDiskBlock_endOff]
  simp [ddOff, ddLen, getDiskBlock_off]

end H4.Lemmas.C01Fn
