import H4.MCache

/-! Helper lemmas for `H4.MCache`: structural invariant `Inv`, refinement relation `Rel`, and their preservation by
every elementary state change and every `mcache_*` function of the model. -/
namespace H4.MCache
open H4.Gen.Mcache

/-- the constants the proofs rely on (regenerated from `mcache_priv.h` on every run) -/
theorem consts : MCACHE_DIRTY = 1 ∧ MCACHE_PINNED = 2 ∧ ELEM_READ = 1 ∧ ELEM_WRITTEN = 2 ∧ ELEM_SYNC = 3 ∧
    DEF_MAXCACHE = 1 ∧ HASHSIZE = 128 := by decide

/- `hashKey` is an arbitrary function as far as the proofs are concerned -/
attribute [local irreducible] hashKey

@[simp] theorem upd_same {α : Type} (f : Nat → α) (k : Nat) (v : α) : upd f k v k = v := by simp [upd]
theorem upd_other {α : Type} (f : Nat → α) {k j : Nat} (v : α) (h : j ≠ k) : upd f k v j = f j := by simp [upd, h]
theorem upd_apply {α : Type} (f : Nat → α) (k j : Nat) (v : α) : upd f k v j = if j = k then v else f j := rfl

/-! ### list elements (`L_ELEM`) -/

/-- chain `l` has an element of page `pg` -/
def lelemHas (l : List (Nat × Nat)) (pg : Nat) : Prop := ∃ e ∈ l, e.1 = pg
/-- chain `l` has an element of page `pg` with `eflags != 0` (page "exists on disk": `mcache_get` will `pgin` it) -/
def lelemNZ (l : List (Nat × Nat)) (pg : Nat) : Prop := ∃ e ∈ l, e.1 = pg ∧ e.2 ≠ 0

theorem lelemNZ.has {l pg} (h : lelemNZ l pg) : lelemHas l pg := by
  obtain ⟨e, he, h1, _⟩ := h; exact ⟨e, he, h1⟩

theorem lelemHas_updFirst (p : Nat × Nat → Bool) (ef : Nat) (l : List (Nat × Nat)) (pg : Nat) :
    lelemHas (updFirst p (fun e => (e.1, ef)) l) pg ↔ lelemHas l pg := by
  induction l with
  | nil => simp [updFirst]
  | cons a l ih =>
    unfold updFirst
    split
    · simp [lelemHas]
    · simp only [lelemHas, List.mem_cons, exists_eq_or_imp] at ih ⊢
      rw [ih]

theorem lelemNZ_updFirst_mono (p : Nat × Nat → Bool) {ef : Nat} (hef : ef ≠ 0) {l : List (Nat × Nat)} {pg : Nat}
    (h : lelemNZ l pg) : lelemNZ (updFirst p (fun e => (e.1, ef)) l) pg := by
  induction l with
  | nil => simp [lelemNZ] at h
  | cons a l ih =>
    unfold updFirst
    obtain ⟨e, he, h1, h2⟩ := h
    rcases List.mem_cons.1 he with rfl | he
    · split
      · exact ⟨(e.1, ef), by simp, h1, hef⟩
      · exact ⟨e, by simp, h1, h2⟩
    · split
      · exact ⟨e, by simp [he], h1, h2⟩
      · obtain ⟨e', he', h1', h2'⟩ := ih ⟨e, he, h1, h2⟩
        exact ⟨e', by simp [he'], h1', h2'⟩

theorem lelemNZ_updFirst_isPg {ef : Nat} (hef : ef ≠ 0) {l : List (Nat × Nat)} {pg : Nat}
    (h : lelemHas l pg) : lelemNZ (updFirst (isPg pg) (fun e => (e.1, ef)) l) pg := by
  induction l with
  | nil => simp [lelemHas] at h
  | cons a l ih =>
    unfold updFirst
    by_cases ha : isPg pg a = true
    · simp only [ha, if_true]
      exact ⟨(a.1, ef), by simp, by simpa [isPg] using ha, hef⟩
    · simp only [ha]
      obtain ⟨e, he, h1⟩ := h
      rcases List.mem_cons.1 he with rfl | he
      · exact absurd (by simpa [isPg] using h1) ha
      · obtain ⟨e', he', h1', h2'⟩ := ih ⟨e, he, h1⟩
        exact ⟨e', by simp [he'], h1', h2'⟩

theorem any_isPgNZ_iff (l : List (Nat × Nat)) (pg : Nat) : l.any (isPgNZ pg) = true ↔ lelemNZ l pg := by
  simp [lelemNZ, isPgNZ, List.any_eq_true]


/-! ### structural invariant -/

/-- every cached page number sits exactly once on the LRU queue and exactly once on the hash chain of its key (and on no
other chain), is in range, has a list element; `curcache` counts at least the linked buckets. -/
structure Inv (s : State) : Prop where
  lru_nodup : s.lru.Nodup
  lru_iff : ∀ pg, pg ∈ s.lru ↔ (s.pages pg).isSome = true
  hqh_iff : ∀ k pg, pg ∈ s.hqh k ↔ ((s.pages pg).isSome = true ∧ hashKey pg = k)
  hqh_nodup : ∀ k, (s.hqh k).Nodup
  range : ∀ pg, (s.pages pg).isSome = true → 1 ≤ pg ∧ pg ≤ s.npages
  lelem : ∀ pg, (s.pages pg).isSome = true → lelemHas (s.lhqh (hashKey pg)) pg
  cur : s.lru.length ≤ s.curcache

theorem isSome_upd_some (f : Nat → Option Bkt) {pg : Nat} (b : Bkt) (h : (f pg).isSome = true) (pg' : Nat) :
    (upd f pg (some b) pg').isSome = (f pg').isSome := by
  by_cases e : pg' = pg
  · subst e; simp [h]
  · simp [upd_other _ _ e]

theorem inv_logIo {s : State} (h : Inv s) (io : Io) : Inv (logIo s io) :=
  ⟨h.lru_nodup, h.lru_iff, h.hqh_iff, h.hqh_nodup, h.range, h.lelem, h.cur⟩

theorem inv_grow {s : State} (h : Inv s) : Inv (grow s) :=
  ⟨h.lru_nodup, h.lru_iff, h.hqh_iff, h.hqh_nodup, h.range, h.lelem, Nat.le_succ_of_le h.cur⟩

theorem lelemHas_setEflags (s : State) (p : Nat × Nat → Bool) (pg ef k pg' : Nat) :
    lelemHas ((setEflags s p pg ef).lhqh k) pg' ↔ lelemHas (s.lhqh k) pg' := by
  simp only [setEflags, upd_apply]
  split
  · rename_i e; subst e; exact lelemHas_updFirst _ _ _ _
  · exact Iff.rfl

theorem lelemNZ_setEflags_mono (s : State) (p : Nat × Nat → Bool) (pg : Nat) {ef : Nat} (hef : ef ≠ 0) {k pg' : Nat}
    (h : lelemNZ (s.lhqh k) pg') : lelemNZ ((setEflags s p pg ef).lhqh k) pg' := by
  simp only [setEflags, upd_apply]
  split
  · rename_i e; subst e; exact lelemNZ_updFirst_mono _ hef h
  · exact h

theorem inv_setEflags {s : State} (h : Inv s) (p : Nat × Nat → Bool) (pg ef : Nat) : Inv (setEflags s p pg ef) :=
  ⟨h.lru_nodup, h.lru_iff, h.hqh_iff, h.hqh_nodup, h.range,
   fun pg' hc => (lelemHas_setEflags s p pg ef _ pg').2 (h.lelem pg' hc), h.cur⟩

theorem lelemHas_consElem {s : State} {pg k pg' : Nat} (h : lelemHas (s.lhqh k) pg') : lelemHas ((consElem s pg).lhqh k) pg' := by
  simp only [consElem, upd_apply]
  split
  · rename_i e; subst e
    obtain ⟨x, hx, h1⟩ := h
    exact ⟨x, by simp [hx], h1⟩
  · exact h

theorem lelemNZ_consElem {s : State} {pg k pg' : Nat} (h : lelemNZ (s.lhqh k) pg') : lelemNZ ((consElem s pg).lhqh k) pg' := by
  simp only [consElem, upd_apply]
  split
  · rename_i e; subst e
    obtain ⟨x, hx, h1⟩ := h
    exact ⟨x, by simp [hx], h1⟩
  · exact h

theorem lelemHas_consElem_self (s : State) (pg : Nat) : lelemHas ((consElem s pg).lhqh (hashKey pg)) pg := by
  simp only [consElem, upd_same]
  exact ⟨(pg, 0), by simp, rfl⟩

theorem inv_consElem {s : State} (h : Inv s) (pg : Nat) : Inv (consElem s pg) :=
  ⟨h.lru_nodup, h.lru_iff, h.hqh_iff, h.hqh_nodup, h.range, fun pg' hc => lelemHas_consElem (h.lelem pg' hc), h.cur⟩

theorem inv_setBkt {s : State} (h : Inv s) {pg : Nat} (b : Bkt) (hc : (s.pages pg).isSome = true) : Inv (setBkt s pg b) := by
  have e : ∀ pg', ((setBkt s pg b).pages pg').isSome = (s.pages pg').isSome := isSome_upd_some _ b hc
  refine ⟨h.lru_nodup, ?_, ?_, h.hqh_nodup, ?_, ?_, h.cur⟩
  · intro pg'; rw [e]; exact h.lru_iff pg'
  · intro k pg'; rw [e]; exact h.hqh_iff k pg'
  · intro pg'; rw [e]; exact h.range pg'
  · intro pg'; rw [e]; exact h.lelem pg'

theorem inv_cleanPage {s : State} (h : Inv s) {pg : Nat} (b : Bkt) (hc : (s.pages pg).isSome = true) : Inv (cleanPage s pg b) := by
  have e : ∀ pg', ((cleanPage s pg b).pages pg').isSome = (s.pages pg').isSome := isSome_upd_some _ _ hc
  refine ⟨h.lru_nodup, ?_, ?_, h.hqh_nodup, ?_, ?_, h.cur⟩
  · intro pg'; rw [e]; exact h.lru_iff pg'
  · intro k pg'; rw [e]; exact h.hqh_iff k pg'
  · intro pg'; rw [e]; exact h.range pg'
  · intro pg'; rw [e]; exact h.lelem pg'

theorem isSome_upd_none (f : Nat → Option Bkt) (pg pg' : Nat) :
    (upd f pg none pg').isSome = true ↔ (pg' ≠ pg ∧ (f pg').isSome = true) := by
  by_cases e : pg' = pg
  · subst e; simp
  · simp [upd_other _ _ e, e]

theorem inv_unlink {s : State} (h : Inv s) (pg : Nat) : Inv (unlink s pg) := by
  refine ⟨h.lru_nodup.erase pg, ?_, ?_, ?_, ?_, ?_, ?_⟩
  · intro pg'
    show pg' ∈ s.lru.erase pg ↔ (upd s.pages pg none pg').isSome = true
    rw [h.lru_nodup.mem_erase_iff, isSome_upd_none, h.lru_iff]
  · intro k pg'
    show pg' ∈ upd s.hqh (hashKey pg) ((s.hqh (hashKey pg)).erase pg) k ↔ (upd s.pages pg none pg').isSome = true ∧ hashKey pg' = k
    rw [isSome_upd_none, upd_apply]
    split
    · rename_i e; subst e
      rw [(h.hqh_nodup _).mem_erase_iff, h.hqh_iff]; exact ⟨fun ⟨a, b, c⟩ => ⟨⟨a, b⟩, c⟩, fun ⟨⟨a, b⟩, c⟩ => ⟨a, b, c⟩⟩
    · rename_i e
      rw [h.hqh_iff]
      constructor
      · rintro ⟨h1, h2⟩
        refine ⟨⟨?_, h1⟩, h2⟩
        rintro rfl; exact e h2.symm
      · rintro ⟨⟨_, h1⟩, h2⟩; exact ⟨h1, h2⟩
  · intro k
    show (upd s.hqh (hashKey pg) ((s.hqh (hashKey pg)).erase pg) k).Nodup
    rw [upd_apply]; split
    · exact (h.hqh_nodup _).erase pg
    · exact h.hqh_nodup k
  · intro pg' hc
    exact h.range pg' ((isSome_upd_none _ _ _).1 hc).2
  · intro pg' hc
    exact h.lelem pg' ((isSome_upd_none _ _ _).1 hc).2
  · exact Nat.le_trans (List.length_erase_le) h.cur

theorem isSome_upd_some' (f : Nat → Option Bkt) (pg : Nat) (b : Bkt) (pg' : Nat) :
    (upd f pg (some b) pg').isSome = true ↔ (pg' = pg ∨ (f pg').isSome = true) := by
  by_cases e : pg' = pg
  · subst e; simp
  · simp [upd_other _ _ e, e]

theorem inv_insertPage {s : State} (h : Inv s) {pg : Nat} (c : Nat) (hn : s.pages pg = none)
    (h1 : 1 ≤ pg) (h2 : pg ≤ s.npages) (hl : lelemHas (s.lhqh (hashKey pg)) pg) (hcur : s.lru.length < s.curcache) :
    Inv (insertPage s pg c) := by
  have hnl : pg ∉ s.lru := by rw [h.lru_iff, hn]; simp
  refine ⟨?_, ?_, ?_, ?_, ?_, ?_, ?_⟩
  · show (s.lru ++ [pg]).Nodup
    rw [List.nodup_append]
    refine ⟨h.lru_nodup, by simp, ?_⟩
    intro a ha b hb
    simp at hb; subst hb
    rintro rfl; exact hnl ha
  · intro pg'
    show pg' ∈ s.lru ++ [pg] ↔ (upd s.pages pg _ pg').isSome = true
    rw [isSome_upd_some', List.mem_append, h.lru_iff]; simp [or_comm]
  · intro k pg'
    show pg' ∈ upd s.hqh (hashKey pg) (pg :: s.hqh (hashKey pg)) k ↔ (upd s.pages pg _ pg').isSome = true ∧ hashKey pg' = k
    rw [isSome_upd_some', upd_apply]
    split
    · rename_i e; subst e
      rw [List.mem_cons, h.hqh_iff]
      constructor
      · rintro (rfl | ⟨a, b⟩)
        · exact ⟨Or.inl rfl, rfl⟩
        · exact ⟨Or.inr a, b⟩
      · rintro ⟨rfl | a, b⟩
        · exact Or.inl rfl
        · exact Or.inr ⟨a, b⟩
    · rename_i e
      rw [h.hqh_iff]
      constructor
      · rintro ⟨a, b⟩; exact ⟨Or.inr a, b⟩
      · rintro ⟨rfl | a, b⟩
        · exact absurd b.symm e
        · exact ⟨a, b⟩
  · intro k
    show (upd s.hqh (hashKey pg) (pg :: s.hqh (hashKey pg)) k).Nodup
    rw [upd_apply]; split
    · rename_i e
      refine List.nodup_cons.2 ⟨?_, h.hqh_nodup _⟩
      rw [h.hqh_iff, hn]; simp
    · exact h.hqh_nodup k
  · intro pg' hc
    rcases (isSome_upd_some' _ _ _ _).1 hc with rfl | hc
    · exact ⟨h1, h2⟩
    · exact h.range pg' hc
  · intro pg' hc
    rcases (isSome_upd_some' _ _ _ _).1 hc with rfl | hc
    · exact hl
    · exact h.lelem pg' hc
  · show (s.lru ++ [pg]).length ≤ s.curcache
    simp; omega

theorem inv_touch {s : State} (h : Inv s) {pg : Nat} {b : Bkt} (hb : s.pages pg = some b) : Inv (touch s pg b) := by
  have hc : (s.pages pg).isSome = true := by simp [hb]
  have e : ∀ pg', ((touch s pg b).pages pg').isSome = (s.pages pg').isSome := isSome_upd_some _ _ hc
  have hin : pg ∈ s.lru := (h.lru_iff pg).2 hc
  refine ⟨?_, ?_, ?_, ?_, ?_, ?_, ?_⟩
  · show (s.lru.erase pg ++ [pg]).Nodup
    rw [List.nodup_append]
    refine ⟨h.lru_nodup.erase pg, by simp, ?_⟩
    intro a ha b' hb'
    simp at hb'; subst hb'
    rintro rfl
    exact ((h.lru_nodup.mem_erase_iff).1 ha).1 rfl
  · intro pg'
    rw [e]
    show pg' ∈ s.lru.erase pg ++ [pg] ↔ _
    rw [List.mem_append, h.lru_nodup.mem_erase_iff, ← h.lru_iff]
    simp
    constructor
    · rintro (⟨_, a⟩ | rfl)
      · exact a
      · exact hin
    · intro a
      by_cases e' : pg' = pg
      · exact Or.inr e'
      · exact Or.inl ⟨e', a⟩
  · intro k pg'
    rw [e, ← h.hqh_iff]
    show pg' ∈ upd s.hqh (hashKey pg) (pg :: (s.hqh (hashKey pg)).erase pg) k ↔ _
    rw [upd_apply]; split
    · rename_i e'; subst e'
      rw [List.mem_cons, (h.hqh_nodup _).mem_erase_iff]
      constructor
      · rintro (rfl | ⟨_, a⟩)
        · exact (h.hqh_iff _ _).2 ⟨hc, rfl⟩
        · exact a
      · intro a
        by_cases e' : pg' = pg
        · exact Or.inl e'
        · exact Or.inr ⟨e', a⟩
    · exact Iff.rfl
  · intro k
    show (upd s.hqh (hashKey pg) (pg :: (s.hqh (hashKey pg)).erase pg) k).Nodup
    rw [upd_apply]; split
    · refine List.nodup_cons.2 ⟨?_, (h.hqh_nodup _).erase pg⟩
      rw [(h.hqh_nodup _).mem_erase_iff]; simp
    · exact h.hqh_nodup k
  · intro pg'; rw [e]; exact h.range pg'
  · intro pg'; rw [e]; exact h.lelem pg'
  · show (s.lru.erase pg ++ [pg]).length ≤ s.curcache
    have := List.length_erase_of_mem hin
    have hpos : 0 < s.lru.length := List.length_pos_of_mem hin
    have := h.cur
    simp; omega


/-! ### refinement relation between a cache state and the plain map `m : pgno ⇀ page` -/

/-- `m` is what a client must see: a cached page holds `m pg`; a CLEAN cached page and an uncached page have `m pg` in the
backing store as well; a dirty page is always defined in `m`; every page defined in `m` has a list element with
`eflags != 0`, so a miss will `pgin` it instead of handing out an uninitialised buffer. -/
structure Rel (s : State) (m : Nat → Option Nat) : Prop where
  inv : Inv s
  val_c : ∀ pg v b, m pg = some v → s.pages pg = some b → b.data = v ∧ (b.dirty = false → s.backing pg = v)
  val_n : ∀ pg v, m pg = some v → s.pages pg = none → s.backing pg = v
  dirty : ∀ pg b, s.pages pg = some b → b.dirty = true → (m pg).isSome = true
  nz : ∀ pg v, m pg = some v → lelemNZ (s.lhqh (hashKey pg)) pg

theorem rel_logIo {s : State} {m : Nat → Option Nat} (h : Rel s m) (io : Io) : Rel (logIo s io) m :=
  ⟨inv_logIo h.inv io, h.val_c, h.val_n, h.dirty, h.nz⟩

theorem rel_grow {s : State} {m : Nat → Option Nat} (h : Rel s m) : Rel (grow s) m :=
  ⟨inv_grow h.inv, h.val_c, h.val_n, h.dirty, h.nz⟩

theorem rel_setEflags {s : State} {m : Nat → Option Nat} (h : Rel s m) (p : Nat × Nat → Bool) (pg : Nat) {ef : Nat}
    (hef : ef ≠ 0) : Rel (setEflags s p pg ef) m :=
  ⟨inv_setEflags h.inv p pg ef, h.val_c, h.val_n, h.dirty, fun pg' v hv => lelemNZ_setEflags_mono s p pg hef (h.nz pg' v hv)⟩

theorem rel_consElem {s : State} {m : Nat → Option Nat} (h : Rel s m) (pg : Nat) : Rel (consElem s pg) m :=
  ⟨inv_consElem h.inv pg, h.val_c, h.val_n, h.dirty, fun pg' v hv => lelemNZ_consElem (h.nz pg' v hv)⟩

theorem rel_cleanPage {s : State} {m : Nat → Option Nat} (h : Rel s m) {pg : Nat} {b : Bkt} (hb : s.pages pg = some b) :
    Rel (cleanPage s pg b) m := by
  have hc : (s.pages pg).isSome = true := by simp [hb]
  refine ⟨inv_cleanPage h.inv b hc, ?_, ?_, ?_, h.nz⟩
  · intro pg' v b' hv hb'
    by_cases e : pg' = pg
    · subst e
      simp only [cleanPage, upd_same, Option.some.injEq] at hb' ⊢
      subst hb'
      have := (h.val_c _ v b hv hb).1
      exact ⟨this, fun _ => this⟩
    · simp only [cleanPage, upd_other _ _ e] at hb' ⊢
      exact h.val_c pg' v b' hv hb'
  · intro pg' v hv hn
    by_cases e : pg' = pg
    · subst e; simp [cleanPage] at hn
    · simp only [cleanPage, upd_other _ _ e] at hn ⊢
      exact h.val_n pg' v hv hn
  · intro pg' b' hb' hd
    by_cases e : pg' = pg
    · subst e
      simp only [cleanPage, upd_same, Option.some.injEq] at hb'
      subst hb'; simp at hd
    · simp only [cleanPage, upd_other _ _ e] at hb'
      exact h.dirty pg' b' hb' hd

theorem rel_unlink {s : State} {m : Nat → Option Nat} (h : Rel s m) {pg : Nat} {b : Bkt} (hb : s.pages pg = some b)
    (hd : b.dirty = false) : Rel (unlink s pg) m := by
  refine ⟨inv_unlink h.inv pg, ?_, ?_, ?_, h.nz⟩
  · intro pg' v b' hv hb'
    by_cases e : pg' = pg
    · subst e; simp [unlink] at hb'
    · simp only [unlink, upd_other _ _ e] at hb' ⊢
      exact h.val_c pg' v b' hv hb'
  · intro pg' v hv hn
    by_cases e : pg' = pg
    · subst e
      exact (h.val_c _ v b hv hb).2 hd
    · simp only [unlink, upd_other _ _ e] at hn ⊢
      exact h.val_n pg' v hv hn
  · intro pg' b' hb' hd'
    by_cases e : pg' = pg
    · subst e; simp [unlink] at hb'
    · simp only [unlink, upd_other _ _ e] at hb'
      exact h.dirty pg' b' hb' hd'

theorem rel_insertPage {s : State} {m : Nat → Option Nat} (h : Rel s m) {pg : Nat} (c : Nat) (hn : s.pages pg = none)
    (h1 : 1 ≤ pg) (h2 : pg ≤ s.npages) (hl : lelemHas (s.lhqh (hashKey pg)) pg) (hcur : s.lru.length < s.curcache)
    (hv : ∀ v, m pg = some v → c = v ∧ s.backing pg = v) : Rel (insertPage s pg c) m := by
  refine ⟨inv_insertPage h.inv c hn h1 h2 hl hcur, ?_, ?_, ?_, h.nz⟩
  · intro pg' v b' hv' hb'
    by_cases e : pg' = pg
    · subst e
      simp only [insertPage, upd_same, Option.some.injEq] at hb'
      subst hb'
      exact ⟨(hv v hv').1, fun _ => (hv v hv').2⟩
    · simp only [insertPage, upd_other _ _ e] at hb' ⊢
      exact h.val_c pg' v b' hv' hb'
  · intro pg' v hv' hn'
    by_cases e : pg' = pg
    · subst e; simp [insertPage] at hn'
    · simp only [insertPage, upd_other _ _ e] at hn' ⊢
      exact h.val_n pg' v hv' hn'
  · intro pg' b' hb' hd'
    by_cases e : pg' = pg
    · subst e
      simp only [insertPage, upd_same, Option.some.injEq] at hb'
      subst hb'; simp at hd'
    · simp only [insertPage, upd_other _ _ e] at hb'
      exact h.dirty pg' b' hb' hd'

theorem rel_touch {s : State} {m : Nat → Option Nat} (h : Rel s m) {pg : Nat} {b : Bkt} (hb : s.pages pg = some b) :
    Rel (touch s pg b) m := by
  refine ⟨inv_touch h.inv hb, ?_, ?_, ?_, h.nz⟩
  · intro pg' v b' hv' hb'
    by_cases e : pg' = pg
    · subst e
      simp only [touch, upd_same, Option.some.injEq] at hb'
      subst hb'
      exact h.val_c _ v b hv' hb
    · simp only [touch, upd_other _ _ e] at hb' ⊢
      exact h.val_c pg' v b' hv' hb'
  · intro pg' v hv' hn'
    by_cases e : pg' = pg
    · subst e; simp [touch] at hn'
    · simp only [touch, upd_other _ _ e] at hn' ⊢
      exact h.val_n pg' v hv' hn'
  · intro pg' b' hb' hd'
    by_cases e : pg' = pg
    · subst e
      simp only [touch, upd_same, Option.some.injEq] at hb'
      subst hb'
      exact h.dirty _ b hb hd'
    · simp only [touch, upd_other _ _ e] at hb'
      exact h.dirty pg' b' hb' hd'

/-- flags of a cached bucket change, content and dirtiness do not -/
theorem rel_setBkt_same {s : State} {m : Nat → Option Nat} (h : Rel s m) {pg : Nat} {b b' : Bkt} (hb : s.pages pg = some b)
    (hdata : b'.data = b.data) (hdirty : b'.dirty = b.dirty) : Rel (setBkt s pg b') m := by
  have hc : (s.pages pg).isSome = true := by simp [hb]
  refine ⟨inv_setBkt h.inv b' hc, ?_, ?_, ?_, h.nz⟩
  · intro pg' v b'' hv' hb''
    by_cases e : pg' = pg
    · subst e
      simp only [setBkt, upd_same, Option.some.injEq] at hb''
      subst hb''
      rw [hdata, hdirty]
      exact h.val_c _ v b hv' hb
    · simp only [setBkt, upd_other _ _ e] at hb'' ⊢
      exact h.val_c pg' v b'' hv' hb''
  · intro pg' v hv' hn'
    by_cases e : pg' = pg
    · subst e; simp [setBkt] at hn'
    · simp only [setBkt, upd_other _ _ e] at hn' ⊢
      exact h.val_n pg' v hv' hn'
  · intro pg' b'' hb'' hd'
    by_cases e : pg' = pg
    · subst e
      simp only [setBkt, upd_same, Option.some.injEq] at hb''
      subst hb''
      rw [hdirty] at hd'
      exact h.dirty _ b hb hd'
    · simp only [setBkt, upd_other _ _ e] at hb''
      exact h.dirty pg' b'' hb'' hd'

/-- a cached bucket receives new content and is marked dirty (and its list element gets a non-zero flag): the map is
updated at that page -/
theorem rel_setBkt_dirty {s : State} {m : Nat → Option Nat} (h : Rel s m) {pg : Nat} {b' : Bkt}
    (hc : (s.pages pg).isSome = true) (hd : b'.dirty = true) {ef : Nat} (hef : ef ≠ 0) :
    Rel (setEflags (setBkt s pg b') (isPg pg) pg ef) (upd m pg (some b'.data)) := by
  refine ⟨inv_setEflags (inv_setBkt h.inv b' hc) _ _ _, ?_, ?_, ?_, ?_⟩
  · intro pg' v b'' hv' hb''
    by_cases e : pg' = pg
    · subst e
      simp only [setEflags, setBkt, upd_same, Option.some.injEq] at hb'' hv'
      subst hb''
      exact ⟨hv', fun hf => by rw [hd] at hf; cases hf⟩
    · simp only [setEflags, setBkt, upd_other _ _ e] at hb'' hv' ⊢
      exact h.val_c pg' v b'' hv' hb''
  · intro pg' v hv' hn'
    by_cases e : pg' = pg
    · subst e; simp [setEflags, setBkt] at hn'
    · simp only [setEflags, setBkt, upd_other _ _ e] at hn' hv' ⊢
      exact h.val_n pg' v hv' hn'
  · intro pg' b'' hb'' hd'
    by_cases e : pg' = pg
    · subst e; simp
    · simp only [setEflags, setBkt, upd_other _ _ e] at hb'' ⊢
      exact h.dirty pg' b'' hb'' hd'
  · intro pg' v hv'
    by_cases e : pg' = pg
    · subst e
      have hl : lelemHas ((setBkt s pg' b').lhqh (hashKey pg')) pg' := h.inv.lelem pg' hc
      simp only [setEflags, upd_same]
      exact lelemNZ_updFirst_isPg hef hl
    · simp only [upd_other _ _ e] at hv'
      exact lelemNZ_setEflags_mono _ _ _ hef (h.nz pg' v hv')


/-! ### `mcache_write` -/

theorem mcacheWrite_eq (s : State) (pg : Nat) (b : Bkt) :
    mcacheWrite s pg b =
      if s.outFail pg then (logIo (setEflags s (isPg pg) pg ELEM_SYNC) (Io.pgout (pg - 1) b.data false), false)
      else (cleanPage (logIo (setEflags s (isPg pg) pg ELEM_SYNC) (Io.pgout (pg - 1) b.data true)) pg b, true) := rfl

theorem elem_sync_ne : ELEM_SYNC ≠ 0 := by decide
theorem elem_read_ne : ELEM_READ ≠ 0 := by decide
theorem elem_written_ne : ELEM_WRITTEN ≠ 0 := by decide

theorem mcacheWrite_rel {s : State} {m : Nat → Option Nat} (h : Rel s m) {pg : Nat} {b : Bkt} (hb : s.pages pg = some b) :
    Rel (mcacheWrite s pg b).1 m := by
  rw [mcacheWrite_eq]
  split
  · exact rel_logIo (rel_setEflags h _ _ elem_sync_ne) _
  · exact rel_cleanPage (rel_logIo (rel_setEflags h _ _ elem_sync_ne) _) hb

theorem mcacheWrite_lru (s : State) (pg : Nat) (b : Bkt) : (mcacheWrite s pg b).1.lru = s.lru := by
  rw [mcacheWrite_eq]; split <;> rfl
theorem mcacheWrite_hqh (s : State) (pg : Nat) (b : Bkt) : (mcacheWrite s pg b).1.hqh = s.hqh := by
  rw [mcacheWrite_eq]; split <;> rfl
theorem mcacheWrite_curcache (s : State) (pg : Nat) (b : Bkt) : (mcacheWrite s pg b).1.curcache = s.curcache := by
  rw [mcacheWrite_eq]; split <;> rfl
theorem mcacheWrite_maxcache (s : State) (pg : Nat) (b : Bkt) : (mcacheWrite s pg b).1.maxcache = s.maxcache := by
  rw [mcacheWrite_eq]; split <;> rfl
theorem mcacheWrite_npages (s : State) (pg : Nat) (b : Bkt) : (mcacheWrite s pg b).1.npages = s.npages := by
  rw [mcacheWrite_eq]; split <;> rfl
theorem mcacheWrite_inFail (s : State) (pg : Nat) (b : Bkt) : (mcacheWrite s pg b).1.inFail = s.inFail := by
  rw [mcacheWrite_eq]; split <;> rfl
theorem mcacheWrite_outFail (s : State) (pg : Nat) (b : Bkt) : (mcacheWrite s pg b).1.outFail = s.outFail := by
  rw [mcacheWrite_eq]; split <;> rfl
theorem mcacheWrite_closed (s : State) (pg : Nat) (b : Bkt) : (mcacheWrite s pg b).1.closed = s.closed := by
  rw [mcacheWrite_eq]; split <;> rfl
theorem mcacheWrite_garbage (s : State) (pg : Nat) (b : Bkt) : (mcacheWrite s pg b).1.garbage = s.garbage := by
  rw [mcacheWrite_eq]; split <;> rfl

theorem mcacheWrite_ok {s : State} {pg : Nat} {b : Bkt} (h : (mcacheWrite s pg b).2 = true) :
    s.outFail pg = false ∧ (mcacheWrite s pg b).1.pages = upd s.pages pg (some { b with dirty := false }) ∧
    (mcacheWrite s pg b).1.backing = upd s.backing pg b.data := by
  rw [mcacheWrite_eq] at h ⊢
  split at h
  · cases h
  · rename_i hf
    simp only [hf]
    exact ⟨by simp, rfl, rfl⟩

theorem mcacheWrite_fail {s : State} {pg : Nat} {b : Bkt} (h : (mcacheWrite s pg b).2 = false) :
    s.outFail pg = true ∧ (mcacheWrite s pg b).1.pages = s.pages ∧ (mcacheWrite s pg b).1.backing = s.backing := by
  rw [mcacheWrite_eq] at h ⊢
  split at h
  · rename_i hf
    refine ⟨hf, ?_, ?_⟩ <;> rw [if_pos hf] <;> rfl
  · cases h

theorem mcacheWrite_succeeds {s : State} {pg : Nat} {b : Bkt} (h : s.outFail pg = false) : (mcacheWrite s pg b).2 = true := by
  rw [mcacheWrite_eq]; simp [h]

/-- a write never makes a page appear or disappear -/
theorem mcacheWrite_isSome {s : State} {pg : Nat} {b : Bkt} (hb : s.pages pg = some b) (pg' : Nat) :
    ((mcacheWrite s pg b).1.pages pg').isSome = (s.pages pg').isSome := by
  cases hr : (mcacheWrite s pg b).2
  · rw [(mcacheWrite_fail hr).2.1]
  · rw [(mcacheWrite_ok hr).2.1]
    exact isSome_upd_some _ _ (by simp [hb]) pg'

/-! ### `mcache_bkt` -/

theorem victim_some {s : State} {pg : Nat} {b : Bkt} (h : victim s = some (pg, b)) :
    pg ∈ s.lru ∧ s.pages pg = some b ∧ b.pinned = false := by
  unfold victim at h
  obtain ⟨a, ha, hf⟩ := List.exists_of_findSome?_eq_some h
  split at hf
  · rename_i b' hb'
    split at hf
    · cases hf
    · rename_i hp
      simp only [Option.some.injEq, Prod.mk.injEq] at hf
      obtain ⟨rfl, rfl⟩ := hf
      exact ⟨ha, hb', by simpa using hp⟩
  · cases hf

theorem victim_none {s : State} (h : victim s = none) {pg : Nat} (hp : pg ∈ s.lru) {b : Bkt} (hb : s.pages pg = some b) :
    b.pinned = true := by
  unfold victim at h
  have := List.findSome?_eq_none_iff.1 h pg hp
  simp only [hb] at this
  split at this
  · assumption
  · cases this

theorem mcacheBkt_spec {s : State} {m : Nat → Option Nat} (h : Rel s m) :
    Rel (mcacheBkt s).1 m ∧
    ((mcacheBkt s).2.isSome = true → (mcacheBkt s).1.lru.length < (mcacheBkt s).1.curcache) ∧
    (∀ pg, s.pages pg = none → (mcacheBkt s).1.pages pg = none) ∧
    (mcacheBkt s).1.npages = s.npages ∧ (mcacheBkt s).1.inFail = s.inFail := by
  unfold mcacheBkt
  have hgrow : Rel (grow s) m ∧ ((some s.garbage).isSome = true → (grow s).lru.length < (grow s).curcache) ∧
      (∀ pg, s.pages pg = none → (grow s).pages pg = none) ∧ (grow s).npages = s.npages ∧ (grow s).inFail = s.inFail :=
    ⟨rel_grow h, fun _ => Nat.lt_succ_of_le h.inv.cur, fun _ hn => hn, rfl, rfl⟩
  split
  · exact hgrow
  · split
    · rename_i pg b hv
      obtain ⟨hin, hb, _⟩ := victim_some hv
      have hpos : 0 < s.lru.length := List.length_pos_of_mem hin
      have hcur := h.inv.cur
      by_cases hd : b.dirty = true
      · simp only [hd, if_true]
        cases hr : (mcacheWrite s pg b).2
        · have : mcacheWrite s pg b = ((mcacheWrite s pg b).1, false) := by rw [← hr]
          rw [this]
          refine ⟨mcacheWrite_rel h hb, by simp, ?_, mcacheWrite_npages _ _ _, mcacheWrite_inFail _ _ _⟩
          intro pg' hn
          rw [(mcacheWrite_fail hr).2.1]; exact hn
        · have : mcacheWrite s pg b = ((mcacheWrite s pg b).1, true) := by rw [← hr]
          rw [this]
          have hw := mcacheWrite_ok hr
          have hb1 : (mcacheWrite s pg b).1.pages pg = some { b with dirty := false } := by rw [hw.2.1]; simp
          refine ⟨rel_unlink (mcacheWrite_rel h hb) hb1 rfl, ?_, ?_, mcacheWrite_npages _ _ _, mcacheWrite_inFail _ _ _⟩
          · intro _
            show ((mcacheWrite s pg b).1.lru.erase pg).length < (mcacheWrite s pg b).1.curcache
            rw [mcacheWrite_lru, mcacheWrite_curcache, List.length_erase_of_mem hin]; omega
          · intro pg' hn
            show upd (mcacheWrite s pg b).1.pages pg none pg' = none
            rw [upd_apply]; split
            · rfl
            · rename_i e; rw [hw.2.1, upd_other _ _ e]; exact hn
      · have hd' : b.dirty = false := by simpa using hd
        simp only [hd', Bool.false_eq_true, if_false]
        refine ⟨rel_unlink h hb hd', ?_, ?_, rfl, rfl⟩
        · intro _
          show (s.lru.erase pg).length < s.curcache
          rw [List.length_erase_of_mem hin]; omega
        · intro pg' hn
          show upd s.pages pg none pg' = none
          rw [upd_apply]; split
          · rfl
          · exact hn
    · exact hgrow

/-! ### `mcache_get` -/

theorem look_false {s : State} (h : Inv s) {pg : Nat} (hl : mcacheLook s pg = false) (h2 : pg ≤ s.npages) : s.pages pg = none := by
  unfold mcacheLook at hl
  rw [if_neg (by omega)] at hl
  have : pg ∉ s.hqh (hashKey pg) := by simpa using hl
  rw [h.hqh_iff] at this
  cases hp : s.pages pg with
  | none => rfl
  | some b => exact absurd ⟨by simp [hp], rfl⟩ this

theorem look_true {s : State} (h : Inv s) {pg : Nat} (hl : mcacheLook s pg = true) : (s.pages pg).isSome = true := by
  unfold mcacheLook at hl
  split at hl
  · cases hl
  · have : pg ∈ s.hqh (hashKey pg) := by simpa using hl
    exact ((h.hqh_iff _ _).1 this).1

theorem mcacheGet_spec {s : State} {m : Nat → Option Nat} (h : Rel s m) (pg : Nat) :
    Rel (mcacheGet s pg).1 m ∧ ∀ d, (mcacheGet s pg).2 = some d → ∀ v, m pg = some v → d = v := by
  unfold mcacheGet
  split
  · exact ⟨h, by simp⟩
  · rename_i hr
    have h1 : 1 ≤ pg := by omega
    have h2 : pg ≤ s.npages := by omega
    split
    · split
      · rename_i b hb
        refine ⟨rel_touch h hb, ?_⟩
        intro d hd v hv
        simp only [Option.some.injEq] at hd
        rw [← hd]; exact (h.val_c pg v b hv hb).1
      · exact ⟨h, by simp⟩
    · rename_i hl
      have hn : s.pages pg = none := look_false h.inv (by simpa using hl) h2
      obtain ⟨hr1, hcur, hnone, hnp, _⟩ := mcacheBkt_spec h
      split
      · rename_i s1 he
        rw [he] at hr1
        exact ⟨hr1, by simp⟩
      · rename_i s1 buf he
        rw [he] at hr1 hcur hnone hnp
        simp only at hr1 hcur hnone hnp
        have hn1 : s1.pages pg = none := hnone pg hn
        have hcur1 : s1.lru.length < s1.curcache := hcur rfl
        split
        · rename_i hany
          have hnz : lelemNZ (s1.lhqh (hashKey pg)) pg := (any_isPgNZ_iff _ _).1 hany
          have hr2 := rel_setEflags hr1 (isPgNZ pg) pg elem_read_ne
          dsimp only
          split
          · exact ⟨rel_logIo hr2 _, by simp⟩
          · refine ⟨rel_insertPage (rel_logIo hr2 _) _ hn1 h1 (by rw [← hnp] at h2; exact h2) ?_ hcur1 ?_, ?_⟩
            · exact (lelemHas_setEflags s1 _ _ _ _ _).2 hnz.has
            · intro v hv
              exact ⟨hr1.val_n pg v hv hn1, hr1.val_n pg v hv hn1⟩
            · intro d hd v hv
              simp only [Option.some.injEq] at hd
              rw [← hd]; exact hr1.val_n pg v hv hn1
        · rename_i hany
          have hmn : m pg = none := by
            cases hm : m pg with
            | none => rfl
            | some v => exact absurd ((any_isPgNZ_iff _ _).2 (hr1.nz pg v hm)) hany
          refine ⟨rel_insertPage (rel_consElem hr1 pg) _ hn1 h1 (by rw [← hnp] at h2; exact h2)
            (lelemHas_consElem_self s1 pg) hcur1 ?_, ?_⟩
          · intro v hv; rw [hmn] at hv; cases hv
          · intro d _ v hv; rw [hmn] at hv; cases hv


/-! ### `mcache_put`, client write -/

theorem upd_upd {α : Type} (f : Nat → α) (k : Nat) (a b : α) : upd (upd f k a) k b = upd f k b := by
  funext j; simp only [upd_apply]; split <;> rfl

theorem setBkt_setBkt (s : State) (pg : Nat) (a b : Bkt) : setBkt (setBkt s pg a) pg b = setBkt s pg b := by
  simp [setBkt, upd_upd]

theorem mcachePut_none {s : State} {pg : Nat} (h : s.pages pg = none) (fl : Nat) : mcachePut s pg fl = (s, false) := by
  simp [mcachePut, h]

theorem mcachePut_clean {s : State} {pg : Nat} {b : Bkt} (h : s.pages pg = some b) :
    mcachePut s pg 0 = (if b.dirty then setEflags (setBkt s pg { b with pinned := false }) (isPg pg) pg ELEM_WRITTEN
                        else setBkt s pg { b with pinned := false }, true) := by
  simp only [mcachePut, h]
  cases b with
  | mk d p dd => cases dd <;> simp

theorem mcachePut_dirty {s : State} {pg : Nat} {b : Bkt} (h : s.pages pg = some b) :
    mcachePut s pg MCACHE_DIRTY = (setEflags (setBkt s pg { b with pinned := false, dirty := true }) (isPg pg) pg ELEM_WRITTEN, true) := by
  have : (MCACHE_DIRTY &&& MCACHE_DIRTY != 0) = true := by decide
  simp only [mcachePut, h, this, Bool.or_true, if_true]

theorem mcachePut_clean_rel {s : State} {m : Nat → Option Nat} (h : Rel s m) (pg : Nat) : Rel (mcachePut s pg 0).1 m := by
  cases hp : s.pages pg with
  | none => rw [mcachePut_none hp]; exact h
  | some b =>
    rw [mcachePut_clean hp]
    have h1 : Rel (setBkt s pg { b with pinned := false }) m := rel_setBkt_same h hp rfl rfl
    dsimp only
    split
    · exact rel_setEflags h1 _ _ elem_written_ne
    · exact h1

/-! ### `mcache_sync` -/

theorem syncWalk_spec {m : Nat → Option Nat} : ∀ (l : List Nat) (s : State), Rel s m →
    Rel (syncWalk s l).1 m ∧ (syncWalk s l).1.lru = s.lru ∧
    (∀ pg b, s.pages pg = some b → b.dirty = false → (syncWalk s l).1.pages pg = some b) ∧
    (∀ pg, ((syncWalk s l).1.pages pg).isSome = (s.pages pg).isSome) ∧
    ((syncWalk s l).2 = true → ∀ pg ∈ l, ∀ b, (syncWalk s l).1.pages pg = some b → b.dirty = false)
  | [], s, h => ⟨h, rfl, fun _ _ hb _ => hb, fun _ => rfl, fun _ _ hp => by cases hp⟩
  | pg :: rest, s, h => by
    unfold syncWalk
    cases hp : s.pages pg with
    | none =>
      obtain ⟨i1, i2, i3, i4, i5⟩ := syncWalk_spec rest s h
      refine ⟨i1, i2, i3, i4, ?_⟩
      intro hok pg' hin b' hb'
      rcases List.mem_cons.1 hin with rfl | hin
      · have := i4 pg'; rw [hb', hp] at this; cases this
      · exact i5 hok pg' hin b' hb'
    | some b =>
      dsimp only
      by_cases hd : b.dirty = true
      · rw [if_pos hd]
        cases hr : (mcacheWrite s pg b).2
        · have e : mcacheWrite s pg b = ((mcacheWrite s pg b).1, false) := by rw [← hr]
          rw [e]
          refine ⟨mcacheWrite_rel h hp, mcacheWrite_lru _ _ _, ?_, mcacheWrite_isSome hp, by simp⟩
          intro pg' b' hb' _
          rw [(mcacheWrite_fail hr).2.1]; exact hb'
        · have e : mcacheWrite s pg b = ((mcacheWrite s pg b).1, true) := by rw [← hr]
          rw [e]
          have hw := (mcacheWrite_ok hr).2.1
          obtain ⟨i1, i2, i3, i4, i5⟩ := syncWalk_spec rest (mcacheWrite s pg b).1 (mcacheWrite_rel h hp)
          refine ⟨i1, by rw [i2, mcacheWrite_lru], ?_, ?_, ?_⟩
          · intro pg' b' hb' hd'
            apply i3 pg' b' _ hd'
            have e' : pg' ≠ pg := by
              rintro rfl; rw [hp] at hb'; cases hb'; rw [hd] at hd'; cases hd'
            rw [hw, upd_other _ _ e']; exact hb'
          · intro pg'; rw [i4, mcacheWrite_isSome hp]
          · intro hok pg' hin b' hb'
            rcases List.mem_cons.1 hin with rfl | hin
            · have := i3 pg' { b with dirty := false } (by rw [hw]; simp) rfl
              rw [this] at hb'; cases hb'; rfl
            · exact i5 hok pg' hin b' hb'
      · have hd' : b.dirty = false := by simpa using hd
        rw [if_neg hd]
        obtain ⟨i1, i2, i3, i4, i5⟩ := syncWalk_spec rest s h
        refine ⟨i1, i2, i3, i4, ?_⟩
        intro hok pg' hin b' hb'
        rcases List.mem_cons.1 hin with rfl | hin
        · have := i3 pg' b hp hd'
          rw [this] at hb'; cases hb'; exact hd'
        · exact i5 hok pg' hin b' hb'

theorem mcacheSync_spec {s : State} {m : Nat → Option Nat} (h : Rel s m) :
    Rel (mcacheSync s).1 m ∧
    ((mcacheSync s).2 = true →
      (∀ pg b, (mcacheSync s).1.pages pg = some b → b.dirty = false) ∧
      (∀ pg v, m pg = some v → (mcacheSync s).1.backing pg = v)) := by
  obtain ⟨i1, i2, _, _, i5⟩ := syncWalk_spec s.lru s h
  refine ⟨i1, fun hok => ?_⟩
  have hclean : ∀ pg b, (mcacheSync s).1.pages pg = some b → b.dirty = false := by
    intro pg b hb
    have hb' : (syncWalk s s.lru).1.pages pg = some b := hb
    have hin : pg ∈ (mcacheSync s).1.lru := (i1.inv.lru_iff pg).2 (by rw [hb']; rfl)
    exact i5 hok pg (by rw [← i2]; exact hin) b hb
  refine ⟨hclean, ?_⟩
  intro pg v hv
  cases hp : (mcacheSync s).1.pages pg with
  | none => exact i1.val_n pg v hv hp
  | some b => exact (i1.val_c pg v b hv hp).2 (hclean pg b hp)

theorem rel_setMax {s : State} {m : Nat → Option Nat} (h : Rel s m) (n : Nat) : Rel (mcacheSetMaxcache s n) m := by
  have key : ∀ k, Rel { s with maxcache := k } m := fun k =>
    ⟨⟨h.inv.lru_nodup, h.inv.lru_iff, h.inv.hqh_iff, h.inv.hqh_nodup, h.inv.range, h.inv.lelem, h.inv.cur⟩,
      h.val_c, h.val_n, h.dirty, h.nz⟩
  unfold mcacheSetMaxcache
  split
  · exact key n
  · split
    · exact key n
    · exact h

/-! ### one client operation -/

theorem step_closed {s : State} (h : s.closed = true) (op : Op) : step s op = (s, .undef) := by
  cases op <;> simp [step, call, h]

/-- a state is fine for the map `m`: it was closed (everything freed), or it is related to `m` -/
def Ok (s : State) (m : Nat → Option Nat) : Prop := (s.closed = true ∧ Inv s) ∨ Rel s m

theorem Ok.inv {s : State} {m : Nat → Option Nat} (h : Ok s m) : Inv s := by
  rcases h with h | h
  · exact h.2
  · exact h.inv

theorem inv_close (s : State) : Inv (mcacheClose s) :=
  ⟨List.nodup_nil, by simp [mcacheClose], by simp [mcacheClose], by simp [mcacheClose], by simp [mcacheClose],
   by simp [mcacheClose], by simp [mcacheClose]⟩

theorem step_putDirty_eq (s : State) (pg v : Nat) :
    step s (.putDirty pg v) = call (call s (.write pg v)).1 (.put pg MCACHE_DIRTY) := rfl

theorem call_put {s : State} (hc : s.closed = false) (pg fl : Nat) :
    call s (.put pg fl) = ((mcachePut s pg fl).1, if (mcachePut s pg fl).2 then Ret.ok else Ret.fail) := by
  simp only [call, hc, Bool.false_eq_true, if_false]
  cases hr : mcachePut s pg fl with
  | mk s' r => cases r <;> rfl

theorem step_putDirty_cached {s : State} (hc : s.closed = false) {pg : Nat} {b : Bkt} (hb : s.pages pg = some b) (v : Nat) :
    step s (.putDirty pg v) =
      (setEflags (setBkt s pg { data := v, pinned := false, dirty := true }) (isPg pg) pg ELEM_WRITTEN, .ok) := by
  have h1 : call s (.write pg v) = (setBkt s pg { b with data := v }, .ok) := by simp [call, hc, userWrite, hb]
  have h2 : (setBkt s pg { b with data := v }).closed = false := hc
  have h3 : (setBkt s pg { b with data := v }).pages pg = some { b with data := v } := by simp [setBkt]
  rw [step_putDirty_eq, h1, call_put h2, mcachePut_dirty h3, setBkt_setBkt]
  rfl

theorem step_putDirty_uncached {s : State} {pg : Nat} (hb : s.pages pg = none) (v : Nat) :
    (step s (.putDirty pg v)).1 = s ∧ (step s (.putDirty pg v)).2 ≠ .ok := by
  cases hc : s.closed
  · have h1 : call s (.write pg v) = (s, .fail) := by simp [call, hc, userWrite, hb]
    rw [step_putDirty_eq, h1, call_put hc, mcachePut_none hb]
    simp
  · simp [step_closed hc]

theorem step_ok {s : State} {m : Nat → Option Nat} (h : Ok s m) (op : Op) :
    Ok (step s op).1 (specStep m op (step s op).2) ∧ Good (step s op).1 m op (step s op).2 := by
  rcases h with ⟨hc, hi⟩ | h
  · rw [step_closed hc]
    refine ⟨Or.inl ⟨hc, hi⟩, ?_⟩
    cases op <;> simp [Good]
  · cases hc : s.closed
    case true =>
      rw [step_closed hc]
      refine ⟨Or.inl ⟨hc, h.inv⟩, ?_⟩
      cases op <;> simp [Good]
    case false =>
    cases op with
    | get pg =>
      obtain ⟨h1, h2⟩ := mcacheGet_spec h pg
      simp only [step, call, hc, Bool.false_eq_true, if_false]
      cases hr : mcacheGet s pg with
      | mk s' r =>
        rw [hr] at h1 h2
        cases r with
        | none => exact ⟨Or.inr h1, trivial⟩
        | some d => exact ⟨Or.inr h1, fun v hv => h2 d rfl v hv⟩
    | putDirty pg v =>
      cases hp : s.pages pg with
      | none =>
        obtain ⟨e1, e2⟩ := step_putDirty_uncached hp v
        rw [e1]
        refine ⟨Or.inr ?_, ?_⟩
        · cases hr : (step s (.putDirty pg v)).2 <;> first | exact h | exact absurd hr e2
        · cases hr : (step s (.putDirty pg v)).2 <;> trivial
      | some b =>
        rw [step_putDirty_cached hc hp v]
        exact ⟨Or.inr (rel_setBkt_dirty h (by simp [hp]) rfl elem_written_ne), trivial⟩
    | putClean pg =>
      have h1 := mcachePut_clean_rel h pg
      simp only [step, call, hc, Bool.false_eq_true, if_false]
      cases hr : mcachePut s pg 0 with
      | mk s' r =>
        rw [hr] at h1
        cases r <;> exact ⟨Or.inr h1, trivial⟩
    | sync =>
      obtain ⟨h1, h2⟩ := mcacheSync_spec h
      simp only [step, call, hc, Bool.false_eq_true, if_false]
      cases hr : mcacheSync s with
      | mk s' r =>
        rw [hr] at h1 h2
        cases r with
        | false => exact ⟨Or.inr h1, trivial⟩
        | true => exact ⟨Or.inr h1, (h2 rfl).2⟩
    | setMax n =>
      simp only [step, call, hc, Bool.false_eq_true, if_false]
      exact ⟨Or.inr (rel_setMax h n), trivial⟩
    | close =>
      simp only [step, call, hc, Bool.false_eq_true, if_false]
      exact ⟨Or.inl ⟨rfl, inv_close s⟩, trivial⟩

theorem run_ok : ∀ (ops : List Op) (s : State) (m : Nat → Option Nat), Ok s m → ∃ m', Ok (run s ops).1 m'
  | [], _, m, h => ⟨m, h⟩
  | op :: ops, _, _, h => run_ok ops _ _ (step_ok h op).1

theorem refines_of_ok : ∀ (ops : List Op) (s : State) (m : Nat → Option Nat), Ok s m → Refines s m ops
  | [], _, _, _ => trivial
  | op :: ops, _, _, h => ⟨(step_ok h op).2, refines_of_ok ops _ _ (step_ok h op).1⟩

/-! ### `mcache_open` -/

theorem lhLoop_aux (ef : Nat) : ∀ (l : List Nat) (acc : Nat → List (Nat × Nat)) (k : Nat),
    l.foldl (fun lh pg => upd lh (hashKey pg) ((pg, ef) :: lh (hashKey pg))) acc k =
      ((l.reverse.filter fun pg => hashKey pg == k).map fun pg => (pg, ef)) ++ acc k
  | [], _, _ => rfl
  | a :: l, acc, k => by
    rw [List.foldl_cons, lhLoop_aux ef l, List.reverse_cons, List.filter_append, List.map_append, List.append_assoc]
    congr 1
    simp only [List.filter_cons, List.filter_nil, upd_apply]
    by_cases e : k = hashKey a
    · subst e; simp
    · have : (hashKey a == k) = false := by simp; exact fun h => e h.symm
      simp [this, e]

/-- the closed form used by the model is the C loop -/
theorem lhInit_eq_loop (npages ef : Nat) : lhInit npages ef = lhInitLoop npages ef := by
  funext k
  unfold lhInit lhInitLoop
  rw [lhLoop_aux]; simp

theorem inv_open (maxcache npages flags : Nat) (backing : Nat → Nat) (garbage : Nat) (inFail outFail : Nat → Bool) :
    Inv (mcacheOpen maxcache npages flags backing garbage inFail outFail) :=
  ⟨List.nodup_nil, by simp [mcacheOpen], by simp [mcacheOpen], by simp [mcacheOpen], by simp [mcacheOpen],
   by simp [mcacheOpen], by simp [mcacheOpen]⟩

theorem lhInit_nz {npages ef pg : Nat} (h1 : 1 ≤ pg) (h2 : pg ≤ npages) (hef : ef ≠ 0) :
    lelemNZ (lhInit npages ef (hashKey pg)) pg := by
  refine ⟨(pg, ef), ?_, rfl, hef⟩
  simp only [lhInit, List.mem_map, List.mem_filter, List.mem_reverse, List.mem_range'_1]
  exact ⟨pg, ⟨⟨h1, by omega⟩, by simp⟩, rfl⟩

theorem rel_open (maxcache npages flags : Nat) (backing : Nat → Nat) (garbage : Nat) (inFail outFail : Nat → Bool) :
    Rel (mcacheOpen maxcache npages flags backing garbage inFail outFail) (specInit npages flags backing) := by
  refine ⟨inv_open _ _ _ _ _ _ _, ?_, ?_, ?_, ?_⟩
  · intro pg v b _ hb; simp [mcacheOpen] at hb
  · intro pg v hv _
    simp only [specInit] at hv
    split at hv
    · simp only [Option.some.injEq] at hv; exact hv
    · cases hv
  · intro pg b hb; simp [mcacheOpen] at hb
  · intro pg v hv
    simp only [specInit] at hv
    split at hv
    · rename_i hc
      simp only [mcacheOpen, hc.1, if_true]
      exact lhInit_nz hc.2.1 hc.2.2 elem_sync_ne
    · cases hv


/-! ### what `mcache_get` does to the OTHER cached pages: only an unpinned page can go, and only after write-back -/

theorem mcacheBkt_pages {s : State} {pg : Nat} {b : Bkt} (hb : s.pages pg = some b) :
    ((mcacheBkt s).1.pages pg = some b ∧ (mcacheBkt s).1.backing pg = s.backing pg) ∨
    ((mcacheBkt s).1.pages pg = none ∧ b.pinned = false ∧ (mcacheBkt s).2.isSome = true ∧
      (b.dirty = true → (mcacheBkt s).1.backing pg = b.data) ∧ (b.dirty = false → (mcacheBkt s).1.backing pg = s.backing pg)) := by
  unfold mcacheBkt
  split
  · exact Or.inl ⟨hb, rfl⟩
  · split
    · rename_i vpg vb hv
      obtain ⟨_, hvb, hvp⟩ := victim_some hv
      by_cases hd : vb.dirty = true
      · simp only [hd, if_true]
        cases hr : (mcacheWrite s vpg vb).2
        · have e : mcacheWrite s vpg vb = ((mcacheWrite s vpg vb).1, false) := by rw [← hr]
          rw [e]
          have hw := mcacheWrite_fail hr
          exact Or.inl ⟨by rw [hw.2.1]; exact hb, by rw [hw.2.2]⟩
        · have e : mcacheWrite s vpg vb = ((mcacheWrite s vpg vb).1, true) := by rw [← hr]
          rw [e]
          have hw := mcacheWrite_ok hr
          by_cases e' : pg = vpg
          · subst e'
            rw [hvb] at hb; cases hb
            refine Or.inr ⟨by simp [unlink], hvp, rfl, fun _ => ?_, fun hf => by rw [hd] at hf; cases hf⟩
            show (mcacheWrite s pg b).1.backing pg = b.data
            rw [hw.2.2]; simp
          · refine Or.inl ⟨?_, ?_⟩
            · show upd (mcacheWrite s vpg vb).1.pages vpg none pg = some b
              rw [upd_other _ _ e', hw.2.1, upd_other _ _ e']; exact hb
            · show (mcacheWrite s vpg vb).1.backing pg = s.backing pg
              rw [hw.2.2, upd_other _ _ e']
      · have hd' : vb.dirty = false := by simpa using hd
        simp only [hd', Bool.false_eq_true, if_false]
        by_cases e' : pg = vpg
        · subst e'
          rw [hvb] at hb; cases hb
          refine Or.inr ⟨by simp [unlink], hvp, ?_⟩
          simp [unlink, hd']
        · refine Or.inl ⟨?_, rfl⟩
          show upd s.pages vpg none pg = some b
          rw [upd_other _ _ e']; exact hb
    · exact Or.inl ⟨hb, rfl⟩

/-- Effect of `mcache_get(pgno)` on a page `pg` that was cached before: it either stays cached with the same content and
dirtiness (a pinned page stays pinned), or it is gone – then it was NOT pinned, and if it was dirty the backing store now
holds its content (if it was clean the backing store entry is untouched). -/
theorem mcacheGet_pages {s : State} (h : Inv s) {pg : Nat} {b : Bkt} (hb : s.pages pg = some b) (pgno : Nat) :
    (∃ b', (mcacheGet s pgno).1.pages pg = some b' ∧ b'.data = b.data ∧ b'.dirty = b.dirty ∧ (b.pinned = true → b'.pinned = true)) ∨
    ((mcacheGet s pgno).1.pages pg = none ∧ b.pinned = false ∧
      (b.dirty = true → (mcacheGet s pgno).1.backing pg = b.data) ∧ (b.dirty = false → (mcacheGet s pgno).1.backing pg = s.backing pg)) := by
  have keep : ∀ s' : State, s'.pages pg = some b → ∃ b', s'.pages pg = some b' ∧ b'.data = b.data ∧ b'.dirty = b.dirty ∧ (b.pinned = true → b'.pinned = true) :=
    fun s' hs' => ⟨b, hs', rfl, rfl, fun hp => hp⟩
  unfold mcacheGet
  split
  · exact Or.inl (keep s hb)
  · rename_i hr
    have h2 : pgno ≤ s.npages := by omega
    split
    · split
      · rename_i b0 hb0
        by_cases e : pg = pgno
        · subst e
          rw [hb0] at hb; cases hb
          exact Or.inl ⟨{ b with pinned := true }, by simp [touch], rfl, rfl, fun _ => rfl⟩
        · exact Or.inl (keep _ (by show upd s.pages pgno _ pg = some b; rw [upd_other _ _ e]; exact hb))
      · exact Or.inl (keep s hb)
    · rename_i hl
      have hn : s.pages pgno = none := look_false h (by simpa using hl) h2
      have e : pg ≠ pgno := by rintro rfl; rw [hn] at hb; cases hb
      have hbp := mcacheBkt_pages hb
      cases he : mcacheBkt s with
      | mk s1 r =>
        rw [he] at hbp
        simp only at hbp
        have fin : ∀ s' : State, s'.pages pg = s1.pages pg → s'.backing pg = s1.backing pg →
            (∃ b', s'.pages pg = some b' ∧ b'.data = b.data ∧ b'.dirty = b.dirty ∧ (b.pinned = true → b'.pinned = true)) ∨
            (s'.pages pg = none ∧ b.pinned = false ∧ (b.dirty = true → s'.backing pg = b.data) ∧ (b.dirty = false → s'.backing pg = s.backing pg)) := by
          intro s' e1 e2
          rcases hbp with ⟨a, _⟩ | ⟨a1, a2, _, a3, a4⟩
          · exact Or.inl (keep s' (by rw [e1]; exact a))
          · exact Or.inr ⟨by rw [e1]; exact a1, a2, by rw [e2]; exact a3, by rw [e2]; exact a4⟩
        cases r with
        | none => exact fin s1 rfl rfl
        | some buf =>
          dsimp only
          split
          · split
            · exact fin _ rfl rfl
            · exact fin _ (by show upd _ pgno _ pg = _; rw [upd_other _ _ e]; rfl) rfl
          · exact fin _ (by show upd _ pgno _ pg = _; rw [upd_other _ _ e]; rfl) rfl

/-! ### the callbacks' failure switches and the object size never change -/

theorem mcacheBkt_outFail (s : State) : (mcacheBkt s).1.outFail = s.outFail := by
  unfold mcacheBkt
  split
  · rfl
  · split
    · rename_i vpg vb _
      by_cases hd : vb.dirty = true
      · simp only [hd, if_true]
        cases hr : (mcacheWrite s vpg vb).2
        · have e : mcacheWrite s vpg vb = ((mcacheWrite s vpg vb).1, false) := by rw [← hr]
          rw [e]; exact mcacheWrite_outFail _ _ _
        · have e : mcacheWrite s vpg vb = ((mcacheWrite s vpg vb).1, true) := by rw [← hr]
          rw [e]; exact mcacheWrite_outFail _ _ _
      · have hd' : vb.dirty = false := by simpa using hd
        simp only [hd', Bool.false_eq_true, if_false]; rfl
    · rfl

theorem mcacheBkt_isSome {s : State} (ho : ∀ pg, s.outFail pg = false) : (mcacheBkt s).2.isSome = true := by
  unfold mcacheBkt
  split
  · rfl
  · split
    · rename_i vpg vb _
      by_cases hd : vb.dirty = true
      · simp only [hd, if_true]
        have hr := mcacheWrite_succeeds (s := s) (pg := vpg) (b := vb) (ho vpg)
        have e : mcacheWrite s vpg vb = ((mcacheWrite s vpg vb).1, true) := by rw [← hr]
        rw [e]; rfl
      · have hd' : vb.dirty = false := by simpa using hd
        simp only [hd', Bool.false_eq_true, if_false]; rfl
    · rfl

theorem mcacheBkt_static (s : State) :
    (mcacheBkt s).1.npages = s.npages ∧ (mcacheBkt s).1.inFail = s.inFail ∧ (mcacheBkt s).1.closed = s.closed := by
  unfold mcacheBkt
  split
  · exact ⟨rfl, rfl, rfl⟩
  · split
    · rename_i vpg vb _
      by_cases hd : vb.dirty = true
      · simp only [hd, if_true]
        cases hr : (mcacheWrite s vpg vb).2
        · have e : mcacheWrite s vpg vb = ((mcacheWrite s vpg vb).1, false) := by rw [← hr]
          rw [e]; exact ⟨mcacheWrite_npages _ _ _, mcacheWrite_inFail _ _ _, mcacheWrite_closed _ _ _⟩
        · have e : mcacheWrite s vpg vb = ((mcacheWrite s vpg vb).1, true) := by rw [← hr]
          rw [e]; exact ⟨mcacheWrite_npages _ _ _, mcacheWrite_inFail _ _ _, mcacheWrite_closed _ _ _⟩
      · have hd' : vb.dirty = false := by simpa using hd
        simp only [hd', Bool.false_eq_true, if_false]; exact ⟨rfl, rfl, rfl⟩
    · exact ⟨rfl, rfl, rfl⟩

theorem mcacheGet_static (s : State) (pg : Nat) :
    (mcacheGet s pg).1.inFail = s.inFail ∧ (mcacheGet s pg).1.outFail = s.outFail ∧ (mcacheGet s pg).1.npages = s.npages ∧
    (mcacheGet s pg).1.closed = s.closed := by
  have hnp := mcacheBkt_static s
  have ho := mcacheBkt_outFail s
  unfold mcacheGet
  split
  · exact ⟨rfl, rfl, rfl, rfl⟩
  · split
    · split <;> exact ⟨rfl, rfl, rfl, rfl⟩
    · cases he : mcacheBkt s with
      | mk s1 r =>
        rw [he] at hnp ho
        cases r with
        | none => exact ⟨hnp.2.1, ho, hnp.1, hnp.2.2⟩
        | some buf =>
          dsimp only
          split
          · split <;> exact ⟨hnp.2.1, ho, hnp.1, hnp.2.2⟩
          · exact ⟨hnp.2.1, ho, hnp.1, hnp.2.2⟩

theorem mcacheGet_isSome {s : State} (h : Inv s) (hi : ∀ pg, s.inFail pg = false) (ho : ∀ pg, s.outFail pg = false)
    {pg : Nat} (h1 : 1 ≤ pg) (h2 : pg ≤ s.npages) : (mcacheGet s pg).2.isSome = true := by
  have hb := mcacheBkt_isSome ho
  have hin : (mcacheBkt s).1.inFail = s.inFail := (mcacheBkt_static s).2.1
  · unfold mcacheGet
    rw [if_neg (by omega)]
    split
    · rename_i hl
      have := look_true h hl
      split
      · rfl
      · rename_i hn; rw [hn] at this; cases this
    · cases he : mcacheBkt s with
      | mk s1 r =>
        rw [he] at hb hin
        cases r with
        | none => cases hb
        | some buf =>
          dsimp only
          split
          · have : s1.inFail pg = false := by simp only at hin; rw [hin]; exact hi pg
            rw [if_neg (by simp [setEflags, this])]; rfl
          · rfl


/-! ### fields no operation touches; success when the callbacks do not fail -/

/-- the callbacks of `s` never fail -/
def NoFail (s : State) : Prop := (∀ pg, s.inFail pg = false) ∧ (∀ pg, s.outFail pg = false)

theorem syncWalk_static : ∀ (l : List Nat) (s : State),
    (syncWalk s l).1.inFail = s.inFail ∧ (syncWalk s l).1.outFail = s.outFail ∧ (syncWalk s l).1.npages = s.npages ∧
    (syncWalk s l).1.closed = s.closed
  | [], _ => ⟨rfl, rfl, rfl, rfl⟩
  | pg :: rest, s => by
    unfold syncWalk
    cases hp : s.pages pg with
    | none => exact syncWalk_static rest s
    | some b =>
      dsimp only
      split
      · cases hr : (mcacheWrite s pg b).2
        · have e : mcacheWrite s pg b = ((mcacheWrite s pg b).1, false) := by rw [← hr]
          rw [e]; exact ⟨mcacheWrite_inFail _ _ _, mcacheWrite_outFail _ _ _, mcacheWrite_npages _ _ _, mcacheWrite_closed _ _ _⟩
        · have e : mcacheWrite s pg b = ((mcacheWrite s pg b).1, true) := by rw [← hr]
          rw [e]
          obtain ⟨i1, i2, i3, i4⟩ := syncWalk_static rest (mcacheWrite s pg b).1
          exact ⟨by rw [i1, mcacheWrite_inFail], by rw [i2, mcacheWrite_outFail], by rw [i3, mcacheWrite_npages],
            by rw [i4, mcacheWrite_closed]⟩
      · exact syncWalk_static rest s

theorem syncWalk_ok : ∀ (l : List Nat) (s : State), (∀ pg, s.outFail pg = false) → (syncWalk s l).2 = true
  | [], _, _ => rfl
  | pg :: rest, s, ho => by
    unfold syncWalk
    cases hp : s.pages pg with
    | none => exact syncWalk_ok rest s ho
    | some b =>
      dsimp only
      split
      · have hr := mcacheWrite_succeeds (s := s) (pg := pg) (b := b) (ho pg)
        have e : mcacheWrite s pg b = ((mcacheWrite s pg b).1, true) := by rw [← hr]
        rw [e]
        exact syncWalk_ok rest _ (by rw [mcacheWrite_outFail]; exact ho)
      · exact syncWalk_ok rest s ho

/-- `mcache_sync` changes no bucket except for clearing `MCACHE_DIRTY` -/
theorem syncWalk_pages : ∀ (l : List Nat) (s : State) (pg : Nat) (b : Bkt), s.pages pg = some b →
    ∃ b', (syncWalk s l).1.pages pg = some b' ∧ b'.pinned = b.pinned ∧ b'.data = b.data
  | [], _, _, b, hb => ⟨b, hb, rfl, rfl⟩
  | pg0 :: rest, s, pg, b, hb => by
    unfold syncWalk
    cases hp : s.pages pg0 with
    | none => exact syncWalk_pages rest s pg b hb
    | some b0 =>
      dsimp only
      split
      · cases hr : (mcacheWrite s pg0 b0).2
        · have e : mcacheWrite s pg0 b0 = ((mcacheWrite s pg0 b0).1, false) := by rw [← hr]
          rw [e]
          exact ⟨b, by rw [(mcacheWrite_fail hr).2.1]; exact hb, rfl, rfl⟩
        · have e : mcacheWrite s pg0 b0 = ((mcacheWrite s pg0 b0).1, true) := by rw [← hr]
          rw [e]
          have hw := (mcacheWrite_ok hr).2.1
          by_cases e' : pg = pg0
          · subst e'
            rw [hp] at hb; cases hb
            obtain ⟨b', h1, h2, h3⟩ := syncWalk_pages rest (mcacheWrite s pg b).1 pg { b with dirty := false } (by rw [hw]; simp)
            exact ⟨b', h1, h2, h3⟩
          · exact syncWalk_pages rest (mcacheWrite s pg0 b0).1 pg b (by rw [hw, upd_other _ _ e']; exact hb)
      · exact syncWalk_pages rest s pg b hb

theorem mcachePut_static (s : State) (pg fl : Nat) :
    (mcachePut s pg fl).1.inFail = s.inFail ∧ (mcachePut s pg fl).1.outFail = s.outFail ∧ (mcachePut s pg fl).1.npages = s.npages ∧
    (mcachePut s pg fl).1.closed = s.closed := by
  unfold mcachePut
  split
  · exact ⟨rfl, rfl, rfl, rfl⟩
  · dsimp only
    split <;> exact ⟨rfl, rfl, rfl, rfl⟩

theorem step_static (s : State) (op : Op) :
    (step s op).1.inFail = s.inFail ∧ (step s op).1.outFail = s.outFail ∧ (step s op).1.npages = s.npages := by
  cases hc : s.closed
  case true => rw [step_closed hc]; exact ⟨rfl, rfl, rfl⟩
  case false =>
  cases op with
  | get pg =>
    have := mcacheGet_static s pg
    simp only [step, call, hc, Bool.false_eq_true, if_false]
    cases hr : mcacheGet s pg with
    | mk s' r => rw [hr] at this; cases r <;> exact ⟨this.1, this.2.1, this.2.2.1⟩
  | putDirty pg v =>
    cases hp : s.pages pg with
    | none => rw [(step_putDirty_uncached hp v).1]; exact ⟨rfl, rfl, rfl⟩
    | some b => rw [step_putDirty_cached hc hp v]; exact ⟨rfl, rfl, rfl⟩
  | putClean pg =>
    have := mcachePut_static s pg 0
    show (call s (.put pg 0)).1.inFail = _ ∧ (call s (.put pg 0)).1.outFail = _ ∧ (call s (.put pg 0)).1.npages = _
    rw [call_put hc]; exact ⟨this.1, this.2.1, this.2.2.1⟩
  | sync =>
    have := syncWalk_static s.lru s
    simp only [step, call, hc, Bool.false_eq_true, if_false]
    cases hr : mcacheSync s with
    | mk s' r =>
      have e : syncWalk s s.lru = (s', r) := hr
      rw [e] at this; cases r <;> exact ⟨this.1, this.2.1, this.2.2.1⟩
  | setMax n =>
    simp only [step, call, hc, Bool.false_eq_true, if_false]
    unfold mcacheSetMaxcache
    split
    · exact ⟨rfl, rfl, rfl⟩
    · split <;> exact ⟨rfl, rfl, rfl⟩
  | close =>
    simp only [step, call, hc, Bool.false_eq_true, if_false]
    exact ⟨rfl, rfl, rfl⟩

theorem NoFail.step {s : State} (h : NoFail s) (op : Op) : NoFail (MCache.step s op).1 := by
  obtain ⟨i1, i2, _⟩ := step_static s op
  exact ⟨by rw [i1]; exact h.1, by rw [i2]; exact h.2⟩

theorem step_get_eq {s : State} (hc : s.closed = false) (pg : Nat) :
    step s (.get pg) = ((mcacheGet s pg).1, match (mcacheGet s pg).2 with | some d => Ret.page d | none => Ret.fail) := by
  simp only [step, call, hc, Bool.false_eq_true, if_false]
  cases hr : mcacheGet s pg with
  | mk s' r => cases r <;> rfl

theorem step_close_eq {s : State} (hc : s.closed = false) : step s .close = (mcacheClose s, .ok) := by
  simp [step, call, hc]

instance decPinBound (K : Nat) : ∀ (s : State) (ops : List Op), Decidable (PinBound K s ops)
  | s, [] => inferInstanceAs (Decidable (pinnedCount s ≤ K))
  | s, op :: ops => @instDecidableAnd _ _ _ (decPinBound K (step s op).1 ops)

theorem step_sync_eq {s : State} (hc : s.closed = false) :
    step s .sync = ((mcacheSync s).1, if (mcacheSync s).2 then Ret.ok else Ret.fail) := by
  simp only [step, call, hc, Bool.false_eq_true, if_false]
  cases hr : mcacheSync s with
  | mk s' r => cases r <;> rfl


/-! ### simulation of the cache-less object by the cache, for clients that respect the get/put protocol -/

theorem mcacheGet_pinned {s : State} {pg d : Nat} (h : (mcacheGet s pg).2 = some d) :
    ∃ b, (mcacheGet s pg).1.pages pg = some b ∧ b.pinned = true := by
  unfold mcacheGet at h ⊢
  split
  · rename_i hr; rw [if_pos hr] at h; cases h
  · rename_i hr; rw [if_neg hr] at h
    split
    · rename_i hl; rw [if_pos hl] at h
      split
      · exact ⟨_, upd_same _ _ _, rfl⟩
      · rename_i hn; simp [hn] at h
    · rename_i hl; rw [if_neg hl] at h
      cases he : mcacheBkt s with
      | mk s1 r =>
        rw [he] at h
        cases r with
        | none => cases h
        | some buf =>
          dsimp only at h ⊢
          split
          · rename_i hany; rw [if_pos hany] at h
            split
            · rename_i hf; rw [if_pos hf] at h; cases h
            · exact ⟨_, upd_same _ _ _, rfl⟩
          · exact ⟨_, upd_same _ _ _, rfl⟩

theorem mcachePut_pages_other (s : State) (pg fl : Nat) {pg' : Nat} (e : pg' ≠ pg) :
    (mcachePut s pg fl).1.pages pg' = s.pages pg' := by
  unfold mcachePut
  split
  · rfl
  · dsimp only
    split
    · show upd s.pages pg _ pg' = _; rw [upd_other _ _ e]
    · show upd s.pages pg _ pg' = _; rw [upd_other _ _ e]

theorem mcachePut_ok {s : State} {pg : Nat} {b : Bkt} (hb : s.pages pg = some b) (fl : Nat) : (mcachePut s pg fl).2 = true := by
  simp [mcachePut, hb]

theorem setMax_pages (s : State) (n : Nat) :
    (mcacheSetMaxcache s n).pages = s.pages ∧ (mcacheSetMaxcache s n).closed = s.closed ∧
    (mcacheSetMaxcache s n).npages = s.npages ∧ (mcacheSetMaxcache s n).inFail = s.inFail ∧
    (mcacheSetMaxcache s n).outFail = s.outFail := by
  unfold mcacheSetMaxcache
  split
  · exact ⟨rfl, rfl, rfl, rfl, rfl⟩
  · split <;> exact ⟨rfl, rfl, rfl, rfl, rfl⟩

/-- the plain map of the cache-less object -/
def absMap (npages : Nat) (a : Abs) : Nat → Option Nat := fun pg => if 1 ≤ pg ∧ pg ≤ npages then some (a.m pg) else none

/-- simulation relation: same open/closed status; while open the cache refines the object's map, its callbacks do not
fail, and every page the client holds is cached and pinned -/
structure Sim (npages : Nat) (s : State) (a : Abs) : Prop where
  closed : s.closed = a.closed
  inv : Inv s
  live : a.closed = false → Rel s (absMap npages a) ∧ s.npages = npages ∧ NoFail s ∧
    ∀ pg ∈ a.held, ∃ b, s.pages pg = some b ∧ b.pinned = true

theorem sim_step {npages : Nat} {s : State} {a a' : Abs} {r : Ret} (h : Sim npages s a) (op : Op)
    (ha : absStep npages a op = some (a', r)) : Sim npages (step s op).1 a' ∧ obs (step s op).2 = r := by
  unfold absStep at ha
  cases hac : a.closed
  case true =>
    rw [hac] at ha
    simp only [if_true, Option.some.injEq, Prod.mk.injEq] at ha
    obtain ⟨rfl, rfl⟩ := ha
    rw [step_closed (by rw [h.closed, hac])]
    exact ⟨h, rfl⟩
  case false =>
  rw [hac] at ha
  simp only [Bool.false_eq_true, if_false] at ha
  have hc : s.closed = false := by rw [h.closed, hac]
  obtain ⟨hrel, hnp, hnf, hheld⟩ := h.live hac
  cases op with
  | get pg =>
    simp only at ha
    rw [step_get_eq hc]
    obtain ⟨g1, g2, g3, g4⟩ := mcacheGet_static s pg
    split at ha
    · rename_i hr
      simp only [Option.some.injEq, Prod.mk.injEq] at ha
      obtain ⟨rfl, rfl⟩ := ha
      have : mcacheGet s pg = (s, none) := by
        unfold mcacheGet; rw [if_pos (by rw [hnp]; exact hr)]
      rw [this]
      exact ⟨h, rfl⟩
    · rename_i hr
      simp only [Option.some.injEq, Prod.mk.injEq] at ha
      obtain ⟨rfl, rfl⟩ := ha
      have h1 : 1 ≤ pg := by omega
      have h2 : pg ≤ npages := by omega
      have hsome := mcacheGet_isSome hrel.inv hnf.1 hnf.2 h1 (by rw [hnp]; exact h2)
      obtain ⟨hrel', hval⟩ := mcacheGet_spec hrel pg
      cases hd : (mcacheGet s pg).2 with
      | none => rw [hd] at hsome; cases hsome
      | some d =>
        have hdv : d = a.m pg := hval d hd (a.m pg) (by simp [absMap, h1, h2])
        refine ⟨⟨by rw [g4]; exact hc, hrel'.inv, fun _ => ⟨hrel', by rw [g3]; exact hnp,
          ⟨by rw [g1]; exact hnf.1, by rw [g2]; exact hnf.2⟩, ?_⟩⟩, by rw [hdv]; rfl⟩
        intro pg' hin
        rcases List.mem_cons.1 hin with rfl | hin
        · exact mcacheGet_pinned hd
        · obtain ⟨b, hb, hp⟩ := hheld pg' hin
          rcases mcacheGet_pages hrel.inv hb pg with ⟨b', hb', _, _, hp'⟩ | ⟨_, hp', _⟩
          · exact ⟨b', hb', hp' hp⟩
          · rw [hp] at hp'; cases hp'
  | putDirty pg v =>
    simp only at ha
    split at ha
    · rename_i hin
      simp only [Option.some.injEq, Prod.mk.injEq] at ha
      obtain ⟨rfl, rfl⟩ := ha
      obtain ⟨b, hb, _⟩ := hheld pg hin
      have hcs : (s.pages pg).isSome = true := by simp [hb]
      have hrange := hrel.inv.range pg hcs
      rw [step_putDirty_cached hc hb v]
      have hrel' := rel_setBkt_dirty (b' := { data := v, pinned := false, dirty := true }) hrel hcs rfl elem_written_ne
      have hmap : upd (absMap npages a) pg (some v) =
          absMap npages { a with m := upd a.m pg v, held := a.held.filter (· != pg) } := by
        funext pg'
        simp only [absMap, upd_apply]
        by_cases e : pg' = pg
        · subst e; simp [hrange.1, hnp ▸ hrange.2]
        · simp [e]
      rw [hmap] at hrel'
      refine ⟨⟨hc, hrel'.inv, fun _ => ⟨hrel', hnp, hnf, ?_⟩⟩, rfl⟩
      intro pg' hin'
      obtain ⟨hin1, hne⟩ := List.mem_filter.1 hin'
      have e : pg' ≠ pg := by simpa using hne
      obtain ⟨b', hb', hp'⟩ := hheld pg' hin1
      exact ⟨b', by show upd s.pages pg _ pg' = _; rw [upd_other _ _ e]; exact hb', hp'⟩
    · cases ha
  | putClean pg =>
    simp only at ha
    split at ha
    · rename_i hin
      simp only [Option.some.injEq, Prod.mk.injEq] at ha
      obtain ⟨rfl, rfl⟩ := ha
      obtain ⟨b, hb, _⟩ := hheld pg hin
      obtain ⟨p1, p2, p3, p4⟩ := mcachePut_static s pg 0
      have hrel' := mcachePut_clean_rel hrel pg
      show Sim npages (call s (.put pg 0)).1 _ ∧ obs (call s (.put pg 0)).2 = _
      rw [call_put hc, mcachePut_ok hb]
      refine ⟨⟨by rw [p4]; exact hc, hrel'.inv, fun _ => ⟨hrel', by rw [p3]; exact hnp,
        ⟨by rw [p1]; exact hnf.1, by rw [p2]; exact hnf.2⟩, ?_⟩⟩, rfl⟩
      intro pg' hin'
      obtain ⟨hin1, hne⟩ := List.mem_filter.1 hin'
      have e : pg' ≠ pg := by simpa using hne
      obtain ⟨b', hb', hp'⟩ := hheld pg' hin1
      exact ⟨b', by rw [mcachePut_pages_other s pg 0 e]; exact hb', hp'⟩
    · cases ha
  | sync =>
    simp only [Option.some.injEq, Prod.mk.injEq] at ha
    obtain ⟨rfl, rfl⟩ := ha
    rw [step_sync_eq hc]
    have hok : (mcacheSync s).2 = true := syncWalk_ok s.lru s hnf.2
    obtain ⟨q1, q2, q3, q4⟩ := syncWalk_static s.lru s
    rw [hok]
    refine ⟨⟨by show (syncWalk s s.lru).1.closed = _; rw [q4]; exact h.closed, (mcacheSync_spec hrel).1.inv,
      fun _ => ⟨(mcacheSync_spec hrel).1, by show (syncWalk s s.lru).1.npages = _; rw [q3]; exact hnp,
        ⟨by show ∀ pg, (syncWalk s s.lru).1.inFail pg = false; rw [q1]; exact hnf.1,
         by show ∀ pg, (syncWalk s s.lru).1.outFail pg = false; rw [q2]; exact hnf.2⟩, ?_⟩⟩, rfl⟩
    intro pg hin
    obtain ⟨b, hb, hp⟩ := hheld pg hin
    obtain ⟨b', hb', hp', _⟩ := syncWalk_pages s.lru s pg b hb
    exact ⟨b', hb', by rw [hp', hp]⟩
  | setMax n =>
    simp only [Option.some.injEq, Prod.mk.injEq] at ha
    obtain ⟨rfl, rfl⟩ := ha
    obtain ⟨m1, m2, m3, m4, m5⟩ := setMax_pages s n
    simp only [step, call, hc, Bool.false_eq_true, if_false]
    refine ⟨⟨by rw [m2]; exact h.closed, (rel_setMax hrel n).inv, fun _ => ⟨rel_setMax hrel n, by rw [m3]; exact hnp,
      ⟨by rw [m4]; exact hnf.1, by rw [m5]; exact hnf.2⟩, ?_⟩⟩, rfl⟩
    intro pg hin
    rw [m1]; exact hheld pg hin
  | close =>
    simp only [Option.some.injEq, Prod.mk.injEq] at ha
    obtain ⟨rfl, rfl⟩ := ha
    simp only [step, call, hc, Bool.false_eq_true, if_false]
    exact ⟨⟨rfl, inv_close s, fun hf => by cases hf⟩, rfl⟩

theorem sim_run {npages : Nat} : ∀ (ops : List Op) (s : State) (a : Abs) (rs : List Ret), Sim npages s a →
    absRun npages a ops = some rs → (run s ops).2.map obs = rs
  | [], _, _, rs, _, ha => by simp only [absRun, Option.some.injEq] at ha; subst ha; rfl
  | op :: ops, s, a, rs, h, ha => by
    unfold absRun at ha
    cases hs : absStep npages a op with
    | none => rw [hs] at ha; cases ha
    | some p =>
      obtain ⟨a', r⟩ := p
      rw [hs] at ha
      simp only [Option.map_eq_some_iff] at ha
      obtain ⟨rs', hrs', rfl⟩ := ha
      obtain ⟨h', hr⟩ := sim_step h op hs
      have := sim_run ops _ a' rs' h' hrs'
      simp only [run, List.map_cons, hr, this]

theorem sim_open (maxcache npages : Nat) (backing : Nat → Nat) (garbage : Nat) :
    Sim npages (mcacheOpen maxcache npages 0 backing garbage) { m := backing } := by
  have hr := rel_open maxcache npages 0 backing garbage (fun _ => false) (fun _ => false)
  have hm : specInit npages 0 backing = absMap npages { m := backing } := by
    funext pg; simp [specInit, absMap]
  rw [hm] at hr
  exact ⟨rfl, hr.inv, fun _ => ⟨hr, rfl, ⟨fun _ => rfl, fun _ => rfl⟩, fun pg hin => by cases hin⟩⟩


/-! ### how large the cache can get -/

theorem syncWalk_cur : ∀ (l : List Nat) (s : State),
    (syncWalk s l).1.lru = s.lru ∧ (syncWalk s l).1.curcache = s.curcache ∧ (syncWalk s l).1.maxcache = s.maxcache
  | [], _ => ⟨rfl, rfl, rfl⟩
  | pg :: rest, s => by
    unfold syncWalk
    cases hp : s.pages pg with
    | none => exact syncWalk_cur rest s
    | some b =>
      dsimp only
      split
      · cases hr : (mcacheWrite s pg b).2
        · have e : mcacheWrite s pg b = ((mcacheWrite s pg b).1, false) := by rw [← hr]
          rw [e]; exact ⟨mcacheWrite_lru _ _ _, mcacheWrite_curcache _ _ _, mcacheWrite_maxcache _ _ _⟩
        · have e : mcacheWrite s pg b = ((mcacheWrite s pg b).1, true) := by rw [← hr]
          rw [e]
          obtain ⟨i1, i2, i3⟩ := syncWalk_cur rest (mcacheWrite s pg b).1
          exact ⟨by rw [i1, mcacheWrite_lru], by rw [i2, mcacheWrite_curcache], by rw [i3, mcacheWrite_maxcache]⟩
      · exact syncWalk_cur rest s

theorem mcachePut_cur (s : State) (pg fl : Nat) :
    (mcachePut s pg fl).1.lru = s.lru ∧ (mcachePut s pg fl).1.curcache = s.curcache ∧ (mcachePut s pg fl).1.maxcache = s.maxcache := by
  unfold mcachePut
  split
  · exact ⟨rfl, rfl, rfl⟩
  · dsimp only
    split <;> exact ⟨rfl, rfl, rfl⟩

/-- `mcache_bkt`: `curcache` stays, or grows by one – and then only because it was below `maxcache` or because EVERY cached
page is pinned; with `curcache` = number of linked buckets before, a buffer handed out is one more than the linked buckets. -/
theorem mcacheBkt_cur {s : State} (_h : Inv s) (hj : s.curcache = s.lru.length) :
    ((mcacheBkt s).2.isSome = true → (mcacheBkt s).1.curcache = (mcacheBkt s).1.lru.length + 1) ∧
    ((mcacheBkt s).2 = none → (mcacheBkt s).1.curcache = (mcacheBkt s).1.lru.length) ∧
    (mcacheBkt s).1.maxcache = s.maxcache ∧
    ((mcacheBkt s).1.curcache = s.curcache ∨
      ((mcacheBkt s).1.curcache = s.curcache + 1 ∧ (mcacheBkt s).1.lru = s.lru ∧ (mcacheBkt s).1.pages = s.pages ∧
        (mcacheBkt s).2.isSome = true ∧ (s.curcache < s.maxcache ∨ victim s = none))) := by
  unfold mcacheBkt
  split
  · rename_i hlt
    exact ⟨fun _ => (by show s.curcache + 1 = s.lru.length + 1; rw [hj]), (fun hn => by cases hn), rfl,
      Or.inr ⟨rfl, rfl, rfl, rfl, Or.inl hlt⟩⟩
  · split
    · rename_i vpg vb hv
      obtain ⟨hin, _, _⟩ := victim_some hv
      have hpos : 0 < s.lru.length := List.length_pos_of_mem hin
      by_cases hd : vb.dirty = true
      · simp only [hd, if_true]
        cases hr : (mcacheWrite s vpg vb).2
        · have e : mcacheWrite s vpg vb = ((mcacheWrite s vpg vb).1, false) := by rw [← hr]
          rw [e]
          refine ⟨(fun hs => by cases hs), (fun _ => ?_), mcacheWrite_maxcache _ _ _, Or.inl (mcacheWrite_curcache _ _ _)⟩
          show (mcacheWrite s vpg vb).1.curcache = (mcacheWrite s vpg vb).1.lru.length
          rw [mcacheWrite_curcache, mcacheWrite_lru]; exact hj
        · have e : mcacheWrite s vpg vb = ((mcacheWrite s vpg vb).1, true) := by rw [← hr]
          rw [e]
          refine ⟨(fun _ => ?_), (fun hn => by cases hn), mcacheWrite_maxcache _ _ _, Or.inl (mcacheWrite_curcache _ _ _)⟩
          show (mcacheWrite s vpg vb).1.curcache = ((mcacheWrite s vpg vb).1.lru.erase vpg).length + 1
          rw [mcacheWrite_curcache, mcacheWrite_lru, List.length_erase_of_mem hin]; omega
      · have hd' : vb.dirty = false := by simpa using hd
        simp only [hd', Bool.false_eq_true, if_false]
        refine ⟨(fun _ => ?_), (fun hn => by cases hn), rfl, Or.inl rfl⟩
        show s.curcache = (s.lru.erase vpg).length + 1
        rw [List.length_erase_of_mem hin]; omega
    · rename_i hv
      exact ⟨fun _ => (by show s.curcache + 1 = s.lru.length + 1; rw [hj]), (fun hn => by cases hn), rfl,
        Or.inr ⟨rfl, rfl, rfl, rfl, Or.inr hv⟩⟩

theorem pinnedCount_insert {t : State} {pgno c : Nat} (hn : pgno ∉ t.lru)
    (hall : ∀ pg ∈ t.lru, ∀ b, t.pages pg = some b → b.pinned = true) (hc : ∀ pg ∈ t.lru, (t.pages pg).isSome = true) :
    pinnedCount (insertPage t pgno c) = t.lru.length + 1 := by
  unfold pinnedCount
  refine (congrArg List.length (List.filter_eq_self.2 ?_)).trans ?_
  · intro pg hin
    have hin0 : pg ∈ t.lru ++ [pgno] := hin
    rcases List.mem_append.1 hin0 with hin1 | hin2
    · have e : pg ≠ pgno := fun e => hn (e ▸ hin1)
      show (match upd t.pages pgno _ pg with | some b => b.pinned | none => false) = true
      rw [upd_other _ _ e]
      cases hp : t.pages pg with
      | none => have := hc pg hin1; rw [hp] at this; cases this
      | some b => exact hall pg hin1 b hp
    · simp only [List.mem_singleton] at hin2
      subst hin2
      show (match upd t.pages pg _ pg with | some b => b.pinned | none => false) = true
      rw [upd_same]
  · show (t.lru ++ [pgno]).length = _
    simp

/-- `mcache_get` (page-in callback never failing): `curcache` stays equal to the number of cached pages; it does not grow,
or it stays within `maxcache`, or it equals the number of PINNED pages (the cache grew because everything was pinned). -/
theorem mcacheGet_cur {s : State} (h : Inv s) (hj : s.curcache = s.lru.length) (hi : ∀ pg, s.inFail pg = false) (pgno : Nat) :
    (mcacheGet s pgno).1.curcache = (mcacheGet s pgno).1.lru.length ∧ (mcacheGet s pgno).1.maxcache = s.maxcache ∧
    ((mcacheGet s pgno).1.curcache = s.curcache ∨ (mcacheGet s pgno).1.curcache ≤ s.maxcache ∨
      (mcacheGet s pgno).1.curcache = pinnedCount (mcacheGet s pgno).1) := by
  unfold mcacheGet
  split
  · exact ⟨hj, rfl, Or.inl rfl⟩
  · rename_i hr
    have h2 : pgno ≤ s.npages := by omega
    split
    · rename_i hl
      split
      · rename_i b hb
        have hin : pgno ∈ s.lru := (h.lru_iff pgno).2 (by simp [hb])
        have hpos : 0 < s.lru.length := List.length_pos_of_mem hin
        refine ⟨?_, rfl, Or.inl rfl⟩
        show s.curcache = (s.lru.erase pgno ++ [pgno]).length
        rw [List.length_append, List.length_erase_of_mem hin, hj]; simp; omega
      · exact ⟨hj, rfl, Or.inl rfl⟩
    · rename_i hl
      have hn : s.pages pgno = none := look_false h (by simpa using hl) h2
      obtain ⟨c1, c2, c3, c4⟩ := mcacheBkt_cur h hj
      have hin := (mcacheBkt_static s).2.1
      cases he : mcacheBkt s with
      | mk s1 r =>
        rw [he] at c1 c2 c3 c4 hin
        simp only at c1 c2 c3 c4 hin
        cases r with
        | none =>
          refine ⟨c2 rfl, c3, ?_⟩
          rcases c4 with c4 | ⟨_, _, _, c4, _⟩
          · exact Or.inl c4
          · cases c4
        | some buf =>
          have c1' := c1 rfl
          have fin : ∀ t : State, t.lru = s1.lru → t.pages = s1.pages → t.curcache = s1.curcache → t.maxcache = s1.maxcache → ∀ c,
              (insertPage t pgno c).curcache = (insertPage t pgno c).lru.length ∧ (insertPage t pgno c).maxcache = s.maxcache ∧
              ((insertPage t pgno c).curcache = s.curcache ∨ (insertPage t pgno c).curcache ≤ s.maxcache ∨
                (insertPage t pgno c).curcache = pinnedCount (insertPage t pgno c)) := by
            intro t e1 e2 e3 e4 c
            refine ⟨?_, by show t.maxcache = _; rw [e4, c3], ?_⟩
            · show t.curcache = (t.lru ++ [pgno]).length
              rw [e3, e1, c1']; simp
            · show t.curcache = s.curcache ∨ t.curcache ≤ s.maxcache ∨ t.curcache = pinnedCount (insertPage t pgno c)
              rcases c4 with c4 | ⟨c4, l4, p4, _, c5⟩
              · exact Or.inl (by rw [e3, c4])
              · rcases c5 with c5 | c5
                · exact Or.inr (Or.inl (by rw [e3, c4]; omega))
                · refine Or.inr (Or.inr ?_)
                  have hnl : pgno ∉ t.lru := by rw [e1, l4, h.lru_iff, hn]; simp
                  rw [pinnedCount_insert hnl]
                  · rw [e3, c1', e1]
                  · intro pg hp b hb
                    rw [e1, l4] at hp; rw [e2, p4] at hb
                    exact victim_none c5 hp hb
                  · intro pg hp
                    rw [e1, l4] at hp; rw [e2, p4]
                    exact (h.lru_iff pg).1 hp
          dsimp only
          split
          · have : s1.inFail pgno = false := by rw [hin]; exact hi pgno
            rw [if_neg (by simp [setEflags, this])]
            exact fin _ rfl rfl rfl rfl _
          · exact fin _ rfl rfl rfl rfl _


theorem step_bound {K : Nat} {s : State} {m : Nat → Option Nat} (h : Ok s m) (hj : s.curcache = s.lru.length)
    (hi : ∀ pg, s.inFail pg = false) (hb : s.curcache ≤ max s.maxcache K) (op : Op)
    (hk : pinnedCount (step s op).1 ≤ K) :
    (step s op).1.curcache = (step s op).1.lru.length ∧ (step s op).1.curcache ≤ max (step s op).1.maxcache K := by
  cases hc : s.closed
  case true => rw [step_closed hc]; exact ⟨hj, hb⟩
  case false =>
  cases op with
  | get pg =>
    rw [step_get_eq hc] at hk ⊢
    obtain ⟨g1, g2, g3⟩ := mcacheGet_cur h.inv hj hi pg
    refine ⟨g1, ?_⟩
    rw [g2]
    rcases g3 with g3 | g3 | g3
    · rw [g3]; exact hb
    · exact Nat.le_trans g3 (Nat.le_max_left _ _)
    · rw [g3]; exact Nat.le_trans hk (Nat.le_max_right _ _)
  | putDirty pg v =>
    cases hp : s.pages pg with
    | none => rw [(step_putDirty_uncached hp v).1]; exact ⟨hj, hb⟩
    | some b => rw [step_putDirty_cached hc hp v]; exact ⟨hj, hb⟩
  | putClean pg =>
    obtain ⟨p1, p2, p3⟩ := mcachePut_cur s pg 0
    show (call s (.put pg 0)).1.curcache = (call s (.put pg 0)).1.lru.length ∧
      (call s (.put pg 0)).1.curcache ≤ max (call s (.put pg 0)).1.maxcache K
    rw [call_put hc]
    exact ⟨by rw [p1, p2]; exact hj, by rw [p2, p3]; exact hb⟩
  | sync =>
    obtain ⟨p1, p2, p3⟩ := syncWalk_cur s.lru s
    rw [step_sync_eq hc]
    exact ⟨by show (syncWalk s s.lru).1.curcache = (syncWalk s s.lru).1.lru.length; rw [p1, p2]; exact hj,
      by show (syncWalk s s.lru).1.curcache ≤ max (syncWalk s s.lru).1.maxcache K; rw [p2, p3]; exact hb⟩
  | setMax n =>
    simp only [step, call, hc, Bool.false_eq_true, if_false]
    unfold mcacheSetMaxcache
    split
    · rename_i hlt
      refine ⟨hj, ?_⟩
      show s.curcache ≤ max n K
      have : max s.maxcache K ≤ max n K := by omega
      exact Nat.le_trans hb this
    · split
      · rename_i hgt
        refine ⟨hj, ?_⟩
        show s.curcache ≤ max n K
        omega
      · exact ⟨hj, hb⟩
  | close =>
    simp only [step, call, hc, Bool.false_eq_true, if_false]
    exact ⟨rfl, Nat.zero_le _⟩

theorem run_bound {K : Nat} : ∀ (ops : List Op) (s : State) (m : Nat → Option Nat), Ok s m → s.curcache = s.lru.length →
    (∀ pg, s.inFail pg = false) → s.curcache ≤ max s.maxcache K → PinBound K s ops →
    (run s ops).1.curcache = (run s ops).1.lru.length ∧ (run s ops).1.curcache ≤ max (run s ops).1.maxcache K
  | [], _, _, _, hj, _, hb, _ => ⟨hj, hb⟩
  | op :: ops, s, m, h, hj, hi, hb, hp => by
    have hk : pinnedCount (step s op).1 ≤ K := by
      cases ops with
      | nil => exact hp.2
      | cons _ _ => exact hp.2.1
    obtain ⟨j', b'⟩ := step_bound h hj hi hb op hk
    exact run_bound ops _ _ (step_ok h op).1 j' (by rw [(step_static s op).1]; exact hi) b' hp.2

end H4.MCache
