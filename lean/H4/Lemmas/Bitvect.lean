import H4.Bitvect
/-! # Lemmas about the `bitvect.c` model: abstraction to a set of bit positions, and the specification of
`bv_set`, `bv_get`, `bv_find_next_zero` over the generated tables. -/
namespace H4.Bitvect
open H4.Gen.Bitvect

/-- the constants the proofs use, pinned to the generated values -/
theorem consts : BV_BASE_BITS = 8 ∧ BV_CHUNK_SIZE = 64 ∧ BV_DEFAULT_BITS = 128 := ⟨rfl, rfl, rfl⟩

/-! ## the three static tables -/

set_option maxRecDepth 100000 in
/-- `bv_first_zero[x]` is the lowest clear bit of `x`, for every byte but 255 (all 256 entries checked) -/
theorem firstZero_table : ∀ x : Fin 256, x.val ≠ 255 →
    firstZero x.val < 8 ∧ x.val.testBit (firstZero x.val) = false ∧
    ∀ j : Fin 8, j.val < firstZero x.val → x.val.testBit j.val = true := by decide +kernel

theorem firstZero_spec {x : Nat} (hx : x < 256) (h : x ≠ 255) :
    firstZero x < 8 ∧ x.testBit (firstZero x) = false ∧ ∀ j, j < firstZero x → x.testBit j = true := by
  have := firstZero_table ⟨x, hx⟩ h
  refine ⟨this.1, this.2.1, fun j hj => ?_⟩
  exact this.2.2 ⟨j, by have := this.1; simp at this; omega⟩ hj

theorem bitValue_table : ∀ k : Fin 8, bitValue k.val = 2 ^ k.val := by decide
theorem bitValue_eq {k : Nat} (h : k < 8) : bitValue k = 2 ^ k := bitValue_table ⟨k, h⟩
theorem bitMask_table : ∀ k : Fin 9, bitMask k.val = 2 ^ k.val - 1 := by decide
theorem bitMask_eq {n : Nat} (h : n ≤ 8) : bitMask n = 2 ^ n - 1 := bitMask_table ⟨n, by omega⟩
theorem not_bit_table : ∀ k : Fin 8, 255 - 2 ^ k.val = 255 ^^^ 2 ^ k.val := by decide
theorem full_or_table : ∀ k : Fin 8, 255 ||| 2 ^ k.val = 255 := by decide

/-! ## abstraction -/

/-- bit `k` of the vector, read from the buffer -/
def BV.bit (b : BV) (k : Nat) : Bool := (b.buf.getD (k / 8) 0).testBit (k % 8)

/-- representation invariant of `bv_struct` -/
structure BV.Inv (b : BV) : Prop where
  len : b.buf.length = b.arraySize
  used : b.bitsUsed ≤ b.arraySize * 8
  bytes : ∀ x ∈ b.buf, x < 256
  lz : ∀ j, j < b.lastZero → b.buf.getD j 0 = 255
  lzle : b.lastZero ≤ b.bitsUsed / 8
  beyond : ∀ k, b.bitsUsed ≤ k → b.bit k = false

theorem getD_lt_256 {l : List Nat} (h : ∀ x ∈ l, x < 256) (i : Nat) : l.getD i 0 < 256 := by
  rw [List.getD_eq_getElem?_getD]
  cases hi : l[i]? with
  | none => simp
  | some v => simp; exact h v (List.mem_of_getElem? hi)

theorem getD_append_zeros (l : List Nat) (n i : Nat) : (l ++ List.replicate n 0).getD i 0 = l.getD i 0 := by
  simp only [List.getD_eq_getElem?_getD]
  by_cases h : i < l.length
  · rw [List.getElem?_append_left h]
  · rw [List.getElem?_append_right (by omega)]
    have : l[i]? = none := by simp; omega
    rw [this]
    cases h2 : (List.replicate n 0)[i - l.length]? with
    | none => rfl
    | some v =>
      have := List.mem_of_getElem? h2
      simp at this
      simp [this.2]

theorem getD_modify (l : List Nat) (f : Nat → Nat) (i j : Nat) :
    (l.modify i f).getD j 0 = if i = j ∧ j < l.length then f (l.getD j 0) else l.getD j 0 := by
  simp only [List.getD_eq_getElem?_getD, List.getElem?_modify]
  by_cases hij : i = j
  · subst hij
    by_cases hl : i < l.length
    · simp [hl]
    · have : l[i]? = none := by simp; omega
      simp [hl]
  · simp [hij]

theorem mem_modify_lt {l : List Nat} {f : Nat → Nat} (i : Nat) (hl : ∀ x ∈ l, x < 256) (hf : ∀ x, x < 256 → f x < 256) :
    ∀ x ∈ l.modify i f, x < 256 := by
  intro x hx
  obtain ⟨j, hj, rfl⟩ := List.getElem_of_mem hx
  rw [List.getElem_modify]
  split
  · exact hf _ (hl _ (List.getElem_mem _))
  · exact hl _ (List.getElem_mem _)

set_option maxRecDepth 100000 in
theorem and_shift_table : ∀ x : Fin 256, ∀ m : Fin 8,
    (x.val &&& 2 ^ m.val) >>> m.val = if x.val.testBit m.val then 1 else 0 := by decide +kernel

theorem getD_replicate_zero (n i : Nat) : (List.replicate n 0).getD i 0 = 0 := by
  simpa using getD_append_zeros [] n i

theorem new_eq : BV.new = ⟨128, 64, 0, List.replicate 64 0⟩ := by rfl

theorem new_bit (k : Nat) : BV.new.bit k = false := by
  rw [new_eq]
  show ((List.replicate 64 0).getD (k / 8) 0).testBit (k % 8) = false
  rw [getD_replicate_zero]; simp

theorem new_inv : BV.new.Inv := by
  refine ⟨by simp [new_eq], by simp [new_eq], ?_, by simp [new_eq], by simp [new_eq], fun k _ => new_bit k⟩
  intro x hx
  simp [new_eq] at hx
  omega

/-! ## `bv_set` -/

theorem grow_def (b : BV) (k : Nat) : b.grow k =
    if k ≥ b.bitsUsed then
      if k / 8 < b.arraySize then { b with bitsUsed := k + 1 }
      else { b with buf := b.buf ++ List.replicate (((k / 8 + 1 - b.arraySize) / 64 + 1) * 64) 0,
                    arraySize := b.arraySize + ((k / 8 + 1 - b.arraySize) / 64 + 1) * 64,
                    bitsUsed := k + 1 }
    else b := rfl

theorem set_false_def (b : BV) (k : Nat) : b.set k false =
    { (b.grow k) with buf := (b.grow k).buf.modify (k / 8) (fun x => x &&& (255 - bitValue (k % 8))),
                      lastZero := if k / 8 < (b.grow k).lastZero then k / 8 else (b.grow k).lastZero } := rfl

theorem set_true_def (b : BV) (k : Nat) : b.set k true =
    { (b.grow k) with buf := (b.grow k).buf.modify (k / 8) (fun x => x ||| bitValue (k % 8)) } := rfl

theorem grow_bit (b : BV) (k j : Nat) : (b.grow k).bit j = b.bit j := by
  rw [grow_def]
  unfold BV.bit
  split
  · split
    · rfl
    · simp only [getD_append_zeros]
  · rfl

theorem grow_inv {b : BV} (h : b.Inv) (k : Nat) :
    (b.grow k).Inv ∧ k < (b.grow k).bitsUsed ∧ (b.grow k).lastZero = b.lastZero ∧ b.bitsUsed ≤ (b.grow k).bitsUsed := by
  obtain ⟨hlen, hused, hbytes, hlz, hlzle, hbey⟩ := h
  rw [grow_def]
  split
  · rename_i hk
    split
    · rename_i hb
      refine ⟨⟨hlen, by simp only; omega, hbytes, hlz, by simp only; omega, ?_⟩, by simp, rfl, by simp only; omega⟩
      intro j hj
      simp only at hj
      exact hbey j (by omega)
    · rename_i hb
      refine ⟨⟨by simp [hlen], by simp only; omega, ?_, ?_, by simp only; omega, ?_⟩, by simp, rfl, by simp only; omega⟩
      · intro x hx
        simp only [List.mem_append, List.mem_replicate] at hx
        rcases hx with hx | hx
        · exact hbytes x hx
        · omega
      · intro j hj
        simp only [getD_append_zeros]
        exact hlz j hj
      · intro j hj
        simp only at hj
        have := hbey j (by omega)
        simp only [BV.bit, getD_append_zeros]
        exact this
  · rename_i hk
    exact ⟨⟨hlen, hused, hbytes, hlz, hlzle, hbey⟩, by omega, rfl, by omega⟩

theorem testBit_clear {x m i : Nat} (hm : m < 8) (hi : i < 8) :
    (x &&& (255 - 2 ^ m)).testBit i = (x.testBit i && decide (i ≠ m)) := by
  rw [not_bit_table ⟨m, hm⟩]
  simp only [Nat.testBit_and, Nat.testBit_xor]
  have h255 : (255 : Nat).testBit i = true := by
    have := Nat.testBit_two_pow_sub_one 8 i
    simpa [hi] using this
  rw [h255, Nat.testBit_two_pow]
  by_cases h : m = i
  · subst h; simp
  · have : i ≠ m := fun e => h e.symm
    simp [h, this]

theorem set_bit {b : BV} (h : b.Inv) (k : Nat) (v : Bool) (j : Nat) :
    (b.set k v).bit j = if j = k then v else b.bit j := by
  obtain ⟨gi, gk, _, _⟩ := grow_inv h k
  have gb : ((b.grow k).buf.getD (j / 8) 0).testBit (j % 8) = b.bit j := grow_bit b k j
  have hk8 : k / 8 < (b.grow k).buf.length := by
    have := gi.used; have := gi.len; omega
  have hm : k % 8 < 8 := Nat.mod_lt _ (by omega)
  have hjm : j % 8 < 8 := Nat.mod_lt _ (by omega)
  cases v
  · rw [set_false_def]
    simp only [BV.bit, getD_modify]
    by_cases hjk : k / 8 = j / 8
    · have hl : j / 8 < (b.grow k).buf.length := by omega
      simp only [hjk, hl, and_self, if_true]
      rw [bitValue_eq hm, testBit_clear hm hjm, gb]
      by_cases hjk2 : j = k
      · subst hjk2; simp
      · have : j % 8 ≠ k % 8 := by omega
        simp [this, hjk2, BV.bit]
    · have hne : j ≠ k := by intro h; subst h; exact hjk rfl
      simp only [hjk, false_and, if_false, hne]
      exact gb
  · rw [set_true_def]
    simp only [BV.bit, getD_modify]
    by_cases hjk : k / 8 = j / 8
    · have hl : j / 8 < (b.grow k).buf.length := by omega
      simp only [hjk, hl, and_self, if_true]
      rw [bitValue_eq hm, Nat.testBit_or, Nat.testBit_two_pow, gb]
      by_cases hjk2 : j = k
      · subst hjk2; simp
      · have : k % 8 ≠ j % 8 := by omega
        simp [this, hjk2, BV.bit]
    · have hne : j ≠ k := by intro h; subst h; exact hjk rfl
      simp only [hjk, false_and, if_false, hne]
      exact gb

theorem set_inv {b : BV} (h : b.Inv) (k : Nat) (v : Bool) : (b.set k v).Inv := by
  obtain ⟨gi, gk, glz, gbu⟩ := grow_inv h k
  have sb := set_bit h k v
  obtain ⟨hlen, hused, hbytes, hlz, hlzle, hbey⟩ := gi
  have hm : k % 8 < 8 := Nat.mod_lt _ (by omega)
  cases v
  · rw [set_false_def] at sb ⊢
    refine ⟨by simp [hlen], hused, ?_, ?_, ?_, ?_⟩
    · exact mem_modify_lt _ hbytes (fun x hx => Nat.lt_of_le_of_lt Nat.and_le_left hx)
    · intro j hj
      simp only at hj ⊢
      rw [getD_modify]
      have hn : ¬ (k / 8 = j ∧ j < (b.grow k).buf.length) := by
        intro ⟨h1, _⟩
        split at hj <;> omega
      simp only [hn, if_false]
      apply hlz
      split at hj <;> omega
    · simp only
      split <;> omega
    · intro j hj
      simp only at hj
      rw [sb j]
      have hne : j ≠ k := by omega
      simp only [hne, if_false]
      rw [← grow_bit b k j]
      exact hbey j hj
  · rw [set_true_def] at sb ⊢
    refine ⟨by simp [hlen], hused, ?_, ?_, hlzle, ?_⟩
    · apply mem_modify_lt _ hbytes
      intro x hx
      rw [bitValue_eq hm]
      have h1 : x < 2 ^ 8 := hx
      have h2 : 2 ^ (k % 8) < 2 ^ 8 := Nat.pow_lt_pow_right (by omega) hm
      exact Nat.or_lt_two_pow h1 h2
    · intro j hj
      simp only at hj ⊢
      rw [getD_modify]
      split
      · rw [hlz j hj, bitValue_eq hm]
        exact full_or_table ⟨k % 8, hm⟩
      · exact hlz j hj
    · intro j hj
      simp only at hj
      rw [sb j]
      have hne : j ≠ k := by omega
      simp only [hne, if_false]
      rw [← grow_bit b k j]
      exact hbey j hj

/-! ## `bv_get` -/

theorem get_eq {b : BV} (h : b.Inv) (k : Nat) : b.get k = if b.bit k then 1 else 0 := by
  unfold BV.get
  simp only [consts.1]
  split
  · rename_i hk
    rw [h.beyond k hk]; rfl
  · have hm : k % 8 < 8 := Nat.mod_lt _ (by omega)
    simp only [BV.bit]
    rw [bitValue_eq hm]
    exact and_shift_table ⟨_, getD_lt_256 h.bytes (k / 8)⟩ ⟨k % 8, hm⟩

theorem get_eq_one {b : BV} (h : b.Inv) (k : Nat) : b.get k = 1 ↔ b.bit k = true := by
  rw [get_eq h]; cases b.bit k <;> simp
theorem get_eq_zero {b : BV} (h : b.Inv) (k : Nat) : b.get k = 0 ↔ b.bit k = false := by
  rw [get_eq h]; cases b.bit k <;> simp

/-! ## `bv_find_next_zero` -/

theorem skipFull_spec (l : List Nat) : ∀ (i bu : Nat),
    i ≤ skipFull l i bu ∧ skipFull l i bu - i ≤ l.length ∧
    (∀ j, i ≤ j → j < skipFull l i bu → l.getD (j - i) 0 = 255) ∧
    (skipFull l i bu < bu → skipFull l i bu - i < l.length → l.getD (skipFull l i bu - i) 0 ≠ 255) ∧
    (i ≤ bu → skipFull l i bu ≤ bu) := by
  induction l with
  | nil => intro i bu; simp [skipFull]
  | cons x xs ih =>
    intro i bu
    unfold skipFull
    split
    · rename_i hc
      obtain ⟨h1, h2, h3, h4, h5⟩ := ih (i + 1) bu
      refine ⟨by omega, by simp; omega, ?_, ?_, fun _ => h5 (by omega)⟩
      · intro j hij hjr
        by_cases hj : j = i
        · subst hj; simp [hc.2]
        · have : j - i = (j - (i + 1)) + 1 := by omega
          rw [this, List.getD_cons_succ]
          exact h3 j (by omega) hjr
      · intro hr hlen
        have : skipFull xs (i + 1) bu - i = (skipFull xs (i + 1) bu - (i + 1)) + 1 := by omega
        rw [this, List.getD_cons_succ]
        apply h4 hr
        simp at hlen; omega
    · rename_i hc
      refine ⟨by omega, by simp, fun j h1 h2 => by omega, ?_, fun h => h⟩
      intro hr _
      simp only [Nat.sub_self, List.getD_cons_zero]
      intro hx; exact hc ⟨hr, hx⟩

theorem getD_drop (l : List Nat) (n i : Nat) : (l.drop n).getD i 0 = l.getD (n + i) 0 := by
  simp [List.getD_eq_getElem?_getD, List.getElem?_drop]

theorem findNextZero_def (b : BV) : b.findNextZero =
    if skipFull (b.buf.drop b.lastZero) b.lastZero (b.bitsUsed / 8) < b.bitsUsed / 8 then
      (skipFull (b.buf.drop b.lastZero) b.lastZero (b.bitsUsed / 8) * 8 +
          firstZero (b.buf.getD (skipFull (b.buf.drop b.lastZero) b.lastZero (b.bitsUsed / 8)) 0),
        { b with lastZero := skipFull (b.buf.drop b.lastZero) b.lastZero (b.bitsUsed / 8) })
    else if b.bitsUsed / 8 * 8 < b.bitsUsed ∧
        (b.buf.getD (skipFull (b.buf.drop b.lastZero) b.lastZero (b.bitsUsed / 8)) 0) &&&
          bitMask (b.bitsUsed - b.bitsUsed / 8 * 8) ≠ 255 then
      (skipFull (b.buf.drop b.lastZero) b.lastZero (b.bitsUsed / 8) * 8 +
          firstZero ((b.buf.getD (skipFull (b.buf.drop b.lastZero) b.lastZero (b.bitsUsed / 8)) 0) &&&
            bitMask (b.bitsUsed - b.bitsUsed / 8 * 8)),
        { b with lastZero := skipFull (b.buf.drop b.lastZero) b.lastZero (b.bitsUsed / 8) })
    else (b.bitsUsed, b.set b.bitsUsed false) := rfl

theorem testBit_255 {i : Nat} (hi : i < 8) : (255 : Nat).testBit i = true := by
  have := Nat.testBit_two_pow_sub_one 8 i
  simpa [hi] using this

/-- **Specification of `bv_find_next_zero`** over the generated `bv_first_zero`/`bv_bit_mask` tables: on a well-formed
    vector it returns the LOWEST clear bit, leaves every bit as it was, and keeps the representation invariant. -/
theorem findNextZero_spec {b : BV} (h : b.Inv) :
    b.bit b.findNextZero.1 = false ∧ (∀ k, k < b.findNextZero.1 → b.bit k = true) ∧
    b.findNextZero.2.Inv ∧ ∀ k, b.findNextZero.2.bit k = b.bit k := by
  obtain ⟨hlen, hused, hbytes, hlz, hlzle, hbey⟩ := h
  have hinv : b.Inv := ⟨hlen, hused, hbytes, hlz, hlzle, hbey⟩
  obtain ⟨s1, s2, s3, s4, s5⟩ := skipFull_spec (b.buf.drop b.lastZero) b.lastZero (b.bitsUsed / 8)
  rw [findNextZero_def]
  generalize hI : skipFull (b.buf.drop b.lastZero) b.lastZero (b.bitsUsed / 8) = i at *
  have hi_le : i ≤ b.bitsUsed / 8 := s5 hlzle
  -- every byte below `i` is full
  have hfull : ∀ j, j < i → b.buf.getD j 0 = 255 := by
    intro j hj
    by_cases hjl : j < b.lastZero
    · exact hlz j hjl
    · have := s3 j (by omega) hj
      rw [getD_drop] at this
      have e : b.lastZero + (j - b.lastZero) = j := by omega
      rw [e] at this; exact this
  have hbelow : ∀ k, k / 8 < i → b.bit k = true := by
    intro k hk
    simp only [BV.bit, hfull _ hk]
    exact testBit_255 (Nat.mod_lt _ (by omega))
  have hlz' : ∀ j, j < i → b.buf.getD j 0 = 255 := hfull
  split
  · -- a byte with a clear bit inside the used bytes
    rename_i hlt
    have hne : b.buf.getD i 0 ≠ 255 := by
      have := s4 hlt (by simp; omega)
      rw [getD_drop] at this
      have e : b.lastZero + (i - b.lastZero) = i := by omega
      rw [e] at this; exact this
    obtain ⟨f1, f2, f3⟩ := firstZero_spec (getD_lt_256 hbytes i) hne
    have e1 : (i * 8 + firstZero (b.buf.getD i 0)) / 8 = i := by omega
    have e2 : (i * 8 + firstZero (b.buf.getD i 0)) % 8 = firstZero (b.buf.getD i 0) := by omega
    refine ⟨by simp only [BV.bit, e1, e2]; exact f2, ?_, ⟨hlen, hused, hbytes, hlz', by simp only; omega, hbey⟩, fun _ => rfl⟩
    intro k hk
    by_cases hk8 : k / 8 < i
    · exact hbelow k hk8
    · have : k / 8 = i := by omega
      simp only [BV.bit, this]
      exact f3 _ (by omega)
  · rename_i hnlt
    have hieq : i = b.bitsUsed / 8 := by omega
    split
    · -- the partly used last byte
      rename_i hc
      obtain ⟨hc1, hc2⟩ := hc
      have hn : b.bitsUsed - b.bitsUsed / 8 * 8 < 8 := by omega
      have hn0 : 0 < b.bitsUsed - b.bitsUsed / 8 * 8 := by omega
      generalize hnn : b.bitsUsed - b.bitsUsed / 8 * 8 = n at *
      generalize hby : b.buf.getD i 0 = byte at *
      have hbyte : byte < 256 := by rw [← hby]; exact getD_lt_256 hbytes i
      have hsl : byte &&& bitMask n < 256 := Nat.lt_of_le_of_lt Nat.and_le_left hbyte
      obtain ⟨f1, f2, f3⟩ := firstZero_spec hsl hc2
      have hmask : ∀ m, (byte &&& bitMask n).testBit m = (byte.testBit m && decide (m < n)) := by
        intro m
        rw [bitMask_eq (by omega), Nat.testBit_and, Nat.testBit_two_pow_sub_one]
      -- bits of the byte at or above n are clear (they lie beyond bits_used)
      have hhigh : ∀ m, n ≤ m → m < 8 → byte.testBit m = false := by
        intro m hm hm8
        have := hbey (i * 8 + m) (by omega)
        simp only [BV.bit] at this
        have e1 : (i * 8 + m) / 8 = i := by omega
        have e2 : (i * 8 + m) % 8 = m := by omega
        rw [e1, e2, hby] at this; exact this
      generalize hfz : firstZero (byte &&& bitMask n) = fz at *
      have e1 : (i * 8 + fz) / 8 = i := by omega
      have e2 : (i * 8 + fz) % 8 = fz := by omega
      refine ⟨?_, ?_, ⟨hlen, hused, hbytes, hlz', by simp only; omega, hbey⟩, fun _ => rfl⟩
      · simp only [BV.bit, e1, e2, hby]
        by_cases hfn : fz < n
        · have := hmask fz
          rw [f2] at this
          simpa [hfn] using this.symm
        · exact hhigh fz (by omega) f1
      · intro k hk
        by_cases hk8 : k / 8 < i
        · exact hbelow k hk8
        · have hki : k / 8 = i := by omega
          have hkm : k % 8 < fz := by omega
          have := f3 (k % 8) hkm
          rw [hmask] at this
          simp only [BV.bit, hki, hby]
          simp only [Bool.and_eq_true] at this
          exact this.1
    · -- every used bit is set: extend the vector by one clear bit
      rename_i hc
      have hall : b.bitsUsed / 8 * 8 = b.bitsUsed := by
        by_cases hlt : b.bitsUsed / 8 * 8 < b.bitsUsed
        · exfalso
          apply hc
          refine ⟨hlt, ?_⟩
          have hn : b.bitsUsed - b.bitsUsed / 8 * 8 ≤ 7 := by omega
          rw [bitMask_eq (by omega)]
          have h1 : b.buf.getD i 0 &&& (2 ^ (b.bitsUsed - b.bitsUsed / 8 * 8) - 1) ≤ 2 ^ (b.bitsUsed - b.bitsUsed / 8 * 8) - 1 := Nat.and_le_right
          have h2 : 2 ^ (b.bitsUsed - b.bitsUsed / 8 * 8) ≤ 2 ^ 7 := Nat.pow_le_pow_right (by omega) hn
          omega
        · omega
      refine ⟨hbey _ (Nat.le_refl _), ?_, set_inv hinv b.bitsUsed false, ?_⟩
      · intro k hk
        exact hbelow k (by omega)
      · intro k
        rw [set_bit hinv]
        split
        · rename_i hk; rw [hk]; exact (hbey _ (Nat.le_refl _)).symm
        · rfl

/-- the same statement the property file quotes: least clear bit -/
theorem findNextZero_least {b : BV} (h : b.Inv) (k : Nat) (hk : b.bit k = false) : b.findNextZero.1 ≤ k := by
  by_cases hlt : k < b.findNextZero.1
  · have := (findNextZero_spec h).2.1 k hlt
    rw [hk] at this; cases this
  · omega

end H4.Bitvect
