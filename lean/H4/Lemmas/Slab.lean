import H4.Slab
/-! Helper lemmas for C03 (hyperslab arithmetic). Statements of the property theorems are in `H4/Props/C03.lean`. -/
namespace H4.Slab

theorem range'_block (a P : Nat) : ∀ n,
    (List.range n).flatMap (fun i => (List.range P).map (fun k => a + i * P + k)) = List.range' a (n * P) := by
  intro n
  induction n with
  | zero => simp
  | succ n ih =>
    rw [List.range_succ, List.flatMap_append, ih]
    simp only [List.flatMap_cons, List.flatMap_nil, List.append_nil]
    have : (n + 1) * P = n * P + P := by rw [Nat.succ_mul]
    rw [this, ← List.range'_append_1]
    congr 1
    rw [List.range_eq_range', List.map_add_range']
    simp [Nat.add_comm]

theorem range'_block_shift (a s P n : Nat) :
    (List.range n).flatMap (fun i => (List.range P).map (fun k => a + (s + i) * P + k))
      = List.range' (a + s * P) (n * P) := by
  have := range'_block (a + s * P) P n
  rw [← this]
  congr 1; funext i; congr 1; funext k
  rw [Nat.add_mul]; omega

theorem full_cells : ∀ (sh ss es : List Nat), full sh ss es = true → inRange sh ss es →
    (cells ss es).map (offset sh) = List.range (prod sh) := by
  intro sh
  induction sh with
  | nil =>
    intro ss es _ hr
    cases ss <;> cases es <;> simp [inRange] at hr
    simp [cells, offset, prod]
  | cons h shs ih =>
    intro ss es hf hr
    cases ss with
    | nil => cases es <;> simp [inRange] at hr
    | cons s ss =>
      cases es with
      | nil => simp [inRange] at hr
      | cons e es =>
        simp only [full, Bool.and_eq_true, beq_iff_eq] at hf
        obtain ⟨⟨hs, he⟩, hf'⟩ := hf
        obtain ⟨_, hr'⟩ := hr
        subst hs; subst he
        simp only [cells, List.map_flatMap, List.map_map, prod, Nat.zero_add]
        have key := range'_block_shift 0 0 (prod shs) e
        simp only [Nat.zero_add, Nat.zero_mul] at key
        have key2 : (List.range e).flatMap (fun i => (List.range (prod shs)).map (fun k => i * prod shs + k))
            = List.range (e * prod shs) := by
          rw [List.range_eq_range' (n := e * prod shs)]; exact key
        rw [← key2]
        congr 1; funext i
        have := ih ss es hf' hr'
        rw [← this, List.map_map]
        congr 1

theorem runs_cells : ∀ (sh s e : List Nat) (base : Nat), inRange sh s e →
    expandRuns (runs sh s e base) = (cells s e).map (fun c => base + offset sh c) := by
  intro sh
  induction sh with
  | nil =>
    intro s e base hr
    cases s <;> cases e <;> simp [inRange] at hr
    simp [runs, expandRuns, cells, offset]
  | cons h shs ih =>
    intro s e base hr
    cases s with
    | nil => cases e <;> simp [inRange] at hr
    | cons st ss =>
      cases e with
      | nil => simp [inRange] at hr
      | cons ed es =>
        obtain ⟨_, hr'⟩ := hr
        simp only [runs]
        split
        · rename_i hf
          simp only [expandRuns, List.flatMap_cons, List.flatMap_nil, List.append_nil, cells,
            List.map_flatMap, List.map_map]
          rw [← range'_block_shift]
          congr 1; funext i
          have := full_cells shs ss es hf hr'
          have h2 : (cells ss es).map ((fun c => base + offset (h :: shs) c) ∘ fun x => (st + i) :: x)
              = ((cells ss es).map (offset shs)).map (fun k => base + (st + i) * prod shs + k) := by
            rw [List.map_map]; congr 1; funext c; simp [offset]; omega
          rw [h2, this]
        · simp only [expandRuns, List.flatMap_assoc, cells, List.map_flatMap, List.map_map]
          congr 1; funext i
          have := ih ss es (base + (st + i) * prod shs) hr'
          simp only [expandRuns] at this
          rw [this]
          apply List.map_congr_left
          intro c _; simp [offset]; omega

/-- coordinates inside the shape -/
def inB : List Nat → List Nat → Prop
  | sh :: shs, c :: cs => c < sh ∧ inB shs cs
  | [], [] => True
  | _, _ => False

theorem offset_lt : ∀ (sh c : List Nat), inB sh c → offset sh c < prod sh := by
  intro sh
  induction sh with
  | nil => intro c h; cases c <;> simp [inB] at h; simp [offset, prod]
  | cons s shs ih =>
    intro c h
    cases c with
    | nil => simp [inB] at h
    | cons x cs =>
      obtain ⟨hx, hr⟩ := h
      have := ih cs hr
      simp only [offset, prod]
      have : (x + 1) * prod shs ≤ s * prod shs := Nat.mul_le_mul_right _ hx
      rw [Nat.succ_mul] at this
      omega

theorem radix_inj {P c1 c2 r1 r2 : Nat} (h1 : r1 < P) (h2 : r2 < P) (h : c1 * P + r1 = c2 * P + r2) :
    c1 = c2 ∧ r1 = r2 := by
  have hP : 0 < P := by omega
  have e1 : (c1 * P + r1) / P = c1 := by
    rw [Nat.mul_comm, Nat.mul_add_div hP, Nat.div_eq_of_lt h1]; simp
  have e2 : (c2 * P + r2) / P = c2 := by
    rw [Nat.mul_comm, Nat.mul_add_div hP, Nat.div_eq_of_lt h2]; simp
  have : c1 = c2 := by rw [← e1, ← e2, h]
  subst this
  exact ⟨rfl, by omega⟩

theorem offset_inj : ∀ (sh c1 c2 : List Nat), inB sh c1 → inB sh c2 → offset sh c1 = offset sh c2 → c1 = c2 := by
  intro sh
  induction sh with
  | nil => intro c1 c2 h1 h2 _; cases c1 <;> cases c2 <;> simp [inB] at h1 h2; rfl
  | cons s shs ih =>
    intro c1 c2 h1 h2 h
    cases c1 with
    | nil => simp [inB] at h1
    | cons x xs =>
      cases c2 with
      | nil => simp [inB] at h2
      | cons y ys =>
        obtain ⟨_, hx⟩ := h1
        obtain ⟨_, hy⟩ := h2
        simp only [offset] at h
        obtain ⟨e1, e2⟩ := radix_inj (offset_lt shs xs hx) (offset_lt shs ys hy) h
        rw [e1, ih xs ys hx hy e2]

theorem cells_inB : ∀ (sh s e : List Nat), inRange sh s e → ∀ c ∈ cells s e, inB sh c := by
  intro sh
  induction sh with
  | nil => intro s e h c hc; cases s <;> cases e <;> simp [inRange] at h; simp [cells] at hc; subst hc; simp [inB]
  | cons d shs ih =>
    intro s e h c hc
    cases s with
    | nil => cases e <;> simp [inRange] at h
    | cons s0 ss =>
      cases e with
      | nil => simp [inRange] at h
      | cons e0 es =>
        obtain ⟨h0, hr⟩ := h
        simp only [cells, List.mem_flatMap, List.mem_range, List.mem_map] at hc
        obtain ⟨i, hi, c', hc', rfl⟩ := hc
        exact ⟨by omega, ih ss es hr c' hc'⟩

theorem cells_nodup : ∀ (s e : List Nat), (cells s e).Nodup := by
  intro s
  induction s with
  | nil => intro e; simp [cells]
  | cons s0 ss ih =>
    intro e
    cases e with
    | nil => simp [cells]
    | cons e0 es =>
      simp only [cells]
      rw [List.nodup_iff_pairwise_ne, List.pairwise_flatMap]
      refine ⟨?_, ?_⟩
      · intro i _
        have := ih es
        rw [List.nodup_iff_pairwise_ne] at this
        exact List.Pairwise.map _ (fun a b h => by simpa using h) this
      · rw [List.pairwise_iff_getElem]
        intro i j hi hj hij
        simp only [List.getElem_range]
        intro x h1 y h2
        simp only [List.mem_map] at h1 h2
        obtain ⟨a, _, rfl⟩ := h1
        obtain ⟨b, _, rfl⟩ := h2
        simp
        omega

theorem scells_unit : ∀ (s st c : List Nat), st.all (· == 1) = true → st.length = s.length → c.length = s.length →
    scells s st c = cells s c := by
  intro s
  induction s with
  | nil => intro st c _ h1 h2; cases st <;> cases c <;> simp_all [scells, cells]
  | cons s0 ss ih =>
    intro st c h h1 h2
    cases st with
    | nil => simp at h1
    | cons t ts =>
      cases c with
      | nil => simp at h2
      | cons c0 cs =>
        simp only [List.all_cons, Bool.and_eq_true, beq_iff_eq] at h
        obtain ⟨ht, hts⟩ := h
        subst ht
        simp only [scells, cells, Nat.mul_one]
        rw [ih ts cs hts (by simpa using h1) (by simpa using h2)]

theorem cells_ones_singleton : ∀ (s : List Nat), cells s (s.map fun _ => 1) = [s] := by
  intro s
  induction s with
  | nil => simp [cells]
  | cons a as ih => simp [cells, ih]

/-- the cells of the requests `NCgenio` issues are exactly the strided cells, in row-major order -/
theorem genio_cells : ∀ (s st c : List Nat), s ≠ [] → st.length = s.length → c.length = s.length →
    (genioReqs s st c).flatMap (fun r => cells r.1 r.2) = scells s st c := by
  intro s
  induction s with
  | nil => intro st c h; exact absurd rfl h
  | cons s0 ss ih =>
    intro st c _ h1 h2
    cases st with
    | nil => simp at h1
    | cons t ts =>
      cases c with
      | nil => simp at h2
      | cons c0 cs =>
        cases ss with
        | nil =>
          have hts : ts = [] := by simpa using h1
          have hcs : cs = [] := by simpa using h2
          subst hts; subst hcs
          simp only [genioReqs]
          split
          · rename_i h; subst h
            simp [cells, scells]
          · simp [cells, scells, List.flatMap_map]
        | cons s1 ss' =>
          cases ts with
          | nil => simp at h1
          | cons t1 ts' =>
            cases cs with
            | nil => simp at h2
            | cons c1 cs' =>
              have := ih (t1 :: ts') (c1 :: cs') (by simp) (by simpa using h1) (by simpa using h2)
              simp only [genioReqs, scells] at this ⊢
              rw [List.flatMap_assoc]
              congr 1; funext i
              rw [List.flatMap_map]
              simp only [cells, List.range_one, List.flatMap_cons, List.flatMap_nil, List.append_nil, Nat.add_zero]
              rw [← this, List.map_flatMap]

theorem writeAt_length {α} : ∀ (offs : List Nat) (vals : List α) (img : List α),
    (writeAt img offs vals).length = img.length := by
  intro offs
  induction offs with
  | nil => intro vals img; cases vals <;> simp [writeAt]
  | cons o os ih =>
    intro vals img
    cases vals with
    | nil => simp [writeAt]
    | cons v vs => simp [writeAt, ih]

theorem writeAt_getD_not_mem {α} (d : α) : ∀ (offs : List Nat) (vals : List α) (img : List α) (p : Nat),
    p ∉ offs → (writeAt img offs vals).getD p d = img.getD p d := by
  intro offs
  induction offs with
  | nil => intro vals img p _; cases vals <;> simp [writeAt]
  | cons o os ih =>
    intro vals img p hp
    cases vals with
    | nil => simp [writeAt]
    | cons v vs =>
      simp only [List.mem_cons, not_or] at hp
      simp only [writeAt]
      rw [ih vs _ p hp.2]
      have hne : o ≠ p := fun h => hp.1 h.symm
      simp [List.getD_eq_getElem?_getD, List.getElem?_set, hne]

theorem writeAt_getD_mem {α} (d : α) : ∀ (offs : List Nat) (vals : List α) (img : List α) (k : Nat),
    offs.Nodup → (∀ o ∈ offs, o < img.length) → vals.length = offs.length → (hk : k < offs.length) →
    (writeAt img offs vals).getD (offs[k]) d = vals.getD k d := by
  intro offs
  induction offs with
  | nil => intro vals img k _ _ _ hk; simp at hk
  | cons o os ih =>
    intro vals img k hnd hlt hlen hk
    cases vals with
    | nil => simp at hlen
    | cons v vs =>
      simp only [writeAt]
      rw [List.nodup_cons] at hnd
      cases k with
      | zero =>
        simp only [List.getElem_cons_zero]
        rw [writeAt_getD_not_mem d os vs _ o hnd.1]
        have : o < img.length := hlt o (by simp)
        simp [List.getD_eq_getElem?_getD, List.getElem?_set, this]
      | succ k =>
        simp only [List.getElem_cons_succ]
        have hk' : k < os.length := by simpa using hk
        have := ih vs (img.set o v) k hnd.2 (by intro x hx; simp; exact hlt x (by simp [hx])) (by simpa using hlen) hk'
        rw [this]; simp

end H4.Slab
