import H4.ExtElem
import H4.ElemSpec
import H4.Lemmas.ElemDisk
/-! External elements: lookups in the model's tables, the effect of one `HXPwrite`/`HXPread` on the external files. -/
namespace H4.ExtElem
open H4.Elem H4.Gen.Hdf

theorem find_filter_ne' {α : Type} (l : List (Nat × α)) (h h' : Nat) (hne : h' ≠ h) :
    (l.filter (fun p => p.1 != h)).find? (fun p => p.1 == h') = l.find? (fun p => p.1 == h') := by
  induction l with
  | nil => rfl
  | cons x xs ih =>
    simp only [List.filter_cons]
    by_cases hx : x.1 = h
    · have : (x.1 != h) = false := by simp [hx]
      simp only [this, Bool.false_eq_true, if_false, List.find?_cons]
      have : (x.1 == h') = false := by simp [hx]; exact fun e => hne e.symm
      simp only [this, ih]
    · have : (x.1 != h) = true := by simp [hx]
      simp only [this, if_true, List.find?_cons, ih]

theorem elem_setElem (w : XWorld) (e e' : Nat) (x : XElem) : (w.setElem e x).elem e' = if e' = e then some x else w.elem e' := by
  unfold XWorld.elem XWorld.setElem
  simp only [List.find?_cons]
  by_cases c : e' = e
  · subst c; simp
  · have : (e == e') = false := by simp; exact fun x => c x.symm
    simp only [this, c, if_false]
    rw [find_filter_ne' _ _ _ c]

theorem acc_setAcc (w : XWorld) (h h' : Nat) (a : XAcc) : (w.setAcc h a).acc h' = if h' = h then some a else w.acc h' := by
  unfold XWorld.acc XWorld.setAcc
  simp only [List.find?_cons]
  by_cases c : h' = h
  · subst c; simp
  · have : (h == h') = false := by simp; exact fun x => c x.symm
    simp only [this, c, if_false]
    rw [find_filter_ne' _ _ _ c]

theorem file_setFile (w : XWorld) (f g : Nat) (b : Bytes) : (w.setFile f b).file g = if g = f then b else w.file g := by
  unfold XWorld.file XWorld.setFile
  simp only [List.getD_eq_getElem?_getD, List.getElem?_set, List.length_append, List.length_replicate]
  by_cases c : g = f
  · subst c
    have : g < w.files.length + (g + 1 - w.files.length) := by omega
    simp [this]
  · have c' : ¬ (f = g) := fun e => c e.symm
    simp only [c', if_false, c]
    by_cases hl : g < w.files.length
    · rw [List.getElem?_append_left hl]
    · rw [List.getElem?_append_right (by omega), List.getElem?_eq_none (by omega : w.files.length ≤ g)]
      simp only [List.getElem?_replicate]
      split <;> rfl

@[simp] theorem file_setElem (w : XWorld) (e : Nat) (x : XElem) (g : Nat) : (w.setElem e x).file g = w.file g := rfl
@[simp] theorem file_setAcc (w : XWorld) (h : Nat) (a : XAcc) (g : Nat) : (w.setAcc h a).file g = w.file g := rfl
@[simp] theorem elem_setAcc (w : XWorld) (h : Nat) (a : XAcc) (e : Nat) : (w.setAcc h a).elem e = w.elem e := rfl
@[simp] theorem elem_setFile (w : XWorld) (f : Nat) (b : Bytes) (e : Nat) : (w.setFile f b).elem e = w.elem e := rfl
@[simp] theorem acc_setFile (w : XWorld) (f : Nat) (b : Bytes) (h : Nat) : (w.setFile f b).acc h = w.acc h := rfl
@[simp] theorem acc_setElem (w : XWorld) (e : Nat) (x : XElem) (h : Nat) : (w.setElem e x).acc h = w.acc h := rfl

/-- what a successful `Hwrite` on an external element does: exactly the bytes `[extern_offset+posn, +|bs|)` of its external
    file change, the element's length follows the position, nothing else moves -/
theorem xwrite_effect (w : XWorld) (h : Nat) (bs : Bytes) (a : XAcc) (x : XElem) (ha : w.acc h = some a)
    (hcw : a.canWrite = true) (hx : w.elem a.elem = some x) :
    (xwrite w h bs).2 = .num bs.length ∧
    (∀ g y, rd ((xwrite w h bs).1.file g) y =
      if g = x.file ∧ x.off + a.posn ≤ y ∧ y < x.off + a.posn + bs.length then bs.getD (y - (x.off + a.posn)) 0 else rd (w.file g) y) ∧
    (∀ e, (xwrite w h bs).1.elem e = if e = a.elem then some { x with len := max x.len (a.posn + bs.length) } else w.elem e) ∧
    (∀ h', (xwrite w h bs).1.acc h' = if h' = h then some { a with posn := a.posn + bs.length } else w.acc h') := by
  have hcw' : ¬ (a.canWrite = false) := by rw [hcw]; exact fun c => by cases c
  have e : xwrite w h bs =
      (((w.setFile x.file (diskWrite (w.file x.file) (x.off + a.posn) bs)).setElem a.elem { x with len := max x.len (a.posn + bs.length) }).setAcc h
        { a with posn := a.posn + bs.length }, .num bs.length) := by
    unfold xwrite
    simp only [ha]
    rw [if_neg hcw']
    simp only [hx]
  rw [e]
  refine ⟨rfl, ?_, ?_, ?_⟩
  · intro g y
    simp only [file_setAcc, file_setElem, file_setFile]
    by_cases c : g = x.file
    · subst c
      simp only [if_true, true_and]
      exact rd_diskWrite _ _ _ _
    · simp only [c, if_false, false_and]
  · intro e'
    simp only [elem_setAcc, elem_setElem, elem_setFile]
  · intro h'
    rw [acc_setAcc]
    simp only [acc_setElem, acc_setFile]

/-- a read changes nothing but the position of its access record, and delivers the bytes at `extern_offset + posn` -/
theorem xread_effect (w : XWorld) (h : Nat) (n : Int) (bs : Bytes) (hr : (xread w h n).2 = .data bs) :
    ∃ a x, w.acc h = some a ∧ w.elem a.elem = some x ∧ 0 ≤ n ∧
      bs = (List.range (readCount x.len a.posn n.toNat)).map (fun i => rd (w.file x.file) (x.off + a.posn + i)) ∧
      (∀ g, (xread w h n).1.file g = w.file g) ∧ (∀ e, (xread w h n).1.elem e = w.elem e) ∧
      (xread w h n).1.acc h = some { a with posn := a.posn + readCount x.len a.posn n.toNat } := by
  unfold xread at hr ⊢
  cases ha : w.acc h with
  | none => rw [ha] at hr; cases hr
  | some a =>
    rw [ha] at hr
    simp only at hr ⊢
    cases hx : w.elem a.elem with
    | none => rw [hx] at hr; cases hr
    | some x =>
      rw [hx] at hr
      simp only at hr ⊢
      by_cases hn : n < 0
      · rw [if_pos hn] at hr; cases hr
      rw [if_neg hn] at hr ⊢
      have hcnt : (if (if n = 0 ∨ (a.posn : Int) + n > x.len then (x.len : Int) - a.posn else n) < 0 then (0 : Int)
            else (if n = 0 ∨ (a.posn : Int) + n > x.len then (x.len : Int) - a.posn else n)).toNat = readCount x.len a.posn n.toNat := by
        unfold readCount
        by_cases c : n = 0 ∨ (a.posn : Int) + n > x.len
        · rw [if_pos c]
          by_cases hge : a.posn ≥ x.len
          · simp only [hge, if_true]
            split <;> omega
          · simp only [hge, if_false]
            have : n.toNat = 0 ∨ a.posn + n.toNat > x.len := by omega
            simp only [this, if_true]
            split <;> omega
        · rw [if_neg c]
          have hge : ¬ (a.posn ≥ x.len) := by omega
          have : ¬ (n.toNat = 0 ∨ a.posn + n.toNat > x.len) := by omega
          simp only [hge, this, if_false]
          split <;> omega
      rw [hcnt] at hr ⊢
      cases hd : diskRead (w.file x.file) (x.off + a.posn) (readCount x.len a.posn n.toNat) with
      | none => rw [hd] at hr; cases hr
      | some b =>
        rw [hd] at hr
        simp only [XRes.data.injEq] at hr
        subst hr
        refine ⟨a, x, rfl, hx, by omega, ?_, fun _ => rfl, fun _ => rfl, ?_⟩
        · rw [diskRead_eq _ _ _ _ hd]
        · rw [acc_setAcc, if_pos rfl]

end H4.ExtElem
