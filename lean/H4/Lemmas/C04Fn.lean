import H4.Gen.Fn.Hchunks
import H4.Lemmas.Chunk
import H4.Lemmas.C2L
/-! Loop lemmas for `H4.Props.C04Fn`: the loops of the chunk address functions of `hdf/src/hchunks.c`, as TRANSLATED from the C text
    (`H4.Gen.Fn.Hchunks`, regenerated on every run), compute the recursions of the hand-written model `H4.Chunk`. -/
namespace H4.Lemmas.C04Fn
open H4 H4.Chunk H4.Gen.Fn.Hchunks H4.C2L

theorem ccn_loop (nc sbi : List Nat) (hs : sbi.length = nc.length) :
    ∀ (k fuel : Nat) (s : calculate_chunk_num.St), k ≤ fuel → k + 1 ≤ nc.length →
      s.j = (k : Int) - 1 → s.cnum = ((nc.drop (k + 1)).prod : Nat) →
      s.chunk_num = [(((lin (nc.drop k) (sbi.drop k)).2 : Nat) : Int)] →
      s.sbi = ints sbi → s.ddims_num_chunks = ints nc → s.ub = false → s.oof = false →
      let s' := calculate_chunk_num.loop0 fuel s
      s'.ub = false ∧ s'.oof = false ∧ s'.chunk_num = [(((lin nc sbi).2 : Nat) : Int)] := by
  intro k
  induction k with
  | zero =>
    intro fuel s _ _ hj _ hc _ _ hub hoof
    have : ¬ (s.j ≥ 0) := by omega
    cases fuel <;> simp [calculate_chunk_num.loop0, this, hub, hoof, hc]
  | succ k ih =>
    intro fuel s hf hk hj hcn hc hsbi hnc hub hoof
    obtain ⟨fuel, rfl⟩ : ∃ f, fuel = f + 1 := ⟨fuel - 1, by omega⟩
    have hj0 : s.j ≥ 0 := by omega
    have hjk : s.j = (k : Int) := by omega
    have e1 : (s.j + 1).toNat = k + 1 := by omega
    have e2 : s.j.toNat = k := by omega
    have hd : nc.drop (k + 1) = nc[k+1]?.getD 0 :: nc.drop (k + 2) := drop_cons_getD nc (k + 1) (by omega)
    have hdk : nc.drop k = nc[k]?.getD 0 :: nc.drop (k + 1) := drop_cons_getD nc k (by omega)
    have hds : sbi.drop k = sbi[k]?.getD 0 :: sbi.drop (k + 1) := drop_cons_getD sbi k (by omega)
    simp only [calculate_chunk_num.loop0, hj0, if_true]
    apply ih
    · omega
    · omega
    · simp [calculate_chunk_num.chk]; omega
    · simp [calculate_chunk_num.chk, hcn, hnc, e1, hd]; exact Int.mul_comm _ _
    · simp [calculate_chunk_num.chk, hcn, hnc, hsbi, hc, e1, e2]
      rw [hdk, hds]; simp [lin, lin_fst, hd]
    · simp [calculate_chunk_num.chk, hsbi]
    · simp [calculate_chunk_num.chk, hnc]
    · simp [calculate_chunk_num.chk, hub, hnc, hsbi, hc]; omega
    · simp [calculate_chunk_num.chk, hoof]

end H4.Lemmas.C04Fn
