import H4.Gen.Fn.Hchunks
import H4.Lemmas.Chunk
import H4.Lemmas.C2L
/-! Loop lemmas for `H4.Props.C04Fn`: the loops of the chunk address functions of `hdf/src/hchunks.c`, as TRANSLATED from the C text
    (`H4.Gen.Fn.Hchunks`, regenerated on every run), compute the recursions of the hand-written model `H4.Chunk`. -/
namespace H4.Lemmas.C04Fn
open H4 H4.Chunk H4.Gen.Fn.Hchunks H4.C2L

theorem ccn_loop (nc sbi : List Nat) (hs : sbi.length = nc.length) :
    ∀ (k fuel : Nat) (s : calculate_chunk_num.St), k ≤ fuel → k + 1 ≤ nc.length →
      s.j = (k : Int) - 1 → s.cnum = ((nc.drop (k + 1)).prod : Nat) →
      s.chunk_num = [(((lin (nc.drop k) (sbi.drop k)).2 : Nat) : Int)] →
      s.sbi = ints sbi → s.ddims_num_chunks = ints nc → s.ub = false → s.oof = false →
      let s' := calculate_chunk_num.loop0 fuel s
      s'.ub = false ∧ s'.oof = false ∧ s'.chunk_num = [(((lin nc sbi).2 : Nat) : Int)] := by
  intro k
  induction k with
  | zero =>
    intro fuel s _ _ hj _ hc _ _ hub hoof
    have : ¬ (s.j ≥ 0) := by omega
    cases fuel <;> simp [calculate_chunk_num.loop0, this, hub, hoof, hc]
  | succ k ih =>
    intro fuel s hf hk hj hcn hc hsbi hnc hub hoof
    obtain ⟨fuel, rfl⟩ : ∃ f, fuel = f + 1 := ⟨fuel - 1, by omega⟩
    have hj0 : s.j ≥ 0 := by omega
    have hjk : s.j = (k : Int) := by omega
    have e1 : (s.j + 1).toNat = k + 1 := by omega
    have e2 : s.j.toNat = k := by omega
    have hd : nc.drop (k + 1) = nc[k+1]?.getD 0 :: nc.drop (k + 2) := drop_cons_getD nc (k + 1) (by omega)
    have hdk : nc.drop k = nc[k]?.getD 0 :: nc.drop (k + 1) := drop_cons_getD nc k (by omega)
    have hds : sbi.drop k = sbi[k]?.getD 0 :: sbi.drop (k + 1) := drop_cons_getD sbi k (by omega)
    simp only [calculate_chunk_num.loop0, hj0, if_true]
    apply ih
    · omega
    · omega
    · simp [calculate_chunk_num.chk]; omega
    · simp [calculate_chunk_num.chk, hcn, hnc, e1, hd]; exact Int.mul_comm _ _
    · simp [calculate_chunk_num.chk, hcn, hnc, hsbi, hc, e1, e2]
      rw [hdk, hds]; simp [lin, lin_fst, hd]
    · simp [calculate_chunk_num.chk, hsbi]
    · simp [calculate_chunk_num.chk, hnc]
    · simp [calculate_chunk_num.chk, hub, hnc, hsbi, hc]; omega
    · simp [calculate_chunk_num.chk, hoof]

/-- loop of `compute_array_to_seek`: the same mixed-radix accumulation as `ccn_loop`, over `dim_length`; `nt_size` is not touched -/
theorem cats_loop (nc sbi : List Nat) (hs : sbi.length = nc.length) :
    ∀ (k fuel : Nat) (s : compute_array_to_seek.St), k ≤ fuel → k + 1 ≤ nc.length →
      s.j = (k : Int) - 1 → s.cnum = ((nc.drop (k + 1)).prod : Nat) →
      s.user_seek = [(((lin (nc.drop k) (sbi.drop k)).2 : Nat) : Int)] →
      s.array_indices = ints sbi → s.ddims_dim_length = ints nc → s.ub = false → s.oof = false →
      let s' := compute_array_to_seek.loop0 fuel s
      s'.ub = false ∧ s'.oof = false ∧ s'.user_seek = [(((lin nc sbi).2 : Nat) : Int)] ∧ s'.nt_size = s.nt_size := by
  intro k
  induction k with
  | zero =>
    intro fuel s _ _ hj _ hc _ _ hub hoof
    have : ¬ (s.j ≥ 0) := by omega
    cases fuel <;> simp [compute_array_to_seek.loop0, this, hub, hoof, hc]
  | succ k ih =>
    intro fuel s hf hk hj hcn hc hsbi hnc hub hoof
    obtain ⟨fuel, rfl⟩ : ∃ f, fuel = f + 1 := ⟨fuel - 1, by omega⟩
    have hj0 : s.j ≥ 0 := by omega
    have hjk : s.j = (k : Int) := by omega
    have e1 : (s.j + 1).toNat = k + 1 := by omega
    have e2 : s.j.toNat = k := by omega
    have hd : nc.drop (k + 1) = nc[k+1]?.getD 0 :: nc.drop (k + 2) := drop_cons_getD nc (k + 1) (by omega)
    have hdk : nc.drop k = nc[k]?.getD 0 :: nc.drop (k + 1) := drop_cons_getD nc k (by omega)
    have hds : sbi.drop k = sbi[k]?.getD 0 :: sbi.drop (k + 1) := drop_cons_getD sbi k (by omega)
    simp only [compute_array_to_seek.loop0, hj0, if_true]
    apply ih
    · omega
    · omega
    · simp [compute_array_to_seek.chk]; omega
    · simp [compute_array_to_seek.chk, hcn, hnc, e1, hd]; exact Int.mul_comm _ _
    · simp [compute_array_to_seek.chk, hcn, hnc, hsbi, hc, e1, e2]
      rw [hdk, hds]; simp [lin, lin_fst, hd]
    · simp [compute_array_to_seek.chk, hsbi]
    · simp [compute_array_to_seek.chk, hnc]
    · simp [compute_array_to_seek.chk, hub, hnc, hsbi, hc]; omega
    · simp [compute_array_to_seek.chk, hoof]

/-- loop of `calculate_seek_in_chunk`: the same accumulation over `chunk_length` -/
theorem csic_loop (nc sbi : List Nat) (hs : sbi.length = nc.length) :
    ∀ (k fuel : Nat) (s : calculate_seek_in_chunk.St), k ≤ fuel → k + 1 ≤ nc.length →
      s.j = (k : Int) - 1 → s.cnum = ((nc.drop (k + 1)).prod : Nat) →
      s.chunk_seek = [(((lin (nc.drop k) (sbi.drop k)).2 : Nat) : Int)] →
      s.spb = ints sbi → s.ddims_chunk_length = ints nc → s.ub = false → s.oof = false →
      let s' := calculate_seek_in_chunk.loop0 fuel s
      s'.ub = false ∧ s'.oof = false ∧ s'.chunk_seek = [(((lin nc sbi).2 : Nat) : Int)] ∧ s'.nt_size = s.nt_size := by
  intro k
  induction k with
  | zero =>
    intro fuel s _ _ hj _ hc _ _ hub hoof
    have : ¬ (s.j ≥ 0) := by omega
    cases fuel <;> simp [calculate_seek_in_chunk.loop0, this, hub, hoof, hc]
  | succ k ih =>
    intro fuel s hf hk hj hcn hc hsbi hnc hub hoof
    obtain ⟨fuel, rfl⟩ : ∃ f, fuel = f + 1 := ⟨fuel - 1, by omega⟩
    have hj0 : s.j ≥ 0 := by omega
    have hjk : s.j = (k : Int) := by omega
    have e1 : (s.j + 1).toNat = k + 1 := by omega
    have e2 : s.j.toNat = k := by omega
    have hd : nc.drop (k + 1) = nc[k+1]?.getD 0 :: nc.drop (k + 2) := drop_cons_getD nc (k + 1) (by omega)
    have hdk : nc.drop k = nc[k]?.getD 0 :: nc.drop (k + 1) := drop_cons_getD nc k (by omega)
    have hds : sbi.drop k = sbi[k]?.getD 0 :: sbi.drop (k + 1) := drop_cons_getD sbi k (by omega)
    simp only [calculate_seek_in_chunk.loop0, hj0, if_true]
    apply ih
    · omega
    · omega
    · simp [calculate_seek_in_chunk.chk]; omega
    · simp [calculate_seek_in_chunk.chk, hcn, hnc, e1, hd]; exact Int.mul_comm _ _
    · simp [calculate_seek_in_chunk.chk, hcn, hnc, hsbi, hc, e1, e2]
      rw [hdk, hds]; simp [lin, lin_fst, hd]
    · simp [calculate_seek_in_chunk.chk, hsbi]
    · simp [calculate_seek_in_chunk.chk, hnc]
    · simp [calculate_seek_in_chunk.chk, hub, hnc, hsbi, hc]; omega
    · simp [calculate_seek_in_chunk.chk, hoof]

/-- loop of `update_seek_pos_chunk`: with `k` indices still to do (`i = k-1`), `stmp` and `spb[k..]` hold what the model's
    recursion `uspcLoop` returns for the dimensions `k..` (it handles the fast dimensions first, as the C loop does) -/
theorem uspc_loop (dd : List DimRec) (x : Nat) (hp : AllPos (cdimsOf dd)) :
    ∀ (k fuel : Nat) (s : update_seek_pos_chunk.St), k ≤ fuel → k ≤ dd.length →
      s.i = (k : Int) - 1 → s.stmp = ((uspcLoop (dd.drop k) x).1 : Nat) →
      s.spb.length = dd.length → s.spb.drop k = ints (uspcLoop (dd.drop k) x).2 →
      s.ddims_chunk_length = ints (cdimsOf dd) → s.ub = false → s.oof = false →
      let s' := update_seek_pos_chunk.loop0 fuel s
      s'.ub = false ∧ s'.oof = false ∧ s'.spb = ints (uspcLoop dd x).2 := by
  intro k
  induction k with
  | zero =>
    intro fuel s _ _ hi _ _ hc _ hub hoof
    have : ¬ (s.i ≥ 0) := by omega
    cases fuel <;> simp_all [update_seek_pos_chunk.loop0]
  | succ k ih =>
    intro fuel s hf hk hi hst hlen hspb hcl hub hoof
    obtain ⟨fuel, rfl⟩ : ∃ f, fuel = f + 1 := ⟨fuel - 1, by omega⟩
    have hi0 : s.i ≥ 0 := by omega
    have e2 : s.i.toNat = k := by omega
    have hceq : dd[k]? = some dd[k] := List.getElem?_eq_getElem (by omega)
    have hcpos : 0 < dd[k].chunkLength := hp _ (List.mem_map.mpr ⟨dd[k], List.getElem_mem _, rfl⟩)
    have hdk : dd.drop k = dd[k] :: dd.drop (k + 1) := List.drop_eq_getElem_cons (by omega)
    simp only [update_seek_pos_chunk.loop0, hi0, if_true]
    apply ih
    · omega
    · omega
    · simp [update_seek_pos_chunk.chk]; omega
    · rw [hdk]; simp [update_seek_pos_chunk.chk, hcl, e2, hst, uspcLoop, hceq]
    · simp [update_seek_pos_chunk.chk, hlen]
    · simp only [update_seek_pos_chunk.chk, e2]
      rw [drop_set_self _ _ _ (by omega), hspb, hdk]
      simp [hcl, hst, uspcLoop, hceq, tmod_nat]
    · simp [update_seek_pos_chunk.chk, hcl]
    · simp [update_seek_pos_chunk.chk, hub, hcl, e2, hlen, hceq]; omega
    · simp [update_seek_pos_chunk.chk, hoof]

/-- a check whose condition holds leaves the state as it is (used to run one loop iteration without unfolding the checks) -/
theorem ucis_chk_true (s : update_chunk_indices_seek.St) (c : Prop) [Decidable c] (h : c) :
    update_chunk_indices_seek.chk s c = s := by
  simp [update_chunk_indices_seek.chk, h]

/-- one iteration of the loop of `update_chunk_indices_seek` at index `k` with positive `dim_length[k]`, `chunk_length[k]`:
    all checks pass and the three assignments are the model's `%`, `/` on naturals -/
theorem ucis_step (dd : List DimRec) (k fuel : Nat) (s : update_chunk_indices_seek.St) (hk : k < dd.length)
    (hpd : 0 < dd[k].dimLength) (hpc : 0 < dd[k].chunkLength) (x : Nat)
    (hi : s.i = (k : Int)) (hst : s.stmp = (x : Int)) (hl1 : s.sbi.length = dd.length) (hl2 : s.spb.length = dd.length)
    (hdl : s.ddims_dim_length = ints (dimsOf dd)) (hcl : s.ddims_chunk_length = ints (cdimsOf dd)) :
    update_chunk_indices_seek.loop0 (fuel + 1) s = update_chunk_indices_seek.loop0 fuel
      { s with sbi := s.sbi.set k ((x % dd[k].dimLength / dd[k].chunkLength : Nat) : Int),
               spb := s.spb.set k ((x % dd[k].dimLength % dd[k].chunkLength : Nat) : Int),
               stmp := ((x / dd[k].dimLength : Nat) : Int), i := (k : Int) - 1 } := by
  have hi0 : s.i ≥ 0 := by omega
  have hb : 0 ≤ (k : Int) ∧ (k : Int) < (dd.length : Int) := by omega
  have h1 : ¬ ((dd[k].dimLength : Nat) : Int) = 0 := by omega
  have h2 : ¬ ((dd[k].chunkLength : Nat) : Int) = 0 := by omega
  have hv1 : s.ddims_dim_length.getD k 0 = ((dd[k].dimLength : Nat) : Int) := by rw [hdl]; exact ints_map_getD _ dd k hk
  have hv2 : s.ddims_chunk_length.getD k 0 = ((dd[k].chunkLength : Nat) : Int) := by rw [hcl]; exact ints_map_getD _ dd k hk
  have hl3 : s.ddims_dim_length.length = dd.length := by simp [hdl]
  have hl4 : s.ddims_chunk_length.length = dd.length := by simp [hcl]
  simp only [update_chunk_indices_seek.loop0, hi0, if_true]
  simp only [ucis_chk_true, hi, hst, hl1, hl2, hl3, hl4, hv1, hv2, hb, h1, h2, tmod_nat, tdiv_nat, Int.toNat_natCast, ne_eq,
    not_false_eq_true, and_self]

/-- loop of `update_chunk_indices_seek`: the invariant of `uspc_loop` with the two OUT arrays `sbi`, `spb` and the model's `ucisLoop` -/
theorem ucis_loop (dd : List DimRec) (x : Nat) (hpd : AllPos (dimsOf dd)) (hpc : AllPos (cdimsOf dd)) :
    ∀ (k fuel : Nat) (s : update_chunk_indices_seek.St), k ≤ fuel → k ≤ dd.length →
      s.i = (k : Int) - 1 → s.stmp = ((ucisLoop (dd.drop k) x).1 : Nat) →
      s.sbi.length = dd.length → s.spb.length = dd.length →
      s.sbi.drop k = ints (ucisLoop (dd.drop k) x).2.1 → s.spb.drop k = ints (ucisLoop (dd.drop k) x).2.2 →
      s.ddims_dim_length = ints (dimsOf dd) → s.ddims_chunk_length = ints (cdimsOf dd) → s.ub = false → s.oof = false →
      let s' := update_chunk_indices_seek.loop0 fuel s
      s'.ub = false ∧ s'.oof = false ∧ s'.sbi = ints (ucisLoop dd x).2.1 ∧ s'.spb = ints (ucisLoop dd x).2.2 := by
  intro k
  induction k with
  | zero =>
    intro fuel s _ _ hi _ _ _ hc1 hc2 _ _ hub hoof
    have : ¬ (s.i ≥ 0) := by omega
    cases fuel <;> simp_all [update_chunk_indices_seek.loop0]
  | succ k ih =>
    intro fuel s hf hk hi hst hlen1 hlen2 hsbi hspb hdl hcl hub hoof
    obtain ⟨fuel, rfl⟩ : ∃ f, fuel = f + 1 := ⟨fuel - 1, by omega⟩
    have hcpos : 0 < dd[k].chunkLength := hpc _ (List.mem_map.mpr ⟨dd[k], List.getElem_mem _, rfl⟩)
    have hdpos : 0 < dd[k].dimLength := hpd _ (List.mem_map.mpr ⟨dd[k], List.getElem_mem _, rfl⟩)
    have hdk : dd.drop k = dd[k] :: dd.drop (k + 1) := List.drop_eq_getElem_cons (by omega)
    rw [ucis_step dd k fuel s (by omega) hdpos hcpos _ (by omega) hst hlen1 hlen2 hdl hcl]
    apply ih
    · omega
    · omega
    · simp
    · rw [hdk]; simp [ucisLoop]
    · simp [hlen1]
    · simp [hlen2]
    · simp only []
      rw [drop_set_self _ _ _ (by omega), hsbi, hdk]; simp [ucisLoop]
    · simp only []
      rw [drop_set_self _ _ _ (by omega), hspb, hdk]; simp [ucisLoop]
    · exact hdl
    · exact hcl
    · exact hub
    · exact hoof

/-- one cell of `compute_chunk_to_array` (body of the model's recursion) -/
def c2aElem (d : DimRec) (ci pi : Nat) : Nat :=
  if ci + 1 == d.numChunks then ci * d.chunkLength + (if pi > d.lastChunkLength then d.lastChunkLength else pi)
  else ci * d.chunkLength + pi

theorem c2a_length (dd : List DimRec) : ∀ (sbi spb : List Nat), (computeChunkToArray dd sbi spb).length = dd.length := by
  induction dd with
  | nil => intros; rfl
  | cons d ds ih => intro sbi spb; simp [computeChunkToArray, ih]

theorem c2a_getD (dd : List DimRec) : ∀ (sbi spb : List Nat) (j : Nat) (h : j < dd.length),
    (computeChunkToArray dd sbi spb)[j]?.getD 0 = c2aElem dd[j] (sbi[j]?.getD 0) (spb[j]?.getD 0) := by
  induction dd with
  | nil => intro _ _ j h; simp at h
  | cons d ds ih =>
    intro sbi spb j h
    cases j with
    | zero => cases sbi <;> cases spb <;> simp [computeChunkToArray, c2aElem]
    | succ j =>
      have := ih sbi.tail spb.tail j (by simpa using h)
      simp only [computeChunkToArray, List.getElem?_cons_succ, List.getElem_cons_succ, this]
      cases sbi <;> cases spb <;> simp

theorem c2a_chk_true (s : compute_chunk_to_array.St) (c : Prop) [Decidable c] (h : c) :
    compute_chunk_to_array.chk s c = s := by
  simp [compute_chunk_to_array.chk, h]

theorem c2a_step (dd : List DimRec) (sbi spb : List Nat) (hs : sbi.length = dd.length) (hp : spb.length = dd.length)
    (m fuel : Nat) (s : compute_chunk_to_array.St) (hm : m < dd.length)
    (hj : s.j = (m : Int)) (hn : s.ndims = (dd.length : Int)) (hl : s.array_indices.length = dd.length)
    (hci : s.chunk_indices = ints sbi) (hca : s.chunk_array_ind = ints spb)
    (hcl : s.ddims_chunk_length = ints (cdimsOf dd)) (hnc : s.ddims_num_chunks = ints (nchunksOf dd))
    (hlc : s.ddims_last_chunk_length = ints (dd.map (·.lastChunkLength))) :
    compute_chunk_to_array.loop0 (fuel + 1) s = compute_chunk_to_array.loop0 fuel
      { s with array_indices := s.array_indices.set m ((c2aElem dd[m] (sbi[m]?.getD 0) (spb[m]?.getD 0) : Nat) : Int),
               j := (m : Int) + 1 } := by
  have hj0 : s.j < s.ndims := by omega
  have hb : 0 ≤ (m : Int) ∧ (m : Int) < (dd.length : Int) := by omega
  have hv1 : s.ddims_chunk_length.getD m 0 = ((dd[m].chunkLength : Nat) : Int) := by rw [hcl]; exact ints_map_getD _ dd m hm
  have hv2 : s.ddims_num_chunks.getD m 0 = ((dd[m].numChunks : Nat) : Int) := by rw [hnc]; exact ints_map_getD _ dd m hm
  have hv3 : s.ddims_last_chunk_length.getD m 0 = ((dd[m].lastChunkLength : Nat) : Int) := by rw [hlc]; exact ints_map_getD _ dd m hm
  have hv4 : s.chunk_indices.getD m 0 = ((sbi[m]?.getD 0 : Nat) : Int) := by rw [hci]; simp
  have hv5 : s.chunk_array_ind.getD m 0 = ((spb[m]?.getD 0 : Nat) : Int) := by rw [hca]; simp
  have hl1 : s.ddims_chunk_length.length = dd.length := by simp [hcl]
  have hl2 : s.ddims_num_chunks.length = dd.length := by simp [hnc]
  have hl3 : s.ddims_last_chunk_length.length = dd.length := by simp [hlc]
  have hl4 : s.chunk_indices.length = dd.length := by simp [hci, hs]
  have hl5 : s.chunk_array_ind.length = dd.length := by simp [hca, hp]
  have hg : ∀ v : Int, (s.array_indices.set m v).getD m 0 = v := fun v => getD_set_self _ _ _ _ (by omega)
  simp only [compute_chunk_to_array.loop0, hj0, if_true]
  by_cases hc : sbi[m]?.getD 0 + 1 = dd[m].numChunks
  · have hc' := eq_true (show ((sbi[m]?.getD 0 : Nat) : Int) = ((dd[m].numChunks : Nat) : Int) - 1 by omega)
    have hval : (((sbi[m]?.getD 0 : Nat) : Int) * ((dd[m].chunkLength : Nat) : Int) +
        (if ((spb[m]?.getD 0 : Nat) : Int) > ((dd[m].lastChunkLength : Nat) : Int) then ((dd[m].lastChunkLength : Nat) : Int)
         else ((spb[m]?.getD 0 : Nat) : Int))) = ((c2aElem dd[m] (sbi[m]?.getD 0) (spb[m]?.getD 0) : Nat) : Int) := by
      by_cases h : spb[m]?.getD 0 > dd[m].lastChunkLength
      · have h' : ((spb[m]?.getD 0 : Nat) : Int) > ((dd[m].lastChunkLength : Nat) : Int) := by omega
        simp [c2aElem, hc, h, h']
      · have h' : ¬ ((spb[m]?.getD 0 : Nat) : Int) > ((dd[m].lastChunkLength : Nat) : Int) := by omega
        simp [c2aElem, hc, h, h']
    simp only [c2a_chk_true, hj, hl, hl1, hl2, hl3, hl4, hl5, hv1, hv2, hv3, hv4, hv5, hb, hc', Int.toNat_natCast,
      and_self, or_true, if_true, List.length_set, hg, List.set_set, hval]
  · have hc' := eq_false (show ¬ (((sbi[m]?.getD 0 : Nat) : Int) = ((dd[m].numChunks : Nat) : Int) - 1) by omega)
    have hval : (((sbi[m]?.getD 0 : Nat) : Int) * ((dd[m].chunkLength : Nat) : Int) + ((spb[m]?.getD 0 : Nat) : Int))
        = ((c2aElem dd[m] (sbi[m]?.getD 0) (spb[m]?.getD 0) : Nat) : Int) := by
      simp [c2aElem, hc]
    simp only [c2a_chk_true, hj, hl, hl1, hl2, hl3, hl4, hl5, hv1, hv2, hv3, hv4, hv5, hb, hc', Int.toNat_natCast,
      and_self, or_true, if_false, List.length_set, hg, List.set_set, hval]

/-- loop of `compute_chunk_to_array` (index running UP): with `k` indices still to do, the first `ndims - k` cells of the OUT array
    hold the model's result -/
theorem c2a_loop (dd : List DimRec) (sbi spb : List Nat) (hs : sbi.length = dd.length) (hp : spb.length = dd.length) :
    ∀ (k fuel : Nat) (s : compute_chunk_to_array.St), k ≤ fuel → k ≤ dd.length →
      s.j = (dd.length : Int) - (k : Int) → s.ndims = (dd.length : Int) → s.array_indices.length = dd.length →
      s.array_indices.take (dd.length - k) = ints ((computeChunkToArray dd sbi spb).take (dd.length - k)) →
      s.chunk_indices = ints sbi → s.chunk_array_ind = ints spb →
      s.ddims_chunk_length = ints (cdimsOf dd) → s.ddims_num_chunks = ints (nchunksOf dd) →
      s.ddims_last_chunk_length = ints (dd.map (·.lastChunkLength)) → s.ub = false → s.oof = false →
      let s' := compute_chunk_to_array.loop0 fuel s
      s'.ub = false ∧ s'.oof = false ∧ s'.array_indices = ints (computeChunkToArray dd sbi spb) := by
  intro k
  induction k with
  | zero =>
    intro fuel s _ _ hj hn hl ht _ _ _ _ _ hub hoof
    have : ¬ (s.j < s.ndims) := by omega
    have h1 : s.array_indices.take dd.length = s.array_indices := List.take_of_length_le (by omega)
    have h2 : (computeChunkToArray dd sbi spb).take dd.length = computeChunkToArray dd sbi spb :=
      List.take_of_length_le (by rw [c2a_length]; omega)
    simp only [Nat.sub_zero, h1, h2] at ht
    cases fuel <;> simp [compute_chunk_to_array.loop0, this, hub, hoof, ht]
  | succ k ih =>
    intro fuel s hf hk hj hn hl ht hci hca hcl hnc hlc hub hoof
    obtain ⟨fuel, rfl⟩ : ∃ f, fuel = f + 1 := ⟨fuel - 1, by omega⟩
    obtain ⟨m, hm⟩ : ∃ m, dd.length = m + (k + 1) := ⟨dd.length - (k + 1), by omega⟩
    have e1 : dd.length - (k + 1) = m := by omega
    have e2 : dd.length - k = m + 1 := by omega
    rw [e1] at ht
    rw [c2a_step dd sbi spb hs hp m fuel s (by omega) (by omega) hn hl hci hca hcl hnc hlc]
    apply ih
    · omega
    · omega
    · simp only []; omega
    · exact hn
    · simp [hl]
    · simp only [e2]
      rw [take_set_succ _ _ _ (by omega), ht, take_succ_getD _ _ (by rw [c2a_length]; omega), ints_append,
        c2a_getD dd sbi spb m (by omega)]
      rfl
    · exact hci
    · exact hca
    · exact hcl
    · exact hnc
    · exact hlc
    · exact hub
    · exact hoof

/-- start of the three mixed-radix loops: `x[ndims-1]` is the model's value for the last dimension alone -/
theorem lin_last (rs xs : List Nat) (n : Nat) (hr : rs.length = n + 1) (hx : xs.length = n + 1) :
    (lin (rs.drop n) (xs.drop n)).2 = xs[n]?.getD 0 := by
  rw [drop_cons_getD rs n (by omega), drop_cons_getD xs n (by omega)]
  have : rs.drop (n + 1) = [] := by simp; omega
  simp [lin, this]

end H4.Lemmas.C04Fn
