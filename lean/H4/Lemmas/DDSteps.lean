import H4.Lemmas.DDDisk
import H4.Lemmas.DDFind
import H4.Lemmas.DDRefs
import H4.Lemmas.DDCount
/-! # The state invariant `Inv` and its preservation by the three descriptor-changing primitives -/
namespace H4.DD
open H4.Gen.Hdf H4.Bitvect

/-- the invariant of an open file: directory well formed, disk image in step, and (with the F6 fix) `maxref` above
    every ref in use -/
structure Inv (cfg : Cfg) (s : File) : Prop where
  wf : WF s
  disk : DiskOK s
  maxref : cfg.fixF6 = true → ∀ d ∈ s.live, d.ref ≤ s.maxref

/-- F3 does not bite: caching is on, or the fix is in, or `HTPcreate` finds a free slot without a new block -/
def guardF3 (cfg : Cfg) (s : File) : Bool :=
  s.cache || cfg.fixF3 || (scanFwd pNull s.blocks (s.nullBlk.getD 0) s.nullNext).isSome

/-- F4 does not bite -/
def guardF4 (cfg : Cfg) (s : File) : Bool := s.cache || cfg.fixF4

theorem allocSlot_more (cfg : Cfg) {s : File} (hw : WF s) (hd : DiskOK s) (hg : guardF3 cfg s = true) :
    DiskOK (allocSlot cfg s).2 ∧ (allocSlot cfg s).2.maxref = s.maxref ∧ (allocSlot cfg s).2.cache = s.cache := by
  unfold allocSlot
  rw [findNull_eq]
  cases hs : scanFwd pNull s.blocks (s.nullBlk.getD 0) s.nullNext with
  | some p => exact ⟨DiskOK_frame hd rfl rfl rfl rfl rfl, rfl, rfl⟩
  | none =>
    simp only
    refine ⟨newBlock_DiskOK cfg hd hw ?_, rfl, rfl⟩
    unfold guardF3 at hg
    rw [hs] at hg
    simp at hg
    exact hg

theorem htpCreate_inv (cfg : Cfg) {s : File} (h : Inv cfg s) {tag ref : Nat} (ht : 2 ≤ tag ∧ tag < 65536)
    (hr : 1 ≤ ref ∧ ref < 65536) (hfresh : ∀ d ∈ s.live, keyOf d ≠ (baseTag tag, ref)) (hg : guardF3 cfg s = true) :
    ∃ p s', htpCreate cfg s tag ref = (some p, s') ∧ Inv cfg s' ∧ Valid s'.blocks p ∧
      getDD s'.blocks p = ⟨tag, ref, -1, -1⟩ ∧ s'.live.Perm (⟨tag, ref, -1, -1⟩ :: s.live) ∧
      (∀ q, Valid s.blocks q → isLive (getDD s.blocks q) = true →
        Valid s'.blocks q ∧ getDD s'.blocks q = getDD s.blocks q ∧ q ≠ p) ∧
      s.maxref ≤ s'.maxref ∧ s'.cache = s.cache := by
  obtain ⟨p, s', hc, hwf, hv, hget, hperm, hold⟩ := htpCreate_spec cfg h.wf ht hr hfresh
  obtain ⟨av, _, atags, _, _, _, _, _⟩ := allocSlot_spec cfg h.wf
  obtain ⟨adisk, amax, acache⟩ := allocSlot_more cfg h.wf h.disk hg
  -- recompute the result to read off disk / maxref
  have hne : ¬ (tag = DFTAG_NULL ∨ tag = DFTAG_WILDCARD ∨ ref = DFREF_WILDCARD) := by
    simp only [DFTAG_NULL, DFTAG_WILDCARD, DFREF_WILDCARD]; omega
  have hnodup : ¬ (cfg.fixF17 = true ∧ (lookupDD s.tags s.blocks (baseTag tag) ref).isSome = true) := by
    intro hh
    cases hl : lookupDD s.tags s.blocks (baseTag tag) ref with
    | none => rw [hl] at hh; simp at hh
    | some q =>
      obtain ⟨hv', hlv, hk⟩ := lookupDD_some hl
      exact hfresh _ (mem_liveOf.mpr ⟨getDD_mem_slots hv', hlv⟩) hk
  have hc2 := hc
  unfold htpCreate at hc2
  rw [if_neg hne, if_neg hnodup] at hc2
  simp only at hc2
  cases hreg : register (fillSlot (allocSlot cfg s).2 (allocSlot cfg s).1 ⟨tag, ref, INVALID_OFFSET, INVALID_LENGTH⟩).tags
      ⟨tag, ref, INVALID_OFFSET, INVALID_LENGTH⟩ with
  | none => rw [hreg] at hc2; simp at hc2
  | some tags' =>
    rw [hreg] at hc2
    simp only [Prod.mk.injEq, Option.some.injEq] at hc2
    obtain ⟨hp, hs'⟩ := hc2
    have hfd := fillSlot_DiskOK adisk av ⟨tag, ref, INVALID_OFFSET, INVALID_LENGTH⟩
    have hdisk : DiskOK s' := by
      rw [← hs']
      unfold raiseMaxref
      split
      · exact DiskOK_frame hfd rfl rfl rfl rfl rfl
      · exact DiskOK_frame hfd rfl rfl rfl rfl rfl
    have hmax : s.maxref ≤ s'.maxref ∧ (cfg.fixF6 = true → ref ≤ s'.maxref) := by
      rw [← hs']
      unfold raiseMaxref
      have e : (fillSlot (allocSlot cfg s).2 (allocSlot cfg s).1 ⟨tag, ref, INVALID_OFFSET, INVALID_LENGTH⟩).maxref = s.maxref := by
        rw [fillSlot_maxref, amax]
      split
      · rename_i hcnd
        simp only [e] at hcnd ⊢
        exact ⟨by omega, fun _ => Nat.le_refl _⟩
      · rename_i hcnd
        simp only [e] at hcnd ⊢
        refine ⟨Nat.le_refl _, fun hf => ?_⟩
        by_cases hlt : ref > s.maxref
        · exact absurd ⟨hf, hlt⟩ hcnd
        · omega
    have hcache : s'.cache = s.cache := by
      rw [← hs']
      unfold raiseMaxref
      split <;> (show (fillSlot _ _ _).cache = _; rw [fillSlot_cache, acache])
    refine ⟨p, s', hc, ⟨hwf, hdisk, ?_⟩, hv, hget, hperm, hold, hmax.1, hcache⟩
    intro hf d hd
    rcases List.mem_cons.mp ((hperm.mem_iff).mp hd) with rfl | hd0
    · exact hmax.2 hf
    · exact Nat.le_trans (h.maxref hf d hd0) hmax.1

theorem live_refs_of_split {l l' pre post : List DD} {old new : DD} (h1 : l = pre ++ old :: post)
    (h2 : l' = pre ++ new :: post) (hr : isLive new = true → isLive old = true ∧ new.ref = old.ref) :
    ∀ d ∈ liveOf l', ∃ d0 ∈ liveOf l, d.ref = d0.ref := by
  intro d hd
  rw [h2] at hd; rw [h1]
  obtain ⟨hm, hl⟩ := mem_liveOf.mp hd
  rcases List.mem_append.mp hm with hm | hm
  · exact ⟨d, mem_liveOf.mpr ⟨List.mem_append.mpr (Or.inl hm), hl⟩, rfl⟩
  · rcases List.mem_cons.mp hm with rfl | hm
    · obtain ⟨ho, hrr⟩ := hr hl
      exact ⟨old, mem_liveOf.mpr ⟨by simp, ho⟩, hrr⟩
    · exact ⟨d, mem_liveOf.mpr ⟨by simp [hm], hl⟩, rfl⟩

theorem htpUpdate_inv (cfg : Cfg) {s : File} (h : Inv cfg s) {p : Pos} (hv : Valid s.blocks p)
    (hl : isLive (getDD s.blocks p) = true) (off len : Int)
    (hol : okOL (updDD (getDD s.blocks p) off len)) :
    Inv cfg (htpUpdate s p off len) ∧
    (∃ pre post, s.slots = pre ++ getDD s.blocks p :: post ∧
      (htpUpdate s p off len).slots = pre ++ updDD (getDD s.blocks p) off len :: post) ∧
    (∀ q, Valid (htpUpdate s p off len).blocks q ↔ Valid s.blocks q) ∧
    getDD (htpUpdate s p off len).blocks p = updDD (getDD s.blocks p) off len ∧
    (∀ q, q ≠ p → getDD (htpUpdate s p off len).blocks q = getDD s.blocks q) ∧
    (htpUpdate s p off len).maxref = s.maxref ∧ (htpUpdate s p off len).cache = s.cache := by
  obtain ⟨hwf, ⟨pre, post, hs1, hs2⟩, hvv, hg, ho⟩ := htpUpdate_spec h.wf hv hl off len hol
  refine ⟨⟨hwf, by unfold htpUpdate; exact fillSlot_DiskOK h.disk hv _, ?_⟩, ⟨pre, post, hs1, hs2⟩, hvv, hg, ho,
    by unfold htpUpdate; exact fillSlot_maxref _ _ _, by unfold htpUpdate; exact fillSlot_cache _ _ _⟩
  intro hf d hd
  obtain ⟨d0, hd0, hr⟩ := live_refs_of_split hs1 hs2 (fun _ => ⟨hl, rfl⟩) d hd
  have : (htpUpdate s p off len).maxref = s.maxref := by unfold htpUpdate; exact fillSlot_maxref _ _ _
  rw [this, hr]; exact h.maxref hf d0 hd0

theorem setDD_markDirty_comm (blocks : List Block) (i : Nat) (p : Pos) (d : DD) :
    setDD (blocks.modify i (fun b => { b with dirty := true })) p d =
      (setDD blocks p d).modify i (fun b => { b with dirty := true }) := by
  apply List.ext_getElem?
  intro j
  simp only [setDD, getElem?_modify']
  cases blocks[j]? with
  | none => rfl
  | some b =>
    simp only [Option.map_some]
    by_cases h1 : i = j <;> by_cases h2 : p.blk = j <;> simp [h1, h2]

theorem htiUpdateDD_blocks_cached {s : File} (hc : s.cache = true) (p : Pos) :
    (htiUpdateDD s p).blocks = s.blocks.modify p.blk (fun b => { b with dirty := true }) := by
  unfold htiUpdateDD; rw [bumpEnd_blocks]; unfold markOrWrite; rw [if_pos hc]
theorem htiUpdateDD_disk_cached {s : File} (hc : s.cache = true) (p : Pos) : (htiUpdateDD s p).disk = s.disk := by
  unfold htiUpdateDD; rw [bumpEnd_disk]; unfold markOrWrite; rw [if_pos hc]
theorem htiUpdateDD_fdirty_cached {s : File} (hc : s.cache = true) (p : Pos) : (htiUpdateDD s p).fdirty = true := by
  unfold htiUpdateDD; rw [bumpEnd_fdirty]; unfold markOrWrite; rw [if_pos hc]
theorem htiUpdateDD_fEnd_ge (s : File) (p : Pos) : s.fEnd ≤ (htiUpdateDD s p).fEnd := by
  unfold htiUpdateDD
  exact Nat.le_trans (by rw [markOrWrite_fEnd]; exact Nat.le_refl _) (bumpEnd_fEnd_ge _ _)

theorem htpDelete_inv (cfg : Cfg) {s : File} (h : Inv cfg s) {p : Pos} (hv : Valid s.blocks p)
    (hl : isLive (getDD s.blocks p) = true) (hg : guardF4 cfg s = true) :
    ∃ s', htpDelete cfg s p = (true, s') ∧ Inv cfg s' ∧
      (∃ pre post, s.slots = pre ++ getDD s.blocks p :: post ∧
        s'.slots = pre ++ { getDD s.blocks p with tag := DFTAG_NULL } :: post) ∧
      (∀ q, Valid s'.blocks q ↔ Valid s.blocks q) ∧
      (∀ q, q ≠ p → getDD s'.blocks q = getDD s.blocks q) ∧ s'.maxref = s.maxref ∧ s'.cache = s.cache := by
  obtain ⟨s', hd, hwf, ⟨pre, post, hs1, hs2⟩, hvv, ho⟩ := htpDelete_spec cfg h.wf hv hl
  have hmaxlive : ∀ m, (∀ d ∈ s.live, d.ref ≤ m) → ∀ d ∈ s'.live, d.ref ≤ m := by
    intro m hm d hdm
    obtain ⟨d0, hd0, hr⟩ := live_refs_of_split hs1 hs2 (fun hh => by simp [isLive] at hh) d hdm
    rw [hr]; exact hm d0 hd0
  -- recompute the result for the disk part
  have hd2 := hd
  unfold htpDelete at hd2
  by_cases hf : cfg.fixF4 = true
  · simp only [hf, if_true] at hd2
    cases hun : unregister s.tags (getDD s.blocks p) with
    | none => rw [hun] at hd2; simp at hd2
    | some tags' =>
      rw [hun] at hd2
      simp only [Prod.mk.injEq, true_and] at hd2
      have hd0 : DiskOK ({ s with nullBlk := none, nullNext := 0, tags := tags' } : File) :=
        DiskOK_frame h.disk rfl rfl rfl rfl rfl
      have hv0 : Valid ({ s with nullBlk := none, nullNext := 0, tags := tags' } : File).blocks p := hv
      have := fillSlot_DiskOK hd0 hv0 { getDD s.blocks p with tag := DFTAG_NULL }
      rw [hd2] at this
      have hmx : s'.maxref = s.maxref := by rw [← hd2]; exact fillSlot_maxref _ _ _
      have hch : s'.cache = s.cache := by rw [← hd2]; exact fillSlot_cache _ _ _
      exact ⟨s', hd, ⟨hwf, this, fun hf6 => by rw [hmx]; exact hmaxlive _ (h.maxref hf6)⟩, ⟨pre, post, hs1, hs2⟩, hvv, ho, hmx, hch⟩
  · have hf' : cfg.fixF4 = false := by cases hh : cfg.fixF4 <;> simp_all
    have hc : s.cache = true := by
      unfold guardF4 at hg; rw [hf'] at hg; simpa using hg
    simp only [hf', Bool.false_eq_true, if_false, htiUpdateDD_tags] at hd2
    cases hun : unregister s.tags (getDD s.blocks p) with
    | none => rw [hun] at hd2; simp at hd2
    | some tags' =>
      rw [hun] at hd2
      simp only [Prod.mk.injEq, true_and] at hd2
      let s0 : File := { s with nullBlk := none, nullNext := 0 }
      have hc0 : s0.cache = true := hc
      have hd0 : DiskOK s0 := DiskOK_frame h.disk rfl rfl rfl rfl rfl
      have hfs := fillSlot_DiskOK hd0 (show Valid s0.blocks p from hv) { getDD s.blocks p with tag := DFTAG_NULL }
      have hbl : s'.blocks = (fillSlot s0 p { getDD s.blocks p with tag := DFTAG_NULL }).blocks := by
        rw [← hd2, fillSlot_blocks, if_pos hc0]
        show setDD (htiUpdateDD s0 p).blocks p _ = _
        rw [htiUpdateDD_blocks_cached hc0, setDD_markDirty_comm]
      have hdk : s'.disk = (fillSlot s0 p { getDD s.blocks p with tag := DFTAG_NULL }).disk := by
        rw [← hd2, fillSlot_disk, if_pos hc0]
        show (htiUpdateDD s0 p).disk = _
        rw [htiUpdateDD_disk_cached hc0]
      have hca : s'.cache = s.cache := by
        rw [← hd2]; show (htiUpdateDD s0 p).cache = _; rw [htiUpdateDD_cache]
      have hfd : s'.fdirty = true := by
        rw [← hd2]; show (htiUpdateDD s0 p).fdirty = _; rw [htiUpdateDD_fdirty_cached hc0]
      have hfe : s.fEnd ≤ s'.fEnd := by
        rw [← hd2]; show s0.fEnd ≤ (htiUpdateDD s0 p).fEnd; exact htiUpdateDD_fEnd_ge s0 p
      have hmx : s'.maxref = s.maxref := by
        rw [← hd2]; show (htiUpdateDD s0 p).maxref = _; rw [htiUpdateDD_maxref]
      have hov : oview s'.blocks = oview s.blocks := by
        rw [hbl, fillSlot_blocks, if_pos hc0]
        rw [oview_modify (f := fun b => { b with dirty := true }) (fun _ => ⟨rfl, rfl⟩)]
        exact oview_modify (f := fun b => { b with dds := b.dds.set p.idx _ }) (fun _ => ⟨rfl, rfl⟩) _
      have hdisk : DiskOK s' := by
        refine ⟨by rw [hbl, hdk]; exact hfs.len, by rw [hbl, hdk]; exact hfs.clean, by rw [hbl]; exact hfs.chain, ?_, ?_⟩
        · rw [bound_congr hov]
          intro b hb; exact Nat.lt_of_lt_of_le (h.disk.bound b hb) hfe
        · intro b _ _; rw [hca, hfd]; exact ⟨hc, rfl⟩
      exact ⟨s', hd, ⟨hwf, hdisk, fun hf6 => by rw [hmx]; exact hmaxlive _ (h.maxref hf6)⟩, ⟨pre, post, hs1, hs2⟩, hvv, ho, hmx, hca⟩

end H4.DD
