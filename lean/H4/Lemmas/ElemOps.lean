import H4.Lemmas.ElemWorld
/-! One call of the model against the byte-array specification (`specStep`), with preservation of `WFW`. -/
namespace H4.Elem
open H4.Gen.Hdf

/-- the statement proved for every call -/
def StepOK (w : World) (op : Op) : Prop :=
  WFW (step w op).1 ∧ ∃ v', specStep (abs w) op (step w op).2 = some v' ∧ v'.Eqv (abs (step w op).1)

theorem Eqv.refl (v : View) : v.Eqv v := ⟨fun _ => rfl, fun _ _ _ => rfl, fun _ => rfl⟩

/-- a failed call that leaves the world alone -/
theorem stepOK_fail_same (w : World) (hw : WFW w) (op : Op) (h : step w op = (w, .fail)) : StepOK w op := by
  unfold StepOK
  rw [h]
  refine ⟨hw, abs w, ?_, Eqv.refl _⟩
  cases op <;> rfl

theorem abs_hnd (w : World) (h : Nat) :
    (abs w).hnd h = (w.acc h).map fun a => { file := a.file, key := (w.file a.file).keyOf a.slot, pos := a.posn } := rfl

theorem abs_elem (w : World) (fi : Nat) (k : Nat × Nat) : (abs w).elem fi k = (w.file fi).elem k.1 k.2 := rfl

/-- a handle stays well-formed when the DD it points to keeps tag and ref and does not lose its data -/
theorem WFH.transfer {w w' : World} {a : Acc} (h : WFH w a)
    (ht : ((w'.file a.file).dd a.slot).tag = ((w.file a.file).dd a.slot).tag)
    (hr : ((w'.file a.file).dd a.slot).ref = ((w.file a.file).dd a.slot).ref)
    (he : ((w'.file a.file).dd a.slot).ext = none → ((w.file a.file).dd a.slot).ext = none) : WFH w' a := by
  refine ⟨?_, ?_, ?_, ?_, h.special_new, h.blk⟩
  · unfold File.live; rw [ht]; exact h.live
  · unfold File.keyOf; rw [ht, hr]; exact h.user
  · rw [ht]; exact h.special_iff
  · intro hs hx; exact h.new_of_none hs (he hx)

/-- changing only the position of one access record -/
theorem WFW.setPosn {w : World} (hw : WFW w) (h : Nat) (a : Acc) (ha : w.acc h = some a) (p : Nat) :
    WFW (w.setAcc h { a with posn := p }) := by
  refine ⟨hw.files, hw.coh, ?_⟩
  intro h' a' ha'
  rw [acc_setAcc] at ha'
  by_cases e : h' = h
  · simp only [e, if_true, Option.some.injEq] at ha'
    subst ha'
    have := hw.handles h a ha
    exact ⟨this.live, this.user, this.special_iff, this.new_of_none, this.special_new, this.blk⟩
  · simp only [e, if_false] at ha'
    have := hw.handles h' a' ha'
    exact ⟨this.live, this.user, this.special_iff, this.new_of_none, this.special_new, this.blk⟩

/-- the view after changing only the position of `h` -/
theorem abs_setPosn (w : World) (h : Nat) (a : Acc) (ha : w.acc h = some a) (p : Nat) :
    ((abs w).setHnd h (some { file := a.file, key := (w.file a.file).keyOf a.slot, pos := p })).Eqv
      (abs (w.setAcc h { a with posn := p })) := by
  refine ⟨fun _ => rfl, fun _ _ _ => rfl, ?_⟩
  intro h'
  simp only [View.setHnd, abs_hnd, acc_setAcc]
  by_cases e : h' = h
  · simp [e, file_setAcc]
  · simp [e, file_setAcc]

/-! ### `Htell`, `Hinquire`, `Happendable`, `HLsetblockinfo`, `Hendaccess` -/

theorem stepOK_tell (w : World) (hw : WFW w) (h : Nat) : StepOK w (.tell h) := by
  unfold StepOK
  simp only [step, htell]
  cases ha : w.acc h with
  | none => exact ⟨hw, abs w, rfl, Eqv.refl _⟩
  | some a =>
    refine ⟨hw, abs w, ?_, Eqv.refl _⟩
    simp [specStep, abs_hnd, ha]

end H4.Elem

namespace H4.Elem
open H4.Gen.Hdf

theorem acc_key_eq (a : Acc) (f : File) : a.key f = f.keyOf a.slot := rfl

/-- the slot of a live DD is what `HTPselect` of its key finds -/
theorem select_keyOf (f : File) (hw : WFF f) (s : Nat) (hl : f.live s) : f.select (f.keyOf s).1 (f.keyOf s).2 = some s := by
  apply select_of_hasKey f hw
  exact ⟨hl, by simp [File.keyOf, baseTag_idem], rfl⟩

theorem elem_keyOf (f : File) (hw : WFF f) (s : Nat) (hl : f.live s) :
    f.elem (f.keyOf s).1 (f.keyOf s).2 = some (f.slotBytes s) := by
  unfold File.elem
  rw [select_keyOf f hw s hl]
  rfl

/-- what the element behind a well-formed access record is -/
theorem handle_elem (w : World) (hw : WFW w) (h : Nat) (a : Acc) (ha : w.acc h = some a) :
    (abs w).elem a.file ((w.file a.file).keyOf a.slot) = some ((w.file a.file).slotBytes a.slot) := by
  rw [abs_elem]
  exact elem_keyOf _ (hw.files a.file).toWFF _ (hw.handles h a ha).live

theorem linkedBytes_length (f : File) (li : LinkInfo) : (f.linkedBytes li).length = li.length := by
  simp [File.linkedBytes]

theorem stepOK_inquire (w : World) (hw : WFW w) (h : Nat) : StepOK w (.inquire h) := by
  unfold StepOK
  simp only [step, hinquire]
  cases ha : w.acc h with
  | none => exact ⟨hw, abs w, rfl, Eqv.refl _⟩
  | some a =>
    simp only
    have hh := hw.handles h a ha
    have he := handle_elem w hw h a ha
    by_cases hsp : a.special = true
    · simp only [hsp, if_true]
      have hsp' : isSpecial ((w.file a.file).dd a.slot).tag = true := by rw [← hh.special_iff]; exact hsp
      obtain ⟨li, ho, hl, h1, h2, _, _⟩ := (hw.files a.file).linked_ok a.slot hh.live hsp'
      rw [acc_key_eq, h1]
      refine ⟨hw, abs w, ?_, Eqv.refl _⟩
      simp only [specStep, abs_hnd, ha, Option.map_some, he, slotBytes_special _ _ hsp', h1, lenI, linkedBytes_length]
      simp
    · have hsp0 : a.special = false := by simpa using hsp
      simp only [hsp0, Bool.false_eq_true, if_false]
      have hsp' : isSpecial ((w.file a.file).dd a.slot).tag = false := by rw [← hh.special_iff]; exact hsp0
      refine ⟨hw, abs w, ?_, Eqv.refl _⟩
      simp only [specStep, abs_hnd, ha, Option.map_some, he, slotBytes_plain _ _ hsp']
      cases hext : ((w.file a.file).dd a.slot).ext with
      | none => simp [ddLen, hext, lenI, INVALID_LENGTH]
      | some e => simp [ddLen, hext, lenI, bytesAt_length]

end H4.Elem

namespace H4.Elem
open H4.Gen.Hdf

theorem specRead_range (g : Nat → UInt8) (L p c : Nat) (h : p + c ≤ L) :
    specRead ((List.range L).map g) p c = (List.range c).map (fun j => g (p + j)) := by
  unfold specRead
  apply List.ext_getElem?
  intro i
  simp only [List.getElem?_take, List.getElem?_drop, List.getElem?_map]
  by_cases hi : i < c
  · simp only [hi, if_true, List.getElem?_range hi, Option.map_some]
    rw [List.getElem?_range (by omega : p + i < L)]
    rfl
  · simp only [hi, if_false]
    rw [List.getElem?_eq_none (by simp; omega : (List.range c).length ≤ i)]
    rfl

theorem readCount_le (L p n : Nat) : p + readCount L p n ≤ max L p := by
  unfold readCount
  split
  · omega
  · split <;> omega

/-! ### `HIrefresh_new`: the calls that start with it are proved in two steps -/

/-- `Hread`/`Hwrite`/`Hsetlength` after `HIrefresh_new` (every other call as it is) -/
def stepC (w : World) : Op → World × Res
  | .read h n => hreadCore w h n
  | .write h bs => hwriteCore w h bs
  | .setlength h len => hsetlengthCore w h len
  | op => step w op

def StepOKC (w : World) (op : Op) : Prop :=
  WFW (stepC w op).1 ∧ ∃ v', specStep (abs w) op (stepC w op).2 = some v' ∧ v'.Eqv (abs (stepC w op).1)

theorem stepOKC_fail_same (w : World) (hw : WFW w) (op : Op) (h : stepC w op = (w, .fail)) : StepOKC w op := by
  unfold StepOKC
  rw [h]
  refine ⟨hw, abs w, ?_, Eqv.refl _⟩
  cases op <;> rfl

/-- the "new" flag of `h` is not stale -/
def Fresh (w : World) (h : Nat) : Prop :=
  ∀ a, w.acc h = some a → a.newElem = true → a.special = false → ((w.file a.file).dd a.slot).ext = none

theorem refresh_fields (a : Acc) (f : File) :
    (a.refresh f).file = a.file ∧ (a.refresh f).slot = a.slot ∧ (a.refresh f).posn = a.posn ∧
    (a.refresh f).special = a.special ∧ (a.refresh f).appendable = a.appendable ∧ (a.refresh f).canWrite = a.canWrite ∧
    (a.refresh f).blockSize = a.blockSize ∧ (a.refresh f).numBlocks = a.numBlocks ∧
    ((a.refresh f).newElem = true → a.newElem = true ∧ (a.special = false → (f.dd a.slot).ext = none)) ∧
    (a.newElem = false → (a.refresh f).newElem = false) := by
  unfold Acc.refresh
  split
  · rename_i c
    refine ⟨rfl, rfl, rfl, rfl, rfl, rfl, rfl, rfl, ?_, fun _ => rfl⟩
    intro hc; exact absurd (show false = true from hc) (by decide)
  · rename_i c
    refine ⟨rfl, rfl, rfl, rfl, rfl, rfl, rfl, rfl, ?_, id⟩
    intro hn
    refine ⟨hn, fun hs => ?_⟩
    cases hx : (f.dd a.slot).ext with
    | none => rfl
    | some e => exact absurd ⟨hn, hs, by rw [hx]; exact fun c => by cases c⟩ c

theorem refresh_none (w : World) (h : Nat) (ha : w.acc h = none) : w.refresh h = w := by
  unfold World.refresh; rw [ha]

theorem refresh_spec (w : World) (hw : WFW w) (h : Nat) :
    WFW (w.refresh h) ∧ abs (w.refresh h) = abs w ∧ Fresh (w.refresh h) h ∧ (∀ j, (w.refresh h).file j = w.file j) ∧
    (∀ a, w.acc h = some a → (w.refresh h).acc h = some (a.refresh (w.file a.file))) ∧
    (∀ h', h' ≠ h → (w.refresh h).acc h' = w.acc h') := by
  have hdec : w.acc h = none ∨ ∃ a, w.acc h = some a := by cases w.acc h <;> simp
  rcases hdec with ha | ⟨a, ha⟩
  · rw [refresh_none w h ha]
    refine ⟨hw, rfl, ?_, fun _ => rfl, ?_, fun _ _ => rfl⟩
    · intro a ha'; rw [ha] at ha'; cases ha'
    · intro a ha'; rw [ha] at ha'; cases ha'
  · obtain ⟨r1, r2, r3, r4, r5, r6, r7, r8, r9, r10⟩ := refresh_fields a (w.file a.file)
    have hh := hw.handles h a ha
    by_cases hsame : a.refresh (w.file a.file) = a
    · have e : w.refresh h = w := by unfold World.refresh; rw [ha]; simp only; rw [if_pos hsame]
      rw [e]
      refine ⟨hw, rfl, ?_, fun _ => rfl, fun a' ha' => by rw [ha] at ha'; cases ha'; rw [hsame]; exact ha, fun _ _ => rfl⟩
      intro a' ha' hn hs
      rw [ha] at ha'; cases ha'
      rw [← hsame] at hn
      exact (r9 hn).2 hs
    · have e : w.refresh h = w.setAcc h (a.refresh (w.file a.file)) := by
        unfold World.refresh; rw [ha]; simp only; rw [if_neg hsame]
      rw [e]
      refine ⟨⟨hw.files, hw.coh, ?_⟩, ?_, ?_, fun _ => rfl, ?_, ?_⟩
      · intro h' a'' ha''
        rw [acc_setAcc] at ha''
        by_cases c : h' = h
        · simp only [c, if_true, Option.some.injEq] at ha''
          subst ha''
          refine ⟨?_, ?_, ?_, ?_, ?_, ?_⟩
          · show (w.file (a.refresh (w.file a.file)).file).live (a.refresh (w.file a.file)).slot; rw [r1, r2]; exact hh.live
          · show UserKey ((w.file (a.refresh (w.file a.file)).file).keyOf (a.refresh (w.file a.file)).slot); rw [r1, r2]; exact hh.user
          · show (a.refresh (w.file a.file)).special = isSpecial ((w.file (a.refresh (w.file a.file)).file).dd (a.refresh (w.file a.file)).slot).tag
            rw [r1, r2, r4]; exact hh.special_iff
          · show (a.refresh (w.file a.file)).special = false → ((w.file (a.refresh (w.file a.file)).file).dd (a.refresh (w.file a.file)).slot).ext = none → _
            rw [r1, r2, r4]
            intro hs hx
            have hn := hh.new_of_none hs hx
            unfold Acc.refresh
            rw [if_neg (fun c => c.2.2 hx)]
            exact hn
          · rw [r4]; intro hs
            have := hh.special_new hs
            exact r10 this
          · rw [r7, r8]; exact hh.blk
        · simp only [c, if_false] at ha''
          have := hw.handles h' a'' ha''
          exact ⟨this.live, this.user, this.special_iff, this.new_of_none, this.special_new, this.blk⟩
      · -- the view does not see the flag
        show abs (w.setAcc h (a.refresh (w.file a.file))) = abs w
        unfold abs
        congr 1
        funext h'
        rw [acc_setAcc]
        by_cases c : h' = h
        · subst c
          simp only [if_true, ha, Option.map_some, file_setAcc, r1, r2, r3]
        · simp only [c, if_false, file_setAcc]
      · intro a' ha' hn hs
        rw [acc_setAcc, if_pos rfl] at ha'
        simp only [Option.some.injEq] at ha'
        subst ha'
        show ((w.file (a.refresh (w.file a.file)).file).dd (a.refresh (w.file a.file)).slot).ext = none
        rw [r1, r2]
        rw [r4] at hs
        exact (r9 hn).2 hs
      · intro a' ha'
        rw [ha] at ha'; cases ha'
        rw [acc_setAcc, if_pos rfl]
      · intro h' hne
        rw [acc_setAcc, if_neg hne]

/-- from the call after `HIrefresh_new` to the call -/
theorem stepOK_of_core (w : World) (hw : WFW w) (h : Nat) (op : Op) (hop : step w op = stepC (w.refresh h) op)
    (hc : StepOKC (w.refresh h) op) : StepOK w op := by
  obtain ⟨_, hv, _⟩ := refresh_spec w hw h
  unfold StepOK
  unfold StepOKC at hc
  rw [hop]
  rw [hv] at hc
  exact hc

theorem stepOKC_read (w : World) (hw : WFW w) (h : Nat) (n : Int) : StepOKC w (.read h n) := by
  cases ha : w.acc h with
  | none => exact stepOKC_fail_same w hw _ (by simp [stepC, hreadCore, ha])
  | some a =>
    have hh := hw.handles h a ha
    have he := handle_elem w hw h a ha
    by_cases hnew : a.newElem = true
    · exact stepOKC_fail_same w hw _ (by simp [stepC, hreadCore, ha, hnew])
    have hnew0 : a.newElem = false := by simpa using hnew
    by_cases hsp : a.special = true
    · -- linked blocks
      have hsp' : isSpecial ((w.file a.file).dd a.slot).tag = true := by rw [← hh.special_iff]; exact hsp
      obtain ⟨li, ho, hl, h1, h2, _, _⟩ := (hw.files a.file).linked_ok a.slot hh.live hsp'
      have hstep : stepC w (.read h n) =
          match hlpRead (w.file a.file) li a.posn n with
          | .data c buf => (w.setAcc h { a with posn := a.posn + c.toNat }, .data c buf)
          | r => (w, r) := by
        simp only [stepC, hreadCore, ha]
        rw [if_neg hnew, if_pos hsp]
        simp only [acc_key_eq, h1]
        cases hlpRead (w.file a.file) li a.posn n <;> rfl
      by_cases hn : 0 ≤ n
      · rcases hlpRead_spec (w.file a.file) li h2 a.posn n hn with hr | hr
        · exact stepOKC_fail_same w hw _ (by rw [hstep, hr])
        · unfold StepOKC
          rw [hstep, hr]
          simp only
          refine ⟨hw.setPosn h a ha _, _, ?_, abs_setPosn w h a ha _⟩
          simp only [specStep, abs_hnd, ha, Option.map_some, he, slotBytes_special _ _ hsp', h1, linkedBytes_length]
          have hle : a.posn + readCount li.length a.posn n.toNat ≤ li.length ∨ readCount li.length a.posn n.toNat = 0 := by
            unfold readCount
            split
            · right; rfl
            · left; split <;> omega
          have hbuf : (List.range (readCount li.length a.posn n.toNat)).map (fun j => (w.file a.file).lbyte li (a.posn + j)) =
              specRead ((w.file a.file).linkedBytes li) a.posn (readCount li.length a.posn n.toNat) := by
            rcases hle with hle | hle
            · unfold File.linkedBytes; rw [specRead_range _ _ _ _ hle]
            · rw [hle]; simp [specRead]
          rw [hbuf]
          simp [hn]
      · exact stepOKC_fail_same w hw _ (by rw [hstep]; simp [hlpRead, (by omega : n < 0)])
    · -- contiguous
      have hsp0 : a.special = false := by simpa using hsp
      have hsp' : isSpecial ((w.file a.file).dd a.slot).tag = false := by rw [← hh.special_iff]; exact hsp0
      have hext : ((w.file a.file).dd a.slot).ext ≠ none := by
        intro e; have := hh.new_of_none hsp0 e; rw [hnew0] at this; exact absurd this (by decide)
      cases hx : ((w.file a.file).dd a.slot).ext with
      | none => exact absurd hx hext
      | some e =>
        obtain ⟨o, l⟩ := e
        by_cases hn : n < 0
        · exact stepOKC_fail_same w hw _ (by simp [stepC, hreadCore, ha, hnew0, hsp0, hn])
        have hn0 : 0 ≤ n := by omega
        have hdl : ddLen ((w.file a.file).dd a.slot) = (l : Int) := by simp [ddLen, hx]
        have hdo : (ddOff ((w.file a.file).dd a.slot)).toNat = o := by simp [ddOff, hx]
        have hstep : stepC w (.read h n) =
            let len : Int := if n = 0 ∨ n + a.posn > l then (l : Int) - a.posn else n
            if len < 0 then (w, .data 0 [])
            else match (w.file a.file).hpRead (o + a.posn) len.toNat with
              | none => (w, .fail)
              | some bs => (w.setAcc h { a with posn := a.posn + len.toNat }, .data len bs) := by
          simp only [stepC, hreadCore, ha]
          rw [if_neg hnew, if_neg hsp, if_neg hn]
          simp only [hdl, hdo]
          split
          · rfl
          · cases (w.file a.file).hpRead (o + a.posn) (if n = 0 ∨ n + (a.posn : Int) > l then (l : Int) - a.posn else n).toNat <;> rfl
        by_cases hlen : (if n = 0 ∨ n + a.posn > l then (l : Int) - a.posn else n) < 0
        · -- positioned beyond the end: 0 bytes (21b8ab5)
          unfold StepOKC
          rw [hstep]; simp only [hlen, if_true]
          have hrc : readCount l a.posn n.toNat = 0 := by
            unfold readCount
            have : a.posn ≥ l := by split at hlen <;> omega
            simp [this]
          refine ⟨hw, (abs w).setHnd h (some { file := a.file, key := (w.file a.file).keyOf a.slot, pos := a.posn + 0 }), ?_, ?_⟩
          · simp only [specStep, abs_hnd, ha, Option.map_some, he, slotBytes_plain _ _ hsp', hx, bytesAt_length, hrc]
            simp [hn0, specRead]
          · refine ⟨fun _ => rfl, fun _ _ _ => rfl, ?_⟩
            intro h'
            simp only [View.setHnd, abs_hnd]
            by_cases e : h' = h
            · simp [e, ha]
            · simp [e]
        · have hlen' : ¬ ((if n = 0 ∨ n + (a.posn : Int) > l then (l : Int) - a.posn else n) < 0) := hlen
          have hrc : (if n = 0 ∨ n + (a.posn : Int) > l then (l : Int) - a.posn else n).toNat = readCount l a.posn n.toNat ∧
              a.posn + readCount l a.posn n.toNat ≤ l := by
            unfold readCount
            by_cases hc : n = 0 ∨ n + (a.posn : Int) > l
            · rw [if_pos hc] at hlen' ⊢
              have hpl : a.posn ≤ l := by omega
              by_cases hge : a.posn ≥ l
              · simp only [hge, if_true]; omega
              · simp only [hge, if_false]
                have : n.toNat = 0 ∨ a.posn + n.toNat > l := by omega
                simp only [this, if_true]; omega
            · rw [if_neg hc] at hlen' ⊢
              have hge : ¬ (a.posn ≥ l) := by omega
              have : ¬ (n.toNat = 0 ∨ a.posn + n.toNat > l) := by omega
              simp only [hge, this, if_false]
              exact ⟨trivial, by omega⟩
          cases hdr : (w.file a.file).hpRead (o + a.posn) (readCount l a.posn n.toNat) with
          | none => exact stepOKC_fail_same w hw _ (by rw [hstep]; simp only [hlen', if_false, hrc.1, hdr])
          | some bs =>
            unfold StepOKC
            rw [hstep]
            simp only [hlen', if_false, hrc.1, hdr]
            refine ⟨hw.setPosn h a ha _, _, ?_, abs_setPosn w h a ha _⟩
            have hbs := plain_read_bytes (w.file a.file) o l a.posn _ bs hrc.2 hdr
            simp only [specStep, abs_hnd, ha, Option.map_some, he, slotBytes_plain _ _ hsp', hx, bytesAt_length]
            rw [← hbs]
            have : (if n = 0 ∨ n + (a.posn : Int) > l then (l : Int) - a.posn else n) = (readCount l a.posn n.toNat : Nat) := by
              have := hrc.1; omega
            simp [hn0, this]


theorem stepOK_read (w : World) (hw : WFW w) (h : Nat) (n : Int) : StepOK w (.read h n) :=
  stepOK_of_core w hw h (.read h n) rfl (stepOKC_read (w.refresh h) (refresh_spec w hw h).1 h n)

end H4.Elem

namespace H4.Elem
open H4.Gen.Hdf

/-- elements are looked up by key: same registrations and same bytes give the same element -/
theorem elem_frame {f f' : File} (hw : WFF f) (hw' : WFF f') (t r : Nat)
    (hk : ∀ j, f'.hasKey j t r ↔ f.hasKey j t r)
    (hb : ∀ j, f.hasKey j t r → f'.slotBytes j = f.slotBytes j) : f'.elem t r = f.elem t r := by
  unfold File.elem
  cases hs : f.select t r with
  | none =>
    have : f'.select t r = none := select_none_of f' t r (fun j hj => select_none f t r hs j ((hk j).mp hj))
    rw [this]; rfl
  | some j =>
    have hj := select_some f t r j hs
    rw [select_of_hasKey f' hw' t r j ((hk j).mpr hj)]
    simp only [Option.map_some]
    rw [hb j hj]

theorem hasKey_congr {f f' : File} {j t r : Nat} (ht : (f'.dd j).tag = (f.dd j).tag) (hr : (f'.dd j).ref = (f.dd j).ref) :
    f'.hasKey j t r ↔ f.hasKey j t r := by
  unfold File.hasKey File.live; rw [ht, hr]

/-- replace file `fi` and access record `h`: the world stays well-formed if the new file is, the record fits it, and every
    other record on the file still points to a DD of the same shape -/
theorem WFW.update {w : World} (hw : WFW w) (fi : Nat) (hfi : fi < w.files.length) (f' : File) (hE : WFE f') (hC : Coh f')
    (h : Nat) (a' : Acc) (haf : a'.file = fi)
    (hH : f'.live a'.slot ∧ UserKey (f'.keyOf a'.slot) ∧ a'.special = isSpecial (f'.dd a'.slot).tag ∧
      (a'.special = false → (f'.dd a'.slot).ext = none → a'.newElem = true) ∧ (a'.special = true → a'.newElem = false) ∧
      (1 ≤ a'.blockSize ∧ 1 ≤ a'.numBlocks))
    (hothers : ∀ h' a'', h' ≠ h → w.acc h' = some a'' → a''.file = fi →
      (f'.dd a''.slot).tag = ((w.file fi).dd a''.slot).tag ∧ (f'.dd a''.slot).ref = ((w.file fi).dd a''.slot).ref ∧
      ((f'.dd a''.slot).ext = none → ((w.file fi).dd a''.slot).ext = none)) :
    WFW ((w.setFile fi f').setAcc h a') := by
  have hfile : ∀ j, ((w.setFile fi f').setAcc h a').file j = if j = fi then f' else w.file j := by
    intro j; rw [file_setAcc, file_setFile w fi j f' hfi]
  refine ⟨?_, ?_, ?_⟩
  · intro j; rw [hfile]; split
    · exact hE
    · exact hw.files j
  · intro j; rw [hfile]; split
    · exact hC
    · exact hw.coh j
  · intro h' a'' ha''
    rw [acc_setAcc, acc_setFile] at ha''
    by_cases e : h' = h
    · simp only [e, if_true, Option.some.injEq] at ha''
      subst ha''
      have hf : ((w.setFile fi f').setAcc h a').file a'.file = f' := by rw [hfile, haf]; simp
      exact ⟨by rw [hf]; exact hH.1, by rw [hf]; exact hH.2.1, by rw [hf]; exact hH.2.2.1, by rw [hf]; exact hH.2.2.2.1, hH.2.2.2.2.1, hH.2.2.2.2.2⟩
    · simp only [e, if_false] at ha''
      have hold := hw.handles h' a'' ha''
      by_cases ef : a''.file = fi
      · have hf : ((w.setFile fi f').setAcc h a').file a''.file = f' := by rw [hfile, ef]; simp
        obtain ⟨h1, h2, h3⟩ := hothers h' a'' e ha'' ef
        rw [← ef] at h1 h2 h3
        exact hold.transfer (by rw [hf]; exact h1) (by rw [hf]; exact h2) (by rw [hf]; exact h3)
      · have hf : ((w.setFile fi f').setAcc h a').file a''.file = w.file a''.file := by rw [hfile]; simp [ef]
        exact hold.transfer (by rw [hf]) (by rw [hf]) (by rw [hf]; exact id)

/-- the view after replacing file `fi` (one element of it changed to `x`) and access record `h` -/
theorem abs_update {w : World} (hw : WFW w) (fi : Nat) (hfi : fi < w.files.length) (f' : File) (hw' : WFF f')
    (h : Nat) (a' : Acc) (haf : a'.file = fi) (k : Nat × Nat) (x : Option (Option Bytes))
    (hpres : f'.present = (w.file fi).present)
    (hk : f'.elem k.1 k.2 = x)
    (hframe : ∀ k', UserKey k' → k' ≠ k → f'.elem k'.1 k'.2 = (w.file fi).elem k'.1 k'.2)
    (hkeys : ∀ h' a'', h' ≠ h → w.acc h' = some a'' → a''.file = fi → f'.keyOf a''.slot = (w.file fi).keyOf a''.slot) :
    (((abs w).setElem fi k x).setHnd h (some { file := fi, key := f'.keyOf a'.slot, pos := a'.posn })).Eqv
      (abs ((w.setFile fi f').setAcc h a')) := by
  have hfile : ∀ j, ((w.setFile fi f').setAcc h a').file j = if j = fi then f' else w.file j := by
    intro j; rw [file_setAcc, file_setFile w fi j f' hfi]
  refine ⟨?_, ?_, ?_⟩
  · intro j
    show (w.file j).present = (((w.setFile fi f').setAcc h a').file j).present
    rw [hfile]; split
    · rename_i e; rw [e, hpres]
    · rfl
  · intro j k' hu
    show (if j = fi ∧ k' = k then x else (w.file j).elem k'.1 k'.2) = (((w.setFile fi f').setAcc h a').file j).elem k'.1 k'.2
    rw [hfile]
    by_cases ej : j = fi
    · by_cases ek : k' = k
      · simp only [ej, ek, and_self, if_true]; exact hk.symm
      · simp only [ej, ek, and_false, if_false, if_true]
        exact (hframe k' hu ek).symm
    · simp [ej]
  · intro h'
    simp only [View.setHnd, View.setElem, abs_hnd, acc_setAcc, acc_setFile]
    by_cases e : h' = h
    · simp only [e, if_true, Option.map_some]
      rw [hfile, haf]; simp
    · simp only [e, if_false]
      cases ha : w.acc h' with
      | none => rfl
      | some a'' =>
        simp only [Option.map_some]
        rw [hfile]
        by_cases ef : a''.file = fi
        · simp only [ef, if_true]
          rw [hkeys h' a'' e ha ef]
        · simp [ef]

end H4.Elem

namespace H4.Elem
open H4.Gen.Hdf

theorem keyOf_user_ne_linked {f : File} {s : Nat} (h : UserKey (f.keyOf s)) : baseTag (f.dd s).tag ≠ DFTAG_LINKED := h.2.1

theorem setFile_setFile (w : World) (i : Nat) (f g : File) : (w.setFile i f).setFile i g = w.setFile i g := by
  unfold World.setFile
  simp only [List.set_set]

theorem filter_filter_ne (l : List (Nat × Acc)) (h : Nat) :
    (l.filter (fun p => p.1 != h)).filter (fun p => p.1 != h) = l.filter (fun p => p.1 != h) := by
  rw [List.filter_filter]; congr 1; funext p; simp

theorem setAcc_setAcc (w : World) (h : Nat) (a b : Acc) : (w.setAcc h a).setAcc h b = w.setAcc h b := by
  unfold World.setAcc
  simp only [List.filter_cons, bne_self_eq_false, Bool.false_eq_true, if_false, filter_filter_ne]

theorem setAcc_setFile_comm (w : World) (h : Nat) (a : Acc) (i : Nat) (f : File) :
    (w.setAcc h a).setFile i f = (w.setFile i f).setAcc h a := rfl

/-- the result of a call that ends in `setFile`/`setAcc` does not depend on what was there before -/
theorem restart (w : World) (i : Nat) (f g : File) (h : Nat) (a b : Acc) :
    (((w.setFile i f).setAcc h a).setFile i g).setAcc h b = (w.setFile i g).setAcc h b := by
  rw [setAcc_setFile_comm, setFile_setFile, setAcc_setAcc]

end H4.Elem
