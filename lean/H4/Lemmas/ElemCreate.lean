import H4.Lemmas.ElemConvert
/-! `HLcreate` on a tag/ref that has no data: a linked-block element without blocks is the empty byte string. -/
namespace H4.Elem
open H4.Gen.Hdf

/-- what creating an empty linked-block element `tag/ref` achieves -/
structure Made (f : File) (tag ref : Nat) (f' : File) (s' : Nat) : Prop where
  wfe : WFE f'
  live' : f'.live s'
  special' : isSpecial (f'.dd s').tag = true
  key' : f'.keyOf s' = (tag, ref)
  bytes : f'.slotBytes s' = some []
  others : ∀ x, f.live x → f'.dd x = f.dd x ∧ f'.slotBytes x = f.slotBytes x
  new_slots : ∀ x, f'.live x → f.live x ∨ x = s' ∨ (f'.dd x).tag = DFTAG_LINKED
  present : f'.present = f.present

/-- the file `HLcreate` builds for an element without data -/
def File.mkLinked (f : File) (tag ref blen nblk : Nat) : File × Nat :=
  let c := f.ddCreate (mkSpecial tag) ref
  let r := c.1.writeLinkHdr c.2 0 blen nblk 0
  (r.1.setLink (tag, ref) r.2, c.2)

theorem firstInfo_zero_blockRef (blen nblk lr t idx : Nat) (hn : 1 ≤ nblk) : (firstInfo 0 blen nblk lr 0).blockRef t idx = 0 := by
  rw [firstInfo_blockRef _ _ _ _ _ _ _ hn]; split <;> rfl

theorem mkLinked_spec (f : File) (hw : WFE f) (tag ref blen nblk : Nat) (hsp : isSpecial tag = false)
    (hlt : tag < H4.Gen.Elem.SPECIAL_TAG_BIT) (hut : tag ≠ DFTAG_LINKED) (hfresh : ∀ x, ¬ f.hasKey x tag ref)
    (hb : 1 ≤ blen) (hn : 1 ≤ nblk) :
    Made f tag ref (f.mkLinked tag ref blen nblk).1 (f.mkLinked tag ref blen nblk).2 := by
  obtain ⟨hmk1, hmk2, hmk3, hmk4⟩ := mkSpecial_user tag hlt
  have hbt : baseTag tag = tag := baseTag_not_special _ hsp
  have fresh4 : ∀ x, ¬ f.hasKey x (mkSpecial tag) ref := by
    intro x hk
    exact hfresh x ⟨hk.1, by rw [hk.2.1, hmk3, hbt], hk.2.2⟩
  have C4 := ddCreate_spec f (mkSpecial tag) ref hw.ndds_pos hw.tail0
  have W4 := C4.wff hw.toWFF hmk4 fresh4
  unfold File.mkLinked
  simp only
  generalize hc4 : f.ddCreate (mkSpecial tag) ref = c4 at C4 W4
  obtain ⟨f4, s'⟩ := c4
  simp only at C4 W4 ⊢
  have hs'free : ¬ f.live s' := fun h => h C4.was_free
  rw [writeLinkHdr_eq]
  simp only
  have fresh5 := tagNewRef_fresh f4 DFTAG_LINKED
  generalize hlr : f4.tagNewRef DFTAG_LINKED = lr at fresh5
  have S5 := setLength_spec f4 s' 16 C4.lt W4.tail0
  have hl4s' : f4.live s' := by unfold File.live; rw [C4.dd_new]; exact hmk4
  have W5 := S5.wff W4 hl4s' (by rw [C4.dd_new])
  generalize hsl : f4.setLength s' 16 = sl at S5 W5
  obtain ⟨f5, hoff⟩ := sl
  simp only at S5 W5 ⊢
  have hfit : hoff + (linkHdr 0 blen nblk lr).length ≤ f5.endOff := by rw [linkHdr_length, S5.end_eq, S5.off_eq]; exact Nat.le_refl _
  have W6 := pwrite_wff f5 W5 hoff (linkHdr 0 blen nblk lr) hfit
  rw [endOff_max_noop _ _ (by show hoff + 16 ≤ f5.endOff; rw [S5.end_eq, S5.off_eq]; exact Nat.le_refl _)]
  have hdd6 : ∀ x, (f5.pwrite hoff (linkHdr 0 blen nblk lr)).dd x =
      if x = s' then { tag := mkSpecial tag, ref := ref, ext := some (hoff, 16) } else f.dd x := by
    intro x
    rw [pwrite_dd]
    by_cases e : x = s'
    · subst e; rw [S5.dd_new, C4.dd_new]; simp
    · rw [S5.dd_keep x e, C4.dd_keep x e]; simp [e]
  have fresh6 : ∀ x, ¬ (f5.pwrite hoff (linkHdr 0 blen nblk lr)).hasKey x DFTAG_LINKED lr := by
    intro x hk
    apply fresh5 x
    unfold File.hasKey File.live at *
    rw [hdd6] at hk
    by_cases e : x = s'
    · subst e
      simp only [if_true] at hk
      rw [C4.dd_new]; exact hk
    · simp only [e, if_false] at hk
      rw [C4.dd_keep x e]; exact hk
  obtain ⟨E7, W7⟩ := newTable_spec _ W6 lr nblk fresh6
  generalize hf7 : (f5.pwrite hoff (linkHdr 0 blen nblk lr)).newTable lr nblk = f7 at E7 W7
  have hoff_ge : f.endOff ≤ hoff := by rw [S5.off_eq]; exact C4.end_le
  have hlive6 : ∀ x, (f5.pwrite hoff (linkHdr 0 blen nblk lr)).live x ↔ (f.live x ∨ x = s') := by
    intro x
    unfold File.live
    rw [hdd6]
    by_cases e : x = s'
    · subst e; simp [hmk4]
    · simp [e]
  have hdd7 : ∀ x, (f.live x ∨ x = s') → (f7.setLink (tag, ref) (firstInfo 0 blen nblk lr 0)).dd x =
      if x = s' then { tag := mkSpecial tag, ref := ref, ext := some (hoff, 16) } else f.dd x := by
    intro x hx
    rw [setLink_dd, E7.dd_keep x ((hlive6 x).mpr hx), hdd6]
  have hrd7 : ∀ y, y < f.endOff → rd f7.disk y = rd f.disk y := by
    intro y hy
    rw [E7.rd_keep, pwrite_rd]
    have : ¬ (hoff ≤ y ∧ y < hoff + (linkHdr 0 blen nblk lr).length) := by omega
    rw [if_neg this, S5.rd_keep, C4.rd_keep]
  have hold_dd : ∀ x, f.live x → (f7.setLink (tag, ref) (firstInfo 0 blen nblk lr 0)).dd x = f.dd x := by
    intro x hx
    have hxs' : x ≠ s' := fun e => hs'free (e ▸ hx)
    rw [hdd7 x (Or.inl hx)]
    simp only [hxs', if_false]
  have hs'_dd : (f7.setLink (tag, ref) (firstInfo 0 blen nblk lr 0)).dd s' =
      { tag := mkSpecial tag, ref := ref, ext := some (hoff, 16) } := by
    rw [hdd7 s' (Or.inr rfl)]; simp
  have W8 : WFF (f7.setLink (tag, ref) (firstInfo 0 blen nblk lr 0)) := W7.setLink _ _
  have hlink8 : (f7.setLink (tag, ref) (firstInfo 0 blen nblk lr 0)).link (tag, ref) = some (firstInfo 0 blen nblk lr 0) :=
    link_setLink_same _ _ _
  have hlink8_ne : ∀ k, k ≠ (tag, ref) → (f7.setLink (tag, ref) (firstInfo 0 blen nblk lr 0)).link k = f.link k := by
    intro k hk
    rw [link_setLink_ne _ _ _ _ hk, link_of_links E7.links]
    show f5.link k = f.link k
    rw [link_of_links S5.links, link_of_links C4.links]
  have hpres8 : (f7.setLink (tag, ref) (firstInfo 0 blen nblk lr 0)).present = f.present := by
    show f7.present = f.present
    rw [E7.present]
    show f5.present = f.present
    rw [S5.present, C4.present]
  generalize hf8 : f7.setLink (tag, ref) (firstInfo 0 blen nblk lr 0) = f8 at hdd7 hold_dd hs'_dd W8 hlink8 hlink8_ne hpres8
  have hrd8 : ∀ y, y < f.endOff → rd f8.disk y = rd f.disk y := by
    intro y hy; rw [← hf8]; exact hrd7 y hy
  have hlive8 : ∀ x, f8.live x → f.live x ∨ x = s' ∨ (f8.dd x).tag = DFTAG_LINKED := by
    intro x hx
    have hx7 : f7.live x := by rw [← hf8] at hx; exact hx
    rcases E7.new_linked x hx7 with h6 | h6
    · rcases (hlive6 x).mp h6 with h3 | h3
      · exact Or.inl h3
      · exact Or.inr (Or.inl h3)
    · right; right; rw [← hf8]; exact h6
  have hkey_s' : f8.keyOf s' = (tag, ref) := by
    unfold File.keyOf; rw [hs'_dd]; simp only; rw [hmk3]
  have hfi : (firstInfo 0 blen nblk lr 0).firstLen = blen ∧ (firstInfo 0 blen nblk lr 0).blockLen = blen ∧
      (firstInfo 0 blen nblk lr 0).numBlocks = nblk ∧ (firstInfo 0 blen nblk lr 0).length = 0 ∧
      (firstInfo 0 blen nblk lr 0).tables.length = 1 := by simp [firstInfo]
  have hlb : ∀ i, f8.lbyte (firstInfo 0 blen nblk lr 0) i = 0 := by
    intro i
    unfold File.lbyte
    simp only
    rw [firstInfo_zero_blockRef _ _ _ _ _ hn]
    unfold File.blockByte
    rw [if_pos rfl]
  have hwfl : WFL f8 (firstInfo 0 blen nblk lr 0) := by
    refine ⟨⟨by rw [hfi.2.1]; exact hb, by rw [hfi.2.2.1]; exact hn, by rw [hfi.2.2.2.2]; exact Nat.le_refl _, ?_, ?_, ?_⟩, ?_, ?_⟩
    · intro t ht
      rw [hfi.2.2.2.2] at ht
      have : t = 0 := by omega
      subst this
      simp [firstInfo]
    · intro t idx _ _ h0
      exact absurd (firstInfo_zero_blockRef _ _ _ _ _ hn) h0
    · intro a b a' b' h0 _
      exact absurd (firstInfo_zero_blockRef _ _ _ _ _ hn) h0
    · rw [hfi.2.2.2.1]; exact Nat.zero_le _
    · intro i _; exact hlb i
  have hs'live : f8.live s' := by unfold File.live; rw [hs'_dd]; exact hmk4
  have hs'sp : isSpecial (f8.dd s').tag = true := by rw [hs'_dd]; exact hmk2
  have hkey_ne : ∀ x, f.live x → f.keyOf x ≠ (tag, ref) := by
    intro x hx e
    unfold File.keyOf at e
    simp only [Prod.mk.injEq] at e
    exact hfresh x ⟨hx, by rw [e.1, hbt], e.2⟩
  have hblk_back : ∀ (li1 : LinkInfo), WFLs f li1 → ∀ y, f8.blockSlotOf li1 y → f.blockSlotOf li1 y := by
    intro li1 hl1 y ⟨t, idx, h0, hk⟩
    obtain ⟨x0, hx0⟩ := hl1.ref_ext t idx h0
    obtain ⟨j0, hk0, _⟩ := blockExt_slot hx0
    have hk0' : f8.hasKey j0 DFTAG_LINKED (li1.blockRef t idx) := by
      unfold File.hasKey File.live at *; rw [hold_dd j0 hk0.1]; exact hk0
    have : y = j0 := W8.uniq y j0 hk.1 hk0'.1 (by rw [hk.2.1, hk0'.2.1]) (by rw [hk.2.2, hk0'.2.2])
    exact ⟨t, idx, h0, this ▸ hk0⟩
  have hblk_new : ∀ y, ¬ f8.blockSlotOf (firstInfo 0 blen nblk lr 0) y := by
    intro y ⟨t, idx, h0, _⟩
    exact h0 (firstInfo_zero_blockRef _ _ _ _ _ hn)
  have hframe : ∀ x, f.live x → f8.slotBytes x = f.slotBytes x := by
    intro x hx
    apply slotBytes_frame hw W8 x hx (T := fun _ => False)
    · intro y hy _; exact hold_dd y hy
    · exact hlink8_ne _ (hkey_ne x hx)
    · intro y hy _; exact hrd8 y hy
    · exact id
    · intro _ _ _ _ _; exact id
  have hspecial8 : ∀ x, f8.live x → isSpecial (f8.dd x).tag = true → (f.live x ∧ f8.dd x = f.dd x) ∨ x = s' := by
    intro x hx hsx
    rcases hlive8 x hx with h1 | h | h
    · exact Or.inl ⟨h1, hold_dd x h1⟩
    · exact Or.inr h
    · rw [h, isSpecial_linked] at hsx; exact absurd hsx (by decide)
  refine ⟨⟨W8, ?_, ?_, ?_⟩, hs'live, hs'sp, hkey_s', ?_, ?_, hlive8, hpres8⟩
  · intro x hx hsx
    rcases hspecial8 x hx hsx with ⟨h1, h3⟩ | h
    · rw [h3] at hsx
      obtain ⟨li1, ho1, hl1, hk1, hwl1, he1, h61⟩ := hw.linked_ok x h1 hsx
      refine ⟨li1, ho1, hl1, by rw [keyOf_eq h3, hlink8_ne _ (hkey_ne x h1)]; exact hk1, ?_, by rw [h3]; exact he1, h61⟩
      apply hwl1.frame W8
      · intro y ⟨t, idx, h0, hk⟩
        exact hold_dd y hk.1
      · intro t idx o l r h0 hbx hr
        obtain ⟨y, hyk, hye⟩ := blockExt_slot hbx
        have := hw.ext_le y o l hyk.1 hye
        exact hrd8 (o + r) (by omega)
    · subst h
      exact ⟨_, hoff, 16, by rw [hkey_s']; exact hlink8, hwfl, by rw [hs'_dd], by omega⟩
  · intro x hx hsx
    rcases hspecial8 x hx hsx with ⟨h1, h3⟩ | h
    · rw [h3] at hsx ⊢; exact hw.hdr_tag x h1 hsx
    · subst h; rw [hs'_dd]; simp only; rw [hmk3]; exact hut
  · intro x1 x2 l1 l2 y hx1 hs1 hx2 hs2 hk1 hk2 hb1 hb2
    rcases hspecial8 x1 hx1 hs1 with ⟨a1, a3⟩ | e1 <;> rcases hspecial8 x2 hx2 hs2 with ⟨b1, b3⟩ | e2
    · rw [a3] at hs1; rw [b3] at hs2
      rw [keyOf_eq a3, hlink8_ne _ (hkey_ne x1 a1)] at hk1
      rw [keyOf_eq b3, hlink8_ne _ (hkey_ne x2 b1)] at hk2
      obtain ⟨l1', _, _, h11, h12, _, _⟩ := hw.linked_ok x1 a1 hs1
      obtain ⟨l2', _, _, h21, h22, _, _⟩ := hw.linked_ok x2 b1 hs2
      rw [hk1] at h11; rw [hk2] at h21
      simp only [Option.some.injEq] at h11 h21; subst h11 h21
      exact hw.own x1 x2 l1 l2 y a1 hs1 b1 hs2 hk1 hk2 (hblk_back l1 h12.toWFLs y hb1) (hblk_back l2 h22.toWFLs y hb2)
    · exfalso
      subst e2
      rw [hkey_s', hlink8] at hk2
      simp only [Option.some.injEq] at hk2; subst hk2
      exact hblk_new y hb2
    · exfalso
      subst e1
      rw [hkey_s', hlink8] at hk1
      simp only [Option.some.injEq] at hk1; subst hk1
      exact hblk_new y hb1
    · rw [e1, e2]
  · rw [slotBytes_special _ _ hs'sp, hkey_s', hlink8]
    simp only [Option.map_some]
    congr 1
  · intro x hx
    exact ⟨hold_dd x hx, hframe x hx⟩

theorem coh_mkLinked {f : File} (h : Coh f) (tag ref blen nblk : Nat) : Coh (f.mkLinked tag ref blen nblk).1 := by
  unfold File.mkLinked
  simp only
  have h4 := coh_ddCreate h (mkSpecial tag) ref
  have hs' := ddCreate_lt _ (mkSpecial tag) ref h.ndds_pos
  exact coh_setLink (coh_writeLinkHdr h4 _ 0 blen nblk _ hs') _ _

end H4.Elem
