import H4.Lemmas.C2L
import Lean.Elab.Tactic.Basic
/-! Generic lemmas for the function-level Tie A of the RECORD CODECS: C functions (or fragments of functions) that write / read a
    record with the `UINT16ENCODE / INT16ENCODE / INT32ENCODE / UINT32ENCODE` and `…DECODE` macros of `hdf/src/hdf_priv.h` through a moving
    `uint8 *` cursor, as `gen/c2lean.py` translates them (options `twos_complement_bitops`, `wrap_signed_conv`).

    Every translated function has a state type of its own; the lemmas are therefore stated over a `Cursor σ` (how to read and write the
    buffer region, the cursor index and the `ub` flag of a state `σ`, and its `chk`) and the combinators below are the TEXT the translator
    emits for one macro, with the operand abstracted.  A function is restated as a composition of these combinators and the restatement is
    checked against the generated definition by the kernel (`kernel_rfl`), so a change of the C text (or of the macros) breaks it.
    Core only. -/
set_option linter.unusedSimpArgs false
set_option linter.unusedVariables false
namespace H4.C2L

/-- closes `a = b` with `Eq.refl a` without asking the elaborator's unifier (which unfolds long `have` chains into trees); the proof term
    is checked by the kernel when the theorem is added, like every other proof -/
elab "kernel_rfl" : tactic => do
  let g ← Lean.Elab.Tactic.getMainGoal
  let some (_, lhs, _) := (← g.getType).eq? | throwError "kernel_rfl: not an equation"
  g.assign (← Lean.Meta.mkEqRefl lhs)

/-! ## 1. the translator's bit operations (two's complement at 32 bits) -/

/-- `a & b` at an unsigned 32-bit type, as the translator writes it -/
def andU (a b : Int) : Int := (Int.ofNat (Int.toNat ((a) % 4294967296) &&& Int.toNat ((b) % 4294967296)))
/-- `a | b` at an unsigned 32-bit type -/
def orU (a b : Int) : Int := (Int.ofNat (Int.toNat ((a) % 4294967296) ||| Int.toNat ((b) % 4294967296)))
/-- `a & b` at `int` -/
def andS (a b : Int) : Int := (if (andU a b) ≥ 2147483648 then (andU a b) - 4294967296 else (andU a b))
/-- `a | b` at `int` -/
def orS (a b : Int) : Int := (if (orU a b) ≥ 2147483648 then (orU a b) - 4294967296 else (orU a b))
/-- conversion to `int32` (option `wrap_signed_conv`) -/
def wrapS32 (x : Int) : Int := (((x) + 2147483648) % 4294967296 - 2147483648)
/-- conversion to `int16` -/
def wrapS16 (x : Int) : Int := (((x) + 32768) % 65536 - 32768)

theorem andU_255 (a : Int) : andU a 255 = a % 256 := by
  unfold andU
  have h255 : Int.toNat ((255 : Int) % 4294967296) = 2 ^ 8 - 1 := by decide
  rw [h255, Nat.and_two_pow_sub_one_eq_mod]
  have h : (0 : Int) ≤ a % 4294967296 := Int.emod_nonneg _ (by decide)
  obtain ⟨n, hn⟩ := Int.eq_ofNat_of_zero_le h
  rw [hn]
  simp only [Int.toNat_natCast, Int.ofNat_eq_natCast]
  omega

theorem andS_255 (a : Int) : andS a 255 = a % 256 := by
  unfold andS
  rw [andU_255]
  have : ¬ (a % 256 ≥ 2147483648) := by omega
  simp only [this, if_false]

theorem orU_add (i a y : Nat) (hy : y < 2 ^ i) (hs : 2 ^ i * a + y < 4294967296) :
    orU ((2 ^ i * a : Nat) : Int) (y : Int) = ((2 ^ i * a + y : Nat) : Int) := by
  unfold orU
  have h1 : ((2 ^ i * a : Nat) : Int) % 4294967296 = ((2 ^ i * a : Nat) : Int) := by omega
  have h2 : (y : Int) % 4294967296 = (y : Int) := by omega
  rw [h1, h2]
  simp only [Int.toNat_natCast, Int.ofNat_eq_natCast]
  rw [← Nat.two_pow_add_eq_or_of_lt hy]

theorem orU_zero_left (y : Nat) (hy : y < 4294967296) : orU 0 (y : Int) = (y : Int) := by
  unfold orU
  have h2 : (y : Int) % 4294967296 = (y : Int) := by omega
  have h0 : Int.toNat ((0 : Int) % 4294967296) = 0 := by decide
  rw [h2, h0]
  simp

theorem signed_eq_wrap (z : Int) (h0 : 0 ≤ z) (h1 : z < 4294967296) :
    (if z ≥ 2147483648 then z - 4294967296 else z) = wrapS32 z := by
  unfold wrapS32
  split <;> omega

theorem orS_add (i a y : Nat) (hy : y < 2 ^ i) (hs : 2 ^ i * a + y < 4294967296) (x : Int) (hx : x % 4294967296 = ((2 ^ i * a : Nat) : Int)) :
    orS x (y : Int) = wrapS32 ((2 ^ i * a + y : Nat) : Int) := by
  have e : orU x (y : Int) = orU ((2 ^ i * a : Nat) : Int) (y : Int) := by
    unfold orU
    rw [hx]
    have h1 : ((2 ^ i * a : Nat) : Int) % 4294967296 = ((2 ^ i * a : Nat) : Int) := by omega
    rw [h1]
  unfold orS
  rw [e, orU_add i a y hy hs]
  exact signed_eq_wrap _ (by omega) (by omega)

theorem wrapS32_mod (n : Nat) (h : n < 4294967296) : wrapS32 (n : Int) % 4294967296 = (n : Int) := by
  unfold wrapS32; omega

/-! ## 2. the cursor of a translated state -/

/-- how a translated state holds the record buffer (`buf`, a region), the moving pointer (`pos`, an index into it) and the `ub` flag -/
structure Cursor (σ : Type) where
  buf : σ → List Int
  pos : σ → Int
  ub : σ → Bool
  setBuf : σ → List Int → σ
  setPos : σ → Int → σ
  chk : σ → (c : Prop) → [Decidable c] → σ

/-- the laws every instance satisfies by `rfl` (structure updates) -/
structure Cursor.Lawful {σ : Type} (L : Cursor σ) : Prop where
  chk_true : ∀ (s : σ) (c : Prop) [Decidable c], c → L.chk s c = s
  buf_setBuf : ∀ s b, L.buf (L.setBuf s b) = b
  pos_setBuf : ∀ s b, L.pos (L.setBuf s b) = L.pos s
  buf_setPos : ∀ s i, L.buf (L.setPos s i) = L.buf s
  pos_setPos : ∀ s i, L.pos (L.setPos s i) = i
  buf_chk : ∀ (s : σ) (c : Prop) [Decidable c], L.buf (L.chk s c) = L.buf s
  pos_chk : ∀ (s : σ) (c : Prop) [Decidable c], L.pos (L.chk s c) = L.pos s
  chk_setPos : ∀ (s : σ) (i : Int) (c : Prop) [Decidable c], L.chk (L.setPos s i) c = L.setPos (L.chk s c) i
  chk_chk : ∀ (s : σ) (c d : Prop) [Decidable c] [Decidable d], c → L.chk (L.chk s d) c = L.chk s d
  chk_and : ∀ (s : σ) (c d : Prop) [Decidable c] [Decidable d], L.chk (L.chk s c) d = L.chk s (c ∧ d)
  chk_congr : ∀ (s : σ) (c d : Prop) [Decidable c] [Decidable d], (c ↔ d) → L.chk s c = L.chk s d
  setPos_setPos : ∀ s i j, L.setPos (L.setPos s i) j = L.setPos s j

/-! ## 3. writers: the text of one byte store, and the ENCODE macros -/
section writers
variable {σ : Type} (L : Cursor σ)

/-- `*p = (uint8)(((uint32)(x) >> k) & 0xff); p++;` (`X` is the operand after its cast) -/
def pshr (s : σ) (X k : Int) : σ :=
  have s : σ := L.chk s ((0 : Int) ≤ X ∧ (0 : Int) ≤ k ∧ k < (32 : Int))
  have s : σ := L.chk s (0 ≤ L.pos s ∧ L.pos s < (L.buf s).length)
  have s : σ := L.setBuf s ((L.buf s).set (Int.toNat (L.pos s)) ((((Int.ofNat (Int.toNat (((X / 2 ^ Int.toNat (k))) % 4294967296) &&& Int.toNat ((((255) % 4294967296)) % 4294967296)))) % 256)))
  let e0 : Int := (L.pos s + 1)
  have s : σ := L.setPos s (e0)
  s

/-- `*p = (uint8)((uint32)(x) & 0xff); p++;` -/
def pandU (s : σ) (X : Int) : σ :=
  have s : σ := L.chk s (0 ≤ L.pos s ∧ L.pos s < (L.buf s).length)
  have s : σ := L.setBuf s ((L.buf s).set (Int.toNat (L.pos s)) ((((Int.ofNat (Int.toNat ((X) % 4294967296) &&& Int.toNat ((((255) % 4294967296)) % 4294967296)))) % 256)))
  let e0 : Int := (L.pos s + 1)
  have s : σ := L.setPos s (e0)
  s

/-- `*p = (uint8)((x) & 0xff); p++;` on an `int` operand -/
def pandS (s : σ) (X : Int) : σ :=
  have s : σ := L.chk s (0 ≤ L.pos s ∧ L.pos s < (L.buf s).length)
  have s : σ := L.setBuf s ((L.buf s).set (Int.toNat (L.pos s)) ((((if (Int.ofNat (Int.toNat ((X) % 4294967296) &&& Int.toNat ((255) % 4294967296))) ≥ 2147483648 then (Int.ofNat (Int.toNat ((X) % 4294967296) &&& Int.toNat ((255) % 4294967296))) - 4294967296 else (Int.ofNat (Int.toNat ((X) % 4294967296) &&& Int.toNat ((255) % 4294967296))))) % 256)))
  let e0 : Int := (L.pos s + 1)
  have s : σ := L.setPos s (e0)
  s

/-- `*p++ = (uint8)x;` (`V` is the converted value) -/
def pbyte (s : σ) (V : Int) : σ :=
  have s : σ := L.chk s (0 ≤ L.pos s ∧ L.pos s < (L.buf s).length)
  let v0 : Int := V
  let ix0 : Int := L.pos s
  let e0 : Int := (L.pos s + 1)
  have s : σ := L.setBuf s ((L.buf s).set (Int.toNat (ix0)) (v0))
  have s : σ := L.setPos s (e0)
  s

/-- `UINT16ENCODE(p, x)`: `X` = `(unsigned)(x)`, `Xl` = `x` promoted to `int` -/
def enc16 (s : σ) (X Xl : Int) : σ := pandS L (pshr L s X 8) Xl
/-- `INT16ENCODE(p, x)`: `X` = `(unsigned)(x)` -/
def enc16s (s : σ) (X : Int) : σ := pandU L (pshr L s X 8) X
/-- `INT32ENCODE(p, x)` / `UINT32ENCODE(p, x)`: `X` = `(uint32)(x)` -/
def enc32 (s : σ) (X : Int) : σ := pandU L (pshr L (pshr L (pshr L s X 24) X 16) X 8) X

/-- `*p++ = v` without the check -/
def put (s : σ) (v : Int) : σ := L.setPos (L.setBuf s ((L.buf s).set (Int.toNat (L.pos s)) v)) (L.pos s + 1)
/-- several stores -/
def putN (s : σ) (vs : List Int) : σ := vs.foldl (put L) s

theorem putN_nil (s : σ) : putN L s [] = s := rfl
theorem putN_cons (s : σ) (v : Int) (vs : List Int) : putN L s (v :: vs) = putN L (put L s v) vs := rfl
theorem putN_append (s : σ) (a b : List Int) : putN L (putN L s a) b = putN L s (a ++ b) := by
  simp [putN, List.foldl_append]

variable {L} (hL : L.Lawful)
include hL

theorem pos_put (s : σ) (v : Int) : L.pos (put L s v) = L.pos s + 1 := by simp [put, hL.pos_setPos]
theorem buf_put (s : σ) (v : Int) : L.buf (put L s v) = (L.buf s).set (Int.toNat (L.pos s)) v := by
  simp [put, hL.buf_setPos, hL.buf_setBuf]

theorem pos_putN (s : σ) (vs : List Int) : L.pos (putN L s vs) = L.pos s + vs.length := by
  induction vs generalizing s with
  | nil => simp [putN]
  | cons v vs ih => rw [putN_cons, ih, pos_put hL]; simp; omega

theorem length_buf_putN (s : σ) (vs : List Int) : (L.buf (putN L s vs)).length = (L.buf s).length := by
  induction vs generalizing s with
  | nil => simp [putN]
  | cons v vs ih => rw [putN_cons, ih, buf_put hL]; simp

/-- the stores of `putN` overwrite `vs.length` cells from the cursor on -/
theorem buf_putN (s : σ) (vs : List Int) (k : Nat) (hk : L.pos s = k) (hb : k + vs.length ≤ (L.buf s).length) :
    L.buf (putN L s vs) = (L.buf s).take k ++ vs ++ (L.buf s).drop (k + vs.length) := by
  induction vs generalizing s k with
  | nil => simp [putN]
  | cons v vs ih =>
    simp only [List.length_cons] at hb
    have hb' : k + 1 + vs.length ≤ (L.buf (put L s v)).length := by
      rw [buf_put hL]; simp; omega
    rw [putN_cons, ih (put L s v) (k + 1) (by rw [pos_put hL, hk]; omega) hb', buf_put hL, hk]
    simp only [Int.toNat_natCast, List.length_cons]
    have hkl : k < (L.buf s).length := by omega
    rw [take_set_succ _ _ _ hkl, List.drop_set_of_lt (by omega)]
    simp only [List.append_assoc, List.cons_append, List.nil_append]
    rw [show k + 1 + vs.length = k + (vs.length + 1) by omega]

theorem pshr_eq (s : σ) (X k : Int) (hX : 0 ≤ X) (hk : k = 8 ∨ k = 16 ∨ k = 24) (hb : 0 ≤ L.pos s ∧ L.pos s < (L.buf s).length) :
    pshr L s X k = put L s ((X / 2 ^ k.toNat) % 256) := by
  have c1 : (0 : Int) ≤ X ∧ (0 : Int) ≤ k ∧ k < (32 : Int) := by omega
  have e : ((Int.ofNat (Int.toNat (((X / 2 ^ Int.toNat (k))) % 4294967296) &&& Int.toNat ((((255 : Int)) % 4294967296) % 4294967296)))) =
      andU (X / 2 ^ Int.toNat k) 255 := rfl
  simp only [pshr]
  simp only [hL.chk_true s _ c1]
  simp only [hL.chk_true s _ hb]
  rw [e, andU_255]
  simp only [put, hL.pos_setBuf, Int.emod_emod]

theorem pandU_eq (s : σ) (X : Int) (hb : 0 ≤ L.pos s ∧ L.pos s < (L.buf s).length) :
    pandU L s X = put L s (X % 256) := by
  have e : ((Int.ofNat (Int.toNat ((X) % 4294967296) &&& Int.toNat ((((255 : Int)) % 4294967296) % 4294967296)))) = andU X 255 := rfl
  simp only [pandU]
  simp only [hL.chk_true s _ hb]
  rw [e, andU_255]
  simp only [put, hL.pos_setBuf, Int.emod_emod]

theorem pandS_eq (s : σ) (X : Int) (hb : 0 ≤ L.pos s ∧ L.pos s < (L.buf s).length) :
    pandS L s X = put L s (X % 256) := by
  have e : (if (Int.ofNat (Int.toNat ((X) % 4294967296) &&& Int.toNat ((255 : Int) % 4294967296))) ≥ 2147483648 then (Int.ofNat (Int.toNat ((X) % 4294967296) &&& Int.toNat ((255 : Int) % 4294967296))) - 4294967296 else (Int.ofNat (Int.toNat ((X) % 4294967296) &&& Int.toNat ((255 : Int) % 4294967296)))) = andS X 255 := rfl
  simp only [pandS]
  simp only [hL.chk_true s _ hb]
  rw [e, andS_255]
  simp only [put, hL.pos_setBuf, Int.emod_emod]

theorem pbyte_eq (s : σ) (V : Int) (hb : 0 ≤ L.pos s ∧ L.pos s < (L.buf s).length) :
    pbyte L s V = put L s V := by
  simp only [pbyte]
  simp only [hL.chk_true s _ hb]
  rfl

/-- the two bytes of a 16-bit field -/
def be16I (x : Int) : List Int := [(x / 256) % 256, x % 256]
/-- the four bytes of a 32-bit field -/
def be32I (x : Int) : List Int := [(x / 16777216) % 256, (x / 65536) % 256, (x / 256) % 256, x % 256]

omit hL in
theorem pow8 : (2 : Int) ^ (8 : Int).toNat = 256 := by decide
omit hL in
theorem pow16 : (2 : Int) ^ (16 : Int).toNat = 65536 := by decide
omit hL in
theorem pow24 : (2 : Int) ^ (24 : Int).toNat = 16777216 := by decide

/-- `UINT16ENCODE(p, x)` stores the two low bytes of `x` (`X` and `Xl` agree modulo 65536) -/
theorem enc16_eq (s : σ) (X Xl : Int) (hX : 0 ≤ X) (hl : Xl % 256 = X % 256) (hb : 0 ≤ L.pos s ∧ L.pos s + 2 ≤ (L.buf s).length) :
    enc16 L s X Xl = putN L s (be16I X) := by
  unfold enc16
  rw [pshr_eq hL s X 8 hX (Or.inl rfl) (by omega)]
  rw [pandS_eq hL _ Xl (by rw [pos_put hL, buf_put hL]; simp; omega)]
  simp only [putN, be16I, List.foldl_cons, List.foldl_nil, pow8, hl]

theorem enc16s_eq (s : σ) (X : Int) (hX : 0 ≤ X) (hb : 0 ≤ L.pos s ∧ L.pos s + 2 ≤ (L.buf s).length) :
    enc16s L s X = putN L s (be16I X) := by
  unfold enc16s
  rw [pshr_eq hL s X 8 hX (Or.inl rfl) (by omega)]
  rw [pandU_eq hL _ X (by rw [pos_put hL, buf_put hL]; simp; omega)]
  simp only [putN, be16I, List.foldl_cons, List.foldl_nil, pow8]

theorem enc32_eq (s : σ) (X : Int) (hX : 0 ≤ X) (hb : 0 ≤ L.pos s ∧ L.pos s + 4 ≤ (L.buf s).length) :
    enc32 L s X = putN L s (be32I X) := by
  unfold enc32
  rw [pshr_eq hL s X 24 hX (Or.inr (Or.inr rfl)) (by omega)]
  rw [pshr_eq hL _ X 16 hX (Or.inr (Or.inl rfl)) (by rw [pos_put hL, buf_put hL]; simp; omega)]
  rw [pshr_eq hL _ X 8 hX (Or.inl rfl) (by simp only [pos_put hL, buf_put hL]; simp; omega)]
  rw [pandU_eq hL _ X (by simp only [pos_put hL, buf_put hL]; simp; omega)]
  simp only [putN, be32I, List.foldl_cons, List.foldl_nil, pow8, pow16, pow24]

/-! the same, after a run of stores (so that a sequence of macros collapses into one `putN`) -/

theorem enc16_putN (s : σ) (acc : List Int) (X Xl : Int) (hX : 0 ≤ X) (hl : Xl % 256 = X % 256)
    (hb : 0 ≤ L.pos s ∧ L.pos s + acc.length + 2 ≤ (L.buf s).length) :
    enc16 L (putN L s acc) X Xl = putN L s (acc ++ be16I X) := by
  rw [enc16_eq hL _ X Xl hX hl (by rw [pos_putN hL, length_buf_putN hL]; omega), putN_append]

theorem enc16s_putN (s : σ) (acc : List Int) (X : Int) (hX : 0 ≤ X)
    (hb : 0 ≤ L.pos s ∧ L.pos s + acc.length + 2 ≤ (L.buf s).length) :
    enc16s L (putN L s acc) X = putN L s (acc ++ be16I X) := by
  rw [enc16s_eq hL _ X hX (by rw [pos_putN hL, length_buf_putN hL]; omega), putN_append]

theorem enc32_putN (s : σ) (acc : List Int) (X : Int) (hX : 0 ≤ X)
    (hb : 0 ≤ L.pos s ∧ L.pos s + acc.length + 4 ≤ (L.buf s).length) :
    enc32 L (putN L s acc) X = putN L s (acc ++ be32I X) := by
  rw [enc32_eq hL _ X hX (by rw [pos_putN hL, length_buf_putN hL]; omega), putN_append]

theorem pbyte_putN (s : σ) (acc : List Int) (V : Int)
    (hb : 0 ≤ L.pos s ∧ L.pos s + acc.length + 1 ≤ (L.buf s).length) :
    pbyte L (putN L s acc) V = putN L s (acc ++ [V]) := by
  rw [pbyte_eq hL _ V (by rw [pos_putN hL, length_buf_putN hL]; omega), ← putN_append]
  rfl

end writers

/-! ## 3b. readers: the text of the DECODE macros, with the variable they assign abstracted (`Tgt`) -/

/-- the variable a DECODE macro assigns (a local or a struct member of the translated state) -/
structure Tgt (σ : Type) where
  get : σ → Int
  set : σ → Int → σ

/-- laws of a target with respect to the cursor (all `rfl` for structure updates of different fields) -/
structure Tgt.Lawful {σ : Type} (L : Cursor σ) (T : Tgt σ) : Prop where
  get_set : ∀ s v, T.get (T.set s v) = v
  set_set : ∀ s a b, T.set (T.set s a) b = T.set s b
  pos_set : ∀ s v, L.pos (T.set s v) = L.pos s
  buf_set : ∀ s v, L.buf (T.set s v) = L.buf s
  get_setPos : ∀ s i, T.get (L.setPos s i) = T.get s
  get_chk : ∀ (s : σ) (c : Prop) [Decidable c], T.get (L.chk s c) = T.get s
  setPos_set : ∀ s v i, L.setPos (T.set s v) i = T.set (L.setPos s i) v
  chk_set : ∀ (s : σ) (v : Int) (c : Prop) [Decidable c], L.chk (T.set s v) c = T.set (L.chk s c) v

section readers
variable {σ : Type} (L : Cursor σ) (T : Tgt σ)

/-- one byte of a DECODE macro: bounds check, the macro's shift check `c`, `x = g x (*p)`, `p++` -/
def rbyte (c : Int → Prop) [DecidablePred c] (g : Int → Int → Int) (s : σ) : σ :=
  have s : σ := L.chk s (0 ≤ L.pos s ∧ L.pos s < (L.buf s).length)
  have s : σ := L.chk s (c ((L.buf s).getD (Int.toNat (L.pos s)) 0))
  have s : σ := T.set s (g (T.get s) ((L.buf s).getD (Int.toNat (L.pos s)) 0))
  let e0 : Int := (L.pos s + 1)
  have s : σ := L.setPos s (e0)
  s

/-- the last byte of a DECODE macro (no shift) -/
def rbyte0 (g : Int → Int → Int) (s : σ) : σ :=
  have s : σ := L.chk s (0 ≤ L.pos s ∧ L.pos s < (L.buf s).length)
  have s : σ := T.set s (g (T.get s) ((L.buf s).getD (Int.toNat (L.pos s)) 0))
  let e0 : Int := (L.pos s + 1)
  have s : σ := L.setPos s (e0)
  s

/-- `UINT16DECODE(p, x)` -/
def dec16u (s : σ) : σ :=
  have s : σ := rbyte L T (fun b => (0 : Int) ≤ andS b 255 ∧ (0 : Int) ≤ 8 ∧ 8 < (32 : Int)) (fun _ b => (((andS b 255 * 2 ^ Int.toNat (8))) % 65536)) s
  have s : σ := rbyte0 L T (fun t b => ((orS t (((andS b 255) % 65536))) % 65536)) s
  s

/-- `UINT32DECODE(p, x)` -/
def dec32u (s : σ) : σ :=
  have s : σ := rbyte L T (fun b => (0 : Int) ≤ ((andS b 255) % 4294967296) ∧ (0 : Int) ≤ 24 ∧ 24 < (32 : Int))
    (fun _ b => (((((andS b 255) % 4294967296) * 2 ^ Int.toNat (24))) % 4294967296)) s
  have s : σ := rbyte L T (fun b => (0 : Int) ≤ ((andS b 255) % 4294967296) ∧ (0 : Int) ≤ 16 ∧ 16 < (32 : Int))
    (fun t b => orU t (((((andS b 255) % 4294967296) * 2 ^ Int.toNat (16))) % 4294967296)) s
  have s : σ := rbyte L T (fun b => (0 : Int) ≤ ((andS b 255) % 4294967296) ∧ (0 : Int) ≤ 8 ∧ 8 < (32 : Int))
    (fun t b => orU t (((((andS b 255) % 4294967296) * 2 ^ Int.toNat (8))) % 4294967296)) s
  have s : σ := rbyte0 L T (fun t b => orU t ((andS b 255) % 4294967296)) s
  s

/-- `INT32DECODE(p, x)` -/
def dec32s (s : σ) : σ :=
  have s : σ := rbyte L T (fun b => (0 : Int) ≤ andU b ((255) % 4294967296) ∧ (0 : Int) ≤ 24 ∧ 24 < (32 : Int))
    (fun _ b => wrapS32 (orU ((wrapS32 (if (andS b 128 ≠ 0) then (((-(4294967295) - 1)) % 18446744073709551616) else 0)) % 4294967296) (((andU b ((255) % 4294967296) * 2 ^ Int.toNat (24))) % 4294967296))) s
  have s : σ := rbyte L T (fun b => (0 : Int) ≤ andS b 255 ∧ (0 : Int) ≤ 16 ∧ 16 < (32 : Int)) (fun t b => orS t ((andS b 255 * 2 ^ Int.toNat (16)))) s
  have s : σ := rbyte L T (fun b => (0 : Int) ≤ andS b 255 ∧ (0 : Int) ≤ 8 ∧ 8 < (32 : Int)) (fun t b => orS t ((andS b 255 * 2 ^ Int.toNat (8)))) s
  have s : σ := rbyte0 L T (fun t b => orS t (andS b 255)) s
  s

/-- `INT16DECODE(p, x)` -/
def dec16s (s : σ) : σ :=
  have s : σ := rbyte L T (fun b => (0 : Int) ≤ wrapS16 (andS b 255) ∧ (0 : Int) ≤ 8 ∧ 8 < (32 : Int))
    (fun _ b => wrapS16 (orS (wrapS16 (if (andS b 128 ≠ 0) then (-(65535) - 1) else 0)) ((wrapS16 (andS b 255) * 2 ^ Int.toNat (8))))) s
  have s : σ := rbyte0 L T (fun t b => wrapS16 (orS t (wrapS16 (andS b 255)))) s
  s

/-- `x = *p++;` -/
def dbyte (s : σ) : σ :=
  have s : σ := L.chk s (0 ≤ L.pos s ∧ L.pos s < (L.buf s).length)
  let v0 : Int := ((L.buf s).getD (Int.toNat (L.pos s)) 0)
  let e0 : Int := (L.pos s + 1)
  have s : σ := T.set s (v0)
  have s : σ := L.setPos s (e0)
  s

/-- cell `k` behind the cursor, as a byte value -/
def cellAt (buf : List Int) (p : Int) (k : Nat) : Int := (buf.getD (Int.toNat (p + k)) 0) % 256
/-- big-endian 16-bit value under the cursor -/
def val16 (buf : List Int) (p : Int) : Int := cellAt buf p 0 * 256 + cellAt buf p 1
/-- big-endian 32-bit value under the cursor -/
def val32 (buf : List Int) (p : Int) : Int :=
  cellAt buf p 0 * 16777216 + cellAt buf p 1 * 65536 + cellAt buf p 2 * 256 + cellAt buf p 3

/-- what every reader macro does: ONE bounds check for its `w` bytes, the cursor moved by `w`, the value stored in the target -/
def rd (s : σ) (w : Nat) (v : Int) : σ :=
  T.set (L.setPos (L.chk s (0 ≤ L.pos s ∧ L.pos s + w ≤ (L.buf s).length)) (L.pos s + w)) v

end readers

/-! arithmetic of the reader macros -/

theorem cell_nat (b : Int) : ∃ n : Nat, b % 256 = (n : Int) ∧ n < 256 := by
  have h := Int.emod_nonneg b (show (256 : Int) ≠ 0 by decide)
  have h2 := Int.emod_lt_of_pos b (show (0 : Int) < 256 by decide)
  exact ⟨(b % 256).toNat, by omega, by omega⟩

theorem dec16u_val (b0 b1 : Int) :
    (orS (((andS b0 255 * 2 ^ Int.toNat (8))) % 65536) ((andS b1 255) % 65536)) % 65536 = (b0 % 256) * 256 + b1 % 256 := by
  rw [andS_255, andS_255, pow8]
  obtain ⟨n0, h0, l0⟩ := cell_nat b0
  obtain ⟨n1, h1, l1⟩ := cell_nat b1
  rw [h0, h1]
  have e1 : ((n0 : Int) * 256) % 65536 = ((2 ^ 8 * n0 : Nat) : Int) := by omega
  have e2 : (n1 : Int) % 65536 = (n1 : Int) := by omega
  rw [e1, e2, orS_add 8 n0 n1 (by omega) (by omega) _ (by omega)]
  unfold wrapS32
  omega

theorem shift_ok (b : Int) (k : Int) (hk : k = 8 ∨ k = 16 ∨ k = 24) : (0 : Int) ≤ andS b 255 ∧ (0 : Int) ≤ k ∧ k < (32 : Int) := by
  rw [andS_255]
  have h := Int.emod_nonneg b (show (256 : Int) ≠ 0 by decide)
  omega

theorem shift_ok' (b : Int) (k : Int) (hk : k = 8 ∨ k = 16 ∨ k = 24) :
    (0 : Int) ≤ ((andS b 255) % 4294967296) ∧ (0 : Int) ≤ k ∧ k < (32 : Int) := by
  have h := Int.emod_nonneg (andS b 255) (show (4294967296 : Int) ≠ 0 by decide)
  omega

theorem shift_okU (b : Int) : (0 : Int) ≤ andU b ((255) % 4294967296) ∧ (0 : Int) ≤ 24 ∧ 24 < (32 : Int) := by
  have e : ((255 : Int) % 4294967296) = 255 := by decide
  rw [e, andU_255]
  have h := Int.emod_nonneg b (show (256 : Int) ≠ 0 by decide)
  omega

theorem dec32u_val (b0 b1 b2 b3 : Int) :
    orU (orU (orU ((((((andS b0 255) % 4294967296) * 2 ^ Int.toNat (24))) % 4294967296))
        (((((andS b1 255) % 4294967296) * 2 ^ Int.toNat (16))) % 4294967296))
        (((((andS b2 255) % 4294967296) * 2 ^ Int.toNat (8))) % 4294967296))
        ((andS b3 255) % 4294967296) =
      (b0 % 256) * 16777216 + (b1 % 256) * 65536 + (b2 % 256) * 256 + b3 % 256 := by
  simp only [andS_255, pow8, pow16, pow24]
  obtain ⟨n0, h0, l0⟩ := cell_nat b0
  obtain ⟨n1, h1, l1⟩ := cell_nat b1
  obtain ⟨n2, h2, l2⟩ := cell_nat b2
  obtain ⟨n3, h3, l3⟩ := cell_nat b3
  rw [h0, h1, h2, h3]
  have e0 : (((n0 : Int) % 4294967296) * 16777216) % 4294967296 = ((2 ^ 24 * n0 : Nat) : Int) := by omega
  have e1 : (((n1 : Int) % 4294967296) * 65536) % 4294967296 = ((n1 * 65536 : Nat) : Int) := by omega
  have e2 : (((n2 : Int) % 4294967296) * 256) % 4294967296 = ((n2 * 256 : Nat) : Int) := by omega
  have e3 : ((n3 : Int) % 4294967296) = ((n3 : Nat) : Int) := by omega
  rw [e0, e1, e2, e3]
  rw [orU_add 24 n0 (n1 * 65536) (by omega) (by omega)]
  have f1 : 2 ^ 24 * n0 + n1 * 65536 = 2 ^ 16 * (n0 * 256 + n1) := by omega
  rw [f1, orU_add 16 (n0 * 256 + n1) (n2 * 256) (by omega) (by omega)]
  have f2 : 2 ^ 16 * (n0 * 256 + n1) + n2 * 256 = 2 ^ 8 * (n0 * 65536 + n1 * 256 + n2) := by omega
  rw [f2, orU_add 8 (n0 * 65536 + n1 * 256 + n2) n3 (by omega) (by omega)]
  omega

theorem dec32s_val (b0 b1 b2 b3 : Int) :
    orS (orS (orS (wrapS32 (orU ((wrapS32 (if (andS b0 128 ≠ 0) then (((-(4294967295) - 1)) % 18446744073709551616) else 0)) % 4294967296)
          (((andU b0 ((255) % 4294967296) * 2 ^ Int.toNat (24))) % 4294967296)))
        ((andS b1 255 * 2 ^ Int.toNat (16))))
        ((andS b2 255 * 2 ^ Int.toNat (8))))
        (andS b3 255) =
      wrapS32 ((b0 % 256) * 16777216 + (b1 % 256) * 65536 + (b2 % 256) * 256 + b3 % 256) := by
  have e255 : ((255 : Int) % 4294967296) = 255 := by decide
  have eW : (wrapS32 (if (andS b0 128 ≠ 0) then (((-(4294967295) - 1)) % 18446744073709551616) else 0)) % 4294967296 = 0 := by
    split <;> decide
  simp only [andS_255, e255, andU_255, pow8, pow16, pow24, eW]
  obtain ⟨n0, h0, l0⟩ := cell_nat b0
  obtain ⟨n1, h1, l1⟩ := cell_nat b1
  obtain ⟨n2, h2, l2⟩ := cell_nat b2
  obtain ⟨n3, h3, l3⟩ := cell_nat b3
  rw [h0, h1, h2, h3]
  have e0 : ((n0 : Int) * 16777216) % 4294967296 = ((n0 * 16777216 : Nat) : Int) := by omega
  rw [e0, orU_zero_left _ (by omega)]
  have g1 : (n1 : Int) * 65536 = ((n1 * 65536 : Nat) : Int) := by omega
  have g2 : (n2 : Int) * 256 = ((n2 * 256 : Nat) : Int) := by omega
  rw [g1, g2]
  have f0 : n0 * 16777216 = 2 ^ 24 * n0 := by omega
  rw [orS_add 24 n0 (n1 * 65536) (by omega) (by omega) _ (by rw [wrapS32_mod _ (by omega)]; omega)]
  have f1 : 2 ^ 24 * n0 + n1 * 65536 = 2 ^ 16 * (n0 * 256 + n1) := by omega
  rw [orS_add 16 (n0 * 256 + n1) (n2 * 256) (by omega) (by omega) _ (by rw [wrapS32_mod _ (by omega)]; omega)]
  rw [orS_add 8 (n0 * 65536 + n1 * 256 + n2) n3 (by omega) (by omega) _ (by rw [wrapS32_mod _ (by omega)]; omega)]
  congr 1
  omega

theorem wrapS16_sub (x : Int) : wrapS16 (x - 65536) = wrapS16 x := by unfold wrapS16; omega

theorem wrapS16_cell (b : Int) : wrapS16 (andS b 255) = b % 256 := by
  rw [andS_255]
  have h := Int.emod_nonneg b (show (256 : Int) ≠ 0 by decide)
  have h2 := Int.emod_lt_of_pos b (show (0 : Int) < 256 by decide)
  unfold wrapS16
  omega

theorem shift_ok16s (b : Int) : (0 : Int) ≤ wrapS16 (andS b 255) ∧ (0 : Int) ≤ 8 ∧ 8 < (32 : Int) := by
  rw [wrapS16_cell]
  have h := Int.emod_nonneg b (show (256 : Int) ≠ 0 by decide)
  omega

theorem dec16s_val (b0 b1 : Int) :
    wrapS16 (orS (wrapS16 (orS (wrapS16 (if (andS b0 128 ≠ 0) then (-(65535) - 1) else 0)) ((wrapS16 (andS b0 255) * 2 ^ Int.toNat (8)))))
      (wrapS16 (andS b1 255))) = wrapS16 ((b0 % 256) * 256 + b1 % 256) := by
  have eW : (wrapS16 (if (andS b0 128 ≠ 0) then (-(65535) - 1) else 0)) = 0 := by
    split <;> decide
  rw [eW, wrapS16_cell, wrapS16_cell, pow8]
  obtain ⟨n0, h0, l0⟩ := cell_nat b0
  obtain ⟨n1, h1, l1⟩ := cell_nat b1
  rw [h0, h1]
  have g0 : (n0 : Int) * 256 = ((n0 * 256 : Nat) : Int) := by omega
  have e1 : orS 0 ((n0 : Int) * 256) = ((n0 * 256 : Nat) : Int) := by
    rw [g0]
    unfold orS
    rw [orU_zero_left _ (by omega)]
    split <;> omega
  rw [e1]
  by_cases hs : n0 < 128
  · have w : wrapS16 ((n0 * 256 : Nat) : Int) = ((2 ^ 8 * n0 : Nat) : Int) := by unfold wrapS16; omega
    rw [w, orS_add 8 n0 n1 (by omega) (by omega) _ (by omega)]
    have w2 : wrapS32 ((2 ^ 8 * n0 + n1 : Nat) : Int) = (n0 : Int) * 256 + (n1 : Int) := by unfold wrapS32; omega
    rw [w2]
  · have w : wrapS16 ((n0 * 256 : Nat) : Int) = ((n0 * 256 : Nat) : Int) - 65536 := by unfold wrapS16; omega
    have hx : (((n0 * 256 : Nat) : Int) - 65536) % 4294967296 = ((2 ^ 8 * (16776960 + n0) : Nat) : Int) := by omega
    rw [w, orS_add 8 (16776960 + n0) n1 (by omega) (by omega) _ hx]
    have w2 : wrapS32 ((2 ^ 8 * (16776960 + n0) + n1 : Nat) : Int) = (n0 : Int) * 256 + (n1 : Int) - 65536 := by unfold wrapS32; omega
    rw [w2, wrapS16_sub]

theorem shift_ok8 (b : Int) : (0 : Int) ≤ andS b 255 ∧ (0 : Int) ≤ 8 ∧ 8 < (32 : Int) := shift_ok b 8 (Or.inl rfl)
theorem shift_ok16 (b : Int) : (0 : Int) ≤ andS b 255 ∧ (0 : Int) ≤ 16 ∧ 16 < (32 : Int) := shift_ok b 16 (Or.inr (Or.inl rfl))
theorem shift_ok8' (b : Int) : (0 : Int) ≤ ((andS b 255) % 4294967296) ∧ (0 : Int) ≤ 8 ∧ 8 < (32 : Int) := shift_ok' b 8 (Or.inl rfl)
theorem shift_ok16' (b : Int) : (0 : Int) ≤ ((andS b 255) % 4294967296) ∧ (0 : Int) ≤ 16 ∧ 16 < (32 : Int) := shift_ok' b 16 (Or.inr (Or.inl rfl))
theorem shift_ok24' (b : Int) : (0 : Int) ≤ ((andS b 255) % 4294967296) ∧ (0 : Int) ≤ 24 ∧ 24 < (32 : Int) := shift_ok' b 24 (Or.inr (Or.inr rfl))

section reader_eqs
variable {σ : Type} {L : Cursor σ} {T : Tgt σ} (hL : L.Lawful) (hT : T.Lawful L)
include hL hT

/-- the raw cell `k` behind the cursor -/
theorem rbyte_first (c : Int → Prop) [DecidablePred c] (hc : ∀ b, c b) (g : Int → Int → Int) (s : σ) :
    rbyte L T c g s = rd L T s 1 (g (T.get s) ((L.buf s).getD (Int.toNat (L.pos s)) 0)) := by
  simp only [rbyte, hL.buf_chk, hL.pos_chk, hT.pos_set, hT.get_chk, hL.chk_true _ _ (hc _), hT.setPos_set]
  unfold rd
  rw [hL.chk_congr s _ (0 ≤ L.pos s ∧ L.pos s + ((1 : Nat) : Int) ≤ ↑(L.buf s).length) (by omega)]
  rfl

theorem rbyte0_first (g : Int → Int → Int) (s : σ) :
    rbyte0 L T g s = rd L T s 1 (g (T.get s) ((L.buf s).getD (Int.toNat (L.pos s)) 0)) := by
  simp only [rbyte0, hL.buf_chk, hL.pos_chk, hT.pos_set, hT.get_chk, hT.setPos_set]
  unfold rd
  rw [hL.chk_congr s _ (0 ≤ L.pos s ∧ L.pos s + ((1 : Nat) : Int) ≤ ↑(L.buf s).length) (by omega)]
  rfl

theorem rbyte0_rd (g : Int → Int → Int) (s : σ) (w : Nat) (v : Int) :
    rbyte0 L T g (rd L T s w v) = rd L T s (w + 1) (g v ((L.buf s).getD (Int.toNat (L.pos s + w)) 0)) := by
  simp only [rbyte0, rd, hL.buf_chk, hL.pos_chk, hL.buf_setPos, hL.pos_setPos, hT.pos_set, hT.buf_set, hT.get_set, hT.get_chk,
    hT.chk_set, hL.chk_setPos, hL.chk_and, hT.setPos_set, hL.setPos_setPos, hT.set_set]
  rw [hL.chk_congr s _ (0 ≤ L.pos s ∧ L.pos s + ((w + 1 : Nat) : Int) ≤ ↑(L.buf s).length) (by omega)]
  rw [show L.pos s + (w : Int) + 1 = L.pos s + ((w + 1 : Nat) : Int) by omega]

theorem rbyte_rd (c : Int → Prop) [DecidablePred c] (hc : ∀ b, c b) (g : Int → Int → Int) (s : σ) (w : Nat) (v : Int) :
    rbyte L T c g (rd L T s w v) = rd L T s (w + 1) (g v ((L.buf s).getD (Int.toNat (L.pos s + w)) 0)) := by
  have e : rbyte L T c g (rd L T s w v) = rbyte0 L T g (rd L T s w v) := by
    simp only [rbyte, rbyte0, hL.chk_true _ _ (hc _)]
  rw [e, rbyte0_rd hL hT g s w v]

theorem dec16u_eq (s : σ) : dec16u L T s = rd L T s 2 (val16 (L.buf s) (L.pos s)) := by
  unfold dec16u
  simp only []
  rw [rbyte_first hL hT _ (fun b => shift_ok8 b) _ s, rbyte0_rd hL hT _ s 1 _]
  simp only [dec16u_val, val16, cellAt, show ((0 : Nat) : Int) = 0 from rfl, show ((1 : Nat) : Int) = 1 from rfl, Int.add_zero]

theorem dec32u_eq (s : σ) : dec32u L T s = rd L T s 4 (val32 (L.buf s) (L.pos s)) := by
  unfold dec32u
  simp only []
  rw [rbyte_first hL hT _ (fun b => shift_ok24' b) _ s, rbyte_rd hL hT _ (fun b => shift_ok16' b) _ s 1 _,
    rbyte_rd hL hT _ (fun b => shift_ok8' b) _ s 2 _, rbyte0_rd hL hT _ s 3 _]
  simp only [dec32u_val, val32, cellAt, show ((0 : Nat) : Int) = 0 from rfl, show ((1 : Nat) : Int) = 1 from rfl,
    show ((2 : Nat) : Int) = 2 from rfl, show ((3 : Nat) : Int) = 3 from rfl, Int.add_zero]

theorem dec32s_eq (s : σ) : dec32s L T s = rd L T s 4 (wrapS32 (val32 (L.buf s) (L.pos s))) := by
  unfold dec32s
  simp only []
  rw [rbyte_first hL hT _ (fun b => shift_okU b) _ s, rbyte_rd hL hT _ (fun b => shift_ok16 b) _ s 1 _,
    rbyte_rd hL hT _ (fun b => shift_ok8 b) _ s 2 _, rbyte0_rd hL hT _ s 3 _]
  simp only [dec32s_val, val32, cellAt, show ((0 : Nat) : Int) = 0 from rfl, show ((1 : Nat) : Int) = 1 from rfl,
    show ((2 : Nat) : Int) = 2 from rfl, show ((3 : Nat) : Int) = 3 from rfl, Int.add_zero]

theorem dec16s_eq (s : σ) : dec16s L T s = rd L T s 2 (wrapS16 (val16 (L.buf s) (L.pos s))) := by
  unfold dec16s
  simp only []
  rw [rbyte_first hL hT _ (fun b => shift_ok16s b) _ s, rbyte0_rd hL hT _ s 1 _]
  simp only [dec16s_val, val16, cellAt, show ((0 : Nat) : Int) = 0 from rfl, show ((1 : Nat) : Int) = 1 from rfl, Int.add_zero]

/-- `x = *p++` stores the CELL (not reduced modulo 256: the cells of a `uint8` region are bytes) -/
theorem dbyte_eq (s : σ) : dbyte L T s = rd L T s 1 ((L.buf s).getD (Int.toNat (L.pos s)) 0) := by
  simp only [dbyte, hL.buf_chk, hL.pos_chk, hT.pos_set, hT.setPos_set]
  unfold rd
  rw [hL.chk_congr s _ (0 ≤ L.pos s ∧ L.pos s + ((1 : Nat) : Int) ≤ ↑(L.buf s).length) (by omega)]
  rfl

end reader_eqs

/-! ## 4. the cells a run of stores overwrites -/

/-- `vs` stored from index `i` on -/
def setsFrom (l : List Int) (i : Int) : List Int → List Int
  | [] => l
  | v :: vs => setsFrom (l.set (Int.toNat i) v) (i + 1) vs

@[simp] theorem setsFrom_length (l : List Int) (i : Int) (vs : List Int) : (setsFrom l i vs).length = l.length := by
  induction vs generalizing l i with
  | nil => rfl
  | cons v vs ih => simp [setsFrom, ih]

theorem setsFrom_append (l : List Int) (i : Int) (a b : List Int) :
    setsFrom l i (a ++ b) = setsFrom (setsFrom l i a) (i + a.length) b := by
  induction a generalizing l i with
  | nil => simp [setsFrom]
  | cons v a ih =>
    simp only [List.cons_append, setsFrom, ih, List.length_cons]
    congr 1
    omega

theorem setsFrom_eq (l : List Int) (k : Nat) (vs : List Int) (hb : k + vs.length ≤ l.length) :
    setsFrom l (k : Int) vs = l.take k ++ vs ++ l.drop (k + vs.length) := by
  induction vs generalizing l k with
  | nil => simp [setsFrom]
  | cons v vs ih =>
    simp only [List.length_cons] at hb
    have hkl : k < l.length := by omega
    simp only [setsFrom, Int.toNat_natCast, List.length_cons]
    have e : ((k : Int) + 1) = ((k + 1 : Nat) : Int) := by omega
    rw [e, ih _ (k + 1) (by simp; omega), take_set_succ _ _ _ hkl, List.drop_set_of_lt (by omega)]
    simp only [List.append_assoc, List.cons_append, List.nil_append]
    rw [show k + 1 + vs.length = k + (vs.length + 1) by omega]

/-- a field that the buffer and cursor stores leave alone is not changed by a run of stores -/
theorem frame_putN {σ α : Type} (L : Cursor σ) (f : σ → α) (h1 : ∀ s b, f (L.setBuf s b) = f s) (h2 : ∀ s i, f (L.setPos s i) = f s)
    (s : σ) (vs : List Int) : f (putN L s vs) = f s := by
  induction vs generalizing s with
  | nil => rfl
  | cons v vs ih => rw [putN_cons, ih]; simp only [put, h1, h2]

theorem buf_putN_sets {σ : Type} {L : Cursor σ} (hL : L.Lawful) (s : σ) (vs : List Int) :
    L.buf (putN L s vs) = setsFrom (L.buf s) (L.pos s) vs := by
  induction vs generalizing s with
  | nil => rfl
  | cons v vs ih => rw [putN_cons, ih, buf_put hL, pos_put hL]; rfl

/-! ## 5. bytes of the models -/

/-- a C `uint8` array of a model (`List UInt8`), as the translated functions see it -/
def u8s (l : List UInt8) : List Int := l.map fun b => (b.toNat : Int)

@[simp] theorem u8s_length (l : List UInt8) : (u8s l).length = l.length := by simp [u8s]
@[simp] theorem u8s_nil : u8s [] = [] := rfl
@[simp] theorem u8s_cons (a : UInt8) (l : List UInt8) : u8s (a :: l) = (a.toNat : Int) :: u8s l := rfl
theorem u8s_append (a b : List UInt8) : u8s (a ++ b) = u8s a ++ u8s b := by simp [u8s]
theorem u8_toInt (n : Nat) : ((UInt8.ofNat n).toNat : Int) = (n : Int) % 256 := by
  simp only [UInt8.toNat_ofNat']; omega
theorem u8s_getD (l : List UInt8) (k : Nat) : (u8s l).getD k 0 = (((l.getD k 0).toNat : Nat) : Int) := by
  simp only [u8s, List.getD_eq_getElem?_getD, List.getElem?_map]
  cases l[k]? <;> simp
theorem u8s_inj {a b : List UInt8} (h : u8s a = u8s b) : a = b := by
  induction a generalizing b with
  | nil => cases b <;> simp_all [u8s]
  | cons x xs ih => cases b with
    | nil => simp [u8s] at h
    | cons y ys =>
      simp only [u8s_cons, List.cons.injEq] at h
      obtain ⟨h1, h2⟩ := h
      rw [ih h2]
      have : x.toNat = y.toNat := by omega
      rw [UInt8.toNat_inj.mp this]

theorem be16I_mod (x : Int) : be16I (x % 65536) = be16I x := by
  simp only [be16I]
  congr 1; · omega
  congr 1; omega
theorem be32I_mod (x : Int) : be32I (x % 4294967296) = be32I x := by
  simp only [be32I]
  congr 1; · omega
  congr 1; · omega
  congr 1; · omega
  congr 1; omega

end H4.C2L
