import H4.Lemmas.BitIO
import H4.NBit
set_option linter.unusedSimpArgs false
set_option linter.unusedVariables false
namespace H4.NBit
open H4.Bits H4.Gen.Cnbit

/-- closed form of `mask_info[i]`: the intersection of the field `[lo, start]` with the bit range of byte `i`
    (`{offset := 7, length := 0}` is what the C loop leaves in the byte just below a field that ends on a byte boundary
    after a fully covered byte) -/
def closedInfo (n start len i : Nat) : MaskInfo :=
  let bot := 8 * (n - 1 - i)
  let top := bot + 7
  let lo := start + 1 - len
  if start < bot then {}
  else if lo > top then (if lo = top + 1 ∧ start ≥ top + 8 then { offset := 7, length := 0, mask := 0 } else {})
  else
    let hiB := min start top
    let loB := max lo bot
    { offset := hiB - bot, length := hiB - loB + 1, mask := (2 ^ (hiB - loB + 1) - 1) * 2 ^ (loB - bot) }

def closedInfos (n start len : Nat) : List MaskInfo := (List.range n).map (closedInfo n start len)

/-- the loop of `HCIcnbit_init` computes the closed form, for all valid `(start, len)` of an `n`-byte type -/
def checkClosed (n : Nat) : Bool :=
  (List.range (8 * n)).all fun start => (List.range (start + 1)).all fun l =>
    maskLoop start (start + 1 - (l + 1)) n (n * 8 - 1) (n * 8 - 8) false == closedInfos n start (l + 1)

theorem checkClosed_1 : checkClosed 1 = true := by decide +kernel
theorem checkClosed_2 : checkClosed 2 = true := by decide +kernel
theorem checkClosed_4 : checkClosed 4 = true := by decide +kernel
theorem checkClosed_8 : checkClosed 8 = true := by decide +kernel
/-- shape of every `mask_info` entry: `length` consecutive ones starting at bit `shift`, inside the byte -/
def GoodMI (mi : MaskInfo) : Prop := mi.mask = (2 ^ mi.length - 1) * 2 ^ mi.shift ∧ mi.length + mi.shift ≤ 8

theorem mask_testBit {mi : MaskInfo} (h : GoodMI mi) (k : Nat) :
    mi.mask.testBit k = (decide (mi.shift ≤ k) && decide (k - mi.shift < mi.length)) := by
  rw [h.1, Nat.testBit_mul_two_pow, Nat.testBit_two_pow_sub_one]

/-- what the decoder rebuilds from the field the encoder wrote for byte `x`: inside the mask the bits of `x`, outside the
    bits of the mask-buffer byte -/
theorem decByte_encByte {mi : MaskInfo} (h : GoodMI mi) (mb : Nat) (x : Nat) (k : Nat) (hk : k < 8) :
    (decByte mi mb (((x &&& mi.mask) >>> mi.shift) % 2 ^ mi.length)).testBit k =
      (mb.testBit k || (mi.mask.testBit k && x.testBit k)) := by
  unfold decByte
  rw [show (256 : Nat) = 2 ^ 8 from rfl]
  simp only [Nat.testBit_mod_two_pow, Nat.testBit_or, Nat.testBit_and, Nat.testBit_shiftLeft, Nat.testBit_shiftRight,
    mask_testBit h, hk, decide_true, Bool.true_and]
  by_cases h1 : mi.shift ≤ k
  · have : mi.shift + (k - mi.shift) = k := by omega
    by_cases h2 : k - mi.shift < mi.length <;> simp [h1, h2, this]
  · simp [h1]

/-- the word `Hbitread` returns for the field written for byte `x` (`bit_roundtrip`: the low `length` bits of what was written) -/
def encVal (mi : MaskInfo) (x : UInt8) : Nat := ((x.toNat &&& mi.mask) >>> mi.shift) % 2 ^ mi.length

/-- the words read back for one item whose bytes are `xs` -/
def itemVals : List MaskInfo → List UInt8 → List Nat
  | mi :: mis, x :: xs => (if mi.length > 0 then [encVal mi x] else []) ++ itemVals mis xs
  | _, _ => []

/-- byte rebuilt by the decoder for byte `x` (before sign extension) -/
def outByte (mi : MaskInfo) (mb : Nat) (x : UInt8) : Nat := if mi.length > 0 then decByte mi mb (encVal mi x) else mb

def outBytes : List MaskInfo → List Nat → List UInt8 → List Nat
  | mi :: mis, mb :: mbs, x :: xs => outByte mi mb x :: outBytes mis mbs xs
  | _, _, _ => []

/-- sign bit seen by the decoder in byte `signByte` -/
def signOf (signByte signMask : Nat) : Nat → List MaskInfo → List UInt8 → Option Bool → Option Bool
  | j, mi :: mis, x :: xs, sb =>
    signOf signByte signMask (j + 1) mis xs
      (if mi.length > 0 ∧ j = signByte then some (signMask &&& ((encVal mi x <<< mi.shift) % 2 ^ 32) != 0) else sb)
  | _, _, _, sb => sb

theorem decBytes_spec (sB sM : Nat) : ∀ (mis : List MaskInfo) (mbs : List Nat) (xs : List UInt8) (j : Nat) (sb : Option Bool)
    (restv : List Nat), mis.length = xs.length → mbs.length = xs.length →
    decBytes sB sM j mis mbs (itemVals mis xs ++ restv) sb = (outBytes mis mbs xs, signOf sB sM j mis xs sb) := by
  intro mis
  induction mis with
  | nil =>
    intro mbs xs j sb restv h1 h2
    cases xs with
    | nil => cases mbs <;> simp [decBytes, outBytes, signOf]
    | cons x xs => simp at h1
  | cons mi mis ih =>
    intro mbs xs j sb restv h1 h2
    cases xs with
    | nil => simp at h1
    | cons x xs =>
      cases mbs with
      | nil => simp at h2
      | cons mb mbs =>
        simp only [List.length_cons, Nat.add_right_cancel_iff] at h1 h2
        by_cases hl : mi.length > 0
        · simp only [itemVals, hl, if_true, List.cons_append, List.nil_append, decBytes, outBytes, outByte, signOf, true_and]
          rw [ih mbs xs (j + 1) _ restv h1 h2]
        · simp only [itemVals, hl, if_false, List.nil_append, decBytes, outBytes, outByte, signOf, false_and]
          rw [ih mbs xs (j + 1) _ restv h1 h2]

theorem getElem?_msbBits (w n i : Nat) : (msbBits w n)[i]? = if i < w then some (n.testBit (w - 1 - i)) else none := by
  induction w generalizing i with
  | zero => simp [msbBits]
  | succ w ih =>
    cases i with
    | zero => simp [msbBits]
    | succ i =>
      simp only [msbBits, List.getElem?_cons_succ, ih]
      have e : w + 1 - 1 - (i + 1) = w - 1 - i := by omega
      rw [e]
      by_cases h : i < w <;> simp [h]

theorem getElem?_bytesBits (l : List UInt8) (idx : Nat) :
    (bytesBits l)[idx]? = (l[idx / 8]?).map fun b => b.toNat.testBit (7 - idx % 8) := by
  induction l generalizing idx with
  | nil => simp
  | cons b l ih =>
    rw [bytesBits_cons]
    by_cases h : idx < 8
    · rw [List.getElem?_append_left (by simp; exact h), getElem?_msbBits]
      have h1 : idx / 8 = 0 := by omega
      have h2 : idx % 8 = idx := by omega
      simp [h, h1, h2]
    · rw [List.getElem?_append_right (by simp; omega), length_msbBits, ih]
      have h1 : idx / 8 = (idx - 8) / 8 + 1 := by omega
      have h2 : (idx - 8) % 8 = idx % 8 := by omega
      rw [h1, h2]; simp

theorem getElem?_outBytes : ∀ (mis : List MaskInfo) (mbs : List Nat) (xs : List UInt8) (i : Nat),
    (outBytes mis mbs xs)[i]? =
      match mis[i]?, mbs[i]?, xs[i]? with
      | some mi, some mb, some x => some (outByte mi mb x)
      | _, _, _ => none := by
  intro mis
  induction mis with
  | nil => intro mbs xs i; simp [outBytes]
  | cons mi mis ih =>
    intro mbs xs i
    cases mbs with
    | nil => simp [outBytes]
    | cons mb mbs =>
      cases xs with
      | nil => simp [outBytes]
      | cons x xs =>
        cases i with
        | zero => simp [outBytes]
        | succ i => simp only [outBytes, List.getElem?_cons_succ, ih]

theorem signOf_spec (sB sM : Nat) : ∀ (mis : List MaskInfo) (xs : List UInt8) (j : Nat) (sb : Option Bool) (mi : MaskInfo) (x : UInt8),
    j ≤ sB → mis[sB - j]? = some mi → xs[sB - j]? = some x → mi.length > 0 →
    signOf sB sM j mis xs sb = some (sM &&& ((encVal mi x <<< mi.shift) % 2 ^ 32) != 0) := by
  intro mis
  induction mis with
  | nil => intro xs j sb mi x _ h; simp at h
  | cons m mis ih =>
    intro xs j sb mi x hj h1 h2 hl
    cases xs with
    | nil => simp at h2
    | cons y ys =>
      simp only [signOf]
      by_cases hjs : j = sB
      · subst hjs
        simp only [Nat.sub_self, List.getElem?_cons_zero, Option.some.injEq] at h1 h2
        subst h1 h2
        simp only [hl, and_self, if_true]
        -- nothing below overwrites it: the index never equals `signByte` again
        have : ∀ (ms : List MaskInfo) (zs : List UInt8) (j' : Nat) (v : Option Bool), j' > j → signOf j sM j' ms zs v = v := by
          intro ms
          induction ms with
          | nil => intro zs j' v _; simp [signOf]
          | cons m' ms ih' =>
            intro zs j' v hj'
            cases zs with
            | nil => simp [signOf]
            | cons z zs =>
              simp only [signOf]
              have : ¬ (m'.length > 0 ∧ j' = j) := by omega
              rw [if_neg this, ih' zs (j' + 1) v (by omega)]
        exact this mis ys (j + 1) _ (by omega)
      · have hlt : j < sB := by omega
        have hne : ¬ (m.length > 0 ∧ j = sB) := by omega
        rw [if_neg hne]
        have e : sB - j = (sB - (j + 1)) + 1 := by omega
        rw [e, List.getElem?_cons_succ] at h1 h2
        exact ih ys (j + 1) sb mi x (by omega) h1 h2 hl

/-- configurations covered by the theorems: the sizes `DFKNTsize` can return, and the documented parameter range
    `0 ≤ bit_len-1 ≤ start_bit < 8·nt_size` -/
def Cfg.Valid (c : Cfg) : Prop :=
  (c.ntSize = 1 ∨ c.ntSize = 2 ∨ c.ntSize = 4 ∨ c.ntSize = 8) ∧ c.maskOff < 8 * c.ntSize ∧ 1 ≤ c.maskLen ∧ c.maskLen ≤ c.maskOff + 1
instance (c : Cfg) : Decidable c.Valid := by unfold Cfg.Valid; infer_instance

theorem maskInfos_closed (c : Cfg) (h : c.Valid) : maskInfos c = closedInfos c.ntSize c.maskOff c.maskLen := by
  obtain ⟨hn, hs, hl1, hl⟩ := h
  have key : ∀ n, checkClosed n = true → c.ntSize = n → maskInfos c = closedInfos c.ntSize c.maskOff c.maskLen := by
    intro n hc hn
    unfold checkClosed at hc
    rw [List.all_eq_true] at hc
    have h1 := hc c.maskOff (List.mem_range.mpr (by omega))
    rw [List.all_eq_true] at h1
    have h2 := h1 (c.maskLen - 1) (List.mem_range.mpr (by omega))
    have e : c.maskLen - 1 + 1 = c.maskLen := by omega
    rw [e] at h2
    unfold maskInfos
    rw [hn]
    exact eq_of_beq h2
  rcases hn with hn | hn | hn | hn
  · exact key 1 checkClosed_1 hn
  · exact key 2 checkClosed_2 hn
  · exact key 4 checkClosed_4 hn
  · exact key 8 checkClosed_8 hn

theorem closedInfo_good (n start len i : Nat) (hi : i < n) (hs : start < 8 * n) (hl1 : 1 ≤ len) (hl : len ≤ start + 1) :
    GoodMI (closedInfo n start len i) := by
  unfold closedInfo GoodMI MaskInfo.shift
  simp only
  split
  · simp
  · split
    · split <;> simp
    · simp only
      refine ⟨?_, by omega⟩
      congr 2
      omega

/-- the mask of byte `i` selects exactly the positions of the field that lie in this byte -/
theorem closedInfo_mask (n start len i k : Nat) (hi : i < n) (hs : start < 8 * n) (hl1 : 1 ≤ len) (hl : len ≤ start + 1) (hk : k < 8) :
    (closedInfo n start len i).mask.testBit k =
      decide (start + 1 - len ≤ 8 * (n - 1 - i) + k ∧ 8 * (n - 1 - i) + k ≤ start) := by
  rw [mask_testBit (closedInfo_good n start len i hi hs hl1 hl)]
  unfold closedInfo MaskInfo.shift
  simp only
  split
  · simp; omega
  · split
    · split <;> simp <;> omega
    · simp only
      rw [Bool.eq_iff_iff]
      simp only [Bool.and_eq_true, decide_eq_true_eq]
      omega

theorem closedInfo_length_pos (n start len i : Nat) (hi : i < n) (hs : start < 8 * n) (hl1 : 1 ≤ len) (hl : len ≤ start + 1) :
    (closedInfo n start len i).length > 0 ↔ (start + 1 - len ≤ 8 * (n - 1 - i) + 7 ∧ 8 * (n - 1 - i) ≤ start) := by
  unfold closedInfo
  simp only
  split
  · simp; omega
  · split
    · split <;> simp <;> omega
    · simp only; omega

theorem length_maskLoop (a b : Nat) : ∀ (n t o : Nat) (d : Bool), (maskLoop a b n t o d).length = n := by
  intro n
  induction n with
  | zero => intros; rfl
  | succ n ih =>
    intro t o d
    unfold maskLoop
    split
    · simp [ih]
    · simp [ih]

theorem length_maskInfos (c : Cfg) : (maskInfos c).length = c.ntSize := length_maskLoop _ _ _ _ _ _

@[simp] theorem itemVals_nil_right (mis : List MaskInfo) : itemVals mis [] = [] := by cases mis <;> rfl

theorem encode_vals (c : Cfg) : ∀ (xs : List UInt8) (pos : Nat), pos + xs.length ≤ c.ntSize →
    ((encode c pos xs).1.map fun f => f.2 % 2 ^ f.1) = itemVals ((maskInfos c).drop pos) xs ∧
    ((encode c pos xs).1.map Prod.fst) = ((maskInfos c).drop pos |>.take xs.length).filterMap (fun mi => if mi.length > 0 then some mi.length else none) := by
  intro xs
  induction xs with
  | nil => intro pos _; simp [encode, itemVals]
  | cons x xs ih =>
    intro pos h
    simp only [List.length_cons] at h
    have hlt : pos < (maskInfos c).length := by rw [length_maskInfos]; omega
    have hd : (maskInfos c).drop pos = (maskInfos c)[pos] :: (maskInfos c).drop (pos + 1) := List.drop_eq_getElem_cons hlt
    have hg : (maskInfos c).getD pos {} = (maskInfos c)[pos] := by simp [List.getD, hlt]
    simp only [encode, hg]
    rw [hd]
    by_cases hxs : xs = []
    · subst hxs
      simp only [encode, List.append_nil, itemVals, List.length_cons, List.length_nil, List.take_succ_cons, List.take_zero]
      unfold encByte encVal
      by_cases hl : (maskInfos c)[pos].length > 0 <;> simp [hl]
    · have hpos' : ¬ (pos + 1 ≥ c.ntSize) := by
        cases xs with
        | nil => exact absurd rfl hxs
        | cons y ys => simp only [List.length_cons] at h; omega
      rw [if_neg hpos']
      obtain ⟨i1, i2⟩ := ih (pos + 1) (by omega)
      simp only [List.map_append, i1, i2, itemVals, List.length_cons, List.take_succ_cons, List.filterMap_cons]
      unfold encByte encVal
      by_cases hl : (maskInfos c)[pos].length > 0 <;> simp [hl]


theorem two_pow_and_ne_zero (o y : Nat) : ((2 ^ o &&& y) != 0) = y.testBit o := by
  by_cases h : y.testBit o
  · rw [h]
    simp only [bne_iff_ne, ne_eq]
    intro h0
    have := congrArg (fun z => z.testBit o) h0
    simp [Nat.testBit_and, Nat.testBit_two_pow, h] at this
  · simp only [Bool.not_eq_true] at h
    rw [h]
    have : 2 ^ o &&& y = 0 := by
      apply Nat.eq_of_testBit_eq
      intro i
      simp only [Nat.testBit_and, Nat.testBit_two_pow, Nat.zero_testBit]
      by_cases hi : o = i
      · subst hi; simp [h]
      · simp [hi]
    simp [this]

theorem arr32_sign : ∀ o, o < 8 → arr32 (o + 1) ^^^ arr32 o = 2 ^ o := by decide
theorem arr32_low : ∀ o, o < 8 → arr32 o % 256 = 2 ^ o - 1 := by decide

/-- the positioned input word of the decoder: inside the mask the bits of `x` -/
theorem positioned_testBit {mi : MaskInfo} (h : GoodMI mi) (x : UInt8) (k : Nat) (hk : k < 32) :
    ((encVal mi x <<< mi.shift) % 2 ^ 32).testBit k = (mi.mask.testBit k && x.toNat.testBit k) := by
  unfold encVal
  simp only [Nat.testBit_mod_two_pow, Nat.testBit_and, Nat.testBit_shiftLeft, Nat.testBit_shiftRight,
    mask_testBit h, hk, decide_true, Bool.true_and]
  by_cases h1 : mi.shift ≤ k
  · have : mi.shift + (k - mi.shift) = k := by omega
    by_cases h2 : k - mi.shift < mi.length <;> simp [h1, h2, this]
  · simp [h1]

theorem maskBuf_testBit (fill : Bool) (m k : Nat) (hk : k < 8) :
    (if fill then 255 &&& (255 ^^^ (m % 256)) else 0).testBit k = (fill && !m.testBit k) := by
  cases fill
  · simp
  · simp only [if_true, Bool.true_and, Nat.testBit_and, Nat.testBit_xor]
    have h255 : Nat.testBit 255 k = true := by
      rw [show (255 : Nat) = 2 ^ 8 - 1 from rfl, Nat.testBit_two_pow_sub_one]; simp [hk]
    have hm : (m % 256).testBit k = m.testBit k := by
      rw [show (256 : Nat) = 2 ^ 8 from rfl, Nat.testBit_mod_two_pow]; simp [hk]
    rw [h255, hm]; simp

theorem outByte_testBit {mi : MaskInfo} (h : GoodMI mi) (fill : Bool) (x : UInt8) (k : Nat) (hk : k < 8) :
    (outByte mi (if fill then 255 &&& (255 ^^^ (mi.mask % 256)) else 0) x).testBit k =
      (if mi.mask.testBit k then x.toNat.testBit k else fill) := by
  unfold outByte
  by_cases hl : mi.length > 0
  · rw [if_pos hl]
    unfold encVal
    rw [decByte_encByte h _ _ k hk, maskBuf_testBit fill _ k hk]
    cases fill <;> cases mi.mask.testBit k <;> simp
  · rw [if_neg hl, maskBuf_testBit fill _ k hk]
    have : mi.mask.testBit k = false := by
      rw [mask_testBit h]; simp; omega
    simp [this]


/-- the bit the specification puts at position `p = 8·(n-1-i)+k` (bit `k` of byte `i`) of the projected value -/
def specBit (c : Cfg) (v : List UInt8) (i k : Nat) : Bool :=
  let p := 8 * (c.ntSize - 1 - i) + k
  let sign := ((v.getD (c.ntSize - 1 - c.maskOff / 8) 0).toNat).testBit (c.maskOff % 8)
  let top := if c.signExt then sign else c.fillOne
  if c.maskOff < p then top
  else if c.maskOff + 1 - c.maskLen ≤ p then ((v.getD i 0).toNat).testBit k
  else c.fillOne

/-- pointwise description of the item decoder on the words read back for value `v` -/
theorem decItem_bit (c : Cfg) (hv : c.Valid) (v : List UInt8) (hlen : v.length = c.ntSize) (prev : Bool)
    (i k : Nat) (hi : i < c.ntSize) (hk : k < 8) :
    ((decItem c (itemVals (maskInfos c) v) prev).1[i]?).map (fun b => b.toNat.testBit k) = some (specBit c v i k) := by
  obtain ⟨hn, hs, hl1, hl⟩ := hv
  have hvalid : c.Valid := ⟨hn, hs, hl1, hl⟩
  have hmis := maskInfos_closed c hvalid
  generalize hN : c.ntSize = n at *
  generalize hS : c.maskOff = start at *
  generalize hL : c.maskLen = len at *
  have hn0 : 0 < n := by omega
  -- the sign byte
  have hsB : n - (start / 8 + 1) < n := by omega
  have hsB' : n - 1 - start / 8 = n - (start / 8 + 1) := by omega
  have ho : start % 8 < 8 := Nat.mod_lt _ (by omega)
  have hpos : 8 * (n - 1 - (n - (start / 8 + 1))) + start % 8 = start := by omega
  obtain ⟨xs, hxs⟩ : ∃ x, v[n - (start / 8 + 1)]? = some x := by
    rw [List.getElem?_eq_getElem (by omega)]; exact ⟨_, rfl⟩
  have hmi : ∀ j, j < n → (closedInfos n start len)[j]? = some (closedInfo n start len j) := by
    intro j hj
    simp [closedInfos, List.getElem?_map, List.getElem?_range hj]
  have hgood : ∀ j, j < n → GoodMI (closedInfo n start len j) := fun j hj => closedInfo_good n start len j hj hs hl1 hl
  have hsignlen : (closedInfo n start len (n - (start / 8 + 1))).length > 0 := by
    rw [closedInfo_length_pos n start len _ hsB hs hl1 hl]; omega
  have hsign : signOf (n - (start / 8 + 1)) (arr32 (start % 8 + 1) ^^^ arr32 (start % 8)) 0 (closedInfos n start len) v none =
      some (xs.toNat.testBit (start % 8)) := by
    rw [signOf_spec _ _ _ v 0 none _ xs (by omega) (by simpa using hmi _ hsB) (by simpa using hxs) hsignlen]
    rw [arr32_sign _ ho, two_pow_and_ne_zero, positioned_testBit (hgood _ hsB) xs _ (by omega),
      closedInfo_mask n start len _ _ hsB hs hl1 hl ho]
    simp [hpos]; omega
  -- unfold the decoder
  have hmb : maskBuf c = (closedInfos n start len).map fun mi => if c.fillOne then 255 &&& (255 ^^^ (mi.mask % 256)) else 0 := by
    unfold maskBuf; rw [hmis]
  have hbytes := decBytes_spec (n - (start / 8 + 1)) (arr32 (start % 8 + 1) ^^^ arr32 (start % 8)) (closedInfos n start len)
    (maskBuf c) v 0 none [] (by simp [closedInfos, hlen]) (by simp [hmb, closedInfos, hlen])
  rw [List.append_nil] at hbytes
  -- byte `i` before sign extension
  obtain ⟨xi, hxi⟩ : ∃ x, v[i]? = some x := by
    rw [List.getElem?_eq_getElem (by omega)]; exact ⟨_, rfl⟩
  have hout : (outBytes (closedInfos n start len) (maskBuf c) v)[i]? =
      some (outByte (closedInfo n start len i) (if c.fillOne then 255 &&& (255 ^^^ ((closedInfo n start len i).mask % 256)) else 0) xi) := by
    rw [getElem?_outBytes, hmi i hi, hxi, hmb, List.getElem?_map, hmi i hi]; rfl
  have hbit := outByte_testBit (hgood i hi) c.fillOne xi k hk
  rw [closedInfo_mask n start len i k hi hs hl1 hl hk] at hbit
  have hvi : (v.getD i 0) = xi := by simp [List.getD, hxi]
  have hvs : (v.getD (n - 1 - start / 8) 0) = xs := by rw [hsB']; simp [List.getD, hxs]
  have hofnat : ∀ b : Nat, (UInt8.ofNat b).toNat.testBit k = b.testBit k := by
    intro b
    rw [toNat_ofNat_byte, show (256 : Nat) = 2 ^ 8 from rfl, Nat.testBit_mod_two_pow]; simp [hk]
  unfold decItem specBit
  simp only [hN, hS, hL, hmis, hbytes, hsign, Option.getD_some, hvi, hvs]
  generalize hB : outByte (closedInfo n start len i) (if c.fillOne then 255 &&& (255 ^^^ ((closedInfo n start len i).mask % 256)) else 0) xi = B at hout hbit
  generalize hsg : xs.toNat.testBit (start % 8) = sign
  -- position arithmetic
  have hpi : i < n - (start / 8 + 1) → start < 8 * (n - 1 - i) + k := by intro h; omega
  have hpe : i = n - (start / 8 + 1) → (start < 8 * (n - 1 - i) + k ↔ start % 8 < k) := by intro h; subst h; omega
  have hpg : n - (start / 8 + 1) < i → ¬ start < 8 * (n - 1 - i) + k := by intro h; omega
  have hinS : ∀ kk, i = n - (start / 8 + 1) → kk = start % 8 →
      (start + 1 - len ≤ 8 * (n - 1 - i) + kk ∧ 8 * (n - 1 - i) + kk ≤ start) := by intro kk h1 h2; subst h1 h2; omega
  have hleS : i = n - (start / 8 + 1) → ¬ start % 8 < k → 8 * (n - 1 - i) + k ≤ start := by intro h1 h2; subst h1; omega
  generalize hsb : n - (start / 8 + 1) = sB at *
  by_cases hse : c.signExt
  · simp only [hse, if_true]
    by_cases hne : (sign != c.fillOne) = true
    · simp only [hne, if_true, List.getElem?_map, List.getElem?_mapIdx, hout, Option.map_some, hofnat]
      congr 1
      by_cases h1 : i < sB
      · simp only [h1, if_true, hpi h1]
        cases sign
        · simp
        · simp only [if_true]; rw [show (255 : Nat) = 2 ^ 8 - 1 from rfl, Nat.testBit_two_pow_sub_one]; simp [hk]
      · by_cases h2 : i = sB
        · subst h2
          have hxx : xi = xs := by rw [hxs] at hxi; exact (Option.some.inj hxi).symm
          simp only [Nat.lt_irrefl, if_false, if_true]
          have hsem : ∀ kk, kk < 8 → (255 ^^^ (arr32 (start % 8) % 256)).testBit kk = decide (start % 8 ≤ kk) := by
            intro kk hkk
            rw [arr32_low _ ho, Nat.testBit_xor, show (255 : Nat) = 2 ^ 8 - 1 from rfl, Nat.testBit_two_pow_sub_one,
              Nat.testBit_two_pow_sub_one]
            by_cases hh : kk < start % 8 <;> simp [hkk, hh] <;> omega
          have h255 : Nat.testBit 255 k = true := by
            rw [show (255 : Nat) = 2 ^ 8 - 1 from rfl, Nat.testBit_two_pow_sub_one]; simp [hk]
          have hpe' := hpe rfl
          by_cases hko : start % 8 < k
          · -- above the sign bit: the extension
            have hle : start % 8 ≤ k := by omega
            cases sign
            · simp only [Bool.false_eq_true, if_false, Nat.testBit_and, Nat.testBit_xor, hsem k hk, h255]
              simp [hpe'.mpr hko, hle]
            · simp only [if_true, show (256 : Nat) = 2 ^ 8 from rfl, Nat.testBit_mod_two_pow, Nat.testBit_or, hsem k hk, hk,
                decide_true, Bool.true_and]
              simp [hpe'.mpr hko, hle]
          · have hns : ¬ start < 8 * (n - 1 - i) + k := fun h => hko (hpe'.mp h)
            have hle := hleS rfl hko
            by_cases hke : k = start % 8
            · subst hke
              have hin := hinS (start % 8) rfl rfl
              have hbx : B.testBit (start % 8) = sign := by rw [hbit]; simp [hin, hxx, hsg]
              cases sign
              · simp only [Bool.false_eq_true, if_false, Nat.testBit_and, Nat.testBit_xor, hsem _ hk, h255, hbx]
                simp [hns, hin.1, hxx, hsg]
              · simp only [if_true, show (256 : Nat) = 2 ^ 8 from rfl, Nat.testBit_mod_two_pow, Nat.testBit_or, hsem _ hk, hk,
                  decide_true, Bool.true_and, hbx]
                simp [hns, hin.1, hxx, hsg]
            · have hnk : ¬ start % 8 ≤ k := by omega
              cases sign
              · simp only [Bool.false_eq_true, if_false, Nat.testBit_and, Nat.testBit_xor, hsem k hk, h255, hbit]
                simp [hns, hnk, hle]
              · simp only [if_true, show (256 : Nat) = 2 ^ 8 from rfl, Nat.testBit_mod_two_pow, Nat.testBit_or, hsem k hk, hk,
                  decide_true, Bool.true_and, hbit]
                simp [hns, hnk, hle]
        · have h3 : sB < i := by omega
          simp only [h1, h2, if_false, hpg h3]
          rw [hbit]
          have hle : 8 * (n - 1 - i) + k ≤ start := by omega
          simp [hle]
    · -- sign = fill: nothing to extend
      have hb : (sign != c.fillOne) = false := by simpa using hne
      have hsf : sign = c.fillOne := by simpa using hb
      simp only [hb, Bool.false_eq_true, if_false, List.getElem?_map, hout, Option.map_some, hofnat]
      congr 1
      rw [hbit, hsf]
      by_cases hp : start < 8 * (n - 1 - i) + k
      · have : ¬ 8 * (n - 1 - i) + k ≤ start := by omega
        simp [hp, this]
      · have : 8 * (n - 1 - i) + k ≤ start := by omega
        simp [hp, this]
  · simp only [hse, Bool.false_eq_true, if_false, List.getElem?_map, hout, Option.map_some, hofnat]
    congr 1
    rw [hbit]
    by_cases hp : start < 8 * (n - 1 - i) + k
    · have : ¬ 8 * (n - 1 - i) + k ≤ start := by omega
      simp [hp, this]
    · have : 8 * (n - 1 - i) + k ≤ start := by omega
      simp [hp, this]


theorem length_outBytes : ∀ (mis : List MaskInfo) (mbs : List Nat) (xs : List UInt8), mis.length = xs.length → mbs.length = xs.length →
    (outBytes mis mbs xs).length = xs.length := by
  intro mis
  induction mis with
  | nil => intro mbs xs h1 _; cases xs <;> simp_all [outBytes]
  | cons mi mis ih =>
    intro mbs xs h1 h2
    cases xs with
    | nil => simp at h1
    | cons x xs =>
      cases mbs with
      | nil => simp at h2
      | cons mb mbs => simp only [outBytes, List.length_cons]; rw [ih mbs xs (by simpa using h1) (by simpa using h2)]

theorem length_decItem (c : Cfg) (v : List UInt8) (hlen : v.length = c.ntSize) (prev : Bool) :
    (decItem c (itemVals (maskInfos c) v) prev).1.length = c.ntSize := by
  have hbytes := decBytes_spec (c.ntSize - (c.maskOff / 8 + 1)) (arr32 (c.maskOff % 8 + 1) ^^^ arr32 (c.maskOff % 8)) (maskInfos c)
    (maskBuf c) v 0 none [] (by rw [length_maskInfos, hlen]) (by simp [maskBuf, length_maskInfos, hlen])
  rw [List.append_nil] at hbytes
  have hl := length_outBytes (maskInfos c) (maskBuf c) v (by rw [length_maskInfos, hlen]) (by simp [maskBuf, length_maskInfos, hlen])
  unfold decItem
  simp only [hbytes]
  split
  · split <;> simp [hl, hlen]
  · simp [hl, hlen]

/-- `nbit_projection`, item level: the bytes the decoder rebuilds from the words read back for value `v` are the documented
    projection of `v` -/
theorem decItem_projection (c : Cfg) (hv : c.Valid) (v : List UInt8) (hlen : v.length = c.ntSize) (prev : Bool) :
    bytesBits (decItem c (itemVals (maskInfos c) v) prev).1 = projectBits c (bytesBits v) := by
  apply List.ext_getElem?
  intro idx
  rw [getElem?_bytesBits]
  obtain ⟨hn, hs, hl1, hl⟩ := hv
  have hvalid : c.Valid := ⟨hn, hs, hl1, hl⟩
  have hk : 7 - idx % 8 < 8 := by omega
  unfold projectBits
  simp only [length_bytesBits, hlen]
  by_cases hi : idx / 8 < c.ntSize
  · rw [decItem_bit c hvalid v hlen prev (idx / 8) (7 - idx % 8) hi hk]
    have hidx : idx < 8 * c.ntSize := by omega
    unfold specBit
    simp only
    have hp : 8 * (c.ntSize - 1 - idx / 8) + (7 - idx % 8) = 8 * c.ntSize - 1 - idx := by omega
    rw [hp]
    have hbit : ∀ j, j < 8 * c.ntSize → (bytesBits v)[j]? = some ((v.getD (j / 8) 0).toNat.testBit (7 - j % 8)) := by
      intro j hj
      rw [getElem?_bytesBits]
      have : j / 8 < v.length := by omega
      simp [List.getD, List.getElem?_eq_getElem this]
    -- the sign bit is the first bit of the field
    have hhead : (List.take c.maskLen (List.drop (8 * c.ntSize - 1 - c.maskOff) (bytesBits v))).headD false =
        ((v.getD (c.ntSize - 1 - c.maskOff / 8) 0).toNat).testBit (c.maskOff % 8) := by
      rw [List.headD_eq_head?_getD, List.head?_eq_getElem?, List.getElem?_take]
      have : 0 < c.maskLen := by omega
      simp only [this, if_true, List.getElem?_drop, Nat.add_zero]
      rw [hbit _ (by omega)]
      have e1 : (8 * c.ntSize - 1 - c.maskOff) / 8 = c.ntSize - 1 - c.maskOff / 8 := by omega
      have e2 : 7 - (8 * c.ntSize - 1 - c.maskOff) % 8 = c.maskOff % 8 := by omega
      simp [e1, e2]
    rw [hhead]
    simp only [List.getElem?_append, List.length_replicate, List.length_append, List.length_take, List.length_drop, length_bytesBits, hlen,
      List.getElem?_replicate, List.getElem?_take, List.getElem?_drop]
    have hmin : min c.maskLen (8 * c.ntSize - (8 * c.ntSize - 1 - c.maskOff)) = c.maskLen := by omega
    rw [hmin]
    by_cases h1 : idx < 8 * c.ntSize - 1 - c.maskOff
    · have h1' : c.maskOff < 8 * c.ntSize - 1 - idx := by omega
      have h1'' : idx < 8 * c.ntSize - 1 - c.maskOff + c.maskLen := by omega
      simp [h1, h1', h1'']
    · have h1' : ¬ c.maskOff < 8 * c.ntSize - 1 - idx := by omega
      by_cases h2 : idx < 8 * c.ntSize - 1 - c.maskOff + c.maskLen
      · have h2' : c.maskOff + 1 - c.maskLen ≤ 8 * c.ntSize - 1 - idx := by omega
        have h3 : idx - (8 * c.ntSize - 1 - c.maskOff) < c.maskLen := by omega
        have h4 : 8 * c.ntSize - 1 - c.maskOff + (idx - (8 * c.ntSize - 1 - c.maskOff)) = idx := by omega
        simp only [h1, h1', h2, h2', if_true, if_false, h3, h4]
        rw [hbit idx hidx]
      · have h2' : ¬ c.maskOff + 1 - c.maskLen ≤ 8 * c.ntSize - 1 - idx := by omega
        have h5 : idx - (8 * c.ntSize - 1 - c.maskOff + c.maskLen) < 8 * c.ntSize - (8 * c.ntSize - 1 - c.maskOff) - c.maskLen := by omega
        simp [h1, h1', h2, h2', h5]
  · have hnone : (decItem c (itemVals (maskInfos c) v) prev).1[idx / 8]? = none := by
      rw [List.getElem?_eq_none]; rw [length_decItem c v hlen prev]; omega
    rw [hnone, Option.map_none]
    symm
    rw [List.getElem?_eq_none]
    simp only [List.length_append, List.length_replicate, List.length_take, List.length_drop, length_bytesBits, hlen]
    omega


theorem bitsBytes_bytesBits (l : List UInt8) : bitsBytes l.length (bytesBits l) = l := by
  induction l with
  | nil => rfl
  | cons b l ih =>
    simp only [List.length_cons, bitsBytes, bytesBits_cons]
    rw [List.take_append_of_le_length (by simp), List.take_of_length_le (by simp),
      List.drop_append_of_le_length (by simp), List.drop_of_length_le (by simp), List.nil_append, ih, ofBits_msbBits]
    have : b.toNat % 2 ^ 8 = b.toNat := Nat.mod_eq_of_lt (UInt8.toNat_lt b)
    rw [this]; simp

theorem encode_append (c : Cfg) : ∀ (xs ys : List UInt8) (pos : Nat),
    encode c pos (xs ++ ys) = ((encode c pos xs).1 ++ (encode c (encode c pos xs).2 ys).1, (encode c (encode c pos xs).2 ys).2) := by
  intro xs
  induction xs with
  | nil => intro ys pos; simp [encode]
  | cons x xs ih =>
    intro ys pos
    simp only [List.cons_append, encode, ih, List.append_assoc]

theorem encByte_valid {mi : MaskInfo} (h : GoodMI mi) (x : UInt8) : ∀ f ∈ encByte mi x, 1 ≤ f.1 ∧ f.1 ≤ 32 := by
  intro f hf
  unfold encByte at hf
  split at hf
  · simp at hf; subst hf; have := h.2; simp only; omega
  · simp at hf

end H4.NBit
