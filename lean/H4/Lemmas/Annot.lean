import H4.Annot
/-! Lemmas for C11: the annotation key macros (bitwise on `Nat`), the payload codec, the ordered tree. -/
namespace H4.Annot
open H4.Gen.Hdf H4.Gen.Mfan H4.Gen.Macros

theorem consts : AN_DATA_LABEL = 0 ∧ AN_DATA_DESC = 1 ∧ AN_FILE_LABEL = 2 ∧ AN_FILE_DESC = 3 ∧
    TAG_DATA_LABEL = DFTAG_DIL ∧ TAG_DATA_DESC = DFTAG_DIA ∧ TAG_FILE_LABEL = DFTAG_FID ∧ TAG_FILE_DESC = DFTAG_FD ∧
    DFTAG_DIL = 104 ∧ DFTAG_DIA = 105 ∧ DFTAG_FID = 100 ∧ DFTAG_FD = 101 := by decide

/-- the generated `AN_CREATE_KEY` is `type · 2¹⁶ + ref` on 16-bit arguments -/
theorem key_eq (t r : Nat) (ht : t < 65536) (hr : r < 65536) : AN_CREATE_KEY t r = t * 65536 + r := by
  unfold AN_CREATE_KEY
  have h1 : t % 4294967296 = t := Nat.mod_eq_of_lt (by omega)
  have h2 : t &&& 65535 = t % 65536 := Nat.and_two_pow_sub_one_eq_mod t 16
  rw [h1, h2, Nat.mod_eq_of_lt ht, ← Nat.shiftLeft_add_eq_or_of_lt (by simpa using hr), Nat.shiftLeft_eq]

theorem key2type_create (t r : Nat) (ht : t < 65536) (hr : r < 65536) : AN_KEY2TYPE (AN_CREATE_KEY t r) = t := by
  rw [key_eq t r ht hr]
  unfold AN_KEY2TYPE
  have h1 : (t * 65536 + r) % 4294967296 = t * 65536 + r := Nat.mod_eq_of_lt (by omega)
  rw [h1, Nat.shiftRight_eq_div_pow]
  have : (t * 65536 + r) / 2 ^ 16 = t := by omega
  rw [this]; exact Nat.mod_eq_of_lt (by omega)

theorem key2ref_create (t r : Nat) (ht : t < 65536) (hr : r < 65536) : AN_KEY2REF (AN_CREATE_KEY t r) = r := by
  rw [key_eq t r ht hr]
  unfold AN_KEY2REF
  have h1 : (t * 65536 + r) % 4294967296 = t * 65536 + r := Nat.mod_eq_of_lt (by omega)
  have h2 : (t * 65536 + r) &&& 65535 = (t * 65536 + r) % 65536 := Nat.and_two_pow_sub_one_eq_mod _ 16
  rw [h1, h2]; omega

theorem key_injective (t r t' r' : Nat) (ht : t < 65536) (hr : r < 65536) (ht' : t' < 65536) (hr' : r' < 65536)
    (h : AN_CREATE_KEY t r = AN_CREATE_KEY t' r') : t = t' ∧ r = r' := by
  rw [key_eq t r ht hr, key_eq t' r' ht' hr'] at h
  omega

/-! payload -/

theorem getPrefix (a b : Nat) (ha : a < 65536) (hb : b < 65536) (text : Bytes) :
    decodeAnn AN_DATA_LABEL (0, 0) (u16 a ++ u16 b ++ text) = some ((a, b), text) := by
  simp only [u16, List.cons_append, List.nil_append, decodeAnn, UInt8.toNat_ofNat']
  have : isDataType AN_DATA_LABEL = true := by decide
  simp only [this, if_true]
  congr 3 <;> omega

theorem decode_encode (t : Nat) (self target : Nat × Nat) (text : Bytes) (h1 : target.1 < 65536) (h2 : target.2 < 65536) :
    decodeAnn t self (encodeAnn t target text) = some (if isDataType t then target else self, text) := by
  unfold decodeAnn encodeAnn
  by_cases hd : isDataType t = true
  · simp only [hd, if_true, u16, List.cons_append, List.nil_append, UInt8.toNat_ofNat']
    obtain ⟨a, b⟩ := target
    simp only at h1 h2 ⊢
    congr 3 <;> omega
  · simp [hd]

theorem type_tag_roundtrip (t : Nat) (h : t < 4) : (tagOfType t).bind typeOfTag = some t := by
  have : t = 0 ∨ t = 1 ∨ t = 2 ∨ t = 3 := by omega
  rcases this with rfl | rfl | rfl | rfl <;> decide

/-! the ordered tree -/

def TreeSorted (tr : List (Nat × Entry)) : Prop := (tr.map (·.1)).Pairwise (· > ·)

theorem treeIns_keys {key : Nat} {e : Entry} {tr tr' : List (Nat × Entry)} (h : treeIns key e tr = some tr') :
    ∀ k, k ∈ tr'.map (·.1) ↔ k = key ∨ k ∈ tr.map (·.1) := by
  induction tr generalizing tr' with
  | nil => simp [treeIns] at h; subst h; simp
  | cons a t ih =>
    obtain ⟨k', e'⟩ := a
    simp only [treeIns] at h
    split at h
    · simp at h; subst h; intro k; simp
    · split at h
      · simp at h
      · cases hr : treeIns key e t with
        | none => simp [hr] at h
        | some t' =>
          simp [hr] at h; subst h
          intro k
          have := ih hr k
          simp only [List.map_cons, List.mem_cons, this]
          constructor
          · rintro (a | a | a) <;> simp [a]
          · rintro (a | a | a) <;> simp [a]

theorem treeIns_sorted {key : Nat} {e : Entry} {tr tr' : List (Nat × Entry)} (hs : TreeSorted tr)
    (h : treeIns key e tr = some tr') : TreeSorted tr' := by
  induction tr generalizing tr' with
  | nil => simp [treeIns] at h; subst h; simp [TreeSorted]
  | cons a t ih =>
    obtain ⟨k', e'⟩ := a
    simp only [TreeSorted, List.map_cons, List.pairwise_cons] at hs
    simp only [treeIns] at h
    split at h
    · rename_i hgt
      simp at h; subst h
      simp only [TreeSorted, List.map_cons, List.pairwise_cons, List.mem_cons]
      refine ⟨?_, hs.1, hs.2⟩
      intro x hx
      rcases hx with hx | hx
      · omega
      · have := hs.1 x hx; omega
    · split at h
      · simp at h
      · rename_i h1 h2
        cases hr : treeIns key e t with
        | none => simp [hr] at h
        | some t' =>
          simp [hr] at h; subst h
          simp only [TreeSorted, List.map_cons, List.pairwise_cons]
          refine ⟨?_, ih hs.2 hr⟩
          intro x hx
          rcases (treeIns_keys hr x).mp hx with a | a
          · omega
          · exact hs.1 x a

theorem treeIns_subset {key : Nat} {e : Entry} {tr tr' : List (Nat × Entry)} (h : treeIns key e tr = some tr') :
    (∀ p ∈ tr, p ∈ tr') ∧ (key, e) ∈ tr' := by
  induction tr generalizing tr' with
  | nil => simp [treeIns] at h; subst h; simp
  | cons a t ih =>
    obtain ⟨k', e'⟩ := a
    simp only [treeIns] at h
    split at h
    · simp at h; subst h; exact ⟨fun p hp => by simp [hp], by simp⟩
    · split at h
      · simp at h
      · cases hr : treeIns key e t with
        | none => simp [hr] at h
        | some t' =>
          simp [hr] at h; subst h
          obtain ⟨a1, a2⟩ := ih hr
          refine ⟨fun p hp => ?_, by simp [a2]⟩
          rcases List.mem_cons.mp hp with hp | hp
          · simp [hp]
          · simp [a1 p hp]

theorem treeFind_of_mem_sorted {tr : List (Nat × Entry)} (hs : TreeSorted tr) {k : Nat} {e : Entry} (h : (k, e) ∈ tr) :
    treeFind k tr = some e := by
  induction tr with
  | nil => simp at h
  | cons a t ih =>
    obtain ⟨k', e'⟩ := a
    simp only [TreeSorted, List.map_cons, List.pairwise_cons] at hs
    simp only [List.mem_cons, Prod.mk.injEq] at h
    simp only [treeFind]
    rcases h with ⟨h1, h2⟩ | h
    · simp [h1, h2]
    · have : k' > k := hs.1 k (List.mem_map.mpr ⟨(k, e), h, rfl⟩)
      have ne : ¬ k' = k := by omega
      simp only [ne, if_false]
      exact ih hs.2 h

theorem loadFold_sorted (t tag : Nat) (es : List ((Nat × Nat) × Bytes)) (tr : List (Nat × Entry)) (hs : TreeSorted tr) :
    TreeSorted (es.foldl (fun tr p =>
      match decodeAnn t (tag, p.1.2) p.2 with
      | none => tr
      | some (target, _) => (treeIns (AN_CREATE_KEY t p.1.2) ⟨p.1.2, target.1, target.2⟩ tr).getD tr) tr) := by
  induction es generalizing tr with
  | nil => exact hs
  | cons a rest ih =>
    simp only [List.foldl_cons]
    apply ih
    cases decodeAnn t (tag, a.1.2) a.2 with
    | none => exact hs
    | some v =>
      simp only
      cases hr : treeIns (AN_CREATE_KEY t a.1.2) ⟨a.1.2, v.1.1, v.1.2⟩ tr with
      | none => exact hs
      | some tr' => exact treeIns_sorted hs hr

theorem loadType_sorted (s : AnState) (t : Nat) (hs : TreeSorted s.tree) : TreeSorted (loadType s t).tree := by
  unfold loadType
  split
  · exact hs
  · split
    · exact hs
    · exact loadFold_sorted _ _ _ _ hs

theorem loadType_elems (s : AnState) (t : Nat) : (loadType s t).elems = s.elems := by
  unfold loadType
  split
  · rfl
  · split <;> rfl

theorem tagOfType_ne_null {t tag : Nat} (h : tagOfType t = some tag) : tag ≠ DFTAG_NULL := by
  unfold tagOfType at h
  repeat' split at h
  all_goals first
    | (simp only [Option.some.injEq] at h; subst h; decide)
    | simp at h

theorem elemLook_elemSet (k k' : Nat × Nat) (v : Bytes) (l : List ((Nat × Nat) × Bytes)) :
    elemLook k' (elemSet k v l) = if k' = k then (elemLook k l).map (fun _ => v) else elemLook k' l := by
  induction l with
  | nil => simp [elemSet, elemLook]
  | cons a t ih =>
    obtain ⟨ka, va⟩ := a
    simp only [elemSet]
    by_cases h : ka = k
    · subst h
      simp only [if_true, elemLook]
      by_cases h2 : ka = k'
      · simp [h2]
      · have : ¬ k' = ka := fun e => h2 e.symm
        simp [h2, this]
    · simp only [h, if_false, elemLook, ih]
      by_cases h2 : ka = k'
      · have : ¬ k' = k := fun e => h (h2.trans e)
        simp [h2, this]
      · simp [h2]

theorem elemLook_elemFill (k k' : Nat × Nat) (v : Bytes) (l : List ((Nat × Nat) × Bytes))
    (hk' : k'.1 ≠ DFTAG_NULL) (hn : elemLook k l = none) :
    elemLook k' (elemFill k v l) = if k' = k then some v else elemLook k' l := by
  induction l with
  | nil =>
    simp only [elemFill, elemLook]
    by_cases h : k = k'
    · simp [h]
    · have : ¬ k' = k := fun e => h e.symm
      simp [h, this]
  | cons a t ih =>
    obtain ⟨ka, va⟩ := a
    simp only [elemLook] at hn
    have hka : ¬ ka = k := by
      intro e; simp [e] at hn
    simp only [hka, if_false] at hn
    simp only [elemFill]
    by_cases hz : ka.1 = DFTAG_NULL
    · have hne : ¬ ka = k' := fun e => hk' (e ▸ hz)
      simp only [hz, if_true, elemLook, hne, if_false]
      by_cases h : k = k'
      · simp [h]
      · have : ¬ k' = k := fun e => h e.symm
        simp [h, this]
    · simp only [hz, if_false, elemLook, ih hn]
      by_cases h2 : ka = k'
      · have : ¬ k' = k := fun e => hka (h2.trans e)
        simp [h2, this]
      · simp [h2]

/-- what a lookup finds after `Hputelement`: for every real tag/ref (a DD with tag `DFTAG_NULL` is a free DD, not an
    element) -/
theorem elemLook_elemPut (k k' : Nat × Nat) (v : Bytes) (l : List ((Nat × Nat) × Bytes)) (hk' : k'.1 ≠ DFTAG_NULL) :
    elemLook k' (elemPut k v l) = if k' = k then some v else elemLook k' l := by
  unfold elemPut
  cases h : elemLook k l with
  | none => simpa [h] using elemLook_elemFill k k' v l hk' h
  | some b => simp [elemLook_elemSet, h]

/-! sessions: what `ANIcreate_ann_tree` builds from the file when the type's tree is not there -/

/-- the tree entry `ANIcreate_ann_tree` makes of one annotation element of the type's tag (`none`: an object annotation
    shorter than its 4-byte target prefix) -/
def entryOf (t tag : Nat) (p : (Nat × Nat) × Bytes) : Option (Nat × Entry) :=
  match decodeAnn t (tag, p.1.2) p.2 with
  | none => none
  | some (target, _) => some (AN_CREATE_KEY t p.1.2, ⟨p.1.2, target.1, target.2⟩)

/-- the annotations of type `t` that exist in the file, as tree entries, in DD order -/
def fileEntries (elems : List ((Nat × Nat) × Bytes)) (t : Nat) : List (Nat × Entry) :=
  match tagOfType t with
  | none => []
  | some tag => (elems.filter (fun p => p.1.1 == tag)).filterMap (entryOf t tag)

/-- a well-formed DD list: no tag/ref twice (free DDs, tag `DFTAG_NULL`, are not elements), refs are 16-bit -/
def FileOk (elems : List ((Nat × Nat) × Bytes)) : Prop :=
  elems.Pairwise (fun p q => p.1.1 ≠ DFTAG_NULL → p.1 ≠ q.1) ∧ ∀ p ∈ elems, p.1.2 < 65536

theorem treeIns_perm {key : Nat} {e : Entry} {tr tr' : List (Nat × Entry)} (h : treeIns key e tr = some tr') :
    tr'.Perm ((key, e) :: tr) := by
  induction tr generalizing tr' with
  | nil => simp [treeIns] at h; subst h; exact List.Perm.refl _
  | cons a t ih =>
    obtain ⟨k', e'⟩ := a
    simp only [treeIns] at h
    split at h
    · simp at h; subst h; exact List.Perm.refl _
    · split at h
      · simp at h
      · cases hr : treeIns key e t with
        | none => simp [hr] at h
        | some t' =>
          simp [hr] at h; subst h
          exact ((ih hr).cons (k', e')).trans (List.Perm.swap _ _ _)

theorem treeIns_isSome {key : Nat} (e : Entry) {tr : List (Nat × Entry)} (h : key ∉ tr.map (·.1)) :
    ∃ tr', treeIns key e tr = some tr' := by
  induction tr with
  | nil => exact ⟨_, rfl⟩
  | cons a t ih =>
    obtain ⟨k', e'⟩ := a
    simp only [List.map_cons, List.mem_cons, not_or] at h
    simp only [treeIns]
    split
    · exact ⟨_, rfl⟩
    · split
      · exact absurd (by assumption) h.1
      · obtain ⟨t', ht'⟩ := ih h.2
        exact ⟨(k', e') :: t', by simp [ht']⟩

theorem loadFold_perm (t tag : Nat) (ht : t < 65536) (es : List ((Nat × Nat) × Bytes)) (tr : List (Nat × Entry))
    (hr : ∀ p ∈ es, p.1.2 < 65536) (hnd : es.Pairwise (fun p q => p.1.2 ≠ q.1.2))
    (hfresh : ∀ p ∈ es, AN_CREATE_KEY t p.1.2 ∉ tr.map (·.1)) :
    (es.foldl (fun tr p =>
      match decodeAnn t (tag, p.1.2) p.2 with
      | none => tr
      | some (target, _) => (treeIns (AN_CREATE_KEY t p.1.2) ⟨p.1.2, target.1, target.2⟩ tr).getD tr) tr).Perm
      (tr ++ es.filterMap (entryOf t tag)) := by
  induction es generalizing tr with
  | nil => simp
  | cons a rest ih =>
    simp only [List.foldl_cons]
    have hr' : ∀ p ∈ rest, p.1.2 < 65536 := fun p hp => hr p (List.mem_cons_of_mem _ hp)
    have hnd' := (List.pairwise_cons.mp hnd).2
    have hne := (List.pairwise_cons.mp hnd).1
    cases hd : decodeAnn t (tag, a.1.2) a.2 with
    | none =>
      have : entryOf t tag a = none := by simp [entryOf, hd]
      simp only [List.filterMap_cons, this]
      exact ih tr hr' hnd' (fun p hp => hfresh p (List.mem_cons_of_mem _ hp))
    | some v =>
      obtain ⟨target, txt⟩ := v
      have he : entryOf t tag a = some (AN_CREATE_KEY t a.1.2, ⟨a.1.2, target.1, target.2⟩) := by simp [entryOf, hd]
      simp only [List.filterMap_cons, he]
      obtain ⟨tr', htr'⟩ := treeIns_isSome ⟨a.1.2, target.1, target.2⟩ (hfresh a List.mem_cons_self)
      simp only [htr', Option.getD_some]
      have hfresh' : ∀ p ∈ rest, AN_CREATE_KEY t p.1.2 ∉ tr'.map (·.1) := by
        intro p hp hmem
        rcases (treeIns_keys htr' _).mp hmem with h1 | h1
        · have := (key_injective t p.1.2 t a.1.2 ht (hr' p hp) ht (hr a List.mem_cons_self) h1).2
          exact hne p hp this.symm
        · exact hfresh p (List.mem_cons_of_mem _ hp) h1
      refine (ih tr' hr' hnd' hfresh').trans ?_
      exact ((treeIns_perm htr').append_right _).trans List.perm_middle.symm

theorem fileEntries_type (elems : List ((Nat × Nat) × Bytes)) (hok : FileOk elems) (t : Nat) (ht : t < 4) :
    ∀ x ∈ fileEntries elems t, AN_KEY2TYPE x.1 = t := by
  intro x hx
  unfold fileEntries at hx
  cases htag : tagOfType t with
  | none => simp [htag] at hx
  | some tag =>
    simp only [htag, List.mem_filterMap, List.mem_filter] at hx
    obtain ⟨p, ⟨hp, _⟩, he⟩ := hx
    unfold entryOf at he
    split at he
    · simp at he
    · simp only [Option.some.injEq] at he
      subst he
      exact key2type_create t p.1.2 (by omega) (hok.2 p hp)

/-- **`ANIcreate_ann_tree`** on a type that is not loaded, in a file record whose tree holds no entry of that type:
    the tree gains exactly the annotations of the type that exist in the file, each once -/
theorem loadType_perm (s : AnState) (t : Nat) (ht : t < 4) (hnl : s.loaded.contains t = false) (hok : FileOk s.elems)
    (hno : ∀ k ∈ s.tree.map (·.1), AN_KEY2TYPE k ≠ t) :
    (loadType s t).tree.Perm (s.tree ++ fileEntries s.elems t) ∧ (loadType s t).loaded = t :: s.loaded ∧
    (loadType s t).elems = s.elems := by
  have h4 : t = 0 ∨ t = 1 ∨ t = 2 ∨ t = 3 := by omega
  obtain ⟨tag, htag⟩ : ∃ tag, tagOfType t = some tag := by
    rcases h4 with rfl | rfl | rfl | rfl <;> exact ⟨_, rfl⟩
  unfold loadType fileEntries
  simp only [hnl, htag, Bool.false_eq_true, if_false, and_self, and_true]
  apply loadFold_perm t tag (by omega)
  · intro p hp; exact hok.2 p (List.mem_filter.mp hp).1
  · have h1 : (s.elems.filter (fun p => p.1.1 == tag)).Pairwise (fun p q => p.1.1 ≠ DFTAG_NULL → p.1 ≠ q.1) :=
      hok.1.sublist List.filter_sublist
    refine h1.imp_of_mem ?_
    intro a b ha hb hab heq
    have e1 : a.1.1 = tag := by simpa using (List.mem_filter.mp ha).2
    have e2 : b.1.1 = tag := by simpa using (List.mem_filter.mp hb).2
    exact hab (e1 ▸ tagOfType_ne_null htag) (Prod.ext (e1.trans e2.symm) heq)
  · intro p hp hmem
    exact hno _ hmem (key2type_create t p.1.2 (by omega) (hok.2 p (List.mem_filter.mp hp).1))

theorem filter_type_fileEntries (elems : List ((Nat × Nat) × Bytes)) (hok : FileOk elems) (t t' : Nat) (ht : t < 4) :
    (fileEntries elems t).filter (fun p => AN_KEY2TYPE p.1 == t') = if t = t' then fileEntries elems t else [] := by
  by_cases h : t = t'
  · subst h
    simp only [if_true]
    exact List.filter_eq_self.mpr (fun x hx => by simp [fileEntries_type elems hok t ht x hx])
  · simp only [h, if_false]
    refine List.filter_eq_nil_iff.mpr (fun x hx => ?_)
    simp [fileEntries_type elems hok t ht x hx, h]

/-- one more type loaded: the tree gains that type's annotations of the file and nothing else -/
theorem load_next (s : AnState) (t : Nat) (ht : t < 4) (L : List Nat) (hl : s.loaded = L) (hL : L.contains t = false)
    (hok : FileOk s.elems) (F : List (Nat × Entry)) (hp : s.tree.Perm F) (hF : ∀ x ∈ F, AN_KEY2TYPE x.1 ≠ t) :
    (loadType s t).tree.Perm (F ++ fileEntries s.elems t) ∧ (loadType s t).loaded = t :: L ∧ (loadType s t).elems = s.elems := by
  have hno : ∀ k ∈ s.tree.map (·.1), AN_KEY2TYPE k ≠ t := by
    intro k hk
    obtain ⟨x, hx, rfl⟩ := List.mem_map.mp hk
    exact hF x (hp.mem_iff.mp hx)
  obtain ⟨a, b, c⟩ := loadType_perm s t ht (hl ▸ hL) hok hno
  exact ⟨a.trans (hp.append_right _), hl ▸ b, c⟩

/-! the file-annotation walk of the single-file interface (`DFANgetfidlen`/`DFANgetfid`, `DFANgetfdslen`/`DFANgetfds`) -/

/-- the documented loop over the file labels / file descriptions of a file,
    `for (first = 1; DFANgetfidlen(f, first) != FAIL; first = 0) DFANgetfid(f, buf, maxlen, first);`
    run for at most `fuel` rounds: the (length, text) pairs it reports -/
def dfWalk (t maxlen : Nat) : Nat → AnState → Nat → List (Int × Out)
  | 0, _, _ => []
  | fuel + 1, s, first =>
    match step s (.dfflen t first) with
    | (s1, .int l) =>
      (l, (step s1 (.dffget t first maxlen)).2) :: dfWalk t maxlen fuel (step s1 (.dffget t first maxlen)).1 0
    | _ => []

theorem setNext_elems (s : AnState) (t r : Nat) (d : Bool) : (setNext s t r d).elems = s.elems := by
  unfold setNext; split <;> rfl

theorem nextOf_setNext (s : AnState) (t r : Nat) (d : Bool) : nextOf (setNext s t r d) t = r := by
  by_cases h : t = AN_FILE_LABEL <;> simp [nextOf, setNext, h]

theorem doneOf_setNext (s : AnState) (t r : Nat) (d : Bool) : doneOf (setNext s t r d) t = d := by
  by_cases h : t = AN_FILE_LABEL <;> simp [doneOf, setNext, h]

/-- no tag/ref twice in the DD list (free DDs are not elements) -/
def Dist (E : List ((Nat × Nat) × Bytes)) : Prop := E.Pairwise (fun p q => p.1.1 ≠ DFTAG_NULL → p.1 ≠ q.1)

theorem elemLook_of_mem {E : List ((Nat × Nat) × Bytes)} (D : Dist E) {p : (Nat × Nat) × Bytes} (hp : p ∈ E)
    (hn : p.1.1 ≠ DFTAG_NULL) : elemLook p.1 E = some p.2 := by
  induction E with
  | nil => simp at hp
  | cons a E' ih =>
    obtain ⟨ka, va⟩ := a
    obtain ⟨ha, D'⟩ := List.pairwise_cons.mp D
    simp only [elemLook]
    rcases List.mem_cons.mp hp with rfl | hp'
    · simp
    · by_cases h : ka = p.1
      · exact absurd h (ha p hp' (by simpa [h] using hn))
      · simp only [h, if_false]; exact ih D' hp'

theorem startRead_wild (T : Nat) (E : List ((Nat × Nat) × Bytes)) :
    startRead T DFREF_WILDCARD E = (E.filter (fun p => p.1.1 == T))[0]? := by
  simp [startRead, ← List.head?_eq_getElem?, List.head?_filter]

theorem startRead_ref {E : List ((Nat × Nat) × Bytes)} (D : Dist E) {p : (Nat × Nat) × Bytes} (hp : p ∈ E) {T : Nat}
    (hT : p.1.1 = T) (hn : T ≠ DFTAG_NULL) (hr : p.1.2 ≠ 0) : startRead T p.1.2 E = some p := by
  have h0 : ¬ p.1.2 = DFREF_WILDCARD := hr
  have hk : (T, p.1.2) = p.1 := by rw [← hT]
  simp only [startRead, h0, if_false, hk, elemLook_of_mem D hp (hT ▸ hn), Option.map_some]

theorem afterRef_filter (T : Nat) (hn : T ≠ DFTAG_NULL) : ∀ (E : List ((Nat × Nat) × Bytes)), Dist E →
    ∀ (i : Nat) (p : (Nat × Nat) × Bytes), (E.filter (fun p => p.1.1 == T))[i]? = some p →
    afterRef T p.1.2 E = ((E.filter (fun p => p.1.1 == T))[i + 1]?).map (·.1.2) := by
  intro E
  induction E with
  | nil => intro _ i p h; simp at h
  | cons a E' ih =>
    intro D i p h
    obtain ⟨ha, D'⟩ := List.pairwise_cons.mp D
    by_cases hta : a.1.1 = T
    · have hf : (a :: E').filter (fun p => p.1.1 == T) = a :: E'.filter (fun p => p.1.1 == T) := by simp [hta]
      rw [hf] at h ⊢
      cases i with
      | zero =>
        simp only [List.getElem?_cons_zero, Option.some.injEq] at h
        subst h
        have hc : a.1 = (T, a.1.2) := by rw [← hta]
        simp only [afterRef]
        rw [if_pos hc]
        simp only [List.getElem?_cons_succ, ← List.head?_eq_getElem?, List.head?_filter]
      | succ i' =>
        simp only [List.getElem?_cons_succ] at h ⊢
        have hm : p ∈ E'.filter (fun p => p.1.1 == T) := List.mem_of_getElem? h
        have hpT : p.1.1 = T := by simpa using (List.mem_filter.mp hm).2
        have hne : ¬ a.1 = (T, p.1.2) := by
          have := ha p (List.mem_filter.mp hm).1 (hta ▸ hn)
          rwa [← hpT]
        simp only [afterRef, hne, if_false]
        exact ih D' i' p h
    · have hf : (a :: E').filter (fun p => p.1.1 == T) = E'.filter (fun p => p.1.1 == T) := by simp [hta]
      rw [hf] at h ⊢
      have hne : ¬ a.1 = (T, p.1.2) := fun e => hta (by rw [e])
      simp only [afterRef, hne, if_false]
      exact ih D' i p h

/-- the walk may go on: it is started (again), or it is not marked done -/
def Going (s : AnState) (t first : Nat) : Prop := first = 1 ∨ doneOf s t = false

theorem step_dfflen_some {s : AnState} {t T first : Nat} (hT : tagOfType t = some T) (hd : isDataType t = false)
    (hg : Going s t first) {p : (Nat × Nat) × Bytes}
    (h : startRead T (if first = 1 then DFREF_WILDCARD else nextOf s t) s.elems = some p) :
    step s (.dfflen t first) = (setNext s t p.1.2 false, .int p.2.length) := by
  have hg' : ¬ (first ≠ 1 ∧ doneOf s t = true) := by
    rcases hg with hg | hg
    · exact fun c => c.1 hg
    · exact fun c => by simp [hg] at c
  simp [step, hT, hd, h, hg']

theorem step_dfflen_done {s : AnState} {t T first : Nat} (hT : tagOfType t = some T) (hd : isDataType t = false)
    (h1 : first ≠ 1) (h2 : doneOf s t = true) : step s (.dfflen t first) = (s, .fail) := by
  simp [step, hT, hd, h1, h2]

theorem step_dfflen_none {s : AnState} {t T first : Nat} (hT : tagOfType t = some T) (hd : isDataType t = false)
    (h : startRead T (if first = 1 then DFREF_WILDCARD else nextOf s t) s.elems = none) :
    step s (.dfflen t first) = (s, .fail) := by
  by_cases hg : first ≠ 1 ∧ doneOf s t = true
  · simp [step, hT, hd, hg]
  · simp [step, hT, hd, h, hg]

theorem step_dffget_some {s : AnState} {t T first maxlen : Nat} (hT : tagOfType t = some T) (hd : isDataType t = false)
    (hg : Going s t first) {p : (Nat × Nat) × Bytes}
    (h : startRead T (if first = 1 then DFREF_WILDCARD else nextOf s t) s.elems = some p) :
    step s (.dffget t first maxlen) =
      (match afterRef T p.1.2 s.elems with
       | some r => setNext s t r false
       | none => setNext s t ((p.1.2 + 1) % 65536) true, .bytes (clipF p.2 maxlen)) := by
  have hg' : ¬ (first ≠ 1 ∧ doneOf s t = true) := by
    rcases hg with hg | hg
    · exact fun c => c.1 hg
    · exact fun c => by simp [hg] at c
  simp only [step, hT, hd, h, hg', if_false, Bool.false_eq_true]
  cases afterRef T p.1.2 s.elems <;> rfl

/-- what one round of the walk reports for an annotation -/
def walkItem (maxlen : Nat) (p : (Nat × Nat) × Bytes) : Int × Out := ((p.2.length : Int), .bytes (clipF p.2 maxlen))

/-- the walk from the `i`-th file annotation (DD order) on: it reports that one and all behind it, each once, and ends -/
theorem dfWalk_from (t T maxlen : Nat) (hT : tagOfType t = some T) (hd : isDataType t = false)
    (E : List ((Nat × Nat) × Bytes)) (D : Dist E) (hpos : ∀ p ∈ E, p.1.1 = T → p.1.2 ≠ 0) :
    ∀ (k i : Nat) (s : AnState) (first fuel : Nat), s.elems = E → i + k = (E.filter (fun p => p.1.1 == T)).length → k < fuel →
      (first = 1 → i = 0) →
      (first ≠ 1 → (k = 0 → doneOf s t = true) ∧
        ∀ p, (E.filter (fun p => p.1.1 == T))[i]? = some p → doneOf s t = false ∧ nextOf s t = p.1.2) →
      dfWalk t maxlen fuel s first = ((E.filter (fun p => p.1.1 == T)).drop i).map (walkItem maxlen) := by
  have hn : T ≠ DFTAG_NULL := tagOfType_ne_null hT
  intro k
  induction k with
  | zero =>
    intro i s first fuel hs hik hf h1 h0
    obtain ⟨fuel', rfl⟩ : ∃ f', fuel = f' + 1 := ⟨fuel - 1, by omega⟩
    have hdrop : (E.filter (fun p => p.1.1 == T)).drop i = [] := List.drop_eq_nil_iff.mpr (by omega)
    have hfail : step s (.dfflen t first) = (s, .fail) := by
      by_cases hf1 : first = 1
      · have hi := h1 hf1
        apply step_dfflen_none hT hd
        simp only [hf1, if_true, hs, startRead_wild]
        exact List.getElem?_eq_none_iff.mpr (by omega)
      · exact step_dfflen_done hT hd hf1 ((h0 hf1).1 rfl)
    simp only [dfWalk, hfail, hdrop, List.map_nil]
  | succ k ih =>
    intro i s first fuel hs hik hf h1 h0
    obtain ⟨fuel', rfl⟩ : ∃ f', fuel = f' + 1 := ⟨fuel - 1, by omega⟩
    have hi : i < (E.filter (fun p => p.1.1 == T)).length := by omega
    obtain ⟨p, hp⟩ : ∃ p, (E.filter (fun p => p.1.1 == T))[i]? = some p := ⟨_, List.getElem?_eq_getElem hi⟩
    have hpm : p ∈ E.filter (fun p => p.1.1 == T) := List.mem_of_getElem? hp
    have hpE : p ∈ E := (List.mem_filter.mp hpm).1
    have hpT : p.1.1 = T := by simpa using (List.mem_filter.mp hpm).2
    -- the lookup of both calls of the round finds `p`
    have hlook : ∀ s' : AnState, s'.elems = E → (first ≠ 1 → nextOf s' t = p.1.2) →
        startRead T (if first = 1 then DFREF_WILDCARD else nextOf s' t) s'.elems = some p := by
      intro s' hs' hnx
      by_cases hf1 : first = 1
      · have hi0 := h1 hf1
        subst hi0
        simp only [hf1, if_true, hs', startRead_wild, hp]
      · simp only [hf1, if_false, hs', hnx hf1]
        exact startRead_ref D hpE hpT hn (hpos p hpE hpT)
    have hg1 : Going s t first := by
      by_cases hf1 : first = 1
      · exact Or.inl hf1
      · exact Or.inr ((h0 hf1).2 p hp).1
    have hl1 := hlook s hs (fun hf1 => ((h0 hf1).2 p hp).2)
    have hs1 : (setNext s t p.1.2 false).elems = E := by rw [setNext_elems, hs]
    have hg2 : Going (setNext s t p.1.2 false) t first := Or.inr (doneOf_setNext s t p.1.2 false)
    have hl2 := hlook (setNext s t p.1.2 false) hs1 (fun _ => nextOf_setNext s t p.1.2 false)
    have hdrop : (E.filter (fun p => p.1.1 == T)).drop i = p :: (E.filter (fun p => p.1.1 == T)).drop (i + 1) := by
      obtain ⟨h, rfl⟩ := List.getElem?_eq_some_iff.mp hp
      exact List.drop_eq_getElem_cons h
    have hafter := afterRef_filter T hn E D i p hp
    simp only [dfWalk, step_dfflen_some hT hd hg1 hl1, step_dffget_some hT hd hg2 hl2, hdrop, List.map_cons, walkItem, hs1]
    congr 1
    rw [hafter]
    apply ih (i + 1) _ 0 fuel'
    · cases (E.filter (fun p => p.1.1 == T))[i + 1]? <;> simp only [Option.map] <;> rw [setNext_elems, hs1]
    · omega
    · omega
    · intro h; exact absurd h (by decide)
    · intro _
      constructor
      · intro hk0
        have hnone : (E.filter (fun p => p.1.1 == T))[i + 1]? = none := List.getElem?_eq_none_iff.mpr (by omega)
        simp only [hnone, Option.map_none, doneOf_setNext]
      · intro q hq
        simp only [hq, Option.map_some, doneOf_setNext, nextOf_setNext, and_self]

theorem setNext_tree (s : AnState) (t r : Nat) (d : Bool) : (setNext s t r d).tree = s.tree := by
  unfold setNext; split <;> rfl

/-! deletion (`Hdeldd`) -/

theorem elemLook_none_of_forall {k : Nat × Nat} {l : List ((Nat × Nat) × Bytes)} (h : ∀ q ∈ l, q.1 ≠ k) : elemLook k l = none := by
  induction l with
  | nil => rfl
  | cons a t ih =>
    obtain ⟨ka, va⟩ := a
    have h1 : ¬ ka = k := h (ka, va) List.mem_cons_self
    simp only [elemLook, h1, if_false]
    exact ih (fun q hq => h q (List.mem_cons_of_mem _ hq))

/-- after `Hdeldd` the tag/ref is gone and every other element is where and what it was -/
theorem elemLook_elemDel (k k' : Nat × Nat) (l : List ((Nat × Nat) × Bytes)) (D : Dist l) (hk : k.1 ≠ DFTAG_NULL)
    (hk' : k'.1 ≠ DFTAG_NULL) : elemLook k' (elemDel k l) = if k' = k then none else elemLook k' l := by
  induction l with
  | nil => simp [elemDel, elemLook]
  | cons a t ih =>
    obtain ⟨ka, va⟩ := a
    obtain ⟨ha, D'⟩ := List.pairwise_cons.mp D
    simp only [elemDel]
    by_cases h : ka = k
    · subst h
      have hne : ¬ (DFTAG_NULL, 0) = k' := fun e => hk' (by rw [← e])
      simp only [if_true, elemLook, hne, if_false]
      by_cases h2 : ka = k'
      · subst h2
        simp only [if_true]
        exact elemLook_none_of_forall (fun q hq e => ha q hq hk e.symm)
      · have : ¬ k' = ka := fun e => h2 e.symm
        simp [h2, this]
    · simp only [h, if_false, elemLook, ih D']
      by_cases h2 : ka = k'
      · have : ¬ k' = k := fun e => h (h2.trans e)
        simp [h2, this]
      · simp [h2]

theorem mem_elemDel {k : Nat × Nat} {l : List ((Nat × Nat) × Bytes)} {q : (Nat × Nat) × Bytes} (h : q ∈ elemDel k l) :
    q ∈ l ∨ q = ((DFTAG_NULL, 0), []) := by
  induction l with
  | nil => simp [elemDel] at h
  | cons a t ih =>
    obtain ⟨ka, va⟩ := a
    simp only [elemDel] at h
    split at h
    · rcases List.mem_cons.mp h with h | h
      · exact Or.inr h
      · exact Or.inl (List.mem_cons_of_mem _ h)
    · rcases List.mem_cons.mp h with h | h
      · exact Or.inl (h ▸ List.mem_cons_self)
      · rcases ih h with h | h
        · exact Or.inl (List.mem_cons_of_mem _ h)
        · exact Or.inr h

theorem dist_elemDel (k : Nat × Nat) {l : List ((Nat × Nat) × Bytes)} (D : Dist l) : Dist (elemDel k l) := by
  induction l with
  | nil => simp [elemDel, Dist]
  | cons a t ih =>
    obtain ⟨ka, va⟩ := a
    obtain ⟨ha, D'⟩ := List.pairwise_cons.mp D
    simp only [elemDel]
    split
    · exact List.pairwise_cons.mpr ⟨fun q _ hq => absurd rfl hq, D'⟩
    · refine List.pairwise_cons.mpr ⟨fun q hq hn => ?_, ih D'⟩
      rcases mem_elemDel hq with hq | rfl
      · exact ha q hq hn
      · exact fun e => hn (by rw [e])

theorem fileOk_elemDel (k : Nat × Nat) {l : List ((Nat × Nat) × Bytes)} (hok : FileOk l) : FileOk (elemDel k l) := by
  refine ⟨dist_elemDel k hok.1, fun q hq => ?_⟩
  rcases mem_elemDel hq with hq | rfl
  · exact hok.2 q hq
  · decide

/-- the elements of a tag after `Hdeldd`: the same, in the same DD order, without the deleted one -/
theorem filter_elemDel (k : Nat × Nat) (l : List ((Nat × Nat) × Bytes)) (D : Dist l) (hk : k.1 ≠ DFTAG_NULL) (T : Nat)
    (hT : T ≠ DFTAG_NULL) :
    (elemDel k l).filter (fun p => p.1.1 == T) = (l.filter (fun p => p.1.1 == T)).filter (fun p => p.1 != k) := by
  induction l with
  | nil => simp [elemDel]
  | cons a t ih =>
    obtain ⟨ka, va⟩ := a
    obtain ⟨ha, D'⟩ := List.pairwise_cons.mp D
    simp only [elemDel]
    by_cases h : ka = k
    · subst h
      have hnt : ¬ DFTAG_NULL = T := fun e => hT e.symm
      have hrest : (t.filter (fun p => p.1.1 == T)).filter (fun p => p.1 != ka) = t.filter (fun p => p.1.1 == T) :=
        List.filter_eq_self.mpr (fun q hq => by
          have := ha q (List.mem_filter.mp hq).1 hk
          simpa using fun e => this e.symm)
      by_cases hkt : ka.1 = T
      · simp [hnt, hkt, hrest]
      · simp [hnt, hkt, hrest]
    · have ih' := ih D'
      by_cases hkt : ka.1 = T
      · simp [h, hkt, ih']
      · simp [h, hkt, ih']

end H4.Annot
