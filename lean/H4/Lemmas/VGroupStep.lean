import H4.Lemmas.VGroupSim
/-! One simulation lemma per operation: outputs agree, abstraction commutes, the invariant is kept. -/
namespace H4.VGroup
open H4.Gen.Hdf

/-- the statement proved for every operation -/
def SimGoal (s : File) (op : Op) : Prop :=
  (step s op).1.abs = (gstep s.abs op).1 ∧ (step s op).2 = (gstep s.abs op).2 ∧ Inv (step s op).1

theorem abs_lookup {s : File} {r : Nat} {g : VGroup} (h : alook r s.vgs = some g) : alook r s.abs.vgs = some g.abs := by
  rw [abs_alook, h]; rfl

theorem slot_attached {s : File} (hG : GraphInv s.abs) {slot r : Nat} {g : VGroup}
    (h1 : alook slot s.slots = some r) (h2 : alook r s.vgs = some g) : 0 < g.nattach :=
  nattach_pos_of_slot (s := s.abs) hG (n := g.abs) h1 (abs_lookup h2)

/-! ### read-only operations through a handle -/

theorem sim_query {s : File} {slot : Nat} (hI : Inv s) (f : VGroup → Out) (f' : Node → Out)
    (hf : ∀ r g, alook slot s.slots = some r → alook r s.vgs = some g → f g = f' g.abs) :
    (withSlot s slot fun g => (g, f g)).1.abs = (gwithSlot s.abs slot fun n => (n, f' n)).1 ∧
    (withSlot s slot fun g => (g, f g)).2 = (gwithSlot s.abs slot fun n => (n, f' n)).2 ∧
    Inv (withSlot s slot fun g => (g, f g)).1 := by
  have h := sim_withSlot (s := s) (slot := slot) (k := fun g => (g, f g)) (k' := fun n => (n, f' n))
    (fun r g h1 h2 => by simp only [hf r g h1 h2])
  exact ⟨h.1, h.2, inv_withSlot hI (fun _ _ _ _ => Or.inl rfl)⟩

theorem sim_ntagrefs (s : File) (slot : Nat) (hI : Inv s) : SimGoal s (.ntagrefs slot) := by
  unfold SimGoal; simp only [step, gstep]
  apply sim_query hI
  intro r g _ h2
  have := (hI.1 r g h2).1.1
  simp only [VGroup.abs, vntagrefs_length this]

theorem sim_inq (s : File) (slot t r : Nat) (hI : Inv s) : SimGoal s (.inq slot t r) := by
  unfold SimGoal; simp only [step, gstep]
  apply sim_query hI
  intro _ g _ _
  simp only [VGroup.abs]
  by_cases h : (t % 65536, r % 65536) ∈ g.mem.members
  · simp [h, (vinqtagref_mem _ _ _).mpr h]
  · have : vinqtagref g.mem (t % 65536) (r % 65536) = false := by
      cases hh : vinqtagref g.mem (t % 65536) (r % 65536) with
      | false => rfl
      | true => exact absurd ((vinqtagref_mem _ _ _).mp hh) h
    simp [h, this]

theorem sim_gettagrefs (s : File) (slot n : Nat) (hI : Inv s) : SimGoal s (.gettagrefs slot n) := by
  unfold SimGoal; simp only [step, gstep]
  apply sim_query hI
  intro _ g _ _
  simp only [VGroup.abs, vgettagrefs_take]

theorem sim_gettagref (s : File) (slot : Nat) (i : Int) (hI : Inv s) : SimGoal s (.gettagref slot i) := by
  unfold SimGoal; simp only [step, gstep]
  apply sim_query hI
  intro r g _ h2
  have hok := (hI.1 r g h2).1.1
  simp only [VGroup.abs]
  by_cases h : i < 0
  · simp [h, vgettagref_neg _ _ h]
  · have : i = ((i.toNat : Nat) : Int) := by omega
    simp only [h, if_false]
    generalize i.toNat = j at this
    subst this
    rw [vgettagref_get hok]
    cases g.mem.members[j]? <;> rfl

theorem sim_nrefs (s : File) (slot t : Nat) (hI : Inv s) : SimGoal s (.nrefs slot t) := by
  unfold SimGoal; simp only [step, gstep]
  apply sim_query hI
  intro _ g _ _
  rfl

theorem sim_getname (s : File) (slot : Nat) (hI : Inv s) : SimGoal s (.getname slot) := by
  unfold SimGoal; simp only [step, gstep]
  exact sim_query hI _ _ (fun _ _ _ _ => rfl)
theorem sim_getclass (s : File) (slot : Nat) (hI : Inv s) : SimGoal s (.getclass slot) := by
  unfold SimGoal; simp only [step, gstep]
  exact sim_query hI _ _ (fun _ _ _ _ => rfl)
theorem sim_getnamelen (s : File) (slot : Nat) (hI : Inv s) : SimGoal s (.getnamelen slot) := by
  unfold SimGoal; simp only [step, gstep]
  exact sim_query hI _ _ (fun _ _ _ _ => rfl)
theorem sim_getclasslen (s : File) (slot : Nat) (hI : Inv s) : SimGoal s (.getclasslen slot) := by
  unfold SimGoal; simp only [step, gstep]
  exact sim_query hI _ _ (fun _ _ _ _ => rfl)

theorem sim_getnext (s : File) (slot : Nat) (id : Int) (hI : Inv s) : SimGoal s (.getnext slot id) := by
  unfold SimGoal; simp only [step, gstep]
  apply sim_query hI
  intro _ g _ _
  simp only [VGroup.abs, getnextOf, vgetnext]
  rfl

end H4.VGroup

namespace H4.VGroup
open H4.Gen.Hdf

/-! ### mutations through a handle -/

theorem sim_mut {s : File} {slot : Nat} (hI : Inv s) (hG : GraphInv s.abs)
    (k : VGroup → VGroup × Out) (k' : Node → Node × Out)
    (hk : ∀ r g, alook slot s.slots = some r → alook r s.vgs = some g → GInv g → 0 < g.nattach →
      ((k g).1.abs, (k g).2) = k' g.abs ∧ ((k g).1 = g ∨ (GInv (k g).1 ∧ (k g).1.marked = true))) :
    (withSlot s slot k).1.abs = (gwithSlot s.abs slot k').1 ∧
    (withSlot s slot k).2 = (gwithSlot s.abs slot k').2 ∧ Inv (withSlot s slot k).1 := by
  have h := sim_withSlot (s := s) (slot := slot) (k := k) (k' := k')
    (fun r g h1 h2 => (hk r g h1 h2 (hI.1 r g h2).1 (slot_attached hG h1 h2)).1)
  exact ⟨h.1, h.2, inv_withSlot hI (fun r g h1 h2 => (hk r g h1 h2 (hI.1 r g h2).1 (slot_attached hG h1 h2)).2)⟩

theorem sim_setname (s : File) (slot : Nat) (n : Bytes) (hI : Inv s) (hG : GraphInv s.abs)
    (ha : admissible s.abs (.setname slot n) = true) : SimGoal s (.setname slot n) := by
  unfold SimGoal; simp only [step, gstep]
  simp only [admissible, decide_eq_true_eq] at ha
  apply sim_mut hI hG
  intro r g _ _ hg hn
  by_cases hacc : g.access = accW
  · refine ⟨?_, Or.inr ⟨?_, ?_⟩⟩
    · simp [VGroup.abs, hacc]
    · simpa [hacc] using ginv_name hg n ha hn
    · simp [hacc]
  · refine ⟨?_, Or.inl ?_⟩ <;> simp [VGroup.abs, hacc]

theorem sim_setclass (s : File) (slot : Nat) (n : Bytes) (hI : Inv s) (hG : GraphInv s.abs)
    (ha : admissible s.abs (.setclass slot n) = true) : SimGoal s (.setclass slot n) := by
  unfold SimGoal; simp only [step, gstep]
  simp only [admissible, decide_eq_true_eq] at ha
  apply sim_mut hI hG
  intro r g _ _ hg hn
  by_cases hacc : g.access = accW
  · refine ⟨?_, Or.inr ⟨?_, ?_⟩⟩
    · simp [VGroup.abs, hacc]
    · simpa [hacc] using ginv_cls hg n ha hn
    · simp [hacc]
  · refine ⟨?_, Or.inl ?_⟩ <;> simp [VGroup.abs, hacc]

theorem insert_facts {g : VGroup} (hg : GInv g) (hn : 0 < g.nattach) (hc : g.mem.nvelt ≠ 65535) (t r : Nat)
    (ht : t < 65536) (hr : r < 65536) :
    ∃ p, vinsertpair g.mem t r = some p ∧ p.1.members = g.mem.members ++ [(t, r)] ∧
    p.2 = g.mem.members.length + 1 ∧ GInv { g with mem := p.1, marked := true } := by
  have hlt : g.mem.nvelt < 65535 := by have := hg.1.2.2.2; omega
  obtain ⟨p, e, a, b, c⟩ := vinsertpair_snoc hg.1 hlt t r
  refine ⟨p, e, a, b, ginv_mem hg c ?_ hn⟩
  intro q hq
  rw [a] at hq
  rcases List.mem_append.mp hq with hq | hq
  · exact hg.2.1.2.1 q hq
  · simp only [List.mem_singleton] at hq; subst hq; exact ⟨ht, hr⟩

theorem full_iff {g : VGroup} (hg : GInv g) : g.mem.members.length = MAX_REF ↔ g.mem.nvelt = 65535 := by
  have c : MAX_REF = 65535 := by decide
  rw [Mem.members_length hg.1, c]

theorem sim_addtagref (s : File) (slot t r : Nat) (hI : Inv s) (hG : GraphInv s.abs) : SimGoal s (.addtagref slot t r) := by
  unfold SimGoal; simp only [step, gstep]
  apply sim_mut hI hG
  intro r0 g h1 h2 hg hn
  by_cases hacc : g.access = accW
  · by_cases hc : g.mem.nvelt = 65535
    · have hf := vinsertpair_full hc (t % 65536) (r % 65536)
      have hl := (full_iff hg).mpr hc
      refine ⟨?_, Or.inl ?_⟩ <;> simp [VGroup.abs, hacc, hf, hl]
    · obtain ⟨p, e, a, b, c⟩ := insert_facts hg hn hc (t % 65536) (r % 65536) (Nat.mod_lt _ (by omega)) (Nat.mod_lt _ (by omega))
      have hl : ¬ g.mem.members.length = MAX_REF := fun x => hc ((full_iff hg).mp x)
      refine ⟨?_, Or.inr ⟨?_, ?_⟩⟩
      · simp [VGroup.abs, hacc, e, a, b, hl]
      · simpa [hacc, e] using c
      · simp [hacc, e]
  · refine ⟨?_, Or.inl ?_⟩ <;> simp [VGroup.abs, hacc]

theorem sim_insertvg (s : File) (slot slot2 : Nat) (hI : Inv s) (hG : GraphInv s.abs) : SimGoal s (.insertvg slot slot2) := by
  unfold SimGoal; simp only [step, gstep]
  have hs : s.abs.slots = s.slots := rfl
  rw [hs]
  cases h0 : alook slot2 s.slots with
  | none => exact ⟨rfl, rfl, hI⟩
  | some r2 =>
    simp only
    apply sim_mut hI hG
    intro r0 g h1 h2 hg hn
    by_cases hacc : g.access = accW
    · by_cases hd : (DFTAG_VG, r2 % 65536) ∈ g.mem.members
      · refine ⟨?_, Or.inl ?_⟩ <;> simp [VGroup.abs, hacc, hd]
      · by_cases hc : g.mem.nvelt = 65535
        · have hf := vinsertpair_full hc DFTAG_VG (r2 % 65536)
          have hl := (full_iff hg).mpr hc
          refine ⟨?_, Or.inl ?_⟩ <;> simp [VGroup.abs, hacc, hd, hf, hl]
        · obtain ⟨p, e, a, b, c⟩ := insert_facts hg hn hc DFTAG_VG (r2 % 65536) (by decide) (Nat.mod_lt _ (by omega))
          have hl : ¬ g.mem.members.length = MAX_REF := fun x => hc ((full_iff hg).mp x)
          refine ⟨?_, Or.inr ⟨?_, ?_⟩⟩
          · simp [VGroup.abs, hacc, hd, e, a, b, hl]
          · simpa [hacc, hd, e] using c
          · simp [hacc, hd, e]
    · refine ⟨?_, Or.inl ?_⟩ <;> simp [VGroup.abs, hacc]

theorem sim_insertvs (s : File) (slot vsref : Nat) (hI : Inv s) (hG : GraphInv s.abs) : SimGoal s (.insertvs slot vsref) := by
  unfold SimGoal; simp only [step, gstep]
  have hs : s.abs.vds = s.vds := rfl
  rw [hs]
  by_cases h0 : s.vds.contains vsref = true
  · simp only [h0, not_true_eq_false, if_false]
    apply sim_mut hI hG
    intro r0 g h1 h2 hg hn
    by_cases hacc : g.access = accW
    · by_cases hd : (DFTAG_VH, vsref % 65536) ∈ g.mem.members
      · refine ⟨?_, Or.inl ?_⟩ <;> simp [VGroup.abs, hacc, hd]
      · by_cases hc : g.mem.nvelt = 65535
        · have hf := vinsertpair_full hc DFTAG_VH (vsref % 65536)
          have hl := (full_iff hg).mpr hc
          refine ⟨?_, Or.inl ?_⟩ <;> simp [VGroup.abs, hacc, hd, hf, hl]
        · obtain ⟨p, e, a, b, c⟩ := insert_facts hg hn hc DFTAG_VH (vsref % 65536) (by decide) (Nat.mod_lt _ (by omega))
          have hl : ¬ g.mem.members.length = MAX_REF := fun x => hc ((full_iff hg).mp x)
          refine ⟨?_, Or.inr ⟨?_, ?_⟩⟩
          · simp [VGroup.abs, hacc, hd, e, a, b, hl]
          · simpa [hacc, hd, e] using c
          · simp [hacc, hd, e]
    · refine ⟨?_, Or.inl ?_⟩ <;> simp [VGroup.abs, hacc]
  · simp only [h0, not_false_eq_true, if_true]
    exact ⟨rfl, rfl, hI⟩

theorem sim_deltagref (s : File) (slot t r : Nat) (hI : Inv s) (hG : GraphInv s.abs) : SimGoal s (.deltagref slot t r) := by
  unfold SimGoal; simp only [step, gstep]
  apply sim_mut hI hG
  intro r0 g _ _ hg hn
  by_cases hacc : g.access = accW
  · have hd := vdeletetagref_erase hg.1 (t % 65536) (r % 65536)
    cases hv : vdeletetagref g.mem (t % 65536) (r % 65536) with
    | none =>
      rw [hv] at hd
      refine ⟨?_, Or.inl ?_⟩ <;> simp [VGroup.abs, hacc, hd]
    | some m =>
      rw [hv] at hd
      obtain ⟨d1, d2, d3⟩ := hd
      refine ⟨?_, Or.inr ⟨?_, ?_⟩⟩
      · simp [VGroup.abs, hacc, d1, d2]
      · simp only [hacc, ne_eq, not_true_eq_false, if_false]
        refine ginv_mem hg d3 ?_ hn
        intro p hp
        rw [d2] at hp
        exact hg.2.1.2.1 p (List.mem_of_mem_erase hp)
      · simp [hacc]
  · refine ⟨?_, Or.inl ?_⟩ <;> simp [VGroup.abs, hacc]

end H4.VGroup

namespace H4.VGroup
open H4.Gen.Hdf

/-! ### operations on the file tables -/

theorem abs_fresh : ({} : VGroup).abs = ({} : Node) := by
  simp [VGroup.abs, Mem.fresh_members]

theorem abs_isSome (s : File) (r : Nat) : (alook r s.abs.vgs).isSome = (alook r s.vgs).isSome := by
  rw [abs_alook]; simp

theorem sim_new (s : File) (slot ref : Nat) (hI : Inv s) : SimGoal s (.new slot ref) := by
  have hs : s.abs.slots = s.slots := rfl
  by_cases hc : ref = 0 ∨ ref ≥ 65536 ∨ (alook ref s.vgs).isSome = true ∨ (alook slot s.slots).isSome = true
  · have e1 : step s (.new slot ref) = (s, .bad) := by simp only [step, hc, if_true]
    have e2 : gstep s.abs (.new slot ref) = (s.abs, .bad) := by simp only [gstep, abs_isSome, hs, hc, if_true]
    unfold SimGoal; rw [e1, e2]; exact ⟨rfl, rfl, hI⟩
  · have e1 : step s (.new slot ref) = ({ s with vgs := ains ref {} s.vgs, slots := (slot, ref) :: s.slots }, .int ref) := by
      simp only [step, hc, if_false]
    have e2 : gstep s.abs (.new slot ref) =
        ({ s.abs with vgs := ains ref {} s.abs.vgs, slots := (slot, ref) :: s.abs.slots }, .int ref) := by
      simp only [gstep, abs_isSome, hs, hc, if_false]
    unfold SimGoal; rw [e1, e2]
    refine ⟨?_, rfl, ?_⟩
    · simp only [File.abs, ains_map, abs_fresh]
    · obtain ⟨i1, i2, i3, i4⟩ := hI
      refine ⟨?_, ksorted_ains i2, i3, ?_⟩
      · intro r' g' hl
        simp only [alook_ains] at hl
        by_cases e : r' = ref
        · simp only [e, if_true, Option.some.injEq] at hl
          subst hl
          exact ⟨ginv_fresh, fun hm => absurd hm (by decide)⟩
        · simp only [e, if_false] at hl
          exact i1 r' g' hl
      · intro k hk
        simp only [alook_ains]
        by_cases e : k = ref
        · simp [e]
        · simpa [e] using i4 k hk

/-- the in-memory effect of `Vattach` on an existing Vgroup -/
def attachG (g : VGroup) (w : Bool) : VGroup :=
  if g.nattach > 0 then { g with access := max g.access (if w then accW else accR), nattach := g.nattach + 1 }
  else { g with access := (if w then accW else accR), marked := false, nattach := 1 }

def attachN (g : Node) (w : Bool) : Node :=
  if g.nattach > 0 then { g with access := max g.access (if w then accW else accR), nattach := g.nattach + 1 }
  else { g with access := (if w then accW else accR), nattach := 1 }

theorem attach_abs (g : VGroup) (w : Bool) : (attachG g w).abs = attachN g.abs w := by
  unfold attachG attachN
  by_cases hn : g.nattach > 0 <;> simp [VGroup.abs, hn]

theorem sim_attach (s : File) (slot ref : Nat) (w : Bool) (hI : Inv s) : SimGoal s (.attach slot ref w) := by
  have hs : s.abs.slots = s.slots := rfl
  by_cases hc : (alook slot s.slots).isSome = true
  · have e1 : step s (.attach slot ref w) = (s, .bad) := by simp only [step, hc, if_true]
    have e2 : gstep s.abs (.attach slot ref w) = (s.abs, .bad) := by simp only [gstep, hs, hc, if_true]
    unfold SimGoal; rw [e1, e2]; exact ⟨rfl, rfl, hI⟩
  · cases h2 : alook ref s.vgs with
    | none =>
      have e1 : step s (.attach slot ref w) = (s, .fail) := by simp only [step, hc, if_false, Bool.false_eq_true, h2]
      have e2 : gstep s.abs (.attach slot ref w) = (s.abs, .fail) := by
        simp only [gstep, hs, hc, if_false, Bool.false_eq_true, abs_alook, h2, Option.map_none]
      unfold SimGoal; rw [e1, e2]; exact ⟨rfl, rfl, hI⟩
    | some g =>
      have e1 : step s (.attach slot ref w) =
          ({ s with vgs := aset ref (attachG g w) s.vgs, slots := (slot, ref) :: s.slots }, .int ref) := by
        simp only [step, hc, if_false, Bool.false_eq_true, h2, attachG]
      have e2 : gstep s.abs (.attach slot ref w) =
          ({ s.abs with vgs := aset ref (attachN g.abs w) s.abs.vgs, slots := (slot, ref) :: s.abs.slots }, .int ref) := by
        simp only [gstep, hs, hc, if_false, Bool.false_eq_true, abs_alook, h2, Option.map_some, attachN]
      unfold SimGoal; rw [e1, e2]
      obtain ⟨i1, i2, i3, i4⟩ := hI
      obtain ⟨⟨gm, gw, gk⟩, gd⟩ := i1 ref g h2
      refine ⟨?_, rfl, ?_, ksorted_aset i2, i3, ?_⟩
      · simp only [File.abs, aset_map, attach_abs]
      · intro r' g' hl
        simp only [alook_aset] at hl
        by_cases e : r' = ref
        · subst e
          simp only [if_true, h2, Option.map_some, Option.some.injEq] at hl
          subst hl
          unfold attachG
          by_cases hn : g.nattach > 0
          · simp only [hn, if_true]
            exact ⟨⟨gm, gw, fun _ => by simp⟩, gd⟩
          · simp only [hn, if_false]
            have hm : g.marked = false := by
              cases hh : g.marked with
              | false => rfl
              | true => exact absurd (gk hh) hn
            exact ⟨⟨gm, gw, fun hx => absurd hx (by simp)⟩, fun _ => gd hm⟩
        · simp only [e, if_false] at hl
          exact i1 r' g' hl
      · intro k hk
        simp only [alook_aset]
        by_cases e : k = ref
        · subst e; simp [h2]
        · simpa [e] using i4 k hk

theorem flush_abs (fx : Bool) (d : List (Nat × Bytes)) (r : Nat) (g : VGroup) : (flushVG fx d r g).2.abs = g.abs := by
  unfold flushVG; split <;> rfl

theorem flush_marked (fx : Bool) (d : List (Nat × Bytes)) (r : Nat) (g : VGroup) : (flushVG fx d r g).2.marked = false := by
  unfold flushVG; split
  · rfl
  · rename_i h; simpa using h

theorem flush_toVG' {fx : Bool} {d : List (Nat × Bytes)} {r : Nat} {g : VGroup} (h : GInv g) : (flushVG fx d r g).2.toVG = g.toVG := by
  unfold flushVG; split
  · exact flush_toVG h
  · rfl

theorem flush_mem (fx : Bool) (d : List (Nat × Bytes)) (r : Nat) (g : VGroup) : (flushVG fx d r g).2.mem = g.mem := by
  unfold flushVG; split <;> rfl

theorem flush_nattach (fx : Bool) (d : List (Nat × Bytes)) (r : Nat) (g : VGroup) : (flushVG fx d r g).2.nattach = g.nattach := by
  unfold flushVG; split <;> rfl

/-- the disk after flushing `g` at key `r` (for a well-formed `g` the finding-3 fix changes no byte) -/
theorem flush_disk (fx : Bool) (d : List (Nat × Bytes)) (r : Nat) (g : VGroup) (hw : g.toVG.WFmem) (k : Nat) :
    alook k (flushVG fx d r g).1 = if g.marked = true ∧ k = r then some (vpackvg g.toVG) else alook k d := by
  unfold flushVG; split
  · rename_i h; simp only [alook_ains, h, true_and, vpackvgF_eq_of_wfmem fx _ hw]
  · rename_i h; simp [h]

theorem flush_sorted {fx : Bool} {d : List (Nat × Bytes)} (r : Nat) (g : VGroup) (h : KSorted d) : KSorted (flushVG fx d r g).1 := by
  unfold flushVG; split
  · exact ksorted_ains h
  · exact h

theorem sim_detach (s : File) (slot : Nat) (hI : Inv s) : SimGoal s (.detach slot) := by
  have hs : s.abs.slots = s.slots := rfl
  cases h1 : alook slot s.slots with
  | none =>
    have e1 : step s (.detach slot) = (s, .fail) := by simp only [step, h1]
    have e2 : gstep s.abs (.detach slot) = (s.abs, .fail) := by simp only [gstep, hs, h1]
    unfold SimGoal; rw [e1, e2]; exact ⟨rfl, rfl, hI⟩
  | some r =>
    cases h2 : alook r s.vgs with
    | none =>
      have e1 : step s (.detach slot) = (s, .bad) := by simp only [step, h1, h2]
      have e2 : gstep s.abs (.detach slot) = (s.abs, .bad) := by simp only [gstep, hs, h1, abs_alook, h2, Option.map_none]
      unfold SimGoal; rw [e1, e2]; exact ⟨rfl, rfl, hI⟩
    | some g =>
      have e1 : step s (.detach slot) =
          ({ s with vgs := aset r { (flushVG s.fixed3 s.disk r g).2 with nattach := (flushVG s.fixed3 s.disk r g).2.nattach - 1 } s.vgs,
                    disk := (flushVG s.fixed3 s.disk r g).1, slots := adel1 slot s.slots }, .ok) := by
        simp only [step, h1, h2]
      have e2 : gstep s.abs (.detach slot) =
          ({ s.abs with vgs := aset r { g.abs with nattach := g.abs.nattach - 1 } s.abs.vgs, slots := adel1 slot s.abs.slots }, .ok) := by
        simp only [gstep, hs, h1, abs_alook, h2, Option.map_some]
      unfold SimGoal; rw [e1, e2]
      obtain ⟨i1, i2, i3, i4⟩ := hI
      obtain ⟨⟨gm, gw, gk⟩, gd⟩ := i1 r g h2
      have hg : GInv g := ⟨gm, gw, gk⟩
      refine ⟨?_, rfl, ?_, ksorted_aset i2, flush_sorted r g i3, ?_⟩
      · simp only [File.abs, aset_map]
        congr 2
        have := flush_abs s.fixed3 s.disk r g
        simp only [VGroup.abs, Node.mk.injEq] at this ⊢
        obtain ⟨a1, a2, a3, a4, a5, a6⟩ := this
        simp [a1, a2, a3, a4, a5, a6]
      · intro r' g' hl
        simp only [alook_aset] at hl
        by_cases e : r' = r
        · subst e
          simp only [if_true, h2, Option.map_some, Option.some.injEq] at hl
          subst hl
          have tv : ({ (flushVG s.fixed3 s.disk r' g).2 with nattach := (flushVG s.fixed3 s.disk r' g).2.nattach - 1 } : VGroup).toVG = g.toVG :=
            flush_toVG' hg
          refine ⟨⟨?_, ?_, ?_⟩, ?_⟩
          · simp only [flush_mem]; exact gm
          · rw [tv]; exact gw
          · intro hx; simp only [flush_marked] at hx; exact absurd hx (by decide)
          · intro _
            rw [tv, flush_disk _ _ _ _ gw]
            by_cases hm : g.marked = true
            · simp [hm]
            · have hm' : g.marked = false := by simpa using hm
              simp only [hm, false_and, if_false]
              exact gd hm'
        · simp only [e, if_false] at hl
          obtain ⟨a, b⟩ := i1 r' g' hl
          refine ⟨a, fun hm => ?_⟩
          rw [flush_disk _ _ _ _ gw]
          simp only [e, and_false, if_false]
          exact b hm
      · intro k hk
        simp only [flush_disk _ _ _ _ gw] at hk
        simp only [alook_aset]
        by_cases e : k = r
        · subst e; simp [h2]
        · simp only [e, and_false, if_false] at hk
          simpa [e] using i4 k hk

end H4.VGroup

namespace H4.VGroup
open H4.Gen.Hdf

def setattrG (g : VGroup) (vsref : Nat) : VGroup :=
  { g with attrs := g.attrs ++ [(DFTAG_VH, vsref)], flags := g.flags ||| VG_ATTR_SET,
           version := VSET_NEW_VERSION, marked := true }

def setattrN (g : Node) (vsref : Nat) : Node := { g with attrs := g.attrs ++ [(DFTAG_VH, vsref)] }

theorem sim_setattr (s : File) (slot vsref : Nat) (hI : Inv s) (hG : GraphInv s.abs)
    (ha : admissible s.abs (.setattr slot vsref) = true) : SimGoal s (.setattr slot vsref) := by
  have hs : s.abs.slots = s.slots := rfl
  have hv : s.abs.vds = s.vds := rfl
  cases h1 : alook slot s.slots with
  | none =>
    have e1 : step s (.setattr slot vsref) = (s, .fail) := by simp only [step, h1]
    have e2 : gstep s.abs (.setattr slot vsref) = (s.abs, .fail) := by simp only [gstep, hs, h1]
    unfold SimGoal; rw [e1, e2]; exact ⟨rfl, rfl, hI⟩
  | some r =>
    cases h2 : alook r s.vgs with
    | none =>
      have e1 : step s (.setattr slot vsref) = (s, .bad) := by simp only [step, h1, h2]
      have e2 : gstep s.abs (.setattr slot vsref) = (s.abs, .bad) := by
        simp only [gstep, hs, h1, abs_alook, h2, Option.map_none]
      unfold SimGoal; rw [e1, e2]; exact ⟨rfl, rfl, hI⟩
    | some g =>
      have hl : g.attrs.length < 2147483647 := by
        have h1' : alook slot s.abs.slots = some r := h1
        simp only [admissible, h1', abs_lookup h2, decide_eq_true_eq, VGroup.abs] at ha
        exact ha
      have h2' : alook r s.abs.vgs = some g.abs := abs_lookup h2
      by_cases c1 : g.access = accW
      · by_cases c2 : (g.attrs.any fun a => ! s.vds.contains a.2) = true
        · have e1 : step s (.setattr slot vsref) = (s, .fail) := by
            simp only [step, h1, h2]; rw [if_neg (by simp [c1]), if_pos c2]
          have e2 : gstep s.abs (.setattr slot vsref) = (s.abs, .fail) := by
            simp only [gstep, hs, hv, h1, h2']; rw [if_neg (by simp [VGroup.abs, c1]), if_pos (by simpa [VGroup.abs] using c2)]
          unfold SimGoal; rw [e1, e2]; exact ⟨rfl, rfl, hI⟩
        · by_cases c3 : vsref = 0 ∨ vsref ≥ 65536 ∨ s.vds.contains vsref = true
          · have e1 : step s (.setattr slot vsref) = (s, .bad) := by
              simp only [step, h1, h2]; rw [if_neg (by simp [c1]), if_neg c2, if_pos c3]
            have e2 : gstep s.abs (.setattr slot vsref) = (s.abs, .bad) := by
              simp only [gstep, hs, hv, h1, h2']
              rw [if_neg (by simp [VGroup.abs, c1]), if_neg (by simpa [VGroup.abs] using c2), if_pos c3]
            unfold SimGoal; rw [e1, e2]; exact ⟨rfl, rfl, hI⟩
          · have e1 : step s (.setattr slot vsref) =
                ({ s with vgs := aset r (setattrG g vsref) s.vgs, vds := nins vsref s.vds }, .ok) := by
              simp only [step, h1, h2]; rw [if_neg (by simp [c1]), if_neg c2, if_neg c3]; rfl
            have e2 : gstep s.abs (.setattr slot vsref) =
                ({ s.abs with vgs := aset r (setattrN g.abs vsref) s.abs.vgs, vds := nins vsref s.abs.vds }, .ok) := by
              simp only [gstep, hs, hv, h1, h2']
              rw [if_neg (by simp [VGroup.abs, c1]), if_neg (by simpa [VGroup.abs] using c2), if_neg c3]; rfl
            unfold SimGoal; rw [e1, e2]
            have hn := slot_attached hG h1 h2
            obtain ⟨i1, i2, i3, i4⟩ := hI
            have hg := (i1 r g h2).1
            have hvs : vsref < 65536 := by omega
            refine ⟨?_, rfl, ?_, ksorted_aset i2, i3, ?_⟩
            · simp only [File.abs, aset_map]; rfl
            · intro r' g' hl'
              simp only [alook_aset] at hl'
              by_cases e : r' = r
              · subst e
                simp only [if_true, h2, Option.map_some, Option.some.injEq] at hl'
                subst hl'
                exact ⟨ginv_attr hg vsref hvs hl hn, fun hm => by simp [setattrG] at hm⟩
              · simp only [e, if_false] at hl'
                exact i1 r' g' hl'
            · intro k hk
              simp only [alook_aset]
              by_cases e : k = r
              · subst e; simp [h2]
              · simpa [e] using i4 k hk
      · have e1 : step s (.setattr slot vsref) = (s, .fail) := by
          simp only [step, h1, h2]; rw [if_pos (by simp [c1])]
        have e2 : gstep s.abs (.setattr slot vsref) = (s.abs, .fail) := by
          simp only [gstep, hs, h1, h2']; rw [if_pos (by simp [VGroup.abs, c1])]
        unfold SimGoal; rw [e1, e2]; exact ⟨rfl, rfl, hI⟩

theorem sim_vdelete (s : File) (ref : Nat) (hI : Inv s)
    (ha : admissible s.abs (.vdelete ref) = true) : SimGoal s (.vdelete ref) := by
  cases h2 : alook ref s.vgs with
  | none =>
    have e1 : step s (.vdelete ref) = (s, .fail) := by simp only [step, h2]
    have e2 : gstep s.abs (.vdelete ref) = (s.abs, .fail) := by simp only [gstep, abs_alook, h2, Option.map_none]
    unfold SimGoal; rw [e1, e2]; exact ⟨rfl, rfl, hI⟩
  | some g =>
    obtain ⟨i1, i2, i3, i4⟩ := hI
    obtain ⟨⟨gm, gw, gk⟩, gd⟩ := i1 ref g h2
    have hn : g.nattach = 0 := by
      simp only [admissible, abs_lookup h2, decide_eq_true_eq, VGroup.abs] at ha
      exact ha
    have hm : g.marked = false := by
      cases hh : g.marked with
      | false => rfl
      | true => have := gk hh; omega
    have hd : (alook ref s.disk).isSome = true := by rw [gd hm]; rfl
    have e1 : step s (.vdelete ref) = ({ s with vgs := adel ref s.vgs, disk := adel ref s.disk }, .ok) := by
      simp only [step, h2, hd, if_true]
    have e2 : gstep s.abs (.vdelete ref) = ({ s.abs with vgs := adel ref s.abs.vgs }, .ok) := by
      simp only [gstep, abs_alook, h2, Option.map_some]
    unfold SimGoal; rw [e1, e2]
    refine ⟨?_, rfl, ?_, ksorted_adel i2, ksorted_adel i3, ?_⟩
    · simp only [File.abs, adel_map]
    · intro r' g' hl
      simp only [alook_adel] at hl
      by_cases e : r' = ref
      · simp [e] at hl
      · simp only [e, if_false] at hl
        obtain ⟨a, b⟩ := i1 r' g' hl
        exact ⟨a, fun hm' => by simp only [alook_adel, e, if_false]; exact b hm'⟩
    · intro k hk
      simp only [alook_adel] at hk ⊢
      by_cases e : k = ref
      · simp [e] at hk
      · simp only [e, if_false] at hk ⊢
        exact i4 k hk

theorem sim_vsdelete (s : File) (ref : Nat) (hI : Inv s) : SimGoal s (.vsdelete ref) := by
  have hv : s.abs.vds = s.vds := rfl
  by_cases c : s.vds.contains ref = true
  · have e1 : step s (.vsdelete ref) = ({ s with vds := s.vds.filter (· != ref) }, .ok) := by simp only [step, c, if_true]
    have e2 : gstep s.abs (.vsdelete ref) = ({ s.abs with vds := s.abs.vds.filter (· != ref) }, .ok) := by
      simp only [gstep, hv, c, if_true]
    unfold SimGoal; rw [e1, e2]; exact ⟨rfl, rfl, hI⟩
  · have e1 : step s (.vsdelete ref) = (s, .fail) := by simp only [step, c, if_false, Bool.false_eq_true]
    have e2 : gstep s.abs (.vsdelete ref) = (s.abs, .fail) := by simp only [gstep, hv, c, if_false, Bool.false_eq_true]
    unfold SimGoal; rw [e1, e2]; exact ⟨rfl, rfl, hI⟩

theorem sim_vsnew (s : File) (ref : Nat) (hI : Inv s) : SimGoal s (.vsnew ref) := by
  have hv : s.abs.vds = s.vds := rfl
  by_cases c : ref = 0 ∨ ref ≥ 65536 ∨ s.vds.contains ref = true
  · have e1 : step s (.vsnew ref) = (s, .bad) := by simp only [step, c, if_true]
    have e2 : gstep s.abs (.vsnew ref) = (s.abs, .bad) := by simp only [gstep, hv, c, if_true]
    unfold SimGoal; rw [e1, e2]; exact ⟨rfl, rfl, hI⟩
  · have e1 : step s (.vsnew ref) = ({ s with vds := nins ref s.vds }, .ok) := by simp only [step, c, if_false]
    have e2 : gstep s.abs (.vsnew ref) = ({ s.abs with vds := nins ref s.abs.vds }, .ok) := by
      simp only [gstep, hv, c, if_false]
    unfold SimGoal; rw [e1, e2]; exact ⟨rfl, rfl, hI⟩

theorem sim_getid (s : File) (id : Int) (hI : Inv s) : SimGoal s (.getid id) := by
  have e1 : step s (.getid id) = (s, getidIn (akeys s.vgs) id) := rfl
  have e2 : gstep s.abs (.getid id) = (s.abs, getidIn (akeys s.vgs) id) := by
    simp only [gstep, File.abs, akeys_map]
  unfold SimGoal; rw [e1, e2]; exact ⟨rfl, rfl, hI⟩

theorem sim_vsgetid (s : File) (id : Int) (hI : Inv s) : SimGoal s (.vsgetid id) := by
  have e1 : step s (.vsgetid id) = (s, getidIn s.vds id) := rfl
  have e2 : gstep s.abs (.vsgetid id) = (s.abs, getidIn s.vds id) := rfl
  unfold SimGoal; rw [e1, e2]; exact ⟨rfl, rfl, hI⟩

theorem findBy_map {α β} (f : α → β) (sel : α → Option Bytes) (sel' : β → Option Bytes) (h : ∀ a, sel' (f a) = sel a)
    (n : Bytes) (l : List (Nat × α)) : findBy sel' n (l.map (fun e => (e.1, f e.2))) = findBy sel n l := by
  induction l with
  | nil => rfl
  | cons a t ih =>
    simp only [findBy, List.map_cons, List.find?_cons, h] at ih ⊢
    cases hc : (sel a.2 == some (cstr n)) with
    | true => rfl
    | false => exact ih

theorem sim_find (s : File) (n : Bytes) (hI : Inv s) : SimGoal s (.find n) := by
  have e1 : step s (.find n) = (s, findBy (·.name) n s.vgs) := rfl
  have e2 : gstep s.abs (.find n) = (s.abs, findBy (·.name) n s.vgs) := by
    simp only [gstep, File.abs]
    rw [findBy_map VGroup.abs (·.name) (·.name) (fun _ => rfl) n s.vgs]
  unfold SimGoal; rw [e1, e2]; exact ⟨rfl, rfl, hI⟩

theorem sim_findclass (s : File) (n : Bytes) (hI : Inv s) : SimGoal s (.findclass n) := by
  have e1 : step s (.findclass n) = (s, findBy (·.cls) n s.vgs) := rfl
  have e2 : gstep s.abs (.findclass n) = (s.abs, findBy (·.cls) n s.vgs) := by
    simp only [gstep, File.abs]
    rw [findBy_map VGroup.abs (·.cls) (·.cls) (fun _ => rfl) n s.vgs]
  unfold SimGoal; rw [e1, e2]; exact ⟨rfl, rfl, hI⟩

end H4.VGroup

namespace H4.VGroup
open H4.Gen.Hdf

/-! ### `Vlone` / `VSlone`: the answer, and the attach/detach side effect on every Vgroup -/

def touchG (g : VGroup) : VGroup :=
  if g.nattach > 0 then
    (if g.marked then { g with access := max g.access accR, version := packVersion g.toVG, marked := false, newvg := false }
     else { g with access := max g.access accR })
  else { g with access := accR, marked := false }

theorem touchVG_snd (fx : Bool) (d : List (Nat × Bytes)) (r : Nat) (g : VGroup) : (touchVG fx d r g).2 = touchG g := by
  unfold touchVG touchG flushVG
  by_cases hn : g.nattach > 0
  · by_cases hm : g.marked = true
    · simp [hn, hm, VGroup.toVG]
    · simp [hn, hm]
  · simp [hn]

theorem touchVG_disk (fx : Bool) (d : List (Nat × Bytes)) (r : Nat) (g : VGroup) (hw : g.toVG.WFmem) (k : Nat) :
    alook k (touchVG fx d r g).1 = if g.nattach > 0 ∧ g.marked = true ∧ k = r then some (vpackvg g.toVG) else alook k d := by
  unfold touchVG
  by_cases hn : g.nattach > 0
  · have hw' : ({ g with access := max g.access accR } : VGroup).toVG.WFmem := hw
    simp only [hn, if_true, flush_disk _ _ _ _ hw', true_and]
    rfl
  · simp [hn]

theorem touchVG_sorted {fx : Bool} {d : List (Nat × Bytes)} (r : Nat) (g : VGroup) (h : KSorted d) : KSorted (touchVG fx d r g).1 := by
  unfold touchVG
  split
  · exact flush_sorted _ _ h
  · exact h

theorem touchAll_snd (fx : Bool) (d : List (Nat × Bytes)) (vgs : List (Nat × VGroup)) :
    (touchAll fx d vgs).2 = vgs.map (fun e => (e.1, touchG e.2)) := by
  induction vgs generalizing d with
  | nil => rfl
  | cons a t ih =>
    obtain ⟨r, g⟩ := a
    simp only [touchAll, List.map_cons, touchVG_snd, ih]

theorem touchAll_sorted {fx : Bool} {d : List (Nat × Bytes)} (vgs : List (Nat × VGroup)) (h : KSorted d) : KSorted (touchAll fx d vgs).1 := by
  induction vgs generalizing d with
  | nil => exact h
  | cons a t ih =>
    obtain ⟨r, g⟩ := a
    simp only [touchAll]
    exact ih (touchVG_sorted r g h)

theorem touchAll_disk (fx : Bool) (vgs : List (Nat × VGroup)) (hs : KSorted vgs) (hw : ∀ e ∈ vgs, e.2.toVG.WFmem)
    (d : List (Nat × Bytes)) (k : Nat) :
    alook k (touchAll fx d vgs).1 =
      (match alook k vgs with
       | some g => if g.nattach > 0 ∧ g.marked = true then some (vpackvg g.toVG) else alook k d
       | none => alook k d) := by
  induction vgs generalizing d with
  | nil => rfl
  | cons a t ih =>
    obtain ⟨r, g⟩ := a
    simp only [KSorted, akeys, List.map_cons, List.pairwise_cons] at hs
    have hg : g.toVG.WFmem := hw (r, g) (by simp)
    simp only [touchAll, alook]
    rw [ih hs.2 (fun e he => hw e (by simp [he]))]
    by_cases e : r = k
    · subst e
      have : alook r t = none := alook_none_of_not_mem (fun hm => by have := hs.1 r hm; omega)
      simp only [this, if_true, touchVG_disk _ _ _ _ hg, and_true]
    · have e' : ¬ k = r := fun x => e x.symm
      simp only [e, if_false, touchVG_disk _ _ _ _ hg, e', and_false]

theorem touchG_abs (g : VGroup) : (touchG g).abs = g.abs.touched := by
  unfold touchG Node.touched
  by_cases hn : g.nattach > 0
  · by_cases hm : g.marked = true <;> simp [hn, hm, VGroup.abs]
  · simp [hn, VGroup.abs]

theorem touchG_marked (g : VGroup) : (touchG g).marked = false := by
  unfold touchG
  by_cases hn : g.nattach > 0
  · by_cases hm : g.marked = true
    · simp [hn, hm]
    · simp [hn, hm]
  · simp [hn]

theorem touchG_ginv {g : VGroup} (h : GInv g) : GInv (touchG g) ∧ (touchG g).toVG = g.toVG := by
  obtain ⟨gm, gw, gk⟩ := h
  have pv := packVersion_wf _ gw.fix
  unfold touchG
  by_cases hn : g.nattach > 0
  · by_cases hm : g.marked = true
    · simp only [hn, if_true, hm]
      have tv : ({ g with access := max g.access accR, version := packVersion g.toVG, marked := false, newvg := false } : VGroup).toVG = g.toVG := by
        simp only [VGroup.toVG] at pv ⊢; rw [pv]
      exact ⟨⟨gm, by rw [tv]; exact gw, fun hx => absurd hx (by simp)⟩, tv⟩
    · simp only [hn, if_true, hm, if_false, Bool.false_eq_true]
      exact ⟨⟨gm, gw, fun _ => hn⟩, rfl⟩
  · simp only [hn, if_false]
    exact ⟨⟨gm, gw, fun hx => absurd hx (by simp)⟩, rfl⟩

theorem loneOf_map {α β} (f : α → β) (mem : α → List Pair) (mem' : β → List Pair) (h : ∀ a, mem' (f a) = mem a)
    (t : Nat) (fl : List Nat) (l : List (Nat × α)) :
    loneOf mem' t fl (l.map (fun e => (e.1, f e.2))) = loneOf mem t fl l := by
  simp only [loneOf, List.any_map, Function.comp_def, h]

theorem inv_touch {s : File} (hI : Inv s) :
    Inv { s with vgs := (touchAll s.fixed3 s.disk s.vgs).2, disk := (touchAll s.fixed3 s.disk s.vgs).1 } := by
  obtain ⟨i1, i2, i3, i4⟩ := hI
  have hall : ∀ e ∈ s.vgs, e.2.toVG.WFmem := fun e he => (i1 e.1 e.2 (alook_of_mem_sorted i2 he)).1.2.1
  rw [touchAll_snd]
  refine ⟨?_, ksorted_map touchG i2, touchAll_sorted _ i3, ?_⟩
  · intro r' g'' hl
    simp only [alook_map] at hl
    cases h2 : alook r' s.vgs with
    | none => simp [h2] at hl
    | some g =>
      simp only [h2, Option.map_some, Option.some.injEq] at hl
      subst hl
      obtain ⟨hg, gd⟩ := i1 r' g h2
      obtain ⟨a, b⟩ := touchG_ginv hg
      refine ⟨a, fun _ => ?_⟩
      rw [b, touchAll_disk _ _ i2 hall, h2]
      by_cases c : g.nattach > 0 ∧ g.marked = true
      · simp [c]
      · simp only [c, if_false]
        apply gd
        cases hh : g.marked with
        | false => rfl
        | true => exact absurd ⟨hg.2.2 hh, hh⟩ c
  · intro k hk
    simp only [alook_map]
    rw [touchAll_disk _ _ i2 hall] at hk
    cases h2 : alook k s.vgs with
    | some g => rfl
    | none =>
      simp only [h2] at hk
      have := i4 k hk
      simp [h2] at this

theorem sim_vlone (s : File) (hI : Inv s) : SimGoal s .vlone := by
  have e1 : step s .vlone = ({ s with vgs := (touchAll s.fixed3 s.disk s.vgs).2, disk := (touchAll s.fixed3 s.disk s.vgs).1 },
      .nats (loneOf (·.mem.members) DFTAG_VG (akeys s.vgs) s.vgs)) := rfl
  have e2 : gstep s.abs .vlone = ({ s.abs with vgs := s.abs.vgs.map (fun e => (e.1, e.2.touched)) },
      .nats (loneOf (·.mem.members) DFTAG_VG (akeys s.vgs) s.vgs)) := by
    simp only [gstep, File.abs, akeys_map]
    rw [loneOf_map VGroup.abs (·.mem.members) (·.members) (fun _ => rfl)]
  unfold SimGoal; rw [e1, e2]
  refine ⟨?_, rfl, inv_touch hI⟩
  simp only [File.abs, touchAll_snd, List.map_map, Function.comp_def, touchG_abs]

theorem sim_vslone (s : File) (hI : Inv s) : SimGoal s .vslone := by
  have e1 : step s .vslone = ({ s with vgs := (touchAll s.fixed3 s.disk s.vgs).2, disk := (touchAll s.fixed3 s.disk s.vgs).1 },
      .nats (loneOf (·.mem.members) DFTAG_VH s.vds s.vgs)) := rfl
  have e2 : gstep s.abs .vslone = ({ s.abs with vgs := s.abs.vgs.map (fun e => (e.1, e.2.touched)) },
      .nats (loneOf (·.mem.members) DFTAG_VH s.vds s.vgs)) := by
    simp only [gstep, File.abs]
    rw [loneOf_map VGroup.abs (·.mem.members) (·.members) (fun _ => rfl)]
  unfold SimGoal; rw [e1, e2]
  refine ⟨?_, rfl, inv_touch hI⟩
  simp only [File.abs, touchAll_snd, List.map_map, Function.comp_def, touchG_abs]

end H4.VGroup

namespace H4.VGroup
open H4.Gen.Hdf

/-! ### `Vend` / `Vstart` -/

theorem ofVG_members (v : VG) : (VGroup.ofVG v).mem.members = v.members := by
  simp [VGroup.ofVG, Mem.members]

theorem ofVG_toVG (v : VG) : (VGroup.ofVG v).toVG = v := by
  have := ofVG_members v
  simp only [VGroup.toVG, this]
  rfl

theorem ofVG_ginv {v : VG} (h : v.WFmem) : GInv (VGroup.ofVG v) := by
  refine ⟨?_, by rw [ofVG_toVG]; exact h, fun hx => absurd hx (by simp [VGroup.ofVG])⟩
  have hl := h.1
  have c : MAXNVELT = 64 := by decide
  simp only [VGroup.ofVG, Mem.OK, List.length_append, List.length_replicate, c]
  split <;> omega

theorem ofVG_abs {g : VGroup} (_h : GInv g) : (VGroup.ofVG g.toVG.norm).abs = g.abs.reopened := by
  simp only [VGroup.abs, Node.reopened, ofVG_members]
  rfl

theorem loadAll_pack (vgs : List (Nat × VGroup)) (h : ∀ e ∈ vgs, GInv e.2) :
    loadAll (vgs.map (fun e => (e.1, vpackvg e.2.toVG))) = some (vgs.map (fun e => (e.1, VGroup.ofVG e.2.toVG.norm))) := by
  induction vgs with
  | nil => rfl
  | cons a t ih =>
    have ha := (h a (by simp)).2.1
    have ht := ih (fun e he => h e (by simp [he]))
    simp only [List.map_cons, loadAll, vunpackvg_vpackvg _ ha, ht]

theorem sim_reopen (s : File) (hI : Inv s) (ha : admissible s.abs .reopen = true) : SimGoal s .reopen := by
  obtain ⟨i1, i2, i3, i4⟩ := hI
  have hdet : ∀ r g, alook r s.vgs = some g → g.nattach = 0 := by
    intro r g h2
    simp only [admissible, File.abs, List.all_map, List.all_eq_true, Function.comp_def, decide_eq_true_eq] at ha
    exact ha (r, g) (mem_of_alook h2)
  have hunm : ∀ r g, alook r s.vgs = some g → g.marked = false := by
    intro r g h2
    cases hh : g.marked with
    | false => rfl
    | true => have := (i1 r g h2).1.2.2 hh; have := hdet r g h2; omega
  have hdisk : s.disk = s.vgs.map (fun e => (e.1, vpackvg e.2.toVG)) := by
    apply ksorted_ext i3 (ksorted_map (fun g : VGroup => vpackvg g.toVG) i2)
    intro k
    rw [alook_map (fun g : VGroup => vpackvg g.toVG)]
    cases h2 : alook k s.vgs with
    | some g => rw [(i1 k g h2).2 (hunm k g h2)]; rfl
    | none =>
      cases h3 : alook k s.disk with
      | none => rfl
      | some b => have := i4 k (by simp [h3]); simp [h2] at this
  have hall : ∀ e ∈ s.vgs, GInv e.2 := fun e he => (i1 e.1 e.2 (alook_of_mem_sorted i2 he)).1
  have hload := loadAll_pack s.vgs hall
  rw [← hdisk] at hload
  have e1 : step s .reopen = ({ s with vgs := s.vgs.map (fun e => (e.1, VGroup.ofVG e.2.toVG.norm)), slots := [] }, .ok) := by
    simp only [step, hload]
  have e2 : gstep s.abs .reopen = ({ s.abs with vgs := s.abs.vgs.map (fun e => (e.1, e.2.reopened)), slots := [] }, .ok) := rfl
  unfold SimGoal; rw [e1, e2]
  refine ⟨?_, rfl, ?_, ksorted_map (fun g : VGroup => VGroup.ofVG g.toVG.norm) i2, i3, ?_⟩
  · simp only [File.abs, List.map_map, Function.comp_def]
    congr 1
    apply List.map_congr_left
    intro e he
    rw [ofVG_abs (hall e he)]
  · intro r g' hl
    simp only [alook_map (fun g : VGroup => VGroup.ofVG g.toVG.norm)] at hl
    cases h2 : alook r s.vgs with
    | none => simp [h2] at hl
    | some g =>
      simp only [h2, Option.map_some, Option.some.injEq] at hl
      subst hl
      obtain ⟨hg, gd⟩ := i1 r g h2
      refine ⟨ofVG_ginv (VG.norm_wfmem hg.2.1), fun _ => ?_⟩
      rw [ofVG_toVG, vpackvg_norm]
      exact gd (hunm r g h2)
  · intro k hk
    have := i4 k hk
    simp only [alook_map (fun g : VGroup => VGroup.ofVG g.toVG.norm)]
    cases h2 : alook k s.vgs with
    | some g => rfl
    | none => simp [h2] at this

end H4.VGroup
