import H4.Lemmas.C07FldSetP
/-! `VSsetfields`: one lemma per piece of the two field branches (user symbol: loop 2, reserved symbol: loop 3) of the field loop. -/
namespace H4.Lemmas.C07Fld
open H4.Gen.Fn.Dfconv H4.Gen.Fn.Vsfld H4.VData H4.Gen.Hdf H4.Gen.Vs H4.C2L H4.VsfldEnc
set_option linter.unusedVariables false
set_option linter.unusedSimpArgs false

theorem sf_chk_true (s : VSsetfields.St) (c : Prop) [Decidable c] (h : c) : VSsetfields.chk s c = s := by
  simp [VSsetfields.chk, h]
@[simp] theorem sf_chk_True (s : VSsetfields.St) : VSsetfields.chk s True = s := by simp [VSsetfields.chk]

/-- no `goto` / `break` / `continue` is pending -/
def SfClean (s : VSsetfields.St) : Prop := s.gto = false ∧ s.brk = false ∧ s.cnt = false

/-- last group of the user-symbol branch: the record size so far plus this field's size is tested against `MAX_FIELD_SIZE` -/
theorem l2E_spec (fuel : Nat) (s : VSsetfields.St) (hcl : SfClean s)
    (hc : 0 ≤ s.vs_wlist_isize_i + s.vs_wlist_n ∧ s.vs_wlist_isize_i + s.vs_wlist_n < s.vs_wlist_bptr.length) :
    l2E fuel s =
      if s.vs_wlist_ivsize + s.vs_wlist_bptr.getD (Int.toNat (s.vs_wlist_isize_i + s.vs_wlist_n)) 0 > 65535 then
        { s with value := s.vs_wlist_ivsize + s.vs_wlist_bptr.getD (Int.toNat (s.vs_wlist_isize_i + s.vs_wlist_n)) 0, ret_value := -1, gto := true }
      else { s with value := s.vs_wlist_ivsize + s.vs_wlist_bptr.getD (Int.toNat (s.vs_wlist_isize_i + s.vs_wlist_n)) 0, vs_wlist_ivsize := (s.vs_wlist_ivsize + s.vs_wlist_bptr.getD (Int.toNat (s.vs_wlist_isize_i + s.vs_wlist_n)) 0) % 65536, vs_wlist_n := s.vs_wlist_n + 1, brk := true } := by
  obtain ⟨h1, h2, h3⟩ := hcl
  by_cases hgt : s.vs_wlist_ivsize + s.vs_wlist_bptr.getD (Int.toNat (s.vs_wlist_isize_i + s.vs_wlist_n)) 0 > 65535
  · rw [if_pos hgt]
    simp [-List.getD_eq_getElem?_getD, l2E, h1, h2, h3, hc.1, hc.2, hgt]
  · rw [if_neg hgt]
    simp [-List.getD_eq_getElem?_getD, l2E, h1, h2, h3, hc.1, hc.2, hgt]

/-- the field's own size `order * isize` is tested against `MAX_FIELD_SIZE`, then stored -/
theorem l2D_spec (fuel : Nat) (s : VSsetfields.St) (hcl : SfClean s)
    (hj : 0 ≤ s.j ∧ s.j < s.vs_usym_isize.length)
    (hc : 0 ≤ s.vs_wlist_isize_i + s.vs_wlist_n ∧ s.vs_wlist_isize_i + s.vs_wlist_n < s.vs_wlist_bptr.length) :
    l2D fuel s =
      if s.order * s.vs_usym_isize.getD (Int.toNat s.j) 0 > 65535 then
        { s with value := s.order * s.vs_usym_isize.getD (Int.toNat s.j) 0, ret_value := -1, gto := true }
      else l2E fuel { s with value := s.order * s.vs_usym_isize.getD (Int.toNat s.j) 0, vs_wlist_bptr := s.vs_wlist_bptr.set (Int.toNat (s.vs_wlist_isize_i + s.vs_wlist_n)) ((s.order * s.vs_usym_isize.getD (Int.toNat s.j) 0) % 65536) } := by
  obtain ⟨h1, h2, h3⟩ := hcl
  by_cases hgt : s.order * s.vs_usym_isize.getD (Int.toNat s.j) 0 > 65535
  · rw [if_pos hgt]
    simp [-List.getD_eq_getElem?_getD, l2D, l2E, h1, h2, h3, hc.1, hc.2, hj.1, hj.2, hgt]
  · rw [if_neg hgt]
    simp [-List.getD_eq_getElem?_getD, l2D, h1, h2, h3, hc.1, hc.2, hj.1, hj.2, hgt]
    congr 1; cases s; simp_all

/-- `esize = order * DFKNTsize(type | DFNT_NATIVE)`; refused when that product is `FAIL` (-1) -/
theorem l2C_spec (fuel : Nat) (s : VSsetfields.St) (hcl : SfClean s)
    (hj : 0 ≤ s.j ∧ s.j < s.vs_usym_type.length) (ht : 0 ≤ s.vs_usym_type.getD (Int.toNat s.j) 0)
    (nsz : Int) (hD : DFKNTsize fuel (Int.ofNat (Int.toNat (s.vs_usym_type.getD (Int.toNat s.j) 0) ||| Int.toNat 4096)) =
      ⟨Int.ofNat (Int.toNat (s.vs_usym_type.getD (Int.toNat s.j) 0) ||| Int.toNat 4096), false, false, nsz, true⟩)
    (hc : 0 ≤ s.vs_wlist_esize_i + s.vs_wlist_n ∧ s.vs_wlist_esize_i + s.vs_wlist_n < s.vs_wlist_bptr.length) :
    l2C fuel s =
      if s.order * nsz = -1 then { s with value := s.order * nsz, ret_value := -1, gto := true }
      else l2D fuel { s with value := s.order * nsz, vs_wlist_bptr := s.vs_wlist_bptr.set (Int.toNat (s.vs_wlist_esize_i + s.vs_wlist_n)) ((s.order * nsz) % 65536) } := by
  obtain ⟨h1, h2, h3⟩ := hcl
  simp only [Int.ofNat_eq_natCast, Int.reduceToNat] at hD
  by_cases hv : s.order * nsz = -1
  · rw [if_pos hv]
    simp [-List.getD_eq_getElem?_getD, l2C, l2D, l2E, VSsetfields.St.join, h1, h2, h3, hj.1, hj.2, ht, hD, hv]
  · rw [if_neg hv]
    simp [-List.getD_eq_getElem?_getD, l2C, VSsetfields.St.join, h1, h2, h3, hc.1, hc.2, hj.1, hj.2, ht, hD, hv]

/-- `order`, `wlist->type[n]`, `wlist->order[n]` -/
theorem l2B_spec (fuel : Nat) (s : VSsetfields.St) (hcl : SfClean s)
    (hj1 : 0 ≤ s.j ∧ s.j < s.vs_usym_order.length) (hj2 : 0 ≤ s.j ∧ s.j < s.vs_usym_type.length)
    (hc1 : 0 ≤ s.vs_wlist_type_i + s.vs_wlist_n ∧ s.vs_wlist_type_i + s.vs_wlist_n < s.vs_wlist_bptr.length)
    (hc2 : 0 ≤ s.vs_wlist_order_i + s.vs_wlist_n ∧ s.vs_wlist_order_i + s.vs_wlist_n < s.vs_wlist_bptr.length) :
    l2B fuel s = l2C fuel { s with order := s.vs_usym_order.getD (Int.toNat s.j) 0, vs_wlist_bptr := (s.vs_wlist_bptr.set (Int.toNat (s.vs_wlist_type_i + s.vs_wlist_n)) (s.vs_usym_type.getD (Int.toNat s.j) 0)).set (Int.toNat (s.vs_wlist_order_i + s.vs_wlist_n)) (s.vs_usym_order.getD (Int.toNat s.j) 0) } := by
  obtain ⟨h1, h2, h3⟩ := hcl
  simp [-List.getD_eq_getElem?_getD, l2B, h1, h2, h3, hc1.1, hc1.2, hc2.1, hc2.2, hj1.1, hj1.2, hj2.1, hj2.2]
  congr 1; cases s; simp_all

/-- `found = TRUE; wlist->name[n] = strdup(usym[j].name)` -/
theorem l2A_spec (fuel : Nat) (s : VSsetfields.St) (hcl : SfClean s)
    (hn : 0 ≤ s.vs_wlist_n ∧ s.vs_wlist_n < s.vs_wlist_name.length) (hj : 0 ≤ s.j ∧ s.j < s.vs_usym_name.length)
    (l p : List Int) (hrow : s.vs_usym_name.getD (Int.toNat s.j) [] = l ++ 0 :: p) (hl : CharsOK l) :
    l2A fuel s = l2B fuel { s with found := 1, vs_wlist_name := s.vs_wlist_name.set (Int.toNat s.vs_wlist_n) (l ++ [0]) } := by
  obtain ⟨h1, h2, h3⟩ := hcl
  have hstr := take_string l p hl
  have hz := zero_mem l p
  simp [-List.getD_eq_getElem?_getD, -ne_eq, -decide_not, l2A, h1, h2, h3, hn.1, hn.2, hj.1, hj.2, hrow, hstr]
  congr 1; cases s; simp_all
  congr 1
  exact take_string' l p hl _ (by intro x; simp)

/-! ### the reserved-symbol branch (`rstab[]`) -/

theorem l3E_spec (fuel : Nat) (s : VSsetfields.St) (hcl : SfClean s)
    (hc : 0 ≤ s.vs_wlist_isize_i + s.vs_wlist_n ∧ s.vs_wlist_isize_i + s.vs_wlist_n < s.vs_wlist_bptr.length) :
    l3E fuel s =
      if s.vs_wlist_ivsize + s.vs_wlist_bptr.getD (Int.toNat (s.vs_wlist_isize_i + s.vs_wlist_n)) 0 > 65535 then
        { s with value := s.vs_wlist_ivsize + s.vs_wlist_bptr.getD (Int.toNat (s.vs_wlist_isize_i + s.vs_wlist_n)) 0, ret_value := -1, gto := true }
      else { s with value := s.vs_wlist_ivsize + s.vs_wlist_bptr.getD (Int.toNat (s.vs_wlist_isize_i + s.vs_wlist_n)) 0, vs_wlist_ivsize := (s.vs_wlist_ivsize + s.vs_wlist_bptr.getD (Int.toNat (s.vs_wlist_isize_i + s.vs_wlist_n)) 0) % 65536, vs_wlist_n := s.vs_wlist_n + 1, brk := true } :=
  l2E_spec fuel s hcl hc

theorem l3D_spec (fuel : Nat) (s : VSsetfields.St) (hcl : SfClean s) (hj : 0 ≤ s.j ∧ s.j < RSTAB_ISIZE.length)
    (isz : Nat) (hI : RSTAB_ISIZE.getD (Int.toNat s.j) 0 = isz)
    (hc : 0 ≤ s.vs_wlist_isize_i + s.vs_wlist_n ∧ s.vs_wlist_isize_i + s.vs_wlist_n < s.vs_wlist_bptr.length) :
    l3D fuel s = l3E fuel { s with vs_wlist_bptr := s.vs_wlist_bptr.set (Int.toNat (s.vs_wlist_isize_i + s.vs_wlist_n)) ((s.order * (isz : Int)) % 65536) } := by
  obtain ⟨h1, h2, h3⟩ := hcl
  simp [-List.getD_eq_getElem?_getD, l3D, h1, h2, h3, hc.1, hc.2, hj.1, hj.2, hI]
  congr 1; cases s; simp_all

theorem l3C_spec (fuel : Nat) (s : VSsetfields.St) (hcl : SfClean s) (hj : 0 ≤ s.j ∧ s.j < RSTAB_TYPE.length)
    (ty : Nat) (hT : RSTAB_TYPE.getD (Int.toNat s.j) 0 = ty)
    (nsz : Int) (hD : DFKNTsize fuel (((ty ||| 4096 : Nat) : Int)) = ⟨((ty ||| 4096 : Nat) : Int), false, false, nsz, true⟩)
    (hc : 0 ≤ s.vs_wlist_esize_i + s.vs_wlist_n ∧ s.vs_wlist_esize_i + s.vs_wlist_n < s.vs_wlist_bptr.length) :
    l3C fuel s =
      if s.order * nsz = -1 then { s with value := s.order * nsz, ret_value := -1, gto := true }
      else l3D fuel { s with value := s.order * nsz, vs_wlist_bptr := s.vs_wlist_bptr.set (Int.toNat (s.vs_wlist_esize_i + s.vs_wlist_n)) ((s.order * nsz) % 65536) } := by
  obtain ⟨h1, h2, h3⟩ := hcl
  by_cases hv : s.order * nsz = -1
  · rw [if_pos hv]
    simp [-List.getD_eq_getElem?_getD, l3C, l3D, l3E, VSsetfields.St.join, h1, h2, h3, hj.1, hj.2, hT, hD, hv]
  · rw [if_neg hv]
    simp [-List.getD_eq_getElem?_getD, l3C, VSsetfields.St.join, h1, h2, h3, hc.1, hc.2, hj.1, hj.2, hT, hD, hv]

theorem l3B_spec (fuel : Nat) (s : VSsetfields.St) (hcl : SfClean s)
    (hj1 : 0 ≤ s.j ∧ s.j < RSTAB_ORDER.length) (hj2 : 0 ≤ s.j ∧ s.j < RSTAB_TYPE.length)
    (o ty : Nat) (hO : RSTAB_ORDER.getD (Int.toNat s.j) 0 = o) (hT : RSTAB_TYPE.getD (Int.toNat s.j) 0 = ty)
    (hc1 : 0 ≤ s.vs_wlist_type_i + s.vs_wlist_n ∧ s.vs_wlist_type_i + s.vs_wlist_n < s.vs_wlist_bptr.length)
    (hc2 : 0 ≤ s.vs_wlist_order_i + s.vs_wlist_n ∧ s.vs_wlist_order_i + s.vs_wlist_n < s.vs_wlist_bptr.length) :
    l3B fuel s = l3C fuel { s with order := (o : Int), vs_wlist_bptr := (s.vs_wlist_bptr.set (Int.toNat (s.vs_wlist_type_i + s.vs_wlist_n)) (ty : Int)).set (Int.toNat (s.vs_wlist_order_i + s.vs_wlist_n)) (o : Int) } := by
  obtain ⟨h1, h2, h3⟩ := hcl
  simp [-List.getD_eq_getElem?_getD, l3B, h1, h2, h3, hc1.1, hc1.2, hc2.1, hc2.2, hj1.1, hj1.2, hj2.1, hj2.2, hO, hT]
  congr 1; cases s; simp_all

theorem l3A_spec (fuel : Nat) (s : VSsetfields.St) (hcl : SfClean s)
    (hn : 0 ≤ s.vs_wlist_n ∧ s.vs_wlist_n < s.vs_wlist_name.length) (hj : 0 ≤ s.j ∧ s.j < RSTAB_NAME.length)
    (l p : List Int) (hrow : RSTAB_NAME.getD (Int.toNat s.j) [] = l ++ 0 :: p) (hl : CharsOK l) :
    l3A fuel s = l3B fuel { s with found := 1, vs_wlist_name := s.vs_wlist_name.set (Int.toNat s.vs_wlist_n) (l ++ [0]) } := by
  obtain ⟨h1, h2, h3⟩ := hcl
  have hstr := take_string l p hl
  simp [-List.getD_eq_getElem?_getD, -ne_eq, -decide_not, l3A, h1, h2, h3, hn.1, hn.2, hj.1, hj.2, hrow, hstr]
  congr 1; cases s; simp_all
  congr 1
  exact take_string' l p hl _ (by intro x; simp)
end H4.Lemmas.C07Fld
