import H4.Lemmas.C07FldSet11
/-! `VSsetfields` (behind `scanattrs`) computes the model `VS.setFieldsTok` (`sf_model`). -/
namespace H4.Lemmas.C07Fld
open H4.Gen.Fn.Dfconv H4.Gen.Fn.Vsfld H4.VData H4.Gen.Hdf H4.Gen.Vs H4.C2L H4.VsfldEnc
set_option linter.unusedVariables false
set_option linter.unusedSimpArgs false

/-- the members `VsImg` talks about -/
def vsPart (s : VSsetfields.St) :=
  ((s.vs_access, s.vs_nvertices, s.vs_wlist_n, s.vs_wlist_ivsize, s.vs_wlist_bptr, s.vs_wlist_name, s.vs_wlist_bptr_null, s.vs_wlist_name_null),
   (s.vs_wlist_type_i, s.vs_wlist_off_i, s.vs_wlist_isize_i, s.vs_wlist_order_i, s.vs_wlist_esize_i),
   (s.vs_usym_name, s.vs_usym_type, s.vs_usym_isize, s.vs_usym_order, s.vs_nusym, s.vs_rlist_n, s.vs_rlist_item))

theorem VsImg.congr {v : VS} {s r : VSsetfields.St} (I : VsImg v s) (h : vsPart r = vsPart s) : VsImg v r := by
  simp only [vsPart, Prod.mk.injEq] at h
  obtain ⟨⟨a1, a2, a3, a4, a5, a6, a7, a8⟩, ⟨b1, b2, b3, b4, b5⟩, ⟨c1, c2, c3, c4, c5, c6, c7⟩⟩ := h
  exact ⟨by rw [a1]; exact I.acc, by rw [a2]; exact I.nv, by rw [a3]; exact I.wn, by rw [a4]; exact I.wiv, by rw [a5]; exact I.wb,
    by rw [a6]; exact I.wnm, by rw [a7]; exact I.wbn, by rw [a8]; exact I.wnn, by rw [b1, b2, b3, b4, b5]; exact I.cur,
    by rw [c1]; exact I.u1, by rw [c2]; exact I.u2, by rw [c3]; exact I.u3, by rw [c4]; exact I.u4, by rw [c5]; exact I.un,
    by rw [c6]; exact I.rn, by rw [c7]; exact I.ri⟩

theorem vsfieldmax : VSFIELDMAX = 256 := by decide

theorem go_length (usym : List SymDef) : ∀ (names : List String) (acc : List Field) (iv : Nat) (fs : List Field) (iv' : Nat),
    buildWList.go usym names acc iv = some (fs, iv') → fs.length = acc.length + names.length := by
  intro names
  induction names with
  | nil => intro acc iv fs iv' h; simp only [buildWList.go] at h; cases h; simp
  | cons nm rest ih =>
    intro acc iv fs iv' h
    rw [go_cons] at h
    cases hg : goStep usym nm iv with
    | none => rw [hg] at h; cases h
    | some p =>
      obtain ⟨f, iv2⟩ := p
      rw [hg] at h
      have := ih (f :: acc) iv2 fs iv' h
      simp at this ⊢; omega

theorem buildWList_length {usym : List SymDef} {names : List String} {w : WList} (h : buildWList usym names = some w) :
    w.fields.length = names.length := by
  unfold buildWList at h
  split at h
  · cases h
  · rename_i fs iv hgo
    cases h
    have := go_length usym names [] 0 fs iv hgo
    simp [assignOffs_eq, offsFrom_length, this]

/-- **`VSsetfields` (behind `scanattrs`) computes `VS.setFieldsTok`**: for every model vdata `v` whose C image the entry state `s0`
    holds, every list of names delivered by `scanattrs` -/
theorem sf_model (v : VS) (names : List String) (pads : List (List Int)) (fuel : Nat) (s0 : VSsetfields.St)
    (hpl : pads.length = names.length) (hnames : ∀ nm ∈ names, NameOK nm) (hus : ∀ sd ∈ v.usym, sd.Valid ∧ NameOK sd.name)
    (hwf : ∀ f ∈ v.w.fields, NameOK f.name) (hw0 : v.w.n = 0 → v.w.ivsize = 0)
    (hcl : SfClean s0) (hub : s0.ub = false) (hoof : s0.oof = false) (himg : VsImg v s0)
    (hin : s0.fields_null = false ∧ s0.vkey_group = 4 ∧ s0.w_null = false ∧ s0.vs_null = false ∧ s0.scan_ret ≠ -1)
    (hav : s0.av = avRows names pads) (hac : s0.ac = names.length)
    (hf : names.length + v.usym.length + v.w.fields.length + 9 ≤ fuel) :
    let r := sfRet fuel (sfDone fuel (sfRead fuel (sfBuild fuel (sfChk fuel s0))))
    r.ub = false ∧ r.oof = false ∧ r.ret = (if (v.setFieldsTok names).2 = true then 0 else -1) ∧ VsImg (v.setFieldsTok names).1 r ∧
      (if (v.writable = true ∧ v.nvertices = 0 ∧ v.w.n = 0) ∧ (v.setFieldsTok names).2 = true
       then r.vs_marked = 1 ∧ r.vs_new_h_sz = 1 else r.vs_marked = s0.vs_marked ∧ r.vs_new_h_sz = s0.vs_new_h_sz) := by
  intro r
  obtain ⟨i1, i2, i3, i4, i5⟩ := hin
  have hokiff : SfOk s0 ↔ ¬ (names.length = 0 ∨ names.length > VSFIELDMAX) := by
    unfold SfOk; rw [vsfieldmax]
    constructor
    · intro h; have := h.2.2.2.2.2.1; have := h.2.2.2.2.2.2; omega
    · intro h; exact ⟨i1, i2, i3, i4, i5, by omega, by omega⟩
  have hb_iff : (s0.vs_access = 119 ∧ s0.vs_nvertices = 0 ∧ s0.vs_wlist_n = 0) ↔ (v.writable = true ∧ v.nvertices = 0 ∧ v.w.n = 0) := by
    rw [himg.acc, himg.nv, himg.wn]
    constructor
    · intro h; exact ⟨h.1, by omega, by omega⟩
    · intro h; exact ⟨h.1, by omega, by omega⟩
  have hnv_iff : s0.vs_nvertices > 0 ↔ v.nvertices > 0 := by rw [himg.nv]; omega
  unfold VS.setFieldsTok
  by_cases c0 : names.length = 0 ∨ names.length > VSFIELDMAX
  · -- refused at the entry tests
    rw [if_pos c0]
    have hr : r = _ := sf_untouched fuel s0 hcl (Or.inl (fun h => hokiff.mp h c0))
    rw [hr]
    refine ⟨hub, hoof, rfl, himg.congr rfl, ?_⟩
    rw [if_neg (by simp)]
    exact ⟨rfl, rfl⟩
  · rw [if_neg c0]
    have hok : SfOk s0 := hokiff.mpr c0
    by_cases cb : v.writable = true ∧ v.nvertices = 0 ∧ v.w.n = 0
    · -- the write list
      rw [if_pos cb]
      have hbc := sf_build_case v.usym names pads fuel s0 hcl hub hoof hok (hb_iff.mpr cb) hpl hnames hus hav hac himg.u1 himg.u2 himg.u3 himg.u4
        himg.un (by omega)
      simp only at hbc
      obtain ⟨g1, g2, g3, g4⟩ := hbc
      obtain ⟨a1, a2, a3, a4, a5, a6, a7, a8, a9, a10, a11⟩ := rest_fields g3
      cases hbw : buildWList v.usym names with
      | some w =>
        rw [hbw] at g4
        simp only at g4 ⊢
        obtain ⟨q1, q3, q4, q5, q6, q7, q8, q9, q10, q11, q12, q13, q14, q15⟩ := g4
        have hne : w.fields ≠ [] → True := fun _ => trivial
        have hwl := buildWList_length hbw
        have hne : w.fields.isEmpty = false := by
          cases hf' : w.fields with
          | nil => rw [hf'] at hwl; simp at hwl; omega
          | cons a t => rfl
        refine ⟨g1, g2, q1, ⟨by rw [a8]; exact himg.acc, by rw [a9]; exact himg.nv, q5, q6, q7, q8, by rw [q9, hne], by rw [q10, hne],
          fun _ => ⟨q11, q12, q13, q14, q15⟩,
          by rw [a3]; exact himg.u1, by rw [a4]; exact himg.u2, by rw [a5]; exact himg.u3, by rw [a6]; exact himg.u4, by rw [a7]; exact himg.un,
          by rw [a10]; exact himg.rn, by rw [a11]; exact himg.ri⟩, ?_⟩
        rw [if_pos ⟨cb, trivial⟩]; exact ⟨q3, q4⟩
      | none =>
        rw [hbw] at g4
        simp only at g4 ⊢
        obtain ⟨q1, q3, q4, q5, q6, q7, q8, q9, q10⟩ := g4
        have hfe : v.w.fields = [] := List.length_eq_zero_iff.mp cb.2.2
        refine ⟨g1, g2, q1, ⟨by rw [a8]; exact himg.acc, by rw [a9]; exact himg.nv, by rw [q5, cb.2.2]; rfl, by rw [q6, hw0 cb.2.2]; rfl,
          by rw [q7]; simp [wBptr, hfe], by rw [q8]; simp [wNames, hfe], by rw [q9, hfe]; rfl, by rw [q10, hfe]; rfl,
          fun h => absurd hfe h,
          by rw [a3]; exact himg.u1, by rw [a4]; exact himg.u2, by rw [a5]; exact himg.u3, by rw [a6]; exact himg.u4, by rw [a7]; exact himg.un,
          by rw [a10]; exact himg.rn, by rw [a11]; exact himg.ri⟩, ?_⟩
        rw [if_neg (by simp)]; exact ⟨q3, q4⟩
    · rw [if_neg cb]
      have hnb : ¬ (s0.vs_access = 119 ∧ s0.vs_nvertices = 0 ∧ s0.vs_wlist_n = 0) := fun h => cb (hb_iff.mp h)
      by_cases cr : v.nvertices > 0
      · -- the read list
        rw [if_pos cr]
        have hrc := sf_read_case v.w names pads fuel s0 hcl hub hoof hok (hnv_iff.mpr cr) hpl hnames hwf hav hac himg.wnm himg.wn (by omega)
        simp only at hrc
        obtain ⟨g1, g2, g3, g4, g5, g6⟩ := hrc
        simp only [rFrame, Prod.mk.injEq] at g3
        obtain ⟨⟨_, _, _, _, _, e6, e7⟩, ⟨f1, f2, f3, f4, f5, f6, f7⟩, ⟨k1, k2, k3, _, _, _, k7, k8⟩, ⟨_, m2, m3, m4, m5, m6, m7⟩⟩ := g3
        refine ⟨g1, g2, g4, ⟨by rw [e6]; exact himg.acc, by rw [e7]; exact himg.nv, by rw [f1]; exact himg.wn, by rw [f2]; exact himg.wiv,
          by rw [m4]; exact himg.wb, by rw [m2]; exact himg.wnm, by rw [k7]; exact himg.wbn, by rw [k8]; exact himg.wnn,
          by rw [f3, f4, f5, f6, f7]; exact himg.cur,
          by rw [m3]; exact himg.u1, by rw [m6]; exact himg.u2, by rw [m7]; exact himg.u3, by rw [m5]; exact himg.u4, by rw [k1]; exact himg.un,
          g5, g6⟩, ?_⟩
        rw [if_neg (fun h => cb h.1)]; exact ⟨k2, k3⟩
      · -- neither branch
        rw [if_neg cr]
        have hr : r = _ := sf_untouched fuel s0 hcl (Or.inr ⟨hnb, fun h => cr (hnv_iff.mp h)⟩)
        rw [hr]
        refine ⟨hub, hoof, rfl, himg.congr rfl, ?_⟩
        rw [if_neg (by simp)]
        exact ⟨rfl, rfl⟩
end H4.Lemmas.C07Fld
