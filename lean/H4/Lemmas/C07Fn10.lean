import H4.Lemmas.C07Fn9
/-! Lemmas for `H4.Props.C07Fn3`, part 8: the fields of the state the translated `vunpackvs` leaves on an accepted record, read off
    through generic projection lemmas (which phases assign which field).  Core only. -/
set_option linter.unusedSimpArgs false
set_option linter.unusedVariables false
namespace H4.Lemmas.C07Fn3
open H4 H4.Format H4.Gen.Hdf H4.Gen.Fn.Vio3 H4.C2L
open H4.Lemmas.C08Fn (bytesI bytesI_length bytesI_nil bytesI_cons bytesI_append)
open H4.Lemmas.C08Fn3 (b8 be16 be32 b8_range S32 be16N be16_eq be16N_lt be32N be32_eq be32N_lt w16 valsN valsN_length valsN_cons vals vals_eq fill
  vals_length fill_length)

/-! ## fields of the final state -/

/-- the state the tail starts from -/
def Smid (B : List Int) (L : Nat) (s : St) : St := Sm8 B (SPre B L s)
/-- the state the field table leaves -/
def Stab (B : List Int) (L : Nat) (s : St) : St := STable B (SHead B (SPre B L s)) (nfN B)

local notation "r2" => (fun _ _ => rfl)

/-- a field that the esize loop does not assign -/
theorem SEs_proj {α} (f : St → α) (hi : ∀ t v, f (vunpackvs.St.set_i t v) = f t) (hb : ∀ t l, f (vunpackvs.St.set_vs_wlist_bptr t l) = f t)
    (D : Int → Int) (s : St) (n : Nat) : f (SEs D s n) = f s := by
  simp only [SEs]; split
  · rw [hi]
  · rw [F7, hi, hb, hi]

theorem SOld_proj {α} (f : St → α) (hi : ∀ t v, f (vunpackvs.St.set_i t v) = f t) (hb : ∀ t l, f (vunpackvs.St.set_vs_wlist_bptr t l) = f t)
    (M : Int → Int) (s : St) (n : Nat) : f (SOld M s n) = f s := by
  simp only [SOld]; split
  · split
    · rw [hi]
    · rw [F6, hi, hb, hi]
  · rfl

/-- a field that the tail (version-4 block, old-type mapping, esize loop, epilogue) does not assign -/
theorem tail_proj {α} (f : St → α) (hi : ∀ t v, f (vunpackvs.St.set_i t v) = f t) (hb : ∀ t l, f (vunpackvs.St.set_vs_wlist_bptr t l) = f t)
    (hbb : ∀ t v, f (vunpackvs.St.set_bb t v) = f t) (hfl : ∀ t v, f (vunpackvs.St.set_vs_flags t v) = f t)
    (hna : ∀ t v, f (vunpackvs.St.set_vs_nattrs t v) = f t) (h1 : ∀ t v, f (vunpackvs.St.set_vs_alist_findex t v) = f t)
    (h2 : ∀ t v, f (vunpackvs.St.set_vs_alist_atag t v) = f t) (h3 : ∀ t v, f (vunpackvs.St.set_vs_alist_aref t v) = f t)
    (h4 : ∀ t v, f (vunpackvs.St.set_vs_alist_null t v) = f t) (hg : ∀ t v, f (vunpackvs.St.set_gto t v) = f t)
    (hr : ∀ t v, f (vunpackvs.St.set_ret t v) = f t) (hd : ∀ t v, f (vunpackvs.St.set_done t v) = f t)
    (M D : Int → Int) (B : List Int) (L : Nat) (s : St) : f (SFin M D B L s) = f (Smid B L s) := by
  rw [SFin, Epi, hd, hr, hg, SEs_proj f hi hb, SOld_proj f hi hb]
  exact SV4_proj f B _ _ (fun na => by rw [SAttr, F5, hbb, hi, h3, h2, h1, SAlloc, hi, h4, h3, h2, h1, hbb, hna, hbb, hfl]) (fun v w => by rw [hbb, hfl])

/-- a field that vsname .. the middle trailer copies do not assign -/
theorem mid_proj {α} (f : St → α) (hbb : ∀ t v, f (vunpackvs.St.set_bb t v) = f t) (ht : ∀ t v, f (vunpackvs.St.set_temp t v) = f t)
    (hx : ∀ t v, f (vunpackvs.St.set_vs_exref t v) = f t) (he : ∀ t v, f (vunpackvs.St.set_vs_extag t v) = f t)
    (hc : ∀ t v, f (vunpackvs.St.set_vs_vsclass t v) = f t) (hn : ∀ t v, f (vunpackvs.St.set_vs_vsname t v) = f t)
    (hu : ∀ t v, f (vunpackvs.St.set_int16var t v) = f t) (B : List Int) (L : Nat) (s : St) : f (Smid B L s) = f (Stab B L s) := by
  rw [Smid, Sm8, hbb, ht, Sm7, hbb, ht, Sm6, hbb, hx, Sm5, hbb, he, Sm4, SFix, hbb, hc, hu, Sm3, SFix, hbb, hn, hu]
  rfl

theorem SFin_version (M D : Int → Int) (B : List Int) (L : Nat) (s : St) : (SFin M D B L s).vs_version = w16 (be16 B (L - 5)) := by
  rw [tail_proj (·.vs_version) r2 r2 r2 r2 r2 r2 r2 r2 r2 r2 r2 r2, mid_proj (·.vs_version) r2 r2 r2 r2 r2 r2 r2, Stab, STable_version]; rfl

theorem SFin_more (M D : Int → Int) (B : List Int) (L : Nat) (s : St) : (SFin M D B L s).vs_more = w16 (be16 B (L - 3)) := by
  rw [tail_proj (·.vs_more) r2 r2 r2 r2 r2 r2 r2 r2 r2 r2 r2 r2, mid_proj (·.vs_more) r2 r2 r2 r2 r2 r2 r2, Stab, STable_more]; rfl

theorem SFin_ret_value (M D : Int → Int) (B : List Int) (L : Nat) (s : St) : (SFin M D B L s).ret_value = 0 := by
  rw [tail_proj (·.ret_value) r2 r2 r2 r2 r2 r2 r2 r2 r2 r2 r2 r2, mid_proj (·.ret_value) r2 r2 r2 r2 r2 r2 r2, Stab,
    STable_proj (·.ret_value) _ _ _ rfl rfl]; rfl

theorem SFin_interlace (M D : Int → Int) (B : List Int) (L : Nat) (s : St) : (SFin M D B L s).vs_interlace = w16 (be16 B 0) := by
  rw [tail_proj (·.vs_interlace) r2 r2 r2 r2 r2 r2 r2 r2 r2 r2 r2 r2, mid_proj (·.vs_interlace) r2 r2 r2 r2 r2 r2 r2, Stab,
    STable_proj (·.vs_interlace) _ _ _ rfl rfl]; rfl

theorem SFin_nvertices (M D : Int → Int) (B : List Int) (L : Nat) (s : St) : (SFin M D B L s).vs_nvertices = S32 (be32 B 2) := by
  rw [tail_proj (·.vs_nvertices) r2 r2 r2 r2 r2 r2 r2 r2 r2 r2 r2 r2, mid_proj (·.vs_nvertices) r2 r2 r2 r2 r2 r2 r2, Stab,
    STable_proj (·.vs_nvertices) _ _ _ rfl rfl]; rfl

theorem SFin_ivsize (M D : Int → Int) (B : List Int) (L : Nat) (s : St) : (SFin M D B L s).vs_wlist_ivsize = be16 B 6 := by
  rw [tail_proj (·.vs_wlist_ivsize) r2 r2 r2 r2 r2 r2 r2 r2 r2 r2 r2 r2, mid_proj (·.vs_wlist_ivsize) r2 r2 r2 r2 r2 r2 r2, Stab,
    STable_proj (·.vs_wlist_ivsize) _ _ _ rfl rfl]; rfl

theorem SFin_n (M D : Int → Int) (B : List Int) (L : Nat) (s : St) : (SFin M D B L s).vs_wlist_n = (nfN B : Int) := by
  rw [tail_proj (·.vs_wlist_n) r2 r2 r2 r2 r2 r2 r2 r2 r2 r2 r2 r2, mid_proj (·.vs_wlist_n) r2 r2 r2 r2 r2 r2 r2, Stab,
    STable_proj (·.vs_wlist_n) _ _ _ rfl rfl]; rfl

theorem SFin_extag (M D : Int → Int) (B : List Int) (L : Nat) (s : St) : (SFin M D B L s).vs_extag = be16 B (pEx B) := by
  rw [tail_proj (·.vs_extag) r2 r2 r2 r2 r2 r2 r2 r2 r2 r2 r2 r2]; rfl

theorem SFin_exref (M D : Int → Int) (B : List Int) (L : Nat) (s : St) : (SFin M D B L s).vs_exref = be16 B (pEx B + 2) := by
  rw [tail_proj (·.vs_exref) r2 r2 r2 r2 r2 r2 r2 r2 r2 r2 r2 r2]; rfl

theorem SFin_vsname (M D : Int → Int) (B : List Int) (L : Nat) (s : St) :
    (SFin M D B L s).vs_vsname = cstrInto B (pVn B + 2) (lVn B) s.vs_vsname := by
  rw [tail_proj (·.vs_vsname) r2 r2 r2 r2 r2 r2 r2 r2 r2 r2 r2 r2]
  show cstrInto B (pVn B + 2) (lVn B) (STable B (SHead B (SPre B L s)) (nfN B)).vs_vsname = _
  rw [STable_vsname]; rfl

theorem SFin_vsclass (M D : Int → Int) (B : List Int) (L : Nat) (s : St) :
    (SFin M D B L s).vs_vsclass = cstrInto B (pVc B + 2) (lVc B) s.vs_vsclass := by
  rw [tail_proj (·.vs_vsclass) r2 r2 r2 r2 r2 r2 r2 r2 r2 r2 r2 r2]
  show cstrInto B (pVc B + 2) (lVc B) (STable B (SHead B (SPre B L s)) (nfN B)).vs_vsclass = _
  rw [STable_vsclass]; rfl

/-! ### the version-4 fields -/

/-- a field that only the version-4 block of the tail may assign -/
theorem tailV4_proj {α} (f : St → α) (hi : ∀ t v, f (vunpackvs.St.set_i t v) = f t) (hb : ∀ t l, f (vunpackvs.St.set_vs_wlist_bptr t l) = f t)
    (hg : ∀ t v, f (vunpackvs.St.set_gto t v) = f t) (hr : ∀ t v, f (vunpackvs.St.set_ret t v) = f t) (hd : ∀ t v, f (vunpackvs.St.set_done t v) = f t)
    (M D : Int → Int) (B : List Int) (L : Nat) (s : St) : f (SFin M D B L s) = f (SV4 B (Smid B L s) (pEx B + 8)) := by
  rw [SFin, Epi, hd, hr, hg, SEs_proj f hi hb, SOld_proj f hi hb]; rfl

theorem Smid_version (B : List Int) (L : Nat) (s : St) : (Smid B L s).vs_version = w16 (be16 B (L - 5)) := by
  rw [mid_proj (·.vs_version) r2 r2 r2 r2 r2 r2 r2, Stab, STable_version]; rfl

/-- not version 4: the version-4 fields of `*vs` keep what they held -/
theorem SFin_v3 {α} (f : St → α) (hi : ∀ t v, f (vunpackvs.St.set_i t v) = f t) (hb : ∀ t l, f (vunpackvs.St.set_vs_wlist_bptr t l) = f t)
    (hg : ∀ t v, f (vunpackvs.St.set_gto t v) = f t) (hr : ∀ t v, f (vunpackvs.St.set_ret t v) = f t) (hd : ∀ t v, f (vunpackvs.St.set_done t v) = f t)
    (hm : f (Smid B L s) = f s) (M D : Int → Int) (hv : w16 (be16 B (L - 5)) ≠ 4) : f (SFin M D B L s) = f s := by
  rw [tailV4_proj f hi hb hg hr hd, SV4, if_neg (by rw [Smid_version]; exact hv), hm]

/-- `f (Smid …) = f s` for a field that nothing before the tail assigns -/
theorem Smid_keep {α} (f : St → α) (hbb : ∀ t v, f (vunpackvs.St.set_bb t v) = f t) (ht : ∀ t v, f (vunpackvs.St.set_temp t v) = f t)
    (hx : ∀ t v, f (vunpackvs.St.set_vs_exref t v) = f t) (he : ∀ t v, f (vunpackvs.St.set_vs_extag t v) = f t)
    (hc : ∀ t v, f (vunpackvs.St.set_vs_vsclass t v) = f t) (hn : ∀ t v, f (vunpackvs.St.set_vs_vsname t v) = f t)
    (hu : ∀ t v, f (vunpackvs.St.set_int16var t v) = f t) (h0 : ∀ t, f (phNoFields t) = f t) (h1 : ∀ t n, f (SF7 B t n) = f t)
    (hh : f (SHead B (SPre B L s)) = f s) : f (Smid B L s) = f s := by
  rw [mid_proj f hbb ht hx he hc hn hu, Stab, STable_proj f _ _ _ (h0 _) (h1 _ _), hh]

theorem SFin_flags4 (M D : Int → Int) (B : List Int) (L : Nat) (s : St) (hv : w16 (be16 B (L - 5)) = 4) :
    (SFin M D B L s).vs_flags = be32 B (pEx B + 8) := by
  rw [tailV4_proj (·.vs_flags) r2 r2 r2 r2 r2, SV4, if_pos (by rw [Smid_version]; exact hv)]
  split <;> rfl

/-- version 4 without `VS_ATTR_SET`: `nattrs` and `alist` keep what they held -/
theorem SFin_noattr {α} (f : St → α) (hi : ∀ t v, f (vunpackvs.St.set_i t v) = f t) (hb : ∀ t l, f (vunpackvs.St.set_vs_wlist_bptr t l) = f t)
    (hg : ∀ t v, f (vunpackvs.St.set_gto t v) = f t) (hr : ∀ t v, f (vunpackvs.St.set_ret t v) = f t) (hd : ∀ t v, f (vunpackvs.St.set_done t v) = f t)
    (hbb : ∀ t v, f (vunpackvs.St.set_bb t v) = f t) (hfl : ∀ t v, f (vunpackvs.St.set_vs_flags t v) = f t)
    (hm : f (Smid B L s) = f s) (M D : Int → Int) (hv : w16 (be16 B (L - 5)) = 4) (hbit : ¬ be32N B (pEx B + 8) % 2 = 1) :
    f (SFin M D B L s) = f s := by
  rw [tailV4_proj f hi hb hg hr hd, SV4, if_pos (by rw [Smid_version]; exact hv), if_neg hbit, hbb, hfl, hm]

/-- version 4 with `VS_ATTR_SET`: `nattrs` and the three field arrays of `alist` -/
theorem SFin_attrs (M D : Int → Int) (B : List Int) (L : Nat) (s : St) (hv : w16 (be16 B (L - 5)) = 4) (hbit : be32N B (pEx B + 8) % 2 = 1) :
    (SFin M D B L s).vs_nattrs = (be32N B (pEx B + 8 + 4) : Int) ∧ (SFin M D B L s).vs_alist_null = false ∧
      (SFin M D B L s).vs_alist_findex = fill (List.replicate (be32N B (pEx B + 8 + 4)) 170) 0 (vals32 B (pEx B + 8 + 8) 8 (be32N B (pEx B + 8 + 4))) ∧
      (SFin M D B L s).vs_alist_atag = fill (List.replicate (be32N B (pEx B + 8 + 4)) 170) 0 (vals B (pEx B + 8 + 8 + 4) 8 (be32N B (pEx B + 8 + 4))) ∧
      (SFin M D B L s).vs_alist_aref = fill (List.replicate (be32N B (pEx B + 8 + 4)) 170) 0 (vals B (pEx B + 8 + 8 + 6) 8 (be32N B (pEx B + 8 + 4))) := by
  have hv' : (Smid B L s).vs_version = 4 := by rw [Smid_version]; exact hv
  refine ⟨?_, ?_, ?_, ?_, ?_⟩
  · rw [tailV4_proj (·.vs_nattrs) r2 r2 r2 r2 r2, SV4, if_pos hv', if_pos hbit]; rfl
  · rw [tailV4_proj (·.vs_alist_null) r2 r2 r2 r2 r2, SV4, if_pos hv', if_pos hbit]; rfl
  · rw [tailV4_proj (·.vs_alist_findex) r2 r2 r2 r2 r2, SV4, if_pos hv', if_pos hbit]; rfl
  · rw [tailV4_proj (·.vs_alist_atag) r2 r2 r2 r2 r2, SV4, if_pos hv', if_pos hbit]; rfl
  · rw [tailV4_proj (·.vs_alist_aref) r2 r2 r2 r2 r2, SV4, if_pos hv', if_pos hbit]; rfl

/-! ### the field table -/

/-- a field of the table that the tail does not assign (everything but the block and `i`) -/
theorem SFin_tab {α} (f : St → α) (hi : ∀ t v, f (vunpackvs.St.set_i t v) = f t) (hb : ∀ t l, f (vunpackvs.St.set_vs_wlist_bptr t l) = f t)
    (hbb : ∀ t v, f (vunpackvs.St.set_bb t v) = f t) (hfl : ∀ t v, f (vunpackvs.St.set_vs_flags t v) = f t)
    (hna : ∀ t v, f (vunpackvs.St.set_vs_nattrs t v) = f t) (h1 : ∀ t v, f (vunpackvs.St.set_vs_alist_findex t v) = f t)
    (h2 : ∀ t v, f (vunpackvs.St.set_vs_alist_atag t v) = f t) (h3 : ∀ t v, f (vunpackvs.St.set_vs_alist_aref t v) = f t)
    (h4 : ∀ t v, f (vunpackvs.St.set_vs_alist_null t v) = f t) (hg : ∀ t v, f (vunpackvs.St.set_gto t v) = f t)
    (hr : ∀ t v, f (vunpackvs.St.set_ret t v) = f t) (hd : ∀ t v, f (vunpackvs.St.set_done t v) = f t)
    (ht : ∀ t v, f (vunpackvs.St.set_temp t v) = f t)
    (hx : ∀ t v, f (vunpackvs.St.set_vs_exref t v) = f t) (he : ∀ t v, f (vunpackvs.St.set_vs_extag t v) = f t)
    (hc : ∀ t v, f (vunpackvs.St.set_vs_vsclass t v) = f t) (hn : ∀ t v, f (vunpackvs.St.set_vs_vsname t v) = f t)
    (hu : ∀ t v, f (vunpackvs.St.set_int16var t v) = f t) (M D : Int → Int) (B : List Int) (L : Nat) (s : St) :
    f (SFin M D B L s) = f (Stab B L s) := by
  rw [tail_proj f hi hb hbb hfl hna h1 h2 h3 h4 hg hr hd, mid_proj f hbb ht hx he hc hn hu]

/-- no fields: every array pointer of the write list is NULL -/
theorem SFin_nofields (M D : Int → Int) (B : List Int) (L : Nat) (s : St) (h0 : nfN B = 0) :
    (SFin M D B L s).vs_wlist_bptr_null = true ∧ (SFin M D B L s).vs_wlist_type_null = true ∧ (SFin M D B L s).vs_wlist_off_null = true ∧
      (SFin M D B L s).vs_wlist_isize_null = true ∧ (SFin M D B L s).vs_wlist_order_null = true ∧ (SFin M D B L s).vs_wlist_esize_null = true ∧
      (SFin M D B L s).vs_wlist_name_null = true := by
  have e : Stab B L s = phNoFields (SHead B (SPre B L s)) := by rw [Stab, STable, if_pos h0]
  refine ⟨?_, ?_, ?_, ?_, ?_, ?_, ?_⟩
  · rw [SFin_tab (·.vs_wlist_bptr_null) r2 r2 r2 r2 r2 r2 r2 r2 r2 r2 r2 r2 r2 r2 r2 r2 r2 r2, e]; rfl
  · rw [SFin_tab (·.vs_wlist_type_null) r2 r2 r2 r2 r2 r2 r2 r2 r2 r2 r2 r2 r2 r2 r2 r2 r2 r2, e]; rfl
  · rw [SFin_tab (·.vs_wlist_off_null) r2 r2 r2 r2 r2 r2 r2 r2 r2 r2 r2 r2 r2 r2 r2 r2 r2 r2, e]; rfl
  · rw [SFin_tab (·.vs_wlist_isize_null) r2 r2 r2 r2 r2 r2 r2 r2 r2 r2 r2 r2 r2 r2 r2 r2 r2 r2, e]; rfl
  · rw [SFin_tab (·.vs_wlist_order_null) r2 r2 r2 r2 r2 r2 r2 r2 r2 r2 r2 r2 r2 r2 r2 r2 r2 r2, e]; rfl
  · rw [SFin_tab (·.vs_wlist_esize_null) r2 r2 r2 r2 r2 r2 r2 r2 r2 r2 r2 r2 r2 r2 r2 r2 r2 r2, e]; rfl
  · rw [SFin_tab (·.vs_wlist_name_null) r2 r2 r2 r2 r2 r2 r2 r2 r2 r2 r2 r2 r2 r2 r2 r2 r2 r2, e]; rfl

/-- `n > 0` fields: the five arrays are non-NULL cursors `0, n, 2n, 3n, 4n` into the block; `n` name rows -/
theorem SFin_fields (M D : Int → Int) (B : List Int) (L : Nat) (s : St) (h0 : nfN B ≠ 0) :
    (SFin M D B L s).vs_wlist_bptr_null = false ∧ (SFin M D B L s).vs_wlist_type_null = false ∧ (SFin M D B L s).vs_wlist_off_null = false ∧
      (SFin M D B L s).vs_wlist_isize_null = false ∧ (SFin M D B L s).vs_wlist_order_null = false ∧ (SFin M D B L s).vs_wlist_esize_null = false ∧
      (SFin M D B L s).vs_wlist_name_null = false ∧
      (SFin M D B L s).vs_wlist_type = 0 ∧ (SFin M D B L s).vs_wlist_off = (nfN B : Int) ∧ (SFin M D B L s).vs_wlist_isize = ((2 * nfN B : Nat) : Int) ∧
      (SFin M D B L s).vs_wlist_order = ((3 * nfN B : Nat) : Int) ∧ (SFin M D B L s).vs_wlist_esize = ((4 * nfN B : Nat) : Int) ∧
      (SFin M D B L s).vs_wlist_name = rowsAt B (pNm B) (List.replicate (nfN B) []) (nfN B) := by
  have e : Stab B L s = SF7 B (SHead B (SPre B L s)) (nfN B) := by rw [Stab, STable, if_neg h0]
  refine ⟨?_, ?_, ?_, ?_, ?_, ?_, ?_, ?_, ?_, ?_, ?_, ?_, ?_⟩
  · rw [SFin_tab (·.vs_wlist_bptr_null) r2 r2 r2 r2 r2 r2 r2 r2 r2 r2 r2 r2 r2 r2 r2 r2 r2 r2, e]; rfl
  · rw [SFin_tab (·.vs_wlist_type_null) r2 r2 r2 r2 r2 r2 r2 r2 r2 r2 r2 r2 r2 r2 r2 r2 r2 r2, e]; rfl
  · rw [SFin_tab (·.vs_wlist_off_null) r2 r2 r2 r2 r2 r2 r2 r2 r2 r2 r2 r2 r2 r2 r2 r2 r2 r2, e]; rfl
  · rw [SFin_tab (·.vs_wlist_isize_null) r2 r2 r2 r2 r2 r2 r2 r2 r2 r2 r2 r2 r2 r2 r2 r2 r2 r2, e]; rfl
  · rw [SFin_tab (·.vs_wlist_order_null) r2 r2 r2 r2 r2 r2 r2 r2 r2 r2 r2 r2 r2 r2 r2 r2 r2 r2, e]; rfl
  · rw [SFin_tab (·.vs_wlist_esize_null) r2 r2 r2 r2 r2 r2 r2 r2 r2 r2 r2 r2 r2 r2 r2 r2 r2 r2, e]; rfl
  · rw [SFin_tab (·.vs_wlist_name_null) r2 r2 r2 r2 r2 r2 r2 r2 r2 r2 r2 r2 r2 r2 r2 r2 r2 r2, e]; rfl
  · rw [SFin_tab (·.vs_wlist_type) r2 r2 r2 r2 r2 r2 r2 r2 r2 r2 r2 r2 r2 r2 r2 r2 r2 r2, e]; rfl
  · rw [SFin_tab (·.vs_wlist_off) r2 r2 r2 r2 r2 r2 r2 r2 r2 r2 r2 r2 r2 r2 r2 r2 r2 r2, e]; rfl
  · rw [SFin_tab (·.vs_wlist_isize) r2 r2 r2 r2 r2 r2 r2 r2 r2 r2 r2 r2 r2 r2 r2 r2 r2 r2, e]; rfl
  · rw [SFin_tab (·.vs_wlist_order) r2 r2 r2 r2 r2 r2 r2 r2 r2 r2 r2 r2 r2 r2 r2 r2 r2 r2, e]; rfl
  · rw [SFin_tab (·.vs_wlist_esize) r2 r2 r2 r2 r2 r2 r2 r2 r2 r2 r2 r2 r2 r2 r2 r2 r2 r2, e]; rfl
  · rw [SFin_tab (·.vs_wlist_name) r2 r2 r2 r2 r2 r2 r2 r2 r2 r2 r2 r2 r2 r2 r2 r2 r2 r2, e]; rfl

end H4.Lemmas.C07Fn3
