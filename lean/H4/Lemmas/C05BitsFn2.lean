import H4.Lemmas.C05BitsFn
/-! Lemmas for `H4.Props.C05BitsFn`, second part: `Hbitseek` and the mode switches `HIwrite2read` / `HIread2write` of
    `hdf/src/hbitio.c`, as TRANSLATED from the C text (`H4.Gen.Fn.Hbitio2`).  Core only. -/
set_option linter.unusedSimpArgs false
set_option linter.unusedVariables false
namespace H4.Lemmas.C05BitsFn
open H4 H4.BitIO H4.Gen.Hbitio H4.Gen.Fn.Hbitio2

/-! ## `HIbitflush_m`: the text of `HIbitflush` as `Hbitseek` calls it (`flushbit = -1`, the call of `Hbitwrite` trapped) -/

/-- the record after a run of `HIbitflush_m`, the members the function does not know taken from `r0` -/
def flmRec (s : HIbitflush_m.St) (r0 : CRec) : CRec :=
  { r0 with count := s.rec_count, bits := s.rec_bits, byteOff := s.rec_byte_offset, maxOff := s.rec_max_offset,
            blockOff := s.rec_block_offset, bytep := s.rec_bytep, bytez := s.rec_bytez, bytea := s.rec_bytea, elt := s.io_elt,
            epos := s.io_epos, enew := s.io_enew }

/-- `HIbitflush(rec, -1, writeout)` on the record `r`: the pending bits (if any) are merged into the byte under the cursor, then the
    buffer is written out if asked for; the `Hbitwrite` branch is never reached (`ub = false`) -/
theorem flm_main (fuel : Nat) (r : CRec) (wo : Int) (hc : 0 ≤ r.count ∧ r.count ≤ 8) (hl : r.bytea.length = 4096)
    (hp : 0 ≤ r.bytep ∧ r.bytep < 4096) (hz : 0 ≤ r.bytez ∧ r.bytez ≤ 4096) (hbits : 0 ≤ r.bits) (he : 0 ≤ r.epos)
    (hx : 0 ≤ r.bytea.getD r.bytep.toNat 0) :
    let S := HIbitflush_m fuel r.count r.byteOff r.maxOff r.bytea r.bytep r.bits r.bytez r.blockOff (-1) wo r.elt r.epos r.enew
    S.ub = false ∧ S.oof = false ∧ S.ret = 0 ∧
      flmRec S r = (if wo = 1 then fWriteout (if r.count < 8 then fMerge r else r) else (if r.count < 8 then fMerge r else r)) := by
  obtain ⟨access, mode, count, bits, bufRead, byteOff, maxOff, blockOff, bytep, bytez, bytea, elt, epos, enew⟩ := r
  simp only at hc hl hp hz hbits he hx
  obtain ⟨hc1, hc2⟩ := hc
  obtain ⟨hp1, hp2⟩ := hp
  obtain ⟨hz1, hz2⟩ := hz
  have hl' : (bytea.length : Int) = 4096 := by omega
  have hpn : bytep.toNat < bytea.length := by omega
  have hmm : (0 ≤ mergeMaskC count) = True := by unfold mergeMaskC; exact mod256_nonneg _
  have hm1 : ((-1 : Int) = -1) := rfl
  -- the write-out step on a record `q` (the record after the merge step / the record itself)
  by_cases hc8 : count < 8
  · by_cases hmo : byteOff + 1 > maxOff
    · by_cases hwo : wo = 1
      · by_cases hlt : bytez < byteOff + 1 - blockOff
        · by_cases hpos : bytez > 0
          · have hn : (bytez = -1) = False := by simp only [eq_iff_iff, iff_false]; omega
            flm_simp [HIbitflush_m, bitnum_int, mergeMaskC_fold, fMerge, fWriteout, flmRec, hc8, hmo, hwo, getD_set_self' _ _ _ _ hpn,
              List.set_set, Int.zero_emod, hlt, hpos, hn]
            c2l_ub [hl', hmm]
          · flm_simp [HIbitflush_m, bitnum_int, mergeMaskC_fold, fMerge, fWriteout, flmRec, hc8, hmo, hwo, getD_set_self' _ _ _ _ hpn,
              List.set_set, Int.zero_emod, hlt, hpos]
            c2l_ub [hl', hmm]
        · by_cases hpos : byteOff + 1 - blockOff > 0
          · have hn : (byteOff + 1 - blockOff = -1) = False := by simp only [eq_iff_iff, iff_false]; omega
            flm_simp [HIbitflush_m, bitnum_int, mergeMaskC_fold, fMerge, fWriteout, flmRec, hc8, hmo, hwo, getD_set_self' _ _ _ _ hpn,
              List.set_set, Int.zero_emod, hlt, hpos, hn]
            c2l_ub [hl', hmm]
          · flm_simp [HIbitflush_m, bitnum_int, mergeMaskC_fold, fMerge, fWriteout, flmRec, hc8, hmo, hwo, getD_set_self' _ _ _ _ hpn,
              List.set_set, Int.zero_emod, hlt, hpos]
            c2l_ub [hl', hmm]
      · flm_simp [HIbitflush_m, bitnum_int, mergeMaskC_fold, fMerge, fWriteout, flmRec, hc8, hmo, hwo, getD_set_self' _ _ _ _ hpn, List.set_set,
          Int.zero_emod]
        c2l_ub [hl', hmm]
    · by_cases hwo : wo = 1
      · by_cases hlt : bytez < maxOff - blockOff
        · by_cases hpos : bytez > 0
          · have hn : (bytez = -1) = False := by simp only [eq_iff_iff, iff_false]; omega
            flm_simp [HIbitflush_m, bitnum_int, mergeMaskC_fold, fMerge, fWriteout, flmRec, hc8, hmo, hwo, getD_set_self' _ _ _ _ hpn,
              List.set_set, Int.zero_emod, hlt, hpos, hn]
            c2l_ub [hl', hmm]
          · flm_simp [HIbitflush_m, bitnum_int, mergeMaskC_fold, fMerge, fWriteout, flmRec, hc8, hmo, hwo, getD_set_self' _ _ _ _ hpn,
              List.set_set, Int.zero_emod, hlt, hpos]
            c2l_ub [hl', hmm]
        · by_cases hpos : maxOff - blockOff > 0
          · have hn : (maxOff - blockOff = -1) = False := by simp only [eq_iff_iff, iff_false]; omega
            flm_simp [HIbitflush_m, bitnum_int, mergeMaskC_fold, fMerge, fWriteout, flmRec, hc8, hmo, hwo, getD_set_self' _ _ _ _ hpn,
              List.set_set, Int.zero_emod, hlt, hpos, hn]
            c2l_ub [hl', hmm]
          · flm_simp [HIbitflush_m, bitnum_int, mergeMaskC_fold, fMerge, fWriteout, flmRec, hc8, hmo, hwo, getD_set_self' _ _ _ _ hpn,
              List.set_set, Int.zero_emod, hlt, hpos]
            c2l_ub [hl', hmm]
      · flm_simp [HIbitflush_m, bitnum_int, mergeMaskC_fold, fMerge, fWriteout, flmRec, hc8, hmo, hwo, getD_set_self' _ _ _ _ hpn, List.set_set,
          Int.zero_emod]
        c2l_ub [hl', hmm]
  · by_cases hwo : wo = 1
    · by_cases hlt : bytez < maxOff - blockOff
      · by_cases hpos : bytez > 0
        · have hn : (bytez = -1) = False := by simp only [eq_iff_iff, iff_false]; omega
          flm_simp [HIbitflush_m, bitnum_int, fWriteout, flmRec, hc8, hwo, hlt, hpos, hn]
          c2l_ub [hl']
        · flm_simp [HIbitflush_m, bitnum_int, fWriteout, flmRec, hc8, hwo, hlt, hpos]
      · by_cases hpos : maxOff - blockOff > 0
        · have hn : (maxOff - blockOff = -1) = False := by simp only [eq_iff_iff, iff_false]; omega
          flm_simp [HIbitflush_m, bitnum_int, fWriteout, flmRec, hc8, hwo, hlt, hpos, hn]
          c2l_ub [hl']
        · flm_simp [HIbitflush_m, bitnum_int, fWriteout, flmRec, hc8, hwo, hlt, hpos]
    · flm_simp [HIbitflush_m, bitnum_int, fWriteout, flmRec, hc8, hwo]

/-! ## `Hbitseek`, segment by segment -/

/-- the record inside the state of the translated `Hbitseek` (which never looks at `access`: taken from outside) -/
def skRec (s : Hbitseek.St) (acc : Int) : CRec :=
  { access := acc, mode := s.rec_mode, count := s.rec_count, bits := s.rec_bits, bufRead := s.rec_buf_read,
    byteOff := s.rec_byte_offset, maxOff := s.rec_max_offset, blockOff := s.rec_block_offset, bytep := s.rec_bytep,
    bytez := s.rec_bytez, bytea := s.rec_bytea, elt := s.io_elt, epos := s.io_epos, enew := s.io_enew }

/-- segment 0 of `Hbitseek`: the argument check and `new_block` -/
theorem sk_seg0 (fuel : Nat) (s : Hbitseek.St) (hub : s.ub = false) (hdone : s.done = false) (hnull : s.rec_null = false) (acc : Int) :
    let s' := Hbitseek.seg0 fuel s
    s'.ub = false ∧ s'.oof = s.oof ∧ skRec s' acc = skRec s acc ∧ s'.byte_offset = s.byte_offset ∧ s'.bit_offset = s.bit_offset ∧
    ((s.byte_offset < 0 ∨ s.bit_offset < 0 ∨ s.bit_offset > 7 ∨ s.byte_offset > s.rec_max_offset) → s'.done = true ∧ s'.ret = -1) ∧
    (¬ (s.byte_offset < 0 ∨ s.bit_offset < 0 ∨ s.bit_offset > 7 ∨ s.byte_offset > s.rec_max_offset) → s'.done = false ∧ s'.ret = s.ret ∧
      s'.new_block = (if s.byte_offset < s.rec_block_offset ∨ s.byte_offset ≥ s.rec_block_offset + 4096 then 1 else 0)) := by
  obtain ⟨bitid, byte_offset, bit_offset, seek_pos, read_size, n, new_block, rec_max_offset, rec_block_offset, rec_mode, rec_count, rec_byte_offset, rec_bytep, rec_bits, rec_bytez, io_epos, io_enew, rec_buf_read, rec_null, rec_bytea, io_elt, ub, oof, ret, done⟩ := s
  simp only at hub hdone hnull
  subst hub hdone hnull
  by_cases hbad : byte_offset < 0 ∨ bit_offset < 0 ∨ bit_offset > 7 ∨ byte_offset > rec_max_offset
  · have hbad' : ((((byte_offset < 0 ∨ bit_offset < 0) ∨ bit_offset > 8 - 1) ∨ false = true) ∨ byte_offset > rec_max_offset) := by
      rcases hbad with h | h | h | h
      · exact Or.inl (Or.inl (Or.inl (Or.inl h)))
      · exact Or.inl (Or.inl (Or.inl (Or.inr h)))
      · exact Or.inl (Or.inl (Or.inr (by omega)))
      · exact Or.inr h
    simp only [Hbitseek.seg0, bitnum_int, hbad', if_true, Hbitseek.St.set_ret, Hbitseek.St.set_done, skRec, hbad, true_and, and_true,
      not_true_eq_false, false_implies, implies_true]
  · have hbad' : ¬ (((byte_offset < 0 ∨ bit_offset < 0) ∨ 8 - 1 < bit_offset) ∨ rec_max_offset < byte_offset) := by
      intro h
      apply hbad
      rcases h with ((h | h) | h) | h
      · exact Or.inl h
      · exact Or.inr (Or.inl h)
      · exact Or.inr (Or.inr (Or.inl (by omega)))
      · exact Or.inr (Or.inr (Or.inr h))
    by_cases hnb : byte_offset < rec_block_offset ∨ byte_offset ≥ rec_block_offset + 4096
    · have hnb' : byte_offset < rec_block_offset ∨ rec_block_offset + 4096 ≤ byte_offset := hnb
      sk_simp [Hbitseek.seg0, bitnum_int, hbad', skRec, hbad, hnb, hnb']
    · have hnb' : ¬ (byte_offset < rec_block_offset ∨ rec_block_offset + 4096 ≤ byte_offset) := hnb
      sk_simp [Hbitseek.seg0, bitnum_int, hbad', skRec, hbad, hnb, hnb']

/-- segment 0 of `Hbitseek` on good arguments, as an equation -/
theorem sk_seg0_eq (fuel : Nat) (s : Hbitseek.St) (hdone : s.done = false) (hnull : s.rec_null = false)
    (hgood : ¬ (s.byte_offset < 0 ∨ s.bit_offset < 0 ∨ s.bit_offset > 7 ∨ s.byte_offset > s.rec_max_offset)) :
    Hbitseek.seg0 fuel s =
      { s with new_block := (if s.byte_offset < s.rec_block_offset ∨ s.byte_offset ≥ s.rec_block_offset + 4096 then 1 else 0) } := by
  obtain ⟨bitid, byte_offset, bit_offset, seek_pos, read_size, n, new_block, rec_max_offset, rec_block_offset, rec_mode, rec_count, rec_byte_offset, rec_bytep, rec_bits, rec_bytez, io_epos, io_enew, rec_buf_read, rec_null, rec_bytea, io_elt, ub, oof, ret, done⟩ := s
  simp only at hdone hnull hgood
  subst hdone hnull
  have hbad' : ¬ (((byte_offset < 0 ∨ bit_offset < 0) ∨ 8 - 1 < bit_offset) ∨ rec_max_offset < byte_offset) := by
    intro h
    apply hgood
    rcases h with ((h | h) | h) | h
    · exact Or.inl h
    · exact Or.inr (Or.inl h)
    · exact Or.inr (Or.inr (Or.inl (by omega)))
    · exact Or.inr (Or.inr (Or.inr h))
  by_cases hnb : byte_offset < rec_block_offset ∨ byte_offset ≥ rec_block_offset + 4096
  · have hnb' : byte_offset < rec_block_offset ∨ rec_block_offset + 4096 ≤ byte_offset := hnb
    sk_simp [Hbitseek.seg0, bitnum_int, hbad', hnb, hnb']
  · have hnb' : ¬ (byte_offset < rec_block_offset ∨ rec_block_offset + 4096 ≤ byte_offset) := hnb
    sk_simp [Hbitseek.seg0, bitnum_int, hbad', hnb, hnb']

theorem sk_seg_done (fuel : Nat) (s : Hbitseek.St) (h : s.done = true) : Hbitseek.seg1 fuel s = s ∧ Hbitseek.seg2 fuel s = s := by
  refine ⟨?_, ?_⟩
  · simp only [Hbitseek.seg1, h, if_true]
  · simp only [Hbitseek.seg2, h, if_true]

/-- segment 1 of `Hbitseek` in read mode: nothing to flush -/
theorem sk_seg1_r (fuel : Nat) (s : Hbitseek.St) (hm : s.rec_mode ≠ 119) : Hbitseek.seg1 fuel s = s := by
  cases hd : s.done <;> simp only [Hbitseek.seg1, hd, hm, Bool.false_eq_true, if_false, if_true]

/-- segment 1 of `Hbitseek` in write mode: `HIbitflush(rec, -1, new_block)` (the translated variant `HIbitflush_m`) on the same record -/
theorem sk_seg1_w (fuel : Nat) (s : Hbitseek.St) (hdone : s.done = false) (hm : s.rec_mode = 119) (acc : Int) :
    let S := HIbitflush_m fuel s.rec_count s.rec_byte_offset s.rec_max_offset s.rec_bytea s.rec_bytep s.rec_bits s.rec_bytez
      s.rec_block_offset (-1) s.new_block s.io_elt s.io_epos s.io_enew
    let s' := Hbitseek.seg1 fuel s
    s'.ub = (s.ub || S.ub) ∧ s'.oof = (s.oof || S.oof) ∧ s'.byte_offset = s.byte_offset ∧ s'.bit_offset = s.bit_offset ∧
      s'.new_block = s.new_block ∧ (S.ret ≠ -1 → s'.done = false ∧ s'.ret = s.ret) ∧
      skRec s' acc = { skRec s acc with count := S.rec_count, byteOff := S.rec_byte_offset, maxOff := S.rec_max_offset,
                                        bytea := S.rec_bytea, bytep := S.rec_bytep, bits := S.rec_bits, elt := S.io_elt,
                                        epos := S.io_epos, enew := S.io_enew } := by
  obtain ⟨bitid, byte_offset, bit_offset, seek_pos, read_size, n, new_block, rec_max_offset, rec_block_offset, rec_mode, rec_count, rec_byte_offset, rec_bytep, rec_bits, rec_bytez, io_epos, io_enew, rec_buf_read, rec_null, rec_bytea, io_elt, ub, oof, ret, done⟩ := s
  simp only at hdone hm
  subst hdone hm
  intro S
  by_cases hr : S.ret = -1
  · have hr' := hr
    simp only [S] at hr'
    sk_simp [Hbitseek.seg1, skRec, hr, hr', S]
  · have hr' := hr
    simp only [S] at hr'
    sk_simp [Hbitseek.seg1, skRec, hr, hr', S]

/-- `maskc[bit_offset] << count` with `count = BITNUM - bit_offset`, as the translator writes it -/
def seekMaskC (b : Int) : Int := Int.ofNat ((H4.Gen.Hbitio.maskc).getD (Int.toNat b) 0) * 2 ^ Int.toNat (8 - b)
theorem seekMaskC_fold (b : Int) : Int.ofNat ((H4.Gen.Hbitio.maskc).getD (Int.toNat b) 0) * 2 ^ Int.toNat (8 - b) = seekMaskC b := rfl

theorem seekMaskC_nonneg (b : Int) : (0 ≤ seekMaskC b) = True := by
  simp only [eq_iff_iff, iff_true]
  unfold seekMaskC
  exact Int.mul_nonneg (by simp only [Int.ofNat_eq_natCast]; omega) (Int.pow_nonneg (by omega))

/-- the "another block" part of `Hbitseek`: `Hseek` to the block that holds `byte_offset`, `Hread` of it (`none` = the read failed),
    cursors and `block_offset` reset; when writing the whole buffer is the window and the element position returns to the block start -/
def fSeekBlock (r : CRec) (B : Int) : Option CRec :=
  let sp := Int.tdiv B 4096 * 4096
  let rs := rdSize r.maxOff sp
  if r.enew = 0 then
    let k := kRead r.elt.length sp rs
    some { r with bytea := (r.elt.drop sp.toNat).take k.toNat ++ r.bytea.drop k.toNat, bytep := 0,
                  bytez := if r.mode = 119 then 4096 else k, bufRead := k, blockOff := sp, epos := if r.mode = 119 then sp else sp + k }
  else none

/-- the positioning part of `Hbitseek`: `byte_offset`, the cursor, and the bit buffer for a position inside a byte -/
def fSeekPos (r : CRec) (B b : Int) : CRec :=
  let r1 : CRec := { r with byteOff := B, bytep := B - r.blockOff }
  if b > 0 then
    if r1.mode = 119 then
      { r1 with count := 8 - b,
                bits := Int.ofNat (Int.toNat (r1.bytea.getD r1.bytep.toNat 0) &&& Int.toNat (seekMaskC b)) % 256 }
    else { r1 with count := 8 - b, bits := r1.bytea.getD r1.bytep.toNat 0, bytep := r1.bytep + 1 }
  else if r1.mode = 119 then { r1 with count := 8, bits := 0 } else { r1 with count := 0 }

theorem tdiv_block (B : Int) (h : 0 ≤ B) : 0 ≤ Int.tdiv B 4096 * 4096 ∧ Int.tdiv B 4096 * 4096 ≤ B ∧ B - Int.tdiv B 4096 * 4096 < 4096 := by
  rw [Int.tdiv_eq_ediv_of_nonneg h]; omega

/-- segment 2 of `Hbitseek` -/
theorem sk_seg2 (fuel : Nat) (s : Hbitseek.St) (acc : Int) (hub : s.ub = false) (hdone : s.done = false)
    (hnb : s.new_block = 0 ∨ s.new_block = 1) (hB : 0 ≤ s.byte_offset) (hb : 0 ≤ s.bit_offset ∧ s.bit_offset ≤ 7)
    (hl : s.rec_bytea.length = 4096) (he : 0 ≤ s.io_epos) (hmax : s.byte_offset ≤ s.rec_max_offset)
    (hpos : s.new_block = 0 → 0 ≤ s.byte_offset - s.rec_block_offset ∧ s.byte_offset - s.rec_block_offset < 4096)
    (hk : s.new_block = 1 → kRead s.io_elt.length (Int.tdiv s.byte_offset 4096 * 4096)
      (rdSize s.rec_max_offset (Int.tdiv s.byte_offset 4096 * 4096)) ≤ 4096)
    (hA : ∀ x ∈ s.rec_bytea, 0 ≤ x) (hE : ∀ x ∈ s.io_elt, 0 ≤ x) :
    let s' := Hbitseek.seg2 fuel s
    let r1 := if s.new_block = 1 then fSeekBlock (skRec s acc) s.byte_offset else some (skRec s acc)
    s'.ub = false ∧ s'.oof = s.oof ∧ s'.done = true ∧
    (r1 = none → s'.ret = -1) ∧
    (∀ q, r1 = some q → s'.ret = 0 ∧ skRec s' acc = fSeekPos q s.byte_offset s.bit_offset) := by
  obtain ⟨bitid, byte_offset, bit_offset, seek_pos, read_size, n, new_block, rec_max_offset, rec_block_offset, rec_mode, rec_count, rec_byte_offset, rec_bytep, rec_bits, rec_bytez, io_epos, io_enew, rec_buf_read, rec_null, rec_bytea, io_elt, ub, oof, ret, done⟩ := s
  simp only at hub hdone hnb hB hb hl he hmax hpos hk hA hE
  subst hub hdone
  obtain ⟨hb1, hb2⟩ := hb
  have hl' : (rec_bytea.length : Int) = 4096 := by omega
  obtain ⟨ht1, ht2, ht3⟩ := tdiv_block byte_offset hB
  have h8a : (0 : Int) ≤ 8 - bit_offset := by omega
  have h8b : 8 - bit_offset < 32 := by omega
  rcases hnb with hnb | hnb
  · -- the position is inside the buffered block
    subst hnb
    obtain ⟨hp1, hp2⟩ := hpos rfl
    have hx := getD_nonneg_of_all _ hA (byte_offset - rec_block_offset).toNat
    have h01 : ((0 : Int) = 1) = False := by decide
    by_cases hbp : bit_offset > 0
    · by_cases hm : rec_mode = 119
      · sk_simp [Hbitseek.seg2, bitnum_int, seekMaskC_fold, fSeekPos, skRec, h01, hbp, hm, reduceCtorEq, Option.some.injEq, forall_eq']
        c2l_ub [hl', hx, seekMaskC_nonneg]
      · sk_simp [Hbitseek.seg2, bitnum_int, seekMaskC_fold, fSeekPos, skRec, h01, hbp, hm, reduceCtorEq, Option.some.injEq, forall_eq']
        c2l_ub [hl', hx]
    · by_cases hm : rec_mode = 119
      · sk_simp [Hbitseek.seg2, bitnum_int, seekMaskC_fold, fSeekPos, skRec, h01, hbp, hm, reduceCtorEq, Option.some.injEq, forall_eq',
          Int.zero_emod]
      · sk_simp [Hbitseek.seg2, bitnum_int, seekMaskC_fold, fSeekPos, skRec, h01, hbp, hm, reduceCtorEq, Option.some.injEq, forall_eq']
  · -- another block is loaded first
    subst hnb
    have hk' := hk rfl
    have hsp : (0 ≤ Int.tdiv byte_offset 4096 * 4096) = True := by simp only [eq_iff_iff, iff_true]; exact ht1
    have hrs0 : (0 ≤ rdSize rec_max_offset (Int.tdiv byte_offset 4096 * 4096)) = True := by
      simp only [eq_iff_iff, iff_true]; unfold rdSize; split <;> omega
    by_cases hnew : io_enew = 0
    · have hrs0' : 0 ≤ rdSize rec_max_offset (Int.tdiv byte_offset 4096 * 4096) := by unfold rdSize; split <;> omega
      generalize hspd : Int.tdiv byte_offset 4096 * 4096 = sp at *
      generalize hrsd : rdSize rec_max_offset sp = rs at *
      have hkb : 0 ≤ kRead io_elt.length sp rs ∧ (kRead io_elt.length sp rs ≤ io_elt.length - sp ∨ kRead io_elt.length sp rs = 0) := by
        unfold kRead; simp only [Int.ofNat_eq_natCast]; split <;> omega
      generalize hkd : kRead io_elt.length sp rs = k at *
      have hkn : (k = -1) = False := by simp only [eq_iff_iff, iff_false]; omega
      have hA' := all_nonneg_read rec_bytea io_elt hA hE sp.toNat k.toNat
      have hx := getD_nonneg_of_all _ hA' (byte_offset - sp).toNat
      have hlen : ((List.take k.toNat (List.drop sp.toNat io_elt) ++ List.drop k.toNat rec_bytea).length : Int) = 4096 := by
        simp only [List.length_append, List.length_take, List.length_drop]; omega
      by_cases hbp : bit_offset > 0
      · by_cases hm : rec_mode = 119
        · sk_simp [Hbitseek.seg2, bitnum_int, seekMaskC_fold, kRead_fold, rdSize_fold, hspd, hrsd, hkd, fSeekBlock, fSeekPos, skRec, hnew, hsp,
            reduceCtorEq, hkn, hbp, hm, Option.some.injEq, forall_eq']
          c2l_ub [hl', hrs0, hlen, hx, seekMaskC_nonneg]
        · sk_simp [Hbitseek.seg2, bitnum_int, seekMaskC_fold, kRead_fold, rdSize_fold, hspd, hrsd, hkd, fSeekBlock, fSeekPos, skRec, hnew, hsp,
            reduceCtorEq, hkn, hbp, hm, Option.some.injEq, forall_eq']
          c2l_ub [hl', hrs0, hlen, hx]
      · by_cases hm : rec_mode = 119
        · sk_simp [Hbitseek.seg2, bitnum_int, seekMaskC_fold, kRead_fold, rdSize_fold, hspd, hrsd, hkd, fSeekBlock, fSeekPos, skRec, hnew, hsp,
            reduceCtorEq, hkn, hbp, hm, Option.some.injEq, forall_eq', Int.zero_emod]
          c2l_ub [hl', hrs0, hlen]
        · sk_simp [Hbitseek.seg2, bitnum_int, seekMaskC_fold, kRead_fold, rdSize_fold, hspd, hrsd, hkd, fSeekBlock, fSeekPos, skRec, hnew, hsp,
            reduceCtorEq, hkn, hbp, hm, Option.some.injEq, forall_eq']
          c2l_ub [hl', hrs0, hlen]
    · sk_simp [Hbitseek.seg2, bitnum_int, seekMaskC_fold, kRead_fold, rdSize_fold, fSeekBlock, fSeekPos, skRec, hnew, hsp, reduceCtorEq, hrs0]

/-! ### the model's `bitseek` in two steps -/

/-- the "another block" step of the model's `bitseek` -/
def mSeekBlock (s : St) (seekPos : Nat) : Option St :=
  let s := hSeek s seekPos
  match hRead s (min (s.maxOff - seekPos) BITBUF_SIZE) with
  | none => none
  | some (d, s) =>
    let bz := if s.wMode then BITBUF_SIZE else d.length
    let s := { ((s.load d).setPtr 0) with bytez := bz, bufRead := d.length, blockOff := seekPos }
    some (if s.wMode then hSeek s seekPos else s)

/-- the positioning step of the model's `bitseek` -/
def mSeekPos (s : St) (byteOffset bitOffset : Nat) : St :=
  let s := { s with byteOff := byteOffset }
  let s := s.setPtr (byteOffset - s.blockOff)
  if bitOffset > 0 then
    let s := { s with count := BITNUM - bitOffset }
    if s.wMode then
      let (x, s) := s.peek
      { s with bits := x.toNat &&& ((maskC bitOffset <<< s.count) % 256) }
    else
      let (x, s) := s.peek
      { s.adv with bits := x.toNat }
  else
    if s.wMode then { s with count := BITNUM, bits := 0 } else { s with count := 0 }

/-- the end of the model's `bitseek`, with its text -/
def mSeekTail (r : Option St) (s : St) (byteOffset bitOffset : Nat) : St × Bool :=
  match r with
  | none => ({ s with err := true }, false)
  | some s =>
    let s := { s with byteOff := byteOffset }
    let s := s.setPtr (byteOffset - s.blockOff)
    if bitOffset > 0 then
      let s := { s with count := BITNUM - bitOffset }
      if s.wMode then
        let (x, s) := s.peek
        ({ s with bits := x.toNat &&& ((maskC bitOffset <<< s.count) % 256) }, true)
      else
        let (x, s) := s.peek
        ({ s.adv with bits := x.toNat }, true)
    else
      if s.wMode then ({ s with count := BITNUM, bits := 0 }, true)
      else ({ s with count := 0 }, true)

theorem bitseek_eq (s : St) (B b : Nat) :
    bitseek s B b =
      (if b > BITNUM - 1 ∨ B > s.maxOff then (s, false)
       else
         let newBlock := B < s.blockOff ∨ B ≥ s.blockOff + BITBUF_SIZE
         let s1 := if s.wMode then bitflush s none newBlock else s
         mSeekTail (if newBlock then mSeekBlock s1 ((B / BITBUF_SIZE) * BITBUF_SIZE) else some s1) s1 B b) := rfl

theorem mSeekTail_some (q s1 : St) (B b : Nat) : mSeekTail (some q) s1 B b = (mSeekPos q B b, true) := by
  unfold mSeekTail mSeekPos
  simp only
  split
  · split <;> rfl
  · split <;> rfl

theorem and_mod_256 (x M : Nat) (hx : x < 256) : x &&& M = x &&& (M % 256) := by
  have h1 : x &&& 255 = x := by
    have := Nat.and_two_pow_sub_one_of_lt_two_pow (n := 8) (x := x) (by omega)
    simpa using this
  have h2 : M % 256 = M &&& 255 := by
    have := Nat.and_two_pow_sub_one_eq_mod M 8
    simpa using this.symm
  rw [h2, ← Nat.and_assoc, Nat.and_comm x M, Nat.and_assoc, h1]

theorem seekMaskC_nat (b : Nat) (hb : b ≤ 8) : seekMaskC (b : Int) = ((maskC b <<< (BITNUM - b) : Nat) : Int) := by
  have e : Int.toNat (8 - (b : Int)) = 8 - b := by omega
  unfold seekMaskC maskC
  rw [e, Nat.shiftLeft_eq]
  simp [consts]

theorem seek_bits (x b : Nat) (hx : x < 256) (hb : b ≤ 8) :
    Int.ofNat (x &&& Int.toNat (seekMaskC (b : Int))) % 256 = ((x &&& ((maskC b <<< (8 - b)) % 256) : Nat) : Int) := by
  rw [seekMaskC_nat b hb]
  simp only [Int.toNat_natCast, Int.ofNat_eq_natCast, consts]
  rw [← and_mod_256 x _ hx]
  have : x &&& maskC b <<< (8 - b) < 256 := and_le_255 _ _ hx
  omega

theorem ints_getD' (l : List Byte) (i : Nat) (h : i < l.length) : (ints l).getD i 0 = ((l[i]).toNat : Int) := ints_getD l i h

/-- the model's positioning step on the C view -/
theorem mSeekPos_toC {q : St} (h : Rep q) (B b : Nat) (hB : q.blockOff ≤ B) (hp : B - q.blockOff < 4096) (hb : b ≤ 7) :
    (mSeekPos q B b).toC = fSeekPos q.toC B b ∧ Rep (mSeekPos q B b) ∧ (mSeekPos q B b).wMode = q.wMode ∧
      (mSeekPos q B b).wAccess = q.wAccess ∧ (mSeekPos q B b).bytez = q.bytez ∧
      (mSeekPos q B b).bytep = B - q.blockOff + (if b > 0 ∧ q.wMode = false then 1 else 0) ∧
      (q.wMode = true → 1 ≤ (mSeekPos q B b).count) ∧ (mSeekPos q B b).elem = q.elem ∧ (mSeekPos q B b).maxOff = q.maxOff ∧
      (mSeekPos q B b).blockOff = q.blockOff ∧ (b > 0 → (mSeekPos q B b).count = 8 - b) := by
  obtain ⟨h1, h2, h3, h4, h5, h7, h9⟩ := h
  obtain ⟨elem, posn, isNew, wAccess, wMode, blockOff, maxOff, byteOff, count, bufRead, bits, pre, post, bytep, bytez, oob, err⟩ := q
  simp only at h1 h2 h3 h4 h5 h7 h9 hB hp
  subst h1 h2 h3
  have hbuf : (pre.reverse ++ post).length = 4096 := by simp; omega
  have hsub : ((B : Int) - (blockOff : Int)) = ((B - blockOff : Nat) : Int) := by omega
  generalize hP : B - blockOff = p at *
  have hpl : p < (pre.reverse ++ post).length := by omega
  have hdrop : List.drop p (pre.reverse ++ post) = (pre.reverse ++ post)[p] :: List.drop (p + 1) (pre.reverse ++ post) :=
    List.drop_eq_getElem_cons hpl
  have hget : (ints (pre.reverse ++ post)).getD p 0 = (((pre.reverse ++ post)[p]).toNat : Int) := ints_getD _ _ hpl
  have hx := UInt8.toNat_lt ((pre.reverse ++ post)[p])
  have htl : (List.take p (pre.reverse ++ post)).length = p := by rw [List.length_take]; omega
  have hbufeq : List.take p (pre.reverse ++ post) ++ (pre.reverse ++ post)[p] :: List.drop (p + 1) (pre.reverse ++ post) =
      pre.reverse ++ post := by rw [← hdrop, List.take_append_drop]
  by_cases hbp : b > 0
  · have hbp' : (b : Int) > 0 := by omega
    cases wMode with
    | true =>
      have hm : modeChar true = 119 := rfl
      simp only [mSeekPos, St.setPtr, St.buf, hP, hbp, if_true, St.peek, hdrop, St.toC, fSeekPos, hsub, hbp', hm, Int.toNat_natCast,
        List.reverse_reverse, List.take_append_drop, hget, consts, hbufeq, seek_bits _ _ hx (by omega : b ≤ 8)]
      refine ⟨?_, ⟨rfl, rfl, by simp only [List.length_reverse, htl], by simp only [List.length_reverse, htl, List.length_cons, List.length_drop, hbuf]; omega,
        h5, by simp only; omega, and_le_255 _ _ (by omega)⟩, ?_⟩
      · congr 1; omega
      · simp [hbp]; omega
    | false =>
      have hm : ¬ (modeChar false = 119) := by decide
      simp only [mSeekPos, St.setPtr, St.buf, hP, hbp, if_true, St.peek, hdrop, St.adv, St.toC, fSeekPos, hsub, hbp', hm, if_false,
        Int.toNat_natCast, List.reverse_reverse, List.take_append_drop, hget, consts, Bool.false_eq_true, List.reverse_cons,
        List.append_assoc, List.singleton_append, hbufeq]
      refine ⟨?_, ⟨rfl, rfl, by simp [htl], by simp [htl, hbuf]; omega, h5, by simp only; omega, by simp only; omega⟩, ?_⟩
      · simp only [Int.natCast_add, Int.natCast_one]; congr 1; omega
      · simp [hbp]
  · have hb0 : b = 0 := by omega
    subst hb0
    have hbp' : ¬ ((0 : Int) > 0) := by omega
    cases wMode with
    | true =>
      have hm : modeChar true = 119 := rfl
      simp only [mSeekPos, St.setPtr, St.buf, hP, Nat.lt_irrefl, if_false, if_true, St.toC, fSeekPos, hsub, hm, Int.natCast_zero, hbp',
        List.reverse_reverse, List.take_append_drop, consts]
      refine ⟨?_, ⟨rfl, rfl, by simp only [List.length_reverse, htl], by simp only [List.length_reverse, htl, List.length_drop, hbuf]; omega,
        h5, by simp only; omega, by simp only; omega⟩, ?_⟩
      · rfl
      · simp
    | false =>
      have hm : ¬ (modeChar false = 119) := by decide
      simp only [mSeekPos, St.setPtr, St.buf, hP, Nat.lt_irrefl, if_false, St.toC, fSeekPos, hsub, hm, Int.natCast_zero, hbp',
        List.reverse_reverse, List.take_append_drop, Bool.false_eq_true]
      refine ⟨?_, ⟨rfl, rfl, by simp only [List.length_reverse, htl], by simp only [List.length_reverse, htl, List.length_drop, hbuf]; omega,
        h5, by simp only; omega, h9⟩, ?_⟩
      · trivial
      · simp

theorem tdiv_nat_block (B : Nat) : Int.tdiv (B : Int) 4096 * 4096 = ((B / 4096 * 4096 : Nat) : Int) := by
  rw [Int.tdiv_eq_ediv_of_nonneg (by omega)]; simp

theorem rdSize_nat' (mx off : Nat) (h : off ≤ mx) : rdSize (mx : Int) (off : Int) = ((min (mx - off) 4096 : Nat) : Int) := by
  unfold rdSize; split <;> omega

/-- what `Hread` delivers when `Hbitseek` loads another block fits the buffer, provided the element is not more than a buffer longer
    than `max_offset` says (`Hread` with a length of 0 - the block starts exactly at `max_offset` - reads to the END of the element) -/
theorem seek_fit (len mx sp : Nat) (hsp : sp ≤ mx) (hfit : len ≤ mx + 4096) :
    kRead (len : Int) (sp : Int) (rdSize (mx : Int) (sp : Int)) ≤ 4096 := by
  rw [rdSize_nat' mx sp hsp, kRead_nat]
  split <;> omega

theorem hRead_some (s : St) (hn : s.isNew = false) (len : Nat) :
    ∃ n, hRead s len = some ((s.elem.drop s.posn).take n, { s with posn := s.posn + n }) ∧
      n = (if len = 0 ∨ len + s.posn > s.elem.length then s.elem.length - s.posn else len) ∧
      ((s.elem.drop s.posn).take n).length = n := by
  refine ⟨_, ?_, rfl, ?_⟩
  · simp only [hRead, hn, Bool.false_eq_true, if_false]
  · simp only [List.length_take, List.length_drop]
    split <;> omega

/-- the model's "another block" step on the C view -/
theorem mSeekBlock_toC {s1 : St} (h : Rep s1) (B : Nat) (hmax : B ≤ s1.maxOff) (hfit : s1.elem.length ≤ s1.maxOff + 4096) :
    (mSeekBlock s1 (B / 4096 * 4096)).map St.toC = fSeekBlock s1.toC B ∧
    ∀ q, mSeekBlock s1 (B / 4096 * 4096) = some q → Rep q ∧ q.blockOff = B / 4096 * 4096 ∧ q.wMode = s1.wMode ∧
      q.wAccess = s1.wAccess ∧ q.maxOff = s1.maxOff ∧ q.elem = s1.elem ∧ (q.wMode = true → q.bytez = 4096) ∧
      (q.wMode = false → q.bytez = q.bufRead) := by
  obtain ⟨h1, h2, h3, h4, h5, h7, h9⟩ := h
  obtain ⟨elem, posn, isNew, wAccess, wMode, blockOff, maxOff, byteOff, count, bufRead, bits, pre, post, bytep, bytez, oob, err⟩ := s1
  simp only at h1 h2 h3 h4 h5 h7 h9 hmax hfit
  subst h1 h2 h3
  have hsp : B / 4096 * 4096 ≤ B := Nat.div_mul_le_self B 4096
  generalize hspd : B / 4096 * 4096 = sp at *
  have hbuf : (pre.reverse ++ post).length = 4096 := by simp; omega
  cases isNew with
  | true =>
    simp only [mSeekBlock, hSeek, hRead, if_true, Option.map_none, fSeekBlock, St.toC, tdiv_nat_block, hspd]
    refine ⟨by simp, ?_⟩
    intro q hq; cases hq
  | false =>
    obtain ⟨N, hr, hN, hlen⟩ := hRead_some
      (hSeek (St.mk elem posn false wAccess wMode blockOff maxOff byteOff count bufRead bits pre post pre.length bytez false false) sp) rfl
      (min ((hSeek (St.mk elem posn false wAccess wMode blockOff maxOff byteOff count bufRead bits pre post pre.length bytez false false) sp).maxOff - sp)
        BITBUF_SIZE)
    simp only [hSeek] at hN hlen
    have hkk : kRead (↑(ints elem).length) (↑sp) (rdSize (↑maxOff) (↑sp)) = (N : Int) := by
      rw [ints_length, rdSize_nat' maxOff sp (by omega), kRead_nat, hN]; simp only [consts]
    have hNle : N ≤ elem.length - sp ∧ N ≤ 4096 := by rw [hN]; simp only [consts]; split <;> omega
    cases wMode with
    | true =>
      have hm : modeChar true = 119 := rfl
      simp only [mSeekBlock]
      rw [hr]
      simp only [hSeek, hlen, if_true, Option.map_some, fSeekBlock, St.toC,
        tdiv_nat_block, hspd, hkk, hm, St.setPtr, St.load, St.buf, List.reverse_reverse, List.take_append_drop, List.take_zero,
        List.drop_zero, List.reverse_nil, List.nil_append, Int.toNat_natCast, ints_append, ints_take, ints_drop, Int.natCast_zero, consts]
      refine ⟨by simp, ?_⟩
      intro q hq
      cases hq
      exact ⟨⟨rfl, rfl, rfl, by simp [hlen, hbuf]; omega, by simp, h7, h9⟩, rfl, rfl, rfl, rfl, rfl, fun _ => rfl, fun h => Bool.noConfusion h⟩
    | false =>
      have hm : ¬ (modeChar false = 119) := by decide
      simp only [mSeekBlock]
      rw [hr]
      simp only [hSeek, hlen, Bool.false_eq_true, if_false, Option.map_some, fSeekBlock, St.toC,
        tdiv_nat_block, hspd, hkk, hm, St.setPtr, St.load, St.buf, List.reverse_reverse, List.take_append_drop, List.take_zero,
        List.drop_zero, List.reverse_nil, List.nil_append, Int.toNat_natCast, ints_append, ints_take, ints_drop, Int.natCast_zero, consts,
        Int.natCast_add]
      refine ⟨by simp, ?_⟩
      intro q hq
      cases hq
      exact ⟨⟨rfl, rfl, rfl, by simp [hlen, hbuf]; omega, by simp only; omega, h7, h9⟩, rfl, rfl, rfl, rfl, rfl, fun h => Bool.noConfusion h, fun _ => rfl⟩

theorem mMerge_geom (m : St) : m.maxOff ≤ (mMerge m).maxOff ∧ (mMerge m).blockOff = m.blockOff ∧ (mMerge m).elem = m.elem := by
  obtain ⟨elem, posn, isNew, wAccess, wMode, blockOff, maxOff, byteOff, count, bufRead, bits, pre, post, bytep, bytez, oob, err⟩ := m
  cases post with
  | nil =>
    simp only [mMerge, St.peek, St.store, St.adv]
    by_cases h : byteOff + 1 > maxOff
    · simp only [h, if_true, and_self, and_true]; omega
    · simp only [h, if_false, and_self, and_true, Nat.le_refl]
  | cons x t =>
    simp only [mMerge, St.peek, St.store, St.adv]
    by_cases h : byteOff + 1 > maxOff
    · simp only [h, if_true, and_self, and_true]; omega
    · simp only [h, if_false, and_self, and_true, Nat.le_refl]

theorem mWriteout_geom (m : St) (wo : Bool) : (mWriteout m wo).maxOff = m.maxOff ∧ (mWriteout m wo).blockOff = m.blockOff := by
  unfold mWriteout
  cases wo with
  | false => exact ⟨rfl, rfl⟩
  | true =>
    simp only [if_true]
    split <;> exact ⟨rfl, rfl⟩

/-- `HIbitflush(rec, -1, writeout)` of the model (`bitflush m none wo`) on the C view, in write mode -/
theorem bitflush_none_toC {m : St} (hinv : Inv m) (hw : m.wMode = true) (wo : Bool) :
    (bitflush m none wo).toC = (if wo then fWriteout (if m.toC.count < 8 then fMerge m.toC else m.toC)
                                else (if m.toC.count < 8 then fMerge m.toC else m.toC)) ∧
    Rep (bitflush m none wo) ∧ (bitflush m none wo).wMode = true ∧ (bitflush m none wo).wAccess = m.wAccess ∧
    (bitflush m none wo).bytez = m.bytez ∧ m.maxOff ≤ (bitflush m none wo).maxOff ∧ (bitflush m none wo).blockOff = m.blockOff := by
  rw [bitflush_eq]
  have hcond : ¬ (m.byteOff ≥ m.maxOff ∧ (none : Option Bool).isSome = true) := by simp
  by_cases hc8 : m.count < 8
  · have hc : m.count < BITNUM := by simpa [consts] using hc8
    have hcI : m.toC.count < 8 := by show (m.count : Int) < 8; omega
    have hplt : m.bytep < 4096 := by have := hinv.wlt hw; have := hinv.zle; omega
    obtain ⟨w1, w2, w3, w4, w5, w6⟩ := mMerge_toC hinv.rep hplt hc8
    obtain ⟨g1, g2, g3⟩ := mMerge_geom m
    obtain ⟨v1, v2, v3, v4, v5, v6, v7⟩ := mWriteout_toC w2 wo
    obtain ⟨z1, z2⟩ := mWriteout_geom (mMerge m) wo
    rw [if_pos hc, if_neg hcond, if_pos hcI, v1, w1]
    exact ⟨rfl, v2, v3.trans (w3.trans hw), v4.trans w4, v5.trans w5, by rw [z1]; exact g1, z2.trans g2⟩
  · have hc : ¬ (m.count < BITNUM) := by simpa [consts] using hc8
    have hcI : ¬ (m.toC.count < 8) := by show ¬ ((m.count : Int) < 8); omega
    obtain ⟨v1, v2, v3, v4, v5, v6, v7⟩ := mWriteout_toC hinv.rep wo
    obtain ⟨z1, z2⟩ := mWriteout_geom m wo
    rw [if_neg hc, if_neg hcI, v1]
    exact ⟨rfl, v2, v3.trans hw, v4, v5, by rw [z1]; exact Nat.le_refl _, z2⟩

/-! ## `Hbitseek` -/

/-- the state in which the translated `Hbitseek` starts on the record `r` -/
def skInit (r : CRec) (B b : Int) : Hbitseek.St :=
  { bitid := bitId, byte_offset := B, bit_offset := b, rec_null := false, rec_max_offset := r.maxOff, rec_block_offset := r.blockOff,
    rec_mode := r.mode, rec_count := r.count, rec_byte_offset := r.byteOff, rec_bytea := r.bytea, rec_bytep := r.bytep, rec_bits := r.bits,
    rec_bytez := r.bytez, io_elt := r.elt, io_epos := r.epos, io_enew := r.enew, rec_buf_read := r.bufRead }

theorem cBitseek_eq (fuel : Nat) (r : CRec) (B b : Int) :
    cBitseek fuel r B b =
      (let s := Hbitseek.seg2 fuel (Hbitseek.seg1 fuel (Hbitseek.seg0 fuel (skInit r B b)))
       { crec := skRec s r.access, ret := s.ret, ub := s.ub, oof := s.oof }) := rfl

/-- the model state `Hbitseek` works on after its flush: in write mode `HIbitflush(rec, -1, new_block)` has run -/
def seekPre (m : St) (B : Nat) : St :=
  if m.wMode then bitflush m none (decide (B < m.blockOff ∨ B ≥ m.blockOff + BITBUF_SIZE)) else m

theorem fWriteout_bz (r : CRec) : (fWriteout r).bytez = r.bytez ∧ (fWriteout r).blockOff = r.blockOff := by
  unfold fWriteout
  simp only
  split <;> split <;> exact ⟨rfl, rfl⟩

theorem flat_flush_bz (r : CRec) (wo : Int) :
    (if wo = 1 then fWriteout (if r.count < 8 then fMerge r else r) else (if r.count < 8 then fMerge r else r)).bytez = r.bytez ∧
    (if wo = 1 then fWriteout (if r.count < 8 then fMerge r else r) else (if r.count < 8 then fMerge r else r)).blockOff = r.blockOff := by
  by_cases h1 : wo = 1 <;> by_cases h2 : r.count < 8 <;> simp only [h1, h2, if_true, if_false]
  · exact ⟨(fWriteout_bz _).1.trans rfl, (fWriteout_bz _).2.trans rfl⟩
  · exact fWriteout_bz _
  · exact ⟨rfl, rfl⟩
  · simp

/-- segments 1 and 2 of `Hbitseek` (good arguments, `new_block` decided) against the rest of the model's `bitseek` -/
theorem sk_rest (m : St) (hrep : Rep m) (hwi : m.wMode = true → Inv m) (B b : Nat) (hb7 : b ≤ 7) (hBm : B ≤ m.maxOff) (nb : Bool)
    (hnb : nb = true ↔ (B < m.blockOff ∨ B ≥ m.blockOff + 4096))
    (hfit : nb = true → (if m.wMode then bitflush m none nb else m).elem.length ≤ (if m.wMode then bitflush m none nb else m).maxOff + 4096)
    (fuel : Nat) :
    let S0 : Hbitseek.St := { skInit m.toC B b with new_block := if nb then 1 else 0 }
    let s := Hbitseek.seg2 fuel (Hbitseek.seg1 fuel S0)
    let m1 := if m.wMode then bitflush m none nb else m
    let r := mSeekTail (if nb then mSeekBlock m1 (B / BITBUF_SIZE * BITBUF_SIZE) else some m1) m1 B b
    s.ub = false ∧ s.oof = false ∧ s.ret = (if r.2 then 0 else -1) ∧
    (r.2 = true → skRec s m.toC.access = r.1.toC ∧ Rep r.1 ∧ r.1.wMode = m.wMode ∧ r.1.wAccess = m.wAccess ∧
      (m.wMode = true → Inv r.1) ∧ r.1.bytep ≤ 4096 ∧ r.1.bytep - (if b > 0 ∧ m.wMode = false then 1 else 0) < 4096 ∧
      (b > 0 ∧ m.wMode = false → 1 ≤ r.1.bytep) ∧ (b > 0 → r.1.count = 8 - b)) := by
  intro S0 s m1 r
  -- the flush step
  have hflush : (Hbitseek.seg1 fuel S0).ub = false ∧ (Hbitseek.seg1 fuel S0).oof = false ∧ (Hbitseek.seg1 fuel S0).done = false ∧
      (Hbitseek.seg1 fuel S0).byte_offset = B ∧ (Hbitseek.seg1 fuel S0).bit_offset = b ∧
      (Hbitseek.seg1 fuel S0).new_block = (if nb then 1 else 0) ∧ skRec (Hbitseek.seg1 fuel S0) m.toC.access = m1.toC ∧ Rep m1 ∧
      m1.wMode = m.wMode ∧ m1.wAccess = m.wAccess ∧ m1.bytez = m.bytez ∧ m.maxOff ≤ m1.maxOff ∧ m1.blockOff = m.blockOff := by
    cases hw : m.wMode with
    | false =>
      have hm : S0.rec_mode ≠ 119 := by show modeChar m.wMode ≠ 119; rw [hw]; decide
      have hm1 : m1 = m := by simp only [m1, hw, Bool.false_eq_true, if_false]
      rw [sk_seg1_r fuel S0 hm, hm1]
      exact ⟨rfl, rfl, rfl, rfl, rfl, rfl, rfl, hrep, hw, rfl, rfl, Nat.le_refl _, rfl⟩
    | true =>
      have hinv := hwi hw
      have hm : S0.rec_mode = 119 := by show modeChar m.wMode = 119; rw [hw]; rfl
      have hm1 : m1 = bitflush m none nb := by simp only [m1, hw, if_true]
      obtain ⟨g1, g2, g3, g4, g5⟩ := toC_w_facts hinv hw
      have gc : (0 : Int) ≤ m.toC.count ∧ m.toC.count ≤ 8 := by have := hinv.cnt; simp only [St.toC]; omega
      have gb : (0 : Int) ≤ m.toC.bits := by simp only [St.toC]; omega
      have hfl := flm_main fuel m.toC (if nb then 1 else 0) gc g1 g2 g3 gb g4 (ints_getD_nonneg _ _)
      simp only at hfl
      obtain ⟨f1, f2, f3, f4⟩ := hfl
      have h1 := sk_seg1_w fuel S0 rfl hm m.toC.access
      simp only at h1
      obtain ⟨k1, k2, k3, k4, k5, k6, k7⟩ := h1
      obtain ⟨w1, w2, w3, w4, w5, w6, w7⟩ := bitflush_none_toC hinv hw nb
      have hret : (HIbitflush_m fuel S0.rec_count S0.rec_byte_offset S0.rec_max_offset S0.rec_bytea S0.rec_bytep S0.rec_bits S0.rec_bytez
          S0.rec_block_offset (-1) S0.new_block S0.io_elt S0.io_epos S0.io_enew).ret ≠ -1 := by
        show (HIbitflush_m fuel m.toC.count m.toC.byteOff m.toC.maxOff m.toC.bytea m.toC.bytep m.toC.bits m.toC.bytez m.toC.blockOff (-1)
          (if nb then 1 else 0) m.toC.elt m.toC.epos m.toC.enew).ret ≠ -1
        rw [f3]; decide
      obtain ⟨k6a, k6b⟩ := k6 hret
      have hwoI : ∀ x : CRec, (if (if nb then (1 : Int) else 0) = 1 then fWriteout x else x) = (if nb then fWriteout x else x) := by
        intro x; cases nb <;> simp
      rw [hm1]
      refine ⟨k1.trans ?_, k2.trans ?_, k6a, k3, k4, k5, ?_, w2, w3, w4, w5, w6, w7⟩
      · show (false || (HIbitflush_m fuel m.toC.count m.toC.byteOff m.toC.maxOff m.toC.bytea m.toC.bytep m.toC.bits m.toC.bytez
          m.toC.blockOff (-1) (if nb then 1 else 0) m.toC.elt m.toC.epos m.toC.enew).ub) = false
        rw [f1]; rfl
      · show (false || (HIbitflush_m fuel m.toC.count m.toC.byteOff m.toC.maxOff m.toC.bytea m.toC.bytep m.toC.bits m.toC.bytez
          m.toC.blockOff (-1) (if nb then 1 else 0) m.toC.elt m.toC.epos m.toC.enew).oof) = false
        rw [f2]; rfl
      · have hbz := flat_flush_bz m.toC (if nb then 1 else 0)
        rw [← f4] at hbz
        rw [k7, w1, ← hwoI, ← f4]
        simp only [flmRec, skRec, S0, skInit] at hbz ⊢
        rw [hbz.1, hbz.2]
  obtain ⟨u1, u2, u3, u4, u5, u6, u7, u8, u9, u10, u11, u12, u13⟩ := hflush
  have hs : s = Hbitseek.seg2 fuel (Hbitseek.seg1 fuel S0) := rfl
  generalize Hbitseek.seg1 fuel S0 = S1 at hs u1 u2 u3 u4 u5 u6 u7
  -- the fields of `S1` are those of the C view of `m1`
  have e_bytea : S1.rec_bytea = m1.toC.bytea := congrArg CRec.bytea u7
  have e_elt : S1.io_elt = m1.toC.elt := congrArg CRec.elt u7
  have e_epos : S1.io_epos = m1.toC.epos := congrArg CRec.epos u7
  have e_max : S1.rec_max_offset = m1.toC.maxOff := congrArg CRec.maxOff u7
  have e_blk : S1.rec_block_offset = m1.toC.blockOff := congrArg CRec.blockOff u7
  obtain ⟨g1, g2, g3, g4, g5, g6⟩ := toC_rep_facts u8
  have hsp : B / 4096 * 4096 ≤ B := Nat.div_mul_le_self B 4096
  have h2 := sk_seg2 fuel S1 m.toC.access u1 u3 (by rw [u6]; cases nb <;> simp) (by rw [u4]; omega) (by rw [u5]; omega)
    (by rw [e_bytea]; exact g1) (by rw [e_epos]; exact g3) (by rw [u4, e_max]; show (B : Int) ≤ (m1.maxOff : Int); omega)
    (by
      intro h0
      have hnf : nb = false := by
        cases nb with
        | false => rfl
        | true => rw [u6] at h0; simp at h0
      have hn : ¬ (B < m.blockOff ∨ B ≥ m.blockOff + 4096) := fun h => by rw [hnb.mpr h] at hnf; cases hnf
      rw [u4, e_blk]
      show (0 : Int) ≤ (B : Int) - (m1.blockOff : Int) ∧ (B : Int) - (m1.blockOff : Int) < 4096
      rw [u13]; omega)
    (by
      intro h1
      have hnt : nb = true := by
        cases nb with
        | true => rfl
        | false => rw [u6] at h1; simp at h1
      rw [u4, e_elt, e_max, tdiv_nat_block]
      show kRead ((ints m1.elem).length : Int) _ (rdSize (m1.maxOff : Int) _) ≤ 4096
      rw [ints_length]
      exact seek_fit _ _ _ (by omega) (hfit hnt))
    (by rw [e_bytea]; exact ints_nonneg _) (by rw [e_elt]; exact ints_nonneg _)
  simp only at h2
  rw [← hs] at h2
  obtain ⟨c1, c2, c3, c4, c5⟩ := h2
  rw [u7, u4, u6] at c4
  rw [u7, u4, u5, u6] at c5
  -- the end: position inside the block `q` that is now buffered
  have fin : ∀ q : St, Rep q → q.blockOff ≤ B → B - q.blockOff < 4096 → q.wMode = m.wMode → q.wAccess = m.wAccess →
      (q.wMode = true → q.bytez = 4096) → s.ret = 0 → skRec s m.toC.access = fSeekPos q.toC B b →
      skRec s m.toC.access = (mSeekPos q B b).toC ∧ Rep (mSeekPos q B b) ∧ (mSeekPos q B b).wMode = m.wMode ∧
        (mSeekPos q B b).wAccess = m.wAccess ∧ (m.wMode = true → Inv (mSeekPos q B b)) ∧ (mSeekPos q B b).bytep ≤ 4096 ∧
        (mSeekPos q B b).bytep - (if b > 0 ∧ m.wMode = false then 1 else 0) < 4096 ∧
        (b > 0 ∧ m.wMode = false → 1 ≤ (mSeekPos q B b).bytep) ∧ (b > 0 → (mSeekPos q B b).count = 8 - b) := by
    intro q hq hq1 hq2 hq3 hq4 hq5 _ hrec
    obtain ⟨p1, p2, p3, p4, p5, p6, p7, p8, p9, p10, p11⟩ := mSeekPos_toC hq B b hq1 hq2 hb7
    refine ⟨hrec.trans p1.symm, p2, p3.trans hq3, p4.trans hq4, ?_, ?_, ?_, ?_, p11⟩
    · intro hw
      have hqw : q.wMode = true := hq3.trans hw
      have hz : (mSeekPos q B b).bytez = 4096 := p5.trans (hq5 hqw)
      have hbp : (mSeekPos q B b).bytep = B - q.blockOff := by
        rw [p6]; simp [hqw]
      exact ⟨p2.noOob, p2.noErr, p2.bytep, p2.len, p2.zle, by rw [hbp, hz]; omega, p2.cnt, fun _ => by rw [hbp, hz]; omega, p2.bits,
        fun _ => p7 hqw, fun _ => by rw [p4, hq4]; exact (hwi hw).wacc hw, fun _ => hz⟩
    · rw [p6]; split <;> omega
    · rw [p6, hq3]; split <;> omega
    · intro hbm; rw [p6, hq3, if_pos hbm]; omega
  cases nb with
  | true =>
    have hnbP : B < m.blockOff ∨ B ≥ m.blockOff + 4096 := hnb.mp rfl
    simp only [if_true] at c4 c5
    obtain ⟨t1, t2⟩ := mSeekBlock_toC u8 B (by omega) (hfit rfl)
    have hr : r = mSeekTail (mSeekBlock m1 (B / 4096 * 4096)) m1 B b := by simp only [r, if_true, consts]
    cases hq : mSeekBlock m1 (B / 4096 * 4096) with
    | none =>
      rw [hq, Option.map_none] at t1
      rw [hr, hq]
      refine ⟨c1, c2.trans u2, ?_, fun h => Bool.noConfusion h⟩
      simp only [mSeekTail, Bool.false_eq_true, if_false]
      exact c4 t1.symm
    | some q =>
      rw [hq, Option.map_some] at t1
      obtain ⟨x1, x2⟩ := c5 q.toC t1.symm
      obtain ⟨y1, y2, y3, y4, y5, y6, y7, y8⟩ := t2 q hq
      rw [hr, hq, mSeekTail_some]
      refine ⟨c1, c2.trans u2, by simp only [if_true]; exact x1, fun _ => ?_⟩
      exact fin q y1 (by rw [y2]; exact hsp) (by rw [y2]; omega) (y3.trans u9) (y4.trans u10) y7 x1 x2
  | false =>
    have hnbP : ¬ (B < m.blockOff ∨ B ≥ m.blockOff + 4096) := fun h => by have := hnb.mpr h; cases this
    have h01 : ((0 : Int) = 1) = False := by decide
    simp only [h01, if_false, Bool.false_eq_true] at c4 c5
    obtain ⟨x1, x2⟩ := c5 m1.toC rfl
    have hr : r = (mSeekPos m1 B b, true) := by simp only [r, Bool.false_eq_true, if_false, mSeekTail_some]
    rw [hr]
    refine ⟨c1, c2.trans u2, by simp only [if_true]; exact x1, fun _ => ?_⟩
    refine fin m1 u8 (by rw [u13]; omega) (by rw [u13]; omega) u9 u10 ?_ x1 x2
    intro hw1
    have hw : m.wMode = true := u9.symm.trans hw1
    rw [u11]; exact (hwi hw).wz hw


/-- **`Hbitseek`** as translated from hbitio.c computes the model's `bitseek` on the C view, in read and in write mode, inside the
    buffered block or with the load of another block.  `hfit`: when another block is loaded, the element is not more than a buffer
    longer than `max_offset` (`Hread` is asked for `MIN(max_offset - seek_pos, BITBUF_SIZE)` bytes, and a length of 0 means "to the end
    of the element"). -/
theorem Hbitseek_main (m : St) (hrep : Rep m) (hwi : m.wMode = true → Inv m) (B b : Nat)
    (hfit : (B < m.blockOff ∨ B ≥ m.blockOff + BITBUF_SIZE) → (seekPre m B).elem.length ≤ (seekPre m B).maxOff + 4096)
    (fuel : Nat) :
    let o := cBitseek fuel m.toC B b
    let r := bitseek m B b
    o.ub = false ∧ o.oof = false ∧ o.ret = (if r.2 then 0 else -1) ∧
    (r.2 = true → o.crec = r.1.toC ∧ Rep r.1 ∧ r.1.wMode = m.wMode ∧ r.1.wAccess = m.wAccess ∧ (m.wMode = true → Inv r.1) ∧
      r.1.bytep ≤ 4096 ∧ r.1.bytep - (if b > 0 ∧ m.wMode = false then 1 else 0) < 4096 ∧
      (b > 0 ∧ m.wMode = false → 1 ≤ r.1.bytep) ∧ (b > 0 → r.1.count = 8 - b)) := by
  rw [cBitseek_eq, bitseek_eq]
  have h0 := sk_seg0 fuel (skInit m.toC B b) rfl rfl rfl m.toC.access
  simp only at h0
  obtain ⟨a1, a2, a3, a4, a5, a6, a7⟩ := h0
  by_cases hbad : b > BITNUM - 1 ∨ B > m.maxOff
  · -- bad arguments: FAIL
    have hbadC : (skInit m.toC B b).byte_offset < 0 ∨ (skInit m.toC B b).bit_offset < 0 ∨ (skInit m.toC B b).bit_offset > 7 ∨
        (skInit m.toC B b).byte_offset > (skInit m.toC B b).rec_max_offset := by
      rcases hbad with h | h
      · right; right; left; show (b : Int) > 7; simp only [consts] at h; omega
      · right; right; right; show (B : Int) > (m.maxOff : Int); omega
    obtain ⟨b1, b2⟩ := a6 hbadC
    obtain ⟨d1, -⟩ := sk_seg_done fuel _ b1
    rw [d1]
    obtain ⟨-, d2⟩ := sk_seg_done fuel _ b1
    rw [d2, if_pos hbad]
    exact ⟨a1, a2, b2, fun h => Bool.noConfusion h⟩
  · have hb7 : b ≤ 7 := by
      have : ¬ (b > BITNUM - 1) := fun h => hbad (Or.inl h)
      simp only [consts] at this; omega
    have hBm : B ≤ m.maxOff := by
      have : ¬ (B > m.maxOff) := fun h => hbad (Or.inr h)
      omega
    have hgoodC : ¬ ((skInit m.toC B b).byte_offset < 0 ∨ (skInit m.toC B b).bit_offset < 0 ∨ (skInit m.toC B b).bit_offset > 7 ∨
        (skInit m.toC B b).byte_offset > (skInit m.toC B b).rec_max_offset) := by
      show ¬ ((B : Int) < 0 ∨ (b : Int) < 0 ∨ (b : Int) > 7 ∨ (B : Int) > (m.maxOff : Int))
      omega
    rw [if_neg hbad]
    -- the state after segment 0, explicitly
    have hS0 := sk_seg0_eq fuel (skInit m.toC B b) rfl rfl hgoodC
    have hnbI : (if (skInit m.toC B b).byte_offset < (skInit m.toC B b).rec_block_offset ∨
        (skInit m.toC B b).byte_offset ≥ (skInit m.toC B b).rec_block_offset + 4096 then (1 : Int) else 0) =
        (if (B < m.blockOff ∨ B ≥ m.blockOff + BITBUF_SIZE) then 1 else 0) := by
      show (if (B : Int) < (m.blockOff : Int) ∨ (B : Int) ≥ (m.blockOff : Int) + 4096 then (1 : Int) else 0) = _
      simp only [consts]
      split <;> split <;> omega
    rw [hnbI] at hS0
    rw [hS0]
    by_cases hnbP : B < m.blockOff ∨ B ≥ m.blockOff + BITBUF_SIZE
    · have hk := sk_rest m hrep hwi B b hb7 hBm true ⟨fun _ => by simpa [consts] using hnbP, fun _ => rfl⟩
        (fun _ => by have := hfit hnbP; simpa [seekPre, hnbP] using this) fuel
      simp only [hnbP, if_true, decide_true] at hk ⊢
      exact hk
    · have hk := sk_rest m hrep hwi B b hb7 hBm false ⟨fun h => Bool.noConfusion h, fun h => absurd (by simpa [consts] using h) hnbP⟩
        (fun h => Bool.noConfusion h) fuel
      simp only [hnbP, if_false, decide_false, Bool.false_eq_true] at hk ⊢
      exact hk

/-! ## `HIwrite2read` -/

/-- the record inside the state of the translated `HIwrite2read` -/
def w2rRec (s : HIwrite2read.St) : CRec :=
  { access := s.rec_access, mode := s.rec_mode, count := s.rec_count, bits := s.rec_bits, bufRead := s.rec_buf_read,
    byteOff := s.rec_byte_offset, maxOff := s.rec_max_offset, blockOff := s.rec_block_offset, bytep := s.rec_bytep,
    bytez := s.rec_bytez, bytea := s.rec_bytea, elt := s.io_elt, epos := s.io_epos, enew := s.io_enew }

/-- `(int32)LONG_MIN` as the translator writes it (exact two's complement reduction: 0 on this LP64 host) -/
theorem longmin_int : ((((((- 9223372036854775807) - 1)) + 2147483648) % 4294967296 - 2147483648) : Int) = 0 := by decide

/-- segment 1 of `HIwrite2read`: `HIbitflush(rec, -1, TRUE)` (the translated function) on the same record -/
theorem w2r_seg1 (fuel : Nat) (s : HIwrite2read.St) (hid : s.rec_bit_id = bitId) :
    let o := cBitflush fuel (w2rRec s) (-1) 1
    let s' := HIwrite2read.seg1 fuel s
    s'.ub = (s.ub || o.ub) ∧ s'.oof = (s.oof || o.oof) ∧ s'.prev_count = s.prev_count ∧ s'.prev_offset = s.prev_offset ∧
      s'.rec_bit_id = s.rec_bit_id ∧ (o.ret ≠ -1 → s'.done = s.done ∧ s'.ret = s.ret) ∧
      w2rRec s' = { o.crec with access := s.rec_access } := by
  obtain ⟨prev_count, rec_count, prev_offset, rec_byte_offset, rec_max_offset, rec_bit_id, rec_access, rec_mode, rec_block_offset, rec_bytep, rec_bits, rec_bytez, rec_buf_read, io_epos, io_enew, rec_bytea, io_elt, ub, oof, ret, done⟩ := s
  simp only at hid
  subst hid
  intro o
  by_cases hr : o.ret = -1
  · have hr' := hr
    simp only [o, cBitflush, w2rRec] at hr'
    w2r_simp [HIwrite2read.seg1, w2rRec, hr, hr', o, cBitflush]
  · have hr' := hr
    simp only [o, cBitflush, w2rRec] at hr'
    w2r_simp [HIwrite2read.seg1, w2rRec, hr, hr', o, cBitflush]

/-- segment 3 of `HIwrite2read`: `Hbitseek(bit_id, prev_offset, BITNUM - prev_count)` (the translated function) on the same record -/
theorem w2r_seg3 (fuel : Nat) (s : HIwrite2read.St) (hdone : s.done = false) (hid : s.rec_bit_id = bitId) :
    let o := cBitseek fuel (w2rRec s) s.prev_offset (8 - s.prev_count)
    let s' := HIwrite2read.seg3 fuel s
    s'.ub = (s.ub || o.ub) ∧ s'.oof = (s.oof || o.oof) ∧ (o.ret ≠ -1 → s'.done = false ∧ s'.ret = s.ret) ∧
      (o.ret = -1 → s'.done = true ∧ s'.ret = -1) ∧ w2rRec s' = { o.crec with mode := s.rec_mode } := by
  obtain ⟨prev_count, rec_count, prev_offset, rec_byte_offset, rec_max_offset, rec_bit_id, rec_access, rec_mode, rec_block_offset, rec_bytep, rec_bits, rec_bytez, rec_buf_read, io_epos, io_enew, rec_bytea, io_elt, ub, oof, ret, done⟩ := s
  simp only at hid hdone
  subst hid hdone
  intro o
  by_cases hr : o.ret = -1
  · have hr' := hr
    simp only [o, cBitseek, w2rRec] at hr'
    w2r_simp [HIwrite2read.seg3, bitnum_int, w2rRec, hr, hr', o, cBitseek]
  · have hr' := hr
    simp only [o, cBitseek, w2rRec] at hr'
    w2r_simp [HIwrite2read.seg3, bitnum_int, w2rRec, hr, hr', o, cBitseek]

/-- the state in which the translated `HIwrite2read` starts on the record `r` -/
def w2rInit (r : CRec) : HIwrite2read.St :=
  { rec_access := r.access, rec_mode := r.mode, rec_block_offset := r.blockOff, rec_bytea := r.bytea, rec_bytep := r.bytep,
    rec_count := r.count, rec_bit_id := bitId, rec_max_offset := r.maxOff, rec_byte_offset := r.byteOff, rec_bits := r.bits,
    rec_bytez := r.bytez, rec_buf_read := r.bufRead, io_elt := r.elt, io_epos := r.epos, io_enew := r.enew }

theorem cWrite2read_eq (fuel : Nat) (r : CRec) :
    cWrite2read fuel r =
      (let s := HIwrite2read.seg4 fuel (HIwrite2read.seg3 fuel (HIwrite2read.seg2 fuel (HIwrite2read.seg1 fuel
        (HIwrite2read.seg0 fuel (w2rInit r)))))
       { crec := w2rRec s, ret := s.ret, ub := s.ub, oof := s.oof }) := rfl

/-- the model state on which `HIwrite2read` calls `Hbitseek`: flushed, `block_offset = (int32)LONG_MIN`, read mode -/
def w2rMid (m : St) : St := { (bitflush m none true) with blockOff := LONG_MIN_AS_INT32, wMode := false }

theorem write2read_eq (m : St) : write2read m = (bitseek (w2rMid m) m.byteOff (BITNUM - m.count)).1 := rfl

theorem w2r_seg2_eq (fuel : Nat) (s : HIwrite2read.St) (hdone : s.done = false) :
    HIwrite2read.seg2 fuel s = { s with rec_block_offset := 0, rec_mode := 114 } := by
  simp only [HIwrite2read.seg2, hdone, Bool.false_eq_true, if_false, longmin_int, HIwrite2read.St.set_rec_block_offset,
    HIwrite2read.St.set_rec_mode]
  rfl

theorem w2r_seg4_eq (fuel : Nat) (s : HIwrite2read.St) :
    (s.done = true → HIwrite2read.seg4 fuel s = s) ∧ (s.done = false → HIwrite2read.seg4 fuel s = { s with ret := 0, done := true }) := by
  refine ⟨fun h => ?_, fun h => ?_⟩
  · simp only [HIwrite2read.seg4, h, if_true]
  · simp only [HIwrite2read.seg4, h, Bool.false_eq_true, if_false, HIwrite2read.St.set_ret, HIwrite2read.St.set_done]

/-- **`HIwrite2read`** as translated from hbitio.c computes the model's `write2read` on the C view: the pending bits are merged and the
    buffer written out (`HIbitflush(rec, -1, TRUE)`), then the position is taken again as a reader (`Hbitseek`).  `hfit` as in
    `Hbitseek_main`, for the flushed state. -/
theorem HIwrite2read_main (m : St) (hinv : Inv m) (hw : m.wMode = true)
    (hfit : (m.byteOff < (w2rMid m).blockOff ∨ m.byteOff ≥ (w2rMid m).blockOff + BITBUF_SIZE) →
      (w2rMid m).elem.length ≤ (w2rMid m).maxOff + 4096)
    (fuel : Nat) (hf : 3 ≤ fuel) :
    let o := cWrite2read fuel m.toC
    let r := bitseek (w2rMid m) m.byteOff (BITNUM - m.count)
    o.ub = false ∧ o.oof = false ∧ o.ret = (if r.2 then 0 else -1) ∧
    (r.2 = true → o.crec = (write2read m).toC ∧ Rep (write2read m) ∧ (write2read m).wMode = false ∧
      (write2read m).wAccess = m.wAccess ∧ (write2read m).bytep ≤ 4096) := by
  rw [cWrite2read_eq, write2read_eq]
  -- segment 0 only saves `count` and `byte_offset`
  have hS0 : HIwrite2read.seg0 fuel (w2rInit m.toC) = { w2rInit m.toC with prev_count := m.count, prev_offset := m.byteOff } := rfl
  rw [hS0]
  -- the flush
  obtain ⟨f1, f2, f3, f4, f5, f6, f7, f8⟩ := HIbitflush_w m hinv hw none true fuel hf
  have h1 := w2r_seg1 fuel { w2rInit m.toC with prev_count := m.count, prev_offset := m.byteOff } rfl
  simp only at h1
  rw [show cBitflush fuel (w2rRec { w2rInit m.toC with prev_count := m.count, prev_offset := m.byteOff }) (-1) 1 =
    cBitflush fuel m.toC (flushArg none) (if true then 1 else 0) from rfl] at h1
  obtain ⟨a1, a2, a3, a4, a5, a6, a7⟩ := h1
  rw [f1] at a1
  rw [f2] at a2
  obtain ⟨a6a, a6b⟩ := a6 (by rw [f3]; decide)
  rw [f4] at a7
  generalize HIwrite2read.seg1 fuel { w2rInit m.toC with prev_count := m.count, prev_offset := m.byteOff } = S1 at a1 a2 a3 a4 a5 a6a a6b a7 ⊢
  rw [w2r_seg2_eq fuel S1 a6a]
  -- the record is now the C view of the model's intermediate state
  have hmid : w2rRec { S1 with rec_block_offset := 0, rec_mode := 114 } = (w2rMid m).toC := by
    have e1 : w2rRec { S1 with rec_block_offset := 0, rec_mode := 114 } = { w2rRec S1 with blockOff := 0, mode := 114 } := rfl
    rw [e1, a7]
    simp only [w2rMid, St.toC, St.buf]
    rw [f7]
    rfl
  have hrepMid : Rep (w2rMid m) := ⟨f5.noOob, f5.noErr, f5.bytep, f5.len, f5.zle, f5.cnt, f5.bits⟩
  have hmc8 := hinv.cnt
  have hmc1 := hinv.wcnt hw
  have hsk := Hbitseek_main (w2rMid m) hrepMid (fun h => Bool.noConfusion h) m.byteOff (BITNUM - m.count)
    (by intro h; simpa [seekPre, w2rMid] using hfit h) fuel
  simp only at hsk
  obtain ⟨k1, k2, k3, k4⟩ := hsk
  have h3 := w2r_seg3 fuel { S1 with rec_block_offset := 0, rec_mode := 114 } a6a a5
  simp only at h3
  have hcall : cBitseek fuel (w2rRec { S1 with rec_block_offset := 0, rec_mode := 114 })
      ({ S1 with rec_block_offset := 0, rec_mode := 114 } : HIwrite2read.St).prev_offset
      (8 - ({ S1 with rec_block_offset := 0, rec_mode := 114 } : HIwrite2read.St).prev_count) =
      cBitseek fuel (w2rMid m).toC (m.byteOff : Int) ((BITNUM - m.count : Nat) : Int) := by
    rw [hmid]
    show cBitseek fuel _ S1.prev_offset (8 - S1.prev_count) = _
    rw [a4, a3]
    show cBitseek fuel _ (m.byteOff : Int) (8 - (m.count : Int)) = _
    rw [show (8 : Int) - (m.count : Int) = ((BITNUM - m.count : Nat) : Int) by simp only [consts]; omega]
  rw [hcall] at h3
  obtain ⟨c1, c2, c3, c4, c5⟩ := h3
  rw [k1] at c1
  rw [k2] at c2
  generalize HIwrite2read.seg3 fuel { S1 with rec_block_offset := 0, rec_mode := 114 } = S3 at c1 c2 c3 c4 c5 ⊢
  cases hok : (bitseek (w2rMid m) m.byteOff (BITNUM - m.count)).2 with
  | false =>
    rw [hok] at k3
    simp only [Bool.false_eq_true, if_false] at k3
    obtain ⟨d1, d2⟩ := c4 k3
    rw [(w2r_seg4_eq fuel S3).1 d1]
    simp only [hok, Bool.false_eq_true, if_false]
    exact ⟨c1.trans (by rw [a1]; rfl), c2.trans (by rw [a2]; rfl), d2, fun h => h.elim⟩
  | true =>
    rw [hok] at k3
    simp only [if_true] at k3
    obtain ⟨d1, d2⟩ := c3 (by rw [k3]; decide)
    obtain ⟨e1, e2, e3, e4, e5, e6⟩ := k4 hok
    rw [(w2r_seg4_eq fuel S3).2 d1]
    simp only [hok, if_true]
    refine ⟨c1.trans (by rw [a1]; rfl), c2.trans (by rw [a2]; rfl), trivial, fun _ => ⟨?_, e2, e3, e4.trans f7, e6.1⟩⟩
    show w2rRec S3 = _
    rw [c5, e1]
    simp only [St.toC, e3]
    rfl

/-! ## `Hbitread` on a bit file in write mode: the switch `HIwrite2read`, then the read -/

theorem rd_seg0_eq (fuel : Nat) (s : Hbitread.St) (hdone : s.done = false) (hnull : s.rec_null = false) (hc : 0 < s.count) :
    Hbitread.seg0 fuel s = { s with b := 0 } := by
  obtain ⟨bitid, count, l, b, orig_count, n, rec_mode, rec_count, rec_byte_offset, rec_max_offset, rec_bit_id, rec_access, rec_block_offset, rec_bytep, rec_bytez, rec_buf_read, rec_bits, io_epos, io_enew, rec_null, rec_bytea, io_elt, data, ub, oof, ret, done⟩ := s
  simp only at hdone hnull hc
  subst hdone hnull
  have h0 : ¬ (count ≤ 0) := by omega
  rd_simp [Hbitread.seg0, h0, Int.zero_emod]

/-- segment 1 of `Hbitread` in write mode: `HIwrite2read(rec)` (the translated function) on the same record -/
theorem rd_seg1_w (fuel : Nat) (s : Hbitread.St) (hdone : s.done = false) (hm : s.rec_mode = 119) (hid : s.rec_bit_id = bitId) :
    let o := cWrite2read fuel (rdRec s)
    let s' := Hbitread.seg1 fuel s
    (o.ret = -1 → s'.done = true ∧ s'.ret = -1 ∧ s'.ub = (s.ub || o.ub) ∧ s'.oof = (s.oof || o.oof) ∧ s'.data = s.data) ∧
    (o.ret ≠ -1 → s' = { s with rec_count := o.crec.count, rec_byte_offset := o.crec.byteOff, rec_max_offset := o.crec.maxOff,
                                rec_mode := o.crec.mode, rec_block_offset := o.crec.blockOff, rec_bytea := o.crec.bytea,
                                rec_bytep := o.crec.bytep, rec_bytez := o.crec.bytez, rec_buf_read := o.crec.bufRead,
                                rec_bits := o.crec.bits, io_elt := o.crec.elt, io_epos := o.crec.epos, io_enew := o.crec.enew,
                                ub := s.ub || o.ub, oof := s.oof || o.oof }) := by
  obtain ⟨bitid, count, l, b, orig_count, n, rec_mode, rec_count, rec_byte_offset, rec_max_offset, rec_bit_id, rec_access, rec_block_offset, rec_bytep, rec_bytez, rec_buf_read, rec_bits, io_epos, io_enew, rec_null, rec_bytea, io_elt, data, ub, oof, ret, done⟩ := s
  simp only at hdone hm hid
  subst hdone hm hid
  intro o
  by_cases hr : o.ret = -1
  · have hr' := hr
    simp only [o, cWrite2read, rdRec] at hr'
    rd_simp [Hbitread.seg1, rdRec, hr, hr', o, cWrite2read]
  · have hr' := hr
    simp only [o, cWrite2read, rdRec] at hr'
    rd_simp [Hbitread.seg1, rdRec, hr, hr', o, cWrite2read]

/-- the model's `bitread` on a state in write mode is `bitread` on the switched state -/
theorem bitread_switch (m : St) (hw : m.wMode = true) (hr : (write2read m).wMode = false) (c : Nat) (hc : c ≠ 0) :
    bitread m c = bitread (write2read m) c := by
  unfold bitread
  simp only [hc, if_false, hw, if_true, hr, Bool.false_eq_true]

/-- on a bit file in write mode whose switch to reading succeeds, the translated `Hbitread` does what it does on the switched record -/
theorem cBitread_switch (m : St) (hinv : Inv m) (hw : m.wMode = true)
    (hfit : (m.byteOff < (w2rMid m).blockOff ∨ m.byteOff ≥ (w2rMid m).blockOff + BITBUF_SIZE) →
      (w2rMid m).elem.length ≤ (w2rMid m).maxOff + 4096)
    (hok : (bitseek (w2rMid m) m.byteOff (BITNUM - m.count)).2 = true)
    (count d0 : Int) (hc : 0 < count) (fuel : Nat) (hf : 3 ≤ fuel) :
    cBitread fuel m.toC count d0 = cBitread fuel (write2read m).toC count d0 := by
  obtain ⟨k1, k2, k3, k4⟩ := HIwrite2read_main m hinv hw hfit fuel hf
  rw [hok] at k3
  simp only [if_true] at k3
  obtain ⟨e1, e2, e3, e4, e5⟩ := k4 hok
  rw [cBitread_eq, cBitread_eq]
  rw [rd_seg0_eq fuel (rdInit m.toC count d0) rfl rfl hc, rd_seg0_eq fuel (rdInit (write2read m).toC count d0) rfl rfl hc]
  have hmodeR : ({ rdInit (write2read m).toC count d0 with b := 0 } : Hbitread.St).rec_mode = 114 := by
    show modeChar (write2read m).wMode = 114; rw [e3]; rfl
  rw [rd_seg1_r fuel _ hmodeR]
  have hmodeW : ({ rdInit m.toC count d0 with b := 0 } : Hbitread.St).rec_mode = 119 := by
    show modeChar m.wMode = 119; rw [hw]; rfl
  have h1 := (rd_seg1_w fuel { rdInit m.toC count d0 with b := 0 } rfl hmodeW rfl).2
  rw [show cWrite2read fuel (rdRec { rdInit m.toC count d0 with b := 0 }) = cWrite2read fuel m.toC from rfl] at h1
  have h1' := h1 (by rw [k3]; decide)
  rw [h1', k1, k2, e1]
  have hacc : m.toC.access = (write2read m).toC.access := by
    show modeChar m.wAccess = modeChar (write2read m).wAccess; rw [e4]
  simp only [rdInit, hacc, Bool.or_false]

/-! ## `HIread2write` -/

/-- the record inside the state of the translated `HIread2write` (which never looks at `access`: taken from outside) -/
def r2wRec (s : HIread2write.St) (acc : Int) : CRec :=
  { access := acc, mode := s.rec_mode, count := s.rec_count, bits := s.rec_bits, bufRead := s.rec_buf_read,
    byteOff := s.rec_byte_offset, maxOff := s.rec_max_offset, blockOff := s.rec_block_offset, bytep := s.rec_bytep,
    bytez := s.rec_bytez, bytea := s.rec_bytea, elt := s.io_elt, epos := s.io_epos, enew := s.io_enew }

/-- segment 0 of `HIread2write`: the byte that takes the next bit written, and the number of its bits already read -/
theorem r2w_seg0_eq (fuel : Nat) (s : HIread2write.St) :
    HIread2write.seg0 fuel s =
      { s with pos := if s.rec_count > 0 then s.rec_block_offset + s.rec_bytep - 1 else s.rec_block_offset + s.rec_bytep,
               bit := if s.rec_count > 0 then 8 - s.rec_count else 0 } := by
  obtain ⟨pos, bit, rec_block_offset, rec_bytep, rec_count, rec_bit_id, rec_max_offset, rec_mode, rec_byte_offset, rec_bits, rec_bytez, rec_buf_read, io_epos, io_enew, rec_bytea, io_elt, ub, oof, ret, done⟩ := s
  by_cases h : rec_count > 0
  · r2w_simp [HIread2write.seg0, bitnum_int, h]
  · r2w_simp [HIread2write.seg0, bitnum_int, h]

/-- segment 1 of `HIread2write`: `Hbitseek(bit_id, pos, bit)` (the translated function) on the same record -/
theorem r2w_seg1 (fuel : Nat) (s : HIread2write.St) (hid : s.rec_bit_id = bitId) (acc : Int) :
    let o := cBitseek fuel (r2wRec s acc) s.pos s.bit
    let s' := HIread2write.seg1 fuel s
    s'.ub = (s.ub || o.ub) ∧ s'.oof = (s.oof || o.oof) ∧ s'.bit = s.bit ∧ (o.ret ≠ -1 → s'.done = s.done ∧ s'.ret = s.ret) ∧
      (o.ret = -1 → s'.done = true ∧ s'.ret = -1) ∧ r2wRec s' acc = { o.crec with mode := s.rec_mode } := by
  obtain ⟨pos, bit, rec_block_offset, rec_bytep, rec_count, rec_bit_id, rec_max_offset, rec_mode, rec_byte_offset, rec_bits, rec_bytez, rec_buf_read, io_epos, io_enew, rec_bytea, io_elt, ub, oof, ret, done⟩ := s
  simp only at hid
  subst hid
  intro o
  by_cases hr : o.ret = -1
  · have hr' := hr
    simp only [o, cBitseek, r2wRec] at hr'
    r2w_simp [HIread2write.seg1, r2wRec, hr, hr', o, cBitseek]
  · have hr' := hr
    simp only [o, cBitseek, r2wRec] at hr'
    r2w_simp [HIread2write.seg1, r2wRec, hr, hr', o, cBitseek]

/-- `(uint8)(maskc[bit] << count)` as the translator writes it -/
def r2wMaskC (bit count : Int) : Int := (Int.ofNat ((H4.Gen.Hbitio.maskc).getD (Int.toNat bit) 0) * 2 ^ Int.toNat count) % 256
theorem r2wMaskC_fold (bit count : Int) :
    (Int.ofNat ((H4.Gen.Hbitio.maskc).getD (Int.toNat bit) 0) * 2 ^ Int.toNat count) % 256 = r2wMaskC bit count := rfl

/-- the end of `HIread2write`: the read position becomes a write position -/
def fR2W (r : CRec) (bit : Int) : CRec :=
  let r1 : CRec := if bit > 0 then
      { r with bytep := r.bytep - 1, bits := Int.ofNat (Int.toNat r.bits &&& Int.toNat (r2wMaskC bit r.count)) % 256 }
    else { r with count := 8, bits := 0 }
  { r1 with bytez := 4096, mode := 119, epos := r1.blockOff }

/-- segment 2 of `HIread2write` -/
theorem r2w_seg2 (fuel : Nat) (s : HIread2write.St) (acc : Int) (hub : s.ub = false) (hdone : s.done = false)
    (hbit : 0 ≤ s.bit ∧ s.bit ≤ 7) (hc : 0 ≤ s.rec_count ∧ s.rec_count ≤ 8) (hbits : 0 ≤ s.rec_bits) (hb : 0 ≤ s.rec_block_offset) :
    let s' := HIread2write.seg2 fuel s
    s'.ub = false ∧ s'.oof = s.oof ∧ s'.ret = 0 ∧ r2wRec s' acc = fR2W (r2wRec s acc) s.bit := by
  obtain ⟨pos, bit, rec_block_offset, rec_bytep, rec_count, rec_bit_id, rec_max_offset, rec_mode, rec_byte_offset, rec_bits, rec_bytez, rec_buf_read, io_epos, io_enew, rec_bytea, io_elt, ub, oof, ret, done⟩ := s
  simp only at hub hdone hbit hc hbits hb
  subst hub hdone
  obtain ⟨hb1, hb2⟩ := hbit
  obtain ⟨hc1, hc2⟩ := hc
  have h119 : ((119 : Int) % 256) = 119 := by decide
  by_cases hbp : bit > 0
  · have hmk : (0 ≤ r2wMaskC bit rec_count) = True := by unfold r2wMaskC; exact mod256_nonneg _
    r2w_simp [HIread2write.seg2, bitnum_int, r2wMaskC_fold, fR2W, r2wRec, hbp, hb, h119]
    c2l_ub [hmk]
  · r2w_simp [HIread2write.seg2, bitnum_int, r2wMaskC_fold, fR2W, r2wRec, hbp, hb, h119, Int.zero_emod]

/-- the end of the model's `read2write` -/
def mR2W (s : St) (bit : Nat) : St :=
  let s :=
    if bit > 0 then
      let s := s.setPtr (s.bytep - 1)
      { s with bits := s.bits &&& ((maskC bit <<< s.count) % 256) }
    else { s with count := BITNUM, bits := 0 }
  hSeek { s with bytez := BITBUF_SIZE, wMode := true } s.blockOff

/-- the byte / bit position `HIread2write` seeks to -/
def r2wPos (s : St) : Nat × Nat :=
  if s.count > 0 then (s.blockOff + s.bytep - 1, BITNUM - s.count) else (s.blockOff + s.bytep, 0)

theorem read2write_eq (s : St) :
    read2write s = (if !(bitseek s (r2wPos s).1 (r2wPos s).2).2 then ((bitseek s (r2wPos s).1 (r2wPos s).2).1, false)
                    else (mR2W (bitseek s (r2wPos s).1 (r2wPos s).2).1 (r2wPos s).2, true)) := by
  unfold read2write r2wPos mR2W
  by_cases h : s.count > 0
  · simp only [h, if_true]
  · simp only [h, if_false]

theorem r2w_bits (bits bit count : Nat) (hb : bits < 256) :
    Int.ofNat (Int.toNat (bits : Int) &&& Int.toNat (r2wMaskC (bit : Int) (count : Int))) % 256 =
      ((bits &&& ((maskC bit <<< count) % 256) : Nat) : Int) := by
  have e : r2wMaskC (bit : Int) (count : Int) = (((maskC bit <<< count) % 256 : Nat) : Int) := by
    unfold r2wMaskC maskC
    rw [Nat.shiftLeft_eq]
    simp
  rw [e]
  simp only [Int.toNat_natCast, Int.ofNat_eq_natCast]
  have : bits &&& (maskC bit <<< count) % 256 < 256 := and_le_255 _ _ hb
  omega

/-- the end of the model's `read2write` on the C view; the result satisfies the write-mode invariant -/
theorem mR2W_toC {q : St} (h : Rep q) (bit : Nat) (hacc : q.wAccess = true) (hp : bit > 0 → 1 ≤ q.bytep)
    (hlt : q.bytep - (if bit > 0 then 1 else 0) < 4096) (hcnt : bit > 0 → 1 ≤ q.count) :
    (mR2W q bit).toC = fR2W q.toC bit ∧ Inv (mR2W q bit) ∧ (mR2W q bit).wMode = true := by
  obtain ⟨h1, h2, h3, h4, h5, h7, h9⟩ := h
  obtain ⟨elem, posn, isNew, wAccess, wMode, blockOff, maxOff, byteOff, count, bufRead, bits, pre, post, bytep, bytez, oob, err⟩ := q
  simp only at h1 h2 h3 h4 h5 h7 h9 hacc hp hlt hcnt
  subst h1 h2 h3 hacc
  have hbuf : (pre.reverse ++ post).length = 4096 := by simp; omega
  by_cases hbp : bit > 0
  · have hbp' : (bit : Int) > 0 := by omega
    have hp1 := hp hbp
    have hc1 := hcnt hbp
    simp only [hbp, if_true] at hlt
    have htl : (List.take (pre.length - 1) (pre.reverse ++ post)).length = pre.length - 1 := by rw [List.length_take]; omega
    simp only [mR2W, hbp, if_true, St.setPtr, St.buf, hSeek, St.toC, fR2W, hbp', List.reverse_reverse, List.take_append_drop,
      r2w_bits _ _ _ h9, consts]
    refine ⟨?_, ⟨rfl, rfl, by simp only [List.length_reverse, htl], by simp only [List.length_reverse, htl, List.length_drop, hbuf]; omega,
      by simp, by simp only; omega, h7, fun _ => by simp only; omega, and_le_255 _ _ h9, fun _ => hc1, fun _ => rfl, fun _ => rfl⟩, trivial⟩
    congr 1
    omega
  · have hb0 : bit = 0 := by omega
    subst hb0
    have hbp' : ¬ ((0 : Int) > 0) := by omega
    simp only [Nat.lt_irrefl, if_false, Nat.sub_zero] at hlt
    simp only [mR2W, Nat.lt_irrefl, if_false, hSeek, St.toC, fR2W, Int.natCast_zero, hbp', consts, St.buf]
    exact ⟨rfl, ⟨rfl, rfl, rfl, h4, by simp, by simp only; omega, by simp, fun _ => by simp only; omega, by simp, fun _ => by simp,
      fun _ => rfl, fun _ => rfl⟩, trivial⟩

/-- the state in which the translated `HIread2write` starts on the record `r` -/
def r2wInit (r : CRec) : HIread2write.St :=
  { rec_mode := r.mode, rec_block_offset := r.blockOff, rec_bytea := r.bytea, rec_bytep := r.bytep, rec_count := r.count,
    rec_bit_id := bitId, rec_max_offset := r.maxOff, rec_byte_offset := r.byteOff, rec_bits := r.bits, rec_bytez := r.bytez,
    rec_buf_read := r.bufRead, io_elt := r.elt, io_epos := r.epos, io_enew := r.enew }

theorem cRead2write_eq (fuel : Nat) (r : CRec) :
    cRead2write fuel r =
      (let s := HIread2write.seg2 fuel (HIread2write.seg1 fuel (HIread2write.seg0 fuel (r2wInit r)))
       { crec := r2wRec s r.access, ret := s.ret, ub := s.ub, oof := s.oof }) := rfl

theorem r2w_seg2_done (fuel : Nat) (s : HIread2write.St) (h : s.done = true) : HIread2write.seg2 fuel s = s := by
  simp only [HIread2write.seg2, h, if_true]

/-- **`HIread2write`** as translated from hbitio.c computes the model's `read2write` on the C view: `Hbitseek` to the byte that takes the
    next bit (a partly read byte is the one to write into), then the read position is turned into a write position.
    `hpos`: a byte that was partly read has been fetched (`pos--` does not go below 0); `hfit` as in `Hbitseek_main`. -/
theorem HIread2write_main (m : St) (hrep : Rep m) (hr : m.wMode = false) (hacc : m.wAccess = true)
    (hpos : m.count > 0 → 1 ≤ m.blockOff + m.bytep)
    (hfit : ((r2wPos m).1 < m.blockOff ∨ (r2wPos m).1 ≥ m.blockOff + BITBUF_SIZE) → m.elem.length ≤ m.maxOff + 4096)
    (fuel : Nat) :
    let o := cRead2write fuel m.toC
    let r := read2write m
    o.ub = false ∧ o.oof = false ∧ o.ret = (if r.2 then 0 else -1) ∧
    (r.2 = true → o.crec = r.1.toC ∧ Inv r.1 ∧ r.1.wMode = true ∧ r.1.wAccess = true) := by
  rw [cRead2write_eq, read2write_eq, r2w_seg0_eq]
  have hc8 := hrep.cnt
  -- the arguments of the seek
  have hpb : ({ r2wInit m.toC with
      pos := if (r2wInit m.toC).rec_count > 0 then (r2wInit m.toC).rec_block_offset + (r2wInit m.toC).rec_bytep - 1
             else (r2wInit m.toC).rec_block_offset + (r2wInit m.toC).rec_bytep,
      bit := if (r2wInit m.toC).rec_count > 0 then 8 - (r2wInit m.toC).rec_count else 0 } : HIread2write.St) =
      { r2wInit m.toC with pos := ((r2wPos m).1 : Int), bit := ((r2wPos m).2 : Int) } := by
    have e1 : (if (r2wInit m.toC).rec_count > 0 then (r2wInit m.toC).rec_block_offset + (r2wInit m.toC).rec_bytep - 1
        else (r2wInit m.toC).rec_block_offset + (r2wInit m.toC).rec_bytep) = ((r2wPos m).1 : Int) := by
      show (if (m.count : Int) > 0 then (m.blockOff : Int) + (m.bytep : Int) - 1 else (m.blockOff : Int) + (m.bytep : Int)) = _
      unfold r2wPos
      by_cases h : m.count > 0
      · have h' : (m.count : Int) > 0 := by omega
        have := hpos h
        simp only [h, h', if_true]; omega
      · have h' : ¬ ((m.count : Int) > 0) := by omega
        simp only [h, h', if_false]; omega
    have e2 : (if (r2wInit m.toC).rec_count > 0 then 8 - (r2wInit m.toC).rec_count else 0) = ((r2wPos m).2 : Int) := by
      show (if (m.count : Int) > 0 then 8 - (m.count : Int) else 0) = _
      unfold r2wPos
      by_cases h : m.count > 0
      · have h' : (m.count : Int) > 0 := by omega
        simp only [h, h', if_true, consts]; omega
      · have h' : ¬ ((m.count : Int) > 0) := by omega
        simp only [h, h', if_false]; rfl
    rw [e1, e2]
  rw [hpb]
  have hb7 : (r2wPos m).2 ≤ 7 := by
    unfold r2wPos; split <;> simp only [consts] <;> omega
  -- the seek (read mode: nothing is flushed first)
  have hsk := Hbitseek_main m hrep (fun h => by rw [hr] at h; cases h) (r2wPos m).1 (r2wPos m).2
    (by intro h; have := hfit h; simpa [seekPre, hr] using this) fuel
  simp only at hsk
  obtain ⟨k1, k2, k3, k4⟩ := hsk
  have h1 := r2w_seg1 fuel { r2wInit m.toC with pos := ((r2wPos m).1 : Int), bit := ((r2wPos m).2 : Int) } rfl m.toC.access
  simp only at h1
  rw [show cBitseek fuel (r2wRec { r2wInit m.toC with pos := ((r2wPos m).1 : Int), bit := ((r2wPos m).2 : Int) } m.toC.access)
      ({ r2wInit m.toC with pos := ((r2wPos m).1 : Int), bit := ((r2wPos m).2 : Int) } : HIread2write.St).pos
      ({ r2wInit m.toC with pos := ((r2wPos m).1 : Int), bit := ((r2wPos m).2 : Int) } : HIread2write.St).bit =
      cBitseek fuel m.toC ((r2wPos m).1 : Int) ((r2wPos m).2 : Int) from rfl] at h1
  obtain ⟨a1, a2, a3, a4, a5, a6⟩ := h1
  rw [k1] at a1
  rw [k2] at a2
  generalize HIread2write.seg1 fuel { r2wInit m.toC with pos := ((r2wPos m).1 : Int), bit := ((r2wPos m).2 : Int) } = S1 at a1 a2 a3 a4 a5 a6 ⊢
  cases hok : (bitseek m (r2wPos m).1 (r2wPos m).2).2 with
  | false =>
    rw [hok] at k3
    simp only [Bool.false_eq_true, if_false] at k3
    obtain ⟨d1, d2⟩ := a5 k3
    rw [r2w_seg2_done fuel S1 d1]
    simp only [Bool.not_false, if_true]
    exact ⟨a1, a2, d2, fun h => Bool.noConfusion h⟩
  | true =>
    rw [hok] at k3
    simp only [if_true] at k3
    obtain ⟨d1, d2⟩ := a4 (by rw [k3]; decide)
    obtain ⟨e1, e2, e3, e4, e5, e6, e7, e8, e9⟩ := k4 hok
    simp only [Bool.not_true, Bool.false_eq_true, if_false, if_true]
    -- the record after the seek is the C view of the model's state `q`
    have hrecS1 : r2wRec S1 m.toC.access = (bitseek m (r2wPos m).1 (r2wPos m).2).1.toC := by
      rw [a6, e1]
      simp only [St.toC, e3]
      rfl
    generalize (bitseek m (r2wPos m).1 (r2wPos m).2).1 = q at e1 e2 e3 e4 e5 e6 e7 e8 e9 hrecS1 ⊢
    have hcq : S1.rec_count = (q.count : Int) := congrArg CRec.count hrecS1
    have hbq : S1.rec_bits = (q.bits : Int) := congrArg CRec.bits hrecS1
    have hkq : S1.rec_block_offset = (q.blockOff : Int) := congrArg CRec.blockOff hrecS1
    have h2 := r2w_seg2 fuel S1 m.toC.access a1 d1 (by rw [a3]; show (0 : Int) ≤ ((r2wPos m).2 : Int) ∧ ((r2wPos m).2 : Int) ≤ 7; omega)
      (by rw [hcq]; have := e2.cnt; omega) (by rw [hbq]; omega) (by rw [hkq]; omega)
    simp only at h2
    obtain ⟨c1, c2, c3, c4⟩ := h2
    obtain ⟨t1, t2, t3⟩ := mR2W_toC e2 (r2wPos m).2 (e4.trans hacc)
      (fun hb => e8 ⟨hb, hr⟩)
      (by
        by_cases hb : (r2wPos m).2 > 0
        · have := e7; simp only [hb, hr, and_self, if_true] at this ⊢; exact this
        · have := e7; simp only [hb, false_and, if_false, Nat.sub_zero] at this ⊢; exact this)
      (fun hb => by rw [e9 hb]; omega)
    refine ⟨c1, c2.trans a2, c3, fun _ => ⟨?_, t2, t3, (t2.wacc t3)⟩⟩
    show r2wRec (HIread2write.seg2 fuel S1) m.toC.access = _
    rw [c4, hrecS1, a3, t1]

/-! ## `Hbitwrite` on a bit file in read mode: the switch `HIread2write`, then the write -/

/-- segment 0 of `Hbitwrite` on a count > 0 with write access, as an equation -/
theorem wr_seg0_eq (fuel : Nat) (s : Hbitwrite.St) (hdone : s.done = false) (hnull : s.rec_null = false) (hc : 0 < s.count)
    (hacc : s.rec_access = 119) :
    Hbitwrite.seg0 fuel s = { s with orig_count := s.count, count := if s.count > 32 then 32 else s.count } := by
  obtain ⟨bitid, count, data, orig_count, rec_access, rec_mode, rec_block_offset, rec_bytep, rec_count, rec_bit_id, rec_max_offset, rec_byte_offset, rec_bits, rec_bytez, io_epos, io_enew, rec_buf_read, write_size, read_size, n, rec_null, rec_bytea, io_elt, ub, oof, ret, done⟩ := s
  simp only at hdone hnull hc hacc
  subst hdone hnull hacc
  have h0 : ¬ (count ≤ 0) := by omega
  by_cases h32 : count > 32
  · wr_simp [Hbitwrite.seg0, datanum_int, h0, h32]
  · wr_simp [Hbitwrite.seg0, datanum_int, h0, h32]

/-- segment 1 of `Hbitwrite` in read mode: `HIread2write(rec)` (the translated function) on the same record -/
theorem wr_seg1_r (fuel : Nat) (s : Hbitwrite.St) (hdone : s.done = false) (hm : s.rec_mode = 114) (hid : s.rec_bit_id = bitId) :
    let o := cRead2write fuel (wrRec s)
    let s' := Hbitwrite.seg1 fuel s
    (o.ret = -1 → s'.done = true ∧ s'.ret = -1 ∧ s'.ub = (s.ub || o.ub) ∧ s'.oof = (s.oof || o.oof)) ∧
    (o.ret ≠ -1 → s' = { s with rec_block_offset := o.crec.blockOff, rec_bytea := o.crec.bytea, rec_bytep := o.crec.bytep,
                                rec_count := o.crec.count, rec_max_offset := o.crec.maxOff, rec_mode := o.crec.mode,
                                rec_byte_offset := o.crec.byteOff, rec_bits := o.crec.bits, rec_bytez := o.crec.bytez,
                                rec_buf_read := o.crec.bufRead, io_elt := o.crec.elt, io_epos := o.crec.epos, io_enew := o.crec.enew,
                                ub := s.ub || o.ub, oof := s.oof || o.oof }) := by
  obtain ⟨bitid, count, data, orig_count, rec_access, rec_mode, rec_block_offset, rec_bytep, rec_count, rec_bit_id, rec_max_offset, rec_byte_offset, rec_bits, rec_bytez, io_epos, io_enew, rec_buf_read, write_size, read_size, n, rec_null, rec_bytea, io_elt, ub, oof, ret, done⟩ := s
  simp only at hdone hm hid
  subst hdone hm hid
  intro o
  by_cases hr : o.ret = -1
  · have hr' := hr
    simp only [o, cRead2write, wrRec] at hr'
    wr_simp [Hbitwrite.seg1, wrRec, hr, hr', o, cRead2write]
  · have hr' := hr
    simp only [o, cRead2write, wrRec] at hr'
    wr_simp [Hbitwrite.seg1, wrRec, hr, hr', o, cRead2write]

/-- the model's `bitwrite` on a state in read mode is `bitwrite` on the switched state -/
theorem bitwrite_switch (m : St) (hr : m.wMode = false) (hacc : m.wAccess = true) (hok : (read2write m).2 = true)
    (hw' : (read2write m).1.wMode = true) (hacc' : (read2write m).1.wAccess = true) (c d : Nat) (hc : c ≠ 0) :
    bitwrite m c d = bitwrite (read2write m).1 c d := by
  unfold bitwrite
  simp only [hc, if_false, hacc, hacc', Bool.not_true, Bool.false_eq_true, hr, Bool.not_false, if_true, hok, hw']

/-- the state of the translated `Hbitwrite` after its argument checks (count > 0, write access) -/
def wrS0 (r : CRec) (count data : Int) : Hbitwrite.St :=
  { wrInit r count data with orig_count := count, count := if count > 32 then 32 else count }

theorem wr_seg0_init (fuel : Nat) (r : CRec) (count data : Int) (hc : 0 < count) (hacc : r.access = 119) :
    Hbitwrite.seg0 fuel (wrInit r count data) = wrS0 r count data :=
  wr_seg0_eq fuel (wrInit r count data) rfl rfl hc hacc

/-- on a bit file in read mode whose switch to writing succeeds, the translated `Hbitwrite` does what it does on the switched record -/
theorem cBitwrite_switch (m : St) (hrep : Rep m) (hr : m.wMode = false) (hacc : m.wAccess = true)
    (hpos : m.count > 0 → 1 ≤ m.blockOff + m.bytep)
    (hfit : ((r2wPos m).1 < m.blockOff ∨ (r2wPos m).1 ≥ m.blockOff + BITBUF_SIZE) → m.elem.length ≤ m.maxOff + 4096)
    (hok : (read2write m).2 = true) (count data : Int) (hc : 0 < count) (fuel : Nat) :
    cBitwrite fuel m.toC count data = cBitwrite fuel (read2write m).1.toC count data := by
  obtain ⟨k1, k2, k3, k4⟩ := HIread2write_main m hrep hr hacc hpos hfit fuel
  rw [hok] at k3
  simp only [if_true] at k3
  obtain ⟨e1, e2, e3, e4⟩ := k4 hok
  have hacc0 : m.toC.access = 119 := by show modeChar m.wAccess = 119; rw [hacc]; rfl
  have hacc1 : (read2write m).1.toC.access = 119 := by show modeChar (read2write m).1.wAccess = 119; rw [e4]; rfl
  rw [cBitwrite_eq, cBitwrite_eq, wr_seg0_init fuel _ _ _ hc hacc0, wr_seg0_init fuel _ _ _ hc hacc1]
  have hmodeW : (wrS0 (read2write m).1.toC count data).rec_mode = 119 := by
    show modeChar (read2write m).1.wMode = 119; rw [e3]; rfl
  rw [wr_seg1_w fuel _ rfl hmodeW]
  have hmodeR : (wrS0 m.toC count data).rec_mode = 114 := by show modeChar m.wMode = 114; rw [hr]; rfl
  have h1 := (wr_seg1_r fuel (wrS0 m.toC count data) rfl hmodeR rfl).2
  rw [show cRead2write fuel (wrRec (wrS0 m.toC count data)) = cRead2write fuel m.toC from rfl] at h1
  have h1' := h1 (by rw [k3]; decide)
  rw [h1', k1, k2, e1]
  simp only [wrS0, wrInit, hacc0, hacc1, Bool.or_false]
